// Emitter of StsModel/Generated/Sends.lean: the channel choreography facts of
// client/client.go (types in StsModel/Model/PipelineFacts.lean):
//
//	chanOps       every channel send / receive / close / range of the file
//	capacities    the make(chan …) calls of Broker.Start
//	stageStarts   the start(broker.startX, &wgY, n) calls of Broker.Start
//	startSequence the wgX.Wait() / close(broker.chY) tail of Broker.Start
//	exits         every return / break of the choreography functions with its control path
//	stopChecks    every use of broker.shouldStopNow / broker.shouldStop in those functions
//
// Purely syntactic (no type checking): anything that does not have the expected shape is an
// error, collected in sends.errs, and no file is written.
package main

import (
	"fmt"
	"go/ast"
	"go/parser"
	"go/printer"
	"go/token"
	"os"
	"path/filepath"
	"sort"
	"strings"
)

// choreography lists the functions whose exits and stop checks are recorded (with their closures).
var choreography = []string{"Start", "startScan", "startQueue", "startBin", "startSend",
	"handleSendError", "stat", "startStats", "startTrack", "startValidate", "finish",
	"startRetry", "sendCh", "recvCh"}

// wgCtor maps the wait groups of Start to the constructors of Sts.Pipeline.WG.
var wgCtor = map[string]string{"wgScanned": "scanned", "wgQueued": "queued", "wgFailed": "failed",
	"wgTransmit": "transmit", "wgTransmitted": "transmitted", "wgStats": "stats",
	"wgValidate": "validate", "wgValidated": "validated"}

// chanCtor is the set of constructors of Sts.Pipeline.Chan.
var chanCtor = map[string]bool{"chStop": true, "chScanned": true, "chQueued": true, "chRetry": true,
	"chTransmit": true, "chTransmitted": true, "chStats": true, "chValidate": true}

// timedForm maps the stop predicate handed to sendCh / recvCh to the OpForm constructor.
var timedForm = map[string]string{"shouldStopNow": "timedStopNow", "shouldStop": "timedStop"}

type posItem struct {
	pos  token.Pos
	lean string
}

type sends struct {
	fset      *token.FileSet
	errs      []string
	chanField map[string]bool         // channel-typed fields of struct Broker
	litName   map[*ast.FuncLit]string // "<top>.func<k>"

	chanOps, exits, stopChecks     []posItem
	capacities, starts, startSteps []string
	stopSeq                        []string
}

func init() {
	emitters["sends"] = func(repo, out string) error {
		target := filepath.Join(out, "Sends.lean")
		content, err := emitSends(repo)
		if err == nil {
			err = sendsWriteAtomic(target, content)
		}
		if err != nil {
			os.Remove(target) // never leave facts of an older source behind
		}
		return err
	}
}

// sendsWriteAtomic writes content next to target and renames it into place.
func sendsWriteAtomic(target, content string) error {
	if err := os.MkdirAll(filepath.Dir(target), 0o755); err != nil {
		return err
	}
	tmp, err := os.CreateTemp(filepath.Dir(target), "."+filepath.Base(target)+".tmp*")
	if err != nil {
		return err
	}
	_, err = tmp.WriteString(content)
	if cerr := tmp.Close(); err == nil {
		err = cerr
	}
	if err == nil {
		err = os.Chmod(tmp.Name(), 0o644)
	}
	if err == nil {
		err = os.Rename(tmp.Name(), target)
	}
	if err != nil {
		os.Remove(tmp.Name())
	}
	return err
}


func emitSends(repo string) (string, error) {
	s := &sends{fset: token.NewFileSet(), chanField: map[string]bool{}, litName: map[*ast.FuncLit]string{}}
	path := filepath.Join(repo, "client", "client.go")
	file, err := parser.ParseFile(s.fset, path, nil, parser.SkipObjectResolution)
	if err != nil {
		return "", err
	}
	fields := s.brokerChanFields(file)
	decls := map[string]*ast.FuncDecl{}
	for _, d := range file.Decls {
		fd, ok := d.(*ast.FuncDecl)
		if !ok || fd.Body == nil {
			continue
		}
		listed := strings.Contains(" "+strings.Join(choreography, " ")+" ", " "+fd.Name.Name+" ")
		if listed && decls[fd.Name.Name] != nil {
			s.failf(fd.Pos(), "choreography function %s declared twice", fd.Name.Name)
		} else if listed {
			decls[fd.Name.Name] = fd
		}
		s.scanFunc(fd, listed)
	}
	for _, c := range choreography {
		if decls[c] == nil {
			s.failf(token.NoPos, "choreography function %s not found in %s", c, path)
		}
	}
	if start := decls["Start"]; start != nil {
		s.startFacts(start, fields)
		s.stopGoroutine(start)
	}
	if len(s.errs) > 0 {
		return "", fmt.Errorf("%s", strings.Join(s.errs, "\n"))
	}
	return s.render(), nil
}

func (s *sends) failf(pos token.Pos, format string, args ...any) {
	where := "client.go"
	if pos.IsValid() {
		p := s.fset.Position(pos)
		where = fmt.Sprintf("%s:%d:%d", filepath.Base(p.Filename), p.Line, p.Column)
	}
	s.errs = append(s.errs, "  "+where+": "+fmt.Sprintf(format, args...))
}

// src is the go/printer text of n with every run of whitespace collapsed to one space. The
// fresh FileSet makes the printer ignore the line breaks of the source (canonical text).
func (s *sends) src(n ast.Node) string {
	var b strings.Builder
	if err := printer.Fprint(&b, token.NewFileSet(), n); err != nil {
		s.failf(n.Pos(), "cannot print node: %v", err)
	}
	return strings.Join(strings.Fields(b.String()), " ")
}

// tight is src without any whitespace and without the `broker.Conf.` prefix.
func (s *sends) tight(n ast.Node) string {
	return strings.ReplaceAll(strings.ReplaceAll(s.src(n), " ", ""), "broker.Conf.", "")
}

func unparen(e ast.Expr) ast.Expr {
	for p, ok := e.(*ast.ParenExpr); ok; p, ok = e.(*ast.ParenExpr) {
		e = p.X
	}
	return e
}

// brokerSel returns X for the selector expression `broker.X`, otherwise "".
func brokerSel(e ast.Expr) string {
	if sel, ok := unparen(e).(*ast.SelectorExpr); ok {
		if id, ok := sel.X.(*ast.Ident); ok && id.Name == "broker" {
			return sel.Sel.Name
		}
	}
	return ""
}

// brokerChan returns chX for `broker.chX` when chX is a channel field of Broker, otherwise "".
func (s *sends) brokerChan(e ast.Expr) string {
	if name := brokerSel(e); s.chanField[name] {
		return name
	}
	return ""
}

// callee returns f for calls `f(…)` and `f[T](…)` of a plain identifier, otherwise "".
func callee(call *ast.CallExpr) string {
	fun := unparen(call.Fun)
	switch x := fun.(type) {
	case *ast.IndexExpr:
		fun = x.X
	case *ast.IndexListExpr:
		fun = x.X
	}
	if id, ok := fun.(*ast.Ident); ok {
		return id.Name
	}
	return ""
}

// makeChan returns the call when e is `make(chan T)` or `make(chan T, n)`.
func makeChan(e ast.Expr) *ast.CallExpr {
	if call, ok := unparen(e).(*ast.CallExpr); ok && callee(call) == "make" && len(call.Args) > 0 {
		if _, ok := call.Args[0].(*ast.ChanType); ok {
			return call
		}
	}
	return nil
}

// walk visits every node below root in syntactic order together with its ancestors
// (root first, the node itself excluded).
func walk(root ast.Node, visit func(n ast.Node, stack []ast.Node)) {
	var stack []ast.Node
	ast.Inspect(root, func(n ast.Node) bool {
		if n == nil {
			stack = stack[:len(stack)-1]
			return true
		}
		visit(n, stack)
		stack = append(stack, n)
		return true
	})
}

func (s *sends) brokerChanFields(file *ast.File) []string {
	var fields []string
	ast.Inspect(file, func(n ast.Node) bool {
		ts, ok := n.(*ast.TypeSpec)
		if !ok || ts.Name.Name != "Broker" {
			return true
		}
		if st, ok := ts.Type.(*ast.StructType); ok {
			for _, f := range st.Fields.List {
				if _, isChan := f.Type.(*ast.ChanType); isChan {
					for _, name := range f.Names {
						fields = append(fields, name.Name)
						s.chanField[name.Name] = true
					}
				}
			}
		}
		return false
	})
	if len(fields) == 0 {
		s.failf(token.NoPos, "struct Broker with channel-typed fields not found")
	}
	return fields
}

// channelNames returns, for one top-level function (closures included), the local aliases
// of Broker channels (`in := broker.chScanned`) and the identifiers declared with a
// channel type (parameters, `var x chan T`, `x := make(chan T)`).
func (s *sends) channelNames(fd *ast.FuncDecl) (alias map[string]string, local map[string]bool) {
	alias, local = map[string]string{}, map[string]bool{}
	other := map[string]token.Pos{} // identifiers assigned from something else than nil / broker.chX
	assign := func(lhs, rhs ast.Expr) {
		id, ok := lhs.(*ast.Ident)
		if !ok {
			return
		}
		rhs = unparen(rhs)
		if ch := s.brokerChan(rhs); ch != "" {
			if old := alias[id.Name]; old != "" && old != ch {
				s.failf(lhs.Pos(), "%s: %s is assigned from broker.%s and broker.%s", fd.Name.Name, id.Name, old, ch)
			}
			alias[id.Name] = ch
		} else if makeChan(rhs) != nil {
			local[id.Name] = true
		} else if nilID, ok := rhs.(*ast.Ident); !ok || nilID.Name != "nil" {
			other[id.Name] = lhs.Pos()
		}
	}
	ast.Inspect(fd, func(n ast.Node) bool {
		switch x := n.(type) {
		case *ast.FuncType:
			for _, f := range x.Params.List {
				if _, ok := f.Type.(*ast.ChanType); ok {
					for _, name := range f.Names {
						local[name.Name] = true
					}
				}
			}
		case *ast.AssignStmt:
			for i := range x.Lhs {
				if len(x.Lhs) == len(x.Rhs) {
					assign(x.Lhs[i], x.Rhs[i])
				} else if id, ok := x.Lhs[i].(*ast.Ident); ok {
					other[id.Name] = id.Pos()
				}
			}
		case *ast.ValueSpec:
			_, isChan := x.Type.(*ast.ChanType)
			for i, name := range x.Names {
				local[name.Name] = local[name.Name] || isChan
				if len(x.Values) == len(x.Names) {
					assign(name, x.Values[i])
				}
			}
		}
		return true
	})
	for name, pos := range other {
		if alias[name] != "" {
			s.failf(pos, "%s: alias %s of broker.%s is also assigned from another expression", fd.Name.Name, name, alias[name])
		}
	}
	return alias, local
}

// scanFunc records the channel operations of one top-level function and, when it is a
// choreography function, its exits and stop checks.
func (s *sends) scanFunc(fd *ast.FuncDecl, listed bool) {
	k := 0
	ast.Inspect(fd.Body, func(n ast.Node) bool {
		if lit, ok := n.(*ast.FuncLit); ok {
			k++
			s.litName[lit] = fmt.Sprintf("%s.func%d", fd.Name.Name, k)
		}
		return true
	})
	alias, local := s.channelNames(fd)
	resolve := func(e ast.Expr) string { // name of a channel operand
		e = unparen(e)
		if ch := s.brokerChan(e); ch != "" {
			return ch
		}
		if id, ok := e.(*ast.Ident); ok && alias[id.Name] != "" {
			return alias[id.Name]
		}
		return strings.ReplaceAll(s.src(e), " ", "")
	}
	walk(fd, func(n ast.Node, stack []ast.Node) {
		fn, base := fd.Name.Name, 0 // enclosing function and index of its first node in stack
		for i := len(stack) - 1; i >= 0 && base == 0; i-- {
			if lit, ok := stack[i].(*ast.FuncLit); ok {
				fn, base = s.litName[lit], i+1
			}
		}
		op := func(pos token.Pos, kind string, ch ast.Expr, form string) {
			s.chanOps = append(s.chanOps, posItem{pos, fmt.Sprintf("{ fn := %s, kind := .%s, chan := %s, form := .%s }",
				quote(fn), kind, quote(resolve(ch)), form)})
		}
		commForm := func(stmt ast.Node, above []ast.Node) string { // stmt is the Comm of a select case?
			if len(above) > 0 {
				if cc, ok := above[len(above)-1].(*ast.CommClause); ok && ast.Node(cc.Comm) == stmt {
					return "selectCase"
				}
			}
			return "bare"
		}
		switch x := n.(type) {
		case *ast.SendStmt:
			op(x.Arrow, "send", x.Chan, commForm(x, stack))
		case *ast.UnaryExpr:
			if x.Op != token.ARROW {
				break
			}
			i := len(stack) - 1 // the statement the receive is the whole (right-hand) expression of
			for ; i > 0; i-- {
				if _, ok := stack[i].(*ast.ParenExpr); !ok {
					break
				}
			}
			form := "bare"
			switch st := stack[i].(type) {
			case *ast.ExprStmt:
				form = commForm(st, stack[:i])
			case *ast.AssignStmt:
				if len(st.Rhs) == 1 && unparen(st.Rhs[0]) == ast.Expr(x) {
					form = commForm(st, stack[:i])
				}
			}
			op(x.OpPos, "recv", x.X, form)
		case *ast.RangeStmt:
			rx := unparen(x.X)
			id, _ := rx.(*ast.Ident)
			if s.brokerChan(rx) != "" || (id != nil && (alias[id.Name] != "" || local[id.Name])) {
				op(x.For, "recv", x.X, "rangeLoop")
			}
		case *ast.CallExpr:
			name := callee(x)
			want := map[string]int{"close": 1, "sendCh": 4, "recvCh": 3}[name]
			if want == 0 {
				break
			}
			if len(x.Args) != want {
				s.failf(x.Pos(), "%s: %s called with %d arguments, expected %d", fn, name, len(x.Args), want)
			} else if name == "close" {
				op(x.Pos(), "close", x.Args[0], "bare")
			} else if form := timedForm[brokerSel(x.Args[0])]; form == "" {
				s.failf(x.Pos(), "%s: first argument of %s is %s, expected broker.shouldStopNow or broker.shouldStop", fn, name, s.src(x.Args[0]))
			} else {
				op(x.Pos(), map[string]string{"sendCh": "send", "recvCh": "recv"}[name], x.Args[1], form)
			}
		}
		if !listed {
			return
		}
		chain := append(append([]ast.Node{}, stack[base:]...), n) // from the function down to n
		switch x := n.(type) {
		case *ast.ReturnStmt:
			s.exit(x.Pos(), fn, s.src(x), chain) // "return", "return a, b"
		case *ast.BranchStmt:
			if x.Tok == token.BREAK {
				s.exit(x.Pos(), fn, s.src(x), chain) // "break", "break LABEL"
			}
		case *ast.SelectorExpr:
			pred := brokerSel(x)
			if timedForm[pred] == "" {
				break
			}
			ctx := "other"
			if call, ok := stack[len(stack)-1].(*ast.CallExpr); ok && call.Fun == ast.Expr(x) {
				for i, a := range chain[:len(chain)-1] {
					is, isIf := a.(*ast.IfStmt)
					fs, isFor := a.(*ast.ForStmt)
					if (isIf && ast.Node(is.Cond) == chain[i+1]) || (isFor && fs.Cond != nil && ast.Node(fs.Cond) == chain[i+1]) {
						ctx = "cond"
					}
				}
			} else if ok {
				ctx = "arg"
			}
			s.stopChecks = append(s.stopChecks, posItem{x.Pos(), fmt.Sprintf("(%s, %s, %s)", quote(fn), quote(pred), quote(ctx))})
		}
	})
}

// exit records a return / break; chain is the node chain from the enclosing function to the statement.
func (s *sends) exit(pos token.Pos, fn, stmt string, chain []ast.Node) {
	var path []string
	withInit := func(kw string, init ast.Stmt, rest ast.Node) string {
		parts := []string{kw}
		if init != nil {
			parts = append(parts, s.src(init)+";")
		}
		if rest != nil {
			parts = append(parts, s.src(rest))
		}
		return strings.Join(parts, " ")
	}
	for i, a := range chain[:len(chain)-1] {
		child := chain[i+1]
		switch x := a.(type) {
		case *ast.ForStmt:
			if child == ast.Node(x.Body) {
				path = append(path, withInit("for", nil, x.Cond))
			}
		case *ast.RangeStmt:
			if child == ast.Node(x.Body) {
				path = append(path, "range "+s.src(x.X))
			}
		case *ast.IfStmt:
			if child == ast.Node(x.Body) {
				path = append(path, withInit("if", x.Init, x.Cond))
			} else if child == ast.Node(x.Else) {
				path = append(path, withInit("if", x.Init, x.Cond), "else")
			}
		case *ast.SelectStmt:
			path = append(path, "select")
		case *ast.SwitchStmt:
			path = append(path, withInit("switch", x.Init, x.Tag))
		case *ast.TypeSwitchStmt:
			path = append(path, withInit("typeswitch", x.Init, x.Assign))
		case *ast.CommClause:
			if x.Comm == nil {
				path = append(path, "default")
			} else {
				path = append(path, "case "+s.src(x.Comm))
			}
		case *ast.CaseClause:
			var es []string
			for _, e := range x.List {
				es = append(es, s.src(e))
			}
			if x.List == nil {
				path = append(path, "default")
			} else {
				path = append(path, "case "+strings.Join(es, ", "))
			}
		case *ast.LabeledStmt:
			path = append(path, "label "+x.Label.Name)
		}
	}
	for i := range path {
		path[i] = quote(path[i])
	}
	s.exits = append(s.exits, posItem{pos, fmt.Sprintf("{ fn := %s, stmt := %s, path := [%s] }", quote(fn), quote(stmt), strings.Join(path, ", "))})
}

// startFacts extracts capacities, stageStarts and startSequence from the top-level
// statements of Broker.Start and checks that nothing of these shapes occurs elsewhere in it.
func (s *sends) startFacts(fd *ast.FuncDecl, fields []string) {
	made := map[string]bool{}
	lastStart := -1
	for i, st := range fd.Body.List {
		switch x := st.(type) {
		case *ast.AssignStmt:
			if len(x.Lhs) != 1 || len(x.Rhs) != 1 || makeChan(x.Rhs[0]) == nil {
				break
			}
			mk, name, capacity := makeChan(x.Rhs[0]), brokerSel(x.Lhs[0]), "0"
			if id, ok := x.Lhs[0].(*ast.Ident); ok {
				name = id.Name
			}
			if name == "" || made[name] || len(mk.Args) > 2 {
				s.failf(x.Pos(), "Start: unexpected make(chan) assignment %s", s.src(x))
			}
			if len(mk.Args) == 2 {
				capacity = s.tight(mk.Args[1])
			}
			made[name] = true
			s.capacities = append(s.capacities, fmt.Sprintf("(%s, %s)", quote(name), quote(capacity)))
		case *ast.ExprStmt:
			call, ok := x.X.(*ast.CallExpr)
			if !ok || callee(call) != "start" {
				break
			}
			lastStart = i
			var wg string
			if len(call.Args) == 3 {
				if amp, ok := call.Args[1].(*ast.UnaryExpr); ok && amp.Op == token.AND {
					if id, ok := amp.X.(*ast.Ident); ok {
						wg = wgCtor[id.Name]
					}
				}
			}
			if wg == "" || !strings.HasPrefix(brokerSel(call.Args[0]), "start") {
				s.failf(x.Pos(), "Start: expected start(broker.startX, &wgY, n) with a known wait group, found %s", s.src(x))
				break
			}
			s.starts = append(s.starts, fmt.Sprintf("{ fn := %s, wg := .%s, count := %s }",
				quote(brokerSel(call.Args[0])), wg, quote(s.tight(call.Args[2]))))
		}
	}
	// the tail after the last start(…): only expression statements, Wait()/close recorded
	inSeq := map[*ast.CallExpr]bool{}
	isWait := func(c *ast.CallExpr) bool {
		sel, ok := unparen(c.Fun).(*ast.SelectorExpr)
		return ok && sel.Sel.Name == "Wait"
	}
	for _, st := range fd.Body.List[lastStart+1:] {
		es, ok := st.(*ast.ExprStmt)
		if !ok {
			s.failf(st.Pos(), "Start: statement after the last start(…) is not an expression statement: %s", s.src(st))
			continue
		}
		call, ok := es.X.(*ast.CallExpr)
		if !ok {
			continue
		}
		step := ""
		if isWait(call) {
			if id, ok := unparen(call.Fun).(*ast.SelectorExpr).X.(*ast.Ident); ok && wgCtor[id.Name] != "" && len(call.Args) == 0 {
				step = ".wait ." + wgCtor[id.Name]
			}
		} else if callee(call) == "close" {
			if len(call.Args) == 1 && chanCtor[s.brokerChan(call.Args[0])] {
				step = ".close ." + s.brokerChan(call.Args[0])
			}
		} else {
			continue
		}
		if step == "" {
			s.failf(st.Pos(), "Start: unknown wait group or channel in %s", s.src(st))
		}
		inSeq[call] = true
		s.startSteps = append(s.startSteps, step)
	}
	// shape checks over the whole of Start
	nMake, nStart := 0, 0
	walk(fd.Body, func(n ast.Node, stack []ast.Node) {
		call, ok := n.(*ast.CallExpr)
		if !ok {
			return
		}
		if makeChan(call) != nil {
			nMake++
		}
		if callee(call) == "start" {
			nStart++
		}
		inLit := false
		for _, a := range stack {
			_, isLit := a.(*ast.FuncLit)
			inLit = inLit || isLit
		}
		if !inLit && !inSeq[call] && (isWait(call) || callee(call) == "close") {
			s.failf(call.Pos(), "Start: %s is not a top-level statement after the last start(…)", s.src(call))
		}
	})
	if nMake != len(s.capacities) || nMake < 8 {
		s.failf(fd.Pos(), "Start: %d make(chan) calls, %d of them top-level assignments; expected at least 8, all top-level", nMake, len(s.capacities))
	}
	for _, f := range fields {
		if !made[f] {
			s.failf(fd.Pos(), "Start: channel field Broker.%s is not created by a top-level make(chan)", f)
		}
	}
	if nStart != 8 || len(s.starts) != 8 {
		s.failf(fd.Pos(), "Start: %d start(…) calls, %d of the expected top-level shape; expected exactly 8", nStart, len(s.starts))
	}
	if len(s.startSteps) == 0 {
		s.failf(fd.Pos(), "Start: no wgX.Wait() / close(broker.chY) found after the start(…) calls")
	}
}

// quote renders a Lean string literal.
// stopGoroutine records, in source order, the top-level statements of the goroutine in Start that turns a
// stop request into the broker's stop state (the function literal that receives from `stop`): the stop flags
// must be published before the broadcast on chStop, because everything but the idle scanner learns about a
// stop from the flags only.
func (s *sends) stopGoroutine(fd *ast.FuncDecl) {
	var lit *ast.FuncLit
	ast.Inspect(fd.Body, func(n ast.Node) bool {
		fl, ok := n.(*ast.FuncLit)
		if !ok || lit != nil {
			return true
		}
		found := false
		ast.Inspect(fl.Body, func(m ast.Node) bool {
			if u, ok := m.(*ast.UnaryExpr); ok && u.Op == token.ARROW {
				if id, ok := unparen(u.X).(*ast.Ident); ok && id.Name == "stop" {
					found = true
				}
			}
			return true
		})
		if found {
			lit = fl
		}
		return true
	})
	if lit == nil {
		s.failf(fd.Pos(), "Start: no goroutine receiving from the stop channel found")
		return
	}
	for _, st := range lit.Body.List {
		s.stopSeq = append(s.stopSeq, quote(strings.Join(strings.Fields(strings.Split(s.src(st), "{")[0]), " ")))
	}
}

func quote(str string) string {
	return `"` + strings.NewReplacer(`\`, `\\`, `"`, `\"`).Replace(str) + `"`
}

func (s *sends) render() string {
	var b strings.Builder
	list := func(doc, name, typ string, items []string) {
		fmt.Fprintf(&b, "/-- %s -/\ndef %s : %s := [", doc, name, typ)
		if len(items) > 0 {
			b.WriteString("\n  " + strings.Join(items, ",\n  ") + "\n")
		}
		b.WriteString("]\n\n")
	}
	ordered := func(items []posItem) []string {
		sort.SliceStable(items, func(i, j int) bool { return items[i].pos < items[j].pos })
		var out []string
		for _, it := range items {
			out = append(out, it.lean)
		}
		return out
	}
	b.WriteString("-- GENERATED by /verif/extract from client/client.go — do not edit; regenerated on every check run.\n")
	b.WriteString("import StsModel.Model.PipelineFacts\nnamespace Sts.Pipeline.Generated\n\n")
	list("every channel send / receive / close in client.go, in source order", "chanOps", "List ChanOp", ordered(s.chanOps))
	list("`make(chan …)` calls in `Start`: channel, capacity expression (\"0\" = unbuffered)", "capacities", "List (String × String)", s.capacities)
	list("`start(broker.startX, &wgY, n)` calls in `Start`, in source order", "stageStarts", "List StageStart", s.starts)
	list("the `wgX.Wait()` / `close(broker.chY)` statements of `Start` after the stages were started, in order", "startSequence", "List StartStep", s.startSteps)
	list("the top-level statements (text up to the first brace) of the goroutine in `Start` that receives the stop request, in order", "stopGoroutine", "List String", s.stopSeq)
	list("every `return` / `break` of the choreography functions with its enclosing control constructs", "exits", "List ExitStmt", ordered(s.exits))
	list("every call of a stop predicate (`broker.shouldStopNow()` / `broker.shouldStop()`), or use of one as a\n"+
		"    function value (argument of sendCh/recvCh), in the choreography functions, in source order: (function, predicate, context)\n"+
		"    where context is \"cond\" when the call occurs inside an `if`/`for` condition, \"arg\" when the method value is passed as an argument",
		"stopChecks", "List (String × String × String)", ordered(s.stopChecks))
	b.WriteString("end Sts.Pipeline.Generated\n")
	return b.String()
}
