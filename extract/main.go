// extract: tie T3 — re-reads ARM-DOE/sts's source (go/parser, go/ast only) and regenerates
// lean/StsModel/Generated/*.lean: facts about the code that the model's theorems assume
// (statement order of durable steps, …). It fails loudly when it no longer finds the shape
// it expects; ./check treats that like a broken proof obligation.
package main

import (
	"flag"
	"fmt"
	"os"
)

type emitter func(repo, out string) error

var emitters = map[string]emitter{}

func main() {
	repo := flag.String("repo", "/repo", "repository root")
	out := flag.String("out", "", "directory of StsModel/Generated")
	flag.Parse()
	if *out == "" {
		fmt.Fprintln(os.Stderr, "usage: extract -repo DIR -out DIR")
		os.Exit(2)
	}
	os.MkdirAll(*out, 0o755)
	rc := 0
	for name, e := range emitters {
		if err := e(*repo, *out); err != nil {
			fmt.Fprintf(os.Stderr, "extract %s: %v\n", name, err)
			rc = 1
		}
	}
	os.Exit(rc)
}
