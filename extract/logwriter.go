package main

// LogWriter: the shape of package log (log/local.go and its siblings) that the model of
// the concurrent log writer (Model/LogWriter.lean, property C18) assumes:
//   - which channels exist, with which capacity, and who sends / receives / ranges on them;
//   - which goroutines are started and what they run;
//   - who calls rollingFile.log / rotate and every other method of a field named `logger`;
//   - every use of the file handle `fh`;
//   - the calls of rollingFile.log in statement order (one Println of the whole message);
//   - what Sent / Received put on the channel (one fmt.Sprintf);
//   - every place a file is opened, with the flag expression split at `|`;
//   - every other call that writes to something by name (Write*, Fprint*, io.Copy, …).
// `Props/C18Writer.lean` proves the regenerated tables equal to `LogWriter.Expected.*` and
// that every opening for writing has O_APPEND and O_CREATE and no O_TRUNC.

import (
	"fmt"
	"go/ast"
	"go/parser"
	"go/token"
	"os"
	"path/filepath"
	"sort"
	"strings"
)

func init() { emitters["logwriter"] = emitLogWriter }

// lwExpr renders an expression as source-like text (arguments included, closures as "func")
func lwExpr(e ast.Expr) string {
	switch x := e.(type) {
	case nil:
		return ""
	case *ast.Ident:
		return x.Name
	case *ast.SelectorExpr:
		return lwExpr(x.X) + "." + x.Sel.Name
	case *ast.BinaryExpr:
		return lwExpr(x.X) + x.Op.String() + lwExpr(x.Y)
	case *ast.UnaryExpr:
		return x.Op.String() + lwExpr(x.X)
	case *ast.StarExpr:
		return "*" + lwExpr(x.X)
	case *ast.BasicLit:
		return x.Value
	case *ast.ParenExpr:
		return "(" + lwExpr(x.X) + ")"
	case *ast.FuncLit:
		return "func"
	case *ast.IndexExpr:
		return lwExpr(x.X) + "[" + lwExpr(x.Index) + "]"
	case *ast.ChanType:
		return "chan " + lwExpr(x.Value)
	case *ast.ArrayType:
		return "[" + lwExpr(x.Len) + "]" + lwExpr(x.Elt)
	case *ast.InterfaceType:
		return "interface{}"
	case *ast.CompositeLit:
		return lwExpr(x.Type) + "{..}"
	case *ast.CallExpr:
		return lwExpr(x.Fun) + "(" + strings.Join(lwArgs(x), ", ") + ")"
	}
	return "?"
}

func lwArgs(c *ast.CallExpr) []string {
	out := []string{}
	for i, a := range c.Args {
		s := lwExpr(a)
		if i == len(c.Args)-1 && c.Ellipsis.IsValid() {
			s += "..."
		}
		out = append(out, s)
	}
	return out
}

// lwFlags splits a flag expression at `|`
func lwFlags(e ast.Expr) []string {
	if b, ok := e.(*ast.BinaryExpr); ok && b.Op == token.OR {
		return append(lwFlags(b.X), lwFlags(b.Y)...)
	}
	if p, ok := e.(*ast.ParenExpr); ok {
		return lwFlags(p.X)
	}
	switch e.(type) {
	case *ast.SelectorExpr, *ast.Ident, *ast.BasicLit:
		return []string{lwExpr(e)}
	}
	return []string{"?"} // not a plain `a|b|c` of names: the obligation rejects it
}

func lwLastSel(e ast.Expr) string {
	if s, ok := e.(*ast.SelectorExpr); ok {
		return s.Sel.Name
	}
	if id, ok := e.(*ast.Ident); ok {
		return id.Name
	}
	return ""
}

type lwFacts struct {
	chanMakes    [][]string
	chanOps      [][]string
	goStmts      [][]string
	rollingFiles []string // rendered rows
	loggerCalls  []string // rendered rows
	fhUses       [][]string
	logBody      []string
	rotateCalls  []string
	lineSends    [][]string
	openSites    [][]string
	openFlags    []string // rendered rows
	otherWrites  [][]string
}

var lwWriteNames = map[string]bool{
	"Write": true, "WriteString": true, "WriteAt": true, "WriteTo": true, "ReadFrom": true, "Truncate": true,
	"Fprint": true, "Fprintf": true, "Fprintln": true, "Copy": true, "CopyN": true, "CopyBuffer": true,
	"WriteFile": true, "Pwrite": true, "Seek": true,
}

var lwOpenNames = map[string]bool{"OpenFile": true, "Open": true, "Create": true, "CreateTemp": true, "open": true, "NewFile": true}

// lwWalk visits the body of one function; closures get the name <fn>.func<N> (numbered in
// source order per top-level function, as the Go compiler does)
func (fa *lwFacts) walk(fn string, body ast.Node, counter *int, top string) {
	var parents []ast.Node
	ast.Inspect(body, func(n ast.Node) bool {
		if n == nil {
			parents = parents[:len(parents)-1]
			return true
		}
		var parent ast.Node
		if len(parents) > 0 {
			parent = parents[len(parents)-1]
		}
		descend := true
		switch x := n.(type) {
		case *ast.FuncLit:
			*counter++
			name := fmt.Sprintf("%s.func%d", top, *counter)
			if g, ok := parent.(*ast.CallExpr); ok {
				if len(parents) > 1 {
					if gs, ok := parents[len(parents)-2].(*ast.GoStmt); ok && gs.Call == g && g.Fun == x {
						fa.goStmts = append(fa.goStmts, []string{fn, name})
					}
				}
			}
			fa.walk(name, x.Body, counter, top)
			descend = false
		case *ast.GoStmt:
			if _, isLit := x.Call.Fun.(*ast.FuncLit); !isLit {
				fa.goStmts = append(fa.goStmts, []string{fn, lwExpr(x.Call.Fun)})
			}
		case *ast.SendStmt:
			fa.chanOps = append(fa.chanOps, []string{fn, "send", lwExpr(x.Chan)})
			if lwLastSel(x.Chan) == "logCh" && (strings.HasPrefix(fn, "FileIO.")) {
				fa.lineSends = append(fa.lineSends, []string{fn, lwExpr(x.Chan), lwExpr(x.Value)})
			}
		case *ast.UnaryExpr:
			if x.Op == token.ARROW {
				fa.chanOps = append(fa.chanOps, []string{fn, "recv", lwExpr(x.X)})
			}
		case *ast.RangeStmt:
			// a range over a channel-typed field: recognised by the name (…Ch)
			if s := lwLastSel(x.X); strings.HasSuffix(s, "Ch") {
				fa.chanOps = append(fa.chanOps, []string{fn, "range", lwExpr(x.X)})
			}
		case *ast.KeyValueExpr:
			// struct literal fields: `logCh: make(chan string)`, `logger: newRollingFile(...)`
			if c, ok := x.Value.(*ast.CallExpr); ok {
				fa.makeOrNew(fn, lwExpr(x.Key), c)
			}
		case *ast.AssignStmt:
			for i, r := range x.Rhs {
				if c, ok := r.(*ast.CallExpr); ok && i < len(x.Lhs) {
					fa.makeOrNew(fn, lwLastSel(x.Lhs[i]), c)
				}
			}
		case *ast.CallExpr:
			callee := lwExpr(x.Fun)
			last := lwLastSel(x.Fun)
			if callee == "close" && len(x.Args) == 1 {
				fa.chanOps = append(fa.chanOps, []string{fn, "close", lwExpr(x.Args[0])})
			}
			if sel, ok := x.Fun.(*ast.SelectorExpr); ok {
				if lwLastSel(sel.X) == "logger" {
					fa.loggerCalls = append(fa.loggerCalls, fmt.Sprintf("(%q, %q, %q, %s)", fn, lwExpr(sel.X), sel.Sel.Name, leanList(lwArgs(x))))
				}
				if sel.Sel.Name == "rotate" {
					fa.rotateCalls = append(fa.rotateCalls, fn)
				}
			}
			if fn == "rollingFile.log" {
				fa.logBody = append(fa.logBody, callee)
			}
			if lwOpenNames[last] {
				fa.openSites = append(fa.openSites, []string{fn, callee})
				flags := []string{}
				if len(x.Args) >= 2 && last != "Open" && last != "Create" {
					flags = lwFlags(x.Args[1])
				}
				if last == "Create" || last == "CreateTemp" {
					flags = []string{"os.O_RDWR", "os.O_CREATE", "os.O_TRUNC"}
				}
				fa.openFlags = append(fa.openFlags, fmt.Sprintf("(%q, %q, %s)", fn, callee, leanList(flags)))
			}
			if lwWriteNames[last] {
				first := ""
				if len(x.Args) > 0 {
					first = lwExpr(x.Args[0])
				}
				fa.otherWrites = append(fa.otherWrites, []string{fn, callee, first})
			}
		case *ast.SelectorExpr:
			if x.Sel.Name == "fh" {
				fa.fhUses = append(fa.fhUses, []string{fn, lwFhUse(x, parent, parents)})
			}
		}
		if descend {
			parents = append(parents, n)
		}
		return descend
	})
}

func (fa *lwFacts) makeOrNew(fn, target string, c *ast.CallExpr) {
	switch lwExpr(c.Fun) {
	case "make":
		if len(c.Args) >= 1 {
			if ct, ok := c.Args[0].(*ast.ChanType); ok {
				capacity := "0"
				if len(c.Args) >= 2 {
					capacity = lwExpr(c.Args[1])
				}
				fa.chanMakes = append(fa.chanMakes, []string{fn, target, lwExpr(ct), capacity})
			}
		}
	case "newRollingFile":
		fa.rollingFiles = append(fa.rollingFiles, fmt.Sprintf("(%q, %s)", fn, leanList(lwArgs(c))))
	}
}

// lwFhUse says how one occurrence of `<x>.fh` is used
func lwFhUse(x *ast.SelectorExpr, parent ast.Node, parents []ast.Node) string {
	switch p := parent.(type) {
	case *ast.BinaryExpr:
		return "cmp:" + lwExpr(p)
	case *ast.SelectorExpr:
		// <x>.fh.M — a method call if the grandparent is a call of it
		if len(parents) > 1 {
			if c, ok := parents[len(parents)-2].(*ast.CallExpr); ok && c.Fun == p {
				return "call:" + p.Sel.Name
			}
		}
		return "field:" + p.Sel.Name
	case *ast.CallExpr:
		return "arg:" + lwExpr(p.Fun)
	case *ast.AssignStmt:
		for _, l := range p.Lhs {
			if l == ast.Expr(x) {
				if len(p.Rhs) == 1 {
					if c, ok := p.Rhs[0].(*ast.CallExpr); ok {
						return "assign:" + lwExpr(c.Fun)
					}
					return "assign:" + lwExpr(p.Rhs[0])
				}
				return "assign"
			}
		}
		return "read:" + lwExpr(p.Lhs[0])
	case *ast.KeyValueExpr:
		return "init"
	}
	return fmt.Sprintf("other:%T", parent)
}

func lwRows(rows [][]string) string {
	var out []string
	for _, r := range rows {
		q := make([]string, len(r))
		for i, x := range r {
			q[i] = fmt.Sprintf("%q", x)
		}
		out = append(out, "("+strings.Join(q, ", ")+")")
	}
	return lwRendered(out)
}

func lwRendered(rows []string) string {
	if len(rows) == 0 {
		return "[]"
	}
	return "[\n   " + strings.Join(rows, ",\n   ") + "]"
}

func emitLogWriter(repo, out string) error {
	dir := filepath.Join(repo, "log")
	ents, err := os.ReadDir(dir)
	if err != nil {
		return err
	}
	var files []string
	for _, e := range ents {
		n := e.Name()
		if strings.HasSuffix(n, ".go") && !strings.HasSuffix(n, "_test.go") {
			files = append(files, n)
		}
	}
	// local.go first (its order is the order of the expected tables), the siblings after it
	sort.Slice(files, func(i, j int) bool {
		if (files[i] == "local.go") != (files[j] == "local.go") {
			return files[i] == "local.go"
		}
		return files[i] < files[j]
	})
	fa := &lwFacts{}
	seen := map[string]bool{}
	for _, name := range files {
		fset := token.NewFileSet()
		f, err := parser.ParseFile(fset, filepath.Join(dir, name), nil, 0)
		if err != nil {
			return err
		}
		for _, d := range f.Decls {
			fn, ok := d.(*ast.FuncDecl)
			if !ok || fn.Body == nil {
				continue
			}
			fname := fn.Name.Name
			if fn.Recv != nil && len(fn.Recv.List) == 1 {
				t := fn.Recv.List[0].Type
				if s, ok := t.(*ast.StarExpr); ok {
					t = s.X
				}
				fname = lwExpr(t) + "." + fname
			}
			seen[fname] = true
			n := 0
			fa.walk(fname, fn.Body, &n, fname)
		}
	}
	for _, w := range []string{"NewFileIO", "FileIO.Sent", "FileIO.Received", "rollingFile.log", "rollingFile.rotate"} {
		if !seen[w] {
			return fmt.Errorf("function %s not found in %s (the code was refactored: re-anchor the extractor)", w, dir)
		}
	}
	var b strings.Builder
	b.WriteString("/- GENERATED by /verif/extract (logwriter.go) from the current working tree of /repo/log — do not edit;\n   regenerated on every check run. Obligations: StsModel/Props/C18Writer.lean. -/\nnamespace Sts.LogWriter.Generated\n\n")
	fmt.Fprintf(&b, "/-- `make(chan …)`: (function, field, type, capacity) -/\ndef chanMakes : List (String × String × String × String) :=\n  %s\n\n", lwRows(fa.chanMakes))
	fmt.Fprintf(&b, "/-- channel operations: (function, kind, channel) -/\ndef chanOps : List (String × String × String) :=\n  %s\n\n", lwRows(fa.chanOps))
	fmt.Fprintf(&b, "/-- `go` statements: (function, what is started) -/\ndef goStmts : List (String × String) :=\n  %s\n\n", lwRows(fa.goStmts))
	fmt.Fprintf(&b, "/-- `newRollingFile` calls: (function, arguments) -/\ndef rollingFiles : List (String × List String) :=\n  %s\n\n", lwRendered(fa.rollingFiles))
	fmt.Fprintf(&b, "/-- method calls on a field named `logger`: (function, receiver, method, arguments) -/\ndef loggerCalls : List (String × String × String × List String) :=\n  %s\n\n", lwRendered(fa.loggerCalls))
	fmt.Fprintf(&b, "/-- uses of the file handle `fh`: (function, use) -/\ndef fhUses : List (String × String) :=\n  %s\n\n", lwRows(fa.fhUses))
	fmt.Fprintf(&b, "/-- calls of `rollingFile.log`, in statement order -/\ndef logBody : List String :=\n  %s\n\n", leanList(fa.logBody))
	fmt.Fprintf(&b, "/-- callers of `rotate` -/\ndef rotateCallers : List String :=\n  %s\n\n", leanList(fa.rotateCalls))
	fmt.Fprintf(&b, "/-- values sent on `logCh` by methods of `FileIO`: (function, channel, value) -/\ndef lineSends : List (String × String × String) :=\n  %s\n\n", lwRows(fa.lineSends))
	fmt.Fprintf(&b, "/-- places where a file is opened: (function, callee) -/\ndef openSites : List (String × String) :=\n  %s\n\n", lwRows(fa.openSites))
	fmt.Fprintf(&b, "/-- the same with the flag expression split at `|` (`os.Open`: none; `os.Create`: its fixed flags) -/\ndef openFlags : List (String × String × List String) :=\n  %s\n\n", lwRendered(fa.openFlags))
	fmt.Fprintf(&b, "/-- other calls that write by name: (function, callee, first argument) -/\ndef otherWrites : List (String × String × String) :=\n  %s\n\n", lwRows(fa.otherWrites))
	b.WriteString("end Sts.LogWriter.Generated\n")
	return writeIfChanged(filepath.Join(out, "LogWriter.lean"), b.String())
}
