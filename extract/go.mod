module verif/extract

go 1.25.0
