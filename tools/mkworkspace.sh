#!/bin/bash
# tools/mkworkspace.sh <name>: private copy of /verif plus a git worktree of /repo under /tmp/ws/<name>
# (for building a component in isolation; results are copied back by hand).
set -e
n=$1; [ -n "$n" ] || { echo "usage: $0 <name>"; exit 2; }
ws=/tmp/ws/$n
rm -rf "$ws/verif"; mkdir -p "$ws"
rsync -a --exclude .git --exclude .build --exclude lean/.lake --exclude replays /verif/ "$ws/verif/"
if [ ! -d "$ws/repo" ]; then git -C /repo worktree add --detach "$ws/repo" HEAD >/dev/null; fi
sed -i "s#=> /repo#=> $ws/repo#" "$ws/verif/harness/go.mod"
echo "workspace: $ws   (run: cd $ws/verif && VERIF_REPO=$ws/repo ./check --setup)"
