#!/usr/bin/env python3
"""tools/import_entry.py <workspace-verif-dir> <Cxx>...: copy registry entries of an agent workspace into tools/props/."""
import sys, json, importlib.util, os
ws = sys.argv[1]
spec = importlib.util.spec_from_file_location("wsreg", os.path.join(ws, "tools", "registry.py"))
m = importlib.util.module_from_spec(spec); spec.loader.exec_module(m)
for pid in sys.argv[2:]:
    json.dump(m.PROPS[pid], open(os.path.join(os.path.dirname(os.path.abspath(__file__)), "props", pid + ".json"), "w"), indent=1)
    print("imported", pid)
