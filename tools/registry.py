"""Registry of the property checks: one JSON file per claimed property in tools/props/
(which Lean modules hold the property's theorems, which harness components tie the model to
/repo, how many generated cases each tier runs, the level text for the manifest)."""
import json, os, glob

_here = os.path.dirname(os.path.abspath(__file__))
PROPS = {}
for _p in sorted(glob.glob(os.path.join(_here, "props", "C*.json"))):
    PROPS[os.path.basename(_p)[:-5]] = json.load(open(_p))

# properties not (yet) claimed, with the reason that goes into MANIFEST.not_applicable
NOT_CLAIMED = {
}
