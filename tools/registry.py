"""Registry of the property checks: which Lean modules hold the property's theorems, which
harness components tie the model to /repo, and how many generated cases each tier runs."""

PROPS = {
    "C09": {
        "modules": ["StsModel.Props.C09"],
        "components": [
            {"name": "ranges", "quick": 3000, "thorough": 200000},
        ],
        "level_text": "Soundness of the receiver's byte-range record is proved in Lean for all records and queries (insertion keeps/drops exactly what it reports, 'complete' and 'part exists' imply coverage of every byte, arbitrary overlapping/unsorted/inverted ranges); the model functions are tied to stage/companion.go by differential execution on generated and corpus range sequences on every run.",
        "level_note": "Trusted: Lean kernel; the hand-written model of addCompanionPart/companionPartExists/isCompanionComplete and its differential tie (harness component `ranges`, tag-guarded exports); Go int64 modelled as Int.",
        "partial": [],
        "assumptions": [
            "int64 arithmetic of the Go code is modelled with unbounded Int (no property here is about overflow)",
        ],
    },
}

# properties not (yet) claimed, with the reason that goes into MANIFEST.not_applicable
NOT_CLAIMED = {}
