#!/bin/bash
# tools/tryseed_bg.sh <patch.diff> <Cxx>...: try a seeded change WITHOUT touching /repo: a background run
# (vp run --with-repo) applies the patch to its own snapshot of /repo's HEAD and runs the given checks
# against that snapshot (VERIF_REPO). The snapshot's Lean build starts from a copy of /verif's build
# products (same sources => nothing is rebuilt). Results: vp runs / the run's log.
p=$(realpath "$1"); shift
mkdir -p /verif/.build/trypatches; cp "$p" /verif/.build/trypatches/$$.diff
vp run --with-repo --timeout 3h -- bash -c "git -C \$VP_RUN_REPO apply /verif/.build/trypatches/$$.diff && mkdir -p lean/.lake && rsync -a /verif/lean/.lake/ lean/.lake/ && ./check --setup >/dev/null 2>&1; for c in $*; do VERIF_REPO=\$VP_RUN_REPO ./check \$c 2>&1 | grep -v '^KNOWN-FINDING' | cut -c1-300; done"
