#!/bin/bash
# tools/confirmseed.sh <seed-dir>: confirm a seeded change in its own scratch worktree <seed-dir>/repo:
# builds, passes the existing suite (except http::TestMisc), demo passes without / fails with the change.
d=$1; w=$d/repo; export GOFLAGS=-mod=mod GOPROXY=off
cd $w || exit 2; git checkout -q -- . ; git clean -fdq
# place demo tests
for f in $d/demo/*_test.go; do
  [ -f "$f" ] || continue
  pkg=$(grep -m1 '^package ' $f | awk '{print $2}'); pkg=${pkg%_test}
  dir=$pkg; [ "$pkg" = "sts" ] && dir=.
  mkdir -p $w/$dir; cp $f $w/$dir/
  tests="$tests $(grep -o 'func Test[A-Za-z0-9_]*' $f | awk '{print $2}' | tr '\n' '|')"
  dirs="$dirs ./$dir/"
done
tests=$(echo $tests | sed 's/|$//; s/ //g')
echo "demo tests: $tests in $dirs"
r0=$(go test -vet=off -count=1 -run "$tests" $dirs 2>&1 | tail -3 | tr '\n' ' ')
echo "WITHOUT change: $r0"
git apply $d/patch.diff 2>/dev/null || git apply $d/patch.orig.diff || { echo "patch does not apply"; exit 2; }
go build ./... || { echo "BUILD FAILS"; exit 1; }
r1=$(go test -vet=off -count=1 -run "$tests" $dirs 2>&1 | tail -3 | tr '\n' ' ')
echo "WITH change:    $r1"
# remove demo, run the suite
for f in $d/demo/*_test.go; do pkg=$(grep -m1 '^package ' $f | awk '{print $2}'); pkg=${pkg%_test}; rm -f $w/$pkg/$(basename $f); done
suite=$(go test -vet=off -count=1 ./... 2>&1 | grep -v "no test files" | grep -v "^ok" | grep -E "^(FAIL\s|--- FAIL)" | grep -v "TestMisc" | grep -v "sts/http" | tr '\n' ' ')
echo "suite failures other than http::TestMisc: [${suite}]"
git checkout -q -- . ; git clean -fdq
