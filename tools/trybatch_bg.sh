#!/bin/bash
# tools/trybatch_bg.sh "<patch> <Cxx> <Cxx>..." ...: one background run (own snapshot of /repo) trying several seeded
# changes one after the other. Result lines: "<patch-dir> <Cxx> CAUGHT(input)|CAUGHT(no-input)|MISSED".
mkdir -p /verif/.build/trypatches
spec=""
for item in "$@"; do
  set -- $item; p=$(realpath $1); shift
  id=$(basename $(dirname $p)); cp $p /verif/.build/trypatches/batch-$id.diff
  spec="$spec $id:$(echo $* | tr ' ' ',')"
done
vp run --with-repo --timeout 6h -- bash -c "
mkdir -p lean/.lake && rsync -a /verif/lean/.lake/ lean/.lake/ && ./check --setup >/dev/null 2>&1
for s in $spec; do
  id=\${s%%:*}; checks=\$(echo \${s#*:} | tr ',' ' ')
  git -C \$VP_RUN_REPO apply /verif/.build/trypatches/batch-\$id.diff || { echo \"\$id PATCH-DOES-NOT-APPLY\"; continue; }
  for c in \$checks; do
    out=\$(VERIF_REPO=\$VP_RUN_REPO timeout 1500 ./check \$c 2>&1 | grep '^VIOLATION\|^OK')
    case \"\$out\" in
      *no-failing-input-found*) echo \"\$id \$c CAUGHT(no-input)\";;
      VIOLATION*) echo \"\$id \$c CAUGHT(input)\";;
      OK*) echo \"\$id \$c MISSED\";;
      *) echo \"\$id \$c ??? \$out\";;
    esac
  done
  git -C \$VP_RUN_REPO checkout -- .
done"
