#!/usr/bin/env python3
"""Regenerate /verif/MANIFEST.json from tools/registry.py (run after editing the registry)."""
import json, os, sys, subprocess
here = os.path.dirname(os.path.abspath(__file__))
sys.path.insert(0, here)
import registry
VERIF = os.path.dirname(here)
ids = [json.loads(l)["id"] for l in open(os.path.join(VERIF, "properties.jsonl"))]
hooks = subprocess.run(["git", "-C", "/repo", "log", "--format=%h %s"], capture_output=True, text=True).stdout.splitlines()
hook_commits = [l.split()[0] for l in hooks if l.split(" ", 1)[1].startswith("verif:")]
checks, na = [], []
for pid in ids:
    if pid in registry.PROPS:
        s = registry.PROPS[pid]
        checks.append({
            "property_id": pid,
            "quick_cmd": "./check %s --tier quick" % pid,
            "thorough_cmd": "./check %s --tier thorough" % pid,
            "evidence_file": "evidence/%s.json" % pid,
            "replay_cmd_template": "./check %s --replay {path}" % pid,
            "engine": "lean-proof+correspondence",
            "level_claimed": {"category": "proof", "text": s["level_text"], "design_ref": "DESIGN.md section 7, %s" % pid},
            "level_note": s["level_note"],
            "technique": s.get("technique", "Lean 4 machine-checked proof about an executable model + checked differential correspondence with the Go code"),
        })
    else:
        na.append({"property_id": pid, "reason": registry.NOT_CLAIMED.get(pid, "check not built yet in this round; plan in DESIGN.md section 7 (the technique applies)")})
m = {
    "version": 1,
    "setup_cmd": "./check --setup",
    "hooks": {
        "guard": "verif",
        "enable": "Go build tag `verif`: the harness module /verif/harness (replace github.com/arm-doe/sts => /repo) is rebuilt with `go build -tags verif` from /repo's working tree by every check",
        "baseline_off_cmd": "cd /repo && GOFLAGS=-mod=mod GOPROXY=off go test -json -vet=off -count=1 -timeout 25m ./...",
        "source_commits": hook_commits,
        "add_only": True,
    },
    "engines": [{
        "name": "lean-proof+correspondence", "path": "check",
        "serves_properties": [c["property_id"] for c in checks],
        "kind_free_text": "Lean 4 theorems (lean/StsModel/Props) about a hand-written executable model (lean/StsModel/Model), tied to /repo on every run by differential correspondence (Go harness with -tags verif vs compiled model driver stsdrv) and by facts regenerated from the source (extract)",
    }],
    "checks": checks,
    "notes": "Known genuine defects of ARM-DOE/sts that are recorded rather than repaired are in known-findings.json; repaired ones are listed there as fixed. See DESIGN.md.",
    "not_applicable": na,
}
json.dump(m, open(os.path.join(VERIF, "MANIFEST.json"), "w"), indent=1)
print("MANIFEST.json: %d checks, %d not claimed" % (len(checks), len(na)))
