#!/usr/bin/env python3
"""tools/integrate.py <workspace-name> <Cxx>...: copy an agent workspace's new Lean/harness files into /verif
(never overwrites a file that already exists with different content unless --force) and import its registry entries."""
import sys, os, shutil, filecmp, subprocess
ws = "/tmp/ws/%s/verif" % sys.argv[1]
force = "--force" in sys.argv
pids = [a for a in sys.argv[2:] if not a.startswith("--")]
for sub in ["lean/StsModel/Model", "lean/StsModel/Props", "lean/StsModel/Drv", "lean/StsModel/Lemmas", "lean/StsModel/Generated", "harness", "extract"]:
    d = os.path.join(ws, sub)
    if not os.path.isdir(d):
        continue
    for f in sorted(os.listdir(d)):
        src = os.path.join(d, f); dst = os.path.join("/verif", sub, f)
        if os.path.isdir(src) or f in ("go.sum", "All.lean"):
            continue
        if not os.path.exists(dst):
            os.makedirs(os.path.dirname(dst), exist_ok=True)
            shutil.copy(src, dst); print("new     ", sub + "/" + f)
        elif not filecmp.cmp(src, dst, shallow=False):
            if force:
                shutil.copy(src, dst); print("REPLACED", sub + "/" + f)
            else:
                print("DIFFERS ", sub + "/" + f)
if pids:
    subprocess.check_call([sys.executable, "/verif/tools/import_entry.py", ws] + pids)
