#!/usr/bin/env python3
"""tools/saveseed.py <seed-dir> <id> <property> <caught_by> <kind> "<needs>": store a confirmed seeded change under /verif/seeded/<id>/"""
import sys, os, shutil, json
src, sid, prop, caught, kind, needs = sys.argv[1:7]
dst = "/verif/seeded/" + sid
shutil.rmtree(dst, ignore_errors=True)
os.makedirs(dst)
shutil.copy(os.path.join(src, "patch.diff"), dst)
if os.path.isdir(os.path.join(src, "demo")):
    shutil.copytree(os.path.join(src, "demo"), os.path.join(dst, "demo"))
if os.path.exists(os.path.join(src, "notes.md")):
    shutil.copy(os.path.join(src, "notes.md"), dst)
json.dump({"id": sid, "property": prop, "needs_to_manifest": needs, "caught_by": caught, "report_kind": kind,
           "ran": "git -C /repo apply seeded/%s/patch.diff; ./check %s; git -C /repo checkout -- . (tools/tryseed.sh); demonstration confirmed by the author of the change (fails with / passes without), commands in notes.md" % (sid, caught)},
          open(os.path.join(dst, "meta.json"), "w"), indent=1)
print("saved", dst)
