#!/bin/bash
# tools/regress_seeds.sh: run every saved seeded change (seeded/<id>/patch.diff) against the checks that are
# recorded as catching it, in a background run on its own snapshot of /repo (vp run --with-repo): /repo itself is
# not touched. `tools/regress_seeds.sh I N` runs only the seeds whose index is I modulo N (N runs in parallel). Result lines: "<seed> <Cxx> CAUGHT(input)|CAUGHT(no-input)|MISSED".
I=${1:-0}; N=${2:-1}
vp run --with-repo --timeout 6h -- bash -c '
k=-1
mkdir -p lean/.lake && rsync -a /verif/lean/.lake/ lean/.lake/ && ./check --setup >/dev/null 2>&1
for d in seeded/*/; do
  id=$(basename $d)
  [ -f $d/patch.diff ] || continue
  k=$((k+1)); [ $((k % '$N')) -eq '$I' ] || continue
  checks=$(python3 -c "import json,re,sys; m=json.load(open(\"$d/meta.json\")); print(\" \".join(dict.fromkeys(re.findall(r\"C\\d\\d\", m.get(\"caught_by\",\"\")))))")
  git -C $VP_RUN_REPO apply $PWD/$d/patch.diff 2>/dev/null || git -C $VP_RUN_REPO apply $PWD/$d/patch.orig.diff 2>/dev/null || { echo "$id PATCH-DOES-NOT-APPLY"; continue; }
  for c in $checks; do
    out=$(VERIF_REPO=$VP_RUN_REPO timeout 1500 ./check $c 2>&1 | grep "^VIOLATION\|^OK")
    case "$out" in
      *no-failing-input-found*) echo "$id $c CAUGHT(no-input)";;
      VIOLATION*) echo "$id $c CAUGHT(input)";;
      OK*) echo "$id $c MISSED";;
      *) echo "$id $c ??? $out";;
    esac
  done
  git -C $VP_RUN_REPO checkout -- .
done'
