#!/bin/bash
# tools/tryseed.sh <patch.diff> <Cxx>...: apply a seeded change to /repo, run the given checks, undo it.
p=$1; shift
git -C /repo apply "$p" || { echo "patch does not apply"; exit 2; }
for c in "$@"; do
  out=$(timeout 1500 /verif/check $c 2>&1 | grep -v "^KNOWN-FINDING")
  echo "$c: $out" | cut -c1-300
done
git -C /repo checkout -- .
