package main

import (
	"fmt"
	"os"
	"time"
)

// `harness e2esmoke`: one end-to-end run with a few faults, printing the recorded events.
func e2eSmoke() int {
	conf := defaultE2EConf()
	r, err := newE2ERig(conf)
	if err != nil {
		fmt.Println(err)
		return 2
	}
	defer r.close()
	old := time.Now().Add(-time.Hour)
	r.writeSource("g.a", []byte("hello world, this is file a"), old)
	r.writeSource("g.b", []byte("bbbbbbbbbbbbbbbbbbbbbbbbbbbbbbbbbbbbbbbbbbbbbbbbbbbbbbbbbbbbbbbbbbbbbbbbbbbbbbbbbbbbbbbbbbbbbbbbbbbbbbbbbbbbbbbbbbbbbbbbbbbbbbbbbbbbbbbbbbbbbb"), old.Add(time.Second))
	r.writeSource("h.c", []byte("c"), old.Add(2*time.Second))
	r.txFault = []e2eFault{{"cut:1"}, {"206:0"}, {"lost"}}
	r.pollFault = []e2eFault{{"err"}}
	if err := r.startSender(); err != nil {
		fmt.Println(err)
		return 2
	}
	ok := waitUntil(20*time.Second, func() bool {
		cs := r.cacheState()
		if len(cs) < 3 {
			return false
		}
		for _, d := range cs {
			if !d {
				return false
			}
		}
		return true
	})
	stopped := r.stopSender(true, 20*time.Second)
	for _, e := range r.takeEvents() {
		fmt.Println(e)
	}
	fmt.Println("all done:", ok, "stopped:", stopped)
	for _, n := range sortedNames(listTree(r.finalDir)) {
		fmt.Println("final:", n)
	}
	if !ok || !stopped {
		return 1
	}
	return 0
}

func init() {
	if len(os.Args) > 1 && os.Args[1] == "e2esmoke" {
		os.Exit(e2eSmoke())
	}
}
