package main

import (
	"bufio"
	"encoding/json"
	"fmt"
	"math/rand/v2"
	"os"
	"path/filepath"
	"sort"
	"strings"
)

// Component is one unit of differential correspondence (tie T1/T2): a generator of
// operation sequences, an executor that runs them against the real sts code, and the
// property oracles evaluated on what the real code answered.
type Component interface {
	Name() string
	// Generate returns n cases; each case is a list of op lines (without the
	// leading "# case" / "reset" lines, which the framework adds).
	Generate(r *Rand, tier string, n int) [][]string
	// NewExec returns a fresh executor (state reset).
	NewExec() Exec
	// Corpus returns hand-written cases that always run first (witnesses of past
	// findings, minimised past disagreements).
	Corpus() [][]string
}

// Exec interprets op lines against the implementation.
type Exec interface {
	// Do executes one op and returns the canonical one-line answer.
	Do(op []string) string
	// Oracle returns property-oracle failures detected so far for this case
	// (evaluated on the implementation's answers only), then clears them.
	Oracle() []string
	// Nontrivial reports whether the case executed so far is non-trivial by the
	// component's rule, and a canonical key for distinctness.
	Signature() (nontrivial bool, key string)
	Close()
}

// Rand is the single PRNG all choices derive from.
type Rand struct{ *rand.Rand }

func NewRand(seed uint64) *Rand {
	return &Rand{rand.New(rand.NewPCG(seed, seed^0x9e3779b97f4a7c15))}
}
func (r *Rand) Intn(n int) int {
	if n <= 0 {
		return 0
	}
	return r.IntN(n)
}
func (r *Rand) Range(lo, hi int) int    { return lo + r.Intn(hi-lo+1) }
func (r *Rand) Chance(p float64) bool   { return r.Float64() < p }
func (r *Rand) Pick(xs []string) string { return xs[r.Intn(len(xs))] }

// esc mirrors Sts.Drv.esc/unesc: tokens never contain spaces.
func esc(s string) string {
	if s == "" {
		return "-"
	}
	if s == "-" {
		return "%2d"
	}
	var b strings.Builder
	for _, c := range []byte(s) {
		switch {
		case c >= 'a' && c <= 'z', c >= 'A' && c <= 'Z', c >= '0' && c <= '9',
			c == '.', c == '_', c == '/', c == '-':
			b.WriteByte(c)
		default:
			fmt.Fprintf(&b, "%%%02x", c)
		}
	}
	return b.String()
}

func unesc(s string) string {
	if s == "-" {
		return ""
	}
	var b []byte
	for i := 0; i < len(s); i++ {
		if s[i] == '%' && i+2 <= len(s)-1 {
			var v int
			if _, err := fmt.Sscanf(s[i+1:i+3], "%02x", &v); err == nil {
				b = append(b, byte(v))
				i += 2
				continue
			}
		}
		b = append(b, s[i])
	}
	return string(b)
}

type OracleFailure struct {
	Case    int      `json:"case"`
	Ops     []string `json:"ops"`
	Message string   `json:"message"`
}

type Stats struct {
	Component          string          `json:"component"`
	Seed               uint64          `json:"seed"`
	Tier               string          `json:"tier"`
	Cases              int             `json:"cases"`
	Ops                int             `json:"ops"`
	DistinctNontrivial int             `json:"distinct_nontrivial"`
	Rule               string          `json:"rule"`
	OpMix              map[string]int  `json:"op_mix"`
	AnswerMix          map[string]int  `json:"answer_mix"`
	Samples            [][]string      `json:"samples"`
	OracleFailures     []OracleFailure `json:"oracle_failures"`
	Extra              map[string]any  `json:"extra,omitempty"`
}

type ruler interface{ Rule() string }

// rewriter lets an executor resolve run-time values in an op line (time base, directory
// walk order) before it is executed; the resolved line is what ops.txt records and what the
// model driver reads.
type rewriter interface{ Rewrite(op []string) []string }
type answerClass interface {
	AnswerClass(op []string, ans string) string
}

// extraStats lets a component add its own figures (e.g. measured shutdown latencies) to stats.json "extra".
type extraStats interface{ ExtraStats() map[string]any }

// failFast is implemented by components whose failing cases are expensive (each runs into a watchdog): the
// run stops after that many failing cases. Only for components without known findings.
type failFast interface{ FailFast() int }

// runCases executes cases, writing ops.txt / impl.txt / stats.json into dir.
func runCases(c Component, cases [][]string, seed uint64, tier, dir string) error {
	if err := os.MkdirAll(dir, 0o755); err != nil {
		return err
	}
	opsF, err := os.Create(filepath.Join(dir, "ops.txt"))
	if err != nil {
		return err
	}
	defer opsF.Close()
	implF, err := os.Create(filepath.Join(dir, "impl.txt"))
	if err != nil {
		return err
	}
	defer implF.Close()
	ow := bufio.NewWriter(opsF)
	iw := bufio.NewWriter(implF)
	st := Stats{Component: c.Name(), Seed: seed, Tier: tier,
		OpMix: map[string]int{}, AnswerMix: map[string]int{}}
	if r, ok := c.(ruler); ok {
		st.Rule = r.Rule()
	}
	distinct := map[string]bool{}
	for ci, ops := range cases {
		hdr := fmt.Sprintf("# case %d", ci)
		fmt.Fprintln(ow, hdr)
		ow.Flush()
		fmt.Fprintln(iw, hdr)
		ex := c.NewExec()
		for _, line := range ops {
			op := strings.Fields(line)
			if len(op) == 0 {
				continue
			}
			if rw, ok := ex.(rewriter); ok {
				op = rw.Rewrite(op)
				line = strings.Join(op, " ")
			}
			// the op is on disk before it runs: if the real code kills the process (a panic in one of its own
			// goroutines, a fatal runtime error) the check finds the input that did it at the end of ops.txt
			fmt.Fprintln(ow, line)
			ow.Flush()
			ans := safeDo(ex, op)
			fmt.Fprintln(iw, ans)
			st.Ops++
			st.OpMix[op[0]]++
			if ac, ok := c.(answerClass); ok {
				st.AnswerMix[ac.AnswerClass(op, ans)]++
			}
		}
		for _, m := range ex.Oracle() {
			st.OracleFailures = append(st.OracleFailures, OracleFailure{Case: ci, Ops: ops, Message: m})
		}
		if ff, ok := c.(failFast); ok {
			failedCases := map[int]bool{}
			for _, f := range st.OracleFailures {
				failedCases[f.Case] = true
			}
			if len(failedCases) >= ff.FailFast() {
				// enough failing cases to report and shrink: the remaining cases are not run
				cases = cases[:ci+1]
				break
			}
		}
		if nt, key := ex.Signature(); nt {
			distinct[key] = true
		}
		ex.Close()
		if len(st.Samples) < 3 && ci >= len(c.Corpus()) {
			s := ops
			if len(s) > 40 {
				s = s[:40]
			}
			st.Samples = append(st.Samples, s)
		}
	}
	st.Cases = len(cases)
	st.DistinctNontrivial = len(distinct)
	if es, ok := c.(extraStats); ok {
		st.Extra = es.ExtraStats()
	}
	if err := ow.Flush(); err != nil {
		return err
	}
	if err := iw.Flush(); err != nil {
		return err
	}
	b, _ := json.MarshalIndent(st, "", " ")
	return os.WriteFile(filepath.Join(dir, "stats.json"), b, 0o644)
}

// safeDo turns a panic of the implementation into an answer (and keeps going).
func safeDo(ex Exec, op []string) (ans string) {
	defer func() {
		if r := recover(); r != nil {
			ans = "panic " + esc(fmt.Sprint(r))
		}
	}()
	return ex.Do(op)
}

func sortedKeys[V any](m map[string]V) []string {
	ks := make([]string, 0, len(m))
	for k := range m {
		ks = append(ks, k)
	}
	sort.Strings(ks)
	return ks
}

// readCases parses an ops file (as written by runCases or by hand) back into cases.
func readCases(path string) ([][]string, error) {
	f, err := os.Open(path)
	if err != nil {
		return nil, err
	}
	defer f.Close()
	var cases [][]string
	var cur []string
	started := false
	sc := bufio.NewScanner(f)
	sc.Buffer(make([]byte, 1<<20), 1<<26)
	for sc.Scan() {
		line := strings.TrimSpace(sc.Text())
		if line == "" {
			continue
		}
		if strings.HasPrefix(line, "# case") {
			if started {
				cases = append(cases, cur)
			}
			cur = nil
			started = true
			continue
		}
		started = true
		cur = append(cur, line)
	}
	if started {
		cases = append(cases, cur)
	}
	return cases, sc.Err()
}
