package main

import (
	"bufio"
	"encoding/json"
	"fmt"
	"io"
	"math"
	"os"
	"os/exec"
	"reflect"
	"regexp"
	"strconv"
	"strings"
	"sync"
	"time"

	"github.com/alecthomas/units"
	"github.com/arm-doe/sts"
	yaml "gopkg.in/yaml.v2"
)

// component "conf" (property C19): configuration documents generated from the schema are
// parsed by the REAL yaml.Unmarshal / json.Unmarshal into sts.Conf, re-encoded with
// json.Marshal(ClientConf) as http/controller.go does for a managed client, parsed again as
// http.Client.GetClientConf does; effective settings are printed canonically and compared
// with the Lean model (Model/Conf.lean). Tag look-ups run in the real `package main` built
// with -tags verif (main/verif_export_tags.go, STS_VERIF_MAIN=tags): real setDefaults/init,
// real tagger / grouper / queue.getGroup / client.getTag.
type confComp struct{}

func init() { register(confComp{}) }

func (confComp) Name() string { return "conf" }
func (confComp) Rule() string {
	return "case = one written configuration (sources, options present / absent / explicitly zero, target, tags) " +
		"+ parse + queries; non-trivial = the document parsed, it has at least 2 sources or a source with at least 2 tags, " +
		"at least one option was inherited and one written explicitly, and at least one effective-setting or tag query " +
		"was answered; distinct = by the full op sequence"
}

// ------------------------------------------------------------------ field tables by reflection

type confField struct {
	goName string
	key    string
	kind   string
	marker string // name of the unexported isXSet field, "" when there is none
}

var (
	confTablesOnce                              sync.Once
	confSrcFields, confTagFields, confTgtFields []confField
)

func confKindOf(ft, at reflect.Type, marker bool) string {
	dur := reflect.TypeOf(time.Duration(0))
	switch {
	case ft.Kind() == reflect.String && at.Kind() == reflect.String:
		return "str"
	case (ft.Kind() == reflect.Int || ft.Kind() == reflect.Int64) && ft != dur && at == ft:
		return "int"
	case ft == dur && at.String() == "marshal.Duration":
		return "dur"
	case ft == dur && at == dur:
		return "durRaw"
	case ft.String() == "units.Base2Bytes" && at.Kind() == reflect.String:
		return "size"
	case ft.Kind() == reflect.Uint64 && at.Kind() == reflect.Interface:
		return "bytes"
	case ft.Kind() == reflect.Bool && at.Kind() == reflect.String && marker:
		return "triMarked"
	case ft.Kind() == reflect.Bool && at.Kind() == reflect.String:
		return "triPlain"
	case ft.Kind() == reflect.Bool && at.Kind() == reflect.Bool && !marker:
		return "boolPlain"
	case ft.Kind() == reflect.Float64 && at.Kind() == reflect.String && marker:
		return "floatMarked"
	case ft.String() == "*regexp.Regexp" && at.Kind() == reflect.String:
		return "re"
	case ft.String() == "[]*regexp.Regexp" && at.String() == "[]string":
		return "reList"
	case ft.String() == "[]*sts.MappingConf":
		return "mapList"
	case ft.String() == "*sts.TargetConf":
		return "struct"
	case ft.String() == "[]*sts.TagConf":
		return "structs"
	}
	m := ""
	if marker {
		m = "+marker"
	}
	return "unknown(" + ft.String() + "/" + at.String() + m + ")"
}

func confReflectTable(t, aux reflect.Type) []confField {
	var out []confField
	for i := 0; i < t.NumField(); i++ {
		f := t.Field(i)
		if !f.IsExported() {
			continue
		}
		cf := confField{goName: f.Name, key: "?", kind: "unknown"}
		if m, ok := t.FieldByName("is" + f.Name + "Set"); ok && m.Type.Kind() == reflect.Bool {
			cf.marker = m.Name
		}
		if af, ok := aux.FieldByName(f.Name); ok {
			cf.key = strings.Split(af.Tag.Get("json"), ",")[0]
			if y := strings.Split(af.Tag.Get("yaml"), ",")[0]; y != cf.key {
				cf.key = cf.key + "!=" + y
			}
			cf.kind = confKindOf(f.Type, af.Type, cf.marker != "")
		}
		out = append(out, cf)
	}
	return out
}

func confTables() {
	confTablesOnce.Do(func() {
		as, at, ag := sts.VerifConfAuxTypes()
		confSrcFields = confReflectTable(reflect.TypeOf(sts.SourceConf{}), as)
		confTagFields = confReflectTable(reflect.TypeOf(sts.TagConf{}), at)
		confTgtFields = confReflectTable(reflect.TypeOf(sts.TargetConf{}), ag)
	})
}

func confFmtTable(fs []confField) string {
	var s []string
	for _, f := range fs {
		s = append(s, f.goName+":"+f.key+":"+f.kind)
	}
	return strings.Join(s, " ")
}

func confFieldByKey(fs []confField, key string) *confField {
	for i := range fs {
		if fs[i].key == key && fs[i].kind != "struct" && fs[i].kind != "structs" {
			return &fs[i]
		}
	}
	return nil
}

// ------------------------------------------------------------------ written values

type confW struct {
	c byte // 's' 'n' 'b' 'l' 'x'(bad)
	s string
	n int64
	b bool
	l []string
}

func confParseW(tok string) (confW, bool) {
	switch {
	case tok == "bad":
		return confW{c: 'x'}, true
	case strings.HasPrefix(tok, "s:"):
		return confW{c: 's', s: unesc(tok[2:])}, true
	case strings.HasPrefix(tok, "n:"):
		// the model reads an arbitrary Int; the harness keeps to int64
		v, err := strconv.ParseInt(tok[2:], 10, 64)
		if err != nil || strings.HasPrefix(tok[2:], "+") {
			return confW{}, false
		}
		return confW{c: 'n', n: v}, true
	case tok == "b:true":
		return confW{c: 'b', b: true}, true
	case tok == "b:false":
		return confW{c: 'b', b: false}, true
	case strings.HasPrefix(tok, "l:"):
		body := tok[2:]
		w := confW{c: 'l', l: []string{}}
		if body != "" {
			for _, p := range strings.Split(body, ",") {
				w.l = append(w.l, unesc(p))
			}
		}
		return w, true
	}
	return confW{}, false
}

func confFmtW(w confW) string {
	switch w.c {
	case 's':
		return "s:" + esc(w.s)
	case 'n':
		return fmt.Sprintf("n:%d", w.n)
	case 'b':
		return fmt.Sprintf("b:%t", w.b)
	case 'l':
		var p []string
		for _, x := range w.l {
			p = append(p, esc(x))
		}
		return "l:" + strings.Join(p, ",")
	}
	return "bad"
}

type confOpt struct {
	key string
	w   confW
}

type confOpts []confOpt

func (o *confOpts) set(key string, w confW) {
	for i := range *o {
		if (*o)[i].key == key {
			(*o)[i].w = w
			return
		}
	}
	*o = append(*o, confOpt{key, w})
}

func (o confOpts) get(key string) (confW, bool) {
	for _, x := range o {
		if x.key == key {
			return x.w, true
		}
	}
	return confW{}, false
}

type confWSrc struct {
	opts      confOpts
	hasTarget bool
	target    confOpts
	hasTags   bool
	tags      []*confOpts
}

// --- the restricted regular-expression grammar (mirrors Model/Conf.lean plainChar, litBody,
// parsePat, safeRe, parseGroupBy; Go's regexp does the matching on the real side)

func confPlainChar(c byte) bool {
	return c >= 'a' && c <= 'z' || c >= 'A' && c <= 'Z' || c >= '0' && c <= '9' || c == '_' || c == '/' || c == '-'
}

func confLitBody(s string) bool {
	for i := 0; i < len(s); i++ {
		if s[i] == '\\' && i+1 < len(s) && s[i+1] == '.' {
			i++
			continue
		}
		if !confPlainChar(s[i]) {
			return false
		}
	}
	return true
}

func confIsLitPattern(s string) bool {
	for _, r := range s {
		if r >= 0x80 {
			return false
		}
	}
	s = strings.TrimPrefix(s, "^")
	s = strings.TrimSuffix(s, "$")
	return confLitBody(s)
}

func confSafeRe(s string) bool {
	for i := 0; i < len(s); i++ {
		if s[i] == '\\' && i+1 < len(s) && s[i+1] == '.' {
			i++
			continue
		}
		c := s[i]
		if !(confPlainChar(c) || c == '.' || c == '^' || c == '$') {
			return false
		}
	}
	return true
}

var confGroupByRe = regexp.MustCompile(`^\^\(\[\^(\\\.|[A-Za-z0-9_/.])\]\*\)$`)

func confIsGroupBy(s string) bool { return confGroupByRe.MatchString(s) }

// confWellTyped mirrors Model/Conf.lean okK: a value that is not well-typed for its option is
// rendered as a text the real decoder refuses (like `bad`).
func confWellTyped(kind string, w confW) bool {
	switch kind {
	case "str", "triMarked", "triPlain":
		return w.c == 's'
	case "int", "dur", "durRaw":
		return w.c == 'n'
	case "size", "bytes":
		return w.c == 'n' && w.n >= 0 || w.c == 's' && w.s == ""
	case "boolPlain":
		return w.c == 'b'
	case "floatMarked":
		return w.c == 'n' || w.c == 's' && w.s == ""
	case "re":
		return w.c == 's' && confSafeRe(w.s)
	case "rePat":
		return w.c == 's' && (w.s == "" || w.s == "DEFAULT" || confIsLitPattern(w.s))
	case "reGroup":
		return w.c == 's' && (w.s == "" || confIsGroupBy(w.s))
	case "reList", "mapList":
		if w.c != 'l' || kind == "mapList" && len(w.l)%2 != 0 {
			return false
		}
		for _, x := range w.l {
			if !confSafeRe(x) {
				return false
			}
		}
		return true
	}
	return false
}

// the model distinguishes three readings of `re`: plain, tag pattern, group-by
func confModelKind(structName string, f *confField) string {
	if f.kind == "re" {
		switch {
		case structName == "tag" && f.goName == "Pattern":
			return "rePat"
		case structName == "src" && f.goName == "GroupBy":
			return "reGroup"
		}
	}
	return f.kind
}

// ------------------------------------------------------------------ rendering

type confNode struct {
	kind  int // 0 scalar, 1 map, 2 list
	y, j  string
	keys  []string
	vals  []*confNode
	items []*confNode
	flow  bool
}

func confScalar(y, j string) *confNode { return &confNode{kind: 0, y: y, j: j} }

func confJSONStr(s string) string {
	b, _ := json.Marshal(s)
	return string(b)
}

var confYAMLPlainOK = regexp.MustCompile(`^[A-Za-z][A-Za-z0-9_/]*$`)

func confYAMLStr(s string, r *Rand) string {
	lower := strings.ToLower(s)
	reserved := map[string]bool{"y": true, "n": true, "yes": true, "no": true, "on": true, "off": true,
		"true": true, "false": true, "null": true, "nan": true, "inf": true}
	switch r.Intn(3) {
	case 0:
		if confYAMLPlainOK.MatchString(s) && !reserved[lower] {
			return s
		}
	case 1:
		ok := true
		for _, c := range s {
			if c < 0x20 || c >= 0x7f {
				ok = false
			}
		}
		if ok {
			return "'" + strings.ReplaceAll(s, "'", "''") + "'"
		}
	}
	return confJSONStr(s)
}

func confDecimal(nano int64, r *Rand) string {
	neg := nano < 0
	u := uint64(nano)
	if neg {
		u = uint64(-nano)
	}
	ip, fp := u/1000000000, u%1000000000
	frac := fmt.Sprintf("%09d", fp)
	switch r.Intn(3) {
	case 0:
		frac = strings.TrimRight(frac, "0")
	case 1:
		t := strings.TrimRight(frac, "0")
		if len(t) < 6 {
			frac = frac[:6]
		} else {
			frac = t
		}
	}
	s := strconv.FormatUint(ip, 10)
	if frac != "" {
		s += "." + frac
	}
	if neg {
		s = "-" + s
	}
	return s
}

func confSizeText(n int64, r *Rand) string {
	switch r.Intn(4) {
	case 0:
		return units.Base2Bytes(n).String()
	case 1:
		if n > 0 && n%(1024*1024) == 0 {
			return fmt.Sprintf("%dMB", n/(1024*1024))
		}
		if n > 0 && n%1024 == 0 {
			return fmt.Sprintf("%dKB", n/1024)
		}
	case 2:
		if n > 0 && n%1024 == 0 {
			return fmt.Sprintf("%dKiB", n/1024)
		}
	}
	return fmt.Sprintf("%dB", n)
}

func confBad(kind string) *confNode {
	t := `"x"`
	switch kind {
	case "str", "triMarked", "triPlain":
		t = `[1]`
	case "dur", "durRaw", "floatMarked":
		t = `"abc"`
	case "size", "bytes":
		t = `"12XB"`
	case "re", "rePat", "reGroup":
		t = `"("`
	case "reList":
		t = `["("]`
	case "mapList":
		t = `[{"from": "(", "to": "x"}]`
	}
	return confScalar(t, t)
}

// confRender turns a written value into document text. The spelling is chosen by r.
func confRender(kind string, w confW, r *Rand) *confNode {
	if w.c == 'x' || !confWellTyped(kind, w) {
		return confBad(kind)
	}
	switch kind {
	case "str", "triMarked", "triPlain", "re", "rePat", "reGroup":
		y := confYAMLStr(w.s, r)
		if (kind == "triMarked" || kind == "triPlain") && r.Chance(0.5) {
			switch w.s {
			case "true", "false", "True", "False", "TRUE", "FALSE", "yes", "no":
				y = w.s // an unquoted YAML boolean read into a string field keeps its text
			}
		}
		return confScalar(y, confJSONStr(w.s))
	case "int":
		s := strconv.FormatInt(w.n, 10)
		return confScalar(s, s)
	case "dur":
		s := strconv.FormatInt(w.n, 10)
		d := time.Duration(w.n).String()
		big := w.n > 1<<52 || w.n < -(1<<52)
		switch {
		case big || r.Chance(0.6):
			y := d
			if r.Chance(0.3) {
				y = confJSONStr(d)
			}
			return confScalar(y, confJSONStr(d))
		default:
			return confScalar(s, s)
		}
	case "durRaw":
		s := strconv.FormatInt(w.n, 10)
		if r.Chance(0.5) {
			return confScalar(time.Duration(w.n).String(), s)
		}
		return confScalar(s, s)
	case "size":
		if w.c == 's' {
			return confScalar(`""`, `""`)
		}
		t := confSizeText(w.n, r)
		y := t
		if r.Chance(0.3) {
			y = confJSONStr(t)
		}
		return confScalar(y, confJSONStr(t))
	case "bytes":
		if w.c == 's' {
			return confScalar(`""`, `""`)
		}
		if w.n < 1<<52 && r.Chance(0.5) {
			s := strconv.FormatInt(w.n, 10)
			return confScalar(s, s)
		}
		t := confSizeText(w.n, r)
		return confScalar(confJSONStr(t), confJSONStr(t))
	case "boolPlain":
		j := strconv.FormatBool(w.b)
		y := j
		if w.b {
			y = []string{"true", "yes", "on", "True", "true"}[r.Intn(5)]
		} else {
			y = []string{"false", "no", "off", "False", "false"}[r.Intn(5)]
		}
		return confScalar(y, j)
	case "floatMarked":
		if w.c == 's' {
			return confScalar(`""`, `""`)
		}
		t := confDecimal(w.n, r)
		y := t
		if r.Chance(0.3) {
			y = confJSONStr(t)
		}
		return confScalar(y, confJSONStr(t))
	case "reList":
		n := &confNode{kind: 2, flow: r.Chance(0.5)}
		for _, x := range w.l {
			n.items = append(n.items, confScalar(confYAMLStr(x, r), confJSONStr(x)))
		}
		return n
	case "mapList":
		n := &confNode{kind: 2}
		for i := 0; i+1 < len(w.l); i += 2 {
			m := &confNode{kind: 1, keys: []string{"from", "to"}}
			m.vals = []*confNode{confScalar(confYAMLStr(w.l[i], r), confJSONStr(w.l[i])),
				confScalar(confYAMLStr(w.l[i+1], r), confJSONStr(w.l[i+1]))}
			n.items = append(n.items, m)
		}
		return n
	}
	return confBad(kind)
}

func confOptsNode(structName string, fs []confField, o confOpts, r *Rand) *confNode {
	m := &confNode{kind: 1}
	for _, x := range o {
		f := confFieldByKey(fs, x.key)
		if f == nil {
			continue
		}
		m.keys = append(m.keys, x.key)
		m.vals = append(m.vals, confRender(confModelKind(structName, f), x.w, r))
	}
	return m
}

func (e *confExec) docNode(r *Rand) *confNode {
	srcs := &confNode{kind: 2}
	for _, s := range e.srcs {
		m := confOptsNode("src", confSrcFields, s.opts, r)
		if s.hasTarget {
			m.keys = append(m.keys, "target")
			m.vals = append(m.vals, confOptsNode("tgt", confTgtFields, s.target, r))
		}
		if s.hasTags {
			l := &confNode{kind: 2}
			for _, t := range s.tags {
				l.items = append(l.items, confOptsNode("tag", confTagFields, *t, r))
			}
			m.keys = append(m.keys, "tags")
			m.vals = append(m.vals, l)
		}
		srcs.items = append(srcs.items, m)
	}
	out := &confNode{kind: 1, keys: []string{"sources"}, vals: []*confNode{srcs}}
	return out
}

func confYAMLLines(n *confNode) []string {
	switch n.kind {
	case 0:
		return []string{n.y}
	case 1:
		if len(n.keys) == 0 {
			return []string{"{}"}
		}
		var out []string
		for i, k := range n.keys {
			v := n.vals[i]
			sub := confYAMLLines(v)
			inline := v.kind == 0 || len(sub) == 1 && (v.kind == 1 && len(v.keys) == 0 || v.kind == 2 && (len(v.items) == 0 || v.flow))
			if inline {
				out = append(out, k+": "+sub[0])
				continue
			}
			out = append(out, k+":")
			for _, l := range sub {
				out = append(out, "  "+l)
			}
		}
		return out
	default:
		if len(n.items) == 0 {
			return []string{"[]"}
		}
		if n.flow {
			var p []string
			for _, it := range n.items {
				p = append(p, it.y)
			}
			return []string{"[" + strings.Join(p, ", ") + "]"}
		}
		var out []string
		for _, it := range n.items {
			sub := confYAMLLines(it)
			for i, l := range sub {
				if i == 0 {
					out = append(out, "- "+l)
				} else {
					out = append(out, "  "+l)
				}
			}
		}
		return out
	}
}

func confJSONText(n *confNode) string {
	switch n.kind {
	case 0:
		return n.j
	case 1:
		var p []string
		for i, k := range n.keys {
			p = append(p, confJSONStr(k)+": "+confJSONText(n.vals[i]))
		}
		return "{" + strings.Join(p, ", ") + "}"
	default:
		var p []string
		for _, it := range n.items {
			p = append(p, confJSONText(it))
		}
		return "[" + strings.Join(p, ", ") + "]"
	}
}

// ------------------------------------------------------------------ canonical dump of the real structs

type confDumpStruct struct {
	keys   []string
	vals   map[string]string // without marker suffix
	marked map[string]bool
}

func (d *confDumpStruct) line() string {
	var p []string
	for _, k := range d.keys {
		v := d.vals[k]
		if d.marked[k] {
			v += "+"
		}
		p = append(p, k+"="+v)
	}
	return strings.Join(p, " ")
}

type confDumpSrc struct {
	confDumpStruct
	target *confDumpStruct
	tags   []*confDumpStruct // nil = nil slice
	hasTag bool
}

func confFmtReal(kind string, v reflect.Value) string {
	switch kind {
	case "str":
		return "s:" + esc(v.String())
	case "int", "dur", "durRaw", "size":
		return fmt.Sprintf("n:%d", v.Int())
	case "bytes":
		return fmt.Sprintf("n:%d", v.Uint())
	case "triMarked", "triPlain", "boolPlain":
		return fmt.Sprintf("b:%t", v.Bool())
	case "floatMarked":
		return fmt.Sprintf("n:%d", int64(math.Round(v.Float()*1e9)))
	case "re":
		if v.IsNil() {
			return "nil"
		}
		return "p:" + esc(v.Interface().(*regexp.Regexp).String())
	case "reList":
		if v.IsNil() {
			return "nil"
		}
		var p []string
		for _, x := range v.Interface().([]*regexp.Regexp) {
			p = append(p, esc(x.String()))
		}
		return "l:" + strings.Join(p, ",")
	case "mapList":
		if v.IsNil() {
			return "nil"
		}
		var p []string
		for _, x := range v.Interface().([]*sts.MappingConf) {
			p = append(p, esc(x.Pattern.String()), esc(x.Template))
		}
		return "l:" + strings.Join(p, ",")
	}
	return "?" + kind
}

func confDumpOf(fs []confField, v reflect.Value) *confDumpStruct {
	d := &confDumpStruct{vals: map[string]string{}, marked: map[string]bool{}}
	for _, f := range fs {
		if f.kind == "struct" || f.kind == "structs" {
			continue
		}
		d.keys = append(d.keys, f.key)
		d.vals[f.key] = confFmtReal(f.kind, v.FieldByName(f.goName))
		if f.marker != "" {
			d.marked[f.key] = v.FieldByName(f.marker).Bool()
		}
	}
	return d
}

func confDumpConf(cc *sts.ClientConf) []*confDumpSrc {
	var out []*confDumpSrc
	if cc == nil {
		return out
	}
	for _, s := range cc.Sources {
		d := &confDumpSrc{confDumpStruct: *confDumpOf(confSrcFields, reflect.ValueOf(s).Elem())}
		if s.Target != nil {
			d.target = confDumpOf(confTgtFields, reflect.ValueOf(s.Target).Elem())
		}
		if s.Tags != nil {
			d.hasTag = true
			d.tags = []*confDumpStruct{}
			for _, t := range s.Tags {
				d.tags = append(d.tags, confDumpOf(confTagFields, reflect.ValueOf(t).Elem()))
			}
		}
		out = append(out, d)
	}
	return out
}

func (d *confDumpSrc) line() string {
	t := "nil"
	if d.target != nil {
		t = "set"
	}
	g := "nil"
	if d.hasTag {
		g = strconv.Itoa(len(d.tags))
	}
	return d.confDumpStruct.line() + " target=" + t + " tags=" + g
}

func (d *confDumpSrc) full() string {
	s := d.line()
	if d.target != nil {
		s += " | " + d.target.line()
	}
	for _, t := range d.tags {
		s += " | " + t.line()
	}
	return s
}

// ------------------------------------------------------------------ the real package main over a line protocol

type confMainProc struct {
	cmd *exec.Cmd
	in  io.WriteCloser
	out *bufio.Reader
}

var (
	confMainMu sync.Mutex
	confMain   *confMainProc
)

func confMainAsk(line string) string {
	confMainMu.Lock()
	defer confMainMu.Unlock()
	for attempt := 0; attempt < 2; attempt++ {
		if confMain == nil {
			bin := os.Getenv("VERIF_STSMAIN")
			if bin == "" {
				return "no-stsmain"
			}
			cmd := exec.Command(bin)
			cmd.Env = append(os.Environ(), "STS_VERIF_MAIN=tags")
			cmd.Stderr = os.Stderr
			in, err1 := cmd.StdinPipe()
			out, err2 := cmd.StdoutPipe()
			if err1 != nil || err2 != nil || cmd.Start() != nil {
				return "no-stsmain"
			}
			confMain = &confMainProc{cmd: cmd, in: in, out: bufio.NewReaderSize(out, 1<<20)}
		}
		if _, err := io.WriteString(confMain.in, line+"\n"); err == nil {
			if ans, err := confMain.out.ReadString('\n'); err == nil {
				return strings.TrimRight(ans, "\n")
			}
		}
		confMain.in.Close()
		confMain.cmd.Process.Kill()
		confMain.cmd.Wait()
		confMain = nil
	}
	return "stsmain-died"
}

// ------------------------------------------------------------------ executor

type confExec struct {
	srcs   []*confWSrc
	strict bool
	fails  []string
	key    strings.Builder

	parsed     bool
	cc         *sts.ClientConf // current stage, nil = no configuration
	dump       []*confDumpSrc
	stage      int    // 1 after parse, 2 after reenc
	doc, docFm string // stage-1 document as handed to the real loader
	cjson      string // stage-2 document
	loadedFor  int    // which stage the package-main process has loaded (0 none)
	loadOK     bool

	queries, inherited, explicit int
}

func (confComp) NewExec() Exec { confTables(); return &confExec{} }

func (e *confExec) invalidate() {
	e.parsed, e.cc, e.dump, e.stage, e.loadedFor = false, nil, nil, 0, 0
}

func (e *confExec) last() *confWSrc {
	if len(e.srcs) == 0 {
		return nil
	}
	return e.srcs[len(e.srcs)-1]
}

func (e *confExec) fail(format string, a ...any) {
	if len(e.fails) < 20 {
		e.fails = append(e.fails, fmt.Sprintf(format, a...))
	}
}

func (e *confExec) Do(op []string) string {
	e.key.WriteString(strings.Join(op, " "))
	e.key.WriteByte(';')
	setOpt := func(structName string, fs []confField, o *confOpts) string {
		f := confFieldByKey(fs, op[1])
		w, ok := confParseW(op[2])
		if f == nil || !ok || o == nil {
			return "bad-op"
		}
		o.set(op[1], w)
		e.invalidate()
		return "ok"
	}
	switch {
	case len(op) == 1 && op[0] == "reset":
		*e = confExec{}
		return "ok"
	case len(op) == 2 && op[0] == "strict":
		if op[1] != "on" && op[1] != "off" {
			return "bad-op"
		}
		e.strict = op[1] == "on"
		return "ok"
	case len(op) == 2 && op[0] == "table":
		switch op[1] {
		case "src":
			return confFmtTable(confSrcFields)
		case "tag":
			return confFmtTable(confTagFields)
		case "tgt":
			return confFmtTable(confTgtFields)
		}
		return "bad-op"
	case len(op) == 1 && op[0] == "source":
		e.srcs = append(e.srcs, &confWSrc{})
		e.invalidate()
		return "ok"
	case len(op) == 3 && op[0] == "opt":
		if e.last() == nil {
			return "bad-op"
		}
		return setOpt("src", confSrcFields, &e.last().opts)
	case len(op) == 1 && op[0] == "target":
		if e.last() == nil {
			return "bad-op"
		}
		e.last().hasTarget = true
		e.invalidate()
		return "ok"
	case len(op) == 3 && op[0] == "topt":
		if e.last() == nil {
			return "bad-op"
		}
		r := setOpt("tgt", confTgtFields, &e.last().target)
		if r == "ok" {
			e.last().hasTarget = true
		}
		return r
	case len(op) == 1 && op[0] == "tags":
		if e.last() == nil {
			return "bad-op"
		}
		e.last().hasTags = true
		e.invalidate()
		return "ok"
	case len(op) == 1 && op[0] == "tag":
		if e.last() == nil {
			return "bad-op"
		}
		e.last().hasTags = true
		e.last().tags = append(e.last().tags, &confOpts{})
		e.invalidate()
		return "ok"
	case len(op) == 3 && op[0] == "gopt":
		if e.last() == nil || len(e.last().tags) == 0 {
			return "bad-op"
		}
		return setOpt("tag", confTagFields, e.last().tags[len(e.last().tags)-1])
	case len(op) == 3 && op[0] == "parse":
		n, err := strconv.ParseUint(op[2], 10, 63)
		if (op[1] != "yaml" && op[1] != "json") || err != nil || strings.HasPrefix(op[2], "+") {
			return "bad-op"
		}
		return e.parse(op[1], n)
	case len(op) == 1 && op[0] == "reenc":
		return e.reenc()
	case len(op) == 2 && op[0] == "eff":
		return e.withSource(op[1], func(i int) string { e.queries++; return e.dump[i].line() })
	case len(op) == 2 && op[0] == "efftgt":
		return e.withSource(op[1], func(i int) string {
			e.queries++
			if e.dump[i].target == nil {
				return "nil"
			}
			return e.dump[i].target.line()
		})
	case len(op) == 3 && op[0] == "efftag":
		return e.withSource(op[1], func(i int) string {
			j, err := strconv.ParseUint(op[2], 10, 31)
			if err != nil || strings.HasPrefix(op[2], "+") {
				return "bad-op"
			}
			if int(j) >= len(e.dump[i].tags) {
				return "no-tag"
			}
			e.queries++
			return e.dump[i].tags[j].line()
		})
	case len(op) == 3 && op[0] == "tagof":
		return e.withSource(op[1], func(i int) string { return e.runtime(i, "tagof", op[2]) })
	case len(op) == 2 && (op[0] == "rtags" || op[0] == "ignores"):
		return e.withSource(op[1], func(i int) string { return e.runtime(i, op[0], "") })
	}
	return "bad-op"
}

func (e *confExec) withSource(tok string, k func(int) string) string {
	i, err := strconv.ParseUint(tok, 10, 31)
	if err != nil || strings.HasPrefix(tok, "+") {
		return "bad-op"
	}
	if e.cc == nil {
		return "no-conf"
	}
	if int(i) >= len(e.dump) {
		return "no-source"
	}
	return k(int(i))
}

func (e *confExec) parse(format string, n uint64) string {
	r := NewRand(n)
	node := e.docNode(r)
	e.invalidate()
	e.parsed = true
	var conf sts.Conf
	var err error
	if format == "yaml" {
		lines := []string{"OUT:"}
		for _, l := range confYAMLLines(node) {
			lines = append(lines, "  "+l)
		}
		e.doc = strings.Join(lines, "\n") + "\n"
		err = yaml.Unmarshal([]byte(e.doc), &conf)
	} else {
		top := "OUT"
		if r.Chance(0.5) {
			top = "out"
		}
		e.doc = "{" + confJSONStr(top) + ": " + confJSONText(node) + "}"
		err = json.Unmarshal([]byte(e.doc), &conf)
	}
	e.docFm = format
	if err != nil {
		return "error"
	}
	e.cc = conf.Client
	if e.cc == nil {
		e.cc = &sts.ClientConf{}
	}
	e.dump = confDumpConf(e.cc)
	e.stage = 1
	e.oracleParsed()
	return fmt.Sprintf("ok %d", len(e.dump))
}

func (e *confExec) reenc() string {
	if e.cc == nil {
		return "no-conf"
	}
	// http/controller.go handleClientManagerRequest "conf": json.Marshal(config)
	b, err := json.Marshal(e.cc)
	if err != nil {
		e.cc, e.dump = nil, nil
		return "error"
	}
	// http.Client.GetClientConf: json.Unmarshal(confBytes, conf)
	c2 := &sts.ClientConf{}
	if err = json.Unmarshal(b, c2); err != nil {
		e.cc, e.dump = nil, nil
		return "error"
	}
	d2 := confDumpConf(c2)
	same := len(d2) == len(e.dump)
	for i := 0; same && i < len(d2); i++ {
		same = d2[i].full() == e.dump[i].full()
	}
	e.oracleReenc(e.dump, d2)
	e.cc, e.dump, e.stage, e.cjson, e.loadedFor = c2, d2, 2, string(b), 0
	if same {
		return fmt.Sprintf("ok %d same", len(d2))
	}
	return fmt.Sprintf("ok %d diff", len(d2))
}

func confDumpStr(d *confDumpStruct, key string) string {
	v := d.vals[key]
	if strings.HasPrefix(v, "s:") {
		return unesc(v[2:])
	}
	return ""
}

// runtime queries go to the real package main. What its init() would need from outside
// (a TLS certificate file, a port number) is refused on both sides as `unsupported`.
func (e *confExec) runtime(i int, what, arg string) string {
	d := e.dump[i]
	if g := d.vals["group-by"]; g != "nil" && !confIsGroupBy(unesc(strings.TrimPrefix(g, "p:"))) {
		return "unsupported"
	}
	if d.target != nil && (strings.Contains(confDumpStr(d.target, "http-host"), ":") ||
		confDumpStr(d.target, "http-tls-cert") != "" || confDumpStr(d.target, "http-tls-cert-encoded") != "") {
		return "unsupported"
	}
	if e.loadedFor != e.stage {
		var ans string
		if e.stage == 1 {
			ans = confMainAsk("load " + e.docFm + " " + esc(e.doc))
		} else {
			ans = confMainAsk("load cjson " + esc(e.cjson))
		}
		e.loadedFor = e.stage
		e.loadOK = strings.HasPrefix(ans, "ok ")
		if !e.loadOK {
			return "main-load-failed:" + esc(ans)
		}
	}
	if !e.loadOK {
		return "main-load-failed"
	}
	line := fmt.Sprintf("%s %d", what, i)
	if what == "tagof" {
		line += " " + arg
	}
	ans := confMainAsk(line)
	if what == "tagof" && strings.HasPrefix(ans, "group=") {
		e.queries++
		e.oracleTag(i, unesc(arg), ans)
	}
	if what == "ignores" && strings.HasPrefix(ans, "std=") {
		e.oracleIgnores(i, ans)
	}
	return ans
}

// oracleIgnores: "method settings apply to exactly the files matching that tag's pattern": the
// store of source i ignores, besides the configured and the standard patterns, exactly the
// patterns of ITS OWN tags whose method is not http (as the running sender lists them).
func (e *confExec) oracleIgnores(i int, ans string) {
	rt := confMainAsk(fmt.Sprintf("rtags %d", i))
	var want []string
	if rt != "-" {
		for _, p := range strings.Fields(rt) {
			parts := strings.Split(p, ",")
			if len(parts) != 3 {
				return
			}
			if parts[0] != "p=nil" && unesc(strings.TrimPrefix(parts[1], "m=")) != "http" {
				want = append(want, strings.TrimPrefix(parts[0], "p="))
			}
		}
	}
	f := strings.Fields(ans)
	got := ""
	if len(f) == 2 {
		got = strings.TrimPrefix(f[1], "l:")
	}
	if got != strings.Join(want, ",") || f[0] != "std=2" {
		e.fail("ignore-list-mismatch: source %d: the store ignores tag patterns [%s] (%s other entries besides the configured ones), the source's non-http tags are [%s]",
			i, got, strings.TrimPrefix(f[0], "std="), strings.Join(want, ","))
	}
}

// ------------------------------------------------------------------ oracles (on the implementation's answers)

func confZeroOf(kind string) string {
	switch kind {
	case "str":
		return "s:-"
	case "int", "dur", "durRaw", "size", "bytes", "floatMarked":
		return "n:0"
	case "triMarked", "triPlain", "boolPlain":
		return "b:false"
	}
	return "nil"
}

// confDenote: what a well-typed written value says, in the dump's notation; ok=false when
// the text says nothing (an empty string for a size, "yes" for a boolean read through a
// string, an empty include list, ...).
func confDenote(kind string, w confW) (string, bool) {
	if w.c == 'x' || !confWellTyped(kind, w) {
		return "", false
	}
	switch kind {
	case "str":
		return "s:" + esc(w.s), true
	case "int", "dur", "durRaw":
		return fmt.Sprintf("n:%d", w.n), true
	case "size", "bytes", "floatMarked":
		if w.c == 's' {
			return "", false
		}
		return fmt.Sprintf("n:%d", w.n), true
	case "triMarked", "triPlain":
		switch strings.ToLower(w.s) {
		case "true":
			return "b:true", true
		case "false":
			return "b:false", true
		}
		return "", false
	case "boolPlain":
		return fmt.Sprintf("b:%t", w.b), true
	case "re", "reGroup":
		if w.s == "" {
			return "", false
		}
		return "p:" + esc(w.s), true
	case "rePat":
		if w.s == "" {
			return "", false
		}
		if w.s == "DEFAULT" {
			return "nil", true
		}
		return "p:" + esc(w.s), true
	case "reList":
		if len(w.l) == 0 {
			return "", false
		}
		return confFmtW(w), true
	case "mapList":
		return confFmtW(w), true
	}
	return "", false
}

func confMarkedKind(kind string) bool { return kind == "triMarked" || kind == "floatMarked" }

// checkStruct evaluates C19's first sentence on one struct: written => effective (theorems
// explicit_nonzero_kept, C19_explicit_kept_partial; the full statement in strict mode) and
// absent => inherited (absent_inherits). prev == nil: nothing to inherit from.
func (e *confExec) checkStruct(where, structName string, fs []confField, o confOpts, eff, prev *confDumpStruct, first bool) {
	for i := range fs {
		f := &fs[i]
		if f.kind == "struct" || f.kind == "structs" {
			continue
		}
		kind := confModelKind(structName, f)
		got := eff.vals[f.key]
		w, written := o.get(f.key)
		den, says := "", false
		if written {
			den, says = confDenote(kind, w)
		}
		if says {
			e.explicit++
			zero := den == confZeroOf(f.kind) || kind == "rePat" && den == "nil"
			if got != den {
				switch {
				case first || confMarkedKind(kind) || !zero:
					e.fail("explicit-overridden: %s %s written %s effective %s", where, f.key, den, got)
				case e.strict:
					e.fail("explicit-overridden: %s %s written %s (the zero value of an option without marker) effective %s", where, f.key, den, got)
				}
			}
			continue
		}
		// nothing written
		want := confZeroOf(f.kind)
		if prev != nil {
			want = prev.vals[f.key]
		}
		if got == want {
			if prev != nil && want != confZeroOf(f.kind) {
				e.inherited++
			}
			continue
		}
		// no exception for include / ignore: since `fix: an omitted include (ignore) list was not
		// inherited when the other list was written` an omitted (or empty) list inherits whatever
		// the source writes for the other list (absent_inherits, absent_inherits_lists)
		e.fail("absent-not-inherited: %s %s omitted, effective %s, expected %s", where, f.key, got, want)
	}
}

func confZeroDump(fs []confField) *confDumpStruct {
	d := &confDumpStruct{vals: map[string]string{}, marked: map[string]bool{}}
	for _, f := range fs {
		if f.kind != "struct" && f.kind != "structs" {
			d.keys = append(d.keys, f.key)
			d.vals[f.key] = confZeroOf(f.kind)
		}
	}
	return d
}

func (e *confExec) oracleParsed() {
	if len(e.dump) != len(e.srcs) {
		e.fail("source-count: %d written, %d effective", len(e.srcs), len(e.dump))
		return
	}
	for i, s := range e.srcs {
		d := e.dump[i]
		var prev *confDumpSrc
		if i > 0 {
			prev = e.dump[i-1]
		}
		where := fmt.Sprintf("source %d", i)
		var p *confDumpStruct
		if prev != nil {
			p = &prev.confDumpStruct
		}
		e.checkStruct(where, "src", confSrcFields, s.opts, &d.confDumpStruct, p, i == 0)
		// target
		var pt *confDumpStruct
		if prev != nil {
			pt = prev.target
		}
		switch {
		case !s.hasTarget:
			a, b := "nil", "nil"
			if d.target != nil {
				a = d.target.line()
			}
			if pt != nil {
				b = pt.line()
			}
			if a != b {
				e.fail("absent-not-inherited: %s target omitted, effective {%s}, preceding {%s}", where, a, b)
			} else if pt != nil {
				e.inherited++
			}
		default:
			et := d.target
			if et == nil {
				et = confZeroDump(confTgtFields) // an all-zero target replaced by a nil pointer
			}
			e.checkStruct(where+" target", "tgt", confTgtFields, s.target, et, pt, i == 0)
		}
		// tags
		switch {
		case !s.hasTags:
			a, b := "nil", "nil"
			if d.hasTag {
				a = fmt.Sprint(len(d.tags))
				for _, t := range d.tags {
					a += " | " + t.line()
				}
			}
			if prev != nil && prev.hasTag {
				b = fmt.Sprint(len(prev.tags))
				for _, t := range prev.tags {
					b += " | " + t.line()
				}
			}
			if a != b {
				e.fail("absent-not-inherited: %s tags omitted, effective {%s}, preceding {%s}", where, a, b)
			} else if b != "nil" {
				e.inherited++
			}
		case !d.hasTag || len(d.tags) != len(s.tags):
			e.fail("tag-count: %s %d tags written, %d effective", where, len(s.tags), len(d.tags))
		default:
			for j, t := range s.tags {
				var p0 *confDumpStruct
				if j > 0 {
					p0 = d.tags[0]
				}
				e.checkStruct(fmt.Sprintf("%s tag %d", where, j), "tag", confTagFields, *t, d.tags[j], p0, j == 0)
			}
		}
	}
}

// oracleReenc: theorem reencode_fixpoint, unconditional since `fix: error-backoff lost its
// decimals beyond the sixth when re-encoded as JSON` (MarshalJSON printed it with %f before).
func (e *confExec) oracleReenc(a, b []*confDumpSrc) {
	if len(a) != len(b) {
		e.fail("reencode-changed: %d sources before, %d after", len(a), len(b))
		return
	}
	for i := range a {
		if a[i].full() == b[i].full() {
			continue
		}
		what := "?"
		x, y := strings.Fields(a[i].full()), strings.Fields(b[i].full())
		for k := 0; k < len(x) && k < len(y); k++ {
			if x[k] != y[k] {
				what = x[k] + " -> " + y[k]
				break
			}
		}
		if len(x) != len(y) && what == "?" {
			what = fmt.Sprintf("%d fields -> %d fields", len(x), len(y))
		}
		e.fail("reencode-changed: source %d %s", i, what)
	}
}

// oracleTag: theorems tagger_first_match / tag_applies / lookups_agree: the tag of a file is
// the first tag with a pattern whose text equals the file's group or whose pattern matches
// it, the default tag otherwise; queue tag and file tag carry that tag's settings. Strict
// mode states the property's wording instead (pattern against the file NAME).
func (e *confExec) oracleTag(i int, name, ans string) {
	f := map[string]string{}
	for _, p := range strings.Fields(ans) {
		if k, v, ok := strings.Cut(p, "="); ok {
			f[k] = v
		}
	}
	rt := confMainAsk(fmt.Sprintf("rtags %d", i))
	type rtag struct {
		pat    *regexp.Regexp
		text   string
		method string
		order  string
	}
	var tags []rtag
	if rt != "-" {
		for _, p := range strings.Fields(rt) {
			parts := strings.Split(p, ",")
			if len(parts) != 3 || !strings.HasPrefix(parts[0], "p=") {
				e.fail("tag-runtime: unreadable runtime tag list %q", rt)
				return
			}
			t := rtag{method: unesc(strings.TrimPrefix(parts[1], "m=")), order: unesc(strings.TrimPrefix(parts[2], "o="))}
			if parts[0] != "p=nil" {
				t.text = unesc(parts[0][2:])
				re, err := regexp.Compile(t.text)
				if err != nil {
					e.fail("tag-runtime: pattern %q does not compile", t.text)
					return
				}
				t.pat = re
			}
			tags = append(tags, t)
		}
	}
	first := func(s string) (int, string) {
		for k, t := range tags {
			if t.pat != nil && (t.text == s || t.pat.MatchString(s)) {
				return k, t.text
			}
		}
		return -1, ""
	}
	d := e.dump[i]
	gb := `^([^\.]*)`
	if g := d.vals["group-by"]; g != "nil" {
		gb = unesc(strings.TrimPrefix(g, "p:"))
	}
	group := ""
	if m := regexp.MustCompile(gb).FindStringSubmatch(name); len(m) > 1 && m[1] != "" && m[1] != name {
		group = m[1]
	} else {
		_, group = first(name)
	}
	wantIdx, wantTag := first(group)
	gotGroup, gotTag := unesc(f["group"]), unesc(f["tag"])
	if gotGroup != group {
		e.fail("tag-group: file %q group %q, expected %q", name, gotGroup, group)
	}
	if gotTag != wantTag {
		e.fail("tag-not-first-match: file %q (group %q) got tag %q, first matching tag is %q", name, group, gotTag, wantTag)
		return
	}
	hasDefault := false
	distinct := true
	seen := map[string]bool{}
	for _, t := range tags {
		if t.pat == nil {
			hasDefault = true
		}
		if seen[t.text] {
			distinct = false
		}
		seen[t.text] = true
	}
	if !hasDefault {
		e.fail("tag-no-default: the running sender has no default tag")
	}
	if wantIdx < 0 {
		for k, t := range tags {
			if t.pat == nil {
				wantIdx = k
				break
			}
		}
	}
	// settings: those of the effective tag (with init()'s defaults)
	num := func(d *confDumpStruct, key string) string {
		if d == nil {
			return "0"
		}
		return strings.TrimPrefix(d.vals[key], "n:")
	}
	var et *confDumpStruct
	if wantIdx >= 0 && wantIdx < len(d.tags) {
		et = d.tags[wantIdx]
	}
	order := "fifo"
	del := "false"
	if et != nil {
		if o := confDumpStr(et, "order"); o != "" {
			order = o
		}
		del = strings.TrimPrefix(et.vals["delete"], "b:")
	}
	chunk := num(et, "chunk-size")
	if chunk == "0" {
		chunk = strings.TrimPrefix(d.vals["bin-size"], "n:")
		if chunk == "0" {
			chunk = strconv.FormatInt(10*1024*1024*1024, 10)
		}
	}
	wantQ := fmt.Sprintf("%d:%s:%s:%s:%s", wantIdx, num(et, "priority"), esc(order), chunk, num(et, "last-delay"))
	wantF := fmt.Sprintf("%d:%s:%s", wantIdx, del, num(et, "delete-delay"))
	gotF := f["f"]
	if p := strings.Split(gotF, ":"); len(p) == 4 {
		gotF = p[0] + ":" + p[2] + ":" + p[3] // index, delete, delete delay
	}
	if distinct {
		if f["q"] != wantQ {
			e.fail("tag-settings-mismatch: file %q tag %q queue settings %s, the tag's are %s", name, gotTag, f["q"], wantQ)
		}
		if gotF != wantF {
			e.fail("tag-settings-mismatch: file %q tag %q file-tag settings (index:delete:delay) %s, the tag's are %s", name, gotTag, gotF, wantF)
		}
	}
	if e.strict {
		// the property's wording: "exactly the files whose names match that tag's pattern"
		byName := ""
		idx := -1
		for k, t := range tags {
			if t.pat != nil && t.pat.MatchString(name) {
				byName, idx = t.text, k
				break
			}
		}
		if byName != gotTag {
			e.fail("tag-by-group-not-name: file %q matches pattern %q of tag %d, but the sender uses tag %q (matched against the group %q)", name, byName, idx, gotTag, group)
		}
	}
}

func (e *confExec) Oracle() []string { f := e.fails; e.fails = nil; return f }

func (e *confExec) Signature() (bool, string) {
	multi := len(e.srcs) >= 2
	for _, s := range e.srcs {
		if len(s.tags) >= 2 {
			multi = true
		}
	}
	return e.stage > 0 && multi && e.inherited > 0 && e.explicit > 0 && e.queries > 0, e.key.String()
}

func (e *confExec) Close() {}

func (confComp) AnswerClass(op []string, ans string) string {
	switch op[0] {
	case "opt", "topt", "gopt":
		if ans != "ok" || len(op) != 3 {
			return op[0] + ":" + ans
		}
		confTables()
		fs, sn := confSrcFields, "src"
		if op[0] == "topt" {
			fs, sn = confTgtFields, "tgt"
		} else if op[0] == "gopt" {
			fs, sn = confTagFields, "tag"
		}
		f := confFieldByKey(fs, op[1])
		w, _ := confParseW(op[2])
		kind := confModelKind(sn, f)
		den, says := confDenote(kind, w)
		switch {
		case w.c == 'x' || !confWellTyped(kind, w):
			return "opt:" + kind + ":refused-text"
		case !says:
			return "opt:" + kind + ":says-nothing"
		case den == confZeroOf(f.kind) || den == "nil":
			return "opt:" + kind + ":explicit-zero"
		}
		return "opt:" + kind + ":nonzero"
	case "parse", "reenc":
		f := strings.Fields(ans)
		if len(f) == 3 {
			return op[0] + ":ok:" + f[2]
		}
		if len(f) > 0 {
			return op[0] + ":" + f[0]
		}
	case "tagof":
		if strings.HasPrefix(ans, "group=") {
			f := strings.Fields(ans)
			if strings.HasSuffix(f[1], "=-") {
				return "tagof:default-tag"
			}
			return "tagof:pattern-tag"
		}
		return "tagof:" + strings.SplitN(ans, ":", 2)[0]
	case "eff", "efftgt", "efftag", "rtags", "ignores":
		if strings.Contains(ans, "=") {
			return op[0] + ":answered"
		}
		return op[0] + ":" + ans
	case "table":
		return "table"
	}
	if len(ans) > 12 {
		ans = ans[:12]
	}
	return op[0] + ":" + ans
}

// ------------------------------------------------------------------ corpus

func (confComp) Corpus() [][]string {
	probe := []string{ // DESIGN.md section 8, F7: the probe document (YAML and JSON)
		"source", "opt name s:a", "opt include-hidden s:true", "opt compress n:4", "opt include l:%5ex",
		"opt ignore l:y%24", "opt error-backoff n:1500000000", "opt scan-delay n:10", "opt bin-size n:20971520",
		"opt stat-payload s:yes", "target", "topt http-host s:h", "topt quic-enable-datagrams b:true",
		"topt quic-max-idle-timeout n:30000000000", "topt quic-keep-alive n:15",
		"tag", "gopt pattern s:DEFAULT", "gopt priority n:5", "gopt order s:fifo", "gopt delete s:True", "gopt method s:http",
		"tag", "gopt pattern s:%5ea", "gopt priority n:0", "gopt order s:-", "gopt delete s:false",
		"source", "opt name s:b", "opt include-hidden s:false", "opt compress n:0", "opt ignore l:z%24", "tags",
		"target", "topt quic-enable-datagrams b:false",
		"source", "opt name s:c", "opt include l:q", "target",
	}
	queries := []string{"eff 0", "eff 1", "eff 2", "efftgt 0", "efftgt 1", "efftgt 2", "efftag 0 0", "efftag 0 1",
		"tagof 0 abc.def", "tagof 0 xyz", "rtags 0", "ignores 0", "reenc", "eff 0", "eff 1", "eff 2", "efftgt 2",
		"efftag 0 1", "tagof 0 abc.def", "tagof 1 abc", "rtags 2"}
	cat := func(parts ...[]string) []string {
		var out []string
		for _, p := range parts {
			out = append(out, p...)
		}
		return out
	}
	return [][]string{
		{"table src", "table tag", "table tgt"},
		cat(probe, []string{"parse yaml 1"}, queries),
		cat(probe, []string{"parse json 2"}, queries),
		// the three marked options keep an explicit false / 0 (C19_explicit_kept_partial)
		{"source", "opt name s:a", "opt stat-payload s:true", "opt error-backoff n:2000000000", "target", "topt http-host s:h",
			"tag", "gopt pattern s:DEFAULT", "gopt delete s:true", "tag", "gopt pattern s:%5ex", "gopt delete s:false",
			"source", "opt stat-payload s:false", "opt error-backoff n:0", "source",
			"parse yaml 3", "eff 0", "eff 1", "eff 2", "efftag 0 1", "reenc", "eff 1", "eff 2", "efftag 2 1"},
		// FIXED (fix: include-hidden: false was overridden ...): the witness of F7 for include-hidden;
		// the option has a marker now, so the ordinary oracle requires the written false to be effective
		{"source", "opt include-hidden s:true", "source", "opt include-hidden s:false", "source", "source", "opt include-hidden s:True",
			"parse yaml 1", "eff 1", "eff 2", "eff 3", "reenc", "eff 1", "eff 2"},
		// KNOWN FINDING C19-F7 (strict = the full statement C19ExplicitKept): explicit zero numeric / empty order / false target boolean
		{"strict on", "source", "opt compress n:4", "target", "topt quic-enable-datagrams b:true",
			"tag", "gopt priority n:5", "gopt order s:lifo", "tag", "gopt pattern s:x", "gopt priority n:0", "gopt order s:-",
			"source", "opt compress n:0", "target", "topt quic-enable-datagrams b:false", "parse json 1", "eff 1", "efftgt 1", "efftag 0 1"},
		// FIXED (fix: an omitted include (ignore) list was not inherited ...): the witness of F7b, an omitted
		// include list next to a written ignore list (and the mirror image, and an explicitly empty list,
		// in YAML and JSON, also after re-encoding); the ordinary oracle requires the inheritance now
		{"strict on", "source", "opt include l:%5ex", "source", "opt ignore l:z%24", "parse yaml 1", "eff 1"},
		{"source", "opt include l:%5ex", "opt ignore l:y%24", "source", "opt ignore l:z%24", "source", "opt include l:a.b",
			"source", "opt include l:", "opt ignore l:foo", "parse json 1", "eff 1", "eff 2", "eff 3", "reenc", "eff 1", "eff 2", "eff 3"},
		// FIXED (fix: error-backoff lost its decimals ...): the witness of F7c, an error-backoff with more than
		// six decimals must survive re-encoding (also inherited by a later source, also a second hand-over)
		{"strict on", "source", "opt error-backoff n:1234567890", "parse yaml 1", "reenc", "eff 0"},
		{"source", "opt error-backoff n:1000000499", "source", "source", "opt error-backoff n:1", "parse json 1",
			"reenc", "eff 0", "eff 1", "eff 2", "reenc", "eff 2"},
		// KNOWN FINDING C19-S15: tag patterns are matched against the group, not the file name
		{"strict on", "source", "opt name s:a", "target", "topt http-host s:h", "tag", "gopt pattern s:DEFAULT", "gopt method s:http",
			"tag", "gopt pattern s:%5c.nc%24", "gopt priority n:7", "parse yaml 1", "tagof 0 data.001.nc", "tagof 0 nc"},
		// tag look-up: group == name, empty group, pattern text as group, duplicate default tags
		{"source", "opt name s:a", "target", "topt http-host s:h", "tag", "gopt pattern s:b", "gopt priority n:1",
			"tag", "gopt pattern s:%5eb", "gopt priority n:2", "tag", "gopt pattern s:DEFAULT", "gopt delete s:true",
			"tag", "gopt pattern s:c%24", "gopt method s:disk",
			"parse yaml 5", "tagof 0 abc", "tagof 0 b", "tagof 0 .hidden", "tagof 0 abc.x", "tagof 0 zzc", "tagof 0 -", "rtags 0", "ignores 0"},
		{"source", "opt name s:a", "opt group-by s:%5e%28%5b%5e/%5d%2a%29", "opt bin-size n:4096", "target", "topt http-host s:h",
			"tag", "gopt pattern s:%5edir%24", "gopt chunk-size n:1024", "gopt last-delay n:5000000000", "gopt delete s:true", "gopt delete-delay n:60000000000",
			"parse json 7", "tagof 0 dir/file.nc", "tagof 0 dir", "tagof 0 other/dir", "tagof 0 /x", "rtags 0"},
		// FIXED (fix: copy the ignore list ...): a later source that inherited the ignore slice (spare
		// capacity from applyAux's shared `patterns` slice) overwrote this source's non-http tag pattern
		{"source", "opt name s:a", "opt include l:a,b,c", "opt ignore l:d,e", "target", "topt http-host s:h",
			"tag", "gopt pattern s:DEFAULT", "tag", "gopt pattern s:data", "gopt method s:disk",
			"source", "opt name s:b", "tag", "gopt pattern s:DEFAULT", "tag", "gopt pattern s:x", "gopt method s:disk",
			"parse yaml 1", "ignores 0", "ignores 1", "rtags 0", "reenc", "ignores 0", "ignores 1"},
		// unsupported / no-init / malformed
		{"source", "opt name s:a", "target", "topt http-host s:h:1992", "parse yaml 1", "tagof 0 x", "source", "eff 0",
			"parse yaml 1", "tagof 1 x", "source", "target", "parse yaml 1", "tagof 2 x"},
		{"opt name s:a", "eff 0", "source", "opt nope s:a", "opt name q:a", "opt threads bad", "parse yaml 1", "eff 0", "reenc",
			"parse xml 1", "parse yaml x", "eff x", "eff 5", "gopt priority n:1", "tags", "gopt priority n:1", "topt http3-port n:-1",
			"topt quic-max-stream-receive-window n:-1", "parse json 1", "efftgt 0"},
	}
}

// ------------------------------------------------------------------ generator

var (
	confStrs   = []string{"a", "b", "data", "x/y", "host1", "some-name", "A_1"}
	confInts   = []int64{0, 0, 1, 2, 3, 4, 9, -1, 64, 1 << 31}
	confDurs   = []int64{0, 0, 1, 1e9, 90e9, 3600e9, 36 * 3600e9, 1500e6, -5e9, 250e6}
	confSizes  = []int64{0, 0, 1, 1023, 1024, 1536, 20 << 20, 10 << 30, 4096}
	confFloats = []int64{0, 0, 1e9, 1500e6, 250e6, 123456000, -2e9, 3e9, 1000}
	confFlLong = []int64{1234567890, 1000000499, 1000000501, 999999999, 1}
	confTris   = []string{"true", "true", "true", "True", "TRUE", "true", "yes", "", "0", "tRuE"}
	confPats   = []string{"^a", "b$", `\.nc$`, "^abc$", "x", "a/b", "^data", "nc", "^", "$", "c", `^\.hid`, "^dir$", "data", `a\.b`}
	confNames  = []string{"abc.def", "data.001.nc", "x", "a/b.c", ".hidden", "abc", "", "nc", "dir/file.nc", "dir", "b", "data", "a.b", "zzc", "abc.x", "xdata.nc", "a_b.c", "/lead"}
	confGroups = []string{`^([^\.]*)`, `^([^/]*)`, `^([^_]*)`, `^([^.]*)`, ""}
	confRes    = []string{"^x", "y$", `\.tmp$`, "a.b", "^in/", "foo"}
)

func confGenW(r *Rand, kind string, zero bool) confW {
	switch kind {
	case "str":
		if zero {
			return confW{c: 's'}
		}
		return confW{c: 's', s: r.Pick(confStrs)}
	case "int":
		if zero {
			return confW{c: 'n'}
		}
		return confW{c: 'n', n: confInts[2+r.Intn(len(confInts)-2)]}
	case "dur", "durRaw":
		if zero {
			return confW{c: 'n'}
		}
		return confW{c: 'n', n: confDurs[2+r.Intn(len(confDurs)-2)]}
	case "size", "bytes":
		if zero {
			if r.Chance(0.2) {
				return confW{c: 's'}
			}
			return confW{c: 'n'}
		}
		return confW{c: 'n', n: confSizes[2+r.Intn(len(confSizes)-2)]}
	case "triMarked", "triPlain":
		if zero {
			return confW{c: 's', s: []string{"false", "false", "False", "FALSE"}[r.Intn(4)]}
		}
		return confW{c: 's', s: r.Pick(confTris)}
	case "boolPlain":
		return confW{c: 'b', b: !zero}
	case "floatMarked":
		if zero {
			if r.Chance(0.2) {
				return confW{c: 's'}
			}
			return confW{c: 'n'}
		}
		if r.Chance(0.12) {
			return confW{c: 'n', n: confFlLong[r.Intn(len(confFlLong))]}
		}
		return confW{c: 'n', n: confFloats[2+r.Intn(len(confFloats)-2)]}
	case "re":
		if zero {
			return confW{c: 's'}
		}
		return confW{c: 's', s: r.Pick(confRes)}
	case "rePat":
		if zero {
			return confW{c: 's', s: []string{"DEFAULT", "DEFAULT", ""}[r.Intn(3)]}
		}
		return confW{c: 's', s: r.Pick(confPats)}
	case "reGroup":
		if zero {
			return confW{c: 's'}
		}
		return confW{c: 's', s: r.Pick(confGroups)}
	case "reList":
		w := confW{c: 'l', l: []string{}}
		if !zero {
			for k := r.Range(1, 3); k > 0; k-- {
				w.l = append(w.l, r.Pick(confRes))
			}
		}
		return w
	case "mapList":
		w := confW{c: 'l', l: []string{}}
		if !zero {
			for k := r.Range(1, 2); k > 0; k-- {
				w.l = append(w.l, r.Pick(confRes), r.Pick(confStrs))
			}
		}
		return w
	}
	return confW{c: 'x'}
}

func confGenOpts(r *Rand, cmd, structName string, fs []confField, pPresent, pZero float64, skip map[string]bool) []string {
	var ops []string
	for i := range fs {
		f := &fs[i]
		if f.kind == "struct" || f.kind == "structs" || skip[f.key] || !r.Chance(pPresent) {
			continue
		}
		kind := confModelKind(structName, f)
		ops = append(ops, fmt.Sprintf("%s %s %s", cmd, f.key, confFmtW(confGenW(r, kind, r.Chance(pZero)))))
	}
	r.Shuffle(len(ops), func(a, b int) { ops[a], ops[b] = ops[b], ops[a] })
	return ops
}

func (confComp) Generate(r *Rand, tier string, n int) [][]string {
	confTables()
	var cases [][]string
	for ci := 0; ci < n; ci++ {
		if r.Chance(0.08) {
			cases = append(cases, confGenMalformed(r))
			continue
		}
		var ops []string
		nsrc := []int{1, 2, 2, 2, 3, 3, 4}[r.Intn(7)]
		if r.Chance(0.03) {
			nsrc = r.Range(0, 6)
		}
		style := r.Intn(4) // 0 sparse, 1 dense, 2 zero-heavy, 3 tag-centred
		pPresent := []float64{0.15, 0.6, 0.35, 0.1}[style]
		pZero := []float64{0.25, 0.25, 0.7, 0.3}[style]
		runnable := r.Chance(0.85) // keep init() possible: name, target host, no TLS, no port
		var tagCounts []int
		for i := 0; i < nsrc; i++ {
			ops = append(ops, "source")
			pp := pPresent
			if i == 0 {
				pp = math.Min(1, pPresent*2)
			}
			skip := map[string]bool{}
			if runnable {
				skip["name"] = true
				if i == 0 || r.Chance(0.5) {
					ops = append(ops, "opt name s:"+esc(r.Pick(confStrs)))
				}
			}
			ops = append(ops, confGenOpts(r, "opt", "src", confSrcFields, pp, pZero, skip)...)
			if i == 0 && runnable || r.Chance(0.45) {
				ops = append(ops, "target")
				tskip := map[string]bool{}
				if runnable {
					tskip["http-host"], tskip["http-tls-cert"], tskip["http-tls-cert-encoded"] = true, true, true
					if i == 0 || r.Chance(0.4) {
						ops = append(ops, "topt http-host s:"+esc(r.Pick(confStrs)))
					}
				}
				ops = append(ops, confGenOpts(r, "topt", "tgt", confTgtFields, pp, pZero, tskip)...)
			}
			nt := -1
			switch {
			case i > 0 && r.Chance(0.45):
			case r.Chance(0.06):
				ops = append(ops, "tags")
				nt = 0
			default:
				nt = r.Range(1, 4)
				if style == 3 {
					nt = r.Range(2, 5)
				}
				defPos := 0
				if r.Chance(0.2) {
					defPos = r.Intn(nt + 1) // == nt: no default tag at all
				}
				for j := 0; j < nt; j++ {
					ops = append(ops, "tag")
					tp := math.Max(pp, 0.3)
					skipT := map[string]bool{"pattern": true}
					switch {
					case j == defPos:
						if r.Chance(0.8) {
							ops = append(ops, "gopt pattern s:"+[]string{"DEFAULT", "DEFAULT", "-"}[r.Intn(3)])
						}
					default:
						if r.Chance(0.93) {
							ops = append(ops, "gopt pattern s:"+esc(r.Pick(confPats)))
						}
					}
					if r.Chance(0.5) {
						ops = append(ops, "gopt method s:"+[]string{"http", "http", "disk", "-"}[r.Intn(4)])
						skipT["method"] = true
					}
					if r.Chance(0.5) {
						ops = append(ops, "gopt order s:"+[]string{"fifo", "lifo", "none", "-"}[r.Intn(4)])
						skipT["order"] = true
					}
					ops = append(ops, confGenOpts(r, "gopt", "tag", confTagFields, tp, pZero, skipT)...)
				}
			}
			tagCounts = append(tagCounts, nt)
		}
		if r.Chance(0.04) { // one refused text somewhere
			ops = append(ops, []string{"opt threads bad", "opt bin-size bad", "opt group-by bad", "opt include bad",
				"opt stat-payload bad", "opt error-backoff bad", "opt cache-age bad", "opt threads s:x", "opt bin-size n:-1",
				"opt include l:%28", "opt rename l:a", "opt group-by s:%28a%29"}[r.Intn(12)])
		}
		format := "yaml"
		if r.Chance(0.45) {
			format = "json"
		}
		ops = append(ops, fmt.Sprintf("parse %s %d", format, r.Intn(1000000)))
		queries := func() {
			for i := 0; i < nsrc; i++ {
				ops = append(ops, fmt.Sprintf("eff %d", i))
				if r.Chance(0.7) {
					ops = append(ops, fmt.Sprintf("efftgt %d", i))
				}
				for j := 0; j < 5; j++ {
					if r.Chance(0.6) {
						ops = append(ops, fmt.Sprintf("efftag %d %d", i, j))
					}
				}
			}
		}
		queries()
		tagq := func() {
			for k := r.Range(1, 5); k > 0; k-- {
				si := r.Intn(nsrc + 1)
				if si == nsrc && r.Chance(0.9) {
					si = 0
				}
				ops = append(ops, fmt.Sprintf("tagof %d %s", si, esc(r.Pick(confNames))))
			}
			if r.Chance(0.5) {
				ops = append(ops, fmt.Sprintf("rtags %d", r.Intn(nsrc+1)))
			}
			if r.Chance(0.5) {
				ops = append(ops, fmt.Sprintf("ignores %d", r.Intn(nsrc+1)))
			}
		}
		if r.Chance(0.6) {
			tagq()
		}
		if r.Chance(0.8) {
			ops = append(ops, "reenc")
			queries()
			if r.Chance(0.5) {
				tagq()
			}
			if r.Chance(0.15) {
				ops = append(ops, "reenc", fmt.Sprintf("eff %d", r.Intn(nsrc+1)))
			}
		}
		cases = append(cases, ops)
	}
	return cases
}

func confGenMalformed(r *Rand) []string {
	pool := []string{"source", "opt name s:a", "opt threads n:3", "opt threads n:x", "opt nope n:1", "opt", "opt name", "target extra",
		"topt http-host s:h", "topt http3-port n:0", "tag", "tags", "gopt pattern s:%5ea", "gopt delete s:false", "gopt nope s:x",
		"parse yaml 1", "parse json 2", "parse xml 1", "parse yaml", "parse yaml -1", "reenc", "reenc now", "eff 0", "eff 1", "eff -1", "eff",
		"efftgt 0", "efftag 0 0", "efftag 0", "efftag 0 x", "tagof 0 abc.def", "tagof 0", "rtags 0", "ignores 0", "strict off", "strict maybe",
		"table src", "table nope", "frobnicate", "opt include l:a,,b", "opt include l:", "opt rename l:a,b", "opt rename l:a",
		"opt stat-payload s:TRUE", "opt error-backoff s:-", "opt error-backoff s:abc", "opt bin-size s:-", "opt bin-size s:1KB",
		"topt quic-max-connection-receive-window n:-5", "gopt pattern s:%28", "gopt pattern s:a%5eb", "opt group-by s:x", "opt compress b:true"}
	var ops []string
	for k := r.Range(3, 25); k > 0; k-- {
		ops = append(ops, r.Pick(pool))
	}
	return ops
}
