module verif/harness

go 1.25.0

require (
	github.com/alecthomas/units v0.0.0-20240927000941-0f3dac36c52b
	github.com/arm-doe/sts v0.0.0
	gopkg.in/yaml.v2 v2.4.0
)

require (
	github.com/golang-module/carbon/v2 v2.3.8 // indirect
	github.com/quic-go/qpack v0.6.0 // indirect
	github.com/quic-go/quic-go v0.60.0 // indirect
	go.bryk.io/pkg v0.0.0-20250411182835-130bbccf42ad // indirect
	golang.org/x/crypto v0.52.0 // indirect
	golang.org/x/net v0.55.0 // indirect
	golang.org/x/sys v0.45.0 // indirect
	golang.org/x/text v0.37.0 // indirect
)

replace github.com/arm-doe/sts => /repo
