package main

import (
	"fmt"
	"sort"
	"strconv"
	"strings"
	"time"

	"github.com/arm-doe/sts"
	"github.com/arm-doe/sts/client"
	stslog "github.com/arm-doe/sts/log"
	"github.com/arm-doe/sts/payload"
	"github.com/arm-doe/sts/queue"
)

// component "chunkbin": queue.sortedFile.allocate / isAllocated / getSendSize,
// client.recoverFile.Allocate / IsAllocated / GetSendSize, client.binnable and payload.Bin
// (NewBin, Add, IsFull, Split, Remove, GetSize, GetParts) through tag-guarded exports, and the
// packing loop of client.Broker.startBin replicated statement by statement over the real Bin
// and the real binnable. Property: C11.
type chunkbinComp struct{}

func init() {
	register(chunkbinComp{})
	if stslog.Get() == nil {
		stslog.InitExternal(cbNullLogger{})
	}
}

type cbNullLogger struct{}

func (cbNullLogger) Debug(...interface{}) {}
func (cbNullLogger) Info(...interface{})  {}
func (cbNullLogger) Error(...interface{}) {}
func (cbNullLogger) Recent(int) []string  { return nil }

const (
	cbLim53 = int64(1) << 53
	cbLim49 = int64(1) << 49
)

func (chunkbinComp) Name() string { return "chunkbin" }
func (chunkbinComp) Rule() string {
	return "case = one scenario over the real allocation / Bin code (a file or resumed file allocated chunk by chunk, " +
		"a bin filled/split/pruned part by part, or a whole startBin packing run); non-trivial = a file allocated " +
		"completely in at least 2 chunks, or at least 2 successful Adds into a bin, or a packing run that emitted " +
		"at least 2 payloads; distinct = by the full op sequence"
}

// ---------------------------------------------------------------- fixtures

type cbFile struct {
	name string
	size int64
}

func (f *cbFile) GetPath() string    { return "/src/" + f.name }
func (f *cbFile) GetName() string    { return f.name }
func (f *cbFile) GetSize() int64     { return f.size }
func (f *cbFile) GetTime() time.Time { return time.Unix(1700000000, 0) }
func (f *cbFile) GetMeta() []byte    { return nil }
func (f *cbFile) GetHash() string    { return "h-" + f.name }
func (f *cbFile) IsDone() bool       { return false }

// cbSendable is what queue.Tagged.Pop hands to startBin (queue.sendable is unexported): a
// hashed file plus (offset, length).
type cbSendable struct {
	*cbFile
	beg, length int64
}

func (s *cbSendable) GetPrev() string          { return "" }
func (s *cbSendable) GetSlice() (int64, int64) { return s.beg, s.length }
func (s *cbSendable) GetSendSize() int64       { return s.size }

type cbRg struct{ b, e int64 }

type cbPart struct {
	name string
	b, e int64
}

func cbParts(p sts.Payload) []cbPart {
	var out []cbPart
	for _, x := range p.GetParts() {
		b, n := x.GetSlice()
		out = append(out, cbPart{x.GetName(), b, b + n})
	}
	return out
}

func cbFmtParts(ps []cbPart) string {
	if len(ps) == 0 {
		return "-"
	}
	s := make([]string, len(ps))
	for i, p := range ps {
		s[i] = fmt.Sprintf("%s:%d:%d", esc(p.name), p.b, p.e)
	}
	return strings.Join(s, ",")
}

func cbFmtBin(p sts.Payload) string {
	c, f, b, _ := payload.VerifBinState(p)
	return fmt.Sprintf("cap=%d fluff=%d bytes=%d full=%t parts=%s", c, f, b, p.IsFull(), cbFmtParts(cbParts(p)))
}

// ---------------------------------------------------------------- executor

type cbChunk struct {
	b     sts.Binnable
	beg   int64
	len   int64
	cut   []cbPart // parts cut from this chunk so far (oracle)
	track bool     // every Add of this chunk so far was inside the oracle's hypotheses
}

type cbExec struct {
	file *queue.VerifSortedFile
	// oracle bookkeeping for the file being allocated
	fPlain   bool
	fSize    int64
	fLeft    []cbRg
	fValid   bool // the theorem's hypotheses hold for the file
	fTrack   bool // still inside the contract (no call after completion, no excluded desired)
	fChunks  []cbRg
	fK       int   // resumed: index of the range being handed out
	fPos     int64 // resumed: end of the last chunk cut from range fK
	fInRange bool  // resumed: a chunk was already cut from range fK
	fDesired int64 // the one chunk size used so far (-1: none yet, -2: mixed)

	bin      sts.Payload
	binValid bool
	chunks   map[string]*cbChunk

	fails     []string
	key       strings.Builder
	nChunks   int
	fullAlloc bool
	nAdds     int
	nPay      int
}

func (chunkbinComp) NewExec() Exec {
	return &cbExec{chunks: map[string]*cbChunk{}}
}

func (e *cbExec) failf(format string, a ...any) { e.fails = append(e.fails, fmt.Sprintf(format, a...)) }

func cbAtoi(s string) (int64, bool) {
	v, err := strconv.ParseInt(s, 10, 64)
	return v, err == nil
}

func cbLeftValid(l []cbRg) bool {
	for i, r := range l {
		if r.b >= r.e {
			return false
		}
		if i > 0 && l[i-1].e > r.b {
			return false
		}
	}
	return true
}

// allocOnce calls the real allocate and evaluates the C11 oracle (allocate_tiles /
// resume_tiles) on what it returned.
func (e *cbExec) allocOnce(d int64) (off, length int64, panicked bool) {
	wasAllocated := e.file.IsAllocated()
	func() {
		defer func() {
			if r := recover(); r != nil {
				panicked = true
			}
		}()
		off, length = e.file.Allocate(d)
	}()
	if panicked {
		if e.fTrack && e.fValid && !wasAllocated {
			e.failf("alloc-panic: allocate(%d) panicked on a file that was not allocated", d)
		}
		e.fTrack = false
		return
	}
	if wasAllocated || !e.fValid {
		e.fTrack = false
	}
	if e.fPlain && d < 0 || !e.fPlain && d <= 0 {
		e.fTrack = false
	}
	if !e.fTrack {
		return
	}
	switch {
	case e.fDesired == -1:
		e.fDesired = d
	case e.fDesired != d:
		e.fDesired = -2
	}
	end := off + length
	now := e.file.IsAllocated()
	e.nChunks++
	if length <= 0 {
		e.failf("chunk-empty: allocate(%d) returned offset %d length %d", d, off, length)
	}
	if d > 0 && length > d {
		e.failf("chunk-too-large: allocate(%d) returned length %d", d, length)
	}
	if e.fPlain {
		prev := int64(0)
		if n := len(e.fChunks); n > 0 {
			prev = e.fChunks[n-1].e
		}
		if off != prev {
			e.failf("chunk-not-adjacent: allocate(%d) returned offset %d, previous chunk ended at %d", d, off, prev)
		}
		if end > e.fSize {
			e.failf("chunk-beyond-file: chunk %d:%d of a file of %d bytes", off, end, e.fSize)
		}
		if now != (end == e.fSize) {
			e.failf("allocated-flag: after chunk ending at %d of %d isAllocated=%t", end, e.fSize, now)
		}
		if now && e.fDesired >= 0 {
			want := 1
			if e.fDesired > 0 {
				want = int((e.fSize + e.fDesired - 1) / e.fDesired)
			}
			if len(e.fChunks)+1 != want {
				e.failf("chunk-count: file of %d bytes in chunks of %d gave %d chunks, expected %d", e.fSize, e.fDesired, len(e.fChunks)+1, want)
			}
		}
	} else {
		if e.fK >= len(e.fLeft) {
			e.failf("chunk-extra: chunk %d:%d after all missing ranges were handed out", off, end)
		} else {
			r := e.fLeft[e.fK]
			cursor := e.fPos
			if !e.fInRange {
				cursor = r.b
			}
			if off != cursor {
				e.failf("chunk-not-adjacent: resumed chunk starts at %d, expected %d (range %d:%d)", off, cursor, r.b, r.e)
			}
			if off < r.b || end > r.e {
				e.failf("chunk-outside-range: chunk %d:%d not inside missing range %d:%d", off, end, r.b, r.e)
			}
			e.fPos, e.fInRange = end, true
			if end >= r.e {
				e.fK++
				e.fInRange = false
			}
			if now != (e.fK == len(e.fLeft)) {
				e.failf("allocated-flag: resumed file, %d of %d ranges handed out, IsAllocated=%t", e.fK, len(e.fLeft), now)
			}
		}
	}
	e.fChunks = append(e.fChunks, cbRg{off, end})
	if now {
		if len(e.fChunks) >= 2 {
			e.fullAlloc = true
		}
		// exact cover, by interval arithmetic over everything handed out
		var want []cbRg
		if e.fPlain {
			want = []cbRg{{0, e.fSize}}
		} else {
			want = e.fLeft
		}
		if m := cbCoverMismatch(e.fChunks, want); m != "" {
			e.failf("cover: %s", m)
		}
	}
	return
}

// cbCoverMismatch: got must be ascending, disjoint, non-empty and its union must equal the
// union of want (want: ascending, disjoint, non-empty).
func cbCoverMismatch(got, want []cbRg) string {
	for i, g := range got {
		if g.b >= g.e {
			return fmt.Sprintf("empty range %d:%d", g.b, g.e)
		}
		if i > 0 && got[i-1].e > g.b {
			return fmt.Sprintf("ranges %d:%d and %d:%d overlap or descend", got[i-1].b, got[i-1].e, g.b, g.e)
		}
	}
	merge := func(l []cbRg) []cbRg {
		var m []cbRg
		for _, r := range l {
			if n := len(m); n > 0 && m[n-1].e == r.b {
				m[n-1].e = r.e
			} else {
				m = append(m, r)
			}
		}
		return m
	}
	a, b := merge(got), merge(want)
	if len(a) != len(b) {
		return fmt.Sprintf("covered %v, expected %v", a, b)
	}
	for i := range a {
		if a[i] != b[i] {
			return fmt.Sprintf("covered %v, expected %v", a, b)
		}
	}
	return ""
}

func (e *cbExec) newFile(plain bool, size int64, left []cbRg) {
	e.fPlain, e.fSize, e.fLeft = plain, size, left
	e.fChunks, e.fK, e.fDesired = nil, 0, -1
	e.fPos, e.fInRange = 0, false
	if plain {
		e.fValid = size > 0
	} else {
		e.fValid = len(left) > 0 && cbLeftValid(left)
	}
	e.fTrack = e.fValid
}

// binAddValid: the hypotheses of add_takes_min / bin_bounded (exact float64 range).
func cbSmall(capacity int64) bool { return capacity >= 0 && capacity < cbLim49 }

func cbChunkValid(beg, length, capacity, fluff int64) bool {
	return beg >= 0 && length >= 0 && beg <= cbLim53 && length <= cbLim53 && beg+length+capacity+fluff <= cbLim53
}

func (e *cbExec) checkBin(what string, p sts.Payload) {
	c, f, b, _ := payload.VerifBinState(p)
	sum := int64(0)
	for _, x := range cbParts(p) {
		if x.b >= x.e {
			e.failf("part-empty: %s: part %s:%d:%d", what, x.name, x.b, x.e)
		}
		sum += x.e - x.b
	}
	if sum != b || p.GetSize() != b {
		e.failf("bin-bytes: %s: bytes=%d GetSize=%d, parts sum to %d", what, b, p.GetSize(), sum)
	}
	if b > c+f {
		e.failf("bin-over-allowance: %s: bytes=%d > capacity %d + slack %d", what, b, c, f)
	}
}

func (e *cbExec) Do(op []string) string {
	e.key.WriteString(strings.Join(op, " "))
	e.key.WriteByte(';')
	switch {
	case len(op) == 2 && op[0] == "file":
		sz, ok := cbAtoi(op[1])
		if !ok {
			return "bad-op"
		}
		e.file = queue.VerifNewSortedFile(&cbFile{name: "f", size: sz})
		e.newFile(true, sz, nil)
		return "ok"
	case len(op) >= 2 && op[0] == "resume":
		sz, ok := cbAtoi(op[1])
		if !ok || len(op)%2 != 0 {
			return "bad-op"
		}
		var left []*sts.ByteRange
		var l []cbRg
		for i := 2; i+1 < len(op); i += 2 {
			b, ok1 := cbAtoi(op[i])
			en, ok2 := cbAtoi(op[i+1])
			if !ok1 || !ok2 {
				return "bad-op"
			}
			left = append(left, &sts.ByteRange{Beg: b, End: en})
			l = append(l, cbRg{b, en})
		}
		rf := client.VerifNewRecoverFile(&cbFile{name: "f", size: sz}, "", left)
		e.file = queue.VerifNewSortedFile(rf)
		e.newFile(false, sz, l)
		return "ok"
	case len(op) == 2 && op[0] == "alloc":
		d, ok := cbAtoi(op[1])
		if !ok {
			return "bad-op"
		}
		if e.file == nil {
			return "no-file"
		}
		off, n, panicked := e.allocOnce(d)
		if panicked {
			return "panic"
		}
		return fmt.Sprintf("%d %d %t", off, n, e.file.IsAllocated())
	case len(op) == 1 && op[0] == "status":
		if e.file == nil {
			return "no-file"
		}
		ss := e.file.GetSendSize()
		if e.fValid {
			want := e.fSize
			if !e.fPlain {
				want = 0
				for _, r := range e.fLeft {
					want += r.e - r.b
				}
			}
			if ss != want {
				e.failf("send-size: getSendSize=%d, expected %d", ss, want)
			}
		}
		return fmt.Sprintf("%t %d", e.file.IsAllocated(), ss)
	case len(op) == 3 && op[0] == "allocall":
		d, ok1 := cbAtoi(op[1])
		mx, err := strconv.ParseUint(op[2], 10, 63)
		if !ok1 || err != nil {
			return "bad-op"
		}
		if e.file == nil {
			return "no-file"
		}
		var out []string
		st := ""
		for i := uint64(0); i < mx; i++ {
			if e.file.IsAllocated() {
				break
			}
			off, n, panicked := e.allocOnce(d)
			if panicked {
				st = "panic"
				break
			}
			out = append(out, fmt.Sprintf("%d:%d", off, n))
		}
		if st == "" {
			if e.file.IsAllocated() {
				st = "done"
			} else {
				st = "more"
			}
		}
		s := "-"
		if len(out) > 0 {
			s = strings.Join(out, " ")
		}
		return s + " | " + st
	case len(op) == 2 && op[0] == "bin":
		c, ok := cbAtoi(op[1])
		if !ok {
			return "bad-op"
		}
		e.bin = payload.NewBin(c, nil, nil)
		e.binValid = cbSmall(c)
		if e.binValid {
			_, f, _, _ := payload.VerifBinState(e.bin)
			if f != c/10 {
				e.failf("slack: NewBin(%d) has slack %d, expected %d", c, f, c/10)
			}
		}
		return cbFmtBin(e.bin)
	case len(op) == 4 && op[0] == "chunk":
		b, ok1 := cbAtoi(op[2])
		n, ok2 := cbAtoi(op[3])
		if !ok1 || !ok2 {
			return "bad-op"
		}
		name := unesc(op[1])
		s := &cbSendable{cbFile: &cbFile{name: name, size: b + n}, beg: b, length: n}
		e.chunks[name] = &cbChunk{b: client.VerifNewBinnable(s, "", true), beg: b, len: n, track: true}
		return "ok"
	case len(op) == 2 && op[0] == "add":
		if e.bin == nil {
			return "no-bin"
		}
		ch := e.chunks[unesc(op[1])]
		if ch == nil {
			return "no-chunk"
		}
		c, f, b0, _ := payload.VerifBinState(e.bin)
		nb, ne := ch.b.GetNextAlloc()
		before := cbParts(e.bin)
		added := e.bin.Add(ch.b)
		after := cbParts(e.bin)
		nb2, ne2 := ch.b.GetNextAlloc()
		if e.binValid && cbChunkValid(ch.beg, ch.len, c, f) && b0 <= c+f {
			// add_takes_min / bin_bounded
			take := ne - nb
			if space := c + f - b0; space < take {
				take = space
			}
			if added != (take > 0) {
				e.failf("add-result: Add returned %t with %d bytes of the chunk left and %d bytes of room", added, ne-nb, c+f-b0)
			}
			if take > 0 {
				want := append(append([]cbPart(nil), before...), cbPart{ch.b.GetName(), nb, nb + take})
				if cbFmtParts(after) != cbFmtParts(want) {
					e.failf("add-takes-min: parts after Add are %s, expected %s", cbFmtParts(after), cbFmtParts(want))
				}
				if nb2 != nb+take {
					e.failf("add-advance: chunk allocation moved from %d to %d, expected %d", nb, nb2, nb+take)
				}
			} else if cbFmtParts(after) != cbFmtParts(before) || nb2 != nb {
				e.failf("add-nothing: Add returned false but changed the bin or the chunk")
			}
			e.checkBin("after add", e.bin)
			if added {
				e.nAdds++
			}
			if added && ch.track {
				ch.cut = append(ch.cut, after[len(after)-1])
				// parts cut from one chunk are adjacent and ascending; they tile it when it is allocated
				pos := ch.beg
				for _, p := range ch.cut {
					if p.b != pos || p.e <= p.b {
						e.failf("cut-not-adjacent: parts cut from chunk %d:%d are %s", ch.beg, ch.beg+ch.len, cbFmtParts(ch.cut))
						break
					}
					pos = p.e
				}
				if ch.b.IsAllocated() != (pos == ch.beg+ch.len) {
					e.failf("cut-allocated-flag: chunk %d:%d cut up to %d, IsAllocated=%t", ch.beg, ch.beg+ch.len, pos, ch.b.IsAllocated())
				}
			}
		} else {
			e.binValid = false
			ch.track = false
		}
		return fmt.Sprintf("%t %t %d %d | %s", added, ch.b.IsAllocated(), nb2, ne2, cbFmtBin(e.bin))
	case len(op) == 2 && op[0] == "split":
		n, ok := cbAtoi(op[1])
		if !ok {
			return "bad-op"
		}
		if e.bin == nil {
			return "no-bin"
		}
		before := cbParts(e.bin)
		_, _, b0, _ := payload.VerifBinState(e.bin)
		t := e.bin.Split(int(n))
		if t == nil {
			if n >= 1 && n < int64(len(before)) {
				e.failf("split-refused: Split(%d) of %d parts returned nil", n, len(before))
			}
			if cbFmtParts(cbParts(e.bin)) != cbFmtParts(before) {
				e.failf("split-refused-changed: Split(%d) returned nil but the bin changed", n)
			}
			return "none | " + cbFmtBin(e.bin)
		}
		// split_partitions
		if !(n >= 1 && n < int64(len(before))) {
			e.failf("split-accepted: Split(%d) of %d parts returned a bin", n, len(before))
		} else {
			h, tl := cbParts(e.bin), cbParts(t)
			if cbFmtParts(h) != cbFmtParts(before[:n]) || cbFmtParts(tl) != cbFmtParts(before[n:]) {
				e.failf("split-parts: %s split after %d gave %s and %s", cbFmtParts(before), n, cbFmtParts(h), cbFmtParts(tl))
			}
			_, _, hb, _ := payload.VerifBinState(e.bin)
			_, _, tb, _ := payload.VerifBinState(t)
			if hb+tb != b0 {
				e.failf("split-bytes: %d bytes split into %d + %d", b0, hb, tb)
			}
			if e.binValid {
				e.checkBin("head of split", e.bin)
				e.checkBin("tail of split", t)
			}
		}
		// as in handleSendError (`payload = next`): the head is done with, the tail is the
		// payload from here on. (The head shares its backing array with the tail: an Add to the
		// head after Split would overwrite the tail's first part. The client never does that.)
		res := cbFmtBin(e.bin) + " | " + cbFmtBin(t)
		e.bin = t
		return res
	case len(op) == 2 && op[0] == "remove":
		i, err := strconv.ParseUint(op[1], 10, 63)
		if err != nil {
			return "bad-op"
		}
		if e.bin == nil {
			return "no-bin"
		}
		ps := e.bin.GetParts()
		before := cbParts(e.bin)
		_, _, b0, _ := payload.VerifBinState(e.bin)
		if i < uint64(len(ps)) {
			e.bin.Remove(ps[i])
			after := cbParts(e.bin)
			_, _, b1, _ := payload.VerifBinState(e.bin)
			want := append(append([]cbPart(nil), before[:i]...), before[i+1:]...)
			if !cbSameMultiset(after, want) {
				e.failf("remove-parts: removing part %d of %s left %s", i, cbFmtParts(before), cbFmtParts(after))
			}
			if b1 != b0-(before[i].e-before[i].b) {
				e.failf("remove-bytes: bytes went from %d to %d removing a part of %d bytes", b0, b1, before[i].e-before[i].b)
			}
		} else {
			// a part that is not in this bin
			other := payload.NewBin(100, nil, nil)
			s := &cbSendable{cbFile: &cbFile{name: "foreign", size: 5}, beg: 0, length: 5}
			other.Add(client.VerifNewBinnable(s, "", true))
			e.bin.Remove(other.GetParts()[0])
			if cbFmtParts(cbParts(e.bin)) != cbFmtParts(before) {
				e.failf("remove-foreign: removing a part of another bin changed the bin")
			}
		}
		return cbFmtBin(e.bin)
	case len(op) >= 2 && op[0] == "pack":
		c, ok := cbAtoi(op[1])
		if !ok {
			return "bad-op"
		}
		var items []cbItem
		for _, w := range op[2:] {
			if w == "T" {
				items = append(items, cbItem{timeout: true})
				continue
			}
			f := strings.Split(w, ":")
			if len(f) != 3 {
				return "bad-op"
			}
			b, ok1 := cbAtoi(f[1])
			n, ok2 := cbAtoi(f[2])
			if !ok1 || !ok2 {
				return "bad-op"
			}
			items = append(items, cbItem{name: unesc(f[0]), beg: b, len: n})
		}
		out := cbPackReal(c, items)
		e.packOracle(c, items, out)
		if len(out) == 0 {
			return "-"
		}
		s := make([]string, len(out))
		for i, p := range out {
			cc, f, b, _ := payload.VerifBinState(p)
			s[i] = fmt.Sprintf("[%d/%d+%d %s]", b, cc, f, cbFmtParts(cbParts(p)))
		}
		return strings.Join(s, " ")
	case len(op) >= 3 && op[0] == "qpack":
		capacity, ok1 := cbAtoi(op[1])
		c, ok2 := cbAtoi(op[2])
		if !ok1 || !ok2 {
			return "bad-op"
		}
		var files []cbQFile
		for _, w := range op[3:] {
			f, ok := cbParseQFile(w)
			if !ok {
				return "bad-op"
			}
			files = append(files, f)
		}
		if !cbQpackOK(c, files) {
			return "bad-op"
		}
		chunks := cbPopAllReal(c, files)
		out := cbPackReal(capacity, chunks)
		e.qpackOracle(capacity, c, files, chunks, out)
		e.packOracle(capacity, chunks, out)
		cs := "-"
		if len(chunks) > 0 {
			w := make([]string, len(chunks))
			for i, it := range chunks {
				w[i] = fmt.Sprintf("%s:%d:%d", esc(it.name), it.beg, it.len)
			}
			cs = strings.Join(w, " ")
		}
		return cs + " | " + cbFmtPayloads(out)
	}
	return "bad-op"
}

func cbFmtPayloads(out []sts.Payload) string {
	if len(out) == 0 {
		return "-"
	}
	s := make([]string, len(out))
	for i, p := range out {
		cc, f, b, _ := payload.VerifBinState(p)
		s[i] = fmt.Sprintf("[%d/%d+%d %s]", b, cc, f, cbFmtParts(cbParts(p)))
	}
	return strings.Join(s, " ")
}

type cbQFile struct {
	name    string
	size    int64
	resumed bool
	left    []cbRg
}

func cbParseQFile(w string) (f cbQFile, ok bool) {
	p := strings.Split(w, ":")
	if len(p) != 2 && len(p) != 3 {
		return f, false
	}
	f.name = unesc(p[0])
	if f.size, ok = cbAtoi(p[1]); !ok {
		return f, false
	}
	if len(p) == 3 {
		f.resumed = true
		if p[2] != "" {
			for _, x := range strings.Split(p[2], ",") {
				be := strings.Split(x, "~")
				if len(be) != 2 {
					return f, false
				}
				b, ok1 := cbAtoi(be[0])
				e, ok2 := cbAtoi(be[1])
				if !ok1 || !ok2 {
					return f, false
				}
				f.left = append(f.left, cbRg{b, e})
			}
		}
	}
	return f, true
}

// cbQpackOK mirrors Sts.Drv.qpackOK (protocol guard, same arithmetic on both sides).
func cbQpackOK(c int64, files []cbQFile) bool {
	if c < 0 {
		return false
	}
	for i := range files {
		if i > 0 && !(files[i-1].name < files[i].name) {
			return false
		}
		var n int64
		if !files[i].resumed {
			if c == 0 || files[i].size <= 0 {
				n = 1
			} else {
				n = files[i].size/c + 1
			}
		} else if c == 0 {
			n = 1001
		} else {
			for _, x := range files[i].left {
				if x.e > x.b {
					n += (x.e - x.b) / c
				}
				n++
			}
		}
		if n > 1000 {
			return false
		}
	}
	return true
}

// cbPopAllReal pushes the files into a real queue.Tagged (one tag, one group, equal times:
// queue order = name order) and pops until the queue answers nil.
func cbPopAllReal(c int64, files []cbQFile) []cbItem {
	q := queue.NewTagged(
		[]*queue.Tag{{Name: "t", Priority: 0, Order: sts.OrderFIFO, ChunkSize: c}},
		func(string) string { return "t" },
		func(string) string { return "g" })
	var hs []sts.Hashed
	for _, f := range files {
		base := &cbFile{name: f.name, size: f.size}
		if f.resumed {
			var left []*sts.ByteRange
			for _, x := range f.left {
				left = append(left, &sts.ByteRange{Beg: x.b, End: x.e})
			}
			hs = append(hs, client.VerifNewRecoverFile(base, "", left))
		} else {
			hs = append(hs, base)
		}
	}
	q.Push(hs)
	var out []cbItem
	for i := 0; i < 1001*len(files)+10; i++ {
		s := q.Pop()
		if s == nil {
			break
		}
		b, n := s.GetSlice()
		out = append(out, cbItem{name: s.GetName(), beg: b, len: n})
	}
	return out
}

// qpackOracle: every_byte_once on the real queue + the real Bin: each byte of each file (each
// missing byte of a resumed file) is in exactly one chunk and in exactly one part, in order.
func (e *cbExec) qpackOracle(capacity, c int64, files []cbQFile, chunks []cbItem, out []sts.Payload) {
	if capacity <= 0 || capacity >= cbLim49 {
		return
	}
	for _, f := range files {
		if f.resumed && (c <= 0 || !cbLeftValid(f.left)) || !f.resumed && f.size < 0 {
			return
		}
		if f.size+capacity+capacity/10 > cbLim53 {
			return
		}
	}
	var all []cbPart
	for _, p := range out {
		all = append(all, cbParts(p)...)
	}
	for _, f := range files {
		want := f.left
		if !f.resumed {
			want = nil
			if f.size > 0 {
				want = []cbRg{{0, f.size}}
			}
		}
		var gotC, gotP []cbRg
		for _, it := range chunks {
			if it.name == f.name {
				gotC = append(gotC, cbRg{it.beg, it.beg + it.len})
				if c > 0 && it.len > c {
					e.failf("chunk-too-large: file %s chunk %d:%d with chunk size %d", f.name, it.beg, it.beg+it.len, c)
				}
			}
		}
		for _, p := range all {
			if p.name == f.name {
				gotP = append(gotP, cbRg{p.b, p.e})
			}
		}
		if m := cbCoverMismatch(gotC, want); m != "" {
			e.failf("byte-once-chunks: file %s: %s", f.name, m)
		}
		if m := cbCoverMismatch(gotP, want); m != "" {
			e.failf("byte-once-parts: file %s: %s", f.name, m)
		}
	}
}

func cbSameMultiset(a, b []cbPart) bool {
	if len(a) != len(b) {
		return false
	}
	x := make([]string, len(a))
	y := make([]string, len(b))
	for i := range a {
		x[i] = cbFmtParts(a[i : i+1])
		y[i] = cbFmtParts(b[i : i+1])
	}
	sort.Strings(x)
	sort.Strings(y)
	return strings.Join(x, ",") == strings.Join(y, ",")
}

type cbItem struct {
	timeout bool
	name    string
	beg     int64
	len     int64
}

// cbPackReal is client.Broker.startBin with the channels replaced by a slice of input
// events (a chunk from the queue, or one second without a chunk) and an output slice; the
// statements between the select and the end of the loop body are copied verbatim, working
// on the real payload.Bin and the real client.binnable.
func cbPackReal(capacity int64, items []cbItem) (out []sts.Payload) {
	var pl sts.Payload
	var current sts.Binnable
	for _, it := range items {
		if it.timeout {
			// case <-wait: (only armed while payload != nil)
			if pl != nil && pl.GetSize() > 0 {
				out = append(out, pl)
				pl = nil
			}
			continue
		}
		// case sendable, ok = <-in:
		s := &cbSendable{cbFile: &cbFile{name: it.name, size: it.beg + it.len}, beg: it.beg, length: it.len}
		current = client.VerifNewBinnable(s, "", true)
		fuel := it.len + 1
		if fuel < 1 {
			fuel = 1
		}
		for current != nil && fuel > 0 {
			fuel--
			if pl == nil {
				pl = payload.NewBin(capacity, nil, nil)
			}
			added := pl.Add(current)
			if !added || current.IsAllocated() {
				current = nil
			}
			if pl.IsFull() {
				out = append(out, pl)
				pl = nil
			}
		}
		current = nil
	}
	// !ok: input closed
	if pl != nil && pl.GetSize() > 0 {
		out = append(out, pl)
	}
	return
}

// packOracle: packing_loses_nothing + the allowance, by interval arithmetic over every part
// of every payload, restricted to the hypotheses of the theorem.
func (e *cbExec) packOracle(capacity int64, items []cbItem, out []sts.Payload) {
	e.nPay = len(out)
	if capacity <= 0 || capacity >= cbLim49 {
		return
	}
	fluff := capacity / 10
	for _, it := range items {
		if !it.timeout && !cbChunkValid(it.beg, it.len, capacity, fluff) {
			return
		}
	}
	var all []cbPart
	for i, p := range out {
		c, f, b, _ := payload.VerifBinState(p)
		if c != capacity || f != fluff {
			e.failf("pack-bin: payload %d has capacity %d slack %d, configured %d (slack %d)", i, c, f, capacity, fluff)
		}
		if b <= 0 {
			e.failf("pack-empty: payload %d is empty", i)
		}
		e.checkBin(fmt.Sprintf("payload %d", i), p)
		all = append(all, cbParts(p)...)
	}
	k := 0
	for _, it := range items {
		if it.timeout {
			continue
		}
		pos := it.beg
		for pos < it.beg+it.len {
			if k >= len(all) {
				e.failf("pack-lost: bytes %d:%d of chunk %s:%d:%d are in no payload", pos, it.beg+it.len, it.name, it.beg, it.len)
				return
			}
			p := all[k]
			if p.name != it.name || p.b != pos || p.e <= p.b || p.e > it.beg+it.len {
				e.failf("pack-mismatch: expected the part of chunk %s:%d:%d starting at %d, found part %s:%d:%d", it.name, it.beg, it.len, pos, p.name, p.b, p.e)
				return
			}
			pos = p.e
			k++
		}
	}
	if k != len(all) {
		e.failf("pack-extra: %d parts beyond the chunks' bytes, first %s", len(all)-k, cbFmtParts(all[k:k+1]))
	}
}

func (e *cbExec) Oracle() []string { f := e.fails; e.fails = nil; return f }
func (e *cbExec) Signature() (bool, string) {
	return e.fullAlloc || e.nAdds >= 2 || e.nPay >= 2, e.key.String()
}
func (e *cbExec) Close() {}

func (chunkbinComp) AnswerClass(op []string, ans string) string {
	f := strings.Fields(ans)
	switch op[0] {
	case "alloc":
		if len(f) == 3 {
			k := "alloc:more"
			if f[2] == "true" {
				k = "alloc:last"
			}
			if n, _ := cbAtoi(f[1]); n <= 0 {
				k += ":nonpositive"
			}
			return k
		}
		return "alloc:" + ans
	case "allocall":
		return "allocall:" + f[len(f)-1]
	case "status":
		if len(f) == 2 {
			return "status:" + f[0]
		}
	case "add":
		if len(f) > 2 {
			full := "notfull"
			if strings.Contains(ans, "full=true") {
				full = "full"
			}
			return "add:added=" + f[0] + ":allocated=" + f[1] + ":" + full
		}
	case "split":
		if strings.HasPrefix(ans, "none") {
			return "split:none"
		}
		return "split:some"
	case "remove":
		return "remove"
	case "pack", "qpack":
		if ans == "-" || ans == "bad-op" || ans == "- | -" {
			return op[0] + ":" + ans
		}
		n := strings.Count(ans, "[")
		switch {
		case n == 0:
			return op[0] + ":0"
		case n == 1:
			return op[0] + ":1"
		case n <= 4:
			return op[0] + ":2-4"
		default:
			return op[0] + ":5+"
		}
	case "bin":
		if strings.Contains(ans, "full=true") {
			return op[0] + ":full"
		}
		if strings.HasPrefix(ans, "cap=") {
			return op[0] + ":notfull"
		}
	}
	if len(ans) > 12 {
		return op[0] + ":other"
	}
	return op[0] + ":" + ans
}

// ---------------------------------------------------------------- corpus

func (chunkbinComp) Corpus() [][]string {
	return [][]string{
		// exact multiples, one more, one less
		{"file 12", "allocall 4 10", "status"},
		{"file 13", "allocall 4 10", "status"},
		{"file 11", "allocall 4 10", "status"},
		{"file 7", "alloc 0", "status"},
		{"file 1", "alloc 1", "status"},
		// a resumed file: two missing ranges, chunk 4
		{"resume 30 3 12 20 30", "status", "allocall 4 20", "status"},
		{"resume 30 0 30", "allocall 30 5"},
		// excluded point: Allocate(0) on a resumed file never advances
		{"resume 30 3 12", "alloc 0", "alloc 0", "allocall 0 5", "status"},
		// excluded point: negative range out of recover() for an overlapping record (S5)
		{"resume 10 0 2 8 6 10 10", "allocall 4 10", "status"},
		{"resume 10 5 5", "allocall 4 10"},
		// excluded point: no missing range at all / allocate after completion
		{"resume 10", "status", "alloc 4"},
		{"file 8", "allocall 4 10", "alloc 4", "alloc 4", "status"},
		{"file 0", "status", "alloc 4", "status"},
		{"file 10", "alloc -3", "alloc 4", "status"},
		// Bin: slack, min rule, allowance
		{"bin 100", "chunk a 0 60", "chunk b 0 70", "add a", "add b", "add b", "bin 100", "add b", "add b"},
		{"bin 10", "chunk a 0 4", "chunk b 4 4", "chunk c 8 9", "add a", "add b", "add c", "add c", "split 1", "split 1", "split 0", "split 2", "remove 0", "remove 5"},
		// S4 (excluded point, payload size below 10 bytes: slack 0)
		{"bin 5", "chunk a 0 3", "chunk b 0 3", "add a", "add b", "add b"},
		{"pack 5 a:0:3 b:0:3 c:0:4 T d:0:2"},
		{"pack 9 a:0:9 b:0:9"},
		{"pack 1 a:0:3"},
		{"pack 0 a:0:3 T b:0:1"},
		{"pack -5 a:0:3"},
		// packing: several files per payload, one file across several
		{"pack 100 a:0:30 b:0:30 c:0:30 d:0:30 e:0:250 T f:0:1"},
		{"pack 10 a:0:10 a:10:10 a:20:5", "pack 10 a:0:11", "pack 10 a:0:12", "pack 10 a:0:9 b:0:1 c:0:1 d:0:1"},
		{"pack 100 a:0:0 b:5:0 c:0:7"},
		{"pack 100 a:0:-4 b:0:7"},
		// excluded point: beyond 2^53 the float64 detour of Add rounds the end of the chunk
		{"bin 1152921504606846976", "chunk a 0 9007199254740993", "add a", "add a"},
		{"pack 1152921504606846976 a:0:9007199254740993 b:0:5"},
		{"bin 9007199254740993", "bin 90071992547409931", "bin -15", "bin 562949953421319"},
		// the real queue feeding the packing loop: plain and resumed files of one group
		{"qpack 100 40 a:100 b:41 c:1 d:0 e:250"},
		{"qpack 100 0 a:100 b:41 c:500"},
		{"qpack 10 4 a:30:3~12,20~30 b:9 c:12:"},
		{"qpack 5 4 a:13 b:7"},
		{"qpack 10 4 b:9 a:9", "qpack 10 -1 a:9", "qpack 10 0 a:9:0~9", "qpack 10 1 a:5000"},
		// S5 through the queue: a resumed file with a negative range
		{"qpack 100 4 a:12:0~2,8~6,10~12 b:5"},
	}
}

// ---------------------------------------------------------------- generator

func (chunkbinComp) Generate(r *Rand, tier string, n int) [][]string {
	var cases [][]string
	if tier == "thorough" {
		cases = append(cases, cbExhaustive()...)
	}
	for i := 0; i < n; i++ {
		switch k := r.Intn(22); {
		case k < 4:
			cases = append(cases, cbGenFile(r))
		case k < 8:
			cases = append(cases, cbGenResume(r))
		case k < 13:
			cases = append(cases, cbGenBin(r))
		case k < 18:
			cases = append(cases, cbGenPack(r))
		default:
			cases = append(cases, cbGenQpack(r))
		}
	}
	return cases
}

// cbExhaustive: every (size, chunk) pair for size <= 40, chunk <= 12 through the file
// allocation, and every (size, chunk, payload) triple with payload <= 24 through the packing
// loop (single file, chunks computed here by plain arithmetic).
func cbExhaustive() [][]string {
	var cases [][]string
	for size := 1; size <= 40; size++ {
		for c := 0; c <= 12; c++ {
			cases = append(cases, []string{fmt.Sprintf("file %d", size), fmt.Sprintf("allocall %d 50", c), "status"})
		}
	}
	for size := 1; size <= 40; size += 1 {
		for c := 1; c <= 12; c++ {
			var ops []string
			for capacity := 1; capacity <= 24; capacity++ {
				ops = append(ops, "pack "+strconv.Itoa(capacity)+" "+strings.Join(cbTile("f", 0, int64(size), int64(c)), " "))
			}
			cases = append(cases, ops)
		}
	}
	return cases
}

func cbTile(name string, beg, end, c int64) []string {
	var out []string
	if c > 0 && (end-beg)/c > 80 {
		c = (end-beg)/80 + 1 // generator guard: never more than ~80 chunks per file
	}
	for p := beg; p < end; {
		n := end - p
		if c > 0 && c < n {
			n = c
		}
		out = append(out, fmt.Sprintf("%s:%d:%d", esc(name), p, n))
		p += n
	}
	return out
}

func cbPickSize(r *Rand, unit int64) int64 {
	// sizes around multiples of unit, plus small and random ones
	if unit <= 0 {
		unit = 1
	}
	switch r.Intn(6) {
	case 0:
		return int64(r.Range(1, 5))
	case 1:
		return unit * int64(r.Range(1, 6))
	case 2:
		return unit*int64(r.Range(1, 6)) + 1
	case 3:
		v := unit*int64(r.Range(1, 6)) - 1
		if v < 1 {
			v = 1
		}
		return v
	case 4:
		return int64(r.Range(1, 100000))
	default:
		return int64(r.Range(1, int(3*unit+3)))
	}
}

func cbPickChunk(r *Rand) int64 {
	switch r.Intn(8) {
	case 0:
		return 0
	case 1:
		return 1
	case 2:
		return int64(r.Range(2, 9))
	case 3:
		return int64(r.Range(10, 64))
	case 4:
		return 1 << uint(r.Range(4, 30))
	default:
		return int64(r.Range(1, 5000))
	}
}

func cbGenFile(r *Rand) []string {
	c := cbPickChunk(r)
	size := cbPickSize(r, c)
	if r.Chance(0.05) {
		size = []int64{0, -1, -7}[r.Intn(3)]
	}
	if r.Chance(0.04) {
		c = -int64(r.Range(1, 5))
	}
	if r.Chance(0.1) {
		size = int64(r.Range(1, 1<<30)) * int64(r.Range(1, 1<<20))
		c = int64(r.Range(1, 1<<30)) * int64(r.Range(1, 1<<10))
		if size/c > 300 {
			c = size/int64(r.Range(1, 300)) + 1
		}
	}
	ops := []string{fmt.Sprintf("file %d", size)}
	if r.Chance(0.3) {
		ops = append(ops, "status")
	}
	if r.Chance(0.5) {
		mx := 400
		if r.Chance(0.2) {
			mx = r.Range(0, 4)
		}
		if c > 0 && size/c > 390 {
			c = size/int64(r.Range(1, 300)) + 1
		}
		ops = append(ops, fmt.Sprintf("allocall %d %d", c, mx))
		if r.Chance(0.3) {
			ops = append(ops, fmt.Sprintf("allocall %d %d", c, 400))
		}
	} else {
		k := 1
		if c > 0 {
			k = int((size+c-1)/c) + r.Range(-1, 2)
		}
		if k > 60 {
			k = 60
		}
		for j := 0; j < k; j++ {
			d := c
			if r.Chance(0.03) {
				d = cbPickChunk(r)
			}
			ops = append(ops, fmt.Sprintf("alloc %d", d))
			if r.Chance(0.1) {
				ops = append(ops, "status")
			}
		}
	}
	ops = append(ops, "status")
	return ops
}

func cbGenResume(r *Rand) []string {
	c := cbPickChunk(r)
	if c == 0 && r.Chance(0.8) {
		c = int64(r.Range(1, 50))
	}
	nr := r.Range(1, 6)
	var left []cbRg
	pos := int64(0)
	unit := c
	if unit <= 0 {
		unit = 7
	}
	if unit > 1<<20 {
		unit = 1 << 20
	}
	for j := 0; j < nr; j++ {
		if r.Chance(0.7) {
			pos += int64(r.Range(1, int(2*unit+2)))
		} else if j > 0 && r.Chance(0.5) {
			pos += 0 // adjacent missing ranges
		} else {
			pos += int64(r.Range(0, 3))
		}
		n := cbPickSize(r, unit)
		if n > 50*unit {
			n = 50 * unit
		}
		left = append(left, cbRg{pos, pos + n})
		pos += n
	}
	size := pos + int64(r.Range(0, 5))
	style := r.Intn(12)
	switch style {
	case 0: // malformed: empty / negative / overlapping / unsorted ranges
		j := r.Intn(len(left))
		switch r.Intn(4) {
		case 0:
			left[j].e = left[j].b
		case 1:
			left[j].e = left[j].b - int64(r.Range(1, 5))
		case 2:
			if j > 0 {
				left[j].b = left[j-1].e - int64(r.Range(1, 3))
			} else {
				left[j].b -= 2
			}
		default:
			r.Shuffle(len(left), func(a, b int) { left[a], left[b] = left[b], left[a] })
		}
	case 1:
		if r.Chance(0.3) {
			left = nil
		}
	}
	op := fmt.Sprintf("resume %d", size)
	for _, x := range left {
		op += fmt.Sprintf(" %d %d", x.b, x.e)
	}
	ops := []string{op}
	if r.Chance(0.5) {
		ops = append(ops, "status")
	}
	if r.Chance(0.5) {
		mx := 400
		if c <= 0 || r.Chance(0.15) {
			mx = r.Range(0, 5)
		}
		ops = append(ops, fmt.Sprintf("allocall %d %d", c, mx))
		if r.Chance(0.3) {
			ops = append(ops, fmt.Sprintf("allocall %d 400", max(c, 1)))
		}
	} else {
		k := r.Range(0, 3)
		for _, x := range left {
			if c > 0 && x.e > x.b {
				k += int((x.e - x.b + c - 1) / c)
			}
		}
		if k > 80 {
			k = 80
		}
		for j := 0; j < k; j++ {
			ops = append(ops, fmt.Sprintf("alloc %d", c))
		}
	}
	ops = append(ops, "status")
	return ops
}

func cbPickCap(r *Rand) int64 {
	switch r.Intn(10) {
	case 0:
		return int64(r.Range(1, 9))
	case 1:
		return int64(r.Range(10, 30))
	case 2:
		return 10 * int64(r.Range(1, 20))
	case 3:
		return 10*int64(r.Range(1, 20)) + int64(r.Range(1, 9))
	case 4:
		return 1 << uint(r.Range(4, 34))
	case 5:
		return int64(r.Range(1, 1<<30)) * int64(r.Range(1, 1<<18))
	default:
		return int64(r.Range(10, 3000))
	}
}

// cbGenBinParts: a bin with several parts, then splits / removals / more adds.
func cbGenBinParts(r *Rand) []string {
	capacity := cbPickCap(r)
	if capacity < 10 {
		capacity = int64(r.Range(5, 60))
	}
	allow := capacity + capacity/10
	ops := []string{fmt.Sprintf("bin %d", capacity)}
	names := []string{"a", "b", "c", "d/e.nc", "f g", "h", "i"}
	np := r.Range(2, 7)
	for j := 0; j < np; j++ {
		n := max(1, allow/int64(r.Range(np, np+4)))
		if r.Chance(0.2) {
			n = max(1, int64(r.Range(1, 4)))
		}
		beg := int64(r.Range(0, 1000))
		ops = append(ops, fmt.Sprintf("chunk %s %d %d", esc(names[j]), beg, n), "add "+esc(names[j]))
	}
	parts := np
	for k := r.Range(1, 6); k > 0; k-- {
		switch x := r.Intn(10); {
		case x < 4:
			n := r.Range(1, max(1, parts-1))
			if r.Chance(0.2) {
				n = r.Range(-1, parts+1)
			}
			ops = append(ops, fmt.Sprintf("split %d", n))
			if n >= 1 && n < parts {
				parts -= n
			}
		case x < 7:
			i := r.Range(0, max(0, parts-1))
			if r.Chance(0.15) {
				i = parts + r.Range(0, 2)
			}
			ops = append(ops, fmt.Sprintf("remove %d", i))
			if i < parts {
				parts--
			}
		default:
			nm := names[r.Intn(np)]
			ops = append(ops, fmt.Sprintf("chunk %s %d %d", esc(nm), r.Range(0, 1000), max(1, allow/int64(r.Range(2, 9)))), "add "+esc(nm))
			parts++ // an estimate only: the Add may fail on a full bin
		}
	}
	return ops
}

func cbGenBin(r *Rand) []string {
	if r.Chance(0.4) {
		return cbGenBinParts(r)
	}
	capacity := cbPickCap(r)
	if r.Chance(0.03) {
		capacity = []int64{0, -1, -15, -100}[r.Intn(4)]
	}
	allow := capacity + capacity/10
	ops := []string{fmt.Sprintf("bin %d", capacity)}
	names := []string{"a", "b", "c", "d/e.nc", "f g"}
	nch := r.Range(1, 5)
	type ck struct {
		name string
		len  int64
	}
	var cks []ck
	for j := 0; j < nch; j++ {
		var n int64
		switch r.Intn(9) {
		case 7, 8:
			n = max(1, allow/int64(r.Range(3, 9)))
		case 0:
			n = allow
		case 1:
			n = allow + 1
		case 2:
			n = capacity
		case 3:
			n = max(1, capacity-capacity/10)
		case 4:
			n = int64(r.Range(1, 5))
		case 5:
			n = max(1, allow/int64(r.Range(2, 6)))
		default:
			n = max(1, int64(r.Range(1, 3))*allow+int64(r.Range(-2, 2)))
		}
		if r.Chance(0.03) {
			n = []int64{0, -1, -9}[r.Intn(3)]
		}
		beg := int64(0)
		if r.Chance(0.5) {
			beg = int64(r.Range(0, 100000))
		}
		if r.Chance(0.02) {
			beg = -int64(r.Range(1, 50))
		}
		nm := names[j]
		cks = append(cks, ck{nm, n})
		ops = append(ops, fmt.Sprintf("chunk %s %d %d", esc(nm), beg, n))
	}
	steps := r.Range(2, 14)
	for j := 0; j < steps; j++ {
		switch k := r.Intn(20); {
		case k < 12:
			ops = append(ops, "add "+esc(cks[r.Intn(len(cks))].name))
		case k < 14:
			ops = append(ops, fmt.Sprintf("bin %d", capacity))
		case k < 17:
			ops = append(ops, fmt.Sprintf("split %d", r.Range(-1, 4)))
		case k < 19:
			ops = append(ops, fmt.Sprintf("remove %d", r.Range(0, 4)))
		default:
			ops = append(ops, "add "+esc(r.Pick([]string{"zz", "a"})))
		}
	}
	return ops
}

func cbGenPack(r *Rand) []string {
	capacity := cbPickCap(r)
	if r.Chance(0.02) {
		capacity = []int64{0, -1, -15}[r.Intn(3)]
	}
	allow := capacity + capacity/10
	if allow < 1 {
		allow = 1
	}
	nfiles := r.Range(1, 5)
	type fl struct {
		name   string
		chunks []string
	}
	var files []fl
	names := []string{"a", "b", "c", "d/e.nc", "f g", "h"}
	total := 0
	for j := 0; j < nfiles; j++ {
		// chunk size relative to the payload allowance
		var c int64
		switch r.Intn(8) {
		case 0:
			c = 0
		case 1:
			c = capacity
		case 2:
			c = allow
		case 3:
			c = allow + 1
		case 4:
			c = max(1, allow/int64(r.Range(2, 5)))
		case 5:
			c = max(1, capacity-1)
		default:
			c = max(1, int64(r.Range(1, int(min(3*allow, 1<<30)))))
		}
		var size int64
		switch r.Intn(6) {
		case 0:
			size = allow * int64(r.Range(1, 4))
		case 1:
			size = allow*int64(r.Range(1, 4)) + 1
		case 2:
			size = max(1, allow*int64(r.Range(1, 4))-1)
		case 3:
			size = capacity * int64(r.Range(1, 4))
		case 4:
			size = int64(r.Range(1, 7))
		default:
			size = cbPickSize(r, max(c, 1))
		}
		if size < 1 {
			size = 1
		}
		// keep the number of chunks and payloads of a case small
		if c > 0 && size/c > 40 {
			size = c*int64(r.Range(1, 40)) + int64(r.Range(-1, 1))
		}
		if size/allow > 60 {
			size = allow*int64(r.Range(1, 60)) + int64(r.Range(-1, 1))
		}
		if size < 1 {
			size = 1
		}
		if c > 0 && size/c > 60 {
			c = size/int64(r.Range(1, 60)) + 1
		}
		var tiles []string
		if r.Chance(0.15) {
			// a resumed file: chunks of a few missing ranges
			pos := int64(0)
			for k := r.Range(1, 3); k > 0; k-- {
				pos += int64(r.Range(0, 9))
				n := max(1, size/int64(r.Range(1, 4)))
				tiles = append(tiles, cbTile(names[j], pos, pos+n, max(c, 1))...)
				pos += n
			}
		} else {
			tiles = cbTile(names[j], 0, size, c)
		}
		total += len(tiles)
		files = append(files, fl{names[j], tiles})
	}
	// interleave the files' chunk sequences (several groups feed the same binner), or not
	var items []string
	inter := r.Chance(0.4)
	for {
		var live []int
		for j := range files {
			if len(files[j].chunks) > 0 {
				live = append(live, j)
			}
		}
		if len(live) == 0 {
			break
		}
		j := live[0]
		if inter {
			j = live[r.Intn(len(live))]
		}
		items = append(items, files[j].chunks[0])
		files[j].chunks = files[j].chunks[1:]
		if r.Chance(0.08) {
			items = append(items, "T")
		}
		if r.Chance(0.01) {
			items = append(items, fmt.Sprintf("%s:%d:%d", "z", r.Range(0, 9), []int{0, 0, -3}[r.Intn(3)]))
		}
	}
	ops := []string{fmt.Sprintf("pack %d %s", capacity, strings.Join(items, " "))}
	return ops
}

func cbGenQpack(r *Rand) []string {
	capacity := cbPickCap(r)
	if capacity > 1<<40 {
		capacity = 1 << 40
	}
	allow := capacity + capacity/10
	var c int64
	switch r.Intn(7) {
	case 0:
		c = 0
	case 1:
		c = capacity
	case 2:
		c = allow
	case 3:
		c = allow + 1
	case 4:
		c = max(1, allow/int64(r.Range(2, 5)))
	default:
		c = max(1, int64(r.Range(1, int(min(3*allow, 1<<30)))))
	}
	names := []string{"a", "b", "c/d.nc", "e f", "g", "h"}
	nf := r.Range(1, 5)
	resumedAny := false
	var ws []string
	for j := 0; j < nf; j++ {
		unit := c
		if unit == 0 {
			unit = allow
		}
		var size int64
		switch r.Intn(6) {
		case 0:
			size = unit * int64(r.Range(1, 5))
		case 1:
			size = unit*int64(r.Range(1, 5)) + 1
		case 2:
			size = max(1, unit*int64(r.Range(1, 5))-1)
		case 3:
			size = allow * int64(r.Range(1, 3))
		case 4:
			size = int64(r.Range(0, 6))
		default:
			size = int64(r.Range(1, int(min(8*unit, 1<<30))))
		}
		if size/allow > 40 {
			size = allow*int64(r.Range(1, 40)) + int64(r.Range(-1, 1))
		}
		if c > 0 && size/c > 60 {
			size = c*int64(r.Range(1, 60)) + int64(r.Range(-1, 1))
		}
		if size < 0 {
			size = 0
		}
		if r.Chance(0.25) && c > 0 {
			// resumed: a few missing ranges inside [0,size)
			resumedAny = true
			var rs []string
			pos := int64(0)
			for k := r.Range(0, 3); k > 0 && pos < size; k-- {
				pos += int64(r.Range(0, int(min(size/4+1, 1<<20))))
				n := max(1, int64(r.Range(1, int(min(size/2+1, 1<<30)))))
				if pos+n > size {
					n = size - pos
				}
				if n <= 0 {
					break
				}
				b, e := pos, pos+n
				if r.Chance(0.03) {
					b, e = e, b // S5-shaped range
				}
				rs = append(rs, fmt.Sprintf("%d~%d", b, e))
				pos += n
			}
			ws = append(ws, fmt.Sprintf("%s:%d:%s", esc(names[j]), size, strings.Join(rs, ",")))
		} else {
			ws = append(ws, fmt.Sprintf("%s:%d", esc(names[j]), size))
		}
	}
	_ = resumedAny
	if r.Chance(0.02) {
		ws[0], ws[len(ws)-1] = ws[len(ws)-1], ws[0]
	}
	return []string{fmt.Sprintf("qpack %d %d %s", capacity, c, strings.Join(ws, " "))}
}
