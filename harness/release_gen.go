package main

import (
	"fmt"
	"strings"
)

// component "recovery": the same executor as "release" (real Broker.recover / scan / startValidate /
// finish on real cache.JSON + store.Local), with a generator centred on restart and recover().
// Property C07.
type recoveryComp struct{ releaseComp }

func init() { register(recoveryComp{}) }

func (recoveryComp) Name() string { return "recovery" }
func (recoveryComp) Rule() string {
	return "case = declared cache / files / receiver partials / poll script followed by recover (and scan, " +
		"validate, restart) on one sender; non-trivial = recover made at least one decision (push, done-marking, " +
		"cache removal, poll); distinct = by the full op sequence"
}

// ---------------------------------------------------------------------------- corpus

func (releaseComp) Corpus() [][]string {
	return [][]string{
		// S3: confirmed version past its delete time, file rewritten: the scan clean-up must not delete it
		{"tag a 1 0", "cache a.f1 5 -10 m-v1-5 1", "file a.f1 7 -2 v2", "scan"},
		// the same when the store's scan does not return the rewritten file at all (too young:
		// mtime not before the scan start; ignored name): the clean-up must still look at the file itself
		{"tag a 1 0", "cache a.f1 5 -10 m-v1-5 1", "file a.f1 7 5 v2", "scan"},
		{"tag ign 1 0", "cache ign.f1 5 -10 m-v1-5 1", "file ign.f1 7 -2 v2", "scan"},
		// S18: a confirmed file changes, delete-delay not yet over: the re-added entry must not stay done
		{"tag a 1 10", "cache a.f1 5 -3 m-v1-5 1", "file a.f1 7 -1 v2", "scan", "restart 20", "scan"},
		// S18 without deletion: the changed file is queued; after a crash it must be recovered, not taken as done
		{"cache b.f1 5 -3 m-v1-5 1", "file b.f1 7 -1 v2", "scan", "restart 0", "answer b.f1 none", "recover"},
		// S3b: file rewritten between transmission and the positive poll answer: finish must not delete it
		{"tag a 1 0", "cache a.f1 5 -10 m-v1-5 0", "file a.f1 7 -2 v2", "answer a.f1 passed", "validate a.f1:0"},
		{"tag a 1 0", "cache a.f1 5 -10 m-v1-5 0", "file a.f1 7 -2 v2", "finish a.f1 waiting"},
		// S2 (known finding): the poll is by name; the receiver's positive answer is about an older version
		{"tag a 1 0", "cache a.f1 7 -2 m-v2-7 0", "file a.f1 7 -2 v2", "rcvhas a.f1 m-v1-5", "answer a.f1 passed", "recover"},
		// S20 (known finding): vanished => done; the file comes back with the same size and time and is cleaned up unsent
		{"tag a 1 0", "cache a.f1 5 -3 m-v-5 0", "recover", "file a.f1 5 -3 v", "scan"},
		// the normal release: confirmed, same version on disk, deleted
		{"tag a 1 0", "cache a.f1 5 -10 m-v1-5 0", "file a.f1 5 -10 v1", "answer a.f1 none,passed", "conf attempts 3", "validate a.f1:0"},
		// delete-delay boundary: age == delay deletes, age == delay-1 does not
		{"tag a 1 5", "cache a.f1 5 -5 h1 1", "cache a.f2 5 -4 h2 1", "cache a.f3 5 -6 h3 1", "file a.f1 5 -5 x", "file a.f2 5 -4 x", "file a.f3 5 -6 x", "scan"},
		// negative verdicts never release: none counted to attempts then retry, failed retries at once
		{"tag a 1 0", "conf attempts 2", "cache a.f1 5 -1 h1 0", "cache a.f2 5 -1 h2 0", "cache a.f3 5 -1 h3 0",
			"file a.f1 5 -1 x", "file a.f2 5 -1 x", "file a.f3 5 -1 x",
			"answer a.f1 none", "answer a.f2 failed", "answer a.f3 other,omit,none,waiting", "pollerr 2", "validate a.f1:0,a.f2:0,a.f3:0"},
		// tracker: hand-over only when the counted bytes reach the send size; a new hash resets the count
		{"track a.f1:h1:10:4,a.f2:h2:3:3;a.f1:h1:10:6", "track a.f1:h1:10:4;a.f1:h9:6:6", "track a.f1:h1:10:4"},
		// done entry whose tag is unknown / delete off / no tags at all: never deleted
		{"tag b 1 0", "cache a.f1 5 -10 h1 1", "cache zz 5 -10 h2 1", "file a.f1 5 -10 x", "file zz 5 -10 x", "scan"},
		// duplicate tag names: the last one wins
		{"tag a 1 0", "tag a 0 0", "tag b 1 0", "cache a.f1 5 -10 h1 1", "file a.f1 5 -10 x", "scan"},
		// hashless entry (straggler) with and without its file; zero-size and future files are not scanned
		{"cache a.f1 5 -3 - 0", "cache a.f2 5 -3 - 0", "file a.f1 5 -3 x", "file a.f3 0 -3 x", "file a.f4 4 2 x", "file a.f5 4 0 x", "scan"},
		// seeded change C02c (Sync compared whole seconds): a file rewritten with the same size 200 ms later, within
		// the same second, while its transmitted version awaits confirmation: the confirmation of the OLD version
		// must not delete it (times `T+K`: K ticks of 100 ms after hour T)
		{"tag a 1 0", "cache a.f1 5 -1+3 m-v1-5 0", "file a.f1 5 -1+3 v1", "answer a.f1 none", "validate a.f1:0",
			"file a.f1 5 -1+5 v2", "answer a.f1 passed", "validate a.f1:0", "scan"},
		{"tag a 1 0", "cache a.f1 5 0+13 m-v1-5 0", "file a.f1 5 0+12 v2", "finish a.f1 waiting"},
		// the same before the scan clean-up of a confirmed version, and one tick apart across a second boundary
		{"tag a 1 0", "cache a.f1 5 -1+3 m-v1-5 1", "file a.f1 5 -1+5 v2", "scan"},
		{"tag a 1 0", "cache a.f1 5 -1+9 m-v1-5 1", "cache a.f2 5 -1+9 m-v1-5 0", "file a.f1 5 -1+10 v2", "file a.f2 5 -1+10 v2", "finish a.f2 passed", "scan"},
		// sub-second times and the clock: the delete delay is compared with the exact age (age = delay + 0.3 s deletes,
		// delay - 0.3 s does not), a file less than an hour old is not from the future, the last tick that can be written
		{"tag a 1 2", "cache a.f1 5 -2+3 h1 1", "cache a.f2 5 -1+3 h2 1", "cache a.f3 5 -3+29999 h3 1", "file a.f1 5 -2+3 x", "file a.f2 5 -1+3 x",
			"file a.f3 5 -3+29999 x", "file a.f4 4 0+29999 x", "file a.f5 4 1 x", "scan", "restart 1", "scan"},
		// ---- startRetry (the worker behind the retry channel), one case per branch
		// the documented path: refused by the receiver, re-hashed (the cached hash was stale), re-added not done,
		// queued whole as a recovered file announcing the predecessor it announced before; nothing is released
		{"tag a 1 0", "cache a.f1 5 -1 h1 0", "file a.f1 5 -1 v", "answer a.f1 failed", "validate a.f1:0", "retry a.f1:a.f0", "scan",
			"restart 0", "recover"},
		// seeded change C02e (open and read errors merged, Done on any error): a transient open error / read error
		// after a negative outcome must not mark the file done (shrunk witness first; then with the scan that deletes)
		{"cache a.f1 5 -1 h1 0", "file a.f1 5 -1 v", "fault open a.f1 eio", "retry a.f1:-"},
		{"tag a 1 0", "cache a.f1 5 -1 m-v-5 0", "file a.f1 5 -1 v", "answer a.f1 failed", "validate a.f1:0",
			"fault open a.f1 eio", "retry a.f1:-", "scan", "restart 0", "answer a.f1 none", "recover"},
		{"tag a 1 0", "conf attempts 1", "cache a.f1 5 -1 m-v-5 0", "file a.f1 5 -1 v", "answer a.f1 none", "validate a.f1:0",
			"fault read a.f1 eio", "retry a.f1:a.f0", "scan", "restart 0", "recover"},
		// the file vanishes between Sync and open: the one release startRetry makes (Done without closure, nothing deleted)
		{"tag a 1 0", "cache a.f1 5 -1 m-v-5 0", "cache a.f2 5 -1 m-v-5 0", "file a.f1 5 -1 v", "file a.f2 5 -1 v",
			"fault open a.f1 gone", "retry a.f1:-,a.f2:a.f1", "scan"},
		// S20 (known finding) through the retry worker: vanished => done; the file comes back unchanged and is cleaned up unsent
		{"tag a 1 0", "cache a.f1 5 -3 m-v-5 0", "file a.f1 5 -3 v", "fault open a.f1 gone", "retry a.f1:-", "file a.f1 5 -3 v", "scan"},
		// no cache entry; changed on disk (size / one tick); gone before Sync; a done entry; the same name twice (the
		// fault is met by the first open only); a fault that is never met is dropped with the retry
		{"tag a 1 0", "cache a.f2 5 -1 h2 0", "cache a.f3 5 -1+3 h3 0", "cache a.f4 5 -1 h4 0", "cache a.f5 5 -1 h5 1", "cache a.f6 5 -1 h6 0",
			"file a.f1 5 -1 v", "file a.f2 6 -1 v", "file a.f3 5 -1+4 v", "file a.f5 5 -1 w", "file a.f6 5 -1 x",
			"fault read a.f6 eio", "fault open a.f2 eio", "fault open a.f4 gone",
			"retry a.f1:-,a.f2:-,a.f3:-,a.f4:-,a.f5:a.f4,a.f6:a.f5,a.f6:zz", "retry a.f2:-", "scan"},
		// own mutation trials of startRetry: Done on a changed file; the re-hash not stored; the predecessor dropped
		{"tag a 1 0", "cache a.f1 5 -1 m-v-5 0", "file a.f1 6 -2 w", "retry a.f1:-", "scan"},
		{"cache a.f1 5 -1 h1 0", "file a.f1 5 -1 v", "retry a.f1:a.f0", "restart 0", "recover"},
	}
}

func (recoveryComp) Corpus() [][]string {
	return [][]string{
		// the documented recovery: gaps resumed with the partial's predecessor, complete file polled,
		// receiver-only and done files as placeholders
		{"tag a 1 0", "cache a.f1 10 -2 m-v-10 0", "cache a.f2 8 -2 m-w-8 0", "cache a.f3 4 -2 m-x-4 1", "cache a.f4 6 -2 m-y-6 0",
			"file a.f1 10 -2 v", "file a.f2 8 -2 w", "file a.f3 4 -2 x", "file a.f4 6 -2 y",
			"partial a.f1 10 m-v-10 a.f0 6:8,0:3", "partial a.f2 8 m-w-8 a.f1 0:8", "partial a.f3 4 m-x-4 a.f2 0:1", "partial a.f9 3 hz a.f8 0:1",
			"answer a.f2 waiting", "answer a.f4 none", "recover"},
		// a file the receiver holds completely (companion still on the stage: validating or held) is POLLED after a
		// restart, not queued as already delivered: with answers none / waiting / no answer at all
		{"cache a.f2 8 -2 m-w-8 0", "file a.f2 8 -2 w", "partial a.f2 8 m-w-8 a.f1 0:8", "recover"},
		{"tag a 1 0", "cache a.f2 8 -2 m-w-8 0", "file a.f2 8 -2 w", "partial a.f2 8 m-w-8 a.f1 0:3,3:8", "answer a.f2 none,none,waiting", "recover", "recover"},
		// S5: overlapping receiver record: no negative range, nothing listed is sent again
		{"cache a.f1 10 -2 m-v-10 0", "file a.f1 10 -2 v", "partial a.f1 10 m-v-10 a.f0 2:8,6:10", "recover"},
		{"cache a.f1 12 -2 m-v-12 0", "file a.f1 12 -2 v", "partial a.f1 12 m-v-12 - 0:6,2:4,5:9", "recover"},
		// S19: a failed recovery poll must not strand the files
		{"cache a.f1 10 -2 m-v-10 0", "cache a.f2 10 -2 m-w-10 0", "file a.f1 10 -2 v", "file a.f2 10 -2 w",
			"partial a.f1 10 m-v-10 - 0:4", "answer a.f2 none", "pollerr 1", "recover", "scan"},
		// verdicts of the recovery poll; failed with and without partial; sent log consulted once
		{"tag a 1 0", "conf pollmax 2", "cache a.f1 4 -2 h1 0", "cache a.f2 4 -2 h2 0", "cache a.f3 4 -2 h3 0", "cache a.f4 4 -2 h4 0", "cache a.f5 4 -2 h5 0",
			"file a.f1 4 -2 x", "file a.f2 4 -2 x", "file a.f3 4 -2 x", "file a.f4 4 -2 x", "file a.f5 4 -2 x",
			"partial a.f2 4 h2 a.f1 0:4", "answer a.f1 failed", "answer a.f2 failed", "answer a.f3 passed", "answer a.f4 waiting", "answer a.f5 other",
			"logged a.f4 h4", "recerr 2", "recover"},
		// changed / hashless / vanished / ignored-now
		{"cache a.f1 4 -2 h1 0", "cache a.f2 4 -2 - 0", "cache a.f3 4 -2 h3 0", "cache ign.f4 4 -2 h4 0", "cache a.f5 4 -2 h5 0",
			"file a.f1 5 -2 x", "file a.f2 4 -2 x", "file ign.f4 4 -2 x", "file a.f5 4 -1 x", "recover", "scan"},
		// crash after the poll batch was processed but the process died: the persisted cache says done
		{"cache a.f1 4 -2 h1 0", "file a.f1 4 -2 x", "answer a.f1 passed", "recover", "restart 1", "recover"},
		// seeded change C02c across a crash: rewritten within the same second (same size) after its transmission, then
		// the restart: recover() must see the change (no poll, no done mark, no deletion); one tick across a second
		// boundary and the unchanged file as controls
		{"tag a 1 0", "cache a.f1 5 -1+3 m-v1-5 0", "cache a.f2 5 -1+9 m-v1-5 0", "cache a.f3 5 -1+7 m-v1-5 0",
			"file a.f1 5 -1+5 v2", "file a.f2 5 -1+10 v2", "file a.f3 5 -1+7 v1",
			"answer a.f1 passed", "answer a.f2 passed", "answer a.f3 passed", "restart 3", "recover", "scan"},
	}
}

// ---------------------------------------------------------------------------- generator

type relGenFile struct {
	name    string
	size    int
	time    int
	tick    int // ticks (100 ms) after hour `time`
	content string
	onDisk  bool
	cached  bool
	had     map[[3]int]bool // the (size, hour, tick) versions this name had in the case
}

// relT writes a time of the op grammar: `T`, or `T+K` for K ticks after hour T.
func relT(h, k int) string {
	if k == 0 {
		return fmt.Sprint(h)
	}
	return fmt.Sprintf("%d+%d", h, k)
}

// relTickNear: a tick count that differs from k by 1..9 ticks. kind 0: within the same second; 1: across a
// second boundary; (ok = false when k leaves no room: the caller falls back to another kind of change).
func relTickNear(r *Rand, k int, kind int) (int, bool) {
	sec, sub := k/10, k%10
	switch kind {
	case 0:
		b := r.Range(0, 8)
		if b >= sub {
			b++
		}
		return sec*10 + b, true
	default:
		var cands []int
		for d := 1; d <= 9; d++ {
			if sub+d >= 10 && k+d < relMaxTick {
				cands = append(cands, k+d)
			}
			if sub-d < 0 && k-d >= 0 {
				cands = append(cands, k-d)
			}
		}
		if len(cands) == 0 {
			return 0, false
		}
		return cands[r.Intn(len(cands))], true
	}
}

func relPartsTok(parts [][2]int) string {
	if len(parts) == 0 {
		return "-"
	}
	var s []string
	for _, p := range parts {
		s = append(s, fmt.Sprintf("%d:%d", p[0], p[1]))
	}
	return strings.Join(s, ",")
}

// relGenParts builds a receiver record for a file of the given size.
// style: 0 tiling with gaps (shuffled), 1 complete, 2 overlapping, 3 malformed
func relGenParts(r *Rand, size int, style int) [][2]int {
	var parts [][2]int
	switch style {
	case 1:
		cut := r.Range(0, size)
		if cut == 0 || cut == size || r.Chance(0.4) {
			return [][2]int{{0, size}}
		}
		parts = [][2]int{{0, cut}, {cut, size}}
	case 0, 2, 3:
		pos := 0
		for pos < size && len(parts) < 5 {
			step := r.Range(1, max(1, size/3))
			end := min(size, pos+step)
			if !r.Chance(0.35) {
				b, e := pos, end
				if style >= 2 && r.Chance(0.5) {
					b = max(0, b-r.Range(1, 3))
				}
				if style >= 2 && r.Chance(0.3) {
					e = min(size, e+r.Range(1, 3))
				}
				parts = append(parts, [2]int{b, e})
			}
			pos = end
		}
		if style == 3 {
			switch r.Intn(4) {
			case 0:
				parts = append(parts, [2]int{size - 1, size + 3})
			case 1:
				parts = append(parts, [2]int{5, 3})
			case 2:
				parts = append(parts, [2]int{-2, 1})
			case 3:
				parts = append(parts, [2]int{2, 2})
			}
		}
	}
	r.Shuffle(len(parts), func(a, b int) { parts[a], parts[b] = parts[b], parts[a] })
	return parts
}

var relVerdicts = []string{"none", "failed", "passed", "waiting", "other", "omit"}

func relGenAnswer(r *Rand) string {
	n := 1
	if r.Chance(0.35) {
		n = r.Range(2, 4)
	}
	var vs []string
	for i := 0; i < n; i++ {
		switch {
		case r.Chance(0.3):
			vs = append(vs, "none")
		case r.Chance(0.1):
			vs = append(vs, r.Pick([]string{"other", "omit"}))
		default:
			vs = append(vs, r.Pick([]string{"failed", "passed", "waiting", "passed", "waiting"}))
		}
	}
	return strings.Join(vs, ",")
}

func relGenCase(r *Rand, mode string) []string {
	var ops []string
	add := func(f string, a ...any) { ops = append(ops, fmt.Sprintf(f, a...)) }
	// tags
	delays := []int{0, 0, 3, 10, 48}
	tagDelay := map[string]int{}
	switch r.Intn(6) {
	case 0: // no tags
	default:
		for _, t := range []string{"a", "b", "c"} {
			if r.Chance(0.7) {
				d := delays[r.Intn(len(delays))]
				del := 0
				if r.Chance(0.7) {
					del = 1
				}
				add("tag %s %d %d", t, del, d)
				tagDelay[t] = d
			}
		}
		if r.Chance(0.08) {
			add("tag a %d %d", r.Intn(2), delays[r.Intn(len(delays))])
		}
	}
	if r.Chance(0.6) {
		add("conf pollmax %d", r.Range(1, 4))
	}
	if r.Chance(0.6) {
		add("conf attempts %d", r.Range(1, 3))
	}
	nFiles := r.Range(1, 6)
	if mode == "recovery" && r.Chance(0.3) {
		nFiles = r.Range(4, 9)
	}
	var files []*relGenFile
	contents := []string{"v", "w", "x"}
	times := []int{-1, -2, -3, -5, -10, -11, -47, -48, -49, -100, 0}
	var cachedNames []string
	var allNames []string
	for i := 0; i < nFiles; i++ {
		tag := r.Pick([]string{"a", "a", "b", "c", "zz", "ign"})
		name := fmt.Sprintf("%s.f%d", tag, i)
		if tag == "zz" && r.Chance(0.5) {
			name = fmt.Sprintf("zz%d", i)
		}
		f := &relGenFile{name: name, size: r.Pick2([]int{1, 2, 5, 10, 16, 40}), time: times[r.Intn(len(times))], content: r.Pick(contents), had: map[[3]int]bool{}}
		if d, ok := tagDelay[tag]; ok && d > 0 && r.Chance(0.5) {
			f.time = -(d + r.Range(-1, 1)) + 1 // around the delay boundary: now - t = d-1, d, d+1
		}
		files = append(files, f)
		allNames = append(allNames, name)
		if r.Chance(0.12) {
			f.tick = r.Pick2([]int{1, 5, 9, 10, 17, 599, 29999})
		}
		hashTok := relFileTok(f.content, int64(f.size))
		if r.Chance(0.25) {
			hashTok = fmt.Sprintf("h%d", i)
		}
		sit := r.Intn(12)
		done := 0
		switch sit {
		case 0, 1, 2, 3: // cached, file same
			f.cached, f.onDisk = true, true
			if r.Chance(0.3) {
				done = 1
			}
			add("cache %s %d %s %s %d", name, f.size, relT(f.time, f.tick), hashTok, done)
			add("file %s %d %s %s", name, f.size, relT(f.time, f.tick), f.content)
		case 4: // cached, file changed
			f.cached, f.onDisk = true, true
			if r.Chance(0.5) {
				done = 1
			}
			if r.Chance(0.35) {
				// changed by a few ticks only (same second / across a second boundary), mostly with the same size
				f.tick = r.Range(0, 2999)*10 + r.Range(0, 9)
				if r.Chance(0.3) {
					f.tick = r.Range(0, 9)
				}
				add("cache %s %d %s %s %d", name, f.size, relT(f.time, f.tick), hashTok, done)
				nk, ok := relTickNear(r, f.tick, r.Intn(3)/2)
				if !ok {
					nk, _ = relTickNear(r, f.tick, 0)
				}
				ns := f.size
				if r.Chance(0.3) {
					ns = f.size + r.Range(1, 3)
				}
				f.had[[3]int{ns, f.time, nk}] = true
				add("file %s %d %s %s", name, ns, relT(f.time, nk), r.Pick(contents))
				break
			}
			add("cache %s %d %s %s %d", name, f.size, relT(f.time, f.tick), hashTok, done)
			ns, nt := f.size, f.time
			if r.Chance(0.5) {
				ns = f.size + r.Range(1, 3)
			} else {
				nt = f.time + r.Range(1, 2)
				if nt > 0 {
					nt = f.time - 1
				}
			}
			if r.Chance(0.2) {
				nt = r.Range(1, 5) // rewritten "just now": not before the scan start, the store's scan skips it
			}
			f.had[[3]int{ns, nt, f.tick}] = true
			add("file %s %d %s %s", name, ns, relT(nt, f.tick), r.Pick(contents))
		case 5: // cached, file vanished
			f.cached = true
			if r.Chance(0.3) {
				done = 1
			}
			add("cache %s %d %s %s %d", name, f.size, relT(f.time, f.tick), hashTok, done)
		case 6: // cached without hash
			f.cached = true
			add("cache %s %d %s - %d", name, f.size, relT(f.time, f.tick), r.Intn(5)/4)
			if r.Chance(0.7) {
				f.onDisk = true
				add("file %s %d %s %s", name, f.size, relT(f.time, f.tick), f.content)
			}
		case 7: // new file
			f.onDisk = true
			sz, tm := f.size, f.time
			if r.Chance(0.15) {
				sz = 0
			}
			if r.Chance(0.15) {
				tm = r.Range(1, 3)
			}
			f.had[[3]int{sz, tm, f.tick}] = true
			add("file %s %d %s %s", name, sz, relT(tm, f.tick), f.content)
		case 8: // receiver-only
		default: // cached not done, file same (the common in-flight state)
			f.cached, f.onDisk = true, true
			add("cache %s %d %s %s 0", name, f.size, relT(f.time, f.tick), hashTok)
			add("file %s %d %s %s", name, f.size, relT(f.time, f.tick), f.content)
		}
		f.had[[3]int{f.size, f.time, f.tick}] = true
		if f.cached {
			cachedNames = append(cachedNames, name)
		}
		// receiver partial
		pp := 0.3
		if mode == "recovery" {
			pp = 0.55
		}
		if sit == 8 || r.Chance(pp) {
			style := []int{0, 0, 0, 1, 2, 3}[r.Intn(6)]
			psize := f.size
			if r.Chance(0.1) {
				psize = f.size + r.Range(-1, 2)
			}
			prev := "-"
			if i > 0 && r.Chance(0.7) {
				prev = allNames[r.Intn(i)]
			}
			add("partial %s %d %s %s %s", name, psize, hashTok, prev, relPartsTok(relGenParts(r, f.size, style)))
			if r.Chance(0.05) {
				add("partial %s %d %s %s %s", name, psize, hashTok, "-", relPartsTok(relGenParts(r, f.size, 0)))
			}
		}
		if r.Chance(0.75) {
			add("answer %s %s", name, relGenAnswer(r))
		}
		if r.Chance(0.2) {
			add("logged %s %s", name, hashTok)
		}
	}
	if r.Chance(0.12) {
		add("pollerr %d", r.Range(1, 2))
	}
	if r.Chance(0.06) {
		add("recerr %d", r.Range(1, 3))
	}
	// actions
	var lastValidated []string
	vanishedNames := map[string]bool{}
	validateOp := func() {
		lastValidated = nil
		if len(allNames) == 0 {
			return
		}
		k := r.Range(1, min(4, len(allNames)))
		perm := r.Perm(len(allNames))
		var toks []string
		for _, idx := range perm[:k] {
			pc := 0
			if r.Chance(0.15) {
				pc = 1
			}
			toks = append(toks, fmt.Sprintf("%s:%d", allNames[idx], pc))
			lastValidated = append(lastValidated, allNames[idx])
		}
		// make the scripts end with a verdict the loop terminates on
		for _, idx := range perm[:k] {
			if r.Chance(0.5) {
				add("answer %s %s", allNames[idx], relGenAnswer(r)+","+r.Pick([]string{"none", "failed", "passed", "waiting"}))
			} else {
				add("answer %s %s", allNames[idx], r.Pick([]string{"none", "failed", "passed", "waiting", "none,none,passed", "other,waiting", "omit,none"}))
			}
		}
		add("validate %s", strings.Join(toks, ","))
	}
	// the retry worker gets files after a negative outcome of the poll (mostly names that were just validated);
	// about 30% of the retried files meet an opener fault, now and then the file changes or vanishes in between
	retryOp := func(cands []string) {
		if len(cands) == 0 {
			cands = allNames
		}
		if len(cands) == 0 {
			return
		}
		k := r.Range(1, min(3, len(cands)))
		perm := r.Perm(len(cands))
		var toks []string
		for _, idx := range perm[:k] {
			n := cands[idx]
			if r.Chance(0.1) {
				n = allNames[r.Intn(len(allNames))]
			}
			prev := "-"
			if r.Chance(0.5) {
				prev = allNames[r.Intn(len(allNames))]
			}
			toks = append(toks, n+":"+prev)
			if r.Chance(0.3) {
				ft := r.Pick([]string{"open %s eio", "open %s eio", "read %s eio", "open %s gone"})
				if strings.HasSuffix(ft, "gone") {
					// a name that vanished this way is not written again (vanished => done is the known finding S20)
					vanishedNames[n] = true
				}
				add("fault "+ft, n)
			}
		}
		if r.Chance(0.06) {
			toks = append(toks, toks[0])
		}
		add("retry %s", strings.Join(toks, ","))
	}
	envChange := func() {
		if len(files) == 0 {
			return
		}
		f := files[r.Intn(len(files))]
		if vanishedNames[f.name] {
			add("rmfile %s", f.name)
			return
		}
		switch r.Intn(3) {
		case 0:
			add("rmfile %s", f.name)
		default:
			// a fresh version: never the size/time pair this name had before
			if r.Chance(0.3) {
				// the same size, a few ticks from the first version (same second or the next / previous one)
				if nk, ok := relTickNear(r, f.tick, r.Intn(2)); ok && !f.had[[3]int{f.size, f.time, nk}] {
					f.had[[3]int{f.size, f.time, nk}] = true
					add("file %s %d %s %s", f.name, f.size, relT(f.time, nk), r.Pick(contents))
					break
				}
			}
			add("file %s %d %d %s", f.name, f.size+r.Range(1, 4), -r.Range(0, 3), r.Pick(contents))
		}
	}
	nAct := r.Range(1, 4)
	for a := 0; a < nAct; a++ {
		var choice int
		if mode == "recovery" {
			choice = []int{0, 0, 0, 1, 2, 3, 4}[r.Intn(7)]
			if a == 0 && r.Chance(0.8) {
				choice = 0
			}
		} else {
			choice = []int{0, 1, 1, 2, 2, 2, 3, 4, 5, 6}[r.Intn(10)]
		}
		switch choice {
		case 0:
			add("recover")
		case 1:
			add("scan")
		case 2:
			validateOp()
			if r.Chance(0.6) {
				if r.Chance(0.12) {
					envChange()
				}
				retryOp(lastValidated)
				if r.Chance(0.5) {
					add("scan")
				}
			}
		case 6:
			retryOp(cachedNames)
		case 3:
			add("restart %d", []int{0, 1, 5, 50}[r.Intn(4)])
			if mode == "recovery" || r.Chance(0.5) {
				add("recover")
			}
		case 4:
			envChange()
			add("scan")
		case 5:
			if len(allNames) > 0 {
				add("finish %s %s", allNames[r.Intn(len(allNames))], r.Pick([]string{"none", "failed", "passed", "waiting", "other"}))
			}
		}
		if r.Chance(0.08) {
			add("pollerr 1")
		}
	}
	return ops
}

func (r *Rand) Pick2(xs []int) int { return xs[r.Intn(len(xs))] }

// relGenRewrite: files are rewritten under their names after the version the cache describes was taken
// (transmitted and awaiting confirmation, or confirmed earlier and awaiting the clean-up). The new version
// differs from the cached one by 1..9 ticks within the same second, by 1..9 ticks across a second boundary,
// by whole seconds, by whole hours, or not at all (control), with the same or another size. Then the step
// that may release the name runs: the confirmation (validate / finish), the scan clean-up of a done entry
// with delete configured, recover() (after a restart or not). Whatever the resolution of the change, only
// the version the cache describes may be deleted, and the new one must be queued by the next scan.
func relGenRewrite(r *Rand, mode string) []string {
	var ops []string
	add := func(f string, a ...any) { ops = append(ops, fmt.Sprintf(f, a...)) }
	delay := []int{0, 0, 0, 1, 3}[r.Intn(5)]
	add("tag a 1 %d", delay)
	if r.Chance(0.3) {
		add("tag b %d 0", r.Intn(2))
	}
	attempts := 2
	if r.Chance(0.5) {
		attempts = r.Range(1, 3)
		add("conf attempts %d", attempts)
	}
	if r.Chance(0.3) {
		add("conf pollmax %d", r.Range(1, 3))
	}
	contents := []string{"v", "w", "x"}
	type rw struct {
		name, line string
		done       bool
	}
	var files []rw
	n := r.Range(1, 3)
	for i := 0; i < n; i++ {
		tag := "a"
		if r.Chance(0.12) {
			tag = "b"
		}
		name := fmt.Sprintf("%s.f%d", tag, i)
		size := r.Pick2([]int{1, 5, 5, 10, 16})
		hour := r.Pick2([]int{0, -1, -1, -2, -5, -48, -delay - 1, -delay, -delay + 1})
		if hour > 0 {
			hour = 0
		}
		tick := r.Range(0, 2998)*10 + r.Range(0, 9)
		switch r.Intn(5) {
		case 0:
			tick = 0
		case 1:
			tick = r.Range(0, 19)
		}
		content := r.Pick(contents)
		done := r.Chance(0.35)
		hashTok := relFileTok(content, int64(size))
		if r.Chance(0.15) {
			hashTok = fmt.Sprintf("h%d", i)
		}
		add("cache %s %d %s %s %d", name, size, relT(hour, tick), hashTok, map[bool]int{false: 0, true: 1}[done])
		// the version on disk when the process starts: the cached one (rewritten later), or the rewrite already
		nh, nk, ns := hour, tick, size
		kind := r.Intn(6)
		switch kind {
		case 0, 1: // 1..9 ticks, same second
			nk, _ = relTickNear(r, tick, 0)
		case 2: // 1..9 ticks, across a second boundary
			if k, ok := relTickNear(r, tick, 1); ok {
				nk = k
			} else {
				nk, _ = relTickNear(r, tick, 0)
			}
		case 3: // whole seconds
			nk = tick + 10*r.Range(1, 5)
			if nk >= relMaxTick || r.Chance(0.5) && tick >= 50 {
				nk = tick - 10*r.Range(1, 5)
			}
		case 4: // whole hours
			nh = hour - r.Range(1, 3)
		default: // not rewritten
		}
		if kind != 5 && r.Chance(0.35) {
			ns = size + r.Range(1, 3)
		}
		ncontent := content
		if kind != 5 {
			ncontent = r.Pick(contents)
		}
		line := fmt.Sprintf("file %s %d %s %s", name, ns, relT(nh, nk), ncontent)
		if r.Chance(0.7) {
			add("file %s %d %s %s", name, size, relT(hour, tick), content)
			files = append(files, rw{name, line, done})
		} else {
			add("%s", line)
			files = append(files, rw{name, "", done})
		}
	}
	positive := func() string { return r.Pick([]string{"passed", "waiting"}) }
	// something happens while the cached versions are still the ones on disk
	retryLine := ""
	var retryFaults []string
	retryAfter := r.Chance(0.5)
	allOnDisk := true
	for _, f := range files {
		allOnDisk = allOnDisk && f.line != ""
	}
	if allOnDisk && r.Chance(0.5) {
		switch r.Intn(3) {
		case 0:
			add("scan")
		case 1:
			for _, f := range files {
				add("answer %s %s", f.name, r.Pick([]string{"none", "failed", "none,failed"}))
			}
			add("recover")
		default:
			var toks []string
			for _, f := range files {
				add("answer %s %s", f.name, r.Pick([]string{"none", "failed"}))
				toks = append(toks, f.name+":0")
			}
			add("validate %s", strings.Join(toks, ","))
			// the refused files reach the retry worker before or after they are rewritten
			if r.Chance(0.6) {
				var rt []string
				for _, f := range files {
					if r.Chance(0.8) {
						rt = append(rt, f.name+":"+r.Pick([]string{"-", "-", files[0].name}))
						if r.Chance(0.3) {
							kinds := []string{"open %s eio", "read %s eio"}
							if retryAfter {
								// the file is not written again after it vanished (vanished => done is the known finding S20)
								kinds = append(kinds, "open %s gone")
							}
							retryFaults = append(retryFaults, fmt.Sprintf("fault "+r.Pick(kinds), f.name))
						}
					}
				}
				if len(rt) > 0 {
					retryLine = "retry " + strings.Join(rt, ",")
				}
			}
		}
	}
	emitRetry := func() {
		if retryLine != "" {
			ops = append(ops, retryFaults...)
			add("%s", retryLine)
			retryLine = ""
		}
	}
	if !retryAfter {
		emitRetry()
	}
	for _, f := range files {
		if f.line != "" {
			add("%s", f.line)
		}
	}
	emitRetry()
	// the releasing step
	final := r.Intn(6)
	if mode == "recovery" {
		final = []int{3, 3, 4, 4, 4, 5, 0, 2}[r.Intn(8)]
	}
	switch final {
	case 0: // the validator loop gets the confirmation
		var toks []string
		for _, f := range files {
			if r.Chance(0.3) && attempts > 1 {
				add("answer %s none,%s", f.name, positive())
			} else {
				add("answer %s %s", f.name, r.Pick([]string{"passed", "waiting", "passed", "waiting", "failed"}))
			}
			toks = append(toks, f.name+":0")
		}
		add("validate %s", strings.Join(toks, ","))
	case 1:
		for _, f := range files {
			add("finish %s %s", f.name, r.Pick([]string{"passed", "waiting", "passed", "waiting", "none"}))
		}
	case 2:
		add("scan")
	case 3:
		for _, f := range files {
			add("answer %s %s", f.name, r.Pick([]string{"passed", "waiting", "passed", "waiting", "none", "failed"}))
		}
		add("recover")
	case 4:
		for _, f := range files {
			add("answer %s %s", f.name, r.Pick([]string{"passed", "waiting", "passed", "waiting", "none"}))
		}
		add("restart %d", []int{0, 1, 2, 50}[r.Intn(4)])
		add("recover")
	default:
		add("restart %d", []int{0, 1, 2, 50}[r.Intn(4)])
		add("scan")
	}
	// and the next scan must queue what was rewritten
	if r.Chance(0.7) {
		add("scan")
	}
	if r.Chance(0.2) {
		add("restart %d", r.Intn(3))
		add("recover")
	}
	return ops
}

// relTrackSim mirrors the tracker's bookkeeping (Model/Release.lean trackRun) so that the
// generator knows which files would stay in the progress map.
type relTrackEnt struct {
	hash       string
	size, sent int
}

func relTrackSim(pls [][][4]string) map[string]*relTrackEnt {
	prog := map[string]*relTrackEnt{}
	atoi := func(s string) int { v := 0; fmt.Sscanf(s, "%d", &v); return v }
	for _, pl := range pls {
		for n, t := range prog {
			if t.sent >= t.size {
				delete(prog, n)
			}
		}
		for _, p := range pl {
			n, h, sz, ln := p[0], p[1], atoi(p[2]), atoi(p[3])
			t, ok := prog[n]
			if !ok {
				t = &relTrackEnt{hash: h, size: sz}
				prog[n] = t
			} else if t.hash != h {
				t.hash, t.size, t.sent = h, sz, 0
			}
			t.sent += ln
		}
	}
	for n, t := range prog {
		if t.sent >= t.size {
			delete(prog, n)
		}
	}
	return prog
}

func relGenTrack(r *Rand) []string {
	names := []string{"a.f1", "a.f2", "b.f3"}
	var ops []string
	for k := r.Range(1, 3); k > 0; k-- {
		nPl := r.Range(1, 4)
		var pls [][][4]string
		hash := map[string]string{}
		size := map[string]int{}
		for p := 0; p < nPl; p++ {
			var parts [][4]string
			for q := r.Range(1, 3); q > 0; q-- {
				n := r.Pick(names)
				if _, ok := size[n]; !ok || r.Chance(0.08) {
					size[n] = r.Pick2([]int{1, 3, 8, 10})
					hash[n] = fmt.Sprintf("h%d", r.Intn(3))
				}
				ln := r.Range(1, size[n])
				if r.Chance(0.3) {
					ln = size[n]
				}
				if r.Chance(0.03) {
					ln = r.Range(-1, 0)
				}
				parts = append(parts, [4]string{n, hash[n], fmt.Sprint(size[n]), fmt.Sprint(ln)})
			}
			pls = append(pls, parts)
		}
		if r.Chance(0.96) {
			// top up whatever is still short so that the tracker returns by itself
			var parts [][4]string
			left := relTrackSim(pls)
			for _, n := range names {
				if t, ok := left[n]; ok {
					parts = append(parts, [4]string{n, t.hash, fmt.Sprint(t.size), fmt.Sprint(t.size - t.sent)})
				}
			}
			if len(parts) > 0 {
				pls = append(pls, parts)
			}
		}
		var toks []string
		for _, pl := range pls {
			var ps []string
			for _, p := range pl {
				ps = append(ps, strings.Join(p[:], ":"))
			}
			toks = append(toks, strings.Join(ps, ","))
		}
		ops = append(ops, "track "+strings.Join(toks, ";"))
	}
	return ops
}

func relGenMalformed(r *Rand) []string {
	pool := []string{
		"tag a 2 0", "tag a 1", "tag a 1 x", "conf pollmax 0", "conf attempts 0", "conf pollmax -1", "conf speed 3",
		"cache a.f1 5 -1 h 2", "cache a.f1 5 -1 h", "cache a/f1 5 -1 h 0", "cache .f1 5 -1 h 0", "cache a.f1 x -1 h 0",
		"file a.f1 -5 -1 v", "file a.f1 5 -1", "file a.f1 5 -1 v/w", "file a.f1 +5 -1 v", "rmfile", "rmfile a/b",
		"partial a.f1 5 h - 1:2:3", "partial a.f1 5 h - 1-2", "partial a.f1 x h - 1:2", "partial a.f1 5 h -",
		"answer a.f1 maybe", "answer a.f1", "answer a.f1 none,,passed", "pollerr -1", "pollerr x", "recerr", "logged a.f1",
		"restart -1", "restart x", "recover now", "scan all", "finish a.f1", "finish a.f1 omit", "finish a.f1 sure",
		"validate a.f1", "validate a.f1:x", "validate a.f1:0,a.f1:0", "validate a.f1:9", "validate", "track a.f1:h:5", "track a.f1:h:x:5",
		"release", "", "cache a.f1 5 -1 h 0 extra",
		// times: `T` or `T+K`, 0 <= K < 30000
		"file a.f1 5 -1+ v", "file a.f1 5 +3 v", "file a.f1 5 1+2+3 v", "file a.f1 5 -1+-2 v", "file a.f1 5 -1++2 v", "file a.f1 5 0+30000 v",
		"file a.f1 5 0+x v", "file a.f1 5 + v", "cache a.f7 5 -1+30000 h 0", "cache a.f7 5 -1+ h 0", "cache a.f7 5 x+1 h 0", "file a.f1 5 -2+29999 v",
		"file a.f1 5 -0+007 v", "tag b 1 1+5", "restart 1+5",
	}
	var ops []string
	ops = append(ops, "tag a 1 0", "cache a.f1 5 -1 h1 0", "file a.f1 5 -1 v")
	for k := r.Range(2, 6); k > 0; k-- {
		ops = append(ops, pool[r.Intn(len(pool))])
	}
	if r.Chance(0.5) {
		ops = append(ops, "answer a.f1 other", "validate a.f1:0") // never-ending script: refused
	}
	ops = append(ops, "cache a.f1 5 -1 h1 0") // duplicate name
	ops = append(ops, r.Pick([]string{"recover", "scan", "finish a.f1 passed"}))
	ops = append(ops, "cache a.f9 5 -1 h1 0") // cache declared after the first action
	var out []string
	for _, o := range ops {
		if o != "" {
			out = append(out, o)
		}
	}
	return out
}

func relGenerate(r *Rand, mode string, n int) [][]string {
	var cases [][]string
	for i := 0; i < n; i++ {
		switch {
		case r.Chance(0.04):
			cases = append(cases, relGenMalformed(r))
		case mode == "release" && r.Chance(0.08):
			cases = append(cases, relGenTrack(r))
		case r.Chance(0.15):
			cases = append(cases, relGenRewrite(r, mode))
		default:
			cases = append(cases, relGenCase(r, mode))
		}
	}
	return cases
}

func (releaseComp) Generate(r *Rand, tier string, n int) [][]string {
	return relGenerate(r, "release", n)
}
func (recoveryComp) Generate(r *Rand, tier string, n int) [][]string {
	return relGenerate(r, "recovery", n)
}
