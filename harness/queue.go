package main

import (
	"fmt"
	"sort"
	"strconv"
	"strings"
	"time"

	"github.com/arm-doe/sts"
	"github.com/arm-doe/sts/client"
	stslog "github.com/arm-doe/sts/log"
	"github.com/arm-doe/sts/queue"
)

// component "queue": queue/queue.go Tagged.Push / Pop through the public API, the
// tag-guarded VerifDump, and client.recoverFile (sts.Recovered) through the tag-guarded
// constructor. Properties: C10 (order within a group, predecessor chain), C12 (strict
// priority, round robin, last-file delay) and, through the oracles whose kind starts with
// `prev-chain`, C07 (after a restart the ordering chain continues from the placeholders that
// recover() queues for the files handled before the crash: Props/C07Chain).
//
// ops:
//
//	tags <name> <prio> <order> <chunk> <lastdelay-s> ...
//	push <name> <size> <unix-s> [rec <prev> <beg>:<end> ...]
//	pop <now-unix-s>     (the real Pop reads the wall clock; file times are kept hours away
//	                      from the threshold, Do refuses the op with `clock-skew` otherwise)
//	dump
//
// grouper(name) = part before the first '/', tagger(group) = part before the first '.'.
// Two registered components share this code: "queue" evaluates the oracles of C10 (order within a
// group, predecessor chain), "queuep" those of C12 (priority, rotation, last-file delay).
type queueComp struct{ prio bool }

func init() { register(queueComp{false}); register(queueComp{true}) }

func (c queueComp) Name() string {
	if c.prio {
		return "queuep"
	}
	return "queue"
}
func (queueComp) Rule() string {
	return "case = tags + interleaved push/pop/dump history on one queue.Tagged; non-trivial = at least 2 files pushed, " +
		"at least 2 chunks popped and (two or more groups, or a name pushed again, or a Recovered file); distinct = by the full op sequence"
}

const (
	qOld   = int64(1_000_000_000) // 2001: older than any delay
	qYoung = int64(4_000_000_000) // 2096: younger than any delay
)

func (queueComp) Corpus() [][]string {
	now := "1700000000"
	return [][]string{
		// S7: re-pushing the only pending file of a group drops the kept head file (anchor)
		{"tags t1 0 fifo 0 0", "push t1.g/a 5 1000000000", "pop " + now, "dump", "push t1.g/b 5 1000000001", "dump",
			"push t1.g/b 5 1000000001", "dump", "pop " + now, "dump"},
		// the same without the re-push: b announces a
		{"tags t1 0 fifo 0 0", "push t1.g/a 5 1000000000", "pop " + now, "push t1.g/b 5 1000000001", "pop " + now, "dump"},
		// queue_test.go TestRecover: placeholders (fully allocated Recovered) mixed with plain files, equal times
		{"tags t1 0 fifo 0 0", "push t1/f20 10 1000000000 rec -", "push t1/f04 10 1000000000", "push t1/f07 10 1000000000",
			"push t1/f05 10 1000000000", "push t1/f06 10 1000000000", "push t1/f03 10 1000000000 rec -", "push t1/f01 10 1000000000",
			"push t1/f02 10 1000000000", "dump", "pop " + now, "dump", "pop " + now, "pop " + now, "pop " + now, "pop " + now,
			"pop " + now, "pop " + now, "pop " + now, "dump"},
		// late arrival older than a half-emitted file; its later chunks announce the newcomer
		{"tags t1 0 fifo 4 0", "push t1.g/m 10 1000000005", "pop " + now, "push t1.g/a 3 1000000001", "dump", "pop " + now,
			"pop " + now, "pop " + now, "pop " + now, "dump"},
		// same name again after completion: self reference is cleared
		{"tags t1 0 - 0 0", "push t1.g/b 5 1000000000", "push t1.g/c 5 1000000000", "pop " + now, "push t1.g/b 5 1000000000", "dump",
			"pop " + now, "pop " + now, "dump"},
		// strict priority + rotation + a late group + young last file
		{"tags hi 5 fifo 2 0 lo 1 lifo 2 0 lo2 1 none 0 3600", "push lo.a/1 4 1000000000", "push lo.b/1 4 1000000000", "push lo2.c/1 4 4000000000",
			"push lo2.c/0 4 1000000000", "pop " + now, "pop " + now, "push hi.x/1 3 1000000000", "pop " + now, "pop " + now, "pop " + now,
			"pop " + now, "pop " + now, "pop " + now, "pop " + now, "dump"},
		// resumed file with own predecessor and two missing ranges, behind a placeholder
		{"tags t1 0 fifo 4 0", "push t1.g/p 9 1000000000 rec -", "push t1.g/r 20 1000000001 rec t1.g/zz 2:7 12:20", "push t1.g/s 3 1000000002",
			"pop " + now, "pop " + now, "pop " + now, "pop " + now, "pop " + now, "pop " + now, "dump"},
		// unordered tag, unknown order string, no matching tag, zero-size file
		{"tags t1 0 none 0 0 t2 0 bogus 0 0", "push t1.g/b 5 1000000001", "push t1.g/a 5 1000000000", "push t2.g/b 5 1000000001",
			"push t2.g/a 0 1000000000", "push t2.g/c 2 1000000000", "push zz.g/a 5 1000000000", "pop " + now, "pop " + now, "pop " + now,
			"pop " + now, "pop " + now, "dump"},
		// witnesses of the mutation trials (a young file that is not the last one is served; a young group must
		// not block the next one; a resumed file keeps its own predecessor; re-push behind a skipped placeholder)
		{"tags hi 5 fifo 2 0 lo 1 lifo 2 0 lo2 1 none 0 3600", "push lo2.c/1 4 4000000000", "push lo2.c/0 4 1000000000", "pop " + now, "pop " + now, "pop " + now, "dump"},
		{"tags t1 1 fifo 1000 0 t2 2 fifo 5 86400", "push t2.g3/f2 7 1000000705", "push t2/f0 30 4000000002", "pop " + now, "pop " + now, "pop " + now, "dump"},
		{"tags t1 0 fifo 4 0", "push t1.g/r 20 1000000001 rec t1.g/zz 2:7 12:20", "pop " + now, "pop " + now, "dump"},
		{"tags t2 1 bogus 0 0", "push t2.g0/f4 0 1000000000", "push t2.g0/f5 10 1000000001", "pop " + now, "push t2.g0/f5 2 1000000003",
			"push t2.g0/f1 30 1000000003", "push t2.g0/f5 11 1000000001", "dump", "pop " + now, "pop " + now, "pop " + now, "dump"},
		{"tags t1 2 lifo 11 3600", "push t1.g0/f5 0 4000000000", "push t1.g0/f4 5 1000000001", "pop " + now, "push t1.g0/f4 20 4000000000", "dump", "pop " + now, "dump"},
		// restart chain (C07 chain continues, Props/C07Chain): the first file behind dropped placeholders announces the
		// last of them: two placeholders with different / equal timestamps, fifo / lifo / alpha / arrival order
		{"tags t1 0 fifo 0 0", "push t1.g/p1 10 1000000001 rec -", "push t1.g/p2 10 1000000002 rec -", "push t1.g/x 5 1000000003", "dump", "pop " + now, "dump"},
		{"tags t1 0 fifo 3 0", "push t1.g/x 5 1000000000", "push t1.g/p2 10 1000000000 rec -", "push t1.g/p1 10 1000000000 rec -", "pop " + now, "pop " + now, "dump"},
		{"tags t1 0 lifo 0 0", "push t1.g/x 5 1000000001", "push t1.g/p1 10 1000000003 rec -", "push t1.g/p2 10 1000000002 rec -", "pop " + now, "dump"},
		{"tags t1 0 - 0 0", "push t1.g/c 5 1000000001", "push t1.g/b 10 1000000003 rec -", "push t1.g/a 10 1000000002 rec -", "push t1.g/d 5 1000000000", "pop " + now, "pop " + now, "dump"},
		{"tags t1 0 bogus 0 0", "push t1.g/p 10 1000000003 rec -", "push t1.g/x 5 1000000001", "pop " + now, "dump"},
		// one placeholder behind a file sent completely in the same run: the survivor announces the placeholder, not that file
		{"tags t1 0 fifo 0 0", "push t1.g/a 4 1000000000", "pop " + now, "push t1.g/p1 10 1000000001 rec -", "push t1.g/x 5 1000000003", "dump", "pop " + now, "dump"},
		// a placeholder arriving in front of a half-emitted file: its later chunks announce the placeholder
		{"tags t1 0 fifo 2 0", "push t1.g/x 5 1000000003", "pop " + now, "push t1.g/p 10 1000000001 rec -", "pop " + now, "pop " + now, "dump"},
		// a zero-size plain file is dropped like a placeholder; a resumed survivor keeps its own predecessor
		{"tags t1 0 fifo 0 0", "push t1.g/z 0 1000000001", "push t1.g/x 5 1000000003", "pop " + now, "dump"},
		{"tags t1 0 fifo 0 0", "push t1.g/p1 10 1000000001 rec -", "push t1.g/r 9 1000000002 rec t1.g/zz 2:9", "push t1.g/y 5 1000000003", "pop " + now, "pop " + now, "dump"},
		// malformed
		{"tags t1 0 fifo", "push a", "pop", "pop x", "frob", "tags t1 0 fifo 0 0", "push t1/a x 1", "push t1/a 1 1000000000 rec", "push t1/a 1 1000000000 rec - 1:x", "dump"},
	}
}

// ---------------------------------------------------------------- coverage of the restart chain

// qChainStats counts how often the executed histories put Pop into the situation of Props/C07Chain
// `chain_continues_after_placeholders` (the scan drops k >= 1 fully allocated placeholders and a plain file
// of an ordered group survives): stats.json "extra". One harness process runs one component.
var qChainStats struct {
	cases, events          int
	one, two, three        int // number of placeholders dropped: 1, 2, 3 or more
	sameTime, diffTime     int // the dropped placeholders and the survivor carry one timestamp / several
	firstChunk, laterChunk int // the survivor's first chunk / a later chunk (the placeholders arrived in between)
	afterDone              int // a file of the group had been emitted completely before (kept in front of the placeholders)
	zeroSize               int // at least one dropped entry was a zero-size plain file, not a Recovered placeholder
	resumedSurvivor        int // the survivor was a resumed file (rule prev-recovered instead)
	unordered              int // the group's tag is unordered (no predecessor announced)
	byOrder                map[string]int
}

func (queueComp) ExtraStats() map[string]any {
	s := &qChainStats
	by := map[string]any{}
	for k, v := range s.byOrder {
		if k == "" {
			k = "alpha"
		}
		by[k] = v
	}
	return map[string]any{
		"chain_cases": s.cases, "chain_events": s.events,
		"chain_placeholders_1": s.one, "chain_placeholders_2": s.two, "chain_placeholders_3plus": s.three,
		"chain_same_time": s.sameTime, "chain_diff_time": s.diffTime,
		"chain_first_chunk": s.firstChunk, "chain_later_chunk": s.laterChunk,
		"chain_after_completed_file": s.afterDone, "chain_zero_size_dropped": s.zeroSize,
		"chain_resumed_survivor": s.resumedSurvivor, "chain_unordered_group": s.unordered,
		"chain_by_order": by,
	}
}

func (e *queueExec) noteChain(sg *shGroup, dropped []*shEnt, cur *shEnt) {
	s := &qChainStats
	if s.byOrder == nil {
		s.byOrder = map[string]int{}
	}
	s.events++
	if !e.chainHit {
		e.chainHit = true
		s.cases++
	}
	switch n := len(dropped); {
	case n == 1:
		s.one++
	case n == 2:
		s.two++
	default:
		s.three++
	}
	same, zero := true, false
	for _, d := range dropped {
		if d.t != cur.t {
			same = false
		}
		if d.rec == nil {
			zero = true
		}
	}
	if same {
		s.sameTime++
	} else {
		s.diffTime++
	}
	if zero {
		s.zeroSize++
	}
	if cur.alloc == 0 {
		s.firstChunk++
	} else {
		s.laterChunk++
	}
	if sg.lastCompleted != "" {
		s.afterDone++
	}
	s.byOrder[sg.tag.Order]++
}

// ---------------------------------------------------------------- generator

func (c queueComp) Generate(r *Rand, tier string, n int) [][]string {
	now := time.Now().Unix()
	var cases [][]string
	for i := 0; i < n; i++ {
		if !c.prio && r.Chance(0.15) {
			cases = append(cases, genChainCase(r, now))
			continue
		}
		cases = append(cases, genQueueCase(r, tier, now, c.prio))
	}
	return cases
}

// genChainCase: the queue right after a sender restart (client.recover()): per group, optionally a file sent
// completely beforehand, then 1..4 fully allocated placeholders that sort at the head of the list (same
// timestamp as the files behind them or different ones, every order of the tag), plain files and now and
// then a resumed file behind them, pushed in any order; then Pops, with late arrivals (another placeholder,
// a re-push, a file that sorts before the placeholders) in between.
func genChainCase(r *Rand, now int64) []string {
	nowS := strconv.FormatInt(now, 10)
	orders := []string{"fifo", "lifo", "-", "fifo", "lifo", "-", "bogus", "none"}
	nT := r.Range(1, 2)
	tl := "tags"
	var tOrder []string
	for t := 0; t < nT; t++ {
		o := r.Pick(orders)
		tOrder = append(tOrder, o)
		tl += fmt.Sprintf(" t%d %d %s %d 0", t+1, r.Intn(2), o, []int{0, 0, 3, 4, 5, 10, 1000}[r.Intn(7)])
	}
	ops := []string{tl}
	nG := r.Range(1, 3)
	var late []string
	for g := 0; g < nG; g++ {
		t := r.Intn(nT)
		order := tOrder[t]
		gname := fmt.Sprintf("t%d.g%d", t+1, g)
		base := qOld + 100
		sameTime := r.Chance(0.4)
		// a file sent completely before the crash is not in the queue after a restart; within one run
		// (placeholders arriving later, e.g. zero-size files) it is: both are generated
		var pre []string
		if r.Chance(0.3) {
			pre = append(pre, fmt.Sprintf("push %s/%s 3 %d", gname, "Z0", base), "pop "+nowS)
		}
		nP := []int{1, 1, 2, 2, 3, 4}[r.Intn(6)]
		nF := r.Range(1, 3)
		// rank 0..nP-1 placeholders, nP.. the files behind them: names ascending with the rank; times
		// ascending (fifo), descending (lifo), equal (sameTime), irrelevant (alpha, bogus: arrival order)
		tm := func(rank int) int64 {
			if sameTime {
				return base
			}
			switch order {
			case "lifo":
				return base + 50 - int64(rank)*int64(r.Range(1, 3))
			case "-", "bogus", "none":
				return base + int64(r.Intn(5))
			}
			return base + int64(rank)*int64(r.Range(1, 3))
		}
		var batch []string
		for k := 0; k < nP; k++ {
			if r.Chance(0.1) {
				batch = append(batch, fmt.Sprintf("push %s/a%d 0 %d", gname, k, tm(k))) // zero-size plain file: allocated at once
			} else {
				batch = append(batch, fmt.Sprintf("push %s/a%d %d %d rec -", gname, k, []int{1, 5, 10}[r.Intn(3)], tm(k)))
			}
		}
		for k := 0; k < nF; k++ {
			size := []int{1, 3, 5, 10, 11}[r.Intn(5)]
			if k == 0 && r.Chance(0.12) {
				batch = append(batch, fmt.Sprintf("push %s/m%d %d %d rec %s %d:%d", gname, k, size+2, tm(nP+k),
					r.Pick([]string{"-", gname + "/a0", "elsewhere/x", gname + "/m0"}), 1, size+2))
			} else {
				batch = append(batch, fmt.Sprintf("push %s/m%d %d %d", gname, k, size, tm(nP+k)))
			}
		}
		if order != "bogus" && order != "none" || r.Chance(0.3) {
			// recover() queues in cache order: any order of arrival (without a matcher the arrival order is the list order)
			for i := len(batch) - 1; i > 0; i-- {
				j := r.Intn(i + 1)
				batch[i], batch[j] = batch[j], batch[i]
			}
		}
		ops = append(ops, pre...)
		ops = append(ops, batch...)
		// late arrivals
		if r.Chance(0.35) {
			late = append(late, fmt.Sprintf("push %s/a%d 4 %d rec -", gname, nP, tm(nP))) // one more placeholder, in front of a half-emitted file
		}
		if r.Chance(0.2) {
			late = append(late, fmt.Sprintf("push %s/m0 %d %d", gname, 2, tm(nP))) // the survivor queued again
		}
		if r.Chance(0.2) {
			late = append(late, fmt.Sprintf("push %s/A %d %d", gname, 2, qOld)) // sorts before everything
		}
		if r.Chance(0.15) {
			late = append(late, fmt.Sprintf("push %s/a0 3 %d", gname, tm(0))) // a placeholder's name queued as a plain file
		}
	}
	if r.Chance(0.3) {
		ops = append(ops, "dump")
	}
	for k := r.Range(2, 14); k > 0; k-- {
		if len(late) > 0 && r.Chance(0.3) {
			i := r.Intn(len(late))
			ops = append(ops, late[i])
			late = append(late[:i], late[i+1:]...)
			continue
		}
		if r.Chance(0.07) {
			ops = append(ops, "dump")
		}
		ops = append(ops, "pop "+nowS)
	}
	ops = append(ops, "dump")
	for k := r.Range(0, 12); k > 0; k-- {
		ops = append(ops, "pop "+nowS)
	}
	ops = append(ops, "dump")
	return ops
}

func genQueueCase(r *Rand, tier string, now int64, prio bool) []string {
	style := r.Intn(10)
	if prio && r.Chance(0.5) {
		style = []int{4, 4, 6}[r.Intn(3)] // more groups, priorities, last-file delays
	}
	// 0-2 general, 3 one group (order focus), 4 many groups (priority focus), 5 restart (recovered first),
	// 6 last-delay focus, 7 pure (unique names, no recovered, sizes > 0), 8 re-push focus, 9 malformed
	var ops []string
	nowS := strconv.FormatInt(now, 10)
	nT := r.Range(1, 3)
	if style == 3 {
		nT = 1
	}
	orders := []string{"fifo", "fifo", "lifo", "-", "none", "bogus"}
	type tg struct {
		name        string
		delay, chnk int
	}
	var tags []tg
	tl := "tags"
	prioPool := []int{0, 0, 1, 1, 2, -1}
	for t := 0; t < nT; t++ {
		name := fmt.Sprintf("t%d", t+1)
		if r.Chance(0.05) {
			name = fmt.Sprintf("T%%20%d", t+1) // a tag name with a space (escaped)
		}
		delay := 0
		if r.Chance(0.3) || style == 6 {
			delay = []int{1, 3600, 86400}[r.Intn(3)]
		}
		chnk := []int{0, 0, 1, 3, 4, 5, 10, 11, 1000}[r.Intn(9)]
		prio := prioPool[r.Intn(len(prioPool))]
		if style == 4 && r.Chance(0.6) {
			prio = 0
		}
		if r.Chance(0.03) {
			chnk = -2
		}
		tags = append(tags, tg{name, delay, chnk})
		tl += fmt.Sprintf(" %s %d %s %d %d", name, prio, r.Pick(orders), chnk, delay)
	}
	if r.Chance(0.05) { // duplicate tag name: the first one wins
		tl += fmt.Sprintf(" %s %d %s %d %d", tags[0].name, 7, r.Pick(orders), 2, 0)
	}
	ops = append(ops, tl)
	nG := r.Range(1, 6)
	if style == 3 {
		nG = 1
	} else if style == 4 {
		nG = r.Range(3, 6)
	}
	type grp struct {
		name string
		tag  int
		pool int
		ctr  int
	}
	var groups []grp
	for g := 0; g < nG; g++ {
		t := r.Intn(nT)
		name := fmt.Sprintf("%s.g%d", tags[t].name, g)
		if r.Chance(0.1) {
			name = tags[t].name // group equals tag
		}
		groups = append(groups, grp{name, t, r.Range(1, 8), 0})
	}
	if r.Chance(0.1) {
		groups = append(groups, grp{"zz.g", -1, 2, 0}) // no matching tag
	}
	sizes := []int{1, 2, 3, 5, 7, 10, 11, 20, 30}
	pushed := map[string]bool{}
	var pushedNames []string
	mkPush := func(recOK bool) string {
		g := &groups[r.Intn(len(groups))]
		var name string
		if style == 7 {
			name = fmt.Sprintf("%s/u%03d", g.name, g.ctr)
			g.ctr++
		} else if style == 8 && len(pushedNames) > 0 && r.Chance(0.5) {
			name = pushedNames[r.Intn(len(pushedNames))]
		} else {
			name = fmt.Sprintf("%s/f%d", g.name, r.Intn(g.pool))
			if r.Chance(0.03) {
				name = fmt.Sprintf("%s/f%%c3%%a9%d", g.name, r.Intn(3)) // non-ASCII (valid UTF-8)
			}
		}
		if !pushed[name] {
			pushed[name] = true
			pushedNames = append(pushedNames, name)
		}
		size := sizes[r.Intn(len(sizes))]
		if style != 7 && r.Chance(0.05) {
			size = 0
		}
		t := qOld + int64(r.Intn(4))
		if r.Chance(0.3) {
			t = qOld + int64(r.Intn(1000))
		}
		delay := 0
		if g.tag >= 0 {
			delay = tags[g.tag].delay
		}
		if (delay > 0 && r.Chance(0.4)) || r.Chance(0.03) {
			t = qYoung + int64(r.Intn(4))
		}
		s := fmt.Sprintf("push %s %d %d", name, size, t)
		if recOK && style != 7 {
			switch {
			case r.Chance(0.5): // placeholder
				s += " rec -"
			default:
				prev := "-"
				switch r.Intn(5) {
				case 0:
					prev = fmt.Sprintf("%s/f%d", g.name, r.Intn(g.pool))
				case 1:
					prev = name
				case 2:
					prev = "elsewhere/x"
				case 3:
					if len(pushedNames) > 0 {
						prev = pushedNames[r.Intn(len(pushedNames))]
					}
				}
				s += " rec " + prev
				pos := 0
				for k := r.Range(1, 3); k > 0 && pos < size; k-- {
					b := pos + r.Intn(max(1, size/3))
					e := b + r.Range(1, max(1, size/2))
					if e > size {
						e = size
					}
					if r.Chance(0.04) {
						e = b // empty range
					}
					if r.Chance(0.02) {
						b, e = e, b-1 // inverted
					}
					s += fmt.Sprintf(" %d:%d", b, e)
					if e > pos {
						pos = e
					}
				}
			}
		}
		return s
	}
	nOps := r.Range(6, 40)
	if tier == "thorough" && r.Chance(0.3) {
		nOps = r.Range(30, 90)
	}
	pPush := 0.25 + 0.5*r.Float64()
	pRec := 0.0
	if style != 7 && r.Chance(0.5) {
		pRec = 0.15
	}
	if style == 5 {
		for k := r.Range(1, 6); k > 0; k-- {
			ops = append(ops, mkPush(true))
		}
	}
	if style == 4 {
		for k := r.Range(4, 14); k > 0; k-- {
			ops = append(ops, mkPush(false))
		}
		pPush = 0.15
	}
	for k := 0; k < nOps; k++ {
		if k == nOps/2 && r.Chance(0.3) {
			pPush = 0.25 + 0.5*r.Float64()
		}
		switch {
		case style == 9 && r.Chance(0.25):
			ops = append(ops, r.Pick([]string{"pop", "pop x", "pop 1 2", "push", "push a 1", "push t1/a 1 z", "push t1/a 1 2 rec",
				"push t1/a 1 2 rek -", "push t1/a 1 2 rec - 3", "push t1/a 1 2 rec - 3:4:5", "push t1/a 1 2 rec - a:4", "dump 1", "tags t1", "frob 1 2", "tags t1 x fifo 0 0"}))
		case r.Chance(0.08):
			ops = append(ops, "dump")
		case r.Chance(pPush):
			ops = append(ops, mkPush(r.Chance(pRec)))
		default:
			ops = append(ops, "pop "+nowS)
		}
	}
	ops = append(ops, "dump")
	if r.Chance(0.6) {
		for k := r.Range(3, 30); k > 0; k-- {
			ops = append(ops, "pop "+nowS)
		}
		ops = append(ops, "dump")
	}
	return ops
}

// ---------------------------------------------------------------- executor

type qFile struct {
	name string
	size int64
	t    time.Time
}

func (f *qFile) GetPath() string    { return f.name }
func (f *qFile) GetName() string    { return f.name }
func (f *qFile) GetSize() int64     { return f.size }
func (f *qFile) GetTime() time.Time { return f.t }
func (f *qFile) GetMeta() []byte    { return nil }
func (f *qFile) GetHash() string    { return "h" }
func (f *qFile) IsDone() bool       { return false }

type qQuietLogger struct{}

func (qQuietLogger) Debug(...interface{}) {}
func (qQuietLogger) Info(...interface{})  {}
func (qQuietLogger) Error(...interface{}) {}
func (qQuietLogger) Recent(int) []string  { return nil }

func qUpTo(s string, c byte) string {
	if i := strings.IndexByte(s, c); i >= 0 {
		return s[:i]
	}
	return s
}
func qGrouper(name string) string { return qUpTo(name, '/') }
func qTagger(group string) string { return qUpTo(group, '.') }

// shadow (specification) state, updated from what was pushed and from the implementation's answers
type shEnt struct {
	name    string
	size, t int64
	seq     int
	rec     sts.Recovered
	ownPrev string
	alloc   int64
}

func (e *shEnt) allocated() bool {
	if e.rec != nil {
		return e.rec.IsAllocated()
	}
	return e.alloc == e.size
}

type shGroup struct {
	name          string
	tag           *queue.Tag
	delay         int64
	ents          []*shEnt
	done          map[string]bool
	lastCompleted string
	created       int // number of pops executed before the group appeared
	lastServed    int // index of the pop that served it last, -1
	pure          bool
	seen          map[string]bool
	// anchor: the name the first listed file announces (Lemmas/QueueAnchor `GroupSt.anchorName`): unchanged by
	// Push (pushFile_anchor), the served file once it is emitted completely (emit_anchor), the last file the
	// skip loop dropped (Lemmas/QueuePlaceholder `scanned_chain`)
	anchor string
}

type queueExec struct {
	prio     bool // evaluate the C12 oracles (else the C10 oracles)
	q        *queue.Tagged
	tags     []*queue.Tag
	groups   []*shGroup // specification order
	byName   map[string]*shGroup
	fails    []string
	key      strings.Builder
	seq      int
	pops     int
	nPush    int
	nChunk   int
	repush   bool
	anyRec   bool
	allOnce  bool // every name pushed at most once so far (whole queue)
	names    map[string]bool
	chainHit bool // this case has put Pop behind dropped placeholders at least once (qChainStats.cases)
}

func (c queueComp) NewExec() Exec {
	if stslog.Get() == nil {
		stslog.InitExternal(qQuietLogger{})
	}
	return &queueExec{prio: c.prio, allOnce: true, names: map[string]bool{}, byName: map[string]*shGroup{}}
}

// fail records an oracle failure if its kind belongs to the property this component serves
func (e *queueExec) fail(f string, a ...any) {
	kind := f[:strings.IndexByte(f, ':')]
	c12 := kind == "served-not-ready" || strings.HasPrefix(kind, "priority-") || kind == "round-robin"
	if c12 == e.prio {
		e.fails = append(e.fails, fmt.Sprintf(f, a...))
	}
}

// sortsAfter: does a stand strictly after b in the tag's order (arrival order where there is no matcher)
func shAfter(order string, a, b *shEnt) bool {
	switch order {
	case sts.OrderAlpha:
		return a.name > b.name
	case sts.OrderFIFO:
		if a.t == b.t {
			return a.name > b.name
		}
		return a.t > b.t
	case sts.OrderLIFO:
		if a.t == b.t {
			return a.name > b.name
		}
		return a.t < b.t
	}
	return a.seq > b.seq
}

// skipLeading: the specification of Pop's loop `for next != nil && next.isAllocated()`: fully allocated
// files (placeholders queued by recover(), zero-size files, files emitted completely) leave the head of
// the list as long as another file stands behind them. It returns the dropped entries in list order.
// Props/C07Chain `chain_continues_after_placeholders`: the last dropped one stays linked in front of the
// survivor, so it becomes the group's anchor (the name the first listed file announces).
func (g *shGroup) skipLeading() (dropped []*shEnt) {
	for len(g.ents) >= 2 && g.ents[0].allocated() {
		dropped = append(dropped, g.ents[0])
		g.ents = g.ents[1:]
	}
	if n := len(dropped); n > 0 {
		g.anchor = dropped[n-1].name
	}
	return dropped
}

// ready: Props/C12 `GroupSt.ready`
func (g *shGroup) ready(now int64) bool {
	for i, c := range g.ents {
		if c.allocated() {
			continue
		}
		if g.delay > 0 && i == len(g.ents)-1 && now-c.t < g.delay {
			return false
		}
		return true
	}
	return false
}

func (e *queueExec) Do(op []string) string {
	e.key.WriteString(strings.Join(op, " "))
	e.key.WriteByte(';')
	atoi := func(s string) (int64, bool) {
		if strings.HasPrefix(s, "+") || strings.Contains(s, "_") {
			return 0, false
		}
		v, err := strconv.ParseInt(s, 10, 64)
		return v, err == nil
	}
	switch {
	case op[0] == "tags":
		rest := op[1:]
		if len(rest)%5 != 0 {
			return "bad-op"
		}
		var tags []*queue.Tag
		for i := 0; i < len(rest); i += 5 {
			p, ok1 := atoi(rest[i+1])
			c, ok2 := atoi(rest[i+3])
			d, ok3 := atoi(rest[i+4])
			if !ok1 || !ok2 || !ok3 {
				return "bad-op"
			}
			t := &queue.Tag{Name: unesc(rest[i]), Priority: int(p), Order: unesc(rest[i+2]), ChunkSize: c,
				LastDelay: time.Duration(d) * time.Second}
			tags = append(tags, t)
		}
		e.tags = tags
		e.q = queue.NewTagged(tags, qTagger, qGrouper)
		e.groups, e.byName = nil, map[string]*shGroup{}
		e.allOnce, e.names = true, map[string]bool{}
		e.pops = 0
		return "ok"
	case op[0] == "push" && (len(op) == 4 || (len(op) >= 6 && op[4] == "rec")):
		size, ok1 := atoi(op[2])
		t, ok2 := atoi(op[3])
		if !ok1 || !ok2 {
			return "bad-op"
		}
		name := unesc(op[1])
		base := &qFile{name: name, size: size, t: time.Unix(t, 0)}
		var file sts.Hashed = base
		ent := &shEnt{name: name, size: size, t: t}
		if len(op) >= 6 {
			var left []*sts.ByteRange
			for _, s := range op[6:] {
				be := strings.Split(s, ":")
				if len(be) != 2 {
					return "bad-op"
				}
				b, ok1 := atoi(be[0])
				en, ok2 := atoi(be[1])
				if !ok1 || !ok2 {
					return "bad-op"
				}
				left = append(left, &sts.ByteRange{Beg: b, End: en})
			}
			file = client.VerifQueueRecovered(base, unesc(op[5]), left)
			// the specification state drives its own instance of the real recoverFile
			var left2 []*sts.ByteRange
			for _, p := range left {
				left2 = append(left2, &sts.ByteRange{Beg: p.Beg, End: p.End})
			}
			ent.rec = client.VerifQueueRecovered(base, unesc(op[5]), left2)
			ent.ownPrev = unesc(op[5])
		}
		if e.q == nil {
			e.q = queue.NewTagged(nil, qTagger, qGrouper)
		}
		e.q.Push([]sts.Hashed{file})
		e.nPush++
		e.shadowPush(ent)
		return "ok"
	case len(op) == 2 && op[0] == "pop":
		now, ok := atoi(op[1])
		if !ok {
			return "bad-op"
		}
		if e.q == nil {
			e.q = queue.NewTagged(nil, qTagger, qGrouper)
		}
		// the real Pop reads the wall clock: refuse histories in which that could matter
		real := time.Now().Unix()
		for _, g := range e.groups {
			if g.delay <= 0 {
				continue
			}
			for _, c := range g.ents {
				if (real-c.t < g.delay+7200) != (now-c.t < g.delay) || (real-c.t < g.delay-7200) != (now-c.t < g.delay) {
					return "clock-skew"
				}
			}
		}
		s := e.q.Pop()
		if s == nil {
			e.shadowPop(now, "", 0, 0, "")
			e.pops++
			return "nil"
		}
		off, ln := s.GetSlice()
		e.nChunk++
		e.shadowPop(now, s.GetName(), off, ln, s.GetPrev())
		e.pops++
		return fmt.Sprintf("%s %d %d %s %d", esc(s.GetName()), off, ln, esc(s.GetPrev()), s.GetSendSize())
	case len(op) == 1 && op[0] == "dump":
		if e.q == nil {
			e.q = queue.NewTagged(nil, qTagger, qGrouper)
		}
		return e.q.VerifDump(esc)
	}
	return "bad-op"
}

func (e *queueExec) shadowPush(ent *shEnt) {
	gname := qGrouper(ent.name)
	g := e.byName[gname]
	if g == nil {
		var tag *queue.Tag
		for _, t := range e.tags {
			if t.Name == qTagger(gname) {
				tag = t
				break
			}
		}
		if tag == nil {
			return // no matching tag: the file is dropped
		}
		g = &shGroup{name: gname, tag: tag, delay: int64(tag.LastDelay / time.Second), done: map[string]bool{},
			created: e.pops, lastServed: -1, pure: true, seen: map[string]bool{}}
		e.byName[gname] = g
		// specification of addGroup: behind every group of higher or equal priority
		i := 0
		for i < len(e.groups) && e.groups[i].tag.Priority >= tag.Priority {
			i++
		}
		e.groups = append(e.groups[:i], append([]*shGroup{g}, e.groups[i:]...)...)
	}
	e.seq++
	ent.seq = e.seq
	if e.names[ent.name] {
		e.allOnce = false
		e.repush = true
	}
	e.names[ent.name] = true
	if ent.rec != nil {
		g.pure = false
	}
	if ent.rec != nil {
		e.anyRec = true
	}
	g.seen[ent.name] = true
	// a file of that name that is still listed is replaced
	for i, c := range g.ents {
		if c.name == ent.name {
			g.ents = append(g.ents[:i:i], g.ents[i+1:]...)
			break
		}
	}
	if ent.allocated() {
		g.done[ent.name] = true // "queued as already sent"
		g.pure = false
	}
	i := len(g.ents)
	for k, c := range g.ents {
		if shAfter(g.tag.Order, c, ent) {
			i = k
			break
		}
	}
	g.ents = append(g.ents[:i:i], append([]*shEnt{ent}, g.ents[i:]...)...)
}

// shadowPop evaluates the oracles of C10 / C12 on one answer of the real Pop and moves the
// specification state along.
func (e *queueExec) shadowPop(now int64, name string, off, ln int64, prev string) {
	if name == "" {
		for _, g := range e.groups {
			if g.ready(now) {
				e.fail("priority-idle: Pop returned nil while group %s has a chunk ready", g.name)
			}
			g.skipLeading()
		}
		return
	}
	sg := e.byName[qGrouper(name)]
	if sg == nil {
		e.fail("order-unknown: Pop returned %s, which belongs to no group of the queue", name)
		return
	}
	// C12 strict_priority / young_last_file_skipped
	if !sg.ready(now) {
		e.fail("served-not-ready: Pop served group %s (file %s) although it has no chunk ready (last-file delay %ds)", sg.name, name, sg.delay)
	}
	for _, h := range e.groups {
		if h.tag.Priority > sg.tag.Priority && h.ready(now) {
			e.fail("priority-inversion: Pop served group %s (priority %d) while group %s (priority %d) has a chunk ready",
				sg.name, sg.tag.Priority, h.name, h.tag.Priority)
		}
	}
	// C12 round_robin (bounded bypass): between two services of sg, every group of its priority that
	// already existed at the earlier one was served or is not ready now
	if sg.lastServed >= 0 {
		for _, h := range e.groups {
			if h != sg && h.tag.Priority == sg.tag.Priority && h.created <= sg.lastServed && h.lastServed < sg.lastServed && h.ready(now) {
				e.fail("round-robin: group %s served again (pops %d and %d) while group %s of the same priority was ready and not served in between",
					sg.name, sg.lastServed, e.pops, h.name)
			}
		}
	}
	// the scan passes over every group standing before the served one
	for _, h := range e.groups {
		if h == sg {
			break
		}
		h.skipLeading()
	}
	dropped := sg.skipLeading()
	// C10 pop_is_min
	var cur *shEnt
	for _, c := range sg.ents {
		if c.name == name {
			cur = c
			break
		}
	}
	if cur == nil {
		e.fail("order-not-pending: Pop returned a chunk of %s, which is not pending in group %s", name, sg.name)
		return
	}
	if cur.allocated() {
		e.fail("order-not-pending: Pop returned a chunk of %s, which was already emitted completely", name)
	}
	for _, c := range sg.ents {
		if c == cur || c.allocated() {
			continue
		}
		if shAfter(sg.tag.Order, cur, c) {
			e.fail("order: Pop emitted %s while %s of group %s is pending and comes first in order %q", name, c.name, sg.name, sg.tag.Order)
			break
		}
	}
	// C10 prev_safe
	switch {
	case prev != "" && prev == name:
		e.fail("prev-self: %s announces itself as predecessor", name)
	case sg.tag.Order == sts.OrderNone:
		if prev != "" {
			e.fail("prev-unordered: %s of unordered group %s announces predecessor %s", name, sg.name, prev)
		}
	case cur.rec != nil:
		want := cur.ownPrev
		if want == name {
			want = ""
		}
		if prev != want {
			e.fail("prev-recovered: resumed file %s announces %q instead of its own predecessor %q", name, prev, want)
		}
	default:
		if prev != "" && !sg.done[prev] {
			e.fail("prev-not-done: %s announces predecessor %s, which was neither emitted completely nor queued as already sent in group %s", name, prev, sg.name)
		}
		// C10 prev_acyclic: with every name queued once, the file itself cannot have been done before
		if e.allOnce && sg.done[name] {
			e.fail("prev-cycle: %s is emitted after it was done although every name was queued once", name)
		}
		// C10 prev_is_last_completed: in a group without Recovered files and without files queued as already sent
		want := sg.lastCompleted
		if want == name {
			want = ""
		}
		if sg.pure && prev != want {
			e.fail("prev-not-last-completed: %s announces %q but the file of group %s completed most recently is %q", name, prev, sg.name, sg.lastCompleted)
		}
	}
	// C07 chain_continues / C10 chain_continues_after_placeholders: the scan has just dropped one or more
	// fully allocated placeholders that stood directly in front of the served file at the head of its
	// group: a plain file of an ordered group announces the LAST of them (a resumed file announces its
	// own recorded predecessor: prev-recovered above)
	if n := len(dropped); n > 0 && sg.tag.Order != sts.OrderNone && cur.rec == nil && len(sg.ents) > 0 && sg.ents[0] == cur {
		want := dropped[n-1].name
		if want == name {
			want = ""
		}
		e.noteChain(sg, dropped, cur)
		if prev != want {
			var names []string
			for _, d := range dropped {
				names = append(names, d.name)
			}
			e.fail("prev-chain-lost: %s is the first file of group %s (order %q) behind the fully allocated placeholder(s) [%s] that this Pop dropped from the head of the list; it must announce the last of them, %q, but announces %q",
				name, sg.name, sg.tag.Order, strings.Join(names, " "), want, prev)
		}
	} else if len(dropped) > 0 && len(sg.ents) > 0 && sg.ents[0] == cur {
		if cur.rec != nil {
			qChainStats.resumedSurvivor++
		} else {
			qChainStats.unordered++
		}
	}
	// the same chain at every other chunk: a plain file of an ordered group announces the group's anchor
	// (the file completed most recently or the placeholder dropped most recently, whichever happened last)
	if sg.tag.Order != sts.OrderNone && cur.rec == nil && len(sg.ents) > 0 && sg.ents[0] == cur {
		want := sg.anchor
		if want == name {
			want = ""
		}
		if prev != want {
			e.fail("prev-chain-anchor: %s of group %s (order %q) announces %q, but the file standing in front of it in the chain (completed or dropped as a placeholder most recently) is %q",
				name, sg.name, sg.tag.Order, prev, sg.anchor)
		}
	}
	// C11 (queue side): a plain file is cut front to back into chunks of ITS OWN tag's chunk size (0 = the whole
	// file), whichever group stands at the head of the queue
	if cur.rec == nil && !cur.allocated() && sg.tag.ChunkSize >= 0 { // a negative chunk size is one of the excluded points of C11 (side condition of allocate_tiles)
		want := cur.size - cur.alloc
		if c := sg.tag.ChunkSize; c > 0 && c < want {
			want = c
		}
		if off != cur.alloc || ln != want {
			e.fail("chunk-size: Pop cut %d:%d of %s (size %d, %d allocated before, chunk size %d of its tag), expected %d:%d",
				off, off+ln, name, cur.size, cur.alloc, sg.tag.ChunkSize, cur.alloc, cur.alloc+want)
		}
	}
	// move the specification along
	if cur.rec == nil {
		cur.alloc += ln
	} else {
		cur.rec.Allocate(sg.tag.ChunkSize)
	}
	if cur.allocated() {
		for i, c := range sg.ents {
			if c == cur {
				sg.ents = append(sg.ents[:i:i], sg.ents[i+1:]...)
				break
			}
		}
		sg.done[name] = true
		sg.lastCompleted = name
		sg.anchor = name
	}
	sg.lastServed = e.pops
	// specification of delayGroup: behind every group of its priority
	idx := -1
	for i, h := range e.groups {
		if h == sg {
			idx = i
		}
	}
	rest := append(append([]*shGroup{}, e.groups[:idx]...), e.groups[idx+1:]...)
	j := idx
	for j < len(rest) && rest[j].tag.Priority == sg.tag.Priority {
		j++
	}
	e.groups = append(append(append([]*shGroup{}, rest[:j]...), sg), rest[j:]...)
}

func (e *queueExec) Oracle() []string { f := e.fails; e.fails = nil; return f }
func (e *queueExec) Signature() (bool, string) {
	return e.nPush >= 2 && e.nChunk >= 2 && (len(e.groups) >= 2 || e.repush || e.anyRec), e.key.String()
}
func (e *queueExec) Close() {}

func (queueComp) AnswerClass(op []string, ans string) string {
	switch op[0] {
	case "pop":
		if ans == "nil" || ans == "bad-op" || ans == "clock-skew" || strings.HasPrefix(ans, "panic") {
			return "pop:" + strings.Fields(ans)[0]
		}
		f := strings.Fields(ans)
		c := "pop:chunk"
		if len(f) == 5 {
			if f[1] == "0" {
				c += ":first"
			} else {
				c += ":later"
			}
			if f[3] == "-" {
				c += ":noprev"
			} else {
				c += ":prev"
			}
		}
		return c
	case "dump":
		if !strings.HasPrefix(ans, "groups=") {
			return "dump:" + ans
		}
		c := "dump"
		// a kept head file that is no longer listed / a listed head with an unlisted predecessor
		for _, g := range strings.Fields(ans) {
			if i := strings.Index(g, ";head="); i >= 0 {
				h := g[i+6:]
				l := ""
				if j := strings.Index(h, ";list="); j >= 0 {
					l = h[j+6:]
					h = h[:j]
				}
				if h != "~" && l == "~" {
					c = "dump:kept-head"
				} else if h != "~" && !strings.Contains(h, "[~|") && c == "dump" {
					c = "dump:unlisted-prev"
				}
			}
		}
		if strings.HasSuffix(ans, "glinks=broken") {
			c = "dump:glinks-broken"
		}
		return c
	case "push":
		k := "push:plain:"
		if len(op) >= 6 {
			if len(op) == 6 {
				k = "push:placeholder:"
			} else {
				k = "push:resumed:"
			}
		}
		return k + ans
	}
	return op[0] + ":" + ans
}

var _ = sort.Strings
