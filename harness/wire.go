package main

import (
	"math/big"
	"bufio"
	"bytes"
	"compress/gzip"
	"encoding/json"
	"fmt"
	"io"
	stdlog "log"
	"net"
	"net/http"
	"net/http/httptest"
	"net/url"
	"os"
	"path/filepath"
	"strconv"
	"strings"
	"sync"
	"time"

	"github.com/arm-doe/sts"
	stshttp "github.com/arm-doe/sts/http"
	stslog "github.com/arm-doe/sts/log"
	"github.com/arm-doe/sts/marshal"
	"github.com/arm-doe/sts/payload"
	"github.com/arm-doe/sts/stage"
)

// component "wire" (property C13): the payload wire format.
//
//	payload.NewBin/Add/EncodeHeader/GetEncoder, payload.NewDecoder/Next/PartDecoder.Read,
//	marshal.NanoTime, http.Client.Transmit, http.Server.routeData (tag-guarded export),
//	stage.Stage.Receive (its part-copy half).
//
// Op grammar (tokens %XX-escaped, "-" = empty string):
//
//	part NAME RENAMED PREV HASH SEC NANO SIZE BEG END FLEN SEED   add a part: bytes [BEG,END) of a file that
//	          really has FLEN bytes (negative: cannot be opened); byte OFF of the file is (OFF*31+SEED)%251
//	hdr                                   real EncodeHeader: length and checksum
//	enc FILL K1 K2 ...                    real GetEncoder read through buffers of K1,K2,... bytes (cyclic), each
//	                                      pre-filled with FILL
//	decx SEP ML CUT END EXTRA SRC CHUNK R1 R2 ...   in memory: real NewDecoder + Next + part readers read with
//	                                      sizes R1,R2,... (cyclic); the stream hands out at most CHUNK bytes per read
//	put GK SEP GZ ML CUT END EXTRA XR SRC real HTTP request to the real routeData
//	putgz LEVEL NUM DEN                   conforming gzip request whose *compressed* stream is cut at NUM/DEN
//	http GK LEVEL                         real http.Client.Transmit -> httptest -> routeData
//	recv BEG END N END                    real stage.Receive with a reader that ends after N bytes
//	nano STR / nanoenc SEC NANO           marshal.NanoTime Unmarshal / Marshal
//	sep SEP NAME                          separator conversion of NewDecoder
//
// SEP: separator header (one character or "-"); GZ: -1 plain, 0..9 gzip level; ML: meta-len header
// (x exact, d<int> relative to the real length, a<int> absolute, s<str> raw, n absent); CUT: number of body
// bytes (header+parts+extra, before compression) that arrive, -1 all; END: c = the stream then ends
// cleanly, b = with a transport error; EXTRA: trailing bytes appended; XR: readers handed out beyond the
// announced parts; SRC: real (real Bin header + real Encoder output) or mirror (every descriptor, hand-made
// header); GK: stub (recording gatekeeper) or stage (recorder in front of the real stage.Stage).
type wireComp struct{}

func init() { register(wireComp{}) }

func (wireComp) Name() string { return "wire" }
func (wireComp) Rule() string {
	return "case = payload description (part lines) + encode/decode/request ops, or NanoTime/separator ops; " +
		"non-trivial = at least one encode, decode or request op ran on a payload with >= 1 part and was answered " +
		"(not bad-op/noparts), or >= 2 NanoTime/separator ops; distinct = by the full op sequence"
}

// ---------------------------------------------------------------- shared helpers

func wGenByte(seed, off int64) byte { return byte((off*31 + seed) % 251) }

func wGenRange(seed, a, b int64) []byte {
	if b <= a {
		return nil
	}
	out := make([]byte, b-a)
	for i := range out {
		out[i] = wGenByte(seed, a+int64(i))
	}
	return out
}

func wCksum(bs []byte) uint64 {
	h := uint64(7)
	for _, b := range bs {
		h = (h*131 + uint64(b) + 1) % 4294967291
	}
	return h
}

func wCksumN(ns []int) uint64 {
	h := uint64(7)
	for _, b := range ns {
		h = (h*131 + uint64(b) + 1) % 4294967291
	}
	return h
}

type wDesc struct {
	Name, Renamed, Prev, Hash string
	Sec, Nano                 int64
	Size, Beg, End            int64
}

func (d wDesc) String() string {
	return fmt.Sprintf("%s %s %s %s %d %d %d %d %d", esc(d.Name), esc(d.Renamed), esc(d.Prev), esc(d.Hash),
		d.Sec, d.Nano, d.Size, d.Beg, d.End)
}

type wPart struct {
	d    wDesc
	flen int64
	seed int64
}

// wBinnable is the sender-side file the real Bin works on.
type wBinnable struct {
	p     wPart
	alloc int64
}

func (b *wBinnable) GetPath() string              { return "/verif/" + b.p.d.Name }
func (b *wBinnable) GetName() string              { return b.p.d.Name }
func (b *wBinnable) GetSize() int64               { return b.p.d.Size }
func (b *wBinnable) GetTime() time.Time           { return time.Unix(b.p.d.Sec, b.p.d.Nano) }
func (b *wBinnable) GetMeta() []byte              { return nil }
func (b *wBinnable) GetHash() string              { return b.p.d.Hash }
func (b *wBinnable) GetPrev() string              { return b.p.d.Prev }
func (b *wBinnable) GetSlice() (int64, int64)     { return b.p.d.Beg, b.p.d.End - b.p.d.Beg }
func (b *wBinnable) GetSendSize() int64           { return b.p.d.Size }
func (b *wBinnable) GetNextAlloc() (int64, int64) { return b.p.d.Beg, b.p.d.End }
func (b *wBinnable) AddAlloc(n int64)             { b.alloc += n }
func (b *wBinnable) IsAllocated() bool            { return b.alloc > 0 }

// wMemFile is an in-memory sts.Readable with os.File semantics (full reads, then (0, EOF)).
type wMemFile struct {
	seed, flen, pos int64
}

func (f *wMemFile) Read(p []byte) (int, error) {
	if len(p) == 0 {
		return 0, nil
	}
	if f.pos >= f.flen {
		return 0, io.EOF
	}
	n := int64(len(p))
	if f.flen-f.pos < n {
		n = f.flen - f.pos
	}
	for i := int64(0); i < n; i++ {
		p[i] = wGenByte(f.seed, f.pos+i)
	}
	f.pos += n
	return int(n), nil
}
func (f *wMemFile) Seek(off int64, whence int) (int64, error) {
	if whence != 0 || off < 0 {
		return 0, fmt.Errorf("bad seek")
	}
	f.pos = off
	return off, nil
}
func (f *wMemFile) Close() error { return nil }

// wStream is the receiver-side byte stream: hands out at most chunk bytes per Read, ends with
// EOF or with an error. Safe for the concurrent header-copier goroutine of NewDecoder.
type wStream struct {
	mu     sync.Mutex
	data   []byte
	pos    int
	chunk  int
	broken bool
}

func (s *wStream) Read(p []byte) (int, error) {
	s.mu.Lock()
	defer s.mu.Unlock()
	if len(p) == 0 {
		return 0, nil
	}
	if s.pos >= len(s.data) {
		if s.broken {
			return 0, io.ErrUnexpectedEOF
		}
		return 0, io.EOF
	}
	n := len(p)
	if s.chunk > 0 && n > s.chunk {
		n = s.chunk
	}
	n = copy(p[:n], s.data[s.pos:])
	s.pos += n
	return n, nil
}

type wNullLog struct{}

func (wNullLog) Debug(...interface{}) {}
func (wNullLog) Info(...interface{})  {}
func (wNullLog) Error(...interface{}) {}
func (wNullLog) Recent(int) []string  { return nil }

// mirror of payload.fileMeta for hand-made headers
type wMeta struct {
	Name    string           `json:"n"`
	Renamed string           `json:"r"`
	Prev    string           `json:"p"`
	Hash    string           `json:"f"`
	Time    marshal.NanoTime `json:"t"`
	Size    int64            `json:"s"`
	Beg     int64            `json:"b"`
	End     int64            `json:"e"`
}

func wMirrorHeader(ds []wDesc) []byte {
	ms := make([]*wMeta, len(ds))
	for i, d := range ds {
		ms[i] = &wMeta{d.Name, d.Renamed, d.Prev, d.Hash, marshal.NanoTime{Time: time.Unix(d.Sec, d.Nano)}, d.Size, d.Beg, d.End}
	}
	b, _ := json.Marshal(ms)
	return b
}

func wTmpDir() string {
	d := os.Getenv("VERIF_TMP")
	if d == "" {
		d = os.TempDir()
	}
	return d
}

// ---------------------------------------------------------------- the server side (one per process)

type wRecv struct {
	d        wDesc
	data     []byte
	err      error
	panicked bool
}

// wGK records Prepare/Receive; kind "stage" forwards to the real stage.Stage under a private
// name prefix, kind "stub" reads the part to its end and returns the read error.
type wGK struct {
	kind   string
	prefix string
	mu     sync.Mutex
	prep   []wDesc
	preps  int
	recvs  []*wRecv
	status int
	count  string
	done   chan struct{}
}

type wPrefixed struct {
	sts.Binned
	name string
}

func (p wPrefixed) GetName() string { return p.name }

func descOfBinned(b sts.Binned) wDesc {
	beg, end := b.GetSlice()
	t := b.GetFileTime()
	return wDesc{b.GetName(), b.GetRenamed(), b.GetPrev(), b.GetFileHash(), t.Unix(), int64(t.Nanosecond()), b.GetFileSize(), beg, end}
}

func (g *wGK) Recover()                            {}
func (g *wGK) CleanNow()                           {}
func (g *wGK) Prune(time.Duration)                 {}
func (g *wGK) Ready() bool                         { return true }
func (g *wGK) Scan(string) ([]byte, error)         { return nil, nil }
func (g *wGK) Received([]sts.Binned) int           { return 0 }
func (g *wGK) GetFileStatus(string, time.Time) int { return 0 }
func (g *wGK) Stop(bool)                           {}
func (g *wGK) Prepare(parts []sts.Binned) {
	g.mu.Lock()
	g.preps++
	g.prep = nil
	for _, p := range parts {
		g.prep = append(g.prep, descOfBinned(p))
	}
	g.mu.Unlock()
	if g.kind == "stage" {
		wrapped := make([]sts.Binned, len(parts))
		for i, p := range parts {
			wrapped[i] = wPrefixed{p, filepath.Join(g.prefix, p.GetName())}
		}
		wireStage().Prepare(wrapped)
	}
}

func (g *wGK) Receive(f *sts.Partial, r io.Reader) error {
	rec := &wRecv{}
	rec.d = wDesc{f.Name, f.Renamed, f.Prev, f.Hash, f.Time.Unix(), int64(f.Time.Nanosecond()), f.Size, -1, -1}
	if len(f.Parts) == 1 {
		rec.d.Beg, rec.d.End = f.Parts[0].Beg, f.Parts[0].End
	}
	g.mu.Lock()
	g.recvs = append(g.recvs, rec)
	g.mu.Unlock()
	var buf bytes.Buffer
	defer func() {
		if p := recover(); p != nil {
			rec.panicked = true
			rec.data = buf.Bytes()
			panic(p)
		}
	}()
	var err error
	if g.kind == "stage" {
		clone := *f
		clone.Name = filepath.Join(g.prefix, f.Name)
		err = wireStage().Receive(&clone, io.TeeReader(r, &buf))
	} else {
		_, err = io.Copy(&buf, struct{ io.Reader }{r})
	}
	rec.data = buf.Bytes()
	rec.err = err
	return err
}

type wStatusWriter struct {
	http.ResponseWriter
	code int
}

func (w *wStatusWriter) WriteHeader(c int) {
	if w.code == 0 {
		w.code = c
	}
	w.ResponseWriter.WriteHeader(c)
}

// wExtraDecoder hands out xr empty readers beyond the announced parts (index-overflow branch).
type wExtraDecoder struct {
	sts.PayloadDecoder
	xr int
}

func (d *wExtraDecoder) Next() (io.Reader, bool) {
	r, eof := d.PayloadDecoder.Next()
	if eof && d.xr > 0 {
		d.xr--
		return bytes.NewReader(nil), false
	}
	return r, eof
}

var (
	wireSrvOnce   sync.Once
	wireTS        *httptest.Server
	wireGKs       sync.Map // source name -> *wGK
	wireXR        int
	wireStageOnce sync.Once
	wireStageInst *stage.Stage
	wireStageRoot string
	wireCounter   int
	wireCleanup   []string
)

func wireStage() *stage.Stage {
	wireStageOnce.Do(func() {
		if old, _ := filepath.Glob(filepath.Join(wTmpDir(), "wire-stage-*")); len(old) > 0 && os.Getenv("VERIF_TMP") != "" {
			for _, o := range old {
				if st, err := os.Stat(o); err == nil && time.Since(st.ModTime()) > time.Hour {
					os.RemoveAll(o)
				}
			}
		}
		root, err := os.MkdirTemp(wTmpDir(), "wire-stage-")
		if err != nil {
			panic(err)
		}
		wireStageRoot = root
		wireCleanup = append(wireCleanup, root)
		wireStageInst = stage.New("verif", filepath.Join(root, "stage"), filepath.Join(root, "final"), nil, nil, nil)
	})
	return wireStageInst
}

func wireServer() *httptest.Server {
	wireSrvOnce.Do(func() {
		if stslog.Get() == nil {
			stslog.InitExternal(wNullLog{})
		}
		srv := &stshttp.Server{
			GateKeepers: map[string]sts.GateKeeper{},
			GateKeeperFactory: func(source string) sts.GateKeeper {
				if g, ok := wireGKs.Load(source); ok {
					return g.(*wGK)
				}
				return &wGK{kind: "stub", done: make(chan struct{}, 1)}
			},
			DecoderFactory: func(n int, sep string, r io.Reader) (sts.PayloadDecoder, error) {
				d, err := payload.NewDecoder(n, sep, r)
				if err == nil && wireXR > 0 {
					return &wExtraDecoder{d, wireXR}, nil
				}
				return d, err
			},
		}
		h := http.HandlerFunc(func(w http.ResponseWriter, r *http.Request) {
			var g *wGK
			if x, ok := wireGKs.Load(r.Header.Get(stshttp.HeaderSourceName)); ok {
				g = x.(*wGK)
			}
			sw := &wStatusWriter{ResponseWriter: w}
			defer func() {
				p := recover()
				if g != nil {
					g.mu.Lock()
					g.status = sw.code
					if p != nil {
						g.status = -1
					}
					g.count = sw.Header().Get(stshttp.HeaderPartCount)
					g.mu.Unlock()
					select {
					case g.done <- struct{}{}:
					default:
					}
				}
				if p != nil {
					panic(p)
				}
			}()
			srv.VerifRouteData(sw, r)
			if sw.code == 0 {
				sw.code = 200
			}
		})
		wireTS = httptest.NewUnstartedServer(h)
		wireTS.Config.ErrorLog = stdlog.New(io.Discard, "", 0)
		wireTS.Start()
	})
	return wireTS
}

// ---------------------------------------------------------------- executor

type wireExec struct {
	all, binned []wPart
	barrier     *wBarrier
	mutated     bool // a part was removed / the payload was split after parts were added
	bin         sts.Payload
	fails       []string
	key         strings.Builder
	mainOps     int
	smallOps    int
	tmpFiles    []string
	stageDirs   []string
}

func (wireComp) NewExec() Exec {
	if stslog.Get() == nil {
		stslog.InitExternal(wNullLog{})
	}
	e := &wireExec{}
	e.bin = payload.NewBin(1<<40, e.open, func(f sts.File) string {
		if b, ok := f.(*wBinnable); ok {
			return b.p.d.Renamed
		}
		return ""
	})
	return e
}

func (e *wireExec) fail(format string, a ...any) {
	if len(e.fails) < 20 {
		e.fails = append(e.fails, fmt.Sprintf(format, a...))
	}
}

// open is the sts.Open of the Bin: an in-memory file, or (small files, every fourth seed) a real
// temporary file.
// wBarrier lets the first read of each of `need` readers wait for the others (bounded).
type wBarrier struct {
	mu   sync.Mutex
	need int
	ch   chan struct{}
}

func (b *wBarrier) arrive() {
	b.mu.Lock()
	b.need--
	if b.need == 0 {
		close(b.ch) // later arrivals (need < 0) find the channel closed
	}
	b.mu.Unlock()
	select {
	case <-b.ch:
	case <-time.After(2 * time.Second):
	}
}

// wBarrierFile: the first Read returns at most half of what was asked for, then waits at the barrier.
type wBarrierFile struct {
	sts.Readable
	b    *wBarrier
	done bool
}

func (f *wBarrierFile) Read(p []byte) (int, error) {
	if !f.done && len(p) > 1 {
		f.done = true
		n, err := f.Readable.Read(p[:(len(p)+1)/2])
		f.b.arrive()
		return n, err
	}
	return f.Readable.Read(p)
}

// freshBin builds another payload with the parts of e.binned, in their order.
func (e *wireExec) freshBin() sts.Payload {
	b := payload.NewBin(1<<40, e.open, func(f sts.File) string {
		if x, ok := f.(*wBinnable); ok {
			return x.p.d.Renamed
		}
		return ""
	})
	for _, p := range e.binned {
		b.Add(&wBinnable{p: p})
	}
	return b
}

func (e *wireExec) open(f sts.File) (sts.Readable, error) {
	r, err := e.openPlain(f)
	if b := e.barrier; err == nil && b != nil {
		// within one request the files are read one after the other, so the first two readers to arrive at the
		// barrier belong to two different requests; later ones pass at once
		return &wBarrierFile{Readable: r, b: b}, nil
	}
	return r, err
}

func (e *wireExec) openPlain(f sts.File) (sts.Readable, error) {
	b, ok := f.(*wBinnable)
	if !ok {
		return nil, fmt.Errorf("not a wire binnable")
	}
	if b.p.flen < 0 {
		return nil, fmt.Errorf("no such file")
	}
	if b.p.flen <= 1<<16 && b.p.seed%4 == 0 {
		fh, err := os.CreateTemp(wTmpDir(), "wire-src-")
		if err != nil {
			return nil, err
		}
		e.tmpFiles = append(e.tmpFiles, fh.Name())
		if _, err = fh.Write(wGenRange(b.p.seed, 0, b.p.flen)); err != nil {
			return nil, err
		}
		if _, err = fh.Seek(0, 0); err != nil {
			return nil, err
		}
		return fh, nil
	}
	return &wMemFile{seed: b.p.seed, flen: b.p.flen}, nil
}

func (e *wireExec) Close() {
	for _, f := range e.tmpFiles {
		os.Remove(f)
	}
	if wireStageRoot != "" {
		for _, d := range e.stageDirs {
			os.RemoveAll(filepath.Join(wireStageRoot, "stage", d))
		}
	}
}
func (e *wireExec) Oracle() []string { f := e.fails; e.fails = nil; return f }
func (e *wireExec) Signature() (bool, string) {
	return e.mainOps >= 1 || e.smallOps >= 2, e.key.String()
}

// partsOk: the hypothesis of encoder_stream — every binned part is a readable range.
func (e *wireExec) partsOk() bool {
	for _, p := range e.binned {
		if p.d.Beg < 0 || p.flen < p.d.End {
			return false
		}
	}
	return len(e.binned) > 0
}

// readEncoder reads the real Encoder through buffers of the given sizes (cyclic), each pre-filled.
func readEncoder(enc io.Reader, sizes []int, fill byte, maxReads int) (out []byte, ns []int, end string) {
	mx := 0
	for _, k := range sizes {
		if k > mx {
			mx = k
		}
	}
	big := make([]byte, mx)
	end = "more"
	defer func() {
		// a panic of the Encoder must not take the harness down (Transmit would run it in a goroutine)
		if p := recover(); p != nil {
			end = "panic"
		}
	}()
	for i := 0; i < maxReads; i++ {
		buf := big[:sizes[i%len(sizes)]]
		for j := range buf {
			buf[j] = fill
		}
		n, err := enc.Read(buf)
		out = append(out, buf[:n]...)
		ns = append(ns, n)
		if err == io.EOF {
			return out, ns, "eof"
		}
		if err != nil {
			return out, ns, "err"
		}
	}
	return
}

// srcOk: the oracle's hypothesis on the source — real: readable ranges (PartsOk); mirror: every
// descriptor is a proper, possibly empty, range.
func (e *wireExec) srcOk(src string) bool {
	if src == "real" {
		return e.partsOk()
	}
	for _, p := range e.all {
		if p.d.Beg < 0 || p.d.End < p.d.Beg {
			return false
		}
	}
	return true
}

func (e *wireExec) totalBinned() int {
	t := 0
	for _, p := range e.binned {
		t += int(p.d.End - p.d.Beg)
	}
	return t
}

// wireOf returns descriptors, header and part bytes of a request for the given source.
func (e *wireExec) wireOf(src string) (ds []wDesc, hdr, parts []byte, ok bool) {
	switch src {
	case "real":
		for _, p := range e.binned {
			ds = append(ds, p.d)
		}
		h, err := e.bin.EncodeHeader()
		if err != nil {
			return nil, nil, nil, false
		}
		hdr = h
		if len(e.binned) > 0 {
			enc := e.bin.GetEncoder()
			parts, _, _ = readEncoder(enc, []int{32768}, 0, e.totalBinned()+len(e.binned)+2)
			enc.Close()
		}
		return ds, hdr, parts, true
	case "mirror":
		for _, p := range e.all {
			ds = append(ds, p.d)
			if p.d.Beg >= 0 && p.d.End > p.d.Beg {
				parts = append(parts, wGenRange(p.seed, p.d.Beg, p.d.End)...)
			}
		}
		return ds, wMirrorHeader(ds), parts, true
	}
	return nil, nil, nil, false
}

// expected slices of the source (what each part must receive when the property holds)
func (e *wireExec) slicesOf(src string) [][]byte {
	var out [][]byte
	ps := e.binned
	if src == "mirror" {
		ps = e.all
	}
	for _, p := range ps {
		if p.d.Beg >= 0 && p.d.End > p.d.Beg {
			out = append(out, wGenRange(p.seed, p.d.Beg, p.d.End))
		} else {
			out = append(out, nil)
		}
	}
	return out
}

func metaLenOf(tok string, hlen int) (string, bool, bool) { // value, present, ok
	switch {
	case tok == "x":
		return strconv.Itoa(hlen), true, true
	case tok == "n":
		return "", false, true
	case strings.HasPrefix(tok, "d"):
		v, err := strconv.ParseInt(tok[1:], 10, 64)
		return strconv.FormatInt(int64(hlen)+v, 10), true, err == nil
	case strings.HasPrefix(tok, "a"):
		v, err := strconv.ParseInt(tok[1:], 10, 64)
		return strconv.FormatInt(v, 10), true, err == nil
	case strings.HasPrefix(tok, "s"):
		return unesc(tok[1:]), true, true
	}
	return "", false, false
}

func parseSepTok(s string) (string, bool) {
	u := unesc(s)
	if len([]rune(u)) > 1 {
		return "", false
	}
	return u, true
}

// realSeg / expectedName: the hypothesis and conclusion of Props/C13 sep_convert.
func expectedName(name, sep string) (string, bool) {
	if sep == "" {
		return name, true
	}
	segs := strings.Split(name, sep)
	for _, s := range segs {
		if s == "" || s == "." || s == ".." || strings.Contains(s, "/") {
			return "", false
		}
	}
	return strings.Join(segs, "/"), true
}

// wSafeRel restates http/server.go isSafeRelPath (Lean: Sts.Wire.safeRel).
func wSafeRel(name string) bool {
	if name == "" || strings.HasPrefix(name, "/") {
		return false
	}
	named := false
	for _, seg := range strings.Split(name, "/") {
		switch seg {
		case "..":
			return false
		case "", ".":
		default:
			named = true
		}
	}
	return named
}

// unsafeNames: the negation of Props/C13 SafeNames for the descriptors of a request — the name and
// the predecessor as the receiver sees them (split on the sender's separator, joined and cleaned),
// the rename target as sent.
func unsafeNames(ds []wDesc, sep string) (bool, string) {
	conv := func(n string) string {
		if sep == "" {
			return n
		}
		return filepath.Join(strings.Split(n, sep)...)
	}
	for _, d := range ds {
		if !wSafeRel(conv(d.Name)) {
			return true, d.Name
		}
		if d.Renamed != "" && !wSafeRel(d.Renamed) {
			return true, d.Renamed
		}
		if c := conv(d.Prev); c != "" && !wSafeRel(c) {
			return true, d.Prev
		}
	}
	return false, ""
}

func (e *wireExec) checkDesc(what string, got wDesc, want wDesc, sep string) {
	if n, ok := expectedName(want.Name, sep); ok && got.Name != n {
		e.fail("descriptor-differs: %s name %q, sent %q (sep %q)", what, got.Name, want.Name, sep)
	}
	if want.Prev != "" {
		if n, ok := expectedName(want.Prev, sep); ok && got.Prev != n {
			e.fail("descriptor-differs: %s prev %q, sent %q (sep %q)", what, got.Prev, want.Prev, sep)
		}
	} else if got.Prev != "" {
		e.fail("descriptor-differs: %s prev %q, sent empty", what, got.Prev)
	}
	ns, nn := want.Sec, want.Nano
	t := time.Unix(ns, nn)
	if got.Renamed != want.Renamed || got.Hash != want.Hash || got.Size != want.Size || got.Beg != want.Beg ||
		got.End != want.End || got.Sec != t.Unix() || got.Nano != int64(t.Nanosecond()) {
		e.fail("descriptor-differs: %s got {%s} sent {%s}", what, got, want)
	}
}

type reqParams struct {
	sep, gk, src   string
	gz             int
	mlTok          string
	cut            int
	broken         bool
	extra, xr      int
	exactML        bool
	mlVal          string
	mlPresent      bool
	ds             []wDesc
	hdr, data      []byte
	fullLen        int
	conformingBody bool
	cutCompressed  bool // putgz: the compressed stream is cut, the header may or may not arrive
}

func (e *wireExec) mkReq(src, ml, cut, endk, extra string) (*reqParams, bool) {
	rp := &reqParams{src: src, mlTok: ml}
	ds, hdr, parts, ok := e.wireOf(src)
	if !ok {
		return nil, false
	}
	rp.ds, rp.hdr = ds, hdr
	rp.mlVal, rp.mlPresent, ok = metaLenOf(ml, len(hdr))
	if !ok {
		return nil, false
	}
	c, err := strconv.Atoi(cut)
	if err != nil {
		return nil, false
	}
	x, err := strconv.Atoi(extra)
	if err != nil || x < 0 {
		return nil, false
	}
	switch endk {
	case "c":
	case "b":
		rp.broken = true
	default:
		return nil, false
	}
	full := append(append(append([]byte{}, hdr...), parts...), bytes.Repeat([]byte{90}, x)...)
	rp.fullLen = len(full)
	rp.data = full
	if c >= 0 && c < len(full) {
		rp.data = full[:c]
	}
	rp.cut, rp.extra = c, x
	rp.exactML = rp.mlPresent && rp.mlVal == strconv.Itoa(len(hdr))
	rp.conformingBody = len(rp.data) >= len(hdr)+len(parts)
	return rp, true
}

// wrongPositiveML: the meta-len header is a positive int (as strconv.Atoi reads it) other than the
// length of the header.
func (rp *reqParams) wrongPositiveML() (int, bool) {
	if !rp.mlPresent {
		return 0, false
	}
	n, err := strconv.Atoi(rp.mlVal)
	return n, err == nil && n > 0 && n != len(rp.hdr)
}

// oracleRequest evaluates C13 on what the real server did with one request.
func (e *wireExec) oracleRequest(op string, rp *reqParams, status string, g *wGK, sepHdr string) {
	if status == "hang" {
		e.fail("header-hang: %s: the request was never answered", op)
		return
	}
	// Props/C13 metalen_mismatch_refused / metalen_oversized_refused / header_cut_refused (S11, repaired
	// by `fix: NewDecoder accepted a metadata length larger than the metadata`): a positive
	// X-STS-MetaLen that is not the length of the header is refused before Prepare — 500, no
	// gatekeeper call — whatever the body.
	if n, wrong := rp.wrongPositiveML(); wrong {
		if g.preps > 0 || len(g.recvs) > 0 || status == "200" || strings.HasPrefix(status, "206") {
			e.fail("metalen-accepted: %s: X-STS-MetaLen %d for a header of %d bytes was answered %s after %d Prepare and %d Receive calls, expected a refusal without effect",
				op, n, len(rp.hdr), status, g.preps, len(g.recvs))
		} else if hasBody := rp.gz >= 0 || len(rp.data) > 0 || rp.broken; hasBody && !rp.cutCompressed && status != "500" {
			e.fail("metalen-accepted: %s: X-STS-MetaLen %d for a header of %d bytes was answered %s, expected 500", op, n, len(rp.hdr), status)
		}
		return
	}
	// Props/C13 unsafe_name_refused: a part whose converted name, raw rename target or converted
	// predecessor fails the data route's confinement check makes the request non-conforming: no
	// gatekeeper call at all, and 400 as soon as the header decodes.
	if bad, which := unsafeNames(rp.ds, sepHdr); bad {
		if g.preps > 0 || len(g.recvs) > 0 {
			e.fail("unsafe-name-accepted: %s: %q reached the gatekeeper (%d Prepare, %d Receive calls)", op, which, g.preps, len(g.recvs))
		}
		hasBody := rp.gz >= 0 || len(rp.data) > 0 || rp.broken
		if rp.exactML && !rp.cutCompressed && len(rp.data) >= len(rp.hdr) && hasBody && status != "400" {
			e.fail("unsafe-name-accepted: %s: request naming %q answered %s, expected 400", op, which, status)
		}
		return
	}
	slices := e.slicesOf(rp.src)
	srcOk := e.srcOk(rp.src)
	kind := "part-bytes-wrong"
	if !rp.exactML {
		kind = "metalen-accepted"
	}
	for j, rc := range g.recvs {
		if n := rc.d.End - rc.d.Beg; int64(len(rc.data)) > n && !(n < 0 && len(rc.data) == 0) {
			e.fail("part-overflow: %s: Receive %d got %d bytes for a range of %d", op, j, len(rc.data), n)
		}
		if !srcOk {
			continue
		}
		if j >= len(rp.ds) {
			e.fail("part-bytes-wrong: %s: Receive %d beyond the %d announced parts", op, j, len(rp.ds))
			continue
		}
		if rp.exactML || rc.err == nil {
			e.checkDesc(fmt.Sprintf("%s Receive %d", op, j), rc.d, rp.ds[j], sepHdr)
		}
		if !bytes.HasPrefix(slices[j], rc.data) && rc.err == nil {
			e.fail("%s: %s: Receive %d (%s %d:%d) was handed bytes that are not the front of its slice and succeeded (meta-len %q, header %d bytes)",
				kind, op, j, esc(rc.d.Name), rc.d.Beg, rc.d.End, rp.mlVal, len(rp.hdr))
		} else if !bytes.HasPrefix(slices[j], rc.data) && rp.exactML {
			e.fail("part-bytes-wrong: %s: Receive %d got bytes of another part", op, j)
		}
		if g.kind == "stage" && rc.err == nil && int64(len(rc.data)) != rc.d.End-rc.d.Beg {
			e.fail("short-part-recorded: %s: stage.Receive %d returned nil after %d of %d bytes", op, j, len(rc.data), rc.d.End-rc.d.Beg)
		}
	}
	if rp.xr > 0 && rp.exactML && rp.conformingBody && status != "400" {
		proper := true
		for _, d := range rp.ds {
			if d.End < d.Beg || d.Beg < 0 {
				proper = false
			}
		}
		if proper && (rp.src == "mirror" || e.partsOk() || len(e.binned) == 0) {
			e.fail("index-overflow-not-refused: %s with %d readers beyond the %d parts answered %s, expected 400", op, rp.xr, len(rp.ds), status)
		}
	}
	if !srcOk {
		return
	}
	if status == "200" {
		if rp.xr > 0 {
			e.fail("index-overflow-accepted: %s answered 200 with %d readers beyond the parts", op, rp.xr)
		}
		if g.kind == "stage" || (rp.exactML && rp.conformingBody) {
			if len(g.recvs) != len(rp.ds) {
				e.fail("%s: %s answered 200 after %d Receive calls for %d parts", kind, op, len(g.recvs), len(rp.ds))
			}
			for j, rc := range g.recvs {
				if j < len(slices) && !bytes.Equal(slices[j], rc.data) {
					e.fail("%s: %s answered 200 but Receive %d got %d of %d bytes or other bytes", kind, op, j, len(rc.data), len(slices[j]))
				}
			}
		}
		if g.preps == 1 && rp.exactML {
			if len(g.prep) != len(rp.ds) {
				e.fail("descriptor-differs: %s Prepare saw %d parts, sent %d", op, len(g.prep), len(rp.ds))
			} else {
				for j := range g.prep {
					e.checkDesc(fmt.Sprintf("%s Prepare %d", op, j), g.prep[j], rp.ds[j], sepHdr)
				}
			}
		}
	}
	if strings.HasPrefix(status, "206:") && g.kind == "stage" && rp.exactML {
		k, _ := strconv.Atoi(status[4:])
		if len(g.recvs) != k+1 {
			e.fail("partial-count-wrong: %s answered %s after %d Receive calls", op, status, len(g.recvs))
		}
		for j := 0; j < k && j < len(g.recvs) && j < len(slices); j++ {
			if !bytes.Equal(slices[j], g.recvs[j].data) {
				e.fail("partial-count-wrong: %s answered %s but part %d is not complete", op, status, j)
			}
		}
	}
	if rp.exactML && rp.conformingBody && rp.xr == 0 && status != "200" && !strings.HasPrefix(status, "panic") {
		neg := false
		for _, d := range rp.ds {
			if d.End < d.Beg || (g.kind == "stage" && d.Beg < 0) {
				neg = true
			}
		}
		if !neg {
			e.fail("roundtrip-refused: %s: conforming request answered %s", op, status)
		}
	}
}

func fmtRecvs(g *wGK) string {
	var b strings.Builder
	for _, rc := range g.recvs {
		fmt.Fprintf(&b, " | %s len=%d sum=%d", rc.d, len(rc.data), wCksum(rc.data))
	}
	return b.String()
}

func statusString(code int, count string) string {
	switch code {
	case -1:
		return "panic"
	case 206:
		return "206:" + count
	default:
		return strconv.Itoa(code)
	}
}

func (e *wireExec) newGK(kind string) (*wGK, string) {
	wireCounter++
	src := fmt.Sprintf("v%d", wireCounter)
	g := &wGK{kind: kind, prefix: fmt.Sprintf("c%d", wireCounter), done: make(chan struct{}, 1)}
	if kind == "stage" {
		e.stageDirs = append(e.stageDirs, g.prefix)
	}
	wireGKs.Store(src, g)
	return g, src
}

// rawPut sends one PUT over a plain TCP connection so that the body can end early with or without
// the announced Content-Length being met; returns the status string.
func rawPut(ts *httptest.Server, hdrs [][2]string, body []byte, broken bool, g *wGK) string {
	u, _ := url.Parse(ts.URL)
	conn, err := net.DialTimeout("tcp", u.Host, 5*time.Second)
	if err != nil {
		return "dial-error"
	}
	defer conn.Close()
	cl := len(body)
	if broken {
		cl++
	}
	var req bytes.Buffer
	fmt.Fprintf(&req, "PUT /data?v=1 HTTP/1.1\r\nHost: %s\r\nContent-Length: %d\r\nConnection: close\r\n", u.Host, cl)
	for _, h := range hdrs {
		fmt.Fprintf(&req, "%s: %s\r\n", h[0], h[1])
	}
	req.WriteString("\r\n")
	req.Write(body)
	conn.SetDeadline(time.Now().Add(20 * time.Second))
	go func() {
		conn.Write(req.Bytes())
		if tc, ok := conn.(*net.TCPConn); ok {
			tc.CloseWrite()
		}
	}()
	// wait for the handler; a request that is never answered is a hang
	select {
	case <-g.done:
	case <-time.After(10 * time.Second):
		return "hang"
	}
	g.mu.Lock()
	code, count := g.status, g.count
	g.mu.Unlock()
	if code == -1 {
		return "panic"
	}
	resp, err := http.ReadResponse(bufio.NewReader(conn), nil)
	if err != nil {
		return "no-response"
	}
	resp.Body.Close()
	if resp.StatusCode != code {
		return fmt.Sprintf("status-mismatch-%d-%d", resp.StatusCode, code)
	}
	if resp.StatusCode == 206 {
		count = resp.Header.Get(stshttp.HeaderPartCount)
	}
	return statusString(resp.StatusCode, count)
}

func gzipBytes(data []byte, level int) []byte {
	var b bytes.Buffer
	w, err := gzip.NewWriterLevel(&b, level)
	if err != nil {
		return nil
	}
	w.Write(data)
	w.Close()
	return b.Bytes()
}

func (e *wireExec) Do(op []string) string {
	e.key.WriteString(strings.Join(op, " "))
	e.key.WriteByte(';')
	atoi := func(s string) (int64, bool) {
		v, err := strconv.ParseInt(s, 10, 64)
		return v, err == nil
	}
	switch {
	case op[0] == "part" && len(op) == 12:
		var v [7]int64
		for i := 0; i < 7; i++ {
			x, ok := atoi(op[5+i])
			if !ok {
				return "bad-op"
			}
			v[i] = x
		}
		if v[6] < 0 {
			return "bad-op"
		}
		p := wPart{wDesc{unesc(op[1]), unesc(op[2]), unesc(op[3]), unesc(op[4]), v[0], v[1], v[2], v[3], v[4]}, v[5], v[6]}
		e.all = append(e.all, p)
		if e.bin.Add(&wBinnable{p: p}) {
			e.binned = append(e.binned, p)
			return fmt.Sprintf("ok %d", e.bin.GetSize())
		}
		return "refused"

	case op[0] == "remove" && len(op) == 2:
		// payload.Bin.Remove of the I-th part (a file that changed while the payload waited for its retry): the
		// last part takes its place
		i, ok := atoi(op[1])
		if !ok || i < 0 || int(i) >= len(e.binned) {
			return "bad-op"
		}
		ps := e.bin.GetParts()
		if len(ps) != len(e.binned) {
			e.fail("bin-parts: the bin holds %d parts, %d were added and not removed", len(ps), len(e.binned))
			return "err"
		}
		e.bin.(interface{ Remove(sts.Binned) }).Remove(ps[i])
		n := len(e.binned)
		e.binned[i] = e.binned[n-1]
		e.binned = e.binned[:n-1]
		e.mutated = true
		return fmt.Sprintf("ok %d", e.bin.GetSize())

	case op[0] == "split" && len(op) == 2:
		// payload.Bin.Split(N) after a partial answer: the parts from position N on form the next payload
		nn, ok := atoi(op[1])
		if !ok {
			return "bad-op"
		}
		next := e.bin.Split(int(nn))
		if next == nil {
			if nn >= 1 && int(nn) < len(e.binned) {
				e.fail("bin-split: Split(%d) of %d parts returned nil", nn, len(e.binned))
			}
			return "nil"
		}
		if nn < 1 || int(nn) >= len(e.binned) {
			e.fail("bin-split: Split(%d) of %d parts returned a payload", nn, len(e.binned))
			return "err"
		}
		e.bin = next
		e.binned = append([]wPart(nil), e.binned[nn:]...)
		e.mutated = true
		return fmt.Sprintf("ok %d", e.bin.GetSize())

	case op[0] == "hdr" && len(op) == 1:
		h, err := e.bin.EncodeHeader()
		if err != nil {
			return "err"
		}
		return fmt.Sprintf("len=%d sum=%d", len(h), wCksum(h))

	case op[0] == "enc" && len(op) >= 3:
		fill, ok := atoi(op[1])
		if !ok || fill < 0 || fill > 255 {
			return "bad-op"
		}
		var sizes []int
		for _, s := range op[2:] {
			k, ok := atoi(s)
			if !ok || k < 0 || k > 1<<24 {
				return "bad-op"
			}
			sizes = append(sizes, int(k))
		}
		if len(e.binned) == 0 {
			return "noparts"
		}
		enc := e.bin.GetEncoder()
		out, ns, end := readEncoder(enc, sizes, byte(fill), e.totalBinned()+len(e.binned)+2)
		enc.Close()
		e.mainOps++
		// oracle: Props/C13 encoder_stream
		positive := true
		for _, k := range sizes {
			if k == 0 {
				positive = false
			}
		}
		if end == "panic" {
			e.fail("encoder-panic: enc %v: Encoder.Read panicked after %d bytes", sizes, len(out))
		}
		if e.partsOk() && positive {
			sl := e.slicesOf("real")
			want := bytes.Join(sl, nil)
			if end != "eof" || !bytes.Equal(out, want) {
				e.fail("encoder-stream-wrong: enc %v: %d bytes end=%s, expected the %d bytes of the slices", sizes, len(out), end, len(want))
			} else {
				// no read crosses a part boundary
				pi, off, pos := 0, 0, 0
				for _, n := range ns {
					for pi < len(sl) && off == len(sl[pi]) {
						pi, off = pi+1, 0
					}
					if pi < len(sl) && n > len(sl[pi])-off {
						e.fail("encoder-crosses-part: enc %v: a read of %d bytes at stream offset %d spans two parts", sizes, n, pos)
						break
					}
					off += n
					pos += n
				}
			}
		}
		return fmt.Sprintf("n=%d sum=%d reads=%d rsum=%d end=%s", len(out), wCksum(out), len(ns), wCksumN(ns), end)

	case op[0] == "decx" && len(op) >= 9:
		sep, ok := parseSepTok(op[1])
		if !ok {
			return "bad-op"
		}
		rp, ok := e.mkReq(op[6], op[2], op[3], op[4], op[5])
		if !ok {
			return "bad-op"
		}
		chunk, ok := atoi(op[7])
		if !ok || chunk < 0 {
			return "bad-op"
		}
		var sizes []int
		for _, s := range op[8:] {
			k, ok := atoi(s)
			if !ok || k < 0 || k > 1<<24 {
				return "bad-op"
			}
			sizes = append(sizes, int(k))
		}
		n, err := strconv.Atoi(rp.mlVal)
		if err != nil || !rp.mlPresent {
			return "bad-op"
		}
		st := &wStream{data: rp.data, chunk: int(chunk), broken: rp.broken}
		type res struct {
			d   sts.PayloadDecoder
			err error
		}
		ch := make(chan res, 1)
		go func() {
			d, err := payload.NewDecoder(n, sep, st)
			ch <- res{d, err}
		}()
		var dec sts.PayloadDecoder
		select {
		case r := <-ch:
			if r.err != nil {
				return "fail"
			}
			dec = r.d
		case <-time.After(10 * time.Second):
			e.fail("header-hang: decx: NewDecoder(%d) never returned for a body of %d bytes (header %d bytes)", n, len(rp.data), len(rp.hdr))
			return "hang"
		}
		e.mainOps++
		if _, wrong := rp.wrongPositiveML(); wrong {
			e.fail("metalen-accepted: decx: NewDecoder(%d) returned no error for a header of %d bytes (body %d bytes)", n, len(rp.hdr), len(rp.data))
		}
		parts := dec.GetParts()
		slices := e.slicesOf(rp.src)
		srcOk := e.srcOk(rp.src)
		var b strings.Builder
		fmt.Fprintf(&b, "ok n=%d", len(parts))
		for j := 0; ; j++ {
			rd, eof := dec.Next()
			if eof {
				break
			}
			if j >= len(parts) {
				return b.String() + " | overflow"
			}
			d := descOfBinned(parts[j])
			var data []byte
			end := "more"
			func() {
				defer func() {
					if p := recover(); p != nil {
						end = "panic"
					}
				}()
				lim := int(d.End-d.Beg) + 2
				if lim < 2 {
					lim = 2
				}
				for i := 0; i < lim; i++ {
					buf := make([]byte, sizes[i%len(sizes)])
					k, err := rd.Read(buf)
					data = append(data, buf[:k]...)
					if err == io.EOF {
						end = "eof"
						return
					}
					if err != nil {
						end = "err"
						return
					}
				}
			}()
			fmt.Fprintf(&b, " | %s len=%d sum=%d end=%s", d, len(data), wCksum(data), end)
			// oracle: part_never_exceeds, decoder_splits, descriptors
			if int64(len(data)) > d.End-d.Beg && d.End >= d.Beg {
				e.fail("part-overflow: decx part %d returned %d bytes for a range of %d", j, len(data), d.End-d.Beg)
			}
			if srcOk && j < len(slices) {
				if rp.exactML {
					e.checkDesc(fmt.Sprintf("decx part %d", j), d, rp.ds[j], sep)
					if !bytes.HasPrefix(slices[j], data) {
						e.fail("part-bytes-wrong: decx part %d returned bytes that are not the front of its slice", j)
					}
					if rp.conformingBody && (end != "eof" || !bytes.Equal(slices[j], data)) && d.End >= d.Beg {
						e.fail("part-bytes-wrong: decx part %d of a complete body: %d of %d bytes, end=%s", j, len(data), len(slices[j]), end)
					}
				} else if end == "eof" && int64(len(data)) == d.End-d.Beg && !bytes.Equal(slices[j], data) {
					e.fail("metalen-accepted: decx: part %d (%s %d:%d) read to a proper EOF with bytes that are not its slice (meta-len %q, header %d bytes)",
						j, esc(d.Name), d.Beg, d.End, rp.mlVal, len(rp.hdr))
				}
			}
			if end != "eof" {
				break
			}
		}
		return b.String()

	case op[0] == "put" && len(op) == 10:
		gk := op[1]
		if gk != "stub" && gk != "stage" {
			return "bad-op"
		}
		sep, ok := parseSepTok(op[2])
		if !ok {
			return "bad-op"
		}
		gz, ok := atoi(op[3])
		if !ok || gz < -1 || gz > 9 {
			return "bad-op"
		}
		rp, ok := e.mkReq(op[9], op[4], op[5], op[6], op[7])
		if !ok {
			return "bad-op"
		}
		xr, ok := atoi(op[8])
		if !ok || xr < 0 {
			return "bad-op"
		}
		rp.xr, rp.gk, rp.sep, rp.gz = int(xr), gk, sep, int(gz)
		ts := wireServer()
		g, src := e.newGK(gk)
		hdrs := [][2]string{{stshttp.HeaderSourceName, src}}
		if rp.mlPresent {
			hdrs = append(hdrs, [2]string{stshttp.HeaderMetaLen, rp.mlVal})
		}
		if sep != "" {
			hdrs = append(hdrs, [2]string{stshttp.HeaderSep, sep})
		}
		body := rp.data
		if gz >= 0 {
			body = gzipBytes(rp.data, int(gz))
			hdrs = append(hdrs, [2]string{stshttp.HeaderContentEncoding, stshttp.HeaderGzip})
		}
		wireXR = rp.xr
		status := rawPut(ts, hdrs, body, rp.broken, g)
		wireXR = 0
		e.mainOps++
		g.mu.Lock()
		defer g.mu.Unlock()
		prep := "-"
		if g.preps > 0 {
			prep = strconv.Itoa(len(g.prep))
		}
		e.oracleRequest("put", rp, status, g, sep)
		ans := fmt.Sprintf("status=%s prep=%s%s", status, prep, fmtRecvs(g))
		wireGKs.Delete(src)
		g.recvs, g.prep = nil, nil
		return ans

	case op[0] == "putgz" && len(op) == 4:
		level, ok1 := atoi(op[1])
		num, ok2 := atoi(op[2])
		den, ok3 := atoi(op[3])
		if !ok1 || !ok2 || !ok3 || level < 0 || level > 9 || den <= 0 || num < 0 || num > den {
			return "bad-op"
		}
		if len(e.binned) == 0 {
			return "unmodelled"
		}
		rp, ok := e.mkReq("real", "x", "-1", "c", "0")
		if !ok {
			return "bad-op"
		}
		rp.gk, rp.sep, rp.gz = "stage", "/", int(level)
		ts := wireServer()
		g, src := e.newGK("stage")
		z := gzipBytes(rp.data, int(level))
		z = z[:int(int64(len(z))*num/den)]
		hdrs := [][2]string{{stshttp.HeaderSourceName, src}, {stshttp.HeaderMetaLen, rp.mlVal}, {stshttp.HeaderSep, "/"},
			{stshttp.HeaderContentEncoding, stshttp.HeaderGzip}}
		status := rawPut(ts, hdrs, z, false, g)
		e.mainOps++
		g.mu.Lock()
		defer g.mu.Unlock()
		// the stream may be cut anywhere: only the unconditional clauses of the oracle apply
		rp.conformingBody = false
		rp.cutCompressed = true
		e.oracleRequest("putgz", rp, status, g, "/")
		wireGKs.Delete(src)
		g.recvs, g.prep = nil, nil
		return "unmodelled"

	case op[0] == "http2" && len(op) == 2:
		// two overlapping calls of Transmit on ONE http.Client (main hands one client to all sender threads)
		level, ok := atoi(op[1])
		if !ok || level < 0 || level > 9 {
			return "bad-op"
		}
		if len(e.binned) == 0 {
			return "noparts"
		}
		if !e.partsOk() {
			return "skip"
		}
		ts := wireServer()
		u, _ := url.Parse(ts.URL)
		port, _ := strconv.Atoi(u.Port())
		g, src := e.newGK("stub")
		cl := &stshttp.Client{SourceName: src, TargetHost: u.Hostname(), TargetPort: port, Compression: int(level),
			Timeout: 20 * time.Second, Protocol: stshttp.ProtocolHTTP1}
		// a sequential request first: only payloads that one request delivers completely are tried in parallel
		// (names the receiver refuses etc. are the subject of the `http` op)
		if n0, err0 := cl.Transmit(e.freshBin()); err0 != nil || n0 != len(e.binned) {
			cl.Destroy()
			wireGKs.Delete(src)
			return "skip"
		}
		// two payloads of their own (a payload is owned by one sender thread; the CLIENT is what the threads share);
		// both requests have read their first bytes before either goes on (2 s at most)
		bins := [2]sts.Payload{e.freshBin(), e.freshBin()}
		e.barrier = &wBarrier{need: 2, ch: make(chan struct{})}
		var wg sync.WaitGroup
		var ns [2]int
		var errs [2]error
		for i := 0; i < 2; i++ {
			wg.Add(1)
			go func(i int) {
				defer wg.Done()
				ns[i], errs[i] = cl.Transmit(bins[i])
			}(i)
		}
		wg.Wait()
		e.barrier = nil
		cl.Destroy()
		time.Sleep(20 * time.Millisecond)
		e.mainOps++
		wireGKs.Delete(src)
		g.mu.Lock()
		g.recvs, g.prep = nil, nil
		g.mu.Unlock()
		var parts []string
		for i := 0; i < 2; i++ {
			es := "ok"
			if errs[i] != nil {
				es = "err"
			}
			if ns[i] != len(e.binned) || errs[i] != nil {
				e.fail("concurrent-transmit: two overlapping Transmit calls of one client (compression %d) for a conforming payload of %d parts: call %d returned n=%d err=%v",
					level, len(e.binned), i, ns[i], errs[i])
			}
			parts = append(parts, fmt.Sprintf("n=%d %s", ns[i], es))
		}
		return strings.Join(parts, " ")

	case op[0] == "http" && len(op) == 3:
		gk := op[1]
		if gk != "stub" && gk != "stage" {
			return "bad-op"
		}
		level, ok := atoi(op[2])
		if !ok || level < 0 || level > 9 {
			return "bad-op"
		}
		if len(e.binned) == 0 {
			return "noparts"
		}
		for _, p := range e.binned {
			if p.flen >= 0 && p.flen < p.d.End {
				return "skip-short" // the tail of a short read is the previous content of io.Copy's buffer
			}
		}
		// dry run in this goroutine: Transmit reads the Encoder in a goroutine of its own
		pre := e.bin.GetEncoder()
		_, _, pend := readEncoder(pre, []int{32768}, 0, e.totalBinned()+len(e.binned)+2)
		pre.Close()
		if pend == "panic" {
			e.fail("encoder-panic: http: Encoder.Read panicked when read through 32 KiB buffers")
			return "panic"
		}
		ts := wireServer()
		u, _ := url.Parse(ts.URL)
		port, _ := strconv.Atoi(u.Port())
		g, src := e.newGK(gk)
		cl := &stshttp.Client{SourceName: src, TargetHost: u.Hostname(), TargetPort: port, Compression: int(level),
			Timeout: 20 * time.Second, Protocol: stshttp.ProtocolHTTP1}
		n, err := cl.Transmit(e.bin)
		cl.Destroy()
		select {
		case <-g.done:
		case <-time.After(10 * time.Second):
		}
		e.mainOps++
		g.mu.Lock()
		defer g.mu.Unlock()
		status := statusString(g.status, g.count)
		rp, _ := e.mkReq("real", "x", "-1", "c", "0")
		rp.gk, rp.sep, rp.gz = gk, "/", int(level)
		// what the sender could put on the wire: an unopenable file ends the body early
		rp.conformingBody = e.partsOk()
		e.oracleRequest("http", rp, status, g, "/")
		es := "ok"
		if err != nil {
			es = "err"
		}
		// oracle: what Transmit reports must be what the server answered
		if status == "200" && (err != nil || n != len(e.binned)) {
			e.fail("transmit-result-wrong: server answered 200, Transmit returned n=%d err=%v", n, err)
		}
		if strings.HasPrefix(status, "206:") && (err == nil || strconv.Itoa(n) != status[4:]) {
			e.fail("transmit-result-wrong: server answered %s, Transmit returned n=%d err=%v", status, n, err)
		}
		if status != "200" && !strings.HasPrefix(status, "206:") && (err == nil || n != 0) {
			// a refusal (400, 403, 500, 503, ...) acknowledges nothing: handleSendError takes n > 0 as the receiver's count
			// of recorded parts, skips the recovery question and hands the parts to the tracker as transmitted
			e.fail("transmit-result-wrong: server answered %s, Transmit returned n=%d err=%v (a refused request acknowledges no part)", status, n, err)
		}
		prep := "-"
		if g.preps > 0 {
			prep = strconv.Itoa(len(g.prep))
		}
		ans := fmt.Sprintf("n=%d %s status=%s prep=%s%s", n, es, status, prep, fmtRecvs(g))
		wireGKs.Delete(src)
		g.recvs, g.prep = nil, nil
		return ans

	case op[0] == "recv" && len(op) == 5:
		beg, ok1 := atoi(op[1])
		end, ok2 := atoi(op[2])
		n, ok3 := atoi(op[3])
		if !ok1 || !ok2 || !ok3 || n < 0 || (op[4] != "c" && op[4] != "b") {
			return "bad-op"
		}
		wireCounter++
		name := fmt.Sprintf("r%d/f", wireCounter)
		e.stageDirs = append(e.stageDirs, fmt.Sprintf("r%d", wireCounter))
		file := &sts.Partial{Name: name, Hash: "h", Size: end + 1, Source: "verif",
			Parts: []*sts.ByteRange{{Beg: beg, End: end}}}
		st := wireStage()
		st.Prepare([]sts.Binned{wPrefixed{&wBinnedDesc{wDesc{name, "", "", "h", 0, 0, end + 1, beg, end}}, name}})
		var got int
		var err error
		func() {
			defer func() {
				if p := recover(); p != nil {
					got = -1
				}
			}()
			rd := &wStream{data: wGenRange(5, 0, n), broken: op[4] == "b"}
			cnt := &countReader{r: rd}
			err = st.Receive(file, cnt)
			got = cnt.n
		}()
		e.smallOps++
		if got < 0 {
			return "panic"
		}
		if err != nil {
			return "err"
		}
		// oracle: F5 — success implies the whole range arrived
		if int64(got) != end-beg {
			e.fail("short-part-recorded: recv: stage.Receive returned nil for range %d:%d after %d bytes", beg, end, got)
		}
		return fmt.Sprintf("ok %d", got)

	case op[0] == "nano" && len(op) == 2:
		s := unesc(op[1])
		js, _ := json.Marshal(s)
		var t marshal.NanoTime
		e.smallOps++
		if err := t.UnmarshalJSON(js); err != nil {
			return "err"
		}
		// time.Unix normalises the nanoseconds into the seconds in int64 arithmetic: when that sum leaves the int64
		// range (seconds within a few million of the int64 limits: year 292 billion) it wraps; the model's seconds are
		// unbounded integers and such times are outside the round trip's hypothesis (nano_roundtrip): not compared
		if ps := strings.Split(s, "+"); len(ps) == 2 {
			a, ok1 := new(big.Int).SetString(ps[0], 10)
			b, ok2 := new(big.Int).SetString(ps[1], 10)
			if ok1 && ok2 {
				q := new(big.Int).Div(b, big.NewInt(1000000000)) // floor division, as the normalisation does
				sum := new(big.Int).Add(a, q)
				if !sum.IsInt64() {
					return "skip"
				}
			}
		}
		return fmt.Sprintf("ok %d %d", t.Unix(), t.Nanosecond())

	case op[0] == "nanoenc" && len(op) == 3:
		sec, ok1 := atoi(op[1])
		nano, ok2 := atoi(op[2])
		if !ok1 || !ok2 {
			return "bad-op"
		}
		t := marshal.NanoTime{Time: time.Unix(sec, nano)}
		js, err := t.MarshalJSON()
		if err != nil {
			return "err"
		}
		var s string
		if err := json.Unmarshal(js, &s); err != nil {
			return "err"
		}
		e.smallOps++
		// oracle: Props/C13 nano_roundtrip
		var back marshal.NanoTime
		if err := back.UnmarshalJSON(js); err != nil || !back.Time.Equal(t.Time) || back.Unix() != t.Unix() || back.Nanosecond() != t.Nanosecond() {
			e.fail("nano-roundtrip: %d+%d encoded as %s decodes to %v (err %v)", sec, nano, js, back.Time, err)
		}
		return esc(s)

	case op[0] == "sep" && len(op) == 3:
		sep := unesc(op[1])
		if len([]rune(sep)) != 1 {
			return "bad-op"
		}
		name := unesc(op[2])
		hdr := wMirrorHeader([]wDesc{{Name: name, Prev: name, Renamed: name}})
		dec, err := payload.NewDecoder(len(hdr), sep, &wStream{data: hdr})
		if err != nil || len(dec.GetParts()) != 1 {
			return "err"
		}
		e.smallOps++
		p := dec.GetParts()[0]
		// oracle: Props/C13 sep_convert; Renamed is left alone, Prev is converted like Name
		if want, ok := expectedName(name, sep); ok && p.GetName() != want {
			e.fail("sep-convert: %q with separator %q became %q, expected %q", name, sep, p.GetName(), want)
		}
		if p.GetPrev() != p.GetName() || p.GetRenamed() != name {
			e.fail("sep-convert: prev %q / renamed %q inconsistent with name %q", p.GetPrev(), p.GetRenamed(), p.GetName())
		}
		return esc(p.GetName())
	}
	return "bad-op"
}

type countReader struct {
	r io.Reader
	n int
}

func (c *countReader) Read(p []byte) (int, error) {
	n, err := c.r.Read(p)
	c.n += n
	return n, err
}

// wBinnedDesc is a sts.Binned over a descriptor (for Prepare in the recv op).
type wBinnedDesc struct{ d wDesc }

func (b *wBinnedDesc) GetName() string          { return b.d.Name }
func (b *wBinnedDesc) GetRenamed() string       { return b.d.Renamed }
func (b *wBinnedDesc) GetPrev() string          { return b.d.Prev }
func (b *wBinnedDesc) GetFileTime() time.Time   { return time.Unix(b.d.Sec, b.d.Nano) }
func (b *wBinnedDesc) GetFileHash() string      { return b.d.Hash }
func (b *wBinnedDesc) GetFileSize() int64       { return b.d.Size }
func (b *wBinnedDesc) GetSendSize() int64       { return b.d.Size }
func (b *wBinnedDesc) GetSlice() (int64, int64) { return b.d.Beg, b.d.End }

func (wireComp) AnswerClass(op []string, ans string) string {
	f := strings.Fields(ans)
	if len(f) == 0 {
		return op[0] + ":empty"
	}
	switch op[0] {
	case "part":
		return "part:" + f[0]
	case "hdr":
		return "hdr"
	case "enc":
		return "enc:" + f[len(f)-1]
	case "decx":
		if f[0] != "ok" {
			return "decx:" + f[0]
		}
		last := f[len(f)-1]
		if !strings.HasPrefix(last, "end=") {
			last = "noparts"
		}
		return "decx:ok:" + last
	case "put", "http":
		for _, x := range f {
			if strings.HasPrefix(x, "status=") {
				s := x[7:]
				if strings.HasPrefix(s, "206:") {
					s = "206"
				}
				if op[0] == "put" {
					return "put:" + op[1] + ":" + s
				}
				return "http:" + op[1] + ":" + s
			}
		}
		return op[0] + ":" + f[0]
	case "nano", "recv":
		return op[0] + ":" + f[0]
	}
	return op[0]
}

// ---------------------------------------------------------------- corpus and generator

func wPartLine(name, renamed, prev, hash string, sec, nano, size, beg, end, flen, seed int64) string {
	return fmt.Sprintf("part %s %s %s %s %d %d %d %d %d %d %d", esc(name), esc(renamed), esc(prev), esc(hash),
		sec, nano, size, beg, end, flen, seed)
}

func (wireComp) Corpus() [][]string {
	two := []string{
		wPartLine("a/b", "", "", "h1", 5, 7, 10, 0, 4, 10, 3),
		wPartLine("c d", "", "a/b", "h2", -5, 999999999, 10, 2, 5, 10, 9),
	}
	with := func(base []string, ops ...string) []string { return append(append([]string{}, base...), ops...) }
	return [][]string{
		// conforming round trips: in memory, over HTTP (plain / gzip), real Transmit
		with(two, "hdr", "enc 0 3 1", "enc 238 64", "decx / x -1 c 0 real 0 2", "decx / x -1 c 0 real 1 5 3",
			"put stub / -1 x -1 c 0 0 real", "put stage / 6 x -1 c 0 0 real", "http stub 0", "http stage 9", "http stub 1",
			"http2 0", "http2 6", "http2 9", "http2 10"),
		// the retry path: encoded once, a part removed (the last takes its place) / split, encoded and sent again
		with(append(append([]string{}, two...), wPartLine("e", "", "c d", "h3", 1, 2, 30, 0, 30, 30, 5)),
			"hdr", "http stub 0", "remove 0", "hdr", "decx / x -1 c 0 real 0 64", "put stub / -1 x -1 c 0 0 real", "http stub 0",
			"split 1", "hdr", "decx / x -1 c 0 real 0 64", "http stage 6", "split 1", "split 0", "remove 5"),
		// F5: a body that ends early and cleanly — truncated request over HTTP and a short reader directly
		with(two, "put stage / -1 x 144 c 0 0 real", "put stage / -1 x 146 b 0 0 real", "put stage / 5 x 144 c 0 0 real",
			"recv 0 4 2 c", "recv 0 4 4 c", "recv 0 4 2 b", "recv 3 9 0 c"),
		// the header pipe: truncated header, meta-len smaller than the header (hung before the repair)
		with(two, "decx / x 100 c 0 real 0 4", "decx / d-3 -1 c 0 real 0 4", "put stub / -1 x 100 c 0 0 real",
			"put stub / -1 d-3 -1 c 0 0 real", "put stub / -1 x 0 b 0 0 real", "decx / a0 30 c 0 real 0 4"),
		// refusals: meta-len not a number / absent, no body, garbage, index overflow, negative range (panic)
		with(two, "put stub / -1 sabc -1 c 0 0 real", "put stub / -1 n -1 c 0 0 real", "put stub / -1 s1.5 -1 c 0 0 real",
			"put stub / -1 x 0 c 0 0 real", "put stub / -1 x -1 c 0 2 real", "put stage / -1 x -1 c 0 1 real",
			"put stub / -1 a3 -1 c 0 0 real", "put stub / -1 x -1 c 7 0 real"),
		{wPartLine("neg", "", "", "h", 1, 1, 10, 5, 3, 10, 1), wPartLine("ok", "", "", "h", 1, 1, 10, 0, 3, 10, 2),
			"put stub / -1 x -1 c 0 0 mirror", "decx / x -1 c 0 mirror 0 4", "put stub / -1 x -1 c 0 0 real"},
		{wPartLine("zero", "", "", "h", 1, 1, 10, 4, 4, 10, 1), wPartLine("ok", "", "", "h", 1, 1, 10, 0, 3, 10, 2),
			"put stage / -1 x -1 c 0 0 mirror", "decx / x -1 c 0 mirror 0 4", "put stage / -1 x 120 c 0 0 mirror"},
		// the sender's file is shorter than the range / cannot be opened: the stream comes short
		{wPartLine("short", "", "", "h", 1, 1, 10, 0, 6, 3, 1), wPartLine("next", "", "short", "h", 1, 1, 4, 0, 2, 4, 2),
			"enc 238 4", "enc 238 2", "decx / x -1 c 0 real 0 4", "put stage / -1 x -1 c 0 0 real", "http stub 0"},
		{wPartLine("gone", "", "", "h", 1, 1, 10, 0, 6, -1, 1), "enc 0 4", "http stage 0"},
		{wPartLine("a", "", "", "h", 1, 1, 10, 0, 6, 10, 1), wPartLine("gone", "", "", "h", 1, 1, 10, 0, 6, -1, 1), "enc 0 4", "http stage 3"},
		// a zero-length read skips a part (outside the theorem's hypothesis; model has the same quirk)
		with(two, "enc 0 0 4"),
		// separators and unclean names
		{wPartLine(`d\e\f g`, `x\y`, `d\e\prev`, "h", 1700000000, 123456789, 9, 1, 8, 9, 7),
			`decx %5c x -1 c 0 real 0 3`, `put stub %5c 3 x -1 c 0 0 real`, "put stub - -1 x -1 c 0 0 real", "put stage %5c -1 x -1 c 0 0 real"},
		{wPartLine("a//b/./c/../d/", "", "/abs/../x", "h<&>\"\\\n\t é", 0, 0, 3, 0, 3, 3, 7),
			"hdr", "decx / x -1 c 0 real 0 3", "put stub / -1 x -1 c 0 0 real", "http stub 4"},
		{"sep / a//b/./c/../d/", "sep %5c a%5cb%5c%5cc", "sep %5c /etc/x%5cy", "sep / ../../x", "sep / -", "sep %5c x/y%5cz",
			"nano 12+034", "nano 1+2+3", "nano 1.5", "nano -", "nano -5+-7", "nano +5+3", "nano 9223372036854775808+0",
			"nano 1_0+0", "nanoenc -1 -1", "nanoenc 1700000000 999999999", "nanoenc 0 0", "nanoenc 5 1500000000"},
		// names that would leave the receiver's directories: 400, no Prepare / Receive
		{wPartLine("trailing/", `a\..\b`, "..", "h", 1, 2, 9, 0, 3, 9, 1), "http stub 5", "put stub / -1 x -1 c 0 0 real", "put stage / 6 x -1 c 0 0 real",
			"put stub %5c -1 x -1 c 0 0 real", "decx / x -1 c 0 real 0 3"},
		{wPartLine("ok", "", "", "h", 1, 2, 9, 0, 3, 9, 1), wPartLine("../up", "", "ok", "h", 1, 2, 9, 0, 3, 9, 2),
			"put stage / -1 x -1 c 0 0 real", "http stage 0", "put stub / -1 x 50 c 0 0 real", "put stub / -1 d2 -1 c 0 0 real"},
		{wPartLine("", "", "", "h", 1, 2, 9, 0, 3, 9, 1), "put stub / -1 x -1 c 0 0 real", "put stub - -1 x -1 c 0 0 real", "http stub 0"},
		{wPartLine("a", "/abs", "", "h", 1, 2, 9, 0, 3, 9, 1), "put stub / -1 x -1 c 0 0 real", "http stub 2"},
		{wPartLine("a/../b", "", "./.", "h", 1, 2, 9, 0, 3, 9, 1), "put stub / -1 x -1 c 0 0 real", "put stub - -1 x -1 c 0 0 real", `put stub %5c -1 x -1 c 0 0 real`},
		// meta-len <= 0: the whole body is taken as header (206 with count 0 since the Receive repair)
		with(two, "put stage / -1 a0 -1 c 0 0 real", "put stub / -1 a0 -1 c 0 0 real", "put stage / -1 a-5 -1 c 0 0 real",
			"decx / a0 -1 c 0 real 0 4"),
		// S11 (repaired by `fix: NewDecoder accepted a metadata length larger than the metadata`): meta-len
		// larger than the header shifted every part (206 with count 1, 200 with two trailing bytes); the
		// first three ops of the second line are the recorded witness
		with(two, "put stage / -1 d2 -1 c 0 0 real", "put stage / -1 d2 -1 c 2 0 real", "decx / d2 -1 c 2 real 0 4",
			"put stage / -1 d500 -1 c 0 0 real", "put stub / -1 d1 -1 c 0 0 real", "put stage / 6 d2 -1 c 2 0 real",
			"decx / d2 -1 c 2 real 1 4", "decx / d1 -1 c 0 real 3 2 5", "put stub / 0 a9223372036854775807 -1 b 0 0 real",
			"put stage / -1 d7 -1 c 9 1 real", "decx / d7 145 b 0 real 0 4", "put stage / -1 d7 145 c 0 0 real",
			"put stub / -1 s%2b141 -1 c 0 0 real", "put stub / -1 s0141 -1 c 0 0 real", "put stub / -1 s0143 -1 c 0 0 real"),
		// compressed stream cut short
		with(two, "putgz 6 1 2", "putgz 1 9 10", "putgz 0 99 100", "putgz 9 1 1"),
	}
}

var wNamePool = []string{"a", "b.dat", "dir/file.nc", "d1/d2/d3/x", "sp ace/na me", "ünï/cödé/文件.bin", "emoji/🙂.txt",
	"plus+name", "q\"uote", "lt<gt>&amp", "back\\slash", "tab\there", "trail.", ".hidden", "..dots", "a.b/c.d/e.f",
	"UPPER/lower", "1/2/3", "x y z", "very/long/" + strings.Repeat("n", 60)}

var wWildNames = []string{"../up", "/abs/path", "a//b", "a/./b", "a/../b", "trailing/", "", ".", "..", "a/b/", "//x",
	"nl\nname", "ctl\x01", "u2028 x", "./rel", "a\\..\\b"}

func wName(r *Rand, wild bool, sep string) string {
	var n string
	if wild && r.Chance(0.4) {
		n = r.Pick(wWildNames)
	} else {
		n = r.Pick(wNamePool)
		if r.Chance(0.3) {
			n = fmt.Sprintf("%s%d", n, r.Intn(100))
		}
	}
	if sep == "\\" && !wild {
		n = strings.ReplaceAll(strings.ReplaceAll(n, "\\", "_"), "/", "\\")
	}
	return n
}

var wBufSizes = []int{1, 2, 3, 5, 7, 13, 64, 100, 255, 256, 257, 511, 512, 1000, 1023, 1024, 1025, 4095, 4096, 4097,
	8192, 16384, 32767, 32768, 32769, 65535, 65536}

func wSizes(r *Rand, small bool) string {
	n := r.Range(1, 4)
	var out []string
	for i := 0; i < n; i++ {
		k := wBufSizes[r.Intn(len(wBufSizes))]
		if small {
			k = []int{1, 2, 3, 4, 5, 7, 8, 16, 33}[r.Intn(9)]
		}
		out = append(out, strconv.Itoa(k))
	}
	return strings.Join(out, " ")
}

type wGenPayload struct {
	lines  []string
	ds     []wDesc // binned descriptors
	total  int     // bytes of the binned parts
	hlen   int
	sep    string
	stage  bool // names and sizes are fit for the real stage
	maxLen int
}

// wGenParts builds a payload: kind 0 tiny parts, 1 medium, 2 large; stageOk = safe names, no file complete.
func wGenParts(r *Rand, kind int, stageOk bool, wild bool, sep string, shortFiles bool) wGenPayload {
	g := wGenPayload{sep: sep, stage: stageOk}
	nparts := r.Range(1, 5)
	if r.Chance(0.1) {
		nparts = r.Range(6, 12)
	}
	if kind == 2 {
		nparts = r.Range(1, 2)
	}
	used := map[string]bool{}
	prev := ""
	for i := 0; i < nparts; i++ {
		name := wName(r, wild, sep)
		if stageOk {
			for used[name] {
				name += "x"
			}
			used[name] = true
		}
		var ln int64
		switch kind {
		case 0:
			ln = int64(r.Range(1, 40))
		case 1:
			ln = int64([]int{255, 256, 1000, 1024, 4096, 5000, 32767, 32768, 32769, 70000}[r.Intn(10)])
		default:
			ln = int64([]int{65536, 65537, 100000, 131073}[r.Intn(4)])
		}
		var beg int64
		switch r.Intn(3) {
		case 0:
			beg = 0
		case 1:
			beg = int64(r.Range(1, 50))
		default:
			beg = int64(r.Range(100, 100000))
			if kind == 2 {
				beg = int64(r.Range(51, 5000))
			}
		}
		end := beg + ln
		// more chunks of the SAME file in the same payload (same name, hash, size, time): the next chunk, a chunk after
		// a gap (only the missing ranges of a partly received file are sent after a restart), a chunk in front (parts
		// reordered by Bin.Remove): the encoder must read each part at its own offset
		type wRng struct{ b, e int64 }
		var more []wRng
		if kind != 2 && r.Chance(0.35) {
			pe := end
			for k := r.Range(1, 2); k > 0; k-- {
				l2 := ln
				if kind == 0 {
					l2 = int64(r.Range(1, 40))
				}
				if r.Chance(0.2) && beg >= l2 {
					more = append(more, wRng{beg - l2, beg})
				} else {
					gap := int64([]int{0, 0, 1, 7, 40}[r.Intn(5)])
					more = append(more, wRng{pe + gap, pe + gap + l2})
					pe += gap + l2
				}
			}
		}
		size := end
		for _, m := range more {
			if m.e > size {
				size = m.e
			}
		}
		if r.Chance(0.5) || stageOk {
			size += int64(r.Range(1, 1000))
		}
		flen := size
		if shortFiles && r.Chance(0.5) {
			if r.Chance(0.3) {
				flen = -1
			} else {
				flen = beg + int64(r.Intn(int(ln)))
				if r.Chance(0.2) {
					flen = int64(r.Intn(int(beg) + 1))
				}
			}
		}
		sec := []int64{0, 1, -1, 1700000000, 1234567890, -62135596800, 253402300799, 1 << 40}[r.Intn(8)]
		if r.Chance(0.5) {
			sec = int64(r.Range(0, 2000000000))
		}
		nano := []int64{0, 1, 999999999, 500000000, 123456789, 1000}[r.Intn(6)]
		if r.Chance(0.5) {
			nano = int64(r.Intn(1000000000))
		}
		renamed := ""
		if r.Chance(0.3) {
			renamed = wName(r, wild, sep)
		}
		hash := fmt.Sprintf("%032x", r.Uint64())
		if wild && r.Chance(0.2) {
			hash = "h<&>\"q"
		}
		p := prev
		if r.Chance(0.3) {
			p = ""
		}
		seed := int64(r.Intn(251))
		g.lines = append(g.lines, wPartLine(name, renamed, p, hash, sec, nano, size, beg, end, flen, seed))
		g.ds = append(g.ds, wDesc{name, renamed, p, hash, sec, nano, size, beg, end})
		g.total += int(ln)
		if int(ln) > g.maxLen {
			g.maxLen = int(ln)
		}
		for _, m := range more {
			g.lines = append(g.lines, wPartLine(name, renamed, p, hash, sec, nano, size, m.b, m.e, flen, seed))
			g.ds = append(g.ds, wDesc{name, renamed, p, hash, sec, nano, size, m.b, m.e})
			g.total += int(m.e - m.b)
			if int(m.e-m.b) > g.maxLen {
				g.maxLen = int(m.e - m.b)
			}
		}
		prev = name
	}
	g.hlen = len(wMirrorHeader(g.ds))
	return g
}

func escSep(sep string) string { return esc(sep) }

func (wireComp) Generate(r *Rand, tier string, n int) [][]string {
	var cases [][]string
	pickSep := func() string {
		switch r.Intn(5) {
		case 0:
			return "\\"
		case 1:
			return ""
		default:
			return "/"
		}
	}
	for i := 0; i < n; i++ {
		style := r.Intn(100)
		var ops []string
		switch {
		case style < 45: // conforming payloads, all transports
			kind := 0
			if x := r.Intn(40); x == 0 {
				kind = 2
			} else if x < 7 {
				kind = 1
			}
			sep := pickSep()
			stageOk := r.Chance(0.5)
			g := wGenParts(r, kind, stageOk, !stageOk && r.Chance(0.3), sep, false)
			ops = append(ops, g.lines...)
			if r.Chance(0.5) {
				ops = append(ops, "hdr")
			}
			small := kind == 0
			for k := r.Range(1, 3); k > 0; k-- {
				if kind == 2 {
					ops = append(ops, fmt.Sprintf("enc %d %s", r.Intn(256), []string{"65536", "32768 65535", "4096", "32769 1000"}[r.Intn(4)]))
				} else if kind == 1 {
					ops = append(ops, fmt.Sprintf("enc %d %s", r.Intn(256), []string{"65536", "1024", "255 4097", "32767", "1000 1 4096"}[r.Intn(5)]))
				} else {
					ops = append(ops, fmt.Sprintf("enc %d %s", r.Intn(256), wSizes(r, small && r.Chance(0.7))))
				}
			}
			chunk := []int{0, 0, 1, 2, 7, 512, 4096}[r.Intn(7)]
			rs := wSizes(r, small)
			if kind != 0 {
				chunk = []int{0, 4096, 1000, 32768}[r.Intn(4)]
				rs = []string{"65536", "4096", "1000 32768", "512 513"}[r.Intn(4)]
			}
			ops = append(ops, fmt.Sprintf("decx %s x -1 c 0 real %d %s", escSep(sep), chunk, rs))
			gk := "stub"
			if stageOk && r.Chance(0.6) {
				gk = "stage"
			}
			ops = append(ops, fmt.Sprintf("put %s %s %d x -1 %s %d 0 real", gk, escSep(sep), r.Range(-1, 9), []string{"c", "c", "b"}[r.Intn(3)], []int{0, 0, 0, 3}[r.Intn(4)]))
			if sep == "/" || r.Chance(0.3) {
				ops = append(ops, fmt.Sprintf("http %s %d", gk, r.Intn(10)))
			}
			if r.Chance(0.2) {
				// all sender threads share one http.Client: two requests overlapping in time
				ops = append(ops, fmt.Sprintf("http2 %d", r.Intn(10)))
			}
			if r.Chance(0.15) {
				ops = append(ops, fmt.Sprintf("putgz %d %d %d", r.Intn(10), r.Range(0, 20), 20))
			}
			if r.Chance(0.35) {
				// the retry path of startSend: the payload was encoded once (request failed), then a changed file is
				// removed from it / a partial answer splits it, and what is left is encoded and sent again: header and
				// meta-len must describe the parts the body carries NOW
				np := 0
				for _, l := range g.lines {
					if strings.HasPrefix(l, "part ") {
						np++
					}
				}
				for k := r.Range(1, 2); k > 0 && np > 0; k-- {
					if r.Chance(0.7) {
						ops = append(ops, fmt.Sprintf("remove %d", r.Intn(np)))
					} else {
						ops = append(ops, fmt.Sprintf("split %d", r.Range(0, np)))
					}
					ops = append(ops, "hdr", fmt.Sprintf("decx %s x -1 c 0 real %d %s", escSep(sep), chunk, rs),
						fmt.Sprintf("put %s %s %d x -1 c 0 0 real", gk, escSep(sep), r.Range(-1, 9)))
					if sep == "/" {
						ops = append(ops, fmt.Sprintf("http %s %d", gk, r.Intn(10)))
					}
				}
			}
		case style < 70: // malformed stream on a small payload
			sep := pickSep()
			stageOk := r.Chance(0.6)
			g := wGenParts(r, 0, stageOk, false, sep, false)
			for tries := 0; g.hlen+g.total > 1500 && tries < 8; tries++ {
				g = wGenParts(r, 0, stageOk, false, sep, false)
			}
			ops = append(ops, g.lines...)
			full := g.hlen + g.total
			for k := r.Range(2, 6); k > 0; k-- {
				gk := "stub"
				if stageOk && r.Chance(0.7) {
					gk = "stage"
				}
				ml := "x"
				cut := -1
				extra := 0
				endk := "c"
				xr := 0
				switch r.Intn(9) {
				case 0: // truncation inside the parts
					cut = g.hlen + r.Intn(g.total+1)
				case 1: // truncation inside the header
					cut = r.Intn(g.hlen + 1)
				case 2:
					cut = r.Intn(full + 1)
					endk = "b"
				case 3: // wrong meta-len: oversized (by little, by the whole body, by far), undersized, non-positive
					ml = []string{"d1", "d-1", "d2", "d-2", "d7", "a0", "a-1", "a-9999", "a1", "a2", "d100", "d100000", "a9223372036854775807",
						fmt.Sprintf("d%d", r.Range(1, g.total+3)), fmt.Sprintf("d%d", g.total), fmt.Sprintf("d-%d", r.Range(1, g.hlen-1)), "d3", "d1"}[r.Intn(18)]
					if r.Chance(0.3) {
						cut = r.Intn(full + 1)
					}
				case 4:
					ml = []string{"n", "sabc", "s1.5", "s0x10", "s1e3", "s--1", "s+", "s-", "s1_0", "s99999999999999999999", "s%2b" + strconv.Itoa(g.hlen), "s0" + strconv.Itoa(g.hlen)}[r.Intn(12)]
				case 5:
					extra = r.Range(1, 9)
				case 6:
					xr = r.Range(1, 3)
				case 7:
					ml = []string{"d1", "d3", "d-1", "a0"}[r.Intn(4)]
					extra = r.Range(1, 6)
				default:
					cut = r.Intn(full + 1)
					extra = r.Range(0, 3)
				}
				gz := r.Range(-1, 9)
				chunk := []int{0, 0, 1, 2, 7, 64}[r.Intn(6)]
				if strings.HasPrefix(ml, "a0") || strings.HasPrefix(ml, "a-") {
					// with a meta-len <= 0 the header copier of NewDecoder and the part readers share the
					// stream; only a plain small body is read by the copier in one piece (deterministic).
					// (With a positive meta-len NewDecoder waits for its copier since the S11 repair.)
					gz = -1
					chunk = 0
				}
				if r.Chance(0.5) {
					ops = append(ops, fmt.Sprintf("put %s %s %d %s %d %s %d %d real", gk, escSep(sep), gz, ml, cut, endk, extra, xr))
				} else if !strings.HasPrefix(ml, "s") && ml != "n" {
					ops = append(ops, fmt.Sprintf("decx %s %s %d %s %d real %d %s", escSep(sep), ml, cut, endk, extra, chunk, wSizes(r, true)))
				} else {
					ops = append(ops, fmt.Sprintf("put %s %s -1 %s %d %s %d %d real", gk, escSep(sep), ml, cut, endk, extra, xr))
				}
			}
		case style < 78: // every truncation point of a small payload
			g := wGenParts(r, 0, true, false, "/", false)
			every := tier == "thorough" && r.Chance(0.05) // every byte position of header and body
			if !every && g.total > 30 {
				g = wGenParts(r, 0, true, false, "/", false)
			}
			for tries := 0; every && g.hlen+g.total > 300 && tries < 8; tries++ {
				g = wGenParts(r, 0, true, false, "/", false)
			}
			ops = append(ops, g.lines...)
			full := g.hlen + g.total
			step := 1
			if !every {
				step = 1 + full/40
			}
			for c := r.Intn(step); c <= full; c += step {
				ops = append(ops, fmt.Sprintf("decx / x %d %s 0 real %d 5 3", c, []string{"c", "b"}[r.Intn(2)], []int{0, 1, 3}[r.Intn(3)]))
				if c%3 == 0 || (every && c >= g.hlen-2) {
					ops = append(ops, fmt.Sprintf("put stage / %d x %d %s 0 0 real", []int{-1, -1, 6}[r.Intn(3)], c, []string{"c", "b"}[r.Intn(2)]))
				}
			}
		case style < 86: // hand-made headers: zero-length, negative, odd descriptors
			var lines []string
			np := r.Range(1, 4)
			for j := 0; j < np; j++ {
				beg := int64(r.Range(0, 20))
				end := beg + int64(r.Range(1, 12))
				switch r.Intn(6) {
				case 0:
					end = beg
				case 1:
					end = beg - int64(r.Range(1, 5))
				case 2:
					beg = -int64(r.Range(1, 5))
				}
				lines = append(lines, wPartLine(wName(r, true, "/"), "", "", "h", int64(r.Intn(100)), int64(r.Intn(1000000000)), int64(r.Range(0, 40)), beg, end, 100, int64(r.Intn(251))))
			}
			ops = append(ops, lines...)
			ops = append(ops, fmt.Sprintf("put stub %s -1 x -1 c 0 0 mirror", escSep(pickSep())))
			ops = append(ops, fmt.Sprintf("decx / x -1 c 0 mirror 0 %s", wSizes(r, true)))
			ops = append(ops, fmt.Sprintf("put stub / %d x %d c 0 0 mirror", r.Range(-1, 9), r.Range(0, 200)))
			ops = append(ops, "put stub / -1 x -1 c 0 0 real", "hdr")
		case style < 93: // sender-side trouble: short or missing files
			g := wGenParts(r, 0, true, false, "/", true)
			ops = append(ops, g.lines...)
			ops = append(ops, fmt.Sprintf("enc %d %s", r.Intn(256), wSizes(r, true)), fmt.Sprintf("enc %d %s", r.Intn(256), wSizes(r, true)))
			ops = append(ops, fmt.Sprintf("decx / x -1 c 0 real 0 %s", wSizes(r, true)))
			ops = append(ops, fmt.Sprintf("put %s / %d x -1 c 0 0 real", []string{"stub", "stage"}[r.Intn(2)], r.Range(-1, 9)))
			ops = append(ops, fmt.Sprintf("http %s %d", []string{"stub", "stage"}[r.Intn(2)], r.Intn(10)))
			for k := r.Range(1, 3); k > 0; k-- {
				beg := r.Range(0, 50)
				ln := r.Range(0, 40)
				got := ln
				if r.Chance(0.6) {
					got = r.Intn(ln + 1)
				}
				ops = append(ops, fmt.Sprintf("recv %d %d %d %s", beg, beg+ln, got, []string{"c", "c", "b"}[r.Intn(3)]))
			}
		default: // NanoTime and separator conversion
			for k := r.Range(3, 10); k > 0; k-- {
				switch r.Intn(4) {
				case 0:
					sec := []int64{0, 1, -1, 1700000000, -62135596800, 253402300799, 1 << 40, -(1 << 40)}[r.Intn(8)]
					if r.Chance(0.5) {
						sec = int64(r.Range(-2000000000, 2000000000))
					}
					nano := int64(r.Intn(1000000000))
					if r.Chance(0.3) {
						nano = []int64{-1, 1000000000, 1999999999, -1000000001, 0, 999999999}[r.Intn(6)]
					}
					ops = append(ops, fmt.Sprintf("nanoenc %d %d", sec, nano))
				case 1:
					alphabet := []string{"0", "1", "9", "+", "-", ".", " ", "e", "_", "7", "00", "12345", "999999999", "9223372036854775807", "9223372036854775808"}
					var s string
					for j := r.Range(0, 6); j > 0; j-- {
						s += alphabet[r.Intn(len(alphabet))]
					}
					if r.Chance(0.5) {
						s = fmt.Sprintf("%d+%d", r.Range(-5, 2000000000), r.Range(-3, 1999999999))
					}
					if r.Chance(0.2) {
						s = fmt.Sprintf("%0*d+%0*d", r.Range(1, 12), r.Intn(100000), r.Range(1, 12), r.Intn(1000000000))
					}
					ops = append(ops, "nano "+esc(s))
				default:
					sep := []string{"/", "\\", "\\", ":"}[r.Intn(4)]
					segs := []string{"a", "b c", "..", ".", "", "x.y", "é", "/", "\\", "d/e", "..."}
					var parts []string
					for j := r.Range(1, 5); j > 0; j-- {
						parts = append(parts, segs[r.Intn(len(segs))])
					}
					name := strings.Join(parts, sep)
					if r.Chance(0.4) {
						name = wName(r, r.Chance(0.5), sep)
					}
					ops = append(ops, fmt.Sprintf("sep %s %s", esc(sep), esc(name)))
				}
			}
		}
		cases = append(cases, ops)
	}
	return cases
}
