package main

import (
	"encoding/json"
	"fmt"
	"path"
	"path/filepath"
	"strings"

	stshttp "github.com/arm-doe/sts/http"
	"github.com/arm-doe/sts/payload"
)

// component "path": the pure path functions the receiver relies on (tie T1). Properties C14
// (and the source-name part of C15).
//
//	clean / join           Go's own path.Clean, filepath.Clean, filepath.Join
//	sepconv                payload.NewDecoder (the real separator conversion of names)
//	sanseg / sanrel / subpath / rootrel / normslash / saferel / safesrc
//	                       the helpers of http/server.go through http/verif_export.go
//	confine                saferel + filepath.Join(root, name) as stage/local.go joins names
//	srcdir                 the directories main/server.go newStage gives a source (real
//	                       closure, through the sts binary built with -tags verif)
type pathComp struct{}

func init() { register(pathComp{}) }

func (pathComp) Name() string { return "path" }
func (pathComp) Rule() string {
	return "case = sequence of path-function ops on traversal-fragment strings; non-trivial = at least one " +
		"name/segment/source refused and one accepted, or a confine/srcdir op; distinct = by the full op sequence"
}

func (pathComp) Corpus() [][]string {
	e := esc
	return [][]string{
		// F3: the name of the data route's witness, joined as stage/local.go does
		{"confine /r/stage/src1 " + e("../../../escape.txt"), "saferel " + e("../../../escape.txt"),
			"join /r/final/src1 " + e("../../../renamed-escape.txt"), "saferel -", "saferel .", "saferel a/..",
			"saferel /abs", "saferel a/./b", "saferel " + e("a//b"), "saferel " + e("..\\x"), "confine /r/s -", "confine /r/s /abs/x"},
		// S12: source names that leave the configured roots
		{"srcdir ..", "srcdir .", "srcdir a/b", "srcdir ../x", "srcdir a/../b", "srcdir site.host", "srcdir /", "srcdir " + e("..\\"),
			"safesrc ..", "safesrc .", "safesrc a/b", "safesrc ../x", "safesrc a/../b", "safesrc -", "safesrc /", "safesrc ..."},
		// the repo's own TestSanitizeRelativePath / TestNormalizeRepeatedSlashes
		{"sanrel -", "sanrel /", "sanrel a/b/file.txt", "sanrel " + e("/a//b///c"), "sanrel a/./b/./c", "sanrel ../secret",
			"sanrel a/../../secret", "sanrel /../secret", "sanrel " + e("a b/file"), "sanrel " + e("a/%2e%2e/file"),
			"normslash -", "normslash " + e("/sts//data"), "normslash " + e("//sts///data-recovery"), "normslash /sts/data",
			"rootrel -", "rootrel a/b.txt"},
		// Clean corner cases of the Go documentation
		{"clean -", "clean .", "clean ..", "clean /", "clean /..", "clean /../a", "clean a/../..", "clean ../../a/..", "clean " + e("a//b/./c/.."),
			"clean abc/", "clean /abc/def/../../..", "clean ../..", "join - -", "join - a", "join a - b", "join /r ..", "join /r " + e("a/../../..")},
		// separator conversion
		{"sepconv %5c " + e("a\\b\\..\\c"), "sepconv %5c " + e("..\\..\\x"), "sepconv - a/b", "sepconv / " + e("/abs//x/"), "sepconv :: " + e("a::b::..::..::c"),
			"sepconv .. " + e("a..b....c"), "sepconv aa aaa", "sepconv / -", "sepconv | " + e("|x")},
		{"subpath /r/serve /r/serve/src", "subpath /r/serve /r/serve", "subpath /r/serve /r/serve2", "subpath /r/serve /r", "subpath /r/serve/ /r/serve//x", "subpath / /x", "subpath - /x",
			"sanseg -", "sanseg ..", "sanseg a.b_c-d", "sanseg a/b", "sanseg " + e("a b"), "sanseg " + e("é")},
	}
}

var pathFrags = []string{"..", "..", ".", "", "a", "b", "dir", "f.txt", "...", "..a", "a..", ".hidden", "a b", "é", "．．",
	"..;", "%2e%2e", "%2f", "\\", "..\\", "a\\..\\b", "-", "--", "~", "x_y-z.0", "A1", "src1", "site.host"}

func genPathString(r *Rand) string {
	if r.Chance(0.05) {
		return ""
	}
	n := r.Range(1, 6)
	segs := make([]string, n)
	for i := range segs {
		segs[i] = r.Pick(pathFrags)
		if r.Chance(0.03) {
			segs[i] = strings.Repeat("L", r.Range(250, 300))
		}
	}
	s := strings.Join(segs, "/")
	switch r.Intn(8) {
	case 0:
		s = "/" + s
	case 1:
		s = "//" + s
	case 2:
		s += "/"
	case 3:
		s = "/" + s + "//"
	}
	return s
}

func genSafeish(r *Rand) string {
	// mostly legitimate relative names
	n := r.Range(1, 4)
	segs := make([]string, n)
	for i := range segs {
		segs[i] = r.Pick([]string{"a", "b", "dir", "f.txt", "2024", "x_y-z.0", ".hidden", "...", "é", "a b"})
	}
	s := strings.Join(segs, "/")
	if r.Chance(0.15) {
		s = "./" + s
	}
	if r.Chance(0.1) {
		s = strings.Replace(s, "/", "//", 1)
	}
	return s
}

func (pathComp) Generate(r *Rand, tier string, n int) [][]string {
	seps := []string{"", "/", "\\", "|", "::", "..", "a", "//", "%"}
	roots := []string{"/r", "/r/stage/src1", "/", "/r/../s", "/r//s/", "/a/b/c"}
	var cases [][]string
	for i := 0; i < n; i++ {
		var ops []string
		k := r.Range(4, 12)
		for j := 0; j < k; j++ {
			p := genPathString(r)
			if r.Chance(0.4) {
				p = genSafeish(r)
			}
			switch r.Intn(14) {
			case 0:
				ops = append(ops, "clean "+esc(p))
			case 1:
				q := genPathString(r)
				if r.Chance(0.3) {
					ops = append(ops, "join "+esc(p)+" "+esc(q)+" "+esc(genPathString(r)))
				} else {
					ops = append(ops, "join "+esc(p)+" "+esc(q))
				}
			case 2:
				sep := r.Pick(seps)
				name := p
				if sep != "" && sep != "/" {
					name = strings.ReplaceAll(p, "/", sep)
				}
				ops = append(ops, "sepconv "+esc(sep)+" "+esc(name))
			case 3:
				ops = append(ops, "sanseg "+esc(r.Pick(pathFrags)))
			case 4:
				ops = append(ops, "sanrel "+esc(p))
			case 5:
				a, b := r.Pick(roots), r.Pick(roots)
				if r.Chance(0.5) {
					b = a + "/" + genSafeish(r)
				}
				if r.Chance(0.2) {
					b = a + r.Pick([]string{"2", "/", "//", "/../x"})
				}
				ops = append(ops, "subpath "+esc(a)+" "+esc(b))
			case 6:
				ops = append(ops, "rootrel "+esc(p))
			case 7:
				ops = append(ops, "normslash "+esc(p))
			case 8, 9:
				ops = append(ops, "saferel "+esc(p))
			case 10:
				src := p
				if r.Chance(0.5) {
					src = r.Pick([]string{"..", ".", "a/b", "../x", "a/../b", "src1", "site.host", "a--b", "./", "/", "..\\", "...", "..a"})
				}
				ops = append(ops, "safesrc "+esc(src))
			case 11, 12:
				ops = append(ops, "confine "+esc(r.Pick(roots))+" "+esc(p))
			case 13:
				if strings.ContainsRune(p, 0) {
					continue
				}
				src := p
				if r.Chance(0.6) {
					src = r.Pick([]string{"..", ".", "a/b", "../x", "a/../b", "src1", "site.host", "a--b", "./", "/", "..\\", "x/", "a//b"})
				}
				if src == "" {
					src = "s"
				}
				ops = append(ops, "srcdir "+esc(src))
			}
		}
		cases = append(cases, ops)
	}
	return cases
}

type pathExec struct {
	fails    []string
	refused  bool
	accepted bool
	special  bool
	key      strings.Builder
}

// one sts process shared by all cases of this run for the srcdir op (each call creates a
// real stage.Stage with its goroutines, so the process is replaced now and then)
var pathProc *mainProc

func pathMain() *mainProc {
	if pathProc != nil && (pathProc.uses > 300 || pathProc.cmd == nil) {
		pathProc.close()
		pathProc = nil
	}
	if pathProc == nil {
		p, err := startMain(nil)
		if err != nil {
			panic("cannot start sts main: " + err.Error())
		}
		pathProc = p
	}
	pathProc.uses++
	return pathProc
}

func (pathComp) NewExec() Exec { return &pathExec{} }

func strictlyUnder(root, p string) bool {
	root = filepath.Clean(root)
	if root == "/" {
		return p != "/" && strings.HasPrefix(p, "/")
	}
	return strings.HasPrefix(p, root+"/")
}

func (e *pathExec) note(ok bool) {
	if ok {
		e.accepted = true
	} else {
		e.refused = true
	}
}

func (e *pathExec) Do(op []string) string {
	e.key.WriteString(strings.Join(op, " "))
	e.key.WriteByte(';')
	arg := func(i int) string { return unesc(op[i]) }
	switch {
	case len(op) == 2 && op[0] == "clean":
		a, b := path.Clean(arg(1)), filepath.Clean(arg(1))
		if a != b {
			e.fails = append(e.fails, fmt.Sprintf("clean-disagree: path.Clean(%q)=%q filepath.Clean=%q", arg(1), a, b))
		}
		return esc(b)
	case len(op) >= 2 && op[0] == "join":
		var el []string
		for i := 1; i < len(op); i++ {
			el = append(el, arg(i))
		}
		return esc(filepath.Join(el...))
	case len(op) == 3 && op[0] == "sepconv":
		// the real conversion: payload.NewDecoder over a one-part header
		meta, _ := json.Marshal([]map[string]any{{"n": arg(2), "p": arg(2), "r": arg(2)}})
		dec, err := payload.NewDecoder(len(meta), arg(1), strings.NewReader(string(meta)))
		if err != nil || len(dec.GetParts()) != 1 {
			return "error"
		}
		pt := dec.GetParts()[0]
		if pt.GetName() != pt.GetPrev() {
			e.fails = append(e.fails, fmt.Sprintf("sepconv-name-prev-differ: %q vs %q", pt.GetName(), pt.GetPrev()))
		}
		if pt.GetRenamed() != arg(2) {
			return "renamed-converted " + esc(pt.GetRenamed())
		}
		return esc(pt.GetName())
	case len(op) == 2 && op[0] == "sanseg":
		_, err := stshttp.VerifSanitizePathSegment(arg(1))
		e.note(err == nil)
		if err != nil {
			return "err"
		}
		return "ok"
	case len(op) == 2 && op[0] == "sanrel":
		r, err := stshttp.VerifSanitizeRelativePath(arg(1))
		e.note(err == nil)
		if err != nil {
			return "err"
		}
		// oracle (Props/C14 static_confined): an accepted path has only whitelisted segments,
		// none of them "..", and stays below any root it is joined to
		if r != "" {
			for _, seg := range strings.Split(r, "/") {
				if _, serr := stshttp.VerifSanitizePathSegment(seg); serr != nil || seg == ".." || seg == "." {
					e.fails = append(e.fails, fmt.Sprintf("sanrel-unsafe: sanitizeRelativePath(%q) accepted %q with segment %q", arg(1), r, seg))
				}
			}
			if !strictlyUnder("/serve/src", filepath.Join("/serve/src", r)) {
				e.fails = append(e.fails, fmt.Sprintf("sanrel-escape: sanitizeRelativePath(%q) = %q leaves the root", arg(1), r))
			}
		}
		return "ok " + esc(r)
	case len(op) == 3 && op[0] == "subpath":
		return fmt.Sprint(stshttp.VerifIsSubpath(arg(1), arg(2)))
	case len(op) == 2 && op[0] == "rootrel":
		return esc(stshttp.VerifRootRelativePath(arg(1)))
	case len(op) == 2 && op[0] == "normslash":
		return esc(stshttp.VerifNormalizeRepeatedSlashes(arg(1)))
	case len(op) == 2 && op[0] == "saferel":
		ok := stshttp.VerifIsSafeRelPath(arg(1))
		e.note(ok)
		return fmt.Sprint(ok)
	case len(op) == 2 && op[0] == "safesrc":
		ok := stshttp.VerifIsSafeSourceName(arg(1))
		e.note(ok)
		return fmt.Sprint(ok)
	case len(op) == 3 && op[0] == "confine":
		e.special = true
		ok := stshttp.VerifIsSafeRelPath(arg(2))
		e.note(ok)
		j := filepath.Join(arg(1), arg(2))
		// oracle (Props/C14 join_confined): a name the repaired check accepts stays strictly
		// below the root it is joined to (as stage/local.go does), also with an extension added
		if ok && filepath.IsAbs(arg(1)) && !strictlyUnder(arg(1), j) {
			e.fails = append(e.fails, fmt.Sprintf("confine-escape: isSafeRelPath(%q) but Join(%q, name) = %q", arg(2), arg(1), j))
		}
		return fmt.Sprint(ok) + " " + esc(j)
	case len(op) == 2 && op[0] == "srcdir":
		e.special = true
		src := arg(1)
		if src == "" || strings.ContainsRune(src, 0) {
			return "bad-op"
		}
		p := pathMain()
		r := p.must("srcdirs " + esc(src))
		f := strings.Fields(r)
		if len(f) != 3 {
			return "error " + esc(r)
		}
		var rel []string
		roots := []string{p.roots.stage, p.roots.final, p.roots.logs}
		for i, d := range f {
			d = unesc(d)
			x, err := filepath.Rel(p.roots.base, d)
			if err != nil || strings.HasPrefix(x, "..") {
				x = "OUTSIDE:" + d
			}
			rel = append(rel, esc(x))
			// oracle (Props/C14 source_dir_confined): a source name the repaired check accepts
			// gets directories strictly below the configured roots
			if stshttp.VerifIsSafeSourceName(src) && !strictlyUnder(roots[i], d) {
				e.fails = append(e.fails, fmt.Sprintf("srcdir-escape: source %q accepted by isSafeSourceName maps to %q, not below %q", src, d, roots[i]))
			}
		}
		return strings.Join(rel, " ")
	}
	return "bad-op"
}

func (e *pathExec) Oracle() []string { f := e.fails; e.fails = nil; return f }
func (e *pathExec) Signature() (bool, string) {
	return (e.accepted && e.refused) || e.special, e.key.String()
}
func (e *pathExec) Close() {}

func (pathComp) AnswerClass(op []string, ans string) string {
	f := strings.Fields(ans)
	switch op[0] {
	case "sanseg", "sanrel", "subpath", "saferel", "safesrc", "confine":
		if len(f) > 0 {
			return op[0] + ":" + f[0]
		}
	case "srcdir":
		if strings.Contains(ans, "/stage/") {
			return "srcdir:below"
		}
		return "srcdir:not-below"
	case "clean", "join", "sepconv":
		u := unesc(ans)
		switch {
		case strings.HasPrefix(u, "../") || u == "..":
			return op[0] + ":dotdot"
		case strings.HasPrefix(u, "/"):
			return op[0] + ":rooted"
		case u == "." || u == "":
			return op[0] + ":empty"
		}
		return op[0] + ":rel"
	}
	return op[0]
}
