package main

import (
	"fmt"
	"strings"
)

// generator and corpus of component "send" (see send.go)

func (sendComp) Corpus() [][]string {
	return [][]string{
		// F4 witness: a 206 answer with count 1 must be followed by the remainder 1,2 only
		{"payload 100 a:h:15:15:0:5 a:h:15:15:5:5 a:h:15:15:10:5", "tx fail:1 ok", "send 1", "track"},
		// F4, count in the middle, then a cut connection and a recovery request that fails twice
		{"payload 100 a:h:20:20:0:5 a:h:20:20:5:5 a:h:20:20:10:5 a:h:20:20:15:5", "tx fail:2 fail:0 ok", "rc err err ok:1", "send 1", "track"},
		// answer lost after everything was received: count = len, Split returns nil, all forwarded
		{"payload 100 a:h:10:10:0:5 a:h:10:10:5:5", "tx fail:0", "rc ok:2", "send 1", "track"},
		{"payload 100 a:h:10:10:0:5 a:h:10:10:5:5", "tx fail:2", "send 1", "track"},
		{"payload 100 a:h:10:10:0:5 a:h:10:10:5:5", "tx fail:7", "send 1", "track"},
		// nothing received, receiver unavailable three times
		{"payload 100 a:h:10:10:0:5 b:g:5:5:0:5", "tx fail:0 fail:0 fail:0 ok", "rc ok:0 err ok:0 ok:0", "send 1", "track"},
		// negative counts (non-conforming answers): nothing counts as acknowledged
		{"payload 100 a:h:10:10:0:5 a:h:10:10:5:5", "tx fail:-1 fail:0 ok", "rc ok:-3", "send 1", "track"},
		// Remove swaps with the last part: 0 acknowledged, b gone -> order 4,2,3 on the wire
		{"payload 100 a:h:5:5:0:5 b:g:5:5:0:5 c:i:15:15:0:5 c:i:15:15:5:5 c:i:15:15:10:5", "tx fail:1 fail:1 ok", "gone b:0:changed", "send 1", "track"},
		// all remaining parts gone: nothing is sent again; tracker entry of b stays incomplete (S14)
		{"payload 100 a:h:5:5:0:5 b:g:10:10:0:5 b:g:10:10:5:5", "tx fail:2", "gone b:0:cache", "send 1", "track"},
		// gone only from the second failure on, three kinds
		{"payload 100 a:h:5:5:0:5 b:g:5:5:0:5 c:i:5:5:0:5 d:j:5:5:0:5", "tx fail:0 fail:0 fail:0 ok", "rc ok:0 ok:0 ok:0", "gone b:1:syncerr c:2:changed d:0:cache", "send 1", "track"},
		// two files across three payloads, three sender threads, failures in each
		{"payload 12 a:h:12:12:0:6 a:h:12:12:6:6", "tx fail:1 ok", "payload 12 b:g:9:9:0:9 c:i:6:6:0:3", "tx fail:0 ok", "rc err ok:1",
			"payload 12 c:i:6:6:3:3", "send 3", "track"},
		// tracker: file changed between two emissions (hash differs): entry is reset
		{"payload 100 a:h1:10:10:0:5", "send 1", "track", "payload 100 a:h2:8:8:0:8", "send 1", "track"},
		// QueuedOnce caveat (Props/C08 sent_without_all_bytes_when_queued_twice): the same
		// part counted twice completes the file although bytes 5..9 were never acknowledged
		{"payload 100 a:h:10:10:0:5", "payload 100 a:h:10:10:0:5", "send 1", "track"},
		// the same finding as it can arise: 0 acknowledged, the rest dropped because the file was touched
		// (same content, same hash); the next scan queues the file again; Sent is logged after part 1
		// of the second emission although bytes 10..14 are still to be sent
		{"payload 100 a:h:15:15:0:5 a:h:15:15:5:5 a:h:15:15:10:5", "tx fail:1", "gone a:0:changed", "send 1", "track",
			"payload 100 a:h:15:15:0:5", "payload 100 a:h:15:15:5:5", "payload 100 a:h:15:15:10:5", "send 1", "track"},
		// same name and hash again after completion: a second Sent record
		{"payload 100 a:h:5:5:0:5", "send 1", "track", "payload 100 a:h:5:5:0:5", "send 2", "track"},
		// Bin.Add truncates at capacity + fluff
		{"payload 10 a:h:30:30:0:8 a:h:30:30:8:8 a:h:30:30:16:8", "tx fail:1 ok", "send 1", "track"},
		// empty payload
		{"payload 0 a:h:5:5:0:5", "tx fail:0 ok", "rc ok:1", "send 1", "track"},
		// receiver side: the count stops at the first part that is not on record (C09's F1 shape too)
		{"rrecv a h 0 5", "rrecv a h 10 15", "rcount a:h:0:5 a:h:5:5 a:h:10:5", "rrecv a h 5 10", "rcount a:h:0:5 a:h:5:5 a:h:10:5 a:h:15:5",
			"rcount a:h2:0:5", "rcount b:h:0:5 a:h:0:5", "rcount", "rrecv a h2 0 3", "rcount a:h:0:5", "rcount a:h2:0:3 a:h2:3:1"},
		{"rrecv a h 0 4", "rrecv a h 6 10", "rrecv a h 2 8", "rcount a:h:4:8", "rcount a:h:2:8 a:h:0:2", "rrecv a h 3 3", "rcount a:h:3:0 a:h:9:1 a:h:10:1",
			"rrecv a h -1 3", "rrecv a h 5 1001", "rrecv a h 5 4", "rcount a:h:0", "rcount a:h:x:1"},
		// malformed ops
		{"tx ok", "send 0", "payload x", "payload 10 a:h:1:1:0", "payload 100 a:h:5:5:0:5", "tx fial:1", "rc ok", "gone a:0:lost", "send 9", "track 1", "send 1", "track"},
	}
}

type sendGenFile struct {
	name, hash string
	size       int64
	send       int64
}

var sendNames = []string{"a", "b", "c", "d/e.nc", "x y", "f:1", "%41"}

func (sendComp) Generate(r *Rand, tier string, n int) [][]string {
	var cases [][]string
	// systematic block: every payload length 1..6, every failure position 0..len, every failure kind
	kinds := []string{"count", "recover", "recover-err", "recover-err3", "count-then-count", "recover-gone", "lost-answer"}
	for ln := 1; ln <= 6; ln++ {
		for pos := 0; pos <= ln; pos++ {
			for _, kind := range kinds {
				if len(cases) >= n {
					break
				}
				cases = append(cases, sendSystematic(ln, pos, kind))
			}
		}
	}
	for len(cases) < n {
		if r.Chance(0.06) {
			cases = append(cases, sendRecvCase(r))
			continue
		}
		if r.Chance(0.04) {
			cases = append(cases, sendMalformed(r))
			continue
		}
		cases = append(cases, sendRandom(r))
	}
	return cases
}

func partTok(name, hash string, fsize, ssize, beg, ln int64) string {
	return fmt.Sprintf("%s:%s:%d:%d:%d:%d", esc(name), esc(hash), fsize, ssize, beg, ln)
}

// one payload of `ln` parts over two files, failure at part index `pos`
func sendSystematic(ln, pos int, kind string) []string {
	var toks []string
	na := (ln + 1) / 2
	for i := 0; i < ln; i++ {
		if i < na {
			toks = append(toks, partTok("a", "h", int64(na*4), int64(na*4), int64(i*4), 4))
		} else {
			toks = append(toks, partTok("b", "g", int64((ln-na)*3), int64((ln-na)*3), int64((i-na)*3), 3))
		}
	}
	ops := []string{"payload 1000 " + strings.Join(toks, " ")}
	switch kind {
	case "count": // 206 at part pos
		ops = append(ops, fmt.Sprintf("tx fail:%d ok", pos))
		if pos == 0 {
			ops = append(ops, "rc ok:0")
		}
	case "recover": // connection cut, recovery request answers pos
		ops = append(ops, "tx fail:0 ok", fmt.Sprintf("rc ok:%d", pos))
	case "recover-err":
		ops = append(ops, "tx fail:0 ok", fmt.Sprintf("rc err ok:%d", pos))
	case "recover-err3":
		ops = append(ops, "tx fail:0 ok", fmt.Sprintf("rc err err err ok:%d", pos))
	case "count-then-count": // a second failure in the remainder
		ops = append(ops, fmt.Sprintf("tx fail:%d fail:1 ok", pos))
		if pos == 0 {
			ops = append(ops, "rc ok:0")
		}
	case "recover-gone": // file b changed meanwhile
		ops = append(ops, "tx fail:0 ok", fmt.Sprintf("rc ok:%d", pos), "gone b:0:changed")
	case "lost-answer": // the receiver has more than the failure position suggests: everything
		ops = append(ops, "tx fail:0 ok", fmt.Sprintf("rc ok:%d", ln))
	}
	ops = append(ops, "send 1", "track")
	return ops
}

func sendRandom(r *Rand) []string {
	// 1-3 files, each cut into chunks that tile [0,size) (or, for a resumed file, [off,size) with
	// send size = size - off)
	nf := r.Range(1, 3)
	var files []sendGenFile
	perm := r.Perm(len(sendNames))
	type chunk struct {
		f        sendGenFile
		beg, len int64
	}
	var chunks []chunk
	for i := 0; i < nf; i++ {
		f := sendGenFile{name: sendNames[perm[i]], hash: fmt.Sprintf("h%d", r.Intn(3))}
		nchunks := r.Range(1, 4)
		csz := int64(r.Range(1, 9))
		f.size = csz*int64(nchunks-1) + int64(r.Range(1, int(csz)))
		off := int64(0)
		if r.Chance(0.15) && nchunks > 1 {
			off = csz // resumed: the first chunk was received in an earlier run
		}
		f.send = f.size - off
		files = append(files, f)
		for b := off; b < f.size; b += csz {
			l := csz
			if b+l > f.size {
				l = f.size - b
			}
			chunks = append(chunks, chunk{f, b, l})
		}
	}
	if r.Chance(0.15) {
		r.Shuffle(len(chunks), func(a, b int) { chunks[a], chunks[b] = chunks[b], chunks[a] })
	}
	// rare violations of QueuedOnce / a changed file queued again
	if r.Chance(0.08) && len(chunks) > 0 {
		c := chunks[r.Intn(len(chunks))]
		chunks = append(chunks, c)
	}
	if r.Chance(0.08) && len(chunks) > 0 {
		c := chunks[r.Intn(len(chunks))]
		g := c.f
		g.hash = g.hash + "x"
		g.size = int64(r.Range(1, 12))
		g.send = g.size
		files = append(files, g)
		chunks = append(chunks, chunk{g, 0, g.size})
	}
	var ops []string
	i := 0
	pending := 0
	for i < len(chunks) {
		k := r.Range(1, 6)
		if i+k > len(chunks) {
			k = len(chunks) - i
		}
		var toks []string
		names := map[string]bool{}
		var total int64
		for _, c := range chunks[i : i+k] {
			toks = append(toks, partTok(c.f.name, c.f.hash, c.f.size, c.f.send, c.beg, c.len))
			names[c.f.name] = true
			total += c.len
		}
		i += k
		capacity := total + int64(r.Range(0, 20))
		if r.Chance(0.05) {
			capacity = int64(r.Range(0, int(total)))
		}
		ops = append(ops, fmt.Sprintf("payload %d %s", capacity, strings.Join(toks, " ")))
		pending++
		// scripts
		if r.Chance(0.75) {
			nfail := r.Range(1, 3)
			if r.Chance(0.1) {
				nfail = r.Range(4, 6)
			}
			var tx, rc []string
			for f := 0; f < nfail; f++ {
				switch r.Intn(10) {
				case 0, 1, 2, 3: // count in the answer
					tx = append(tx, fmt.Sprintf("fail:%d", r.Range(1, k)))
				case 4, 5, 6, 7: // no count: recovery request
					tx = append(tx, "fail:0")
					for r.Chance(0.3) {
						rc = append(rc, "err")
					}
					rc = append(rc, fmt.Sprintf("ok:%d", r.Range(0, k)))
				case 8:
					tx = append(tx, fmt.Sprintf("fail:%d", k+r.Range(0, 2)))
				default:
					tx = append(tx, fmt.Sprintf("fail:%d", -r.Range(1, 3)))
				}
			}
			if r.Chance(0.8) {
				tx = append(tx, "ok")
			}
			ops = append(ops, "tx "+strings.Join(tx, " "))
			if len(rc) > 0 && r.Chance(0.9) {
				ops = append(ops, "rc "+strings.Join(rc, " "))
			}
			if r.Chance(0.5) {
				var g []string
				for _, nm := range sortedKeys(names) {
					if r.Chance(0.5) {
						g = append(g, fmt.Sprintf("%s:%d:%s", esc(nm), r.Range(0, 2), r.Pick([]string{"cache", "changed", "syncerr"})))
					}
				}
				if len(g) > 0 {
					ops = append(ops, "gone "+strings.Join(g, " "))
				}
			}
		}
		if r.Chance(0.35) || i >= len(chunks) {
			ops = append(ops, fmt.Sprintf("send %d", r.Range(1, 3)))
			pending = 0
			if r.Chance(0.7) || i >= len(chunks) {
				ops = append(ops, "track")
			}
		}
	}
	if r.Chance(0.1) {
		ops = append(ops, "track")
	}
	return ops
}

func sendMalformed(r *Rand) []string {
	bad := []string{
		"tx ok", "rc ok:1", "gone a:0:cache", "send", "send 0", "send x", "send 9", "track now", "payload", "payload x a:h:1:1:0:1",
		"payload 10 a:h:1:1:0", "payload 10 a:h:1:1:0:z", "payload 10 a:h:1:1:0:1:2", "frobnicate",
	}
	ops := []string{r.Pick(bad)}
	ops = append(ops, "payload 100 a:h:6:6:0:3 a:h:6:6:3:3")
	more := []string{"tx fail", "tx fail:x ok", "tx ok fail:1 nope", "rc ok", "rc err ok:x", "gone a", "gone a:x:cache", "gone a:0:lost", "gone a:-1:cache", "send -1", "track 2"}
	for k := r.Range(1, 4); k > 0; k-- {
		ops = append(ops, r.Pick(more))
	}
	if r.Chance(0.5) {
		ops = append(ops, "tx fail:1 ok")
	}
	ops = append(ops, "send 1", r.Pick(bad), "track")
	return ops
}

// receiver-side case: records built by Receive, counted by Received
func sendRecvCase(r *Rand) []string {
	names := []string{"a", "b", "d/e.nc"}[:r.Range(1, 3)]
	hashes := map[string]string{}
	csz := map[string]int{}
	for _, nm := range names {
		hashes[nm] = fmt.Sprintf("h%d", r.Intn(2))
		csz[nm] = r.Range(1, 9)
	}
	var ops []string
	query := func() string {
		k := r.Range(0, 6)
		var toks []string
		nm := r.Pick(names)
		start := 0
		if r.Chance(0.3) {
			start = r.Range(1, 3)
		}
		for i := 0; i < k; i++ {
			if r.Chance(0.15) {
				nm = r.Pick(names)
			}
			h := hashes[nm]
			if r.Chance(0.07) {
				h += "x"
			}
			b := (start + i) * csz[nm]
			l := csz[nm]
			if r.Chance(0.1) {
				b += r.Range(-1, 1)
			}
			if r.Chance(0.1) {
				l += r.Range(-1, 2)
			}
			toks = append(toks, fmt.Sprintf("%s:%s:%d:%d", esc(nm), esc(h), b, l))
		}
		return strings.TrimSpace("rcount " + strings.Join(toks, " "))
	}
	for k := r.Range(2, 12); k > 0; k-- {
		nm := r.Pick(names)
		i := min(r.Range(0, 8), r.Range(0, 8))
		b, e := i*csz[nm], (i+1)*csz[nm]
		if r.Chance(0.15) {
			b = r.Range(0, 40)
			e = b + r.Range(0, 12)
		}
		h := hashes[nm]
		if r.Chance(0.05) {
			h += "x"
			if r.Chance(0.5) {
				hashes[nm] = h
			}
		}
		ops = append(ops, fmt.Sprintf("rrecv %s %s %d %d", esc(nm), esc(h), b, e))
		if r.Chance(0.5) {
			ops = append(ops, query())
		}
	}
	ops = append(ops, query(), query())
	return ops
}
