package main

// component "stop" (property C16): the real client.Broker.Start, run end to end in the e2e rig
// (real store, cache, queue, bins, logger; real stage.Stage behind an in-process transport), with a
// stop request — graceful or immediate — delivered at a chosen point of the recorded event
// sequence, synchronously from the goroutine that produced that event. A watchdog checks that
// Start returns; the final state (persisted queue cache, final directory, source directory) is
// compared with what the Pipeline model (stsdrv stop) predicts from the same case description.
//
// ops of a case
//   conf threads=2 payload=64 chunk=0 order=fifo lastdelay=0 delete=0 attempts=3 scandelay=200
//   file <name> <size> <age-seconds>       a source file present before the sender starts
//   fault <tx|rc|poll|part> <kind>         next entry of that fault queue (see e2e.go)
//   touch <event-substring> <name>         when an event containing the substring is recorded: rewrite the file (new mtime)
//   down <ms>                              at the stop request the receiver goes down for <ms> (0 = for good)
//   sweep <graceful|now> <all|k>           reference run, then one run per stop index (all, or k sampled), 16 at a time
//   stopat <graceful|now> <i|@substring>   one run: stop at event index i (0 = right after start = one-shot),
//                                          or at the first event containing the substring
// answers: conf/file/fault/touch/down → ok; sweep/stopat → "<kind> returned [done=<names>|done=*]" or "<kind> HANG"
// (sweep: the common answer of all its runs, or "mixed …").

import (
	"fmt"
	"os"
	"path/filepath"
	"runtime"
	"sort"
	"strconv"
	"strings"
	"sync"
	"time"

	"github.com/arm-doe/sts"
	"github.com/arm-doe/sts/cache"
)

const (
	stopWatchdog   = 30 * time.Second // bound on stop request → Start returned (the code has 1 s graces in sendCh, startBin, startTrack)
	stopRefTimeout = 25 * time.Second // bound on the reference run reaching "all done"
	stopParallel   = 16
)

type stopComp struct{}

func init() { register(stopComp{}) }

func (stopComp) Name() string { return "stop" }
func (stopComp) Rule() string {
	return "case = scenario (threads, sizes, order, last-delay, delete, source files, fault plan) + stop requests " +
		"(graceful | now) delivered at indices of the recorded event sequence of the real Broker.Start; " +
		"non-trivial = at least one run in which the stop arrived while a file was in flight (after the first " +
		"transmission event and before the last done event of the reference run), or at index 0 (one-shot); " +
		"distinct = scenario + kind + stop specification"
}
func (stopComp) NewExec() Exec { return &stopExec{sc: defaultStopScenario()} }

func (stopComp) AnswerClass(op []string, ans string) string {
	switch op[0] {
	case "sweep", "stopat":
		a := ans
		if i := strings.Index(a, " done="); i > 0 {
			if strings.HasSuffix(a, "done=*") {
				a = a[:i] + " done=*"
			} else {
				a = a[:i] + " done=set"
			}
		}
		if strings.HasPrefix(a, "mixed") {
			a = "mixed"
		}
		return op[0] + ":" + a
	}
	return op[0] + ":" + ans
}

// ---- global statistics (reported in stats.json "extra") ---------------------------------

var stopStats struct {
	sync.Mutex
	runs, graceful, now, hangs, oneShot, inFlight int
	maxLatG, maxLatN, sumLatG, sumLatN            time.Duration
	refEvents                                     []int
	negLeft, heldLeft                             int
}

func (stopComp) ExtraStats() map[string]any {
	s := &stopStats
	s.Lock()
	defer s.Unlock()
	avg := func(sum time.Duration, n int) float64 {
		if n == 0 {
			return 0
		}
		return sum.Seconds() / float64(n)
	}
	return map[string]any{
		"traces":                     s.runs,
		"runs_graceful":              s.graceful,
		"runs_now":                   s.now,
		"runs_one_shot":              s.oneShot,
		"runs_stop_in_flight":        s.inFlight,
		"hangs":                      s.hangs,
		"watchdog_s":                 stopWatchdog.Seconds(),
		"max_shutdown_s_graceful":    s.maxLatG.Seconds(),
		"max_shutdown_s_now":         s.maxLatN.Seconds(),
		"avg_shutdown_s_graceful":    avg(s.sumLatG, s.graceful),
		"avg_shutdown_s_now":         avg(s.sumLatN, s.now),
		"reference_run_event_counts": s.refEvents,
		"files_left_after_negative_verdict": s.negLeft,
		"files_left_by_last_delay":          s.heldLeft,
	}
}

// ---- scenario ----------------------------------------------------------------------------

type stopFile struct {
	name string
	size int
	age  int
}

type stopScenario struct {
	threads, payload, chunk   int
	order                     string
	lastDelay                 int // seconds
	delete                    bool
	attempts                  int
	scanDelay                 int // ms
	backoff                   int // error-backoff in seconds (0: failed requests are retried at once)
	files                     []stopFile
	faults                    [][2]string
	touch                     [][2]string
	down                      int // -1: no; 0: for good; >0: ms
}

func defaultStopScenario() stopScenario {
	return stopScenario{threads: 2, payload: 64, order: "fifo", attempts: 50, scanDelay: 200, down: -1}
}

func (sc *stopScenario) hasNegFault() bool {
	for _, f := range sc.faults {
		if f[0] == "poll" && (f[1] == "failed" || f[1] == "none") {
			return true
		}
	}
	return false
}

func (sc *stopScenario) key() string {
	var b strings.Builder
	fmt.Fprintf(&b, "t%d p%d c%d %s ld%d del%v a%d sd%d|", sc.threads, sc.payload, sc.chunk, sc.order, sc.lastDelay, sc.delete, sc.attempts, sc.scanDelay*10+sc.backoff)
	for _, f := range sc.files {
		fmt.Fprintf(&b, "%s:%d:%d,", f.name, f.size, f.age)
	}
	fmt.Fprintf(&b, "|%v|%v|%d", sc.faults, sc.touch, sc.down)
	return b.String()
}

func stopBody(name string, size int, gen int) []byte {
	b := make([]byte, size)
	for i := range b {
		b[i] = byte('a' + (i*7+len(name)*3+gen*11+int(name[len(name)-1]))%26)
	}
	return b
}

// ---- one run -----------------------------------------------------------------------------

type stopRun struct {
	kind     string
	spec     string // index or @substring
	returned bool
	latency  time.Duration
	stopAt   int    // index of the event at which the stop was delivered (-1: never reached; delivered at the end)
	stopEv   string // that event
	events   []string
	done     map[string]bool // persisted queue cache (re-read from disk): name → done
	final    map[string][]byte
	source   map[string][]byte
	confirmed map[string]bool // files with a positive verdict (passed / waiting) in some poll answer
	negative  map[string]bool // files with a failed verdict, or not-found on their last attempt
	inFlight bool
	stacks   string // on a hang: where the sender's goroutines are
}

// stopBrokerStacks summarises the goroutines that are inside the sts client package (all rigs of the process).
func stopBrokerStacks() string {
	buf := make([]byte, 1<<22)
	buf = buf[:runtime.Stack(buf, true)]
	count := map[string]int{}
	for _, g := range strings.Split(string(buf), "\n\n") {
		if !strings.Contains(g, "sts/client.") {
			continue
		}
		lines := strings.Split(g, "\n")
		var frames []string
		hdr := lines[0]
		if i := strings.Index(hdr, "["); i >= 0 {
			hdr = strings.TrimSuffix(strings.TrimSpace(hdr[i:]), ":")
			if j := strings.Index(hdr, ","); j > 0 {
				hdr = hdr[:j] + "]"
			}
			frames = append(frames, hdr)
		}
		for k, l := range lines[1:] {
			if strings.HasPrefix(l, "\t") {
				if k == 1 { // position of the top frame
					l = strings.TrimSpace(l)
					if j := strings.LastIndex(l, "/"); j >= 0 {
						l = l[j+1:]
					}
					if j := strings.Index(l, " "); j > 0 {
						l = l[:j]
					}
					frames = append(frames, "@"+l)
				}
				continue
			}
			if strings.HasPrefix(l, "created by") {
				continue
			}
			if i := strings.LastIndex(l, "("); i > 0 {
				l = l[:i]
			}
			if j := strings.LastIndex(l, "/"); j >= 0 {
				l = l[j+1:]
			}
			frames = append(frames, l)
			if len(frames) == 6 {
				break
			}
		}
		count[strings.Join(frames, " < ")]++
	}
	var out []string
	for _, k := range sortedKeys(count) {
		out = append(out, fmt.Sprintf("%dx %s", count[k], k))
	}
	return strings.Join(out, " || ")
}

// isNoise: events that do not count for the stop index (every scan persists the cache).
// stopNoise: events that are not stop indices of a sweep ("open" events come from several goroutines in no
// fixed number; a stop is aimed at one by substring, "stopat KIND @open%20NAME").
func stopNoise(ev string) bool { return ev == "persist" || strings.HasPrefix(ev, "open ") }

func (sc *stopScenario) run(kind, spec string) *stopRun {
	conf := defaultE2EConf()
	conf.Threads = sc.threads
	conf.PayloadSize = int64(sc.payload)
	conf.ChunkSize = int64(sc.chunk)
	conf.Order = sc.order
	if sc.order == "none" {
		conf.Order = ""
	}
	conf.LastDelay = time.Duration(sc.lastDelay) * time.Second
	conf.Delete = sc.delete
	conf.PollAttempts = sc.attempts
	conf.ScanDelay = time.Duration(sc.scanDelay) * time.Millisecond
	conf.ErrorBackoff = float64(sc.backoff)
	res := &stopRun{kind: kind, spec: spec, stopAt: -1, confirmed: map[string]bool{}, negative: map[string]bool{}}
	r, err := newE2ERig(conf)
	if err != nil {
		res.events = []string{"rig-error " + err.Error()}
		return res
	}
	defer r.close()
	now := time.Now()
	for _, f := range sc.files {
		r.writeSource(f.name, stopBody(f.name, f.size, 0), now.Add(-time.Duration(f.age)*time.Second))
	}
	for _, f := range sc.faults {
		switch f[0] {
		case "tx":
			r.txFault = append(r.txFault, e2eFault{f[1]})
		case "rc":
			r.rcFault = append(r.rcFault, e2eFault{f[1]})
		case "poll":
			r.pollFault = append(r.pollFault, e2eFault{f[1]})
		case "part":
			r.partFault = append(r.partFault, e2eFault{f[1]})
		}
	}
	graceful := kind == "graceful"
	wantIdx := -1
	wantSub := ""
	wantNth, subSeen := 1, 0
	if strings.HasPrefix(spec, "@") {
		// "@<substring>" or "@<substring>@@N": at the first / N-th event containing the substring
		wantSub = unesc(spec[1:])
		if k := strings.LastIndex(wantSub, "@@"); k > 0 {
			if n, err := stopAtoi(wantSub[k+2:]); err == nil && n >= 1 {
				wantSub, wantNth = wantSub[:k], n
			}
		}
	} else if spec != "end" {
		wantIdx, _ = stopAtoi(spec)
	}
	var mu sync.Mutex
	count := 0
	stopped := false
	var stopTime time.Time
	touched := map[int]bool{}
	seenTouch := map[int]int{}
	deliver := func(ev string) {
		// called with mu held
		stopped = true
		res.stopAt = count
		res.stopEv = ev
		if sc.down >= 0 {
			r.mu.Lock()
			old := r.st
			r.st = nil
			r.mu.Unlock()
			if old != nil {
				go func() { old.VerifStopTimers(); old.Stop(true) }()
			}
			if sc.down > 0 {
				go func() {
					time.Sleep(time.Duration(sc.down) * time.Millisecond)
					r.startReceiver()
				}()
			}
		}
		stopTime = time.Now()
		select {
		case r.stopCh <- graceful:
		default:
		}
	}
	r.hook = func(ev string) {
		mu.Lock()
		defer mu.Unlock()
		for i, t := range sc.touch {
			// "<substring>@@N": the N-th event containing the substring (default: the first)
			want, nth := t[0], 1
			if k := strings.LastIndex(want, "@@"); k > 0 {
				if n, err := stopAtoi(want[k+2:]); err == nil && n >= 1 {
					want, nth = want[:k], n
				}
			}
			if !touched[i] && strings.Contains(ev, want) {
				seenTouch[i]++
				if seenTouch[i] < nth {
					continue
				}
				touched[i] = true
				for _, f := range sc.files {
					if f.name == t[1] {
						r.writeSource(f.name, stopBody(f.name, f.size, 1), time.Now())
					}
				}
			}
		}
		if ev == "persist" || stopped {
			return
		}
		if !stopNoise(ev) {
			count++
		}
		if wantSub != "" && strings.Contains(ev, wantSub) {
			subSeen++
		}
		if (wantIdx >= 0 && count == wantIdx && !stopNoise(ev)) || (wantSub != "" && strings.Contains(ev, wantSub) && subSeen == wantNth) {
			deliver(ev)
			if strings.HasPrefix(ev, "open ") {
				// the opener is held until the stop request has reached the broker's flags (on a loaded machine that
				// can take a while): the worker is then in the middle of its batch when it next looks at them
				for t0 := time.Now(); time.Since(t0) < 5*time.Second; time.Sleep(2 * time.Millisecond) {
					if b := r.broker; b != nil {
						if st, _ := b.VerifStopRequested(); st {
							break
						}
					}
				}
			}
		}
	}
	if wantIdx == 0 {
		// one-shot: the stop request is already waiting when Start begins (app.go: stopClients right after startClients)
		mu.Lock()
		stopped = true
		res.stopAt = 0
		res.stopEv = "(before start)"
		stopTime = time.Now()
		mu.Unlock()
	}
	if err := stopStartSender(r, wantIdx == 0, graceful); err != nil {
		res.events = []string{"start-error " + err.Error()}
		return res
	}
	// wait for the stop to be delivered, or for the scenario to finish (reference run / index beyond the end)
	eligible := 0
	for _, f := range sc.files {
		if f.size > 0 {
			eligible++
		}
	}
	deadline := time.Now().Add(stopRefTimeout)
	for time.Now().Before(deadline) {
		mu.Lock()
		st := stopped
		mu.Unlock()
		if st {
			break
		}
		nd := 0
		cs := r.cacheState()
		for _, f := range sc.files {
			if f.size == 0 {
				continue
			}
			if d, inCache := cs[f.name]; d {
				nd++
			} else if !inCache && sc.delete {
				// done, deleted at the source and dropped from the cache by the scan's clean-up
				if _, err := os.Stat(filepath.Join(r.outDir, f.name)); os.IsNotExist(err) {
					nd++
				}
			}
		}
		if nd >= eligible-sc.heldCount() && eligible > 0 {
			// everything that can be done is done: let the run settle, then stop at the end
			time.Sleep(30 * time.Millisecond)
			break
		}
		time.Sleep(2 * time.Millisecond)
	}
	mu.Lock()
	if !stopped {
		deliver("(end)")
		res.stopAt = -1
	}
	mu.Unlock()
	select {
	case <-r.doneCh:
		res.returned = true
		res.latency = time.Since(stopTime)
		r.broker = nil
	case <-time.After(stopWatchdog):
		res.returned = false
		res.latency = stopWatchdog
		res.stacks = stopBrokerStacks()
	}
	r.mu.Lock()
	r.hook = nil
	res.events = append([]string(nil), r.events...)
	r.mu.Unlock()
	// final state: the queue cache as persisted on disk, the final directory, the source directory
	res.done = map[string]bool{}
	if jc, err := cache.NewJSON(r.cacheDir, r.outDir, ""); err == nil {
		jc.Iterate(func(f sts.Cached) bool {
			res.done[f.GetName()] = f.IsDone()
			return false
		})
	}
	res.final = listTree(r.finalDir)
	res.source = listTree(r.outDir)
	firstTx, lastDone := -1, -1
	n := 0
	attempts := map[string]int{}
	for _, ev := range res.events {
		if stopNoise(ev) {
			continue
		}
		n++
		if strings.HasPrefix(ev, "tx ") && firstTx < 0 {
			firstTx = n
		}
		if strings.HasPrefix(ev, "done ") {
			lastDone = n
		}
		if strings.HasPrefix(ev, "poll -> ") {
			for _, v := range strings.Split(ev[len("poll -> "):], ",") {
				i := strings.LastIndex(v, "=")
				if i < 0 {
					continue
				}
				name := unesc(v[:i])
				switch v[i+1:] {
				case strconv.Itoa(sts.ConfirmPassed), strconv.Itoa(sts.ConfirmWaiting):
					res.confirmed[name] = true
				case strconv.Itoa(sts.ConfirmFailed):
					res.negative[name] = true
				case strconv.Itoa(sts.ConfirmNone):
					attempts[name]++
					if attempts[name] >= sc.attempts {
						res.negative[name] = true
					}
				}
			}
		}
	}
	res.inFlight = res.stopAt >= 0 && firstTx >= 0 && res.stopAt >= firstTx && (lastDone < 0 || res.stopAt < lastDone)
	if !res.returned {
		// the rig's close() would wait on the hung sender; abandon it (goroutines leak until the process ends)
		r.broker = nil
	}
	return res
}

// stopStartSender is e2eRig.startSender, except that for a one-shot run the stop request is placed in the
// (buffered) stop channel before Start runs.
func stopStartSender(r *e2eRig, preStop, graceful bool) error {
	if err := r.startSender(); err != nil {
		return err
	}
	if preStop {
		select {
		case r.stopCh <- graceful:
		default:
		}
	}
	return nil
}

// heldCount: number of groups whose last file (in queue order) is younger than last-delay: Pop() passes over it.
func (sc *stopScenario) heldCount() int { return len(sc.heldNames()) }

func (sc *stopScenario) group(name string) string {
	if i := strings.Index(name, "."); i > 0 {
		return name[:i]
	}
	return ""
}

func (sc *stopScenario) heldNames() map[string]bool {
	out := map[string]bool{}
	if sc.lastDelay <= 0 {
		return out
	}
	groups := map[string][]stopFile{}
	for _, f := range sc.files {
		if f.size > 0 {
			g := sc.group(f.name)
			groups[g] = append(groups[g], f)
		}
	}
	for _, fs := range groups {
		sort.Slice(fs, func(i, j int) bool {
			a, b := fs[i], fs[j]
			switch sc.order {
			case "alpha":
				return a.name < b.name
			case "lifo":
				if a.age != b.age {
					return a.age < b.age // newest first
				}
				return a.name < b.name
			default: // fifo
				if a.age != b.age {
					return a.age > b.age // oldest first
				}
				return a.name < b.name
			}
		})
		last := fs[len(fs)-1]
		if last.age < sc.lastDelay {
			out[last.name] = true
		}
	}
	return out
}

// ---- executor ----------------------------------------------------------------------------

type stopExec struct {
	sc       stopScenario
	failures []string
	nontriv  bool
	keys     []string
}

func (e *stopExec) Close() {}
func (e *stopExec) Oracle() []string {
	f := e.failures
	e.failures = nil
	return f
}
func (e *stopExec) Signature() (bool, string) {
	return e.nontriv, e.sc.key() + "#" + strings.Join(e.keys, ";")
}

// stopAtoi: decimal digits only, at most 9 of them (the same rule as the model driver).
func stopAtoi(v string) (int, error) {
	if len(v) == 0 || len(v) > 9 {
		return 0, fmt.Errorf("not a number")
	}
	for _, c := range v {
		if c < '0' || c > '9' {
			return 0, fmt.Errorf("not a number")
		}
	}
	return strconv.Atoi(v)
}

func parseKV(ws []string) map[string]string {
	m := map[string]string{}
	for _, w := range ws {
		if i := strings.Index(w, "="); i > 0 {
			m[w[:i]] = w[i+1:]
		} else {
			m[w] = ""
		}
	}
	return m
}

func (e *stopExec) Do(op []string) string {
	if os.Getenv("VERIF_STOP_TIMING") != "" && (op[0] == "sweep" || op[0] == "stopat") {
		t0 := time.Now()
		defer func() { fmt.Fprintf(os.Stderr, "%-60s %.1fs\n", strings.Join(op, " "), time.Since(t0).Seconds()) }()
	}
	switch op[0] {
	case "conf":
		kv := parseKV(op[1:])
		sc := e.sc // changes are applied only if the whole line is valid
		geti := func(k string, dst *int, lo, hi int) bool {
			v, ok := kv[k]
			if !ok {
				return true
			}
			n, err := stopAtoi(v)
			if err != nil || n < lo || n > hi {
				return false
			}
			*dst = n
			delete(kv, k)
			return true
		}
		del := 0
		if sc.delete {
			del = 1
		}
		ok := geti("threads", &sc.threads, 1, 8) && geti("payload", &sc.payload, 10, 1<<20) && geti("chunk", &sc.chunk, 0, 1<<20) &&
			geti("lastdelay", &sc.lastDelay, 0, 1<<30) && geti("delete", &del, 0, 1) && geti("attempts", &sc.attempts, 1, 100) &&
			geti("scandelay", &sc.scanDelay, 1, 100000) && geti("backoff", &sc.backoff, 0, 5)
		if v, has := kv["order"]; has {
			if v != "fifo" && v != "lifo" && v != "alpha" && v != "none" {
				ok = false
			}
			sc.order = v
			delete(kv, "order")
		}
		sc.delete = del == 1
		if !ok || len(kv) != 0 {
			return "bad-op"
		}
		e.sc = sc
		return "ok"
	case "file":
		if len(op) != 4 {
			return "bad-op"
		}
		size, e1 := stopAtoi(op[2])
		age, e2 := stopAtoi(op[3])
		name := unesc(op[1])
		if e1 != nil || e2 != nil || size < 0 || size > 1<<20 || age < 0 || name == "" || strings.Contains(name, "/") {
			return "bad-op"
		}
		for _, f := range e.sc.files {
			if f.name == name {
				return "bad-op"
			}
		}
		e.sc.files = append(e.sc.files, stopFile{name, size, age})
		return "ok"
	case "fault":
		if len(op) != 3 {
			return "bad-op"
		}
		okk := false
		switch op[1] {
		case "tx":
			okk = op[2] == "err" || op[2] == "lost" || strings.HasPrefix(op[2], "cut:") || strings.HasPrefix(op[2], "206:")
		case "rc", "part":
			okk = op[2] == "err"
		case "poll":
			okk = op[2] == "err" || op[2] == "failed" || op[2] == "none"
		}
		if !okk {
			return "bad-op"
		}
		e.sc.faults = append(e.sc.faults, [2]string{op[1], op[2]})
		return "ok"
	case "touch":
		if len(op) != 3 {
			return "bad-op"
		}
		e.sc.touch = append(e.sc.touch, [2]string{unesc(op[1]), unesc(op[2])})
		return "ok"
	case "down":
		if len(op) != 2 {
			return "bad-op"
		}
		n, err := stopAtoi(op[1])
		if err != nil || n < 0 {
			return "bad-op"
		}
		e.sc.down = n
		return "ok"
	case "stopat":
		if len(op) != 3 || (op[1] != "graceful" && op[1] != "now") {
			return "bad-op"
		}
		if !strings.HasPrefix(op[2], "@") {
			if n, err := stopAtoi(op[2]); err != nil || n < 0 {
				return "bad-op"
			}
		}
		if len(e.sc.files) == 0 || (op[1] == "graceful" && e.sc.down == 0) {
			return "bad-op" // a graceful stop cannot finish while the receiver stays down: outside the bounded-fault hypothesis
		}
		res := e.sc.run(op[1], op[2])
		e.keys = append(e.keys, op[1]+"@"+op[2])
		return e.judge(res)
	case "sweep":
		if len(op) != 3 || (op[1] != "graceful" && op[1] != "now") || len(e.sc.files) == 0 || (op[1] == "graceful" && e.sc.down == 0) {
			return "bad-op"
		}
		k := -1
		if op[2] != "all" {
			n, err := stopAtoi(op[2])
			if err != nil || n < 1 {
				return "bad-op"
			}
			k = n
		}
		return e.sweep(op[1], k)
	}
	return "bad-op"
}

func (e *stopExec) sweep(kind string, k int) string {
	ref := e.sc.run("graceful", "end")
	n := 0
	for _, ev := range ref.events {
		if !stopNoise(ev) {
			n++
		}
	}
	stopStats.Lock()
	stopStats.refEvents = append(stopStats.refEvents, n)
	stopStats.Unlock()
	refAns := e.judge(ref)
	var idx []int
	if k < 0 || k >= n+1 {
		for i := 0; i <= n; i++ {
			idx = append(idx, i)
		}
	} else {
		seen := map[int]bool{}
		for j := 0; j < k; j++ {
			i := 0
			if k > 1 {
				i = j * n / (k - 1)
			}
			if !seen[i] {
				seen[i] = true
				idx = append(idx, i)
			}
		}
	}
	results := make([]*stopRun, len(idx))
	var wg sync.WaitGroup
	sem := make(chan struct{}, stopParallel)
	for j, i := range idx {
		wg.Add(1)
		sem <- struct{}{}
		go func(j, i int) {
			defer wg.Done()
			defer func() { <-sem }()
			results[j] = e.sc.run(kind, strconv.Itoa(i))
		}(j, i)
	}
	wg.Wait()
	e.keys = append(e.keys, fmt.Sprintf("%s-sweep-%d", kind, len(idx)))
	answers := map[string][]int{}
	var order []string
	if kind == "graceful" {
		answers[refAns] = append(answers[refAns], -1)
		order = append(order, refAns)
	} else if !strings.Contains(refAns, "returned") {
		answers[refAns] = append(answers[refAns], -1)
		order = append(order, refAns)
	}
	for j, res := range results {
		a := e.judge(res)
		if _, ok := answers[a]; !ok {
			order = append(order, a)
		}
		answers[a] = append(answers[a], idx[j])
	}
	if len(order) == 1 {
		return order[0]
	}
	var parts []string
	for _, a := range order {
		is := answers[a]
		if len(is) > 4 {
			is = is[:4]
		}
		parts = append(parts, fmt.Sprintf("[%s at %v]", a, is))
	}
	return "mixed " + esc(strings.Join(parts, " "))
}

// judge evaluates the oracle on one run and returns its canonical answer.
func (e *stopExec) judge(res *stopRun) string {
	sc := &e.sc
	where := fmt.Sprintf("%s stop at event %s (#%d %q)", res.kind, res.spec, res.stopAt, res.stopEv)
	if os.Getenv("VERIF_STOP_DEBUG") == "2" {
		fmt.Fprintf(os.Stderr, "---- run %s returned=%v latency=%v\n", where, res.returned, res.latency)
		for i, ev := range res.events {
			fmt.Fprintf(os.Stderr, "     %3d %s\n", i, ev)
		}
	}
	stopStats.Lock()
	stopStats.runs++
	if res.kind == "graceful" {
		stopStats.graceful++
		if res.returned {
			stopStats.sumLatG += res.latency
			if res.latency > stopStats.maxLatG {
				stopStats.maxLatG = res.latency
			}
		}
	} else {
		stopStats.now++
		if res.returned {
			stopStats.sumLatN += res.latency
			if res.latency > stopStats.maxLatN {
				stopStats.maxLatN = res.latency
			}
		}
	}
	if res.spec == "0" {
		stopStats.oneShot++
	}
	if res.inFlight {
		stopStats.inFlight++
	}
	if !res.returned {
		stopStats.hangs++
	}
	stopStats.Unlock()
	if res.inFlight || res.spec == "0" {
		e.nontriv = true
	}
	if !res.returned {
		tail := res.events
		if len(tail) > 12 {
			tail = tail[len(tail)-12:]
		}
		e.failures = append(e.failures, fmt.Sprintf("stop-hang: %s: Start did not return within %v; last events: %s; goroutines: %s",
			where, stopWatchdog, strings.Join(tail, " | "), res.stacks))
		return res.kind + " HANG"
	}
	// nothing confirmed may be left unrecorded in the persisted cache (both kinds of stop)
	for _, name := range sortedKeys(res.confirmed) {
		if res.done[name] {
			continue
		}
		if _, inCache := res.done[name]; !inCache && sc.delete {
			if _, gone := res.source[name]; !gone {
				continue // delivered, deleted at the source and aged out of the cache
			}
		}
		e.failures = append(e.failures, fmt.Sprintf("confirmed-unrecorded: %s: %s was answered passed/waiting by the receiver but is not done in the persisted queue cache",
			where, name))
	}
	if res.kind != "graceful" {
		return "now returned"
	}
	held := sc.heldNames()
	// with delete=1 a done file is removed at the source and later dropped from the cache by the scan's clean-up
	isDone := func(name string) bool {
		if res.done[name] {
			return true
		}
		if _, inCache := res.done[name]; !inCache && sc.delete {
			// (a positive verdict stands for the delivery: the receiver answers "passed" from the moment the file is
			// logged, and moves it into the final directory afterwards, on its own schedule; on a loaded machine the
			// listing taken when Start returns can precede that move)
			_, atSource := res.source[name]
			_, delivered := res.final[name]
			return !atSource && (delivered || res.confirmed[name])
		}
		return false
	}
	var doneNames []string
	for _, f := range sc.files {
		if f.size == 0 {
			continue
		}
		touchedFile := false
		for _, t := range sc.touch {
			if t[1] == f.name {
				touchedFile = true
			}
		}
		if isDone(f.name) {
			doneNames = append(doneNames, f.name)
			continue
		}
		switch {
		case touchedFile:
			// changed while being sent: picked up by the next scan, which a stopping sender no longer runs
		case held[f.name]:
			stopStats.Lock()
			stopStats.heldLeft++
			stopStats.Unlock()
			e.failures = append(e.failures, fmt.Sprintf("undrained-last-delay: %s: %s (last file of its group, younger than last-delay=%ds) was found by the scan but is not sent when Start returns",
				where, f.name, sc.lastDelay))
		case res.negative[f.name]:
			stopStats.Lock()
			stopStats.negLeft++
			stopStats.Unlock()
			if !sc.hasNegFault() {
				// a negative verdict nobody scripted (poll-attempts 1 or 3 and the receiver still validating when the
				// poll arrived): which run gets one is a matter of timing; the canonical answer names the file with
				// the done ones so that the answer does not depend on it (the oracle treats it like a scripted one)
				doneNames = append(doneNames, f.name)
			}
		default:
			sent := false
			for _, ev := range res.events {
				if strings.HasPrefix(ev, "sent "+esc(f.name)+" ") {
					sent = true
				}
			}
			if os.Getenv("VERIF_STOP_DEBUG") != "" {
				_, atSource := res.source[f.name]
				_, delivered := res.final[f.name]
				d, inCache := res.done[f.name]
				fmt.Fprintf(os.Stderr, "---- undrained %s %s: inCache=%v done=%v atSource=%v delivered=%v\n", where, f.name, inCache, d, atSource, delivered)
				fmt.Fprintf(os.Stderr, "     final=%v source=%v done=%v\n", sortedNames(res.final), sortedNames(res.source), res.done)
				for _, ev := range res.events {
					fmt.Fprintln(os.Stderr, "    ", ev)
				}
			}
			e.failures = append(e.failures, fmt.Sprintf("undrained: %s: %s was found by a completed scan, is unchanged and had no negative verdict, but is not done at return (sent logged: %v, confirmed: %v)",
				where, f.name, sent, res.confirmed[f.name]))
		}
	}
	if sc.hasNegFault() || len(sc.touch) > 0 {
		return "graceful returned done=*"
	}
	sort.Strings(doneNames)
	for i := range doneNames {
		doneNames[i] = esc(doneNames[i])
	}
	if len(doneNames) == 0 {
		return "graceful returned done=-"
	}
	return "graceful returned done=" + strings.Join(doneNames, ",")
}

// ---- generator, corpus -------------------------------------------------------------------

func stopConfLine(r *Rand) (string, int) {
	threads := r.Range(1, 3)
	payload := []int{32, 64, 100, 256}[r.Intn(4)]
	chunk := 0
	if r.Chance(0.4) {
		chunk = []int{16, 32, 50}[r.Intn(3)]
		if chunk > payload {
			chunk = payload
		}
	}
	order := []string{"fifo", "fifo", "alpha", "lifo", "none"}[r.Intn(5)]
	del := 0
	if r.Chance(0.25) {
		del = 1
	}
	return fmt.Sprintf("conf threads=%d payload=%d chunk=%d order=%s lastdelay=0 delete=%d attempts=%d scandelay=%d",
		threads, payload, chunk, order, del, []int{50, 50, 3, 1}[r.Intn(4)], []int{100, 200, 400}[r.Intn(3)]), payload
}

func stopFiles(r *Rand, payload int) []string {
	n := r.Range(1, 6)
	var out []string
	groups := []string{"g", "h", "k"}
	for i := 0; i < n; i++ {
		size := []int{1, payload - 1, payload, payload + 1, 3 * payload, 7, 2*payload + 5}[r.Intn(7)]
		if size < 1 {
			size = 1
		}
		name := fmt.Sprintf("%s.f%d", groups[r.Intn(len(groups))], i)
		if r.Chance(0.1) {
			name = fmt.Sprintf("plain%d", i)
		}
		out = append(out, fmt.Sprintf("file %s %d %d", name, size, 3600+10*i))
	}
	if r.Chance(0.15) {
		out = append(out, "file g.empty 0 3700")
	}
	return out
}

func stopFaults(r *Rand) []string {
	var out []string
	n := r.Intn(4)
	if r.Chance(0.2) {
		// a burst of negative verdicts (more than the retry channel may hold)
		for i := r.Range(2, 5); i > 0; i-- {
			out = append(out, []string{"fault poll failed", "fault poll none"}[r.Intn(2)])
		}
	}
	for i := 0; i < n; i++ {
		switch r.Intn(8) {
		case 0:
			out = append(out, "fault tx err")
		case 1:
			out = append(out, fmt.Sprintf("fault tx cut:%d", r.Intn(2)))
		case 2:
			out = append(out, "fault tx lost")
		case 3:
			out = append(out, fmt.Sprintf("fault tx 206:%d", r.Intn(2)))
		case 4:
			out = append(out, "fault rc err")
		case 5:
			out = append(out, "fault poll err")
		case 6:
			out = append(out, "fault poll failed")
		case 7:
			out = append(out, "fault poll none")
		}
	}
	return out
}

func (stopComp) Generate(r *Rand, tier string, n int) [][]string {
	var cases [][]string
	for i := 0; i < n; i++ {
		if i%7 == 5 {
			th := r.Range(1, 2)
			cases = append(cases, stopBacklog(th, r.Range(30, 50)*th,
				fmt.Sprintf("stopat now @open%%20g.@@%d", r.Range(2, 12)), fmt.Sprintf("stopat graceful @open%%20g.@@%d", r.Range(2, 40))))
			continue
		}
		conf, payload := stopConfLine(r)
		c := []string{conf}
		c = append(c, stopFiles(r, payload)...)
		if r.Chance(0.6) {
			c = append(c, stopFaults(r)...)
		}
		switch {
		case tier == "thorough":
			c = append(c, "sweep graceful all", "sweep now all")
		case i%4 == 3:
			// malformed / boundary stream
			c = append(c, []string{"sweep graceful 0", "stopat later 3", "conf threads=0", "file a/b 3 3", "fault tx nope", "stopat graceful 0", "stopat now 0", "stopat graceful 100000"}...)
		default:
			c = append(c, fmt.Sprintf("sweep graceful %d", r.Range(5, 8)), fmt.Sprintf("sweep now %d", r.Range(4, 6)))
		}
		cases = append(cases, c)
	}
	return cases
}

// stopBacklog: a backlog of n small files (several per payload-size batch, more batches than the hash hand-over
// channel holds) and stops aimed at the k-th open of the scan's hashing phase.
func stopBacklog(threads, n int, stops ...string) []string {
	c := []string{fmt.Sprintf("conf threads=%d payload=100 chunk=0 order=alpha lastdelay=0 delete=0 attempts=50 scandelay=200", threads)}
	for i := 0; i < n; i++ {
		c = append(c, fmt.Sprintf("file g.f%02d 32 %d", i, 3600-i))
	}
	return append(c, stops...)
}

func (stopComp) Corpus() [][]string {
	return [][]string{
		// an immediate stop while the scan is hashing a backlog: the dispatcher of hash() sits in `ch <-` (capacity
		// 2*threads), the worker is in the middle of a 4-file batch; the workers must keep taking batches off the
		// channel (seed C16e: `return` for `break` in hashFiles -> Start never returns)
		stopBacklog(1, 40, "stopat now @open%20g.@@2", "stopat now @open%20g.@@6", "stopat graceful @open%20g.@@2"),
		stopBacklog(2, 60, "stopat now @open%20g.@@3"),
		// one-shot run of three files in two groups, both kinds of stop at index 0 and in the middle
		{"conf threads=2 payload=64 chunk=0 order=fifo lastdelay=0 delete=0 attempts=50 scandelay=200",
			"file g.a 27 3600", "file g.b 150 3590", "file h.c 1 3580",
			"stopat graceful 0", "stopat now 0", "stopat graceful 5", "stopat now 5"},
		// immediate stop while the receiver is down for good: the retry loops of startSend / startValidate must give up
		{"conf threads=1 payload=64 chunk=0 order=fifo lastdelay=0 delete=0 attempts=50 scandelay=200",
			"file g.a 100 3600", "file g.b 100 3590", "down 0",
			"stopat now @tx", "stopat now @sent", "stopat now 2"},
		// graceful stop while the receiver is down for 1.5 s: the drain completes after it is back
		{"conf threads=2 payload=64 chunk=0 order=fifo lastdelay=0 delete=0 attempts=50 scandelay=200",
			"file g.a 100 3600", "file g.b 30 3590", "down 1500",
			"stopat graceful @tx"},
		// a failed verdict before / during a graceful stop (finish does not retry on a stop)
		{"conf threads=1 payload=64 chunk=0 order=fifo lastdelay=0 delete=0 attempts=3 scandelay=200",
			"file g.a 20 3600", "file g.b 20 3590", "fault poll failed",
			"stopat graceful 0", "stopat graceful @poll", "sweep graceful 4"},
		// threads=1, many small payloads: channels of capacity 2 fill up
		{"conf threads=1 payload=32 chunk=0 order=alpha lastdelay=0 delete=1 attempts=50 scandelay=200",
			"file g.a 32 3600", "file g.b 32 3590", "file g.c 32 3580", "file g.d 32 3570", "file g.e 32 3560", "file g.f 32 3550", "file g.g 32 3540",
			"sweep graceful 6", "sweep now 4"},
		// S14 (repaired by `fix: tracker waits for ever …`): a two-chunk file changes while it is being sent, the
		// transmission of its first chunk fails and that chunk is dropped as "changed", the second chunk is tracked:
		// the tracker's entry can never complete; a graceful stop before the next scan used to hang in wgValidate.Wait()
		{"conf threads=1 payload=64 chunk=64 order=fifo lastdelay=0 delete=0 attempts=50 scandelay=5000",
			"file g.big 128 3600", "fault tx err", "touch tx%20g.big%3a0%3a64 g.big",
			"stopat graceful @err", "stopat now @err"},
		// S14b (repaired by `fix: tracker blocks forever after handing on its last files …`): one thread, seven
		// one-payload files: chValidate (capacity 2) fills, the tracker's input closes while entries wait for room,
		// the next pass hands them on and used to select on a nil channel and a nil timer (3-7 of 41 stop indices hung,
		// index 0 = one-shot among them)
		{"conf threads=1 payload=32 chunk=0 order=alpha lastdelay=0 delete=0 attempts=50 scandelay=200",
			"file g.a 32 3600", "file g.b 32 3590", "file g.c 32 3580", "file g.d 32 3570", "file g.e 32 3560", "file g.f 32 3550", "file g.g 32 3540",
			"sweep graceful all"},
		// more failed verdicts than the retry channel holds (2 * threads) after a graceful stop: the retry workers
		// have left, finish() must not wait for room in chRetry (it gives up on ANY stop)
		{"conf threads=1 payload=32 chunk=0 order=alpha lastdelay=0 delete=0 attempts=50 scandelay=200",
			"file g.a 20 3600", "file g.b 20 3590", "file g.c 20 3580", "file g.d 20 3570", "file g.e 20 3560",
			"fault poll failed", "fault poll failed", "fault poll failed",
			"stopat graceful 0", "sweep graceful 6"},
		// ... with the receiver down for 1.5 s from the stop request on: the transmissions complete after the retry
		// workers have left (they give up one second after any stop), then every file of the poll gets a failed verdict
		{"conf threads=1 payload=32 chunk=0 order=alpha lastdelay=0 delete=0 attempts=50 scandelay=200",
			"file g.a 20 3600", "file g.b 20 3590", "file g.c 20 3580", "file g.d 20 3570", "file g.e 20 3560",
			"down 1500", "fault poll failed", "fault poll failed", "fault poll failed",
			"stopat graceful 3"},
		{"conf threads=2 payload=32 chunk=0 order=fifo lastdelay=0 delete=0 attempts=1 scandelay=200",
			"file g.a 20 3600", "file g.b 20 3590", "file g.c 20 3580", "file h.d 20 3570", "file h.e 20 3560", "file k.f 20 3550",
			"fault poll none", "fault poll none", "fault poll failed",
			"stopat graceful 0", "stopat graceful @sent"},
		// immediate stop while the pipeline is backed up and the scanner is blocked handing on its third batch (the
		// first transmission keeps failing, one second of backoff; two files change at the second and third failure):
		// the stop flags must be published before the broadcast that only an idle scanner reads
		{"conf threads=1 payload=32 chunk=0 order=alpha lastdelay=0 delete=0 attempts=50 scandelay=100 backoff=1",
			"file g.a 32 3600", "file g.b 32 3600", "file g.c 32 3600", "file g.d 32 3600", "file g.e 32 3600", "file g.f 32 3600",
			"file g.g 32 3600", "file g.h 32 3600", "file g.i 32 3600", "file g.j 32 3600", "file g.k 32 3600", "file g.l 32 3600",
			"fault tx err", "fault tx err", "fault tx err", "fault tx err", "fault tx err", "fault tx err",
			"touch tx%20g.a@@2 g.k", "touch tx%20g.a@@3 g.l", "down 0", "stopat now @cache-add%20g.l@@2"},
		// last-delay shorter than the age of the files withholds nothing
		{"conf threads=2 payload=64 chunk=0 order=lifo lastdelay=5 delete=0 attempts=50 scandelay=200",
			"file g.a 27 3600", "file g.b 150 3590", "file h.c 1 3580", "file g.empty 0 3500",
			"stopat graceful 0", "sweep graceful 5"},
	}
}
