package main

import (
	"bytes"
	"encoding/json"
	"fmt"
	"os"
	"path/filepath"
	"regexp"
	"strconv"
	"strings"
	"sync"
	"time"

	"github.com/arm-doe/sts/stage"
)

// component "live" (property C03): whole-system liveness. A case describes a configuration,
// a set of source files, a FINITE fault plan (failing / cut / unanswered requests, failing
// poll and recovery requests, corruption of a staged file, restarts of either side) and then
// `run <timeout-s>`: the executor builds the end-to-end rig (real client.Broker, real
// stage.Stage, in-process fault-injecting transport, harness/e2e.go), lets it run and waits
// for quiescence = every source file marked done in the sender's queue cache AND present
// byte-identical in the final directory AND nothing left in the staging directory. The answer
// is `complete files=<n> delivered=<n> staged=0` or, when the watchdog expires,
// `stuck: ...` (an oracle failure). The model driver answers what the liveness theorem
// (Props/C03.lean eventually_complete) guarantees for a finite fault plan: complete.
//
// `trace` (second op): the executor rewrites it into the sequence of observations recorded
// during the run (sender: sent / poll verdicts / done / retry / restart; receiver, through
// the verifhook points: complete / corrupted / validated / logged); the model driver replays
// them on the abstract model (one abstract part per file) and checks that every observed
// step is enabled and every poll verdict is the one the model's receiver phase gives.
type liveComp struct {
	mu  sync.Mutex
	pre map[string]*liveFuture
}

type liveFuture struct {
	done chan struct{}
	res  *liveResult
}

var theLive = &liveComp{pre: map[string]*liveFuture{}}

func init() {
	register(theLive)
	extraStageHook = liveHook
}

func (*liveComp) Name() string { return "live" }
func (*liveComp) Rule() string {
	return "case = configuration + 1..6 source files + finite fault plan (request faults, poll / recovery faults, staged-file corruption, " +
		"restarts of either side) + run to quiescence; non-trivial = at least 2 files and at least one fault consumed or restart performed; " +
		"distinct = by the op sequence"
}

func (*liveComp) AnswerClass(op []string, ans string) string {
	if op[0] == "run" {
		if strings.HasPrefix(ans, "complete") {
			return "run:complete"
		}
		if strings.HasPrefix(ans, "stuck") {
			return "run:stuck"
		}
		return "run:" + ans
	}
	return op[0] + ":" + ans
}

// ---------------------------------------------------------------- case description

type liveFile struct {
	name string
	size int
	seed uint64
}

type liveRestart struct {
	who  string
	at   int
	done bool
}

type liveCase struct {
	conf     e2eConf
	files    []liveFile
	tx       []e2eFault
	poll     []e2eFault
	rc       []e2eFault
	corrupt  int
	slow     int
	restarts []liveRestart
}

func liveDefaultConf() e2eConf {
	c := defaultE2EConf()
	return c
}

var liveTxRe = regexp.MustCompile(`^(err|lost|cut:[0-9]{1,2}|206:[0-9]{1,2})$`)

// liveNameOK: 1..20 characters of [a-z0-9.], first a letter, last not a dot, no two dots in a row.
func liveNameOK(s string) bool {
	if len(s) < 1 || len(s) > 20 || s[0] < 'a' || s[0] > 'z' || s[len(s)-1] == '.' {
		return false
	}
	for i := 0; i < len(s); i++ {
		c := s[i]
		if !(c >= 'a' && c <= 'z' || c >= '0' && c <= '9' || c == '.') {
			return false
		}
		if c == '.' && i > 0 && s[i-1] == '.' {
			return false
		}
	}
	return true
}

func liveKV(tok, key string) (string, bool) {
	if !strings.HasPrefix(tok, key+"=") {
		return "", false
	}
	return tok[len(key)+1:], true
}

func liveNat(s string, max int) (int, bool) {
	if s == "" || len(s) > 6 {
		return 0, false
	}
	for _, c := range s {
		if c < '0' || c > '9' {
			return 0, false
		}
	}
	n, err := strconv.Atoi(s)
	if err != nil || n > max {
		return 0, false
	}
	return n, true
}

// apply parses one op line of the description part; false = bad-op.
func (lc *liveCase) apply(op []string) bool {
	switch op[0] {
	case "conf":
		if len(op) != 7 {
			return false
		}
		keys := []string{"threads", "payload", "chunk", "order", "attempts", "delete"}
		vals := make([]string, 6)
		for i, k := range keys {
			v, ok := liveKV(op[i+1], k)
			if !ok {
				return false
			}
			vals[i] = v
		}
		th, ok1 := liveNat(vals[0], 8)
		pl, ok2 := liveNat(vals[1], 100000)
		ch, ok3 := liveNat(vals[2], 100000)
		at, ok4 := liveNat(vals[4], 20)
		de, ok5 := liveNat(vals[5], 1)
		if !(ok1 && ok2 && ok3 && ok4 && ok5) || th < 1 || pl < 10 || at < 1 {
			return false
		}
		switch vals[3] {
		case "fifo", "lifo", "alpha", "none":
		default:
			return false
		}
		c := liveDefaultConf()
		c.Threads, c.PayloadSize, c.ChunkSize, c.PollAttempts, c.Delete = th, int64(pl), int64(ch), at, de == 1
		c.Order = vals[3]
		if c.Order == "none" {
			c.Order = ""
		}
		lc.conf = c
		return true
	case "file":
		if len(op) != 4 || !liveNameOK(op[1]) {
			return false
		}
		for _, f := range lc.files {
			if f.name == op[1] {
				return false
			}
		}
		sz, ok1 := liveNat(op[2], 100000)
		sd, ok2 := liveNat(op[3], 999999)
		if !ok1 || !ok2 || len(lc.files) >= 12 {
			return false
		}
		lc.files = append(lc.files, liveFile{op[1], sz, uint64(sd)})
		return true
	case "fault":
		switch {
		case len(op) == 3 && op[1] == "tx" && liveTxRe.MatchString(op[2]):
			lc.tx = append(lc.tx, e2eFault{op[2]})
		case len(op) == 3 && op[1] == "poll" && op[2] == "err":
			lc.poll = append(lc.poll, e2eFault{"err"})
		case len(op) == 3 && op[1] == "rc" && op[2] == "err":
			lc.rc = append(lc.rc, e2eFault{"err"})
		case len(op) == 2 && op[1] == "corrupt":
			lc.corrupt++
		case len(op) == 2 && op[1] == "slow":
			lc.slow++
		default:
			return false
		}
		return true
	case "restart":
		if len(op) != 3 || (op[1] != "receiver" && op[1] != "sender") {
			return false
		}
		at, ok := liveNat(op[2], 100000)
		if !ok {
			return false
		}
		lc.restarts = append(lc.restarts, liveRestart{who: op[1], at: at})
		return true
	}
	return false
}

func liveBody(size int, seed uint64) []byte {
	b := make([]byte, size)
	x := seed*6364136223846793005 + 1442695040888963407
	for i := range b {
		x = x*6364136223846793005 + 1442695040888963407
		b[i] = byte('a' + (x>>33)%26)
	}
	return b
}

// ---------------------------------------------------------------- one run

type liveResult struct {
	answer   string
	failures []string
	trace    []string
	dur      time.Duration
	faulted  bool
}

type liveRun struct {
	rig     *e2eRig
	mu      sync.Mutex
	corrupt int
	slow    int // validations still to be delayed (fault slow)
	index   map[string]int
	busy    int // validations / finalizations spawned and not finished (verifhook spawn.* / done.*)
}

// waitIdle waits until the receiver's background goroutines have nothing in flight, so that
// abandoning the instance is a process death at an idle moment.
func (lr *liveRun) waitIdle(old *stage.Stage) {
	for k := 0; k < 2; k++ {
		deadline := time.Now().Add(5 * time.Second)
		for time.Now().Before(deadline) {
			lr.mu.Lock()
			b := lr.busy
			lr.mu.Unlock()
			if b <= 0 {
				break
			}
			time.Sleep(time.Millisecond)
		}
		if old != nil {
			old.VerifStopTimers()
		}
	}
	lr.mu.Lock()
	lr.busy = 0
	lr.mu.Unlock()
}

var liveRigs sync.Map // staging directory -> *liveRun

// liveHook sees every verifhook point of every Stage; the ones under the staging directory
// of a live run are recorded in that rig's event list (same mutex as the sender's events, so
// the order is the order of the calls).
func liveHook(label string, kv ...any) {
	switch label {
	case "stage.d.full", "stage.d.logged":
		path, _ := kv[0].(string)
		lr, name := liveFind(path)
		if lr == nil {
			return
		}
		if label == "stage.d.logged" {
			lr.rig.event("r-logged %s", esc(name))
			return
		}
		lr.rig.event("r-complete %s", esc(name))
		lr.mu.Lock()
		do := lr.corrupt > 0
		if do {
			if b, err := os.ReadFile(path + ".full"); err == nil && len(b) > 0 {
				b[0] ^= 0x55
				os.WriteFile(path+".full", b, 0o600)
				lr.corrupt--
			} else {
				do = false
			}
		}
		lr.mu.Unlock()
		if do {
			lr.rig.event("r-corrupt %s", esc(name))
		}
	case "stage.process.begin":
		// fault slow: the next validation takes 150 ms (a large file being hashed): the sender's
		// polls meanwhile are answered "not found" (state received) and run out of attempts
		if len(kv) < 3 {
			return
		}
		root, _ := kv[2].(string)
		if v, ok := liveRigs.Load(filepath.Clean(root)); ok {
			lr := v.(*liveRun)
			lr.mu.Lock()
			do := lr.slow > 0
			if do {
				lr.slow--
			}
			lr.mu.Unlock()
			if do {
				time.Sleep(150 * time.Millisecond)
			}
		}
	case "stage.process.end":
		if len(kv) < 3 {
			return
		}
		name, _ := kv[0].(string)
		root, _ := kv[2].(string)
		if v, ok := liveRigs.Load(filepath.Clean(root)); ok {
			v.(*liveRun).rig.event("r-processed %s", esc(name))
		}
	case "stage.spawn.validate", "stage.spawn.finalize", "stage.done.validate", "stage.done.finalize":
		root, _ := kv[len(kv)-1].(string)
		if v, ok := liveRigs.Load(filepath.Clean(root)); ok {
			lr := v.(*liveRun)
			lr.mu.Lock()
			if strings.HasPrefix(label, "stage.spawn.") {
				lr.busy++
			} else {
				lr.busy--
			}
			lr.mu.Unlock()
		}
	}
}

func liveFind(path string) (*liveRun, string) {
	var lr *liveRun
	var name string
	liveRigs.Range(func(k, v any) bool {
		root := k.(string)
		if strings.HasPrefix(path, root+string(filepath.Separator)) {
			lr = v.(*liveRun)
			name = filepath.ToSlash(path[len(root)+1:])
			return false
		}
		return true
	})
	return lr, name
}

// maxCompletions = the file the receiver completed most often so far, and how often.
func (lr *liveRun) maxCompletions() (string, int) {
	lr.rig.mu.Lock()
	defer lr.rig.mu.Unlock()
	cnt := map[string]int{}
	best, bestN := "", 0
	for _, e := range lr.rig.events {
		if strings.HasPrefix(e, "r-complete ") {
			cnt[e]++
			if cnt[e] > bestN {
				best, bestN = e[len("r-complete "):], cnt[e]
			}
		}
	}
	return best, bestN
}

// countEvents = recorded events other than the periodic "persist".
func (lr *liveRun) countEvents() int {
	lr.rig.mu.Lock()
	defer lr.rig.mu.Unlock()
	n := 0
	for _, e := range lr.rig.events {
		if e != "persist" && !strings.HasPrefix(e, "pollv ") {
			n++
		}
	}
	return n
}

// liveMissing lists what keeps the rig from being quiescent.
func liveMissing(lc *liveCase, rig *e2eRig, bodies map[string][]byte) (undelivered, differs, notDone, staged []string) {
	cs := rig.cacheState()
	final := listTree(rig.finalDir)
	for _, f := range lc.files {
		// done = marked done in the queue cache; where the tag deletes delivered files the
		// source is removed and the entry may leave the cache afterwards
		if d, ok := cs[f.name]; ok && !d {
			notDone = append(notDone, f.name)
		} else if !ok {
			if _, err := os.Stat(filepath.Join(rig.outDir, f.name)); err == nil || !lc.conf.Delete {
				notDone = append(notDone, f.name)
			}
		}
		b, ok := final[f.name]
		if !ok {
			undelivered = append(undelivered, f.name)
		} else if !bytes.Equal(b, bodies[f.name]) {
			differs = append(differs, f.name)
		}
	}
	// A partial (`.part` + companion) of a name that is delivered and done is a "stray partial"
	// (parts of an already delivered file transmitted again after a lost answer; they can never
	// complete): the receiver's cleaner removes those by age (stage.cleanStrays, 24 h) and
	// Recover removes the orphaned companion. They are not files waiting for delivery.
	deliveredDone := map[string]bool{}
	for _, f := range lc.files {
		deliveredDone[f.name] = true
	}
	for _, n := range append(append(append([]string{}, undelivered...), differs...), notDone...) {
		deliveredDone[n] = false
	}
	for _, n := range sortedNames(listTree(rig.stageDir)) {
		base := strings.TrimSuffix(strings.TrimSuffix(n, ".part"), ".cmp")
		if base != n && deliveredDone[base] {
			if _, err := os.Stat(filepath.Join(rig.stageDir, base+".full")); err != nil {
				if _, err := os.Stat(filepath.Join(rig.stageDir, base+".wait")); err != nil {
					continue
				}
			}
		}
		staged = append(staged, n)
	}
	return
}

func liveExecute(lc *liveCase, timeout time.Duration) *liveResult {
	res := &liveResult{}
	t0 := time.Now()
	rig, err := newE2ERig(lc.conf)
	if err != nil {
		res.answer = "error " + esc(err.Error())
		return res
	}
	lr := &liveRun{rig: rig, corrupt: lc.corrupt, slow: lc.slow, index: map[string]int{}}
	liveRigs.Store(filepath.Clean(rig.stageDir), lr)
	rig.beforeRestart = lr.waitIdle
	defer liveRigs.Delete(filepath.Clean(rig.stageDir))
	defer rig.close()
	base := time.Now().Add(-time.Hour).Truncate(time.Second)
	bodies := map[string][]byte{}
	for i, f := range lc.files {
		lr.index[f.name] = i
		bodies[f.name] = liveBody(f.size, f.seed)
		rig.writeSource(f.name, bodies[f.name], base.Add(time.Duration(i)*time.Second))
	}
	rig.txFault = append([]e2eFault(nil), lc.tx...)
	rig.pollFault = append([]e2eFault(nil), lc.poll...)
	rig.rcFault = append([]e2eFault(nil), lc.rc...)
	restarts := append([]liveRestart(nil), lc.restarts...)
	if err := rig.startSender(); err != nil {
		res.answer = "error " + esc(err.Error())
		return res
	}
	deadline := time.Now().Add(timeout)
	quiet := false
	abort := ""
	// two watchdogs: the total time of the `run` op, and silence: no event recorded (other than
	// the periodic cache write) for liveIdle() although something is still missing. The code's
	// longest legitimate silence is the receiver's 10 s retry timer for an unknown predecessor.
	idle := liveIdle()
	lastN, lastChange := -1, time.Now()
	// third watchdog, so that a livelock is reported in seconds rather than after the whole timeout: every
	// completion of a file after its first needs a reason (a failed validation or a restart, each the
	// consequence of an injected fault, plus at most one follow-up failure per failed validation), so a file
	// completed more than 10 + 3 * (planned faults + restarts) times is going round in circles
	nFaults := len(lc.tx) + len(lc.poll) + len(lc.rc) + lc.corrupt + lc.slow + len(lc.restarts)
	for time.Now().Before(deadline) && abort == "" {
		n := lr.countEvents()
		if name, k := lr.maxCompletions(); k > 10+3*nFaults {
			abort = fmt.Sprintf("livelock: %s was completed by the receiver %d times under a plan of %d faults", name, k, nFaults)
			break
		}
		if n != lastN {
			lastN, lastChange = n, time.Now()
		} else if time.Since(lastChange) > idle {
			break
		}
		for i := range restarts {
			rs := &restarts[i]
			if rs.done || rs.at > n {
				continue
			}
			rs.done = true
			res.faulted = true
			if rs.who == "receiver" {
				rig.restartReceiver()
			} else {
				if !rig.stopSender(false, 30*time.Second) {
					abort = "sender did not stop within 30 s after an immediate stop request"
					break
				}
				if err := rig.startSender(); err != nil {
					abort = "sender restart: " + err.Error()
				}
			}
		}
		if abort != "" {
			break
		}
		u, d, nd, st := liveMissing(lc, rig, bodies)
		if len(u)+len(d)+len(nd)+len(st) == 0 {
			quiet = true
			break
		}
		if len(d) > 0 {
			break
		}
		time.Sleep(10 * time.Millisecond)
	}
	res.dur = time.Since(t0)
	u, d, nd, st := liveMissing(lc, rig, bodies)
	rig.mu.Lock()
	if len(rig.txFault) < len(lc.tx) || len(rig.pollFault) < len(lc.poll) || len(rig.rcFault) < len(lc.rc) {
		res.faulted = true
	}
	rig.mu.Unlock()
	lr.mu.Lock()
	if lr.corrupt < lc.corrupt || lr.slow < lc.slow {
		res.faulted = true
	}
	lr.mu.Unlock()
	for _, n := range d {
		res.failures = append(res.failures, "delivered-differs: "+esc(n)+" in the final directory is not byte-identical to its source")
	}
	if quiet {
		res.answer = fmt.Sprintf("complete files=%d delivered=%d staged=0", len(lc.files), len(lc.files))
	} else {
		what := fmt.Sprintf("undelivered=[%s] notdone=[%s] staged=[%s] differs=[%s]",
			strings.Join(u, ","), strings.Join(nd, ","), strings.Join(st, ","), strings.Join(d, ","))
		if abort != "" {
			what = esc(abort) + " " + what
		}
		res.answer = "stuck: " + what
		if len(d) == 0 || len(u)+len(nd)+len(st) > 0 {
			// evidence for the replay: where the sender's goroutines stand and what happened last
			rig.mu.Lock()
			evs := append([]string(nil), rig.events...)
			rig.mu.Unlock()
			if len(evs) > 15 {
				evs = evs[len(evs)-15:]
			}
			// a staged companion that is no single JSON value: two Receives of one file wrote it at the same time
			// (finding S21: the per-file lock entry is dropped while a request waits on it); every later part of the
			// file is refused, the sender sends it again for ever
			kind := "stuck"
			filepath.Walk(rig.stageDir, func(p string, info os.FileInfo, err error) error {
				if err == nil && !info.IsDir() && strings.HasSuffix(p, ".cmp") {
					if b, rerr := os.ReadFile(p); rerr == nil {
						var v map[string]any
						if json.Unmarshal(b, &v) != nil {
							kind = "stuck-corrupt-companion (" + filepath.Base(p) + " holds no single JSON value)"
						}
					}
				}
				return nil
			})
			what += " | last events: " + strings.Join(evs, "; ") + " | sender goroutines: " + strings.ReplaceAll(stopBrokerStacks(), "\n", " / ")
			res.failures = append(res.failures, fmt.Sprintf("%s: after %.1f s (fault plan finite, sources unchanged) %s", kind, res.dur.Seconds(), what))
		}
	}
	events := rig.takeEvents()
	if len(lc.restarts) == 0 {
		// an in-process "restart" abandons the old Stage / Broker, whose goroutines may still act
		// for a moment: the recorded order of observations is then not that of one sender and one
		// receiver, and the step-by-step replay is skipped (the `run` comparison remains)
		res.trace = liveTrace(lr, events)
	}
	if os.Getenv("VERIF_LIVE_EVENTS") == "2" {
		for _, e := range events {
			if e != "persist" {
				fmt.Fprintln(os.Stderr, "   ", e)
			}
		}
	}
	if p := os.Getenv("VERIF_LIVE_TIMING"); p != "" {
		if f, err := os.OpenFile(p, os.O_APPEND|os.O_CREATE|os.O_WRONLY, 0o644); err == nil {
			fmt.Fprintf(f, "%.2f %s files=%d faults=%d restarts=%d\n", res.dur.Seconds(), strings.Fields(res.answer)[0],
				len(lc.files), len(lc.tx)+len(lc.poll)+len(lc.rc)+lc.corrupt+lc.slow, len(lc.restarts))
			if res.dur > 12*time.Second {
				fmt.Fprintf(f, "  slow: %+v\n", *lc)
				for _, e := range events {
					if e != "persist" {
						fmt.Fprintf(f, "      %s\n", e)
					}
				}
			}
			f.Close()
		}
	}
	if os.Getenv("VERIF_LIVE_EVENTS") != "" {
		fmt.Fprintln(os.Stderr, "---- live run:", res.answer)
		fmt.Fprintln(os.Stderr, strings.Join(res.trace, " "))
	}
	return res
}

// liveTrace maps the recorded events to the observation alphabet of the model driver:
//
//	S:i sent (all parts acknowledged, logged)   P:i:c poll verdict c for file i   D:i marked done
//	T:i retry (hashed and cached again)         CS sender restarted               CR receiver restarted
//	C:i receiver completed the file             X:i staged copy corrupted         V:i receiver's process() ended
//	F:i receiver logged (delivered) the file
func liveTrace(lr *liveRun, events []string) []string {
	var out []string
	seen := map[string]bool{}
	starts := 0
	idx := func(tok string) (int, bool) {
		i, ok := lr.index[unesc(tok)]
		return i, ok
	}
	for _, e := range events {
		w := strings.Fields(e)
		if len(w) == 0 {
			continue
		}
		switch w[0] {
		case "sender-start":
			starts++
			if starts > 1 {
				out = append(out, "CS")
			}
		case "receiver-restart":
			out = append(out, "CR")
		case "sent", "done", "r-complete", "r-corrupt", "r-processed", "r-logged":
			if len(w) < 2 {
				continue
			}
			if i, ok := idx(w[1]); ok {
				k := map[string]string{"sent": "S", "done": "D", "r-complete": "C", "r-corrupt": "X", "r-processed": "V", "r-logged": "F"}[w[0]]
				out = append(out, fmt.Sprintf("%s:%d", k, i))
			}
		case "cache-add":
			if len(w) < 2 {
				continue
			}
			if i, ok := idx(w[1]); ok {
				if seen[w[1]] {
					out = append(out, fmt.Sprintf("T:%d", i))
				}
				seen[w[1]] = true
			}
		case "pollv":
			if len(w) == 2 {
				nv := strings.Split(w[1], "=")
				if len(nv) == 2 {
					if i, ok := idx(nv[0]); ok {
						out = append(out, fmt.Sprintf("P:%d:%s", i, nv[1]))
					}
				}
			}
		}
	}
	return out
}

// ---------------------------------------------------------------- executor

type liveExec struct {
	lc       liveCase
	lines    []string
	ran      bool
	res      *liveResult
	failures []string
}

func (c *liveComp) NewExec() Exec {
	return &liveExec{lc: liveCase{conf: liveDefaultConf()}}
}

func (e *liveExec) Rewrite(op []string) []string {
	if op[0] == "trace" && e.ran && e.res != nil {
		return append([]string{"trace"}, e.res.trace...)
	}
	return op
}

func (e *liveExec) Do(op []string) string {
	line := strings.Join(op, " ")
	switch op[0] {
	case "run":
		if e.ran || len(op) != 2 {
			return "bad-op"
		}
		secs, ok := liveNat(op[1], 3600)
		if !ok || secs < 1 {
			return "bad-op"
		}
		e.lines = append(e.lines, line)
		e.ran = true
		key := strings.Join(e.lines, "\n")
		theLive.mu.Lock()
		fut := theLive.pre[key]
		delete(theLive.pre, key)
		theLive.mu.Unlock()
		if fut != nil {
			<-fut.done
			e.res = fut.res
		} else {
			lc := e.lc
			e.res = liveExecute(&lc, time.Duration(secs)*time.Second)
		}
		e.failures = append(e.failures, e.res.failures...)
		return e.res.answer
	case "trace":
		if !e.ran {
			return "bad-op"
		}
		return "trace-ok"
	}
	if e.ran {
		return "bad-op"
	}
	if !e.lc.apply(op) {
		return "bad-op"
	}
	e.lines = append(e.lines, line)
	return "ok"
}

func (e *liveExec) Oracle() []string {
	f := e.failures
	e.failures = nil
	return f
}

func (e *liveExec) Signature() (bool, string) {
	nt := e.ran && e.res != nil && e.res.faulted && len(e.lc.files) >= 2
	return nt, strings.Join(e.lines, "|")
}

func (e *liveExec) Close() {}

// prefetch starts the runs of all given cases on a pool of workers (the wall time of a run
// is dominated by the hard-wired 1-second graces of the code, not by the processor).
func (c *liveComp) prefetch(cases [][]string) {
	par := 8
	if v, err := strconv.Atoi(os.Getenv("VERIF_LIVE_PAR")); err == nil && v >= 1 {
		par = v
	}
	type job struct {
		lc      liveCase
		timeout time.Duration
		fut     *liveFuture
	}
	var jobs []job
	c.mu.Lock()
	for _, ops := range cases {
		lc := liveCase{conf: liveDefaultConf()}
		var lines []string
		for _, l := range ops {
			op := strings.Fields(l)
			if len(op) == 0 {
				continue
			}
			if op[0] == "run" {
				secs, ok := liveNat(op[len(op)-1], 3600)
				if len(op) != 2 || !ok || secs < 1 {
					break
				}
				lines = append(lines, strings.Join(op, " "))
				key := strings.Join(lines, "\n")
				if _, dup := c.pre[key]; !dup {
					fut := &liveFuture{done: make(chan struct{})}
					c.pre[key] = fut
					jobs = append(jobs, job{lc, time.Duration(secs) * time.Second, fut})
				}
				break
			}
			if lc.apply(op) {
				lines = append(lines, strings.Join(op, " "))
			}
		}
	}
	c.mu.Unlock()
	ch := make(chan job)
	for w := 0; w < par; w++ {
		go func() {
			for j := range ch {
				lc := j.lc
				j.fut.res = liveExecute(&lc, j.timeout)
				close(j.fut.done)
			}
		}()
	}
	go func() {
		for _, j := range jobs {
			ch <- j
		}
		close(ch)
	}()
}

// ---------------------------------------------------------------- corpus and generator

func (c *liveComp) Corpus() [][]string {
	return [][]string{
		// no fault at all, one group of three files in order
		{"conf threads=2 payload=64 chunk=0 order=fifo attempts=3 delete=0", "file g.a 27 1", "file g.b 142 2", "file g.c 1 3", "run 180", "trace"},
		// the smoke plan: cut, receiver error, lost answer, poll error
		{"conf threads=2 payload=64 chunk=0 order=fifo attempts=3 delete=0", "file g.a 27 1", "file g.b 142 2", "file h.c 1 3",
			"fault tx cut:1", "fault tx 206:0", "fault tx lost", "fault poll err", "run 180", "trace"},
		// corruption of a staged file: failed validation, re-sent whole, successor held meanwhile
		{"conf threads=1 payload=64 chunk=0 order=fifo attempts=2 delete=0", "file g.a 100 1", "file g.b 50 2", "fault corrupt", "run 180", "trace"},
		// restarts of both sides
		{"conf threads=2 payload=32 chunk=16 order=fifo attempts=3 delete=0", "file g.a 90 1", "file g.b 70 2", "file h.a 33 3",
			"fault tx lost", "restart receiver 4", "restart sender 8", "run 180", "trace"},
		// delete after delivery
		{"conf threads=2 payload=64 chunk=0 order=fifo attempts=3 delete=1", "file g.a 10 1", "file g.b 200 2", "fault tx err", "fault rc err", "run 180", "trace"},
		// finding C03-recover-poll (fixed): a poll request that fails during the start-up recovery made
		// recover() return; "Recovery failed", the recovery list was dropped, nothing was sent any more
		{"conf threads=1 payload=64 chunk=0 order=fifo attempts=3 delete=0", "file g.a 100 1", "file g.b 50 2",
			"fault poll err", "restart sender 5", "run 180", "trace"},
		{"conf threads=1 payload=64 chunk=0 order=fifo attempts=3 delete=0", "file g.a 100 1", "file g.b 50 2", "file h.a 300 3",
			"fault poll err", "fault poll err", "restart sender 4", "restart sender 9", "run 180", "trace"},
		{"conf threads=2 payload=32 chunk=0 order=fifo attempts=1 delete=0", "file g.a 100 1", "file g.b 50 2", "file g.c 20 3",
			"fault poll err", "restart sender 6", "run 180", "trace"},
		// answers lost for whole payloads: parts of a file that is delivered meanwhile are sent again (stray partial)
		{"conf threads=2 payload=128 chunk=16 order=lifo attempts=1 delete=0", "file h.g 700 848", "file h.f 200 201", "file h.b 16 319", "file g.e 33 575",
			"fault poll err", "fault tx lost", "fault tx 206:1", "fault corrupt", "run 180", "trace"},
		// poll budget of 1 with a held successor chain and two corruptions
		{"conf threads=1 payload=1000 chunk=0 order=fifo attempts=1 delete=0", "file g.a 32 1", "file g.b 17 2", "file g.c 64 3", "file g.d 15 4",
			"fault corrupt", "fault corrupt", "fault tx lost", "fault poll err", "run 180", "trace"},
		// slow validation: the polls run out of attempts (answered "not found" while the file is in state
		// received), the file is hashed again and re-sent whole although the receiver has it
		{"conf threads=1 payload=64 chunk=0 order=fifo attempts=3 delete=0", "file g.a 100 1", "file g.b 50 2", "fault slow", "run 180", "trace"},
		{"conf threads=2 payload=32 chunk=16 order=fifo attempts=1 delete=1", "file g.a 100 1", "file g.b 50 2", "file h.a 70 3", "fault slow", "fault slow", "fault corrupt", "run 180", "trace"},
		// malformed descriptions
		{"conf threads=0 payload=64 chunk=0 order=fifo attempts=3 delete=0", "file g.a 10", "file G.a 10 1", "fault tx cut", "fault poll", "restart nobody 3", "run 0", "trace", "bogus"},
	}
}

func (c *liveComp) Generate(r *Rand, tier string, n int) [][]string {
	var cases [][]string
	sizes := []int{1, 9, 15, 16, 17, 31, 32, 33, 63, 64, 65, 100, 127, 128, 129, 200, 300, 700}
	for k := 0; k < n; k++ {
		var ops []string
		payload := []int{16, 32, 64, 64, 128, 1000}[r.Intn(6)]
		chunk := 0
		if r.Chance(0.4) {
			chunk = []int{8, 16, 32, 64}[r.Intn(4)]
		}
		order := []string{"fifo", "fifo", "fifo", "lifo", "alpha", "none"}[r.Intn(6)]
		ops = append(ops, fmt.Sprintf("conf threads=%d payload=%d chunk=%d order=%s attempts=%d delete=%d",
			r.Range(1, 3), payload, chunk, order, r.Range(1, 3), r.Intn(4)/3))
		nf := r.Range(1, 6)
		used := map[string]bool{}
		for len(used) < nf {
			name := fmt.Sprintf("%s.%s", []string{"g", "g", "h", "k"}[r.Intn(4)], string(rune('a'+r.Intn(8))))
			if used[name] {
				continue
			}
			used[name] = true
			ops = append(ops, fmt.Sprintf("file %s %d %d", name, sizes[r.Intn(len(sizes))], r.Intn(1000)))
		}
		nfaults := r.Intn(9)
		if r.Chance(0.1) {
			nfaults = 0
		}
		for j := 0; j < nfaults; j++ {
			switch r.Intn(11) {
			case 10:
				ops = append(ops, "fault slow")
			case 0, 1:
				ops = append(ops, "fault tx err")
			case 2, 3:
				ops = append(ops, fmt.Sprintf("fault tx cut:%d", r.Intn(3)))
			case 4:
				ops = append(ops, fmt.Sprintf("fault tx 206:%d", r.Intn(3)))
			case 5, 6:
				ops = append(ops, "fault tx lost")
			case 7:
				ops = append(ops, "fault poll err")
			case 8:
				ops = append(ops, "fault rc err")
			case 9:
				ops = append(ops, "fault corrupt")
			}
		}
		nr, ns := 0, 0
		for j := r.Intn(6) - 2; j > 0; j-- {
			if r.Chance(0.5) && nr < 2 {
				nr++
				ops = append(ops, fmt.Sprintf("restart receiver %d", r.Range(1, 25)))
			} else if ns < 2 {
				ns++
				ops = append(ops, fmt.Sprintf("restart sender %d", r.Range(1, 25)))
			}
		}
		ops = append(ops, fmt.Sprintf("run %d", liveWatchdog()), "trace")
		cases = append(cases, ops)
	}
	// one malformed stream
	cases = append(cases, []string{"file", "conf threads=2", "fault tx 206:x", "restart sender -1", "run", "run 10 10", "trace 1"})
	all := append(append([][]string{}, c.Corpus()...), cases...)
	c.prefetch(all)
	return cases
}

// liveIdle: how long the rig may stay silent before an incomplete run is declared stuck.
func liveIdle() time.Duration {
	if v, err := strconv.Atoi(os.Getenv("VERIF_LIVE_IDLE")); err == nil && v >= 1 {
		return time.Duration(v) * time.Second
	}
	return 25 * time.Second
}

// liveWatchdog: seconds a run may take before it is declared stuck. Calibrated on the
// unchanged tree (see the registry entry): the slowest observed run needs far less.
func liveWatchdog() int {
	if v, err := strconv.Atoi(os.Getenv("VERIF_LIVE_WATCHDOG")); err == nil && v >= 1 {
		return v
	}
	return 180
}

// FailFast: a failing live run has usually run into a watchdog; four failing cases are enough to report and shrink.
func (*liveComp) FailFast() int { return 4 }
