package main

import (
	"fmt"
	"strings"
)

// generator and corpus of component "auth"

var authValidSources = []string{"src1", "site.host", "a/b", "x-y.z0"}
var authOddSources = []string{"..", ".", "../x", "a/../b", "./", "/", "//", "SRC1", "src 1", "é", "src1/", "..%2f", "%2e%2e",
	"..\\", "\\", "~", "a--b", "foreign-src", "...", "..a", " src1", "src1\t", "a/..", "../..", "./..", "a/b/..", "..//", "．．"}

var authSourceLists = [][]string{nil, nil, {"src1"}, {"src1", "site.host", "a/b"}, {"src1", ".."}, {"SRC1", "src1"}, {"a/b", "foreign-src"}}
var authKeyLists = [][]string{nil, nil, {"k1"}, {"k1", "K2", "k 3"}}
var authKeys = []string{"k1", "K2", "k 3", "K1", "k2", "", "k1 ", "*", ".*", "k1,K2", "k1\x00"}

type authGen struct {
	r       *Rand
	n       int      // unique token counter
	sources []string // configured source list (nil = any)
	keys    []string
	seeds   map[string][]string // source -> seeded relative paths
	sentOK  map[string][]string // source -> names probably delivered
	blocked map[string]bool
	stubbed map[string]bool
	made    map[string]bool
}

func (g *authGen) tok() string { g.n++; return fmt.Sprintf("u%d", g.n) }

func (g *authGen) goodSource() string {
	if len(g.sources) > 0 && g.r.Chance(0.85) {
		return g.r.Pick(g.sources)
	}
	return g.r.Pick(authValidSources)
}

func (g *authGen) goodKey() string {
	if len(g.keys) > 0 {
		return g.r.Pick(g.keys)
	}
	if g.r.Chance(0.5) {
		return ""
	}
	return g.r.Pick(authKeys)
}

// traversal fragments for file names
func (g *authGen) evilName(sepUsed string) string {
	r := g.r
	t := g.tok() + ".dat"
	s := "/"
	if sepUsed != "" && sepUsed != "/" && r.Chance(0.6) {
		s = sepUsed
	}
	up := strings.Repeat(".."+s, r.Range(1, 3)) // bounded: see newSandbox
	switch r.Intn(14) {
	case 0:
		return up + t
	case 1:
		return "dir" + s + up + t
	case 2:
		return s + "abs" + s + t
	case 3:
		return ""
	case 4:
		return r.Pick([]string{".", "..", "./", "../", "a/..", "dir/../..", "/", "//"})
	case 5:
		return "dir" + s + ".." + s + ".." + s + ".." + s + t
	case 6:
		return "only-" + g.tok() + s + t + s + ".." // with a separator header this cleans to the first segment
	case 7:
		return ".." // bare
	case 8:
		return "..\\..\\" + t // backslashes are ordinary characters on Linux unless they are the separator
	case 9:
		return "dir//" + up + t
	case 10:
		return "./" + up + t
	case 11:
		return "dir/./" + t + "/../../../" + g.tok() // one net parent step
	case 12:
		return "a/b/c/" + strings.Repeat("../", 6) + "tmp/" + t // three net parent steps
	default:
		return up + "foreign-src" + s + t
	}
}

func (g *authGen) goodName(sepUsed string) string {
	r := g.r
	t := g.tok() + ".dat"
	s := "/"
	if sepUsed != "" && sepUsed != "/" && r.Chance(0.7) {
		s = sepUsed
	}
	switch r.Intn(10) {
	case 0:
		return t
	case 1:
		return "dir" + s + t
	case 2:
		return "dir" + s + "sub" + s + t
	case 3:
		return "." + s + "dir" + s + t // harmless dot segment
	case 4:
		return "dir" + s + s + t // harmless empty segment
	case 5:
		return "...dir" + s + "..." + t // dots that are not a parent reference
	case 6:
		return "d é" + s + t
	case 7:
		// many short segments, long in total
		return strings.Repeat("seg"+s, r.Range(20, 60)) + t
	case 8:
		if r.Chance(0.5) {
			return strings.Repeat("L", 300) + s + t // cannot be created
		}
		return "dir" + s + strings.Repeat("L", 300) + t
	default:
		return "2024" + s + "x_y-z.0" + s + t
	}
}

func (g *authGen) part(sepUsed, source string) partSpec {
	r := g.r
	p := partSpec{kind: "w", size: []int{1, 5, 64, 3000}[r.Intn(4)]}
	p.name = g.goodName(sepUsed)
	if r.Chance(0.25) {
		p.renamed = "renamed/" + g.tok() + ".dat"
	}
	switch {
	case r.Chance(0.15) && len(g.sentOK[source]) > 0:
		p.prev = r.Pick(g.sentOK[source])
	case r.Chance(0.08):
		p.prev = "nope-" + g.tok() + ".x"
	}
	switch {
	case r.Chance(0.12):
		p.kind = "h"
	case r.Chance(0.12) && p.size >= 2:
		p.kind = "p"
	}
	return p
}

// spoil replaces one field of one part by a traversal fragment.
func (g *authGen) spoil(parts []partSpec, sepUsed string) {
	if len(parts) == 0 {
		return
	}
	p := &parts[g.r.Intn(len(parts))]
	switch g.r.Intn(5) {
	case 0, 1, 2:
		p.name = g.evilName(sepUsed)
	case 3:
		// with "/" (refused) or with the sender's separator (not converted for the rename
		// target: stays one odd segment inside the final directory)
		if g.r.Chance(0.5) {
			p.renamed = g.evilName("")
		} else {
			p.renamed = g.evilName(sepUsed)
		}
	default:
		p.prev = g.evilName(sepUsed)
	}
}

func (g *authGen) setSource(q *reqSpec, v string) {
	switch {
	case !headerSafe(v):
		q.sq = v
	case g.r.Chance(0.7):
		q.sh = v
	case g.r.Chance(0.7):
		q.sq = v
	default:
		// both: the header wins
		q.sh = v
		q.sq = g.r.Pick(append(append([]string{}, authValidSources...), authOddSources...))
	}
}

func (g *authGen) setKey(q *reqSpec, v string) {
	switch {
	case !headerSafe(v):
		q.kq = v
	case g.r.Chance(0.6):
		q.kh = v
	case g.r.Chance(0.7):
		q.kq = v
	default:
		q.kh = v
		q.kq = g.r.Pick(authKeys)
	}
}

var staticEvil = []string{"/static/%2e%2e/x", "/static/%2e%2e/foreign-src/FOREIGNSERVE.txt", "/static/a%2f..%2f..%2fb", "/static/%2E%2E%2Ffoo",
	"/static/../data", "/static/./top.txt", "/static//top.txt", "/static/a%20b", "/static/%5c..%5cx", "/static/..%5c", "/static/%00",
	"/static/...", "/static/.%2e/x", "/static/nested/../../foreign-src", "/static", "/static/%2f%2fetc", "/static/nested/%2e", "/static/%zz",
	"/static/nested%2fchild.txt", "/%73tatic/top.txt", "/static/~"}

var routeVariants = map[string][]string{
	"data":          {"//data", "/data/", "/./data", "/x/../data", "/DATA", "/%64ata", "/data%2f", "/static/../data", "/data/.."},
	"data-recovery": {"//data-recovery", "/data-recovery/", "/data-recover%79"},
	"validate":      {"//validate", "/validate/", "/%76alidate", "/a/../validate"},
	"partials":      {"//partials", "/partials/", "/./partials", "/partials/../partials"},
}

func (g *authGen) request() reqSpec {
	r := g.r
	q := reqSpec{ml: "ok", gz: "off", body: "none"}
	source := g.goodSource()
	if r.Chance(0.3) {
		source = r.Pick(authOddSources)
	}
	if r.Chance(0.04) {
		source = ""
	}
	if r.Chance(0.02) {
		source = strings.Repeat("s", 300)
	}
	g.setSource(&q, source)
	key := g.goodKey()
	if r.Chance(0.25) {
		key = r.Pick(authKeys)
	}
	g.setKey(&q, key)
	route := []string{"data", "data", "data", "data", "data-recovery", "validate", "validate", "partials", "static", "static", "health"}[r.Intn(11)]
	if route == "static" && r.Chance(0.6) {
		// a source that has files to serve
		var have []string
		for _, s := range []string{"src1", "site.host", "x-y.z0", "foreign-src"} {
			if len(g.seeds[s]) > 0 {
				have = append(have, s)
			}
		}
		if len(have) > 0 {
			source = r.Pick(have)
			q.sh, q.sq = "", ""
			g.setSource(&q, source)
		}
	}
	wellFormed := r.Chance(0.85)
	switch route {
	case "data", "data-recovery", "validate":
		q.method = "PUT"
		if route == "validate" {
			q.method = "POST"
		}
		q.url = "/" + route
		q.sep = r.Pick([]string{"", "/", "/", "/", "\\", "|", "::"})
		q.body = "parts"
		for k := r.Range(1, 3); k > 0; k-- {
			q.parts = append(q.parts, g.part(q.sep, source))
		}
		if route == "data" && r.Chance(0.25) {
			// one file travelling as two chunks of one request (the names repeat; each part carries its own rename
			// target and predecessor, and the part that completes the file decides where it lands)
			p1 := g.part(q.sep, source)
			p1.kind, p1.size = "p", []int{2, 6, 64}[r.Intn(3)]
			p2 := p1
			p2.kind = "q"
			if r.Chance(0.3) {
				p2.renamed = "renamed/" + g.tok() + ".dat"
			}
			q.parts = append(q.parts, p1, p2)
			if r.Chance(0.4) {
				// the traversal only in the LATER part of the file
				switch r.Intn(3) {
				case 0:
					q.parts[len(q.parts)-1].renamed = g.evilName("")
				case 1:
					q.parts[len(q.parts)-1].renamed = g.evilName(q.sep)
				default:
					q.parts[len(q.parts)-1].prev = g.evilName(q.sep)
				}
			}
		}
		if r.Chance(0.3) {
			g.spoil(q.parts, q.sep)
		}
		if r.Chance(0.03) {
			q.parts = nil
		}
		if r.Chance(0.15) {
			q.gz = "on"
		}
		if !wellFormed {
			switch r.Intn(6) {
			case 0:
				q.method = r.Pick([]string{"GET", "POST", "PUT", "DELETE", "HEAD", "PATCH"})
			case 1:
				q.body, q.parts = "none", nil
			case 2:
				q.body, q.parts = "junk", nil
			case 3:
				q.ml = "bad"
			case 4:
				q.gz = "broken"
			case 5:
				q.url = r.Pick(routeVariants[route])
			}
		}
	case "partials":
		q.method = "GET"
		q.url = "/partials"
		q.version = r.Pick([]string{"", "1", "2"})
		if !wellFormed {
			if r.Chance(0.5) {
				q.method = r.Pick([]string{"POST", "PUT", "DELETE", "HEAD"})
			} else {
				q.url = r.Pick(routeVariants["partials"])
			}
		}
	case "static":
		q.method = r.Pick([]string{"GET", "GET", "GET", "DELETE", "DELETE", "PUT", "POST", "HEAD"})
		rels := g.seeds[source]
		switch {
		case r.Chance(0.35):
			q.url = r.Pick(staticEvil)
		case len(rels) > 0 && r.Chance(0.7):
			rel := r.Pick(rels)
			if r.Chance(0.25) && strings.Contains(rel, "/") {
				rel = rel[:strings.LastIndex(rel, "/")] // a directory
			}
			q.url = "/static/" + rel
		case r.Chance(0.5):
			q.url = "/static/"
		default:
			q.url = "/static/" + r.Pick([]string{"missing.txt", "nested", "nested/", "top.txt", "a/b/c", "foreign-src/FOREIGNSERVE.txt"})
		}
	default:
		q.method = r.Pick([]string{"GET", "HEAD", "PUT", "POST"})
		q.url = r.Pick([]string{"/", "/healthz", "/data/extra", "/static-not", "/partials/x", "//", "/a/../b", "/%2e%2e/x"})
	}
	return q
}

func (authComp) Generate(r *Rand, tier string, n int) [][]string {
	var cases [][]string
	for i := 0; i < n; i++ {
		g := &authGen{r: r, seeds: map[string][]string{}, sentOK: map[string][]string{}, blocked: map[string]bool{}, stubbed: map[string]bool{}, made: map[string]bool{}}
		var ops []string
		if r.Chance(0.04) {
			pre := [][]string{{"src1"}, {"src1", "site.host"}, {"x-y.z0", "old.source", "src1"}, {"a/b", "src1"}, {"site/inst/x"}}[r.Intn(5)]
			ops = append(ops, "boot "+escList(pre))
			for _, p := range pre {
				g.made[p] = true
			}
		}
		g.sources = authSourceLists[r.Intn(len(authSourceLists))]
		g.keys = authKeyLists[r.Intn(len(authKeyLists))]
		ops = append(ops, "conf "+escList(g.sources)+" "+escList(g.keys))
		// serve files: the foreign source always has one, some sources have a small tree
		ops = append(ops, "seed foreign-src FOREIGNSERVE.txt MARKER-FSERVE-e5")
		g.seeds["foreign-src"] = []string{"FOREIGNSERVE.txt"}
		for _, s := range []string{"src1", "site.host", "x-y.z0"} {
			if r.Chance(0.5) {
				for _, rel := range []string{"top.txt", "nested/child.txt", "nested/deep/x_1.bin"} {
					if r.Chance(0.7) {
						ops = append(ops, fmt.Sprintf("seed %s %s %s", s, rel, esc("content of "+s+" "+rel)))
						g.seeds[s] = append(g.seeds[s], rel)
					}
				}
			}
		}
		steps := r.Range(4, 12)
		for j := 0; j < steps; j++ {
			switch {
			case r.Chance(0.12):
				src := g.goodSource()
				if r.Chance(0.15) {
					src = r.Pick(authOddSources)
					if strings.ContainsAny(src, "\x00") {
						src = "src1"
					}
				}
				what := r.Pick([]string{"stub0", "stub1", "make", "stop", "stop", "recover", "block"})
				switch {
				case g.blocked[src]:
					what = "unblock"
				case what == "block" && (g.stubbed[src] || !g.made[src] || strings.Contains(src, "/") || strings.Contains(src, "--")):
					what = "make"
				case (what == "stub0" || what == "stub1") && g.made[src]:
					what = "stop"
				}
				switch what {
				case "stub0", "stub1":
					g.stubbed[src] = true
				case "make":
					if !g.stubbed[src] {
						g.made[src] = true
					}
				case "block":
					g.blocked[src] = true
				case "unblock":
					delete(g.blocked, src)
				}
				ops = append(ops, "gk "+esc(src)+" "+what)
			case r.Chance(0.04):
				g.sources = authSourceLists[r.Intn(len(authSourceLists))]
				g.keys = authKeyLists[r.Intn(len(authKeyLists))]
				ops = append(ops, "conf "+escList(g.sources)+" "+escList(g.keys))
			case r.Chance(0.05):
				ops = append(ops, "valid "+esc(r.Pick(append(append([]string{}, authValidSources...), authOddSources...)))+" "+esc(r.Pick(authKeys)))
			default:
				q := g.request()
				ops = append(ops, q.line())
				src := effSource(q)
				if q.body == "parts" && q.url == "/data" && q.method == "PUT" && !g.stubbed[src] {
					g.made[src] = true // a first accepted request creates the real stage (the generator only needs a guess)
					for _, p := range q.parts {
						if p.kind == "w" && p.prev == "" {
							nm := p.name
							g.sentOK[src] = append(g.sentOK[src], nm)
						}
					}
				}
			}
		}
		for src := range g.blocked {
			ops = append(ops, "gk "+esc(src)+" unblock")
		}
		cases = append(cases, ops)
	}
	return cases
}

func (authComp) Corpus() [][]string {
	rq := func(method, url, src, key, sep, body string, parts ...partSpec) string {
		return reqSpec{method: method, url: url, sh: src, kh: key, sep: sep, ml: "ok", gz: "off", body: body, parts: parts}.line()
	}
	w := func(name, renamed, prev string) partSpec { return partSpec{name, renamed, prev, 5, "w"} }
	seedF := "seed foreign-src FOREIGNSERVE.txt MARKER-FSERVE-e5"
	return [][]string{
		// the route table of Serve, read from the source
		{"routes"},
		// F3: a part named ../../../escape.txt (stage and final root are left)
		{"conf ~ ~", rq("PUT", "/data", "src1", "", "/", "parts", w("../../../escape.txt", "", ""))},
		// F3: the rename target leaves the final root at delivery time
		{"conf ~ ~", rq("PUT", "/data", "src1", "", "/", "parts", w("ok.dat", "../../../renamed-escape.txt", ""))},
		// F3 with the sender's separator: the conversion produces the parent segments
		{"conf ~ ~", rq("PUT", "/data", "src1", "", "\\", "parts", w("..\\..\\..\\sep-escape.txt", "", ""))},
		// a rename target written with the sender's separator is NOT converted: it stays inside
		{"conf ~ ~", rq("PUT", "/data", "src1", "", "\\", "parts", w("ok2.dat", "..\\..\\..\\sep-renamed-escape.txt", ""))},
		// an empty name / a name that is the stage root itself: the final root of the source becomes a file
		{"conf ~ ~", rq("PUT", "/data", "src1", "", "/", "parts", w("", "", "")), rq("PUT", "/data", "src1", "", "/", "parts", w(".", "", "")),
			rq("PUT", "/data", "src1", "", "/", "parts", w("dir/..", "", ""))},
		// one file as two chunks of one request: every part's rename target and predecessor are checked, also the later ones
		{"conf ~ ~", rq("PUT", "/data", "src1", "", "/", "parts", partSpec{"d/two.dat", "", "", 6, "p"}, partSpec{"d/two.dat", "../../two-escape.txt", "", 6, "q"}),
			rq("PUT", "/data", "src1", "", "/", "parts", partSpec{"d/three.dat", "", "", 6, "p"}, partSpec{"d/three.dat", "", "../../pred.dat", 6, "q"}),
			rq("PUT", "/data", "src1", "", "/", "parts", partSpec{"d/four.dat", "", "", 6, "p"}, partSpec{"d/four.dat", "renamed/four.dat", "", 6, "q"})},
		// unsafe predecessor, unsafe names on the routes that only look things up
		{"conf ~ ~", rq("PUT", "/data", "src1", "", "/", "parts", w("a.dat", "", "../../b.dat")),
			rq("PUT", "/data-recovery", "src1", "", "/", "parts", w("../../../x.dat", "", "")),
			rq("POST", "/validate", "src1", "", "/", "parts", w("../../../x.dat", "", "")),
			rq("POST", "/validate", "src1", "", "/", "parts", w("fine.dat", "", "")),
			rq("PUT", "/data-recovery", "src1", "", "/", "parts", w("fine.dat", "", ""))},
		// S12: without a source list the source names ".." and "." move the per-source roots
		{"conf ~ ~", seedF, rq("PUT", "/data", "..", "", "/", "parts", w("dd.dat", "", "")),
			rq("PUT", "/data", ".", "", "/", "parts", w("dot.dat", "", "")),
			rq("GET", "/partials", ".", "", "", "none"), rq("GET", "/partials", "..", "", "", "none"),
			rq("GET", "/static/", ".", "", "", "none"), rq("GET", "/static/foreign-src/FOREIGNSERVE.txt", ".", "", "", "none"),
			rq("GET", "/static/", "..", "", "", "none"), rq("PUT", "/data", "a/../..", "", "/", "parts", w("x.dat", "", ""))},
		// S10: stages found at start-up must not be ready before their recovery begins
		{"boot a/b,src1", "conf ~ ~", rq("PUT", "/data", "a/b", "", "/", "parts", w("after-boot2.dat", "", ""))},
		{"boot src1,site.host", "conf ~ ~", rq("PUT", "/data", "src1", "", "/", "parts", w("after-boot.dat", "", ""))},
		// ready flag: stopped, recovering (held inside Recover), recovered
		{"conf ~ ~", "gk src1 make", rq("PUT", "/data", "src1", "", "/", "parts", w("one.dat", "", "")), "gk src1 stop",
			rq("PUT", "/data", "src1", "", "/", "parts", w("two.dat", "", "")), rq("GET", "/partials", "src1", "", "", "none"),
			"gk src1 recover", rq("PUT", "/data", "src1", "", "/", "parts", w("three.dat", "", "")),
			"gk src1 block", rq("PUT", "/data", "src1", "", "/", "parts", w("four.dat", "", "")), rq("POST", "/validate", "src1", "", "/", "parts", w("one.dat", "", "")),
			rq("GET", "/static/", "src1", "", "", "none"), "gk src1 unblock", rq("PUT", "/data", "src1", "", "/", "parts", w("five.dat", "", "")),
			"gk site.host stub0", rq("PUT", "/data", "site.host", "", "/", "parts", w("six.dat", "", "")), "gk site.host stub1",
			rq("PUT", "/data", "site.host", "", "/", "parts", w("seven.dat", "", ""))},
		// source list and key list: exact, case-sensitive; refusals leave the sender's view alone
		{"conf src1,a/b k1,K2", "seed src1 top.txt hello", rq("PUT", "/data", "src1", "k1", "/", "parts", w("d/one.dat", "", ""), partSpec{"d/half.dat", "", "", 64, "p"}, partSpec{"d/bad.dat", "", "", 5, "h"}),
			rq("PUT", "/data", "src1", "K1", "/", "parts", w("two.dat", "", "")), rq("PUT", "/data", "SRC1", "k1", "/", "parts", w("two.dat", "", "")),
			rq("PUT", "/data", "src1", "", "/", "parts", w("two.dat", "", "")), rq("PUT", "/data", "", "k1", "/", "parts", w("two.dat", "", "")),
			rq("PUT", "/data", "site.host", "k1", "/", "parts", w("two.dat", "", "")), rq("PUT", "/data", "a/b", "K2", "/", "parts", w("ab.dat", "", "")),
			rq("GET", "/partials", "src1", "k2", "", "none"), rq("GET", "/partials", "src1", "k1", "", "none"),
			rq("POST", "/validate", "src1", "k1", "/", "parts", w("d/one.dat", "", ""), w("d/bad.dat", "", "")),
			rq("GET", "/static/top.txt", "src1", "nope", "", "none"), rq("GET", "/static/top.txt", "src1", "k1", "", "none"),
			rq("DELETE", "/static/top.txt", "src1", "k 3", "", "none"), rq("DELETE", "/static/top.txt", "src1", "K2", "", "none"),
			rq("GET", "/static/top.txt", "src1", "K2", "", "none"), "valid src1 k1", "valid src1 K1", "valid a/b K2", "valid A/b K2", "valid - k1"},
		// the repo's TestRouteFileRejectsTraversalPath through the real mux, plus encoded forms
		{"conf ~ ~", seedF, "seed src1 top.txt hello", "seed src1 nested/child.txt kid",
			rq("GET", "/static/../etc/passwd", "src1", "", "", "none"), rq("GET", "/static/a/../../etc/passwd", "src1", "", "", "none"),
			rq("GET", "/static/%2e%2e/etc/passwd", "src1", "", "", "none"), rq("GET", "/static/a%20b/file.txt", "src1", "", "", "none"),
			rq("GET", "/static/%2e%2e/foreign-src/FOREIGNSERVE.txt", "src1", "", "", "none"), rq("GET", "/static/nested%2f..%2f..%2fforeign-src", "src1", "", "", "none"),
			rq("GET", "/static", "src1", "", "", "none"), rq("GET", "/static/", "src1", "", "", "none"), rq("GET", "/static/nested", "src1", "", "", "none"),
			rq("GET", "/static/nested/child.txt", "src1", "", "", "none"), rq("DELETE", "/static/nested", "src1", "", "", "none"),
			rq("DELETE", "/static/nested/child.txt", "src1", "", "", "none"), rq("GET", "/static/nested", "src1", "", "", "none"),
			rq("GET", "/static/top.txt", "a/b", "", "", "none"), rq("GET", "/static/top.txt", "nosuch", "", "", "none"),
			rq("GET", "//static//top.txt", "src1", "", "", "none"), rq("GET", "/%73tatic/top.txt", "src1", "", "", "none"), rq("GET", "/static/%zz", "src1", "", "", "none")},
	}
}
