package main

import (
	"bufio"
	"bytes"
	"compress/gzip"
	"crypto/md5"
	"crypto/sha1"
	"encoding/hex"
	"encoding/json"
	"fmt"
	"go/ast"
	"go/parser"
	"go/token"
	"io"
	"net"
	"net/http"
	"net/url"
	"os"
	"path/filepath"
	"sort"
	"strconv"
	"strings"
	"syscall"
	"time"
)

// component "auth": the real receiver (main/server.go serverApp.init + http/server.go
// Server.Serve + stage.Stage + log.FileIO + payload.NewDecoder) inside the sts binary built
// with -tags verif, driven over TCP with hand-written request lines. Properties C14, C15.
//
// Compared with the model, line by line: HTTP status, the gatekeeper calls the request
// caused (recorded by a forwarding wrapper around the real gatekeepers: factory call,
// Prepare / Receive / Received / GetFileStatus / Scan with the names they were given), the
// canonical body of the static route, the ready flags after start-up, the route table read
// from http/server.go with go/ast.
//
// Oracles on the implementation's behaviour (never on the model): before/after listing of
// the whole sandbox (names, kinds, sizes, hashes) — a change outside the stage / final / log
// / serve directory of the request's source, any change by a refused request, a response
// body that carries the marker of a file outside those directories, an authorised sender
// being told something else after a refused request, a stage that is ready although its
// recovery has not begun, a data-bearing route without handleValidate.
type authComp struct{}

func init() { register(authComp{}) }

func (authComp) Name() string { return "auth" }
func (authComp) Rule() string {
	return "case = receiver configuration (source list, key list, serve files, gatekeeper states) + sequence of requests; " +
		"non-trivial = at least one request refused and one accepted (gatekeeper reached or static file served); " +
		"distinct = by the full op sequence"
}

// ---------------------------------------------------------------- request encoding

type partSpec struct {
	name, renamed, prev string
	size                int
	kind                string // w whole file with its real hash, h whole file with a wrong hash, p first half only, q second half only (same content as p: seeded by the name alone)
}

type reqSpec struct {
	method, url           string
	sh, sq, kh, kq, sep   string
	ml, gz, version, body string
	parts                 []partSpec
}

func (p partSpec) token() string {
	return esc(p.name) + "|" + esc(p.renamed) + "|" + esc(p.prev) + "|" + strconv.Itoa(p.size) + "|" + p.kind
}

func (q reqSpec) line() string {
	w := []string{"req", q.method, esc(q.url), esc(q.sh), esc(q.sq), esc(q.kh), esc(q.kq), esc(q.sep), q.ml, q.gz, esc(q.version), q.body}
	for _, p := range q.parts {
		w = append(w, p.token())
	}
	return strings.Join(w, " ")
}

func parseReqOp(op []string) (reqSpec, bool) {
	var q reqSpec
	if len(op) < 12 || op[0] != "req" {
		return q, false
	}
	switch op[1] {
	case "GET", "PUT", "POST", "DELETE", "HEAD", "PATCH", "OPTIONS":
	default:
		return q, false
	}
	q.method, q.url = op[1], unesc(op[2])
	q.sh, q.sq, q.kh, q.kq, q.sep = unesc(op[3]), unesc(op[4]), unesc(op[5]), unesc(op[6]), unesc(op[7])
	q.ml, q.gz, q.version, q.body = op[8], op[9], unesc(op[10]), op[11]
	if !strings.HasPrefix(q.url, "/") {
		return q, false
	}
	for _, c := range []byte(q.url) {
		ok := c >= 'a' && c <= 'z' || c >= 'A' && c <= 'Z' || c >= '0' && c <= '9' || strings.IndexByte("-._~/%", c) >= 0
		if !ok {
			return q, false
		}
	}
	if (q.ml != "ok" && q.ml != "bad") || (q.gz != "off" && q.gz != "on" && q.gz != "broken") {
		return q, false
	}
	if q.body != "none" && q.body != "junk" && q.body != "parts" {
		return q, false
	}
	for _, t := range op[12:] {
		f := strings.Split(t, "|")
		if len(f) != 5 {
			return q, false
		}
		sz, err := strconv.Atoi(f[3])
		if err != nil || sz < 0 || (f[4] != "w" && f[4] != "h" && f[4] != "p" && f[4] != "q") {
			return q, false
		}
		q.parts = append(q.parts, partSpec{unesc(f[0]), unesc(f[1]), unesc(f[2]), sz, f[4]})
	}
	if q.body != "parts" && len(q.parts) > 0 {
		return q, false
	}
	return q, true
}

func partContent(p partSpec) []byte {
	seed := p.name + "#" + p.renamed
	if p.kind == "q" || p.kind == "p" {
		seed = p.name + "#" // the two halves of one file, whatever each part says about the rename target
	}
	if seed == "#" {
		seed = "x"
	}
	b := make([]byte, p.size)
	for i := range b {
		b[i] = seed[i%len(seed)]
	}
	return b
}

func pctAll(s string) string {
	var b strings.Builder
	for _, c := range []byte(s) {
		if c >= 'a' && c <= 'z' || c >= 'A' && c <= 'Z' || c >= '0' && c <= '9' {
			b.WriteByte(c)
		} else {
			fmt.Fprintf(&b, "%%%02X", c)
		}
	}
	return b.String()
}

// wire builds the bytes of the HTTP/1.1 request.
func (q reqSpec) wire(now int64) []byte {
	var query []string
	if q.sq != "" {
		query = append(query, "source="+pctAll(q.sq))
	}
	if q.kq != "" {
		query = append(query, "key="+pctAll(q.kq))
	}
	if q.version != "" {
		query = append(query, "v="+pctAll(q.version))
	}
	target := q.url
	if len(query) > 0 {
		target += "?" + strings.Join(query, "&")
	}
	var body []byte
	metaLen := 0
	switch q.body {
	case "junk":
		body = []byte("this is {not json")
		metaLen = len(body)
	case "parts":
		decoded, derr := url.PathUnescape(q.url)
		if derr != nil {
			decoded = q.url
		}
		last := decoded[strings.LastIndex(decoded, "/")+1:]
		if last == "validate" {
			var files []map[string]any
			for _, p := range q.parts {
				files = append(files, map[string]any{"n": p.name, "t": now})
			}
			if files == nil {
				files = []map[string]any{}
			}
			body, _ = json.Marshal(files)
			metaLen = len(body)
		} else {
			meta := []map[string]any{}
			var content []byte
			for _, p := range q.parts {
				c := partContent(p)
				sum := md5.Sum(c)
				h := hex.EncodeToString(sum[:])
				if p.kind == "h" {
					h = "00000000000000000000000000000000"
				}
				beg, end := 0, p.size
				if p.kind == "p" {
					end = p.size / 2
				}
				if p.kind == "q" {
					beg = p.size / 2
				}
				meta = append(meta, map[string]any{"n": p.name, "r": p.renamed, "p": p.prev, "f": h,
					"t": fmt.Sprintf("%d+0", now), "s": p.size, "b": beg, "e": end})
				content = append(content, c[beg:end]...)
			}
			m, _ := json.Marshal(meta)
			metaLen = len(m)
			body = m
			if last == "data" {
				body = append(body, content...)
			}
		}
	}
	if q.gz == "on" && body != nil {
		var zb bytes.Buffer
		zw := gzip.NewWriter(&zb)
		zw.Write(body)
		zw.Close()
		body = zb.Bytes()
	}
	var b bytes.Buffer
	fmt.Fprintf(&b, "%s %s HTTP/1.1\r\nHost: 127.0.0.1\r\nConnection: close\r\n", q.method, target)
	if q.sh != "" {
		fmt.Fprintf(&b, "X-STS-SrcName: %s\r\n", q.sh)
	}
	if q.kh != "" {
		fmt.Fprintf(&b, "X-STS-Key: %s\r\n", q.kh)
	}
	if q.sep != "" {
		fmt.Fprintf(&b, "X-STS-Sep: %s\r\n", q.sep)
	}
	if q.ml == "ok" {
		fmt.Fprintf(&b, "X-STS-MetaLen: %d\r\n", metaLen)
	} else {
		fmt.Fprintf(&b, "X-STS-MetaLen: abc\r\n")
	}
	if q.gz != "off" {
		fmt.Fprintf(&b, "Content-Encoding: gzip\r\n")
	}
	if body != nil {
		fmt.Fprintf(&b, "Content-Length: %d\r\n", len(body))
	}
	b.WriteString("\r\n")
	b.Write(body)
	return b.Bytes()
}

// headerSafe: can the value travel in an HTTP header unchanged (no control bytes, no
// surrounding blanks)? Otherwise the generator uses the query string.
func headerSafe(v string) bool {
	if v == "" || v != strings.TrimSpace(v) {
		return false
	}
	for _, c := range []byte(v) {
		if c < 0x20 || c == 0x7f {
			return false
		}
	}
	return true
}

type httpResp struct {
	status int
	ctype  string
	body   []byte
	err    string
}

func (e *authExec) send(raw []byte) httpResp { return e.sendM(raw, "GET") }

func (e *authExec) sendM(raw []byte, method string) httpResp {
	c, err := net.DialTimeout("tcp", fmt.Sprintf("127.0.0.1:%d", e.proc.port), 5*time.Second)
	if err != nil {
		return httpResp{err: "dial"}
	}
	defer c.Close()
	c.SetDeadline(time.Now().Add(8 * time.Second))
	if _, err = c.Write(raw); err != nil {
		// the server may answer (400) and close before the whole body is written
	}
	resp, err := http.ReadResponse(bufio.NewReader(c), &http.Request{Method: method})
	if err != nil {
		return httpResp{err: "timeout-or-reset"}
	}
	defer resp.Body.Close()
	var rd io.Reader = resp.Body
	if resp.Header.Get("Content-Encoding") == "gzip" {
		if zr, zerr := gzip.NewReader(resp.Body); zerr == nil {
			rd = zr
		}
	}
	body, _ := io.ReadAll(rd)
	return httpResp{status: resp.StatusCode, ctype: resp.Header.Get("Content-Type"), body: body}
}

// ---------------------------------------------------------------- sandbox listing

type entry struct {
	kind string // d f p(ipe) o(ther)
	size int64
	sum  string
}

func authListTree(root string) map[string]entry {
	out := map[string]entry{}
	filepath.Walk(root, func(p string, info os.FileInfo, err error) error {
		if err != nil || info == nil {
			return nil
		}
		rel, _ := filepath.Rel(root, p)
		switch {
		case info.IsDir():
			out[rel] = entry{kind: "d"}
		case info.Mode().IsRegular():
			en := entry{kind: "f", size: info.Size()}
			if info.Size() <= 1<<20 {
				if b, rerr := os.ReadFile(p); rerr == nil {
					s := sha1.Sum(b)
					en.sum = hex.EncodeToString(s[:8])
				}
			}
			out[rel] = en
		case info.Mode()&os.ModeNamedPipe != 0:
			out[rel] = entry{kind: "p"}
		default:
			out[rel] = entry{kind: "o"}
		}
		return nil
	})
	return out
}

func diffTrees(a, b map[string]entry) []string {
	var d []string
	for k, v := range a {
		w, ok := b[k]
		if !ok {
			d = append(d, k)
		} else if v != w {
			d = append(d, k)
		}
	}
	for k := range b {
		if _, ok := a[k]; !ok {
			d = append(d, k)
		}
	}
	sort.Strings(d)
	return d
}

// ---------------------------------------------------------------- executor

type authExec struct {
	proc         *mainProc
	sb           sandbox
	started      bool
	fails        []string
	tree         map[string]entry // listing after the last op
	unsettled    bool             // an expected end state did not show up in time: effect oracles off
	unsettledWhy string
	confSources  []string // the configured lists, as the conf op set them
	confKeys     []string
	sent         map[string][]string // source -> names sent with accepted data requests (for the sender's view)
	keyOf        map[string]string   // source -> key that was accepted
	view         map[string]string   // source -> what an authorised sender is told (validate + partials)
	blocked      map[string]*os.File
	parked       map[string][][2]string // source -> (stage path, name) of files waiting for their predecessor
	fifo         map[string]string
	nAccepted    int
	nRefused     int
	key          strings.Builder
	now          int64
	markers      map[string]string // marker token -> sandbox-relative path of the file carrying it
}

var authProc *mainProc
var authCaseSeq int

func (authComp) NewExec() Exec {
	return &authExec{sent: map[string][]string{}, keyOf: map[string]string{}, view: map[string]string{},
		blocked: map[string]*os.File{}, fifo: map[string]string{}, parked: map[string][][2]string{}, markers: map[string]string{}, now: time.Now().Unix() - 60}
}

// seedOutside puts marker files around and beside the receiver's directories.
func (e *authExec) seedOutside() {
	put := func(rel, marker string) {
		p := filepath.Join(e.sb.base, rel)
		os.MkdirAll(filepath.Dir(p), 0o755)
		os.WriteFile(p, []byte(marker), 0o644)
		e.markers[marker] = rel
	}
	put("TOP-secret.txt", "MARKER-TOP-7f3a")
	put("p1/p2/p3/PAD-secret.txt", "MARKER-PAD-6e21")
	put("p1/p2/p3/outer/OUTER-secret.txt", "MARKER-OUTER-91bc")
	put("p1/p2/p3/outer/recv/RECV-secret.txt", "MARKER-RECV-55d0")
	put("p1/p2/p3/outer/sibling/other.txt", "MARKER-SIBLING-02ee")
	// another source's data in every receiver directory
	put("p1/p2/p3/outer/recv/final/foreign-src/FOREIGNFINAL.dat", "MARKER-FFINAL-a1")
	put("p1/p2/p3/outer/recv/logs/foreign-src/202401/01", "FOREIGNLOG.dat:MARKER-FLOG-b2:5:1704067200:\n")
	e.markers["MARKER-FLOG-b2"] = "p1/p2/p3/outer/recv/logs/foreign-src/202401/01"
	cmp := `{"path":"MARKER-FPART-c3.dat","renamed":"","prev":"","time":"1704067200+0","size":10,"hash":"d41d8cd98f00b204e9800998ecf8427e","src":"foreign-src","parts":[{"b":0,"e":5}]}`
	put("p1/p2/p3/outer/recv/stage/foreign-src/MARKER-FPART-c3.dat.cmp", cmp)
	e.markers["MARKER-FPART-c3"] = "p1/p2/p3/outer/recv/stage/foreign-src/MARKER-FPART-c3.dat.cmp"
	delete(e.markers, cmp)
	put("p1/p2/p3/outer/recv/stage/foreign-src/MARKER-FPART-c3.dat.part", "MARKER-FPARTDATA-d4")
}

func (e *authExec) ensure(pre []string, forceNew bool) {
	if e.started && !forceNew {
		return
	}
	if authProc != nil && (forceNew || authProc.uses >= 120 || authProc.cmd == nil) {
		authProc.close()
		authProc = nil
	}
	if authProc == nil {
		p, err := startMain(pre)
		if err != nil {
			panic("cannot start sts main: " + err.Error())
		}
		authProc = p
	}
	authProc.uses++
	e.proc = authProc
	authCaseSeq++
	if forceNew {
		// the case runs in the directories the process was started with
		e.sb = e.proc.roots
	} else {
		e.sb = newSandbox(filepath.Join(e.proc.base, fmt.Sprintf("c%d", authCaseSeq)))
		if err := e.sb.mkdirs(); err != nil {
			panic(err)
		}
		e.proc.must(fmt.Sprintf("dirs %s %s %s %s", esc(e.sb.stage), esc(e.sb.final), esc(e.sb.logs), esc(e.sb.serve)))
	}
	e.proc.must("conf ~ ~")
	e.seedOutside()
	e.tree = authListTree(e.sb.base)
	e.started = true
}

// dirName is the oracle's own statement of which directory belongs to a source: the source
// name with '/' written as "--", provided that is a real name.
func dirName(source string) (string, bool) {
	d := strings.ReplaceAll(source, "/", "--")
	if d == "" || d == "." || d == ".." || strings.ContainsRune(d, 0) {
		return "", false
	}
	return d, true
}

func (e *authExec) allowedRoots(source string) []string {
	d, ok := dirName(source)
	if !ok {
		return nil
	}
	rel := func(p string) string { r, _ := filepath.Rel(e.sb.base, p); return r }
	roots := []string{rel(filepath.Join(e.sb.stage, d)), rel(filepath.Join(e.sb.final, d)), rel(filepath.Join(e.sb.logs, d))}
	if !strings.Contains(source, "/") {
		roots = append(roots, rel(filepath.Join(e.sb.serve, source)))
	}
	return roots
}

func underAny(p string, roots []string) bool {
	for _, r := range roots {
		if p == r || strings.HasPrefix(p, r+"/") {
			return true
		}
	}
	return false
}

func effSource(q reqSpec) string {
	if q.sh != "" {
		return q.sh
	}
	return q.sq
}
func effKey(q reqSpec) string {
	if q.kh != "" {
		return q.kh
	}
	return q.kq
}

// settle waits (bounded) for the asynchronous end state of the parts of an accepted data
// request: a complete valid file is delivered (companion gone) or parked behind its
// predecessor (.wait present).
func (e *authExec) settle(source, key string, recvd []partSpec, sep string) {
	r := e.proc.must("gkdirs " + esc(source))
	f := strings.Fields(r)
	if len(f) != 3 {
		return // stub or none: nothing asynchronous
	}
	stageRoot := unesc(f[0])
	deadline := time.Now().Add(10 * time.Second)
	// what the receiver tells the sender about one name (the real validate route)
	status := func(name string) int {
		q := reqSpec{method: "POST", url: "/validate", sq: source, kq: key, ml: "ok", gz: "off", body: "parts",
			parts: []partSpec{{name: name, kind: "w"}}}
		rr := e.send(q.wire(e.now))
		e.proc.must("calls")
		var m map[string]int
		if rr.status != 200 || json.Unmarshal(rr.body, &m) != nil {
			return -1
		}
		return m[name]
	}
	gone := func(p string) bool { _, err := os.Lstat(p); return err != nil }
	// delivered: nothing of the file is left in the stage directory
	delivered := func(path string) bool {
		return gone(path+".part") && gone(path+".full") && gone(path+".cmp") && gone(path+".wait")
	}
	waitFor := func(cond func() bool) bool {
		for !cond() {
			if time.Now().After(deadline) {
				e.unsettled = true
				e.unsettledWhy = fmt.Sprintf("source %q parts %v sep %q", source, recvd, sep)
				return false
			}
			time.Sleep(time.Millisecond)
		}
		return true
	}
	for _, p := range recvd {
		name := p.name
		if sep != "" {
			name = filepath.Join(strings.Split(name, sep)...)
		}
		path := filepath.Join(stageRoot, name)
		switch {
		case p.kind == "h":
			// a complete file with a wrong hash: wait until the receiver reports it as failed
			if !waitFor(func() bool { st := status(name); return st == 1 || st == -1 }) {
				return
			}
		case (p.kind == "w" || p.kind == "q") && p.prev == "":
			if !waitFor(func() bool { return delivered(path) }) {
				return
			}
		case p.kind == "w" || p.kind == "q":
			// delivered, or parked behind its predecessor (the receiver then answers "waiting")
			parked := false
			if !waitFor(func() bool {
				if delivered(path) {
					return true
				}
				if !gone(path+".wait") && status(name) == 3 {
					parked = true
					return true
				}
				return false
			}) {
				return
			}
			if parked {
				e.parked[source] = append(e.parked[source], [2]string{path, name})
			}
		}
	}
	// files of this source that were parked earlier may have been released by this request
	var still [][2]string
	for _, pk := range e.parked[source] {
		if delivered(pk[0]) {
			continue
		}
		if status(pk[1]) == 3 {
			still = append(still, pk)
			continue
		}
		if !waitFor(func() bool { return delivered(pk[0]) }) {
			return
		}
	}
	e.parked[source] = still
	// the companion is removed right after the move; give the last unlink a moment
	time.Sleep(2 * time.Millisecond)
}

// senderView: what the receiver tells the sender of a source about the names sent so far
// (GetFileStatus, as the validate route forwards it) and which partials it holds (Scan, as
// the partials route forwards it), asked directly at the source's real stage.
func (e *authExec) senderView(source string) string {
	if _, blocked := e.fifo[source]; blocked {
		return "blocked" // Scan would wait for the held recovery
	}
	return e.proc.must("view " + esc(source) + " " + escList(e.sent[source]))
}

func (e *authExec) refreshViews() {
	for s := range e.sent {
		e.view[s] = e.senderView(s)
	}
}

func (e *authExec) fail(kind, format string, a ...any) {
	e.fails = append(e.fails, kind+": "+fmt.Sprintf(format, a...))
}

func canonBody(q reqSpec, r httpResp, calls string) string {
	for _, c := range strings.Fields(calls) {
		if c != "-" && !strings.HasPrefix(c, "new:") {
			return ""
		}
	}
	if q.method != "GET" || r.status != 200 {
		return ""
	}
	if len(r.body) == 0 {
		return ""
	}
	if strings.HasPrefix(r.ctype, "application/json") {
		var names []string
		if err := json.Unmarshal(r.body, &names); err != nil {
			return "json:" + string(r.body)
		}
		sort.Strings(names)
		return "list:" + strings.Join(names, ",")
	}
	return "file:" + string(r.body)
}

func (e *authExec) doReq(q reqSpec) string {
	e.ensure(nil, false)
	source := effSource(q)
	resp := e.sendM(q.wire(e.now), q.method)
	calls := e.proc.must("calls")
	if resp.err != "" {
		e.fail("no-answer", "request got no HTTP answer (%s)", resp.err)
		return "error " + resp.err + " " + calls
	}
	// which parts did the gatekeeper get?
	reached := strings.Contains(calls, "prepare:") || strings.Contains(calls, "received:") ||
		strings.Contains(calls, "status:") || strings.Contains(calls, "scan:")
	body := canonBody(q, resp, calls)
	staticServed := body != "" || (q.method == "DELETE" && resp.status == 200 && !reached)
	accepted := (resp.status == 200 || resp.status == 206) && (reached || staticServed)
	if accepted && strings.Contains(calls, "receive:") {
		var recvd []partSpec
		n := strings.Count(calls, "receive:")
		if n > len(q.parts) {
			n = len(q.parts)
		}
		recvd = q.parts[:n]
		if resp.status == 206 && n > 0 {
			recvd = recvd[:n-1] // the last Receive failed: nothing of that part will arrive
		}
		e.settle(source, effKey(q), recvd, q.sep)
		for _, p := range recvd {
			nm := p.name
			if q.sep != "" {
				nm = filepath.Join(strings.Split(nm, q.sep)...)
			}
			e.sent[source] = append(e.sent[source], nm)
		}
		if _, ok := e.keyOf[source]; !ok {
			e.keyOf[source] = effKey(q)
		}
	}
	after := authListTree(e.sb.base)
	changed := diffTrees(e.tree, after)
	e.tree = after
	if !e.unsettled {
		roots := e.allowedRoots(source)
		if !accepted && len(changed) > 0 {
			// oracle (Props/C15 refusal_has_no_effect, Props/C14 unsafe_names_refused): a request
			// that was not accepted changes nothing at all
			e.fail("refused-with-effect", "the request was answered %d (not served) but the sandbox changed: %v (gatekeeper calls: %s)", resp.status, trunc(changed), calls)
		}
		for _, c := range changed {
			if accepted && !underAny(c, roots) {
				// oracle (Props/C14 C14_data_routes_confined, source_dir_confined)
				e.fail("escape", "request for source %q (status %d) changed %q, outside that source's directories %v", source, resp.status, c, roots)
				break
			}
		}
	}
	if !e.unsettled {
		for _, r := range e.allowedRoots(source) {
			if en, ok := after[r]; ok && en.kind != "d" {
				e.fail("root-clobbered", "after the request for source %q (status %d) the source's directory %q is not a directory any more", source, resp.status, r)
			}
		}
	}
	// disclosure: the body must not carry the marker of a file outside the source's directories
	allowed := e.allowedRoots(source)
	for m, rel := range e.markers {
		if bytes.Contains(resp.body, []byte(m)) {
			if !accepted || !underAny(rel, allowed) {
				e.fail("disclosure", "response (status %d) for source %q carries the content or name of %q", resp.status, source, rel)
			}
		}
	}
	if accepted {
		e.nAccepted++
		// oracle (Props/C15 validator_decision, gate): a request is only served when its source
		// and key are exactly among the configured ones (where a list is configured), and
		// (not_ready_during_recover) never while its stage is held inside Recover
		inList := func(x string, l []string) bool {
			for _, v := range l {
				if v == x {
					return true
				}
			}
			return false
		}
		if len(e.confSources) > 0 && !inList(source, e.confSources) {
			e.fail("unauthorised-accepted", "source %q is not among the configured sources %q but the request (status %d) was served: %s", source, e.confSources, resp.status, calls)
		}
		if len(e.confKeys) > 0 && !inList(effKey(q), e.confKeys) {
			e.fail("unauthorised-accepted", "key %q is not among the configured keys %q but the request for %q (status %d) was served: %s", effKey(q), e.confKeys, source, resp.status, calls)
		}
		if _, held := e.fifo[source]; held {
			e.fail("served-while-recovering", "the stage of %q is inside Recover (held there) but the request (status %d) was served: %s", source, resp.status, calls)
		}
		if !e.unsettled {
			e.refreshViews()
		}
	} else {
		e.nRefused++
		if !e.unsettled && (resp.status == 400 || resp.status == 403 || resp.status == 503) {
			// oracle (Props/C15 refusal_has_no_effect): what authorised senders are told is unchanged
			for s, before := range e.view {
				if now := e.senderView(s); now != before {
					e.fail("refusal-altered-answers", "after a refused request (status %d, source %q) the sender of %q is told %q instead of %q",
						resp.status, source, s, now, before)
				}
			}
			e.tree = authListTree(e.sb.base)
		}
	}
	return fmt.Sprintf("%d %s b=%s", resp.status, calls, esc(body))
}

func trunc(s []string) []string {
	if len(s) > 6 {
		return append(append([]string{}, s[:6]...), "...")
	}
	return s
}

func (e *authExec) Do(op []string) string {
	e.key.WriteString(strings.Join(op, " "))
	e.key.WriteByte(';')
	switch {
	case len(op) == 2 && op[0] == "boot":
		pre := unescList(op[1])
		for _, p := range pre {
			if _, ok := dirName(p); !ok || strings.HasPrefix(p, "/") || strings.HasSuffix(p, "/") || strings.Contains(p, "//") || strings.Contains(p, "--") {
				return "bad-op"
			}
		}
		e.started = false
		e.ensure(pre, true)
		ans := e.proc.boot
		// oracle (Props/C15 not_ready_before_recover): no stage found at start-up is ready
		// before its recovery has begun
		for _, f := range strings.Fields(ans)[1:] {
			if strings.HasSuffix(f, "=1") {
				e.fail("ready-before-recover", "stage %s answers Ready() = true when init returns although its Recover goroutine has not run yet", f)
			}
		}
		// oracle (Props/C15 not_ready_during_recover): while the recoveries are still held, the
		// stage of every source found at start-up must be the one requests for that source
		// reach (else such a request gets a fresh, ready stage over a directory in recovery)
		for _, p := range pre {
			if e.proc.must("ready "+esc(p)) == "none" {
				e.fail("served-while-recovering", "the stage found at start-up for source %q is not registered under that source name: a request for it during recovery gets a new, ready stage over the same directories", p)
			}
		}
		// let the recoveries end
		for _, fifo := range e.proc.fifos {
			e.release(fifo)
		}
		e.proc.fifos = nil
		for _, p := range pre {
			for i := 0; i < 5000; i++ {
				if e.proc.must("ready "+esc(p)) == "1" {
					break
				}
				time.Sleep(time.Millisecond)
			}
		}
		e.proc.must("calls")
		e.tree = authListTree(e.sb.base)
		return ans
	case len(op) == 3 && op[0] == "conf":
		e.ensure(nil, false)
		r := e.proc.must("conf " + op[1] + " " + op[2])
		e.confSources, e.confKeys = unescList(op[1]), unescList(op[2])
		e.view = map[string]string{}
		e.sent = map[string][]string{}
		e.keyOf = map[string]string{}
		return r
	case len(op) == 4 && op[0] == "seed":
		e.ensure(nil, false)
		src, rel, content := unesc(op[1]), unesc(op[2]), unesc(op[3])
		if !seedOK(src, rel) || content == "" {
			return "bad-op"
		}
		p := filepath.Join(e.sb.serve, src, rel)
		os.MkdirAll(filepath.Dir(p), 0o755)
		os.WriteFile(p, []byte(content), 0o644)
		if strings.HasPrefix(content, "MARKER-") {
			r, _ := filepath.Rel(e.sb.base, p)
			e.markers[content] = r
		}
		e.tree = authListTree(e.sb.base)
		return "ok"
	case len(op) == 3 && op[0] == "gk":
		e.ensure(nil, false)
		src := unesc(op[1])
		var ans string
		switch op[2] {
		case "stub0":
			ans = e.proc.must("stub " + esc(src) + " 0")
		case "stub1":
			ans = e.proc.must("stub " + esc(src) + " 1")
		case "make":
			ans = e.proc.must("make " + esc(src))
		case "stop":
			ans = e.proc.must("stop " + esc(src))
		case "recover":
			ans = e.proc.must("recover " + esc(src))
		case "block":
			ans = e.block(src)
		case "unblock":
			ans = e.unblock(src)
		default:
			return "bad-op"
		}
		e.tree = authListTree(e.sb.base)
		if !e.unsettled {
			e.refreshViews()
		}
		return ans
	case len(op) == 3 && op[0] == "valid":
		e.ensure(nil, false)
		if e.proc.must("valid "+op[1]+" "+op[2]) == "1" {
			return "true"
		}
		return "false"
	case len(op) == 1 && op[0] == "routes":
		return e.routes()
	case op[0] == "req":
		q, ok := parseReqOp(op)
		if !ok {
			return "bad-op"
		}
		return e.doReq(q)
	}
	return "bad-op"
}

func seedOK(src, rel string) bool {
	okSeg := func(s string) bool {
		if s == "" || s == "." || s == ".." {
			return false
		}
		for _, c := range []byte(s) {
			if !(c >= 'a' && c <= 'z' || c >= 'A' && c <= 'Z' || c >= '0' && c <= '9' || c == '.' || c == '_' || c == '-') {
				return false
			}
		}
		return true
	}
	if !okSeg(src) || rel == "" {
		return false
	}
	for _, s := range strings.Split(rel, "/") {
		if !okSeg(s) {
			return false
		}
	}
	return true
}

// block starts Recover of a real stage and holds it at a step inside: a named pipe called
// *.cmp in the stage directory makes Recover's walk block in open(2) until unblock writes
// to it. Recover has cleared the ready flag before it gets there.
func (e *authExec) block(src string) string {
	if strings.Contains(src, "/") || strings.Contains(src, "--") {
		// two source names can share a directory ("a/b" and "a--b"); the pipe would then hold
		// requests of the other one inside Scan
		return "bad-op"
	}
	r := e.proc.must("gkdirs " + esc(src))
	if r == "none" {
		return "none"
	}
	f := strings.Fields(r)
	if len(f) != 3 {
		return "bad-op"
	}
	if _, dup := e.fifo[src]; dup {
		return "bad-op"
	}
	stageRoot := unesc(f[0])
	os.MkdirAll(stageRoot, 0o755)
	fifo := filepath.Join(stageRoot, "zz-verif-block.cmp")
	if err := syscall.Mkfifo(fifo, 0o644); err != nil {
		return "error mkfifo"
	}
	e.fifo[src] = fifo
	e.proc.must("recover-async " + esc(src))
	for i := 0; i < 5000; i++ {
		if e.proc.must("ready "+esc(src)) == "0" {
			break
		}
		time.Sleep(time.Millisecond)
	}
	return "ok"
}

func (e *authExec) unblock(src string) string {
	r := e.proc.must("gkdirs " + esc(src))
	if r == "none" {
		return "none"
	}
	if len(strings.Fields(r)) != 3 {
		return "bad-op"
	}
	fifo, ok := e.fifo[src]
	if !ok {
		// nothing is held: the model runs the rest of a recovery, which ends ready
		e.proc.must("recover " + esc(src))
		return "ok"
	}
	delete(e.fifo, src)
	e.release(fifo)
	for i := 0; i < 5000; i++ {
		if e.proc.must("ready "+esc(src)) == "1" {
			break
		}
		time.Sleep(time.Millisecond)
	}
	os.Remove(fifo)
	return "ok"
}

func (e *authExec) release(fifo string) {
	done := make(chan bool, 1)
	go func() {
		w, err := os.OpenFile(fifo, os.O_WRONLY, 0)
		if err == nil {
			w.Write([]byte("{}"))
			w.Close()
		}
		done <- true
	}()
	select {
	case <-done:
	case <-time.After(3 * time.Second):
		// no reader: open a reader ourselves so that the writer goroutine ends
		if rd, err := os.OpenFile(fifo, os.O_RDONLY|syscall.O_NONBLOCK, 0); err == nil {
			<-done
			rd.Close()
		}
	}
}

// routes reads the route table from the source of http/server.go Serve (tie T3): every
// mux.Handle call with its pattern literal and the wrappers around the handler.
func (e *authExec) routes() string {
	repo := os.Getenv("VERIF_REPO")
	if repo == "" {
		repo = "/repo"
	}
	fset := token.NewFileSet()
	f, err := parser.ParseFile(fset, filepath.Join(repo, "http", "server.go"), nil, 0)
	if err != nil {
		return "error parse"
	}
	var render func(x ast.Expr) string
	render = func(x ast.Expr) string {
		switch v := x.(type) {
		case *ast.CallExpr:
			name := ""
			switch fn := v.Fun.(type) {
			case *ast.SelectorExpr:
				name = fn.Sel.Name
			case *ast.Ident:
				name = fn.Name
			}
			if len(v.Args) != 1 {
				return name + "(?)"
			}
			if name == "HandlerFunc" {
				return render(v.Args[0])
			}
			return name + "(" + render(v.Args[0]) + ")"
		case *ast.SelectorExpr:
			return v.Sel.Name
		case *ast.Ident:
			return v.Name
		}
		return "?"
	}
	var out []string
	for _, d := range f.Decls {
		fd, ok := d.(*ast.FuncDecl)
		if !ok || fd.Name.Name != "Serve" || fd.Recv == nil {
			continue
		}
		ast.Inspect(fd.Body, func(n ast.Node) bool {
			call, ok := n.(*ast.CallExpr)
			if !ok {
				return true
			}
			sel, ok := call.Fun.(*ast.SelectorExpr)
			if !ok || sel.Sel.Name != "Handle" || len(call.Args) != 2 {
				return true
			}
			if id, ok := sel.X.(*ast.Ident); !ok || id.Name != "mux" {
				return true
			}
			pat := "?"
			if be, ok := call.Args[0].(*ast.BinaryExpr); ok {
				if lit, ok := be.Y.(*ast.BasicLit); ok {
					pat, _ = strconv.Unquote(lit.Value)
				}
			} else if lit, ok := call.Args[0].(*ast.BasicLit); ok {
				pat, _ = strconv.Unquote(lit.Value)
			}
			h := render(call.Args[1])
			out = append(out, esc(pat)+"="+h)
			// oracle (Props/C15 all_data_routes_wrapped)
			for _, dh := range []string{"routeData", "routeDataRecovery", "routeValidate", "routePartials", "routeFile"} {
				if strings.Contains(h, dh+")") && !strings.Contains(h, "handleValidate("+dh+")") {
					e.fail("route-unwrapped", "route %s = %s reaches %s without handleValidate", pat, h, dh)
				}
			}
			return true
		})
	}
	if len(out) == 0 {
		return "error no-routes"
	}
	return strings.Join(out, " ")
}

func (e *authExec) Oracle() []string { f := e.fails; e.fails = nil; return f }
func (e *authExec) Signature() (bool, string) {
	return e.nAccepted > 0 && e.nRefused > 0, e.key.String()
}
func (e *authExec) Close() {
	if e.unsettled {
		fmt.Fprintln(os.Stderr, "auth: a case did not reach its expected end state in time; its effect oracles were switched off:", e.unsettledWhy)
	}
	for src, fifo := range e.fifo {
		e.release(fifo)
		_ = src
	}
	if e.started && e.sb.base != "" && e.proc != nil && e.sb.base != e.proc.roots.base {
		// stop the stages of this case, then drop its directories
		e.proc.must(fmt.Sprintf("dirs %s %s %s %s", esc(e.proc.roots.stage), esc(e.proc.roots.final), esc(e.proc.roots.logs), esc(e.proc.roots.serve)))
		os.RemoveAll(e.sb.base)
	}
}

func (authComp) AnswerClass(op []string, ans string) string {
	switch op[0] {
	case "req":
		f := strings.Fields(ans)
		head := "?"
		if len(op) > 2 {
			u := unesc(op[2])
			seg := strings.SplitN(strings.TrimLeft(u, "/"), "/", 2)[0]
			switch seg {
			case "data", "data-recovery", "validate", "partials", "static":
				head = seg
			default:
				head = "other"
			}
			if u != "/"+seg && !(seg == "static" && strings.HasPrefix(u, "/static/")) {
				head += "~"
			}
		}
		if len(f) > 0 {
			return "req:" + head + ":" + f[0]
		}
	case "gk":
		if len(op) > 2 {
			return "gk:" + op[2] + ":" + ans
		}
	case "boot":
		if strings.Contains(ans, "=1") {
			return "boot:ready-early"
		}
		return "boot:" + strconv.Itoa(len(strings.Fields(ans))-1)
	case "valid":
		return "valid:" + ans
	}
	return op[0]
}
