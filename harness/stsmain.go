package main

import (
	"bufio"
	"fmt"
	"io"
	"net"
	"os"
	"os/exec"
	"path/filepath"
	"strings"
	"sync/atomic"
	"syscall"
	"time"
)

// mainProc drives the real sts binary built with -tags verif ($VERIF_STSMAIN) through the
// line protocol of /repo/main/verif_export_auth.go (STS_VERIF_MAIN=auth): the receiver is
// built by the real serverApp.init and served by the real Server.Serve on 127.0.0.1:port.
type mainProc struct {
	cmd   *exec.Cmd
	in    io.WriteCloser
	out   *bufio.Reader
	base  string // scratch directory owned by this process
	port  int
	uses  int
	boot  string   // reply of "start"
	fifos []string // named pipes holding the start-up recoveries
	roots sandbox
}

// sandbox is the directory layout one case runs in: base/outer/recv/{stage,final,logs,serve}
// are the receiver's configured directories; everything else under base is "outside".
type sandbox struct {
	base                            string
	stage, final, logs, serve, msgs string
}

// The padding levels p1/p2/p3 keep every escape the generator can provoke on a broken tree
// (at most 4 parent steps from a per-source directory, at most 6 in corpus witnesses)
// inside base, where the listing sees it, and in any case inside $VERIF_TMP.
func newSandbox(base string) sandbox {
	recv := filepath.Join(base, "p1", "p2", "p3", "outer", "recv")
	return sandbox{base: base,
		stage: filepath.Join(recv, "stage"), final: filepath.Join(recv, "final"),
		logs: filepath.Join(recv, "logs"), serve: filepath.Join(recv, "serve"),
		msgs: filepath.Join(recv, "msgs")}
}

func (sb sandbox) mkdirs() error {
	for _, d := range []string{sb.stage, sb.final, sb.logs, sb.serve, sb.msgs} {
		if err := os.MkdirAll(d, 0o755); err != nil {
			return err
		}
	}
	return nil
}

var procSeq atomic.Int64

func verifTmp() string {
	if d := os.Getenv("VERIF_TMP"); d != "" {
		return d
	}
	d, _ := os.MkdirTemp("", "verif")
	return d
}

func freePort() (int, error) {
	l, err := net.Listen("tcp", "127.0.0.1:0")
	if err != nil {
		return 0, err
	}
	defer l.Close()
	return l.Addr().(*net.TCPAddr).Port, nil
}

// startMain starts the binary and the receiver in it; pre are names of stage directories
// that exist before the receiver is initialised (main/server.go init recovers them).
func startMain(pre []string) (*mainProc, error) {
	bin := os.Getenv("VERIF_STSMAIN")
	if bin == "" {
		return nil, fmt.Errorf("VERIF_STSMAIN not set")
	}
	if _, err := os.Stat(bin); err != nil {
		return nil, fmt.Errorf("sts main binary missing: %v", err)
	}
	// scratch directories of harness processes that are gone
	if stale, _ := filepath.Glob(filepath.Join(verifTmp(), "auth-*-*")); procSeq.Load() == 0 {
		for _, d := range stale {
			var pid, n int
			if _, err := fmt.Sscanf(filepath.Base(d), "auth-%d-%d", &pid, &n); err == nil && pid != os.Getpid() {
				if syscall.Kill(pid, 0) == syscall.ESRCH {
					os.RemoveAll(d)
				}
			}
		}
	}
	base := filepath.Join(verifTmp(), fmt.Sprintf("auth-%d-%d", os.Getpid(), procSeq.Add(1)))
	os.RemoveAll(base)
	sb := newSandbox(filepath.Join(base, "boot"))
	if err := sb.mkdirs(); err != nil {
		return nil, err
	}
	var fifos []string
	for _, p := range pre {
		p = strings.ReplaceAll(p, "/", "--") // the directory name main gives a source
		if err := os.MkdirAll(filepath.Join(sb.stage, p), 0o755); err != nil {
			return nil, err
		}
		// a named pipe called *.cmp holds the stage's Recover inside its directory walk until
		// the harness writes to it, so "ready" after init cannot mean "recovery already over"
		fifo := filepath.Join(sb.stage, p, "zz-verif-boot.cmp")
		if err := syscall.Mkfifo(fifo, 0o644); err != nil {
			return nil, err
		}
		fifos = append(fifos, fifo)
	}
	var lastErr error
	for attempt := 0; attempt < 5; attempt++ {
		port, err := freePort()
		if err != nil {
			return nil, err
		}
		cmd := exec.Command(bin)
		cmd.Env = append(os.Environ(), "STS_VERIF_MAIN=auth")
		cmd.Stderr = io.Discard
		in, _ := cmd.StdinPipe()
		outp, _ := cmd.StdoutPipe()
		if err := cmd.Start(); err != nil {
			return nil, err
		}
		p := &mainProc{cmd: cmd, in: in, out: bufio.NewReaderSize(outp, 1<<20), base: base, port: port, roots: sb, fifos: fifos}
		r, err := p.do(fmt.Sprintf("start %s %s %s %s %s %d", esc(sb.stage), esc(sb.final), esc(sb.logs), esc(sb.serve), esc(sb.msgs), port))
		if err == nil && strings.HasPrefix(r, "ok") {
			p.boot = r
			return p, nil
		}
		lastErr = fmt.Errorf("start: %q %v", r, err)
		p.kill()
	}
	return nil, lastErr
}

func (p *mainProc) do(line string) (string, error) {
	if p.cmd == nil {
		return "", fmt.Errorf("process is gone")
	}
	if _, err := io.WriteString(p.in, line+"\n"); err != nil {
		return "", err
	}
	type reply struct {
		s   string
		err error
	}
	ch := make(chan reply, 1)
	go func() {
		r, err := p.out.ReadString('\n')
		ch <- reply{strings.TrimRight(r, "\n"), err}
	}()
	select {
	case r := <-ch:
		return r.s, r.err
	case <-time.After(90 * time.Second):
		// never wait for ever on the process: give it up (the caller reports the op)
		p.kill()
		return "", fmt.Errorf("no reply to %q within 90 s", line)
	}
}

// must is do for commands that cannot fail on a healthy process.
func (p *mainProc) must(line string) string {
	r, err := p.do(line)
	if err != nil {
		panic(fmt.Sprintf("sts main process died on %q: %v", line, err))
	}
	return r
}

func (p *mainProc) kill() {
	if p == nil || p.cmd == nil {
		return
	}
	p.in.Close()
	p.cmd.Process.Kill()
	p.cmd.Wait()
	p.cmd = nil
}

func (p *mainProc) close() {
	if p == nil {
		return
	}
	p.kill()
	os.RemoveAll(p.base)
}

func escList(items []string) string {
	if len(items) == 0 {
		return "~"
	}
	e := make([]string, len(items))
	for i, it := range items {
		e[i] = esc(it)
	}
	return strings.Join(e, ",")
}

func unescList(s string) []string {
	if s == "~" {
		return nil
	}
	var out []string
	for _, it := range strings.Split(s, ",") {
		out = append(out, unesc(it))
	}
	return out
}
