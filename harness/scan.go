package main

import (
	"bufio"
	"encoding/json"
	"fmt"
	"os"
	"os/exec"
	"path/filepath"
	"regexp"
	"sort"
	"strconv"
	"strings"
	"sync"
	"syscall"
	"time"
	"unsafe"

	"github.com/arm-doe/sts"
	"github.com/arm-doe/sts/cache"
	"github.com/arm-doe/sts/client"
	stslog "github.com/arm-doe/sts/log"
	"github.com/arm-doe/sts/mock"
	"github.com/arm-doe/sts/store"
)

// component "scan": store.Local.Scan / ShouldIgnore / Sync / Remove on real directory trees,
// client.Broker.scan() / includeScannedFile / canDelete with the real cache.JSON, and the
// store/tag configuration produced by the real main.clientApp.init() (through the
// tag-guarded line protocol of the sts binary, STS_VERIF_MAIN=scan).  Properties: C17 (L0).
//
// The op grammar is documented in lean/StsModel/Drv/Scan.lean.
type scanComp struct{}

func init() { register(scanComp{}) }

func (scanComp) Name() string { return "scan" }
func (scanComp) Rule() string {
	return "case = configuration + directory tree + cache content followed by store/scan/done/" +
		"tree ops; non-trivial = some store or scan op returned at least one file while the " +
		"eligibility predicate excluded at least one leaf of the tree, or a scan removed a file; " +
		"distinct = by the full op sequence"
}

const (
	scanMargin  = int64(600000000000)
	scanMaxTime = int64(1000000000000000)
	scanMaxSize = int64(65536)
)

// ---------------------------------------------------------------- quiet logger

type scanQuietLog struct{}

func (scanQuietLog) Debug(...interface{}) {}
func (scanQuietLog) Info(...interface{})  {}
func (scanQuietLog) Error(...interface{}) {}
func (scanQuietLog) Recent(int) []string  { return nil }

// ---------------------------------------------------------------- the sts binary (real main.init)

type scanMainTag struct {
	Name   string `json:"name"`
	Delete bool   `json:"delete"`
	Delay  int64  `json:"delay"`
}

type scanMainAnswer struct {
	Err     string        `json:"err"`
	Root    string        `json:"root"`
	MinAge  int64         `json:"minage"`
	Hidden  bool          `json:"hidden"`
	Follow  bool          `json:"follow"`
	Include []string      `json:"include"`
	Ignore  []string      `json:"ignore"`
	Tags    []scanMainTag `json:"tags"`
}

var scanChild struct {
	mu  sync.Mutex
	cmd *exec.Cmd
	in  *bufio.Writer
	out *bufio.Reader
}

func scanInfra(format string, a ...any) {
	fmt.Fprintf(os.Stderr, "scan harness: "+format+"\n", a...)
	os.Exit(3)
}

func scanAskMain(line string) scanMainAnswer {
	scanChild.mu.Lock()
	defer scanChild.mu.Unlock()
	if scanChild.cmd == nil {
		bin := os.Getenv("VERIF_STSMAIN")
		if bin == "" {
			scanInfra("VERIF_STSMAIN is not set (the sts binary built with -tags verif)")
		}
		cmd := exec.Command(bin)
		cmd.Env = append(os.Environ(), "STS_VERIF_MAIN=scan")
		cmd.Stderr = os.Stderr
		w, err := cmd.StdinPipe()
		if err != nil {
			scanInfra("%v", err)
		}
		r, err := cmd.StdoutPipe()
		if err != nil {
			scanInfra("%v", err)
		}
		if err := cmd.Start(); err != nil {
			scanInfra("cannot start %s: %v", bin, err)
		}
		scanChild.cmd, scanChild.in, scanChild.out = cmd, bufio.NewWriter(w), bufio.NewReaderSize(r, 1<<20)
	}
	scanChild.in.WriteString(line + "\n")
	if err := scanChild.in.Flush(); err != nil {
		scanInfra("sts binary went away: %v", err)
	}
	resp, err := scanChild.out.ReadString('\n')
	if err != nil {
		scanInfra("sts binary went away: %v", err)
	}
	var a scanMainAnswer
	if err := json.Unmarshal([]byte(resp), &a); err != nil {
		scanInfra("bad answer from sts binary: %q", resp)
	}
	return a
}

// ---------------------------------------------------------------- patterns

type spat struct {
	kind byte
	lit  string
}

func (p spat) tok() string { return string(p.kind) + ":" + esc(p.lit) }

// regexText is the Go regular expression a literal shape stands for.
func (p spat) regexText() string {
	q := regexp.QuoteMeta(p.lit)
	switch p.kind {
	case 'p':
		return "^" + q
	case 's':
		return q + "$"
	case 'i':
		return q
	case 'x':
		return "^" + q + "$"
	case 'g':
		return "(?:^|/)" + q + "$"
	}
	return ""
}

func printableASCII(s string) bool {
	for i := 0; i < len(s); i++ {
		if s[i] < 32 || s[i] > 126 {
			return false
		}
	}
	return true
}

func parseSpat(tok string) (spat, bool) {
	if len(tok) < 2 || tok[1] != ':' || !strings.ContainsRune("psixg", rune(tok[0])) {
		return spat{}, false
	}
	lit := unesc(tok[2:])
	if !printableASCII(lit) {
		return spat{}, false
	}
	return spat{tok[0], lit}, true
}

type stag struct {
	method string
	pat    *spat
	del    bool
	delay  int64
}

// ---------------------------------------------------------------- tree description

type tnode struct {
	kind   string // f d lf ld lu lx
	name   string
	size   int64
	mtime  int64
	lmtime int64
	rel    bool
	kids   []*tnode
}

var strictIntRe = regexp.MustCompile(`^-?[0-9]{1,18}$`)

func strictInt(s string) (int64, bool) {
	if !strictIntRe.MatchString(s) {
		return 0, false
	}
	v, err := strconv.ParseInt(s, 10, 64)
	return v, err == nil
}
func parseTime(s string) (int64, bool) {
	v, ok := strictInt(s)
	return v, ok && v <= scanMaxTime && v >= -scanMaxTime
}
func parseSize(s string) (int64, bool) {
	v, ok := strictInt(s)
	return v, ok && v >= 0 && v <= scanMaxSize
}
func parseCount(s string) (int, bool) {
	v, ok := strictInt(s)
	return int(v), ok && v >= 0 && v <= 1000
}
func parse01(s string) (bool, bool) { return s == "1", s == "1" || s == "0" }

func validSeg(s string) bool {
	if s == "" || len(s) > 64 || s == "." || s == ".." {
		return false
	}
	for i := 0; i < len(s); i++ {
		if s[i] < 32 || s[i] > 126 || s[i] == '/' {
			return false
		}
	}
	return true
}

func parseRel(tok string) ([]string, bool) {
	segs := strings.Split(unesc(tok), "/")
	for _, s := range segs {
		if !validSeg(s) {
			return nil, false
		}
	}
	return segs, true
}

func dupNames(ns []*tnode) bool {
	seen := map[string]bool{}
	for _, n := range ns {
		if seen[n.name] {
			return true
		}
		seen[n.name] = true
	}
	return false
}

type tokStream struct {
	t   []string
	pos int
}

func (s *tokStream) next() (string, bool) {
	if s.pos >= len(s.t) {
		return "", false
	}
	s.pos++
	return s.t[s.pos-1], true
}

func parseNodes(s *tokStream, k, fuel int) ([]*tnode, bool) {
	var out []*tnode
	for ; k > 0; k-- {
		n, ok := parseNode(s, fuel)
		if !ok {
			return nil, false
		}
		out = append(out, n)
	}
	return out, true
}

func parseNode(s *tokStream, fuel int) (*tnode, bool) {
	if fuel == 0 {
		return nil, false
	}
	kind, ok := s.next()
	if !ok {
		return nil, false
	}
	n := &tnode{kind: kind}
	name := func() bool {
		t, ok := s.next()
		if !ok {
			return false
		}
		n.name = unesc(t)
		return validSeg(n.name)
	}
	tm := func(dst *int64) bool {
		t, ok := s.next()
		if !ok {
			return false
		}
		*dst, ok = parseTime(t)
		return ok
	}
	sz := func() bool {
		t, ok := s.next()
		if !ok {
			return false
		}
		n.size, ok = parseSize(t)
		return ok
	}
	rl := func() bool {
		t, ok := s.next()
		if !ok || (t != "r" && t != "a") {
			return false
		}
		n.rel = t == "r"
		return true
	}
	kids := func() bool {
		t, ok := s.next()
		if !ok {
			return false
		}
		k, ok := parseCount(t)
		if !ok {
			return false
		}
		n.kids, ok = parseNodes(s, k, fuel-1)
		return ok && !dupNames(n.kids)
	}
	switch kind {
	case "f":
		return n, name() && sz() && tm(&n.mtime)
	case "d":
		return n, name() && kids()
	case "lf":
		return n, name() && tm(&n.lmtime) && rl() && sz() && tm(&n.mtime)
	case "ld":
		return n, name() && tm(&n.lmtime) && rl() && kids()
	case "lu", "lx":
		return n, name() && tm(&n.lmtime) && rl()
	}
	return nil, false
}

// ---------------------------------------------------------------- executor

type centry struct {
	size, mtime int64
	hashed      bool
	done        bool
}

type scanExec struct {
	base     string
	rootName string
	t0       time.Time
	touched  bool

	// requested configuration (what the generator asked for)
	hidden, follow, sweep bool
	minAge                int64
	incl, ign             []spat
	tagsReq               []stag
	confOK                bool

	// effective configuration (what the real main.init() produced)
	st      *store.Local
	tags    []*client.FileTag
	tagRes  []*regexp.Regexp
	tagToks []string

	tree []*tnode
	jc   *cache.JSON
	br   *client.Broker

	doneVer map[string][2]int64
	handed  map[string][2]int64 // name -> version (size, mtime) the last scan handed on and left hashed in the cache
	fails   []string
	key     strings.Builder

	sawFiles, sawFiltered, sawGone bool
	lastClass, lastAnswer          string
	metaFollow                     bool
}

var scanSeq int

func (scanComp) NewExec() Exec {
	if stslog.Get() == nil {
		stslog.InitExternal(scanQuietLog{})
	}
	tmp := os.Getenv("VERIF_TMP")
	if tmp == "" {
		var err error
		if tmp, err = os.MkdirTemp("", "verif-scan"); err != nil {
			scanInfra("%v", err)
		}
	}
	scanSeq++
	base := filepath.Join(tmp, fmt.Sprintf("scan-%d-%d", os.Getpid(), scanSeq))
	os.RemoveAll(base)
	if err := os.MkdirAll(base, 0o755); err != nil {
		scanInfra("%v", err)
	}
	if real, err := filepath.EvalSymlinks(base); err == nil {
		base = real
	}
	e := &scanExec{base: base, rootName: "out", t0: time.Now(), doneVer: map[string][2]int64{}}
	for _, d := range []string{e.root(), e.ext(), e.cacheDir()} {
		os.MkdirAll(d, 0o755)
	}
	scanLastExec = e
	return e
}

func (e *scanExec) root() string     { return filepath.Join(e.base, "r", e.rootName) }
func (e *scanExec) ext() string      { return filepath.Join(e.base, "ext") }
func (e *scanExec) cacheDir() string { return filepath.Join(e.base, "cache") }
func (e *scanExec) at(ns int64) time.Time {
	// like the times the os package and the cache loader produce: no monotonic reading
	return time.Unix(0, e.t0.UnixNano()+ns)
}
func (e *scanExec) relNs(t time.Time) int64 { return int64(t.Sub(e.t0)) }

func (e *scanExec) Close() {
	os.RemoveAll(e.base)
}

func lutimes(path string, t time.Time) error {
	ts := [2]syscall.Timespec{syscall.NsecToTimespec(t.UnixNano()), syscall.NsecToTimespec(t.UnixNano())}
	p, err := syscall.BytePtrFromString(path)
	if err != nil {
		return err
	}
	atFdcwd := -100
	_, _, en := syscall.Syscall6(syscall.SYS_UTIMENSAT, uintptr(atFdcwd), uintptr(unsafe.Pointer(p)),
		uintptr(unsafe.Pointer(&ts[0])), 0x100 /* AT_SYMLINK_NOFOLLOW */, 0, 0)
	if en != 0 {
		return en
	}
	return nil
}

func (e *scanExec) mkFile(path string, size, mtime int64) {
	b := make([]byte, size)
	for i := range b {
		b[i] = byte('a' + (int(size)+i)%23)
	}
	if err := os.WriteFile(path, b, 0o644); err != nil {
		scanInfra("%v", err)
	}
	if err := os.Chtimes(path, e.at(mtime), e.at(mtime)); err != nil {
		scanInfra("%v", err)
	}
	if fi, err := os.Lstat(path); err != nil || !fi.ModTime().Equal(e.at(mtime)) {
		scanInfra("file system does not keep nanosecond mtimes (%s)", path)
	}
}

func (e *scanExec) link(target, path string, rel bool, lmtime int64) {
	if rel {
		r, err := filepath.Rel(filepath.Dir(path), target)
		if err != nil {
			scanInfra("%v", err)
		}
		target = r
	}
	if err := os.Symlink(target, path); err != nil {
		scanInfra("%v", err)
	}
	if err := lutimes(path, e.at(lmtime)); err != nil {
		scanInfra("utimensat(AT_SYMLINK_NOFOLLOW): %v", err)
	}
	if fi, err := os.Lstat(path); err != nil || !fi.ModTime().Equal(e.at(lmtime)) {
		scanInfra("cannot set the mtime of a symbolic link (%s)", path)
	}
}

// build creates the nodes inside the real directory realDir (whose real path it is).
func (e *scanExec) build(realDir string, nodes []*tnode) {
	extName := func(prefix, p string) string {
		// the same link path gets the same target path in every rebuild of the tree, so
		// that link meta recorded in the cache stays valid
		rel, _ := filepath.Rel(e.base, p)
		return filepath.Join(e.ext(), prefix+strings.ReplaceAll(esc(rel), "/", "%2f"))
	}
	for _, n := range nodes {
		p := filepath.Join(realDir, n.name)
		switch n.kind {
		case "f":
			e.mkFile(p, n.size, n.mtime)
		case "d":
			if err := os.Mkdir(p, 0o755); err != nil {
				scanInfra("%v", err)
			}
			e.build(p, n.kids)
		case "lf":
			t := extName("F-", p)
			e.mkFile(t, n.size, n.mtime)
			e.link(t, p, n.rel, n.lmtime)
		case "ld":
			t := extName("D-", p)
			if err := os.Mkdir(t, 0o755); err != nil {
				scanInfra("%v", err)
			}
			e.build(t, n.kids)
			e.link(t, p, n.rel, n.lmtime)
		case "lu":
			// a link to the directory that holds it: an ancestor on every walk that reaches it
			e.link(realDir, p, n.rel, n.lmtime)
		case "lx":
			e.link(extName("missing-", p), p, n.rel, n.lmtime)
		}
	}
}

func (e *scanExec) rebuildTree() {
	os.RemoveAll(filepath.Join(e.base, "r"))
	os.RemoveAll(e.ext())
	if err := os.MkdirAll(e.root(), 0o755); err != nil {
		scanInfra("%v", err)
	}
	os.MkdirAll(e.ext(), 0o755)
	e.build(e.root(), e.tree)
}

// ---- configuration through the real main.init()

func (e *scanExec) applyConf() bool {
	var b strings.Builder
	b01 := func(v bool) string {
		if v {
			return "1"
		}
		return "0"
	}
	fmt.Fprintf(&b, "conf %s %s %s %s %d", esc(e.root()), esc(e.cacheDir()), b01(e.hidden), b01(e.follow), e.minAge)
	known := map[string]string{}
	reg := func(p spat) string {
		known[p.regexText()] = p.tok()
		return esc(p.regexText())
	}
	reg(spat{'s', ".lck"})
	reg(spat{'g', ".disabled"})
	fmt.Fprintf(&b, " I %d", len(e.incl))
	for _, p := range e.incl {
		b.WriteString(" " + reg(p))
	}
	fmt.Fprintf(&b, " X %d", len(e.ign))
	for _, p := range e.ign {
		b.WriteString(" " + reg(p))
	}
	fmt.Fprintf(&b, " T %d", len(e.tagsReq))
	for _, t := range e.tagsReq {
		pt := "~"
		if t.pat != nil {
			pt = reg(*t.pat)
		}
		fmt.Fprintf(&b, " %s %s %s %d", esc(t.method), pt, b01(t.del), t.delay)
	}
	a := scanAskMain(b.String())
	if a.Err != "" {
		e.confOK = false
		e.lastClass = "conf:error"
		return false
	}
	comp := func(rs []string) []*regexp.Regexp {
		var out []*regexp.Regexp
		for _, r := range rs {
			out = append(out, regexp.MustCompile(r))
		}
		return out
	}
	e.st = &store.Local{
		Root:           a.Root,
		MinAge:         time.Duration(a.MinAge),
		IncludeHidden:  a.Hidden,
		Include:        comp(a.Include),
		Ignore:         comp(a.Ignore),
		FollowSymlinks: a.Follow,
	}
	e.tags, e.tagRes, e.tagToks = nil, nil, nil
	for i, t := range a.Tags {
		e.tags = append(e.tags, &client.FileTag{Name: t.Name, Delete: t.Delete, DeleteDelay: time.Duration(t.Delay)})
		// effective tag i is requested tag i (setDefaults appends a default tag at the end)
		tk := "-"
		if i < len(e.tagsReq) && e.tagsReq[i].pat != nil {
			tk = e.tagsReq[i].pat.tok()
			if e.tagsReq[i].pat.regexText() != t.Name {
				tk = "?" + esc(t.Name)
			}
			e.tagRes = append(e.tagRes, regexp.MustCompile(t.Name))
		} else {
			if t.Name != "" {
				tk = "?" + esc(t.Name)
			}
			e.tagRes = append(e.tagRes, nil)
		}
		e.tagToks = append(e.tagToks, tk)
	}
	e.confOK = true
	e.dropBroker()
	if e.metaFollow != a.Follow {
		// keep the assumption "the link meta of a cached link is what a scan under the
		// current settings records": rewrite the cache with fresh link meta
		e.metaFollow = a.Follow
		e.rewriteCacheMeta()
	}
	// canonical answer
	toks := func(rs []string) string {
		var out []string
		for _, r := range rs {
			tk, ok := known[r]
			if !ok {
				tk = "?" + esc(r)
			}
			out = append(out, tk)
		}
		return joinOr(out)
	}
	var tg []string
	for i, t := range a.Tags {
		tg = append(tg, fmt.Sprintf("%s;%s;%d", e.tagToks[i], b01(t.Delete), t.Delay))
	}
	rootOK := ""
	if a.Root != filepath.Clean(e.root()) {
		rootOK = " root=" + esc(a.Root)
	}
	e.lastAnswer = fmt.Sprintf("ok h=%s f=%s m=%d I=%s X=%s T=%s%s", b01(a.Hidden), b01(a.Follow), a.MinAge,
		toks(a.Include), toks(a.Ignore), joinOr(tg), rootOK)
	return true
}

func joinOr(xs []string) string {
	if len(xs) == 0 {
		return "-"
	}
	return strings.Join(xs, ",")
}

func (e *scanExec) ensureConf() {
	if e.st == nil {
		e.applyConf()
	}
}

func (e *scanExec) dropBroker() {
	if e.jc != nil {
		e.jc.Persist()
	}
	e.jc, e.br = nil, nil
}

func (e *scanExec) rewriteCacheMeta() {
	old, err := cache.NewJSON(e.cacheDir(), e.st.Root, "")
	if err != nil {
		scanInfra("%v", err)
	}
	var files []sts.Cached
	old.Iterate(func(f sts.Cached) bool { files = append(files, f); return false })
	if len(files) == 0 {
		return
	}
	os.RemoveAll(e.cacheDir())
	os.MkdirAll(e.cacheDir(), 0o755)
	jc, err := cache.NewJSON(e.cacheDir(), e.st.Root, "")
	if err != nil {
		scanInfra("%v", err)
	}
	for _, f := range files {
		jc.Add(&mock.File{Path: f.GetPath(), Name: f.GetName(), Size: f.GetSize(), Time: f.GetTime(),
			Meta: e.autoMeta(f.GetName()), Hash: f.GetHash()})
		if f.IsDone() {
			jc.Done(f.GetName(), nil)
		}
	}
	if err := jc.Persist(); err != nil {
		scanInfra("%v", err)
	}
}

func (e *scanExec) tagger(name string) string {
	for i, re := range e.tagRes {
		if re != nil && re.MatchString(name) {
			return e.tags[i].Name
		}
	}
	return ""
}

func (e *scanExec) broker() *client.Broker {
	e.ensureConf()
	if e.br == nil {
		jc, err := cache.NewJSON(e.cacheDir(), e.st.Root, "")
		if err != nil {
			scanInfra("cache.NewJSON: %v", err)
		}
		e.jc = jc
		age := 24 * time.Hour
		if e.sweep {
			age = 0
		}
		e.br = client.VerifNewBroker(&client.Conf{
			Name: "verif", Store: e.st, Cache: jc, Threads: 2,
			Tagger: e.tagger, Tags: e.tags, CacheAge: age,
		})
	}
	return e.br
}

func (e *scanExec) cacheView() map[string]centry {
	e.broker()
	out := map[string]centry{}
	e.jc.Iterate(func(f sts.Cached) bool {
		out[f.GetName()] = centry{f.GetSize(), e.relNs(f.GetTime()), f.GetHash() != "", f.IsDone()}
		return false
	})
	return out
}

// ---- the harness's own view of the tree (independent of the code under test)

type leafInfo struct {
	rel     string
	node    *tnode
	anc     []*tnode // directories / directory links on the way, outermost first
	ancRels []string
}

func flatten(nodes []*tnode, pre string, anc []*tnode, ancRels []string, out *[]leafInfo) {
	for _, n := range nodes {
		rel := n.name
		if pre != "" {
			rel = pre + "/" + n.name
		}
		switch n.kind {
		case "d", "ld":
			a2 := append(append([]*tnode(nil), anc...), n)
			r2 := append(append([]string(nil), ancRels...), rel)
			if n.kind == "ld" {
				*out = append(*out, leafInfo{rel, n, anc, ancRels})
			}
			flatten(n.kids, rel, a2, r2, out)
		default:
			*out = append(*out, leafInfo{rel, n, anc, ancRels})
		}
	}
}

func (e *scanExec) leaves() []leafInfo {
	var out []leafInfo
	flatten(e.tree, "", nil, nil, &out)
	return out
}

// effective ignore patterns by the property's wording: the configured ones, the lock
// extension, the disable marker, and the patterns of tags whose method is not HTTP (a tag
// without a method counts as HTTP only if it stands before the default tag: see
// main/client.go setDefaults).
func (e *scanExec) specIgnore() []*regexp.Regexp {
	var out []*regexp.Regexp
	for _, p := range e.ign {
		out = append(out, regexp.MustCompile(p.regexText()))
	}
	out = append(out, regexp.MustCompile(`\.lck$`), regexp.MustCompile(`(?:^|/)\.disabled$`))
	seenDefault := false
	for _, t := range e.tagsReq {
		if t.pat == nil {
			seenDefault = true
			continue
		}
		m := t.method
		if m == "" && !seenDefault {
			m = "http"
		}
		if m != "http" {
			out = append(out, regexp.MustCompile(t.pat.regexText()))
		}
	}
	return out
}

type reasonSet map[string]bool

// eligible evaluates the right-hand side of Props/C17 `eligible_iff` on the tree
// description (without the cache clause): relative name -> (size, mtime).
func (e *scanExec) eligible(reasons reasonSet) map[string][2]int64 {
	out := map[string][2]int64{}
	for _, n := range e.tree {
		if n.name == ".disabled" {
			reasons["disabled"] = true
			return out
		}
	}
	ign := e.specIgnore()
	var incl []*regexp.Regexp
	for _, p := range e.incl {
		incl = append(incl, regexp.MustCompile(p.regexText()))
	}
	matches := func(rs []*regexp.Regexp, s string) bool {
		for _, r := range rs {
			if r.MatchString(s) {
				return true
			}
		}
		return false
	}
	for _, l := range e.leaves() {
		ok := true
		for i, a := range l.anc {
			if a.kind == "ld" && !e.follow {
				ok = false
				reasons["under-link-nofollow"] = true
			}
			if !e.hidden && strings.HasPrefix(a.name, ".") {
				ok = false
				reasons["hidden-dir"] = true
			}
			if matches(ign, l.ancRels[i]) {
				ok = false
				reasons["ignored-dir"] = true
			}
		}
		var ageT int64
		switch l.node.kind {
		case "f":
			ageT = l.node.mtime
		case "lf":
			ageT = l.node.lmtime
			if e.follow {
				ageT = l.node.mtime
			}
		default:
			reasons["not-a-file:"+l.node.kind] = true
			continue
		}
		if !ok {
			continue
		}
		switch {
		case !e.hidden && strings.HasPrefix(l.node.name, "."):
			reasons["hidden"] = true
		case matches(ign, l.rel):
			reasons["ignored"] = true
		case len(incl) > 0 && !matches(incl, l.rel):
			reasons["not-included"] = true
		case 0-ageT < e.minAge:
			reasons["young"] = true
		default:
			out[l.rel] = [2]int64{l.node.size, l.node.mtime}
		}
	}
	return out
}

func (e *scanExec) nodeAt(rel string) *tnode {
	for _, l := range e.leaves() {
		if l.rel == rel {
			return l.node
		}
	}
	return nil
}

// specCanDelete: the tag of the file (first tag whose pattern matches, else the default
// tag) allows deletion now.
func (e *scanExec) specCanDelete(name string, mtime int64) bool {
	any := false
	for _, t := range e.tags {
		any = any || t.Delete
	}
	if !any {
		return false
	}
	tagName := e.tagger(name)
	var tag *client.FileTag
	for _, t := range e.tags {
		if t.Name == tagName {
			tag = t // a later tag of the same name wins (tagMap)
		}
	}
	if tag == nil || !tag.Delete {
		return false
	}
	if tag.DeleteDelay == 0 {
		return true
	}
	return 0-mtime > int64(tag.DeleteDelay)
}

func (e *scanExec) marginOK(cv map[string]centry) bool {
	far := func(x, thr int64) bool { return x-thr >= scanMargin || thr-x >= scanMargin }
	ok := true
	var walk func(ns []*tnode)
	walk = func(ns []*tnode) {
		for _, n := range ns {
			switch n.kind {
			case "f":
				ok = ok && far(0-n.mtime, e.minAge)
			case "lf":
				ok = ok && far(0-n.mtime, e.minAge) && far(0-n.lmtime, e.minAge)
			case "d":
				walk(n.kids)
			case "ld":
				ok = ok && far(0-n.lmtime, e.minAge)
				walk(n.kids)
			default:
				ok = ok && far(0-n.lmtime, e.minAge)
			}
		}
	}
	walk(e.tree)
	for a := range cv {
		for b := range cv {
			// prefix-related cache keys: the outcome would depend on Go's map order
			ok = ok && !strings.HasPrefix(b, a+"/")
		}
	}
	for _, c := range cv {
		ok = ok && far(c.mtime, 0)
		for _, t := range e.tags {
			ok = ok && (t.DeleteDelay == 0 || far(0-c.mtime, int64(t.DeleteDelay)))
		}
	}
	return ok
}

func (e *scanExec) fail(kind, format string, a ...any) {
	e.fails = append(e.fails, kind+": "+fmt.Sprintf(format, a...))
}

func sortedSet(m map[string]bool) []string {
	var s []string
	for k := range m {
		s = append(s, k)
	}
	sort.Strings(s)
	return s
}

func (e *scanExec) setClass(op string, flags reasonSet) {
	e.lastClass = op + ":" + strings.Join(sortedSet(flags), "+")
}

// autoMeta: the link meta a scan under the current settings records for this path.
func (e *scanExec) autoMeta(name string) []byte {
	if e.st.FollowSymlinks {
		return nil
	}
	p := filepath.Join(e.st.Root, name)
	if fi, err := os.Lstat(p); err != nil || fi.Mode()&os.ModeSymlink == 0 {
		return nil
	}
	f, err := e.st.Sync(&mock.File{Path: p, Name: name})
	if err != nil || f == nil {
		return nil
	}
	return f.GetMeta()
}

func (e *scanExec) Do(op []string) string {
	e.key.WriteString(strings.Join(op, " "))
	e.key.WriteByte(';')
	e.lastClass = ""
	e.lastAnswer = ""
	ans := e.do(op)
	if e.lastClass == "" || ans == "bad-op" {
		w := strings.SplitN(ans, " ", 2)[0]
		if strings.ContainsAny(w, ";=") {
			w = "ok"
		}
		e.lastClass = op[0] + ":" + w
	}
	if time.Since(e.t0) > 5*time.Minute {
		scanInfra("a case took more than five minutes of wall time; ages are not reliable any more")
	}
	return ans
}

func (e *scanExec) do(op []string) string {
	switch {
	case op[0] == "root" && len(op) == 2:
		n := unesc(op[1])
		if !validSeg(n) || e.touched {
			return "bad-op"
		}
		os.RemoveAll(filepath.Join(e.base, "r"))
		e.rootName = n
		os.MkdirAll(e.root(), 0o755)
		return "ok"

	case op[0] == "conf" && len(op) >= 5:
		s := &tokStream{t: op[1:]}
		var ok [8]bool
		var hidden, follow, sweep bool
		var minAge int64
		t, _ := s.next()
		hidden, ok[0] = parse01(t)
		t, _ = s.next()
		follow, ok[1] = parse01(t)
		t, _ = s.next()
		minAge, ok[2] = parseTime(t)
		t, _ = s.next()
		sweep, ok[3] = parse01(t)
		if !(ok[0] && ok[1] && ok[2] && ok[3]) {
			return "bad-op"
		}
		pats := func(marker string) ([]spat, bool) {
			m, ok := s.next()
			if !ok || m != marker {
				return nil, false
			}
			kt, ok := s.next()
			if !ok {
				return nil, false
			}
			k, ok := parseCount(kt)
			if !ok {
				return nil, false
			}
			var out []spat
			for ; k > 0; k-- {
				t, ok := s.next()
				if !ok {
					return nil, false
				}
				p, ok := parseSpat(t)
				if !ok {
					return nil, false
				}
				out = append(out, p)
			}
			return out, true
		}
		incl, ok1 := pats("I")
		if !ok1 {
			return "bad-op"
		}
		ign, ok2 := pats("X")
		if !ok2 {
			return "bad-op"
		}
		m, okm := s.next()
		kt, okk := s.next()
		k, okc := parseCount(kt)
		if !okm || !okk || !okc || m != "T" {
			return "bad-op"
		}
		var tags []stag
		for ; k > 0; k-- {
			var tg stag
			mt, o1 := s.next()
			pt, o2 := s.next()
			dt, o3 := s.next()
			lt, o4 := s.next()
			if !(o1 && o2 && o3 && o4) {
				return "bad-op"
			}
			tg.method = unesc(mt)
			for i := 0; i < len(tg.method); i++ {
				c := tg.method[i]
				if !(c >= 'a' && c <= 'z' || c >= 'A' && c <= 'Z' || c >= '0' && c <= '9') {
					return "bad-op"
				}
			}
			if pt != "~" {
				p, ok := parseSpat(pt)
				if !ok {
					return "bad-op"
				}
				tg.pat = &p
			}
			var okd, okl bool
			tg.del, okd = parse01(dt)
			tg.delay, okl = parseTime(lt)
			if !okd || !okl || tg.delay < 0 {
				return "bad-op"
			}
			tags = append(tags, tg)
		}
		if s.pos != len(s.t) {
			return "bad-op"
		}
		e.hidden, e.follow, e.sweep, e.minAge, e.incl, e.ign, e.tagsReq = hidden, follow, sweep, minAge, incl, ign, tags
		e.touched = true
		if !e.applyConf() {
			return "conf-error"
		}
		return e.lastAnswer

	case op[0] == "tree" && len(op) >= 2:
		k, ok := parseCount(op[1])
		if !ok {
			return "bad-op"
		}
		s := &tokStream{t: op[2:]}
		nodes, ok := parseNodes(s, k, 8)
		if !ok || s.pos != len(s.t) || dupNames(nodes) {
			return "bad-op"
		}
		e.tree = nodes
		e.touched = true
		e.rebuildTree()
		return "ok"

	case op[0] == "cache" && len(op) >= 2:
		k, ok := parseCount(op[1])
		if !ok || len(op) != 2+5*k {
			return "bad-op"
		}
		type ce struct {
			name string
			centry
		}
		var es []ce
		seen := map[string]bool{}
		for i := 0; i < k; i++ {
			t := op[2+5*i:]
			segs, ok0 := parseRel(t[0])
			sz, ok1 := parseSize(t[1])
			mt, ok2 := parseTime(t[2])
			if !ok0 || !ok1 || !ok2 || (t[3] != "h" && t[3] != "-") || (t[4] != "d" && t[4] != "-") {
				return "bad-op"
			}
			name := strings.Join(segs, "/")
			if seen[name] {
				return "bad-op"
			}
			seen[name] = true
			es = append(es, ce{name, centry{sz, mt, t[3] == "h", t[4] == "d"}})
		}
		e.touched = true
		e.ensureConf()
		e.jc, e.br = nil, nil
		os.RemoveAll(e.cacheDir())
		os.MkdirAll(e.cacheDir(), 0o755)
		jc, err := cache.NewJSON(e.cacheDir(), e.st.Root, "")
		if err != nil {
			scanInfra("%v", err)
		}
		e.doneVer = map[string][2]int64{}
		e.handed = map[string][2]int64{}
		for _, c := range es {
			h := ""
			if c.hashed {
				h = "0123456789abcdef0123456789abcdef"
			}
			jc.Add(&mock.File{Path: filepath.Join(e.st.Root, c.name), Name: c.name, Size: c.size,
				Time: e.at(c.mtime), Meta: e.autoMeta(c.name), Hash: h})
			if c.done {
				jc.Done(c.name, nil)
				e.doneVer[c.name] = [2]int64{c.size, c.mtime}
			}
		}
		if err := jc.Persist(); err != nil {
			scanInfra("%v", err)
		}
		return "ok"

	case op[0] == "store" && len(op) == 1:
		e.ensureConf()
		if !e.marginOK(e.cacheView()) {
			return "bad-op"
		}
		files, _, err := e.st.Scan(nil)
		if err != nil {
			e.fail("scan-error", "Local.Scan failed: %v", err)
			return "error"
		}
		got := map[string][2]int64{}
		var items []string
		for _, f := range files {
			got[f.GetName()] = [2]int64{f.GetSize(), e.relNs(f.GetTime())}
			items = append(items, fmt.Sprintf("%s;%d;%d", esc(f.GetName()), f.GetSize(), e.relNs(f.GetTime())))
		}
		sort.Strings(items)
		reasons := reasonSet{}
		want := e.eligible(reasons)
		e.compareSets("store", got, want)
		if len(got) > 0 {
			e.sawFiles = true
			reasons["files"] = true
		}
		if len(reasons) > 1 || (len(reasons) == 1 && !reasons["files"]) {
			e.sawFiltered = true
		}
		e.setClass("store", reasons)
		return joinOr(items)

	case op[0] == "scan" && len(op) == 1:
		br := e.broker()
		before := e.cacheView()
		if !e.marginOK(before) {
			return "bad-op"
		}
		reasons := reasonSet{}
		elig := e.eligible(reasons)
		ready := br.VerifScan()
		after := e.cacheView()
		// what the property expects to be handed on: eligible files that are new or changed
		// (plus cache entries that never got a hash and can be read now)
		want := map[string]bool{}
		for n, v := range elig {
			c, cached := before[n]
			switch {
			case v[0] == 0:
				reasons["zero-length"] = true
			case cached && c.size == v[0] && c.mtime == v[1]:
				reasons["cached-unchanged"] = true
			default:
				want[n] = true
				if cached {
					reasons["cached-changed"] = true
				}
			}
		}
		strag := map[string]bool{}
		for n, c := range before {
			if !c.hashed {
				if nd := e.nodeAt(n); nd != nil && (nd.kind == "f" || nd.kind == "lf") {
					strag[n] = true
					reasons["straggler"] = true
				}
			}
		}
		got := map[string]bool{}
		var names []string
		for _, f := range ready {
			got[f.GetName()] = true
			names = append(names, esc(f.GetName()))
		}
		sort.Strings(names)
		for n := range got {
			if !want[n] && !strag[n] {
				if _, ok := elig[n]; !ok {
					e.fail("ineligible-queued", "scan handed on %q, which the eligibility predicate excludes", n)
				} else {
					e.fail("unchanged-queued-again", "scan handed on %q although size and mtime equal its cache entry (or it is empty)", n)
				}
			}
		}
		for n := range want {
			if !got[n] {
				e.fail("eligible-not-queued", "scan did not hand on %q, which is eligible and new or changed", n)
			}
		}
		// history clause: a version that a scan handed on (and recorded with its hash) is not handed on again by a later
		// scan while the file is unchanged - whatever the cache says now (a cache that was not written back after the
		// first scan would make the file look changed to every later scan, and to a restarted sender)
		if e.handed == nil {
			e.handed = map[string][2]int64{}
		}
		for n := range e.handed {
			if _, ok := elig[n]; !ok {
				delete(e.handed, n)
			}
		}
		for n := range got {
			if v, ok := elig[n]; ok && e.handed[n] == v && v[0] != 0 {
				e.fail("unchanged-queued-again", "scan handed on %q (size=%d mtime=%d) again: an earlier scan handed on this very version and nothing changed since", n, v[0], v[1])
			}
		}
		for n := range e.handed {
			if !got[n] {
				continue
			}
			delete(e.handed, n)
		}
		for n := range got {
			if c, ok := after[n]; ok && c.hashed {
				if v, ok := elig[n]; ok && c.size == v[0] && c.mtime == v[1] {
					e.handed[n] = v
				}
			}
		}
		// clean-up: which leaves disappeared
		var gone []string
		for _, l := range e.leaves() {
			if _, err := os.Lstat(filepath.Join(e.st.Root, l.rel)); err != nil {
				gone = append(gone, l.rel)
			}
		}
		sort.Strings(gone)
		for _, g := range gone {
			delete(e.handed, g) // removed at the source: a file created under that name later is a new file
			c, cached := before[g]
			nd := e.nodeAt(g)
			switch {
			case !cached:
				e.fail("cleanup-removed-uncached", "scan removed %q, which is not in the cache", g)
			case !c.done:
				e.fail("cleanup-removed-not-done", "scan removed %q, whose cache entry is not done", g)
			case !e.specCanDelete(g, c.mtime):
				e.fail("cleanup-removed-not-deletable", "scan removed %q although its tag does not allow deletion now", g)
			case nd != nil && (nd.kind == "f" || nd.kind == "lf") && (nd.size != c.size || nd.mtime != c.mtime):
				e.fail("cleanup-removed-changed", "scan removed %q: on disk size=%d mtime=%d, confirmed version size=%d mtime=%d (the changed file was deleted unsent)",
					g, nd.size, nd.mtime, c.size, c.mtime)
			}
			if dv, ok := e.doneVer[g]; ok && nd != nil && (nd.size != dv[0] || nd.mtime != dv[1]) {
				e.fail("cleanup-removed-unconfirmed", "scan removed %q (size=%d mtime=%d) but the version that was confirmed is size=%d mtime=%d",
					g, nd.size, nd.mtime, dv[0], dv[1])
			}
		}
		for n, c := range after {
			if c.done {
				if dv, ok := e.doneVer[n]; !ok || dv != [2]int64{c.size, c.mtime} {
					e.fail("done-mark-carried-over", "cache says %q (size=%d mtime=%d) is done, but that version was never confirmed", n, c.size, c.mtime)
				}
			}
		}
		for n := range e.doneVer {
			if _, ok := after[n]; !ok {
				delete(e.doneVer, n)
			}
		}
		if len(gone) > 0 {
			e.pruneGone(gone)
			e.sawGone = true
			reasons["gone"] = true
		}
		if len(got) > 0 {
			e.sawFiles = true
			reasons["files"] = true
		}
		for k := range reasons {
			if k != "files" && k != "gone" && k != "cached-changed" && k != "straggler" {
				e.sawFiltered = true
			}
		}
		e.setClass("scan", reasons)
		var cs []string
		for n, c := range after {
			h, d := "-", "-"
			if c.hashed {
				h = "h"
			}
			if c.done {
				d = "d"
			}
			cs = append(cs, fmt.Sprintf("%s;%d;%d;%s;%s", esc(n), c.size, c.mtime, h, d))
		}
		sort.Strings(cs)
		var gs []string
		for _, g := range gone {
			gs = append(gs, esc(g))
		}
		sort.Strings(gs)
		return "ready=" + joinOr(names) + " gone=" + joinOr(gs) + " cache=" + joinOr(cs)

	case op[0] == "done" && len(op) == 2:
		segs, ok := parseRel(op[1])
		if !ok {
			return "bad-op"
		}
		name := strings.Join(segs, "/")
		e.broker()
		c := e.jc.Get(name)
		if c == nil {
			return "nocache"
		}
		if !c.IsDone() {
			e.doneVer[name] = [2]int64{c.GetSize(), e.relNs(c.GetTime())}
		}
		e.jc.Done(name, nil)
		e.jc.Persist()
		return "ok"

	case op[0] == "ignore" && len(op) == 2:
		segs, ok := parseRel(op[1])
		if !ok {
			return "bad-op"
		}
		e.ensureConf()
		rel := strings.Join(segs, "/")
		got := e.st.ShouldIgnore(&mock.File{Name: rel})
		// C17: the eligibility decision about one name (what recover() asks about a cached file at start-up): hidden
		// leaf name, an effective ignore pattern, or include patterns configured and none matching - all judged on
		// the name relative to the outgoing directory
		want := !e.hidden && strings.HasPrefix(filepath.Base(rel), ".")
		for _, r := range e.specIgnore() {
			if r.MatchString(rel) {
				want = true
			}
		}
		if !want && len(e.incl) > 0 {
			want = true
			for _, p := range e.incl {
				if regexp.MustCompile(p.regexText()).MatchString(rel) {
					want = false
				}
			}
		}
		if got != want {
			e.fail("ignore-wrong", "ShouldIgnore(%q) = %v, the eligibility predicate says %v", rel, got, want)
		}
		return strconv.FormatBool(got)

	case op[0] == "include" && len(op) == 4:
		segs, ok0 := parseRel(op[1])
		sz, ok1 := parseSize(op[2])
		mt, ok2 := parseTime(op[3])
		if !ok0 || !ok1 || !ok2 {
			return "bad-op"
		}
		name := strings.Join(segs, "/")
		r := e.broker().VerifIncludeScannedFile(&mock.File{Name: name, Size: sz, Time: e.at(mt)})
		c, cached := e.cacheView()[name]
		want := sz != 0 && (!cached || c.size != sz || c.mtime != mt)
		if r != want {
			e.fail("include-wrong", "includeScannedFile(%q,%d,%d) = %v with cache entry %+v (present=%v)", name, sz, mt, r, c, cached)
		}
		return strconv.FormatBool(r)

	case op[0] == "sync" && len(op) == 2:
		segs, ok := parseRel(op[1])
		if !ok {
			return "bad-op"
		}
		name := strings.Join(segs, "/")
		e.broker()
		c := e.jc.Get(name)
		if c == nil {
			return "nocache"
		}
		f, err := e.st.Sync(c)
		res := "same"
		switch {
		case err != nil && e.st.IsNotExist(err):
			res = "missing"
		case err != nil:
			res = "error"
		case f != nil:
			res = "changed"
		}
		// Sync must say "same" exactly for a regular file (or link to one) whose size and
		// mtime equal the cached ones
		if nd := e.nodeAt(name); nd != nil && (nd.kind == "f" || nd.kind == "lf") {
			same := nd.size == c.GetSize() && nd.mtime == e.relNs(c.GetTime())
			if same != (res == "same") {
				e.fail("sync-wrong", "Sync(%q) = %s, file on disk size=%d mtime=%d, cached size=%d mtime=%d",
					name, res, nd.size, nd.mtime, c.GetSize(), e.relNs(c.GetTime()))
			}
		}
		return res

	case op[0] == "candelete" && len(op) == 2:
		segs, ok := parseRel(op[1])
		if !ok {
			return "bad-op"
		}
		name := strings.Join(segs, "/")
		br := e.broker()
		c := e.jc.Get(name)
		if c == nil {
			return "nocache"
		}
		if !e.marginOK(e.cacheView()) {
			return "bad-op"
		}
		r := br.VerifCanDelete(c)
		if r != e.specCanDelete(name, e.relNs(c.GetTime())) {
			e.fail("candelete-wrong", "canDelete(%q) = %v", name, r)
		}
		return strconv.FormatBool(r)
	}
	return "bad-op"
}

func (e *scanExec) compareSets(what string, got, want map[string][2]int64) {
	for n, g := range got {
		w, ok := want[n]
		if !ok {
			e.fail("ineligible-returned", "%s returned %q, which the eligibility predicate excludes", what, n)
		} else if g != w {
			e.fail("wrong-stat", "%s returned %q with size=%d mtime=%d, expected size=%d mtime=%d", what, n, g[0], g[1], w[0], w[1])
		}
	}
	for n := range want {
		if _, ok := got[n]; !ok {
			e.fail("eligible-not-returned", "%s did not return %q, which satisfies the eligibility predicate", what, n)
		}
	}
}

func (e *scanExec) pruneGone(gone []string) {
	g := map[string]bool{}
	for _, x := range gone {
		g[x] = true
	}
	var prune func(ns []*tnode, pre string) []*tnode
	prune = func(ns []*tnode, pre string) []*tnode {
		var out []*tnode
		for _, n := range ns {
			rel := n.name
			if pre != "" {
				rel = pre + "/" + n.name
			}
			if g[rel] {
				continue
			}
			if n.kind == "d" || n.kind == "ld" {
				n.kids = prune(n.kids, rel)
			}
			out = append(out, n)
		}
		return out
	}
	e.tree = prune(e.tree, "")
}

func (e *scanExec) Oracle() []string { f := e.fails; e.fails = nil; return f }
func (e *scanExec) Signature() (bool, string) {
	return (e.sawFiles && e.sawFiltered) || e.sawGone, e.key.String()
}

var scanLastExec *scanExec

func (scanComp) AnswerClass(op []string, ans string) string {
	if scanLastExec != nil && scanLastExec.lastClass != "" {
		return scanLastExec.lastClass
	}
	return op[0] + ":" + strings.SplitN(ans, " ", 2)[0]
}

// ---------------------------------------------------------------- corpus and generator

const scanHr = int64(3600000000000)

func h(x float64) string { return strconv.FormatInt(int64(x*float64(scanHr)), 10) }

func (scanComp) Corpus() [][]string {
	sub := func(s string) string {
		// "{-2}" -> nanoseconds of -2 hours
		re := regexp.MustCompile(`\{(-?[0-9.]+)\}`)
		return re.ReplaceAllStringFunc(s, func(m string) string {
			v, _ := strconv.ParseFloat(m[1:len(m)-1], 64)
			return h(v)
		})
	}
	cases := [][]string{
		// S16: a symbolic link with a relative target made the whole scan fail
		{"conf 0 0 0 0 I 0 X 0 T 0",
			"tree 3 f a.dat 5 {-2} d sub 1 f t.dat 7 {-2} lf l1 {-2} r 9 {-5}",
			"store", "scan"},
		// a dangling link made the whole scan fail
		{"conf 0 0 0 0 I 0 X 0 T 0",
			"tree 3 f a.dat 5 {-2} lx dead {-2} a lx dead2 {-2} r",
			"store", "scan"},
		// the root directory's own path was matched against hidden / ignore rules
		{"root .hid", "conf 0 0 0 0 I 0 X 0 T 0", "tree 1 f a.dat 5 {-2}", "store", "scan"},
		{"root data", "conf 0 0 0 0 I 0 X 1 i:dat T 0", "tree 2 f a.txt 5 {-2} f b.dat 5 {-2}", "store", "scan"},
		{"root raw", "conf 0 0 0 0 I 0 X 0 T 2 disk s:raw 0 0 - ~ 0 0", "tree 2 f a.txt 5 {-2} f b.raw 5 {-2}", "store"},
		// S3: clean-up deleted the rewritten (unsent) version of a confirmed file
		{"conf 0 0 0 0 I 0 X 0 T 1 - ~ 1 {3}", "tree 1 f a.dat 9 {-2}", "cache 1 a.dat 5 {-26} h d", "scan", "scan"},
		// same, the rewrite is younger than the minimum age, so the scan does not even see it
		{"conf 0 0 {1} 0 I 0 X 0 T 1 - ~ 1 {3}", "tree 1 f a.dat 9 {-0.5}", "cache 1 a.dat 5 {-26} h d", "scan"},
		// same with delete-delay 0 and a file created anew after the confirmed one was deleted
		{"conf 0 0 0 0 I 0 X 0 T 1 - ~ 1 0", "tree 1 f a.dat 5 {-26}", "scan", "done a.dat", "tree 1 f a.dat 9 {-2}", "scan", "scan"},
		// cache.Add kept the done mark: the re-queued version was deleted by the next clean-up
		{"conf 0 0 0 0 I 0 X 0 T 1 - ~ 1 {30}", "tree 1 f a.dat 9 {-5}", "cache 1 a.dat 5 {-26} h d", "scan",
			"conf 0 0 0 0 I 0 X 0 T 1 - ~ 1 {3}", "scan"},
		{"conf 0 0 0 0 I 0 X 0 T 1 - ~ 1 0", "tree 1 f a.dat 9 {-5}", "cache 1 a.dat 5 {-26} h d", "scan", "scan", "scan"},
		// Sync with FollowSymlinks reported every linked file as changed
		{"conf 0 1 0 0 I 0 X 0 T 1 - ~ 1 0", "tree 2 lf l1 {-2} a 9 {-5} f a.dat 3 {-5}", "cache 2 l1 9 {-5} h d a.dat 3 {-5} h -",
			"sync l1", "sync a.dat", "scan"},
		// tags: non-HTTP tag patterns are ignored; a method-less tag after the default tag too
		{"conf 0 0 0 0 I 0 X 0 T 3 disk p:raw 0 0 - ~ 0 0 - s:.txt 1 0",
			"tree 4 f raw1 4 {-2} f a.dat 5 {-2} f c.txt 6 {-2} d sub 1 f raw2 3 {-2}", "store", "scan"},
		// hidden and ignored directories, include patterns, lock files, zero-length, ages
		{"conf 0 0 {1} 0 I 1 s:.dat X 1 p:tmp T 0",
			"tree 9 f a.dat 5 {-2} f b.dat 0 {-2} f c.txt 5 {-2} f .h.dat 5 {-2} f y.dat 5 {-0.5} f z.dat 5 {2} f a.dat.lck 5 {-2} " +
				"d .hd 1 f i.dat 5 {-2} d tmp 1 f j.dat 5 {-2}",
			"store", "scan", "scan"},
		{"conf 1 1 {-1} 0 I 2 p:sub/ x:a.dat X 1 g:b.dat T 0",
			"tree 5 f a.dat 5 {2} d sub 3 f b.dat 1 {-2} f c.dat 1 {-2} d .disabled 1 f q 1 {-2} ld lk {-2} r 2 f sub 2 {-5} d sub 1 f b.dat 1 {-2} " +
				"lu self {-2} r f .disabled.x 1 {-2}",
			"store", "scan"},
		// lock files and lock-named directories, no include patterns
		{"conf 0 0 0 0 I 0 X 0 T 0", "tree 4 f a.dat 5 {-2} f a.dat.lck 5 {-2} f .lck 1 {-2} d d.lck 1 f b.dat 5 {-2}", "store", "scan"},
		// the disable marker
		{"conf 1 0 0 0 I 0 X 0 T 0", "tree 2 f a.dat 5 {-2} f .disabled 0 {-2}", "store", "scan",
			"tree 2 f a.dat 5 {-2} d sub 2 f .disabled 0 {-2} f b.dat 1 {-2}", "store", "scan"},
		{"conf 0 0 0 0 I 0 X 0 T 0", "tree 2 f a.dat 5 {-2} lx .disabled {-2} a", "store"},
		// stragglers (cache entries without a hash) and the stuck-file sweep
		{"conf 0 0 0 1 I 0 X 0 T 0", "tree 2 f a.dat 5 {-2} f b.dat 6 {-2}",
			"cache 4 a.dat 5 {-2} - - b.dat 7 {-9} - - gone.dat 5 {-26} - - old.dat 5 {-26} h -", "scan", "scan", "scan"},
		// unchanged files are not picked up again; changed ones are (1 ns suffices)
		{"conf 0 0 0 0 I 0 X 0 T 0", "tree 3 f a.dat 5 {-2} f b.dat 5 {-2} f c.dat 5 {-2}",
			"cache 3 a.dat 5 {-2} h - b.dat 6 {-2} h - c.dat 5 -7199999999999 h -", "scan", "scan",
			"include a.dat 5 {-2}", "include a.dat 0 {-3}", "include zz 1 {-3}", "candelete a.dat", "ignore sub/x.lck", "ignore .disabled", "ignore a/.disabled"},
		// a cache name that runs through a file (ENOTDIR), a link to a directory, a directory
		{"conf 0 0 0 1 I 0 X 0 T 1 - ~ 1 0", "tree 3 f a.dat 5 {-2} ld lk {-2} a 1 f q.dat 2 {-5} d sub 1 f t 1 {-2}",
			"cache 3 a.dat/x 5 {-26} h d lk 5 {-26} h d sub 5 {-26} h d",
			"sync a.dat/x", "sync lk", "sync sub", "scan", "scan"},
		{"conf 0 0 0 1 I 0 X 0 T 1 - ~ 1 0", "tree 2 ld lk {-2} a 1 f q.dat 2 {-5} f b.dat 1 {-2}",
			"cache 2 lk/q.dat 2 {-5} h d b.dat 1 {-2} h -", "sync lk/q.dat", "scan", "scan"},
		// prefix-related cache keys are refused (outcome would depend on map iteration order)
		{"conf 0 0 0 0 I 0 X 0 T 1 - ~ 1 0", "tree 1 f a.dat 5 {-2}", "cache 2 a.dat 5 {-2} h d a.dat/x 5 {-26} h d", "scan", "store"},
	}
	for _, c := range cases {
		for i := range c {
			c[i] = sub(c[i])
		}
	}
	return cases
}

type scanGen struct {
	r *Rand
}

var (
	scanFileNames = []string{"a.dat", "b.dat", "c.txt", "raw1", "raw2.bin", "x.lck", "data.tmp", ".hid", "a b", "log.1", "Z", "new.dat", "tmp", "q%d"}
	scanDirNames  = []string{"sub", "d1", ".hd", "tmp", "arch.lck", "raw", "deep"}
	scanLinkNames = []string{"l1", "l2.dat", ".lh", "lk", "up", "self"}
	scanLits      = []string{"a", ".dat", "dat", "sub", "sub/", "tmp", "raw", ".", "/", "", "c.txt", "sub/a.dat", "d1/", "l", "Z", "1", ".hd", "deep/", " ", "x", "new", "lk/", "l1"}
	scanAges      = []float64{-2, 0.5, 2, 5, 26, 50}
	scanJitter    = []int64{0, 0, 0, 0, 1, -1, 999999999, 123456789}
	scanSizes     = []int64{0, 1, 1, 5, 5, 9, 100, 4096}
)

func (g *scanGen) mtime() int64 {
	a := scanAges[g.r.Intn(len(scanAges))]
	return -int64(a*float64(scanHr)) + scanJitter[g.r.Intn(len(scanJitter))]
}

func (g *scanGen) size() int64 {
	if g.r.Chance(0.02) {
		return scanMaxSize
	}
	return scanSizes[g.r.Intn(len(scanSizes))]
}

func (g *scanGen) nodes(depth int, top bool) []*tnode {
	r := g.r
	k := r.Range(0, 4)
	if top {
		k = r.Range(1, 6)
	}
	used := map[string]bool{}
	var out []*tnode
	pick := func(pool []string) (string, bool) {
		for try := 0; try < 5; try++ {
			n := pool[r.Intn(len(pool))]
			if !used[n] {
				used[n] = true
				return n, true
			}
		}
		return "", false
	}
	for i := 0; i < k; i++ {
		x := r.Intn(100)
		switch {
		case x < 55:
			if n, ok := pick(scanFileNames); ok {
				out = append(out, &tnode{kind: "f", name: n, size: g.size(), mtime: g.mtime()})
			}
		case x < 75 && depth < 3:
			if n, ok := pick(scanDirNames); ok {
				out = append(out, &tnode{kind: "d", name: n, kids: g.nodes(depth+1, false)})
			}
		case x < 84:
			if n, ok := pick(scanLinkNames); ok {
				out = append(out, &tnode{kind: "lf", name: n, lmtime: g.mtime(), rel: r.Chance(0.5), size: g.size(), mtime: g.mtime()})
			}
		case x < 90 && depth < 2:
			if n, ok := pick(scanLinkNames); ok {
				out = append(out, &tnode{kind: "ld", name: n, lmtime: g.mtime(), rel: r.Chance(0.5), kids: g.nodes(depth+2, false)})
			}
		case x < 94:
			if n, ok := pick(scanLinkNames); ok {
				out = append(out, &tnode{kind: "lu", name: n, lmtime: g.mtime(), rel: r.Chance(0.5)})
			}
		case x < 98:
			if n, ok := pick(scanLinkNames); ok {
				out = append(out, &tnode{kind: "lx", name: n, lmtime: g.mtime(), rel: r.Chance(0.5)})
			}
		default:
			if !used[".disabled"] && (!top || r.Chance(0.5)) {
				used[".disabled"] = true
				out = append(out, &tnode{kind: "f", name: ".disabled", size: 0, mtime: g.mtime()})
			}
		}
	}
	return out
}

func renderNodes(ns []*tnode, b *strings.Builder) {
	ra := func(rel bool) string {
		if rel {
			return "r"
		}
		return "a"
	}
	for _, n := range ns {
		switch n.kind {
		case "f":
			fmt.Fprintf(b, " f %s %d %d", esc(n.name), n.size, n.mtime)
		case "d":
			fmt.Fprintf(b, " d %s %d", esc(n.name), len(n.kids))
			renderNodes(n.kids, b)
		case "lf":
			fmt.Fprintf(b, " lf %s %d %s %d %d", esc(n.name), n.lmtime, ra(n.rel), n.size, n.mtime)
		case "ld":
			fmt.Fprintf(b, " ld %s %d %s %d", esc(n.name), n.lmtime, ra(n.rel), len(n.kids))
			renderNodes(n.kids, b)
		case "lu", "lx":
			fmt.Fprintf(b, " %s %s %d %s", n.kind, esc(n.name), n.lmtime, ra(n.rel))
		}
	}
}

func treeOp(ns []*tnode) string {
	var b strings.Builder
	fmt.Fprintf(&b, "tree %d", len(ns))
	renderNodes(ns, &b)
	return b.String()
}

func cloneNodes(ns []*tnode) []*tnode {
	var out []*tnode
	for _, n := range ns {
		c := *n
		c.kids = cloneNodes(n.kids)
		out = append(out, &c)
	}
	return out
}

func (g *scanGen) pat() spat {
	return spat{"psixg"[g.r.Intn(5)], scanLits[g.r.Intn(len(scanLits))]}
}

func (g *scanGen) conf() string {
	r := g.r
	b01 := func(p float64) string {
		if r.Chance(p) {
			return "1"
		}
		return "0"
	}
	minAge := []float64{0, 0, 1, 3, 10, -1}[r.Intn(6)]
	var b strings.Builder
	fmt.Fprintf(&b, "conf %s %s %s %s", b01(0.3), b01(0.4), h(minAge), b01(0.4))
	ni := 0
	if r.Chance(0.45) {
		ni = r.Range(1, 2)
	}
	fmt.Fprintf(&b, " I %d", ni)
	for i := 0; i < ni; i++ {
		p := g.pat()
		if r.Chance(0.5) {
			p = spat{"si"[r.Intn(2)], []string{".dat", "a", "dat", "", "sub/", "1"}[r.Intn(6)]}
		}
		b.WriteString(" " + p.tok())
	}
	nx := r.Range(0, 3)
	if r.Chance(0.3) {
		nx = 0
	}
	fmt.Fprintf(&b, " X %d", nx)
	for i := 0; i < nx; i++ {
		b.WriteString(" " + g.pat().tok())
	}
	nt := r.Range(0, 3)
	fmt.Fprintf(&b, " T %d", nt)
	for i := 0; i < nt; i++ {
		method := []string{"", "", "http", "http", "disk", "s3"}[r.Intn(6)]
		pt := "~"
		if r.Chance(0.7) {
			pt = g.pat().tok()
		}
		delay := []float64{0, 0, 1, 3, 10, 30}[r.Intn(6)]
		fmt.Fprintf(&b, " %s %s %s %s", esc(method), pt, b01(0.6), h(delay))
	}
	return b.String()
}

func fileLeaves(ns []*tnode, pre string, out *[]leafInfo) {
	var all []leafInfo
	flatten(ns, pre, nil, nil, &all)
	for _, l := range all {
		if l.node.kind == "f" || l.node.kind == "lf" {
			*out = append(*out, l)
		}
	}
}

func (g *scanGen) cacheOp(tree []*tnode) string {
	r := g.r
	var ls []leafInfo
	fileLeaves(tree, "", &ls)
	var items []string
	seen := map[string]bool{}
	add := func(name string, size, mtime int64) {
		if seen[name] {
			return
		}
		seen[name] = true
		hh, dd := "h", "-"
		if r.Chance(0.15) {
			hh = "-"
		}
		if r.Chance(0.5) {
			dd = "d"
		}
		items = append(items, fmt.Sprintf("%s %d %d %s %s", esc(name), size, mtime, hh, dd))
	}
	for _, l := range ls {
		if !r.Chance(0.55) {
			continue
		}
		size, mtime := l.node.size, l.node.mtime
		switch x := r.Intn(100); {
		case x < 50:
		case x < 65:
			size++
			if size > scanMaxSize {
				size -= 2
			}
		case x < 75:
			mtime++
		default:
			mtime -= 7 * scanHr
		}
		add(l.rel, size, mtime)
	}
	for k := r.Intn(3); k > 0; k-- {
		add([]string{"gone.dat", "sub/old.dat", "d1/deep/x", "lk/none"}[r.Intn(4)], g.size(), -26*scanHr)
	}
	if r.Chance(0.03) {
		// a cache name that runs through a file (ENOTDIR); only below a file that has no
		// entry of its own: the clean-up's outcome for prefix-related keys depends on the
		// iteration order of a Go map
		for _, l := range ls {
			if !seen[l.rel] {
				seen[l.rel] = true
				add(l.rel+"/x", 3, -26*scanHr)
				break
			}
		}
	}
	return fmt.Sprintf("cache %d", len(items)) + func() string {
		if len(items) == 0 {
			return ""
		}
		return " " + strings.Join(items, " ")
	}()
}

func (g *scanGen) mutate(tree []*tnode) []*tnode {
	r := g.r
	t := cloneNodes(tree)
	var dirs []*[]*tnode
	var collect func(ns *[]*tnode)
	collect = func(ns *[]*tnode) {
		dirs = append(dirs, ns)
		for _, n := range *ns {
			if n.kind == "d" || n.kind == "ld" {
				collect(&n.kids)
			}
		}
	}
	collect(&t)
	for k := r.Range(1, 3); k > 0; k-- {
		d := dirs[r.Intn(len(dirs))]
		var files []*tnode
		for _, n := range *d {
			if n.kind == "f" || n.kind == "lf" {
				files = append(files, n)
			}
		}
		switch x := r.Intn(100); {
		case x < 35 && len(files) > 0: // rewrite
			f := files[r.Intn(len(files))]
			f.size, f.mtime = g.size(), g.mtime()
		case x < 50 && len(files) > 0: // touch
			f := files[r.Intn(len(files))]
			f.mtime = g.mtime()
		case x < 60 && len(files) > 0: // append: larger, same mtime (a coarse clock)
			f := files[r.Intn(len(files))]
			if f.size < scanMaxSize {
				f.size++
			}
		case x < 75 && len(*d) > 0: // delete
			i := r.Intn(len(*d))
			*d = append(append([]*tnode(nil), (*d)[:i]...), (*d)[i+1:]...)
		default: // add
			n := scanFileNames[r.Intn(len(scanFileNames))]
			dup := false
			for _, o := range *d {
				dup = dup || o.name == n
			}
			if !dup {
				*d = append(*d, &tnode{kind: "f", name: n, size: g.size(), mtime: g.mtime()})
			}
		}
	}
	return t
}

func (g *scanGen) relName(tree []*tnode) string {
	var all []leafInfo
	flatten(tree, "", nil, nil, &all)
	var files []leafInfo
	fileLeaves(tree, "", &files)
	if len(files) > 0 && g.r.Chance(0.6) {
		return files[g.r.Intn(len(files))].rel
	}
	if len(all) > 0 && g.r.Chance(0.7) {
		return all[g.r.Intn(len(all))].rel
	}
	return []string{"gone.dat", "sub/old.dat", "x.lck", ".disabled", "sub/.disabled", "a/b/c", ".hd/z"}[g.r.Intn(7)]
}

func (g *scanGen) corrupt(ops []string) []string {
	r := g.r
	junk := []string{"x", "-1", "99999999999999999999", "1e3", "f", "d", "ld", "~", "-", "r", "%2f", "..", ".", "q:a", "p:", "1001", "65537", "+5", "0x10", "tree", "scan"}
	out := append([]string(nil), ops...)
	for k := r.Range(1, 3); k > 0; k-- {
		i := r.Intn(len(out))
		tok := strings.Fields(out[i])
		switch x := r.Intn(6); {
		case x == 0 && len(tok) > 1: // drop a token
			j := r.Intn(len(tok))
			tok = append(tok[:j], tok[j+1:]...)
		case x == 1: // replace a token
			tok[r.Intn(len(tok))] = junk[r.Intn(len(junk))]
		case x == 2: // insert a token
			j := r.Intn(len(tok) + 1)
			tok = append(tok[:j], append([]string{junk[r.Intn(len(junk))]}, tok[j:]...)...)
		case x == 3: // duplicate the tail token
			tok = append(tok, tok[len(tok)-1])
		case x == 4: // unknown op
			tok[0] = []string{"scann", "Store", "rm", "conf2"}[r.Intn(4)]
		default: // too deep a tree / duplicate siblings
			if r.Chance(0.5) {
				tok = strings.Fields("tree 1 d a 1 d b 1 d c 1 d d 1 d e 1 d f 1 d g 1 d h 1 d i 1 f x 1 -7200000000000")
			} else {
				tok = strings.Fields("tree 2 f a 1 -7200000000000 f a 2 -7200000000000")
			}
		}
		out[i] = strings.Join(tok, " ")
	}
	return out
}

func (scanComp) Generate(r *Rand, tier string, n int) [][]string {
	g := &scanGen{r}
	var cases [][]string
	for i := 0; i < n; i++ {
		var ops []string
		if r.Chance(0.08) {
			ops = append(ops, "root "+esc([]string{".out", "data", "tmp", "raw", "out.lck", "a b"}[r.Intn(6)]))
		}
		if r.Chance(0.93) {
			ops = append(ops, g.conf())
		}
		tree := g.nodes(0, true)
		ops = append(ops, treeOp(tree))
		if r.Chance(0.75) {
			ops = append(ops, g.cacheOp(tree))
		}
		for k := r.Range(2, 8); k > 0; k-- {
			switch x := r.Intn(100); {
			case x < 18:
				ops = append(ops, "store")
			case x < 52:
				ops = append(ops, "scan")
			case x < 62:
				ops = append(ops, "done "+esc(g.relName(tree)))
			case x < 76:
				tree = g.mutate(tree)
				ops = append(ops, treeOp(tree))
			case x < 80:
				ops = append(ops, "ignore "+esc(g.relName(tree)))
			case x < 84:
				ops = append(ops, fmt.Sprintf("include %s %d %d", esc(g.relName(tree)), g.size(), g.mtime()))
			case x < 89:
				ops = append(ops, "sync "+esc(g.relName(tree)))
			case x < 93:
				ops = append(ops, "candelete "+esc(g.relName(tree)))
			case x < 96:
				ops = append(ops, g.conf())
			default:
				ops = append(ops, g.cacheOp(tree))
			}
		}
		if ops[len(ops)-1] != "scan" && r.Chance(0.6) {
			ops = append(ops, "scan")
		}
		if r.Chance(0.1) {
			ops = g.corrupt(ops)
		}
		cases = append(cases, ops)
	}
	return cases
}
