package main

import (
	"fmt"
	"strings"
)

// component "stage": the receiver's staging state machine (stage/local.go) driven through
// its real API with real files; properties C01, C04, C05, C06, C09 (state-machine part), C20.
type stageComp struct{}

func init() { register(stageComp{}) }

func (stageComp) Name() string { return "stage" }
func (stageComp) Rule() string {
	return "case = one receiver history on a fresh sandbox (prepare/recv parts, pipeline steps, queries, " +
		"crash images `cut k <op>`, recover, cleaning); non-trivial = at least 4 ops incl. a reception and an " +
		"observation/query; distinct = by the full op sequence"
}
func (stageComp) NewExec() Exec { return newStageExec() }

func (stageComp) AnswerClass(op []string, ans string) string {
	o := op[0]
	if o == "cut" && len(op) > 2 {
		o = "cut:" + op[2]
	}
	switch op[0] {
	case "observe", "scan", "mem":
		return o
	}
	if i := strings.Index(ans, " "); i > 0 && op[0] != "cut" {
		ans = ans[:i]
	}
	if op[0] == "cut" {
		if i := strings.Index(ans, " cut="); i > 0 {
			ans = ans[:i]
		}
	}
	return o + ":" + ans
}

type sfile struct {
	name, renamed, prev string
	body                []byte
	hash                string // announced token
	cuts                []int  // part boundaries
}

func (f *sfile) meta() string {
	return fmt.Sprintf("%s %s %s %d %s", esc(f.name), esc(f.renamed), esc(f.prev), len(f.body), esc(f.hash))
}

func (f *sfile) recvOp(i int) string {
	b, e := f.cuts[i], f.cuts[i+1]
	return fmt.Sprintf("recv %s %d %d %s 0", f.meta(), b, e, tokOrDash(f.body[b:e]))
}

func tokOrDash(b []byte) string {
	if len(b) == 0 {
		return "-"
	}
	return bodyTok(b)
}

func genBody(r *Rand, n int) []byte {
	b := make([]byte, n)
	for i := range b {
		b[i] = byte(r.Range(1, 250))
	}
	return b
}

func genFile(r *Rand, name, prev string) *sfile {
	size := []int{1, 2, 3, 5, 8, 12}[r.Intn(6)]
	f := &sfile{name: name, prev: prev, body: genBody(r, size)}
	f.hash = modelHashOfBody(f.body)
	if r.Chance(0.15) {
		f.renamed = "r/" + strings.ReplaceAll(name, "/", "_") + ".x"
	}
	nparts := r.Range(1, min(4, size))
	f.cuts = []int{0}
	for len(f.cuts) < nparts {
		lo := f.cuts[len(f.cuts)-1] + 1
		hi := size - (nparts - len(f.cuts))
		if lo > hi {
			break
		}
		f.cuts = append(f.cuts, r.Range(lo, hi))
	}
	f.cuts = append(f.cuts, size)
	return f
}

func (stageComp) Corpus() [][]string {
	return [][]string{
		// a version is the name and the hash: a whole retransmission of a delivered version that carries another rename
		// target is still a duplicate (seed C05f: version identity had become name + hash + target)
		{"base ?", "recover 0", "prepare a 2 0", "recv a - - 2 b1.2 0 2 1.2 0", "settle 0", "observe", "status a 0 0",
			"prepare a 2 0", "recv a r/a.x - 2 b1.2 0 2 1.2 0", "settle 0", "observe", "status a 0 0",
			"crash", "recover 0", "prepare a 2 0", "recv a r2/a - 2 b1.2 0 2 1.2 0", "settle 0", "observe", "status a 0 0"},
		// a version that fails validation stays "failed" across a restart: the failed copy and its companion stay on
		// the stage and are validated again; the receiver must not fall back to the log record of an older version of
		// the name (seed C01c: the failed copy was deleted, the restarted receiver answered "passed")
		{"base ?", "recover 0", "prepare f 3 0", "recv f - - 3 b1.2.3 0 3 1.2.3 0", "settle 0", "observe",
			"prepare f 4 0", "recv f - - 4 b9.9.9.9 0 4 1.2.3.4 0", "settle 0", "status f 0 0", "crash", "recover 0 f", "settle 0", "observe", "status f 0 0"},
		// a staging extension in the MIDDLE of a legal name (`backup.part1.rar`, a directory `x.partial`, `c.cmp.full.z`):
		// version 1 delivered, version 2 partly received and more than a day old, then the stray cleaner: the companion
		// of the partial is found by cutting the extension off the END of the path; the partial of a version that was
		// never delivered stays (seed C20e: strings.Replace(path, ".part", ".cmp", 1) looked at `backup.cmp1.rar.part`)
		{"base ?", "recover 0", "prepare b.part1.rar 3 0", "recv b.part1.rar - - 3 b33.212.57 0 3 33.212.57 0", "settle 0", "observe",
			"prepare b.part1.rar 4 0", "recv b.part1.rar - - 4 b1.2.3.4 0 2 1.2 0", "chtime b.part1.rar part -90000", "observe", "cleanstrays 0 b.part1.rar", "observe", "scan",
			"recv b.part1.rar - - 4 b1.2.3.4 2 4 3.4 0", "settle 0", "observe", "status b.part1.rar 0 0"},
		{"base ?", "recover 0", "prepare x.partial/q.wait.nc 3 0", "recv x.partial/q.wait.nc - - 3 b33.212.57 0 3 33.212.57 0", "settle 0", "observe",
			"prepare x.partial/q.wait.nc 4 0", "recv x.partial/q.wait.nc - - 4 b1.2.3.4 0 2 1.2 0", "chtime x.partial/q.wait.nc part -90000", "observe", "cleanstrays 0 x.partial/q.wait.nc", "observe", "scan",
			"recv x.partial/q.wait.nc - - 4 b1.2.3.4 2 4 3.4 0", "settle 0", "observe", "status x.partial/q.wait.nc 0 0"},
		{"base ?", "recover 0", "prepare c.cmp.full.z 3 0", "recv c.cmp.full.z - - 3 b33.212.57 0 3 33.212.57 0", "settle 0", "observe",
			"prepare c.cmp.full.z 4 0", "recv c.cmp.full.z - - 4 b1.2.3.4 0 2 1.2 0", "chtime c.cmp.full.z part -90000", "observe", "cleanstrays 0 c.cmp.full.z", "observe", "scan",
			"recv c.cmp.full.z - - 4 b1.2.3.4 2 4 3.4 0", "settle 0", "observe", "status c.cmp.full.z 0 0"},
		// single file, one part, delivered
		{"base ?", "recover 0", "prepare a 3 0", "recv a - - 3 b1.2.3 0 3 1.2.3 0", "observe", "settle 0", "observe", "status a 0 0", "received a - - b1.2.3 0 0 3 0", "scan"},
		// "how many of these parts did you receive": only the LEADING parts count (second part arrived, first did not)
		{"base ?", "recover 0", "prepare big 4 0", "recv big - - 4 b1.2.3.4 2 4 3.4 0", "receivedn 0 big - - b1.2.3.4 0 0 2 ;; big - - b1.2.3.4 0 2 4",
			"receivedn 0 big - - b1.2.3.4 0 2 4 ;; big - - b1.2.3.4 0 0 2", "recv big - - 4 b1.2.3.4 0 2 1.2 0", "receivedn 0 big - - b1.2.3.4 0 0 2 ;; big - - b1.2.3.4 0 2 4", "settle 0", "observe"},
		// two parts out of order, wrong hash -> failed, then resent correctly
		{"base ?", "recover 0", "prepare f 4 0", "recv f - - 4 b9.9.9.9 2 4 3.4 0", "scan", "recv f - - 4 b9.9.9.9 0 2 1.2 0", "settle 0", "observe", "status f 0 0",
			"prepare f 4 0", "recv f - - 4 b1.2.3.4 0 2 1.2 0", "recv f - - 4 b1.2.3.4 2 4 3.4 0", "settle 0", "observe", "status f 0 0"},
		// chain: b waits for a
		{"base ?", "recover 0", "prepare b 2 0", "recv b - a 2 b5.6 0 2 5.6 0", "settle 0", "observe", "status b 0 0", "mem",
			"prepare a 1 0", "recv a - - 1 b7 0 1 7 0", "settle 0", "observe", "status a 0 0", "status b 0 0"},
		// crash images of a complete reception + pipeline
		{"base ?", "recover 0", "prepare a 3 0", "cut 2 recv a - - 3 b1.2.3 0 3 1.2.3 0", "observe", "recover 0", "settle 0", "observe"},
		{"base ?", "recover 0", "prepare a 3 0", "recv a - - 3 b1.2.3 0 3 1.2.3 0", "process a 0", "cut 2 finh a 0", "observe", "recover 0", "settle 0", "observe", "status a 0 0"},
		// parts of a new file on several connections at the same instant (real goroutines, lined up before the file lock)
		{"base ?", "recover 0", "hammer 4 300", "hammer 2 200"},
		// a retransmission of the whole file enters Receive while the original is still in flight, and finishes after the
		// original was validated and delivered: recognised as a duplicate, answered "passed", never delivered again
		{"base ?", "recover 0", "prepare a 2 0", "ropen 1 a - - 2 b1.2 0 2", "recv a - - 2 b1.2 0 2 1.2 0", "settle 0", "observe", "rwrite 1 1.2 0", "settle 0", "observe",
			"status a 0 0", "consume a", "prepare a 2 0", "recv a - - 2 b1.2 0 2 1.2 0", "settle 0", "observe", "status a 0 0"},
		// a held file (predecessor not delivered) arrives a second time, then the receiver restarts: it must still be held
		{"base ?", "recover 0", "prepare b 2 0", "recv b - a 2 b1.2 0 2 1.2 0", "settle 0", "status b 0 0", "prepare b 2 0", "recv b - a 2 b1.2 0 2 1.2 0",
			"observe", "crash", "recover 0", "settle 0", "observe", "status b 0 0", "prepare a 1 0", "recv a - - 1 b7 0 1 7 0", "settle 0", "observe"},
		// a file that failed validation is sent again: the listing must not claim what the failed attempt had recorded
		{"base ?", "recover 0", "prepare x.y 3 0", "recv x.y - - 3 b100.62.16 0 2 100.62 0", "recv x.y - - 3 b100.62.16 2 3 16 0", "corrupt x.y full 0 253", "settle 0",
			"status x.y 0 0", "prepare x.y 3 0", "scan", "recv x.y - - 3 b100.62.16 0 2 100.62 0", "scan", "observe", "recv x.y - - 3 b100.62.16 2 3 16 0", "settle 0", "observe", "status x.y 0 0"},
		// the stray cleaner and a stale partial of a NEW version of a name whose earlier delivery is known only from the log
		{"base ?", "oldlog w.nc - b164.109.153.172.239.246.250.111 8 -260002", "recover 0", "prepare w.nc 2 14", "recv w.nc - - 2 b90.244 0 1 90 15",
			"chtime w.nc part -400000", "observe", "cleanstrays 16", "observe", "scan"},
		// fixed defect "the stray cleaner removed the partial of a retransmission of a file that failed validation": a
		// file fails validation (bytes overwritten in staging / wrong announced hash), is sent again with the same hash,
		// the sender stalls for more than a day and the cleaner runs: the partial must stay (that version was never
		// validated, delivered or logged), the rest arrives and the file is delivered
		{"base ?", "recover 0", "prepare x.y 3 0", "recv x.y - - 3 b100.62.16 0 2 100.62 0", "recv x.y - - 3 b100.62.16 2 3 16 0", "corrupt x.y full 0 253", "settle 0",
			"status x.y 0 0", "prepare x.y 3 0", "recv x.y - - 3 b100.62.16 0 2 100.62 0", "chtime x.y part -90000", "observe", "cleanstrays 1", "observe", "scan",
			"received x.y - - b100.62.16 0 0 2 1", "recv x.y - - 3 b100.62.16 2 3 16 1", "settle 1", "observe", "status x.y 0 1"},
		{"base ?", "recover 0", "prepare f 4 0", "recv f - - 4 b9.9.9.9 0 4 1.2.3.4 0", "settle 0", "status f 0 0", "prepare f 4 0", "recv f - - 4 b9.9.9.9 0 2 1.2 0",
			"chtime f part -400000", "observe", "cleanstrays 1", "observe", "scan", "status f 0 1"},
		// ... beside a validated copy of an OLDER version that is held for its predecessor (a `.wait` of another hash is no excuse)
		{"base ?", "recover 0", "prepare b 2 0", "recv b - a 2 b1.2 0 2 1.2 0", "settle 0", "status b 0 0", "prepare b 3 0", "recv b - a 3 b7.7.7 0 3 4.5.6 0", "settle 0",
			"status b 0 0", "prepare b 3 0", "recv b - a 3 b7.7.7 0 2 4.5 0", "chtime b part -200000", "observe", "cleanstrays 1", "observe", "scan"},
		// a failed new version of such a name polled with a fresh and then with an old reference time
		{"base ?", "oldlog y/z - b89 1 -260001", "recover 0", "prepare y/z 5 12", "recv y/z - - 5 b246.209.114.226.173 0 5 246.209.114.226.173 13",
			"corrupt y/z full 0 252", "settle 15", "status y/z 0 16", "status y/z -261001 18", "status y/z 0 19"},
		// two files held in a chain and the cleaner: no cycle, nothing may be released
		{"base ?", "recover 0", "prepare d/a 3 0", "recv d/a - a 3 b149.21.165 0 3 149.21.165 0", "prepare a 3 0", "recv a - b 3 b155.130.139 0 3 155.130.139 0",
			"settle 0", "cleanwaiting", "settle 0", "observe", "status d/a 0 0", "status a 0 0"},
		// crash right after the receive-log record, before the move: Recover must finish the delivery
		{"base ?", "recover 0", "prepare a 3 0", "recv a - - 3 b1.2.3 0 3 1.2.3 0", "process a 0", "cut 1 finh a 0", "observe", "recover 0", "settle 0", "observe", "status a 0 0"},
		{"base ?", "recover 0", "prepare a 3 0", "recv a - - 3 b1.2.3 0 3 1.2.3 0", "process a 0", "cut 3 finh a 0", "observe", "recover 0", "settle 0", "observe", "status a 0 0"},
		// C06 / C05 (fixed defect "Ignoring duplicate (recover)"): the last part of a delivered file arrives again (lost
		// acknowledgement) and the receiver dies after the companion's rename, before the duplicate branch removes the
		// partial: Recover must drop the staged copy, not validate, log and deliver it a second time
		{"base ?", "recover 0", "prepare a 2 0", "recv a - - 2 b1.2 0 2 1.2 0", "settle 0", "observe", "consume a", "prepare a 2 0",
			"cut 3 recv a - - 2 b1.2 0 2 1.2 0", "observe", "recover 0", "settle 0", "observe", "status a 0 0"},
		{"base ?", "recover 0", "prepare a 3 0", "recv a - - 3 b1.2.3 0 2 1.2 0", "recv a - - 3 b1.2.3 2 3 3 0", "settle 0", "observe", "prepare a 3 0",
			"recv a - - 3 b1.2.3 0 2 1.2 0", "cut 3 recv a - - 3 b1.2.3 2 3 3 0", "observe", "recover 0", "settle 0", "observe", "status a 0 0", "scan"},
		// ... and a crash inside that duplicate branch of Recover (after `.full` is removed: the orphan companion goes at the next start)
		{"base ?", "recover 0", "prepare a 2 0", "recv a - - 2 b1.2 0 2 1.2 0", "settle 0", "observe", "prepare a 2 0",
			"cut 3 recv a - - 2 b1.2 0 2 1.2 0", "cut 2 recover 0", "observe", "recover 0", "settle 0", "observe", "status a 0 0"},
		// fixed defect "buildCache kept the oldest of several records of a name": two versions of a name delivered; after a
		// restart the cache must describe the latest one, so that a duplicate of it is dropped by Recover ...
		{"base ?", "recover 0", "prepare a 2 0", "recv a - - 2 b1.2 0 2 1.2 0", "settle 0", "prepare a 2 0", "recv a - - 2 b3.4 0 2 3.4 0", "settle 0", "observe",
			"prepare a 2 0", "cut 3 recv a - - 2 b3.4 0 2 3.4 0", "observe", "recover 0", "settle 0", "observe", "status a 0 0"},
		// ... and by Receive
		{"base ?", "recover 0", "prepare a 2 0", "recv a - - 2 b1.2 0 2 1.2 0", "settle 0", "prepare a 2 0", "recv a - - 2 b3.4 0 2 3.4 0", "settle 0", "observe",
			"crash", "recover 0", "prepare a 2 0", "recv a - - 2 b3.4 0 2 3.4 0", "settle 0", "observe", "status a 0 0",
			"prepare a 2 0", "recv a - - 2 b1.2 0 2 1.2 0", "settle 0", "observe", "status a 0 0"},
		// C06 class (A) with an unrecorded `.full`: validation failed, the retransmission's Prepare removed the companion, crash
		{"base ?", "recover 0", "prepare k 2 0", "recv k - - 2 b9.9 0 2 1.2 0", "process k 0", "observe", "cut 1 prepare k 2 0", "observe", "recover 0", "observe", "scan",
			"prepare k 2 0", "recv k - - 2 b1.2 0 2 1.2 0", "settle 0", "observe", "status k 0 0"},
		// a delivery known only from the log of an earlier run must be remembered also after the
		// cache was aged, and a retransmission of it is not delivered again
		{"base ?", "oldlog x - b1.2 2 -260000", "oldlog y - b3 1 -260000", "recover 0", "received x - - b1.2 -270000 0 2 1", "cleancache 2", "received x - - b1.2 -270000 0 2 3",
			"prepare x 2 3", "recv x - - 2 b1.2 0 2 1.2 3", "settle 3", "observe", "status x -270000 4"},
		// overlapping receptions of two parts of one file: both stay on record
		{"base ?", "recover 0", "prepare f 4 0", "racerecv f - - 4 b1.2.3.4 0 2 1.2 0 ;; f - - 4 b1.2.3.4 2 3 3 0", "observe", "scan", "received f - - b1.2.3.4 0 0 2 0", "recv f - - 4 b1.2.3.4 3 4 4 0", "settle 0", "observe"},
		// a new version completes while the validator of the old one is between hash and rename
		{"base ?", "recover 0", "prepare a 2 0", "recv a - - 2 b1.2 0 2 1.2 0", "prepare a 2 0", "raceproc a 0 ;; a - - 2 b7.8 0 2 7.8 0", "observe", "settle 0", "observe", "status a 0 0"},
		// a part of a new version arrives while the old one is being put away (logged, not yet moved)
		{"base ?", "recover 0", "prepare a 2 0", "recv a - - 2 b1.2 0 2 1.2 0", "process a 0", "prepare a 3 0", "racefin a 0 ;; a - - 3 b7.8.9 0 2 7.8 0", "observe", "recv a - - 3 b7.8.9 2 3 9 0", "settle 0", "observe", "status a 0 0"},
		// the window between the finalize handler's decision (cached state read WITHOUT the file lock, isFileReady) and
		// finalize's locked region: the handler is held right before finalize() for version 1 of "a" while version 2 of the
		// same name is received completely and validated (its .wait replaces version 1's); the stale item must be ignored
		// by finalize's re-check of state AND hash under the lock, version 2 is delivered under its own record
		// (seed C01d: hash compared only in the handler's unlocked pre-check -> v1's record, v2's bytes)
		{"base ?", "recover 0", "prepare a 2 0", "recv a - - 2 b1.2 0 2 1.2 0", "process a 0", "finhold a 0", "prepare a 2 0", "recv a - - 2 b7.8 0 2 7.8 0",
			"process a 0", "observe", "finrelease a 0", "observe", "settle 0", "observe", "status a 0 0"},
		// the same with the pipeline run by `settle` while the handler is held (only validators run), and a crash image
		// taken inside the released finalize
		{"base ?", "recover 0", "prepare a 2 0", "recv a - - 2 b1.2 0 2 1.2 0", "settle 0", "prepare a 3 0", "recv a - - 3 b4.5.6 0 3 4.5.6 0", "process a 0",
			"finhold a 0", "prepare a 3 0", "recv a - - 3 b7.8.9 0 3 7.8.9 0", "settle 0", "observe", "finh a 0", "cut 1 finrelease a 0", "observe", "recover 0", "settle 0", "observe", "status a 0 0"},
		// held while its predecessor is delivered, a duplicate of the held version arrives, and the cleaners run
		{"base ?", "recover 0", "prepare p 1 0", "recv p - - 1 b5 0 1 5 0", "settle 0", "prepare b 2 0", "recv b - p 2 b1.2 0 2 1.2 0", "process b 0", "finhold b 0",
			"prepare b 2 0", "recv b - p 2 b1.2 0 2 1.2 0", "cleanwaiting", "cleanstrays 0", "settle 0", "observe", "finrelease b 0", "observe", "finrelease b 0", "settle 0", "observe", "status b 0 0"},
	}
}

func (stageComp) Generate(r *Rand, tier string, n int) [][]string {
	var cases [][]string
	for i := 0; i < n; i++ {
		if i%5 == 4 {
			cases = append(cases, genStageRace(r))
			continue
		}
		if i%10 == 3 {
			cases = append(cases, genStageCache(r))
			continue
		}
		if i%10 == 7 {
			cases = append(cases, genStageDupCrash(r))
			continue
		}
		if i%10 == 6 {
			cases = append(cases, genStageWindow(r))
			continue
		}
		if i%2 == 1 {
			cases = append(cases, genStageScenario(r))
			continue
		}
		ops := []string{"base ?", "recover 0"}
		nfiles := r.Range(1, 3)
		var files []*sfile
		chain := r.Chance(0.5)
		for j := 0; j < nfiles; j++ {
			name := []string{"a", "b", "d/c", "d/e.nc", "x.y"}[j+r.Intn(2)]
			dup := false
			for _, f := range files {
				if f.name == name {
					dup = true
				}
			}
			if dup {
				continue
			}
			prev := ""
			if chain && len(files) > 0 {
				prev = files[len(files)-1].name
			}
			files = append(files, genFile(r, name, prev))
		}
		// arrival order: all (file, part) pairs, shuffled or not
		type fp struct {
			f *sfile
			i int
		}
		var sched []fp
		for _, f := range files {
			for k := 0; k+1 < len(f.cuts); k++ {
				sched = append(sched, fp{f, k})
			}
		}
		if r.Chance(0.6) {
			r.Shuffle(len(sched), func(a, b int) { sched[a], sched[b] = sched[b], sched[a] })
		}
		prepared := map[string]bool{}
		wrongHash := r.Chance(0.15)
		if wrongHash {
			files[0].hash = "xbad"
		}
		crashAt := -1
		if r.Chance(0.4) {
			crashAt = r.Intn(len(sched))
		}
		for si, x := range sched {
			if !prepared[x.f.name] || r.Chance(0.3) {
				ops = append(ops, fmt.Sprintf("prepare %s %d 0", esc(x.f.name), len(x.f.body)))
				prepared[x.f.name] = true
			}
			op := x.f.recvOp(x.i)
			if si == crashAt {
				ops = append(ops, fmt.Sprintf("cut %d %s", r.Range(0, 6), op), "observe", "recover 0")
				if r.Chance(0.5) {
					ops = append(ops, "settle 0", "observe")
				}
				prepared = map[string]bool{}
				// the sender would resume: ask what is there, re-send everything missing
				ops = append(ops, "scan")
				continue
			}
			ops = append(ops, op)
			if r.Chance(0.2) {
				ops = append(ops, op) // duplicate part
			}
			if r.Chance(0.15) {
				ops = append(ops, "scan")
			}
			if r.Chance(0.15) {
				b, e := x.f.cuts[x.i], x.f.cuts[x.i+1]
				ops = append(ops, fmt.Sprintf("received %s %s %s %s 0 %d %d 0", esc(x.f.name), esc(x.f.renamed), esc(x.f.prev), esc(x.f.hash), b, e))
			}
			if r.Chance(0.15) {
				// the recovery question after a failed request: a bin of 2-4 parts, some arrived, some not
				k := r.Range(2, 4)
				var qs []string
				for j := 0; j < k; j++ {
					y := sched[r.Intn(len(sched))]
					if j > 0 && r.Chance(0.5) && si+j < len(sched) {
						y = sched[si+j] // parts that are still to come
					} else if r.Chance(0.5) {
						y = sched[r.Intn(si+1)] // parts that arrived
					}
					qs = append(qs, fmt.Sprintf("%s %s %s %s 0 %d %d", esc(y.f.name), esc(y.f.renamed), esc(y.f.prev), esc(y.f.hash), y.f.cuts[y.i], y.f.cuts[y.i+1]))
				}
				if r.Chance(0.5) {
					r.Shuffle(len(qs), func(a, b int) { qs[a], qs[b] = qs[b], qs[a] })
				}
				ops = append(ops, "receivedn 0 "+strings.Join(qs, " ;; "))
			}
			if r.Chance(0.25) {
				ops = append(ops, "settle 0")
				if r.Chance(0.5) {
					ops = append(ops, "observe")
				}
			}
		}
		ops = append(ops, "settle 0", "observe")
		for _, f := range files {
			ops = append(ops, fmt.Sprintf("status %s 0 0", esc(f.name)))
		}
		if crashAt >= 0 || wrongHash {
			// retransmit everything in order (as the sender would after a failure / restart)
			for _, f := range files {
				if wrongHash && f == files[0] {
					f.hash = modelHashOfBody(f.body)
				}
				ops = append(ops, fmt.Sprintf("prepare %s %d 0", esc(f.name), len(f.body)))
				for k := 0; k+1 < len(f.cuts); k++ {
					ops = append(ops, f.recvOp(k))
				}
			}
			ops = append(ops, "settle 0", "observe")
			for _, f := range files {
				ops = append(ops, fmt.Sprintf("status %s 0 0", esc(f.name)))
			}
		}
		if r.Chance(0.3) {
			ops = append(ops, "crash", "recover 0", "settle 0", "observe")
			for _, f := range files {
				ops = append(ops, fmt.Sprintf("status %s 0 0", esc(f.name)))
			}
		}
		cases = append(cases, ops)
	}
	return cases
}

// genStageDupCrash: files are delivered (some are then taken by the consumer); parts of them arrive again (the
// sender lost an acknowledgement, or restarted) and the receiver dies inside one of these duplicate receptions —
// at every durable step of it, in particular between the companion's rename and the removal of the partial by the
// "Ignoring duplicate (receive)" branch — or inside the Recover that follows; then recover + settle: nothing that is
// logged and delivered may be validated, logged or delivered again (oracles logged-twice, delivered-twice), and a
// new version of the name that arrives the same way must still go through.
func genStageDupCrash(r *Rand) []string {
	ops := []string{"base ?", "recover 0"}
	names := []string{"a", "b", "d/c", "x.y"}
	r.Shuffle(len(names), func(i, j int) { names[i], names[j] = names[j], names[i] })
	nf := r.Range(1, 2)
	var files []*sfile
	for j := 0; j < nf; j++ {
		prev := ""
		if j > 0 && r.Chance(0.4) {
			prev = files[j-1].name
		}
		files = append(files, genFile(r, names[j], prev))
	}
	for _, f := range files {
		ops = append(ops, fmt.Sprintf("prepare %s %d 0", esc(f.name), len(f.body)))
		for k := 0; k+1 < len(f.cuts); k++ {
			ops = append(ops, f.recvOp(k))
		}
	}
	ops = append(ops, "settle 0", "observe")
	for _, f := range files {
		if r.Chance(0.5) {
			t := f.renamed
			if t == "" {
				t = f.name
			}
			ops = append(ops, "consume "+esc(t))
		}
	}
	if r.Chance(0.3) {
		ops = append(ops, "crash", "recover 0")
	}
	rounds := r.Range(1, 2)
	for rd := 0; rd < rounds; rd++ {
		f := files[r.Intn(len(files))]
		g := f
		if r.Chance(0.2) {
			// a new version of the name instead of a duplicate
			g = &sfile{name: f.name, renamed: f.renamed, prev: f.prev, body: genBody(r, len(f.body)), cuts: f.cuts}
			g.hash = modelHashOfBody(g.body)
		}
		ops = append(ops, fmt.Sprintf("prepare %s %d 0", esc(g.name), len(g.body)))
		last := len(g.cuts) - 2
		for k := 0; k < last; k++ {
			ops = append(ops, g.recvOp(k))
		}
		k := 3 // after the companion's rename
		if r.Chance(0.4) {
			k = r.Range(0, 6)
		}
		ops = append(ops, fmt.Sprintf("cut %d %s", k, g.recvOp(last)), "observe")
		if r.Chance(0.25) {
			ops = append(ops, fmt.Sprintf("cut %d recover 0", r.Range(1, 3)), "observe")
		}
		ops = append(ops, "recover 0")
		if r.Chance(0.3) {
			ops = append(ops, "scan")
		}
		ops = append(ops, "settle 0", "observe")
		for _, x := range files {
			ops = append(ops, fmt.Sprintf("status %s 0 0", esc(x.name)))
		}
		if g != f {
			// the sender resumes the new version
			ops = append(ops, fmt.Sprintf("prepare %s %d 0", esc(g.name), len(g.body)))
			for k := 0; k+1 < len(g.cuts); k++ {
				ops = append(ops, g.recvOp(k))
			}
			ops = append(ops, "settle 0", "observe", fmt.Sprintf("status %s 0 0", esc(g.name)))
			for i, x := range files {
				if x == f {
					files[i] = g
				}
			}
		}
	}
	return ops
}

// genStageScenario: targeted histories — explicit pipeline scheduling, new versions of a
// name while an older one is staged, held files and their release, predecessors known only
// from the log, retry timers, wait loops and the cleaner, stray partials of every age,
// corruption of staged data, consumption of delivered files, crash images of every kind
// of operation.
func genStageScenario(r *Rand) []string {
	ops := []string{"base ?", "recover 0"}
	// names with a staging extension in the middle are legal names (the code must cut extensions off the END of a path)
	names := []string{"a", "ab", "d/a", "d/ab.nc", "b", "x.y", "b.part1.rar", "x.partial/q.wait.nc", "c.cmp.full.z"}
	r.Shuffle(len(names), func(i, j int) { names[i], names[j] = names[j], names[i] })
	nf := r.Range(1, 4)
	var files []*sfile
	kind := r.Intn(8)
	ghostOld := kind == 3 && r.Chance(0.5)
	if ghostOld {
		// the predecessor was delivered days ago: its record is found only when the log search has gone back far
		// enough, one window per firing of the retry timer
		g := genFile(r, "ghost", "")
		ops = []string{"base ?", fmt.Sprintf("oldlog ghost - %s %d -%d", esc(g.hash), len(g.body), []int{90000, 180000, 260000, 400000}[r.Intn(4)]), "recover 0"}
	}
	for j := 0; j < nf; j++ {
		prev := ""
		switch kind {
		case 0, 1: // chain
			if j > 0 {
				prev = files[j-1].name
			}
		case 2: // loop
			prev = names[(j+1)%nf]
		case 3: // predecessor that never arrives / only in log
			prev = "ghost"
		case 4: // self reference
			prev = names[j]
		}
		files = append(files, genFile(r, names[j], prev))
	}
	maybeCut := func(op string) []string {
		if r.Chance(0.12) {
			return []string{fmt.Sprintf("cut %d %s", r.Range(0, 5), op), "observe", "recover 0"}
		}
		return []string{op}
	}
	send := func(f *sfile, order []int) {
		ops = append(ops, maybeCut(fmt.Sprintf("prepare %s %d 0", esc(f.name), len(f.body)))...)
		for _, k := range order {
			ops = append(ops, maybeCut(f.recvOp(k))...)
		}
	}
	partOrder := func(f *sfile) []int {
		o := make([]int, len(f.cuts)-1)
		for i := range o {
			o[i] = i
		}
		if r.Chance(0.5) {
			r.Shuffle(len(o), func(i, j int) { o[i], o[j] = o[j], o[i] })
		}
		return o
	}
	pipeline := func(f *sfile) {
		switch r.Intn(4) {
		case 0:
			ops = append(ops, "settle 0")
		case 1:
			ops = append(ops, maybeCut(fmt.Sprintf("process %s 0", esc(f.name)))...)
			ops = append(ops, maybeCut(fmt.Sprintf("finh %s 0", esc(f.name)))...)
		case 2:
			ops = append(ops, fmt.Sprintf("process %s 0", esc(f.name)))
		}
	}
	// arrival order of whole files: reversed chains make files wait
	idx := make([]int, len(files))
	for i := range idx {
		idx[i] = i
	}
	if r.Chance(0.6) {
		for i, j := 0, len(idx)-1; i < j; i, j = i+1, j-1 {
			idx[i], idx[j] = idx[j], idx[i]
		}
	}
	if kind == 3 && !ghostOld && r.Chance(0.5) {
		// the ghost predecessor was delivered in an earlier run: deliver it, then restart
		g := genFile(r, "ghost", "")
		send(g, partOrder(g))
		ops = append(ops, "settle 0", "consume ghost", "crash", "recover 0")
	}
	for _, i := range idx {
		f := files[i]
		if r.Chance(0.15) {
			// stale-free split reception: open first, write later (still the current partial)
			ops = append(ops, fmt.Sprintf("prepare %s %d 0", esc(f.name), len(f.body)))
			b, e := f.cuts[0], f.cuts[1]
			ops = append(ops, fmt.Sprintf("ropen 1 %s %d %d", f.meta(), b, e))
			ops = append(ops, fmt.Sprintf("rwrite 1 %s 0", tokOrDash(f.body[b:e])))
			for k := 1; k+1 < len(f.cuts); k++ {
				ops = append(ops, f.recvOp(k))
			}
		} else {
			send(f, partOrder(f))
		}
		if r.Chance(0.12) {
			// staged data overwritten before validation
			ext := "full"
			ops = append(ops, fmt.Sprintf("corrupt %s %s 0 %d", esc(f.name), ext, r.Range(251, 255)))
		}
		if r.Chance(0.2) {
			// short reader
			b, e := f.cuts[0], f.cuts[1]
			if e-b >= 2 {
				ops = append(ops, fmt.Sprintf("prepare %s %d 0", esc(f.name), len(f.body)),
					fmt.Sprintf("recv %s %d %d %s 0", f.meta(), b, e, tokOrDash(f.body[b:e-1])))
			}
		}
		pipeline(f)
		if r.Chance(0.25) {
			ops = append(ops, fmt.Sprintf("status %s 0 0", esc(f.name)))
		}
		if r.Chance(0.2) {
			ops = append(ops, "observe")
		}
		if r.Chance(0.2) {
			// a new version of the same name while the old one is wherever it is
			g := genFile(r, f.name, f.prev)
			g.renamed = f.renamed
			if r.Chance(0.5) {
				send(g, partOrder(g))
			} else if len(g.cuts) > 2 {
				send(g, partOrder(g)[:1])
			}
			pipeline(g)
		}
		if r.Chance(0.15) {
			// retransmission of the whole file
			send(f, partOrder(f))
			pipeline(f)
		}
		if r.Chance(0.1) {
			// ... by a sender whose rename mapping has changed: same name, same bytes, another target
			g := *f
			g.renamed = []string{"", "r2/" + strings.ReplaceAll(f.name, "/", "_")}[r.Intn(2)]
			if g.renamed != f.renamed {
				send(&g, partOrder(&g))
				pipeline(&g)
			}
		}
	}
	ops = append(ops, "settle 0", "observe", "mem")
	if kind == 3 {
		for _, f := range files {
			if r.Chance(0.6) {
				// the retry timer fires again and again: each time the log search goes one window further back
				for k := r.Range(1, 5); k > 0; k-- {
					ops = append(ops, fmt.Sprintf("firetimer %s", esc(f.name)), "settle 0")
				}
				if r.Chance(0.3) {
					ops = append(ops, "observe")
				}
			}
		}
	}
	if kind == 2 || r.Chance(0.2) {
		ops = append(ops, "cleanwaiting", "settle 0", "observe")
	}
	if r.Chance(0.5) {
		// left-overs of every age, then the stray cleaner
		for _, f := range files {
			if r.Chance(0.6) {
				failed := r.Chance(0.35)
				if failed {
					// the file is sent (again) and fails validation (staged bytes overwritten): cache state failed,
					// unless that version is known as delivered; its retransmission is the left-over
					ops = append(ops, fmt.Sprintf("prepare %s %d 0", esc(f.name), len(f.body)))
					for k := 0; k+1 < len(f.cuts); k++ {
						ops = append(ops, f.recvOp(k))
					}
					ops = append(ops, fmt.Sprintf("corrupt %s full 0 %d", esc(f.name), r.Range(251, 255)), "settle 0")
				}
				ops = append(ops, fmt.Sprintf("prepare %s %d 0", esc(f.name), len(f.body)))
				if failed || r.Chance(0.5) {
					ops = append(ops, f.recvOp(0))
				}
				if r.Chance(0.3) {
					g := genFile(r, f.name, "")
					ops = append(ops, fmt.Sprintf("prepare %s %d 0", esc(g.name), len(g.body)), g.recvOp(0))
				}
				age := []int{-3600, -80000, -90000, -200000, -400000}[r.Intn(5)]
				ops = append(ops, fmt.Sprintf("chtime %s part %d", esc(f.name), age))
			}
		}
		ops = append(ops, "observe")
		ops = append(ops, maybeCut("cleanstrays 0")...)
		ops = append(ops, "observe", "scan")
	}
	for _, f := range files {
		ops = append(ops, fmt.Sprintf("status %s %d 0", esc(f.name), []int{0, -100000, -3000000}[r.Intn(3)]))
		ops = append(ops, fmt.Sprintf("received %s %s %s %s %d %d %d 0", esc(f.name), esc(f.renamed), esc(f.prev), esc(f.hash),
			[]int{0, -100000, 5000}[r.Intn(3)], f.cuts[0], f.cuts[1]))
	}
	if r.Chance(0.4) {
		ops = append(ops, "crash", "recover 0", "settle 0", "observe")
		for _, f := range files {
			ops = append(ops, fmt.Sprintf("status %s 0 0", esc(f.name)))
		}
	}
	return ops
}

// genStageRace: two operations overlapping in time — the first is held at a pause point
// inside its locked region (companion update of a reception, between hash and rename of a
// validation, between log and move of a delivery) while a reception of another part / of a
// new version starts.
func genStageRace(r *Rand) []string {
	ops := []string{"base ?", "recover 0"}
	f := genFile(r, []string{"a", "d/b", "x.y"}[r.Intn(3)], "")
	for len(f.cuts) < 3 {
		f = genFile(r, f.name, "")
	}
	recvArgs := func(f *sfile, i int) string {
		b, e := f.cuts[i], f.cuts[i+1]
		return fmt.Sprintf("%s %d %d %s 0", f.meta(), b, e, tokOrDash(f.body[b:e]))
	}
	ops = append(ops, fmt.Sprintf("prepare %s %d 0", esc(f.name), len(f.body)))
	n := len(f.cuts) - 1
	switch r.Intn(3) {
	case 0: // overlapping receptions of parts of one file (or of two files)
		i, j := r.Intn(n), r.Intn(n)
		if i == j {
			j = (i + 1) % n
		}
		other := f
		if r.Chance(0.3) {
			other = genFile(r, "other", "")
			ops = append(ops, fmt.Sprintf("prepare %s %d 0", esc(other.name), len(other.body)))
			j = 0
		}
		ops = append(ops, "racerecv "+recvArgs(f, i)+" ;; "+recvArgs(other, j), "observe", "scan")
		for k := 0; k < n; k++ {
			if k != i && (other != f || k != j) {
				if r.Chance(0.5) && k+1 < n && other == f && k+1 != i && k+1 != j {
					ops = append(ops, "racerecv "+recvArgs(f, k)+" ;; "+recvArgs(f, k+1), "observe")
					k++
					continue
				}
				ops = append(ops, f.recvOp(k))
			}
		}
		ops = append(ops, fmt.Sprintf("received %s %s %s %s 0 %d %d 0", esc(f.name), esc(f.renamed), esc(f.prev), esc(f.hash), f.cuts[i], f.cuts[i+1]))
	case 1: // new version vs. validation of the old one
		for k := 0; k < n; k++ {
			ops = append(ops, f.recvOp(k))
		}
		g := genFile(r, f.name, "")
		g.renamed = f.renamed
		ops = append(ops, fmt.Sprintf("prepare %s %d 0", esc(g.name), len(g.body)))
		m := len(g.cuts) - 1
		for k := 0; k+1 < m; k++ {
			ops = append(ops, g.recvOp(k))
		}
		ops = append(ops, fmt.Sprintf("raceproc %s 0 ;; %s", esc(f.name), recvArgs(g, m-1)), "observe")
	case 2: // new version vs. delivery of the old one
		for k := 0; k < n; k++ {
			ops = append(ops, f.recvOp(k))
		}
		ops = append(ops, fmt.Sprintf("process %s 0", esc(f.name)))
		g := genFile(r, f.name, "")
		g.renamed = f.renamed
		ops = append(ops, fmt.Sprintf("prepare %s %d 0", esc(g.name), len(g.body)))
		m := len(g.cuts) - 1
		for k := 0; k+1 < m; k++ {
			ops = append(ops, g.recvOp(k))
		}
		ops = append(ops, fmt.Sprintf("racefin %s 0 ;; %s", esc(f.name), recvArgs(g, m-1)), "observe")
	}
	ops = append(ops, "settle 0", "observe", "scan", fmt.Sprintf("status %s 0 0", esc(f.name)))
	if r.Chance(0.3) {
		ops = append(ops, "crash", "recover 0", "settle 0", "observe", fmt.Sprintf("status %s 0 0", esc(f.name)))
	}
	return ops
}

// genStageWindow: the window between the finalize handler's decision phase (cached state read WITHOUT the file lock,
// isFileReady with its possible scan of the receive log) and finalize's locked region. The handler is held right
// before finalize() for one item (`finhold`) while other operations run: a NEWER VERSION of the same name is
// received completely and validated (the main case: finalize must re-check state AND hash under the lock), a
// duplicate of the held version arrives, a successor / a new version of the predecessor arrives and is validated,
// the cleaners run, the sender asks, the receiver dies and restarts; then the handler goes on (`finrelease`, also as a
// crash image `cut k finrelease`). Items that the decision phase skips or parks (answer `ok`, nothing held) are
// generated too.
func genStageWindow(r *Rand) []string {
	ops := []string{"base ?", "recover 0"}
	names := []string{"a", "d/b", "x.y", "ab"}
	r.Shuffle(len(names), func(i, j int) { names[i], names[j] = names[j], names[i] })
	sendAll := func(f *sfile) {
		ops = append(ops, fmt.Sprintf("prepare %s %d 0", esc(f.name), len(f.body)))
		for k := 0; k+1 < len(f.cuts); k++ {
			ops = append(ops, f.recvOp(k))
		}
	}
	target := func(f *sfile) string {
		if f.renamed != "" {
			return f.renamed
		}
		return f.name
	}
	var pred *sfile
	prev := ""
	switch r.Intn(5) {
	case 0:
		// a predecessor that was delivered before (the held file is ready because of it)
		pred = genFile(r, names[1], "")
		sendAll(pred)
		ops = append(ops, "settle 0")
		if r.Chance(0.3) {
			ops = append(ops, "consume "+esc(target(pred)))
		}
		prev = pred.name
	case 1:
		// a predecessor that never arrives: the decision phase parks the file (nothing is held)
		prev = "ghost"
	}
	f := genFile(r, names[0], prev)
	if r.Chance(0.3) {
		// an older version of the name was delivered before
		f0 := genFile(r, f.name, prev)
		f0.renamed = f.renamed
		sendAll(f0)
		ops = append(ops, "settle 0")
	}
	sendAll(f)
	ops = append(ops, fmt.Sprintf("process %s 0", esc(f.name)))
	if r.Chance(0.1) {
		// the item is stale already when the handler takes it: a newer version is complete (state received)
		g := genFile(r, f.name, prev)
		g.renamed = f.renamed
		sendAll(g)
	}
	ops = append(ops, fmt.Sprintf("finhold %s 0", esc(f.name)))
	if r.Chance(0.2) {
		ops = append(ops, "observe")
	}
	cur := f // the version of the name that is current in the cache
	nmean := r.Range(1, 3)
	for j := 0; j < nmean; j++ {
		switch r.Intn(9) {
		case 0, 1, 2:
			// a NEWER VERSION of the held name, received completely and validated
			g := genFile(r, f.name, prev)
			g.renamed = f.renamed
			if r.Chance(0.2) {
				g.renamed = "r/other.x"
			}
			if r.Chance(0.15) {
				g.hash = "xbad" // ... or failing its validation
			}
			sendAll(g)
			switch r.Intn(4) {
			case 0:
				ops = append(ops, "settle 0")
			case 1: // complete, not yet validated
			default:
				ops = append(ops, fmt.Sprintf("process %s 0", esc(g.name)))
			}
			cur = g
		case 3:
			// a duplicate of the current version (a lost acknowledgement)
			sendAll(cur)
			if r.Chance(0.5) {
				ops = append(ops, "settle 0")
			}
		case 4:
			// only a part of a newer version
			g := genFile(r, f.name, prev)
			g.renamed = f.renamed
			ops = append(ops, fmt.Sprintf("prepare %s %d 0", esc(g.name), len(g.body)), g.recvOp(0))
			if len(g.cuts) > 2 {
				cur = nil
			} else {
				cur = g
			}
			if cur == nil {
				cur = f
			}
		case 5:
			// a successor of the held file arrives and is validated (it queues up behind the held handler), or a new
			// version of the predecessor
			var h *sfile
			if pred != nil && r.Chance(0.5) {
				h = genFile(r, pred.name, "")
				h.renamed = pred.renamed
			} else {
				h = genFile(r, names[2], f.name)
			}
			sendAll(h)
			ops = append(ops, "settle 0")
		case 6:
			// the cleaners
			if r.Chance(0.5) {
				ops = append(ops, "cleanwaiting")
			}
			if r.Chance(0.5) {
				g := genFile(r, f.name, prev)
				ops = append(ops, fmt.Sprintf("prepare %s %d 0", esc(g.name), len(g.body)))
				if len(g.cuts) > 2 {
					ops = append(ops, g.recvOp(0))
				}
				ops = append(ops, fmt.Sprintf("chtime %s part %d", esc(f.name), []int{-3600, -90000, -400000}[r.Intn(3)]))
			}
			ops = append(ops, "cleanstrays 0")
		case 7:
			// the sender asks
			ops = append(ops, fmt.Sprintf("status %s 0 0", esc(f.name)),
				fmt.Sprintf("received %s %s %s %s 0 %d %d 0", esc(f.name), esc(f.renamed), esc(f.prev), esc(f.hash), f.cuts[0], f.cuts[1]))
			if r.Chance(0.5) {
				ops = append(ops, "scan")
			}
		case 8:
			// things that cannot happen while the single handler is held are refused the same way by model and code
			ops = append(ops, fmt.Sprintf("finh %s 0", esc(f.name)))
			if r.Chance(0.3) {
				ops = append(ops, "firetimer "+esc(f.name))
			}
		}
		if r.Chance(0.3) {
			ops = append(ops, "observe")
		}
	}
	switch r.Intn(8) {
	case 0:
		// the receiver dies while the handler is held
		ops = append(ops, "crash", "observe", "recover 0", fmt.Sprintf("finrelease %s 0", esc(f.name)))
	case 1:
		// ... or inside the finalize that follows
		ops = append(ops, fmt.Sprintf("cut %d finrelease %s 0", r.Range(0, 4), esc(f.name)), "observe", "recover 0")
	default:
		ops = append(ops, fmt.Sprintf("finrelease %s 0", esc(f.name)))
	}
	ops = append(ops, "observe")
	if r.Chance(0.3) {
		// a second window, for whatever is at the head of the queue now (usually the newer version)
		ops = append(ops, fmt.Sprintf("finhold %s 0", esc(f.name)))
		if r.Chance(0.5) {
			g := genFile(r, f.name, prev)
			g.renamed = f.renamed
			sendAll(g)
			ops = append(ops, "settle 0")
		}
		ops = append(ops, fmt.Sprintf("finrelease %s 0", esc(f.name)), "observe")
	}
	ops = append(ops, "settle 0", "observe", "scan", fmt.Sprintf("status %s 0 0", esc(f.name)))
	if prev == "ghost" && r.Chance(0.5) {
		ops = append(ops, "firetimer "+esc(f.name), "settle 0", "observe")
	}
	if r.Chance(0.3) {
		ops = append(ops, "crash", "recover 0", "settle 0", "observe", fmt.Sprintf("status %s 0 0", esc(f.name)))
	}
	return ops
}

// genStageCache: deliveries known only from the receive log of an earlier run, cache loads
// (each with its own `now`, because the code identifies a load batch by its time), cache
// ageing, and retransmissions of such deliveries.
func genStageCache(r *Rand) []string {
	ops := []string{"base ?"}
	type old struct {
		f   *sfile
		age int
	}
	var olds []old
	for i, n := range []string{"x", "y/z", "w.nc"}[:r.Range(1, 3)] {
		f := genFile(r, n, "")
		age := []int{3600, 90000, 180000, 260000, 1000000}[r.Intn(5)] + i
		olds = append(olds, old{f, age})
		ops = append(ops, fmt.Sprintf("oldlog %s %s %s %d -%d", esc(f.name), esc(f.renamed), esc(f.hash), len(f.body), age))
	}
	now := 0
	tick := func() int { now++; return now }
	if r.Chance(0.4) {
		// a leftover companion of a stalled transfer: Recover's cache window then starts at its mtime - 24 h,
		// at some other time of day than now
		q := genFile(r, "q", "")
		ops = append(ops, "recover 0", fmt.Sprintf("prepare %s %d 0", esc(q.name), len(q.body)))
		if len(q.cuts) > 2 {
			ops = append(ops, q.recvOp(0))
			ops = append(ops, fmt.Sprintf("chtime q cmp -%d", r.Range(1000, 170000)), "crash")
		}
	}
	ops = append(ops, "recover 0")
	for round := 0; round < 2; round++ {
		for _, o := range olds {
			if r.Chance(0.7) {
				ft := -(o.age + r.Range(10, 5000))
				if r.Chance(0.2) {
					ft = -r.Range(0, o.age-1) // file time later than the logged delivery
				}
				ops = append(ops, fmt.Sprintf("received %s %s %s %s %d 0 %d %d", esc(o.f.name), esc(o.f.renamed), esc(o.f.prev), esc(o.f.hash), ft, o.f.cuts[1], tick()))
			}
			if r.Chance(0.4) {
				ops = append(ops, fmt.Sprintf("status %s %d %d", esc(o.f.name), -(o.age+100), tick()))
			}
		}
		if r.Chance(0.8) {
			ops = append(ops, fmt.Sprintf("cleancache %d", tick()))
		}
		if r.Chance(0.5) {
			// a new file is delivered in this run
			f := genFile(r, "n"+fmt.Sprint(round), "")
			ops = append(ops, fmt.Sprintf("prepare %s %d %d", esc(f.name), len(f.body), tick()))
			for k := 0; k+1 < len(f.cuts); k++ {
				b, e := f.cuts[k], f.cuts[k+1]
				ops = append(ops, fmt.Sprintf("recv %s %d %d %s %d", f.meta(), b, e, tokOrDash(f.body[b:e]), tick()))
			}
			ops = append(ops, fmt.Sprintf("settle %d", tick()))
		}
	}
	reused := ""
	if r.Chance(0.5) {
		// a NEW version of a name whose earlier delivery is known only from the log is partly received, its
		// partial goes stale (sender stalled for more than a day) and the stray cleaner runs: only a partial of
		// the DELIVERED version may go
		o := olds[r.Intn(len(olds))]
		g := genFile(r, o.f.name, "")
		g.renamed = o.f.renamed
		reused = o.f.name
		if r.Chance(0.25) {
			// the delivered version itself: a stale duplicate, may be removed. The sender asks before it sends
			// (Receive itself consults only the in-memory cache: hypothesis S8)
			g = o.f
			ops = append(ops, fmt.Sprintf("received %s %s %s %s %d 0 %d %d", esc(g.name), esc(g.renamed), esc(g.prev), esc(g.hash), -(o.age + 50), g.cuts[1], tick()))
		}
		ops = append(ops, fmt.Sprintf("prepare %s %d %d", esc(g.name), len(g.body), tick()))
		b, e := g.cuts[0], g.cuts[1]
		ops = append(ops, fmt.Sprintf("recv %s %d %d %s %d", g.meta(), b, e, tokOrDash(g.body[b:e]), tick()))
		ops = append(ops, fmt.Sprintf("chtime %s part %d", esc(g.name), []int{-3600, -90000, -200000, -400000}[r.Intn(4)]))
		if g != o.f && r.Chance(0.5) {
			// (not between the question and the retransmission of the delivered version itself: S8)
			ops = append(ops, fmt.Sprintf("cleancache %d", tick()))
		}
		ops = append(ops, "observe", fmt.Sprintf("cleanstrays %d", tick()), "observe", "scan")
		for k := 1; k+1 < len(g.cuts); k++ {
			b, e := g.cuts[k], g.cuts[k+1]
			ops = append(ops, fmt.Sprintf("recv %s %d %d %s %d", g.meta(), b, e, tokOrDash(g.body[b:e]), tick()))
		}
		if g != o.f && r.Chance(0.5) {
			// ... and fails its validation (staged bytes overwritten)
			ops = append(ops, fmt.Sprintf("corrupt %s full 0 %d", esc(g.name), r.Range(251, 255)))
		}
		ops = append(ops, fmt.Sprintf("settle %d", tick()), "observe")
		if g != o.f {
			// the new version is polled with a fresh and then with an old reference time (a restarted sender polls
			// with the file's mtime; the data-recovery route asks about any old file): extending the cache backwards
			// over the OLD record of that name must not change what is known about the version in the pipeline
			ops = append(ops, fmt.Sprintf("status %s 0 %d", esc(g.name), tick()))
			if r.Chance(0.5) {
				p := olds[r.Intn(len(olds))]
				ops = append(ops, fmt.Sprintf("received %s %s %s %s %d 0 %d %d", esc(p.f.name), esc(p.f.renamed), esc(p.f.prev), esc(p.f.hash), -(p.age + 1000), p.f.cuts[1], tick()))
			}
			ops = append(ops, fmt.Sprintf("status %s %d %d", esc(g.name), -(o.age + 1000), tick()), fmt.Sprintf("status %s 0 %d", esc(g.name), tick()))
		}
	}
	// the sender retransmits an old delivery (it asks first, as handleSendError / recover do); not of a name of
	// which another version arrived meanwhile (a version that comes back after a different one is a new delivery)
	o := olds[r.Intn(len(olds))]
	if o.f.name == reused {
		return ops
	}
	ft := -(o.age + 50)
	ops = append(ops, fmt.Sprintf("received %s %s %s %s %d 0 %d %d", esc(o.f.name), esc(o.f.renamed), esc(o.f.prev), esc(o.f.hash), ft, o.f.cuts[1], tick()))
	ops = append(ops, fmt.Sprintf("prepare %s %d %d", esc(o.f.name), len(o.f.body), tick()))
	for k := 0; k+1 < len(o.f.cuts); k++ {
		b, e := o.f.cuts[k], o.f.cuts[k+1]
		ops = append(ops, fmt.Sprintf("recv %s %d %d %s %d", o.f.meta(), b, e, tokOrDash(o.f.body[b:e]), tick()))
	}
	ops = append(ops, fmt.Sprintf("settle %d", tick()), "observe", fmt.Sprintf("status %s %d %d", esc(o.f.name), ft, tick()))
	return ops
}
