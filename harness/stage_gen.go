package main

import (
	"fmt"
	"strings"
)

// component "stage": the receiver's staging state machine (stage/local.go) driven through
// its real API with real files; properties C01, C04, C05, C06, C09 (state-machine part), C20.
type stageComp struct{}

func init() { register(stageComp{}) }

func (stageComp) Name() string { return "stage" }
func (stageComp) Rule() string {
	return "case = one receiver history on a fresh sandbox (prepare/recv parts, pipeline steps, queries, " +
		"crash images `cut k <op>`, recover, cleaning); non-trivial = at least 4 ops incl. a reception and an " +
		"observation/query; distinct = by the full op sequence"
}
func (stageComp) NewExec() Exec { return newStageExec() }

func (stageComp) AnswerClass(op []string, ans string) string {
	o := op[0]
	if o == "cut" && len(op) > 2 {
		o = "cut:" + op[2]
	}
	switch op[0] {
	case "observe", "scan", "mem":
		return o
	}
	if i := strings.Index(ans, " "); i > 0 && op[0] != "cut" {
		ans = ans[:i]
	}
	if op[0] == "cut" {
		if i := strings.Index(ans, " cut="); i > 0 {
			ans = ans[:i]
		}
	}
	return o + ":" + ans
}

type sfile struct {
	name, renamed, prev string
	body                []byte
	hash                string // announced token
	cuts                []int  // part boundaries
}

func (f *sfile) meta() string {
	return fmt.Sprintf("%s %s %s %d %s", esc(f.name), esc(f.renamed), esc(f.prev), len(f.body), esc(f.hash))
}

func (f *sfile) recvOp(i int) string {
	b, e := f.cuts[i], f.cuts[i+1]
	return fmt.Sprintf("recv %s %d %d %s 0", f.meta(), b, e, tokOrDash(f.body[b:e]))
}

func tokOrDash(b []byte) string {
	if len(b) == 0 {
		return "-"
	}
	return bodyTok(b)
}

func genBody(r *Rand, n int) []byte {
	b := make([]byte, n)
	for i := range b {
		b[i] = byte(r.Range(1, 250))
	}
	return b
}

func genFile(r *Rand, name, prev string) *sfile {
	size := []int{1, 2, 3, 5, 8, 12}[r.Intn(6)]
	f := &sfile{name: name, prev: prev, body: genBody(r, size)}
	f.hash = modelHashOfBody(f.body)
	if r.Chance(0.15) {
		f.renamed = "r/" + strings.ReplaceAll(name, "/", "_") + ".x"
	}
	nparts := r.Range(1, min(4, size))
	f.cuts = []int{0}
	for len(f.cuts) < nparts {
		lo := f.cuts[len(f.cuts)-1] + 1
		hi := size - (nparts - len(f.cuts))
		if lo > hi {
			break
		}
		f.cuts = append(f.cuts, r.Range(lo, hi))
	}
	f.cuts = append(f.cuts, size)
	return f
}

func (stageComp) Corpus() [][]string {
	return [][]string{
		// single file, one part, delivered
		{"base ?", "recover 0", "prepare a 3 0", "recv a - - 3 b1.2.3 0 3 1.2.3 0", "observe", "settle 0", "observe", "status a 0 0", "received a - - b1.2.3 0 0 3 0", "scan"},
		// two parts out of order, wrong hash -> failed, then resent correctly
		{"base ?", "recover 0", "prepare f 4 0", "recv f - - 4 b9.9.9.9 2 4 3.4 0", "scan", "recv f - - 4 b9.9.9.9 0 2 1.2 0", "settle 0", "observe", "status f 0 0",
			"prepare f 4 0", "recv f - - 4 b1.2.3.4 0 2 1.2 0", "recv f - - 4 b1.2.3.4 2 4 3.4 0", "settle 0", "observe", "status f 0 0"},
		// chain: b waits for a
		{"base ?", "recover 0", "prepare b 2 0", "recv b - a 2 b5.6 0 2 5.6 0", "settle 0", "observe", "status b 0 0", "mem",
			"prepare a 1 0", "recv a - - 1 b7 0 1 7 0", "settle 0", "observe", "status a 0 0", "status b 0 0"},
		// crash images of a complete reception + pipeline
		{"base ?", "recover 0", "prepare a 3 0", "cut 2 recv a - - 3 b1.2.3 0 3 1.2.3 0", "observe", "recover 0", "settle 0", "observe"},
		{"base ?", "recover 0", "prepare a 3 0", "recv a - - 3 b1.2.3 0 3 1.2.3 0", "process a 0", "cut 2 finh a 0", "observe", "recover 0", "settle 0", "observe", "status a 0 0"},
		{"base ?", "recover 0", "prepare a 3 0", "recv a - - 3 b1.2.3 0 3 1.2.3 0", "process a 0", "cut 3 finh a 0", "observe", "recover 0", "settle 0", "observe", "status a 0 0"},
	}
}

func (stageComp) Generate(r *Rand, tier string, n int) [][]string {
	var cases [][]string
	for i := 0; i < n; i++ {
		ops := []string{"base ?", "recover 0"}
		nfiles := r.Range(1, 3)
		var files []*sfile
		chain := r.Chance(0.5)
		for j := 0; j < nfiles; j++ {
			name := []string{"a", "b", "d/c", "d/e.nc", "x.y"}[j+r.Intn(2)]
			dup := false
			for _, f := range files {
				if f.name == name {
					dup = true
				}
			}
			if dup {
				continue
			}
			prev := ""
			if chain && len(files) > 0 {
				prev = files[len(files)-1].name
			}
			files = append(files, genFile(r, name, prev))
		}
		// arrival order: all (file, part) pairs, shuffled or not
		type fp struct {
			f *sfile
			i int
		}
		var sched []fp
		for _, f := range files {
			for k := 0; k+1 < len(f.cuts); k++ {
				sched = append(sched, fp{f, k})
			}
		}
		if r.Chance(0.6) {
			r.Shuffle(len(sched), func(a, b int) { sched[a], sched[b] = sched[b], sched[a] })
		}
		prepared := map[string]bool{}
		wrongHash := r.Chance(0.15)
		if wrongHash {
			files[0].hash = "xbad"
		}
		crashAt := -1
		if r.Chance(0.4) {
			crashAt = r.Intn(len(sched))
		}
		for si, x := range sched {
			if !prepared[x.f.name] || r.Chance(0.3) {
				ops = append(ops, fmt.Sprintf("prepare %s %d 0", esc(x.f.name), len(x.f.body)))
				prepared[x.f.name] = true
			}
			op := x.f.recvOp(x.i)
			if si == crashAt {
				ops = append(ops, fmt.Sprintf("cut %d %s", r.Range(0, 6), op), "observe", "recover 0")
				if r.Chance(0.5) {
					ops = append(ops, "settle 0", "observe")
				}
				prepared = map[string]bool{}
				// the sender would resume: ask what is there, re-send everything missing
				ops = append(ops, "scan")
				continue
			}
			ops = append(ops, op)
			if r.Chance(0.2) {
				ops = append(ops, op) // duplicate part
			}
			if r.Chance(0.15) {
				ops = append(ops, "scan")
			}
			if r.Chance(0.15) {
				b, e := x.f.cuts[x.i], x.f.cuts[x.i+1]
				ops = append(ops, fmt.Sprintf("received %s %s %s %s 0 %d %d 0", esc(x.f.name), esc(x.f.renamed), esc(x.f.prev), esc(x.f.hash), b, e))
			}
			if r.Chance(0.25) {
				ops = append(ops, "settle 0")
				if r.Chance(0.5) {
					ops = append(ops, "observe")
				}
			}
		}
		ops = append(ops, "settle 0", "observe")
		for _, f := range files {
			ops = append(ops, fmt.Sprintf("status %s 0 0", esc(f.name)))
		}
		if crashAt >= 0 || wrongHash {
			// retransmit everything in order (as the sender would after a failure / restart)
			for _, f := range files {
				if wrongHash && f == files[0] {
					f.hash = modelHashOfBody(f.body)
				}
				ops = append(ops, fmt.Sprintf("prepare %s %d 0", esc(f.name), len(f.body)))
				for k := 0; k+1 < len(f.cuts); k++ {
					ops = append(ops, f.recvOp(k))
				}
			}
			ops = append(ops, "settle 0", "observe")
			for _, f := range files {
				ops = append(ops, fmt.Sprintf("status %s 0 0", esc(f.name)))
			}
		}
		if r.Chance(0.3) {
			ops = append(ops, "crash", "recover 0", "settle 0", "observe")
			for _, f := range files {
				ops = append(ops, fmt.Sprintf("status %s 0 0", esc(f.name)))
			}
		}
		cases = append(cases, ops)
	}
	return cases
}
