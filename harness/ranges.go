package main

import (
	"fmt"
	"strconv"
	"strings"

	"github.com/arm-doe/sts"
	"github.com/arm-doe/sts/stage"
)

// component "ranges": stage/companion.go addCompanionPart / companionPartExists /
// isCompanionComplete through the tag-guarded exports. Properties: C09 (L0).
type rangesComp struct{}

func init() { register(rangesComp{}) }

func (rangesComp) Name() string { return "ranges" }
func (rangesComp) Rule() string {
	return "case = reset + sequence of add/exists/complete ops on one companion record; " +
		"non-trivial = at least 2 adds and at least one query answered true and one answered false " +
		"or a replaced range; distinct = by the full op sequence"
}

func (rangesComp) Corpus() [][]string {
	return [][]string{
		// F1 witness: overlapping record built by add itself, query beyond the record
		{"add 0 4", "add 6 10", "add 2 8", "exists 4 12", "exists 4 10", "exists 2 10", "complete 10"},
		// the repo's own TestPartSearch
		{"add 0 10", "add 40 50", "add 25 35", "add 10 25", "exists 0 10", "exists 7 13", "exists 10 25", "exists 36 45", "exists 23 42"},
		// unsorted record arising from two replacements
		{"add 2 8", "add 6 10", "add 7 9", "exists 6 10", "exists 7 10", "complete 10"},
		// degenerate and inverted ranges
		{"add 5 5", "add 9 3", "exists 5 5", "exists 9 3", "exists 3 9", "complete 0", "complete 5"},
		{"add 0 5", "add 1 2", "add 2 8", "complete 8", "exists 0 8"},
	}
}

func (rangesComp) Generate(r *Rand, tier string, n int) [][]string {
	var cases [][]string
	for i := 0; i < n; i++ {
		size := []int{1, 2, 3, 8, 16, 40, 100, 1000}[r.Intn(8)]
		if r.Chance(0.1) {
			size = r.Range(1, 5000)
		}
		style := r.Intn(5) // 0 tiling in order, 1 tiling shuffled, 2 tiling + dups, 3 overlapping/nested, 4 malformed
		var ops []string
		nAdds := r.Range(1, 12)
		// build a tiling of [0,size)
		cuts := []int{0}
		for len(cuts) < nAdds && cuts[len(cuts)-1] < size {
			step := r.Range(1, max(1, size/max(1, nAdds-1)+1))
			nx := cuts[len(cuts)-1] + step
			if nx > size {
				nx = size
			}
			cuts = append(cuts, nx)
		}
		if cuts[len(cuts)-1] != size && r.Chance(0.7) {
			cuts = append(cuts, size)
		}
		type rg struct{ b, e int }
		var tiles []rg
		for j := 0; j+1 < len(cuts); j++ {
			tiles = append(tiles, rg{cuts[j], cuts[j+1]})
		}
		if style >= 1 {
			r.Shuffle(len(tiles), func(a, b int) { tiles[a], tiles[b] = tiles[b], tiles[a] })
		}
		query := func() string {
			b := r.Range(-2, size+2)
			e := b + r.Range(0, max(1, size/2+2))
			if style == 4 && r.Chance(0.3) {
				e = b - r.Range(0, 3)
			}
			if r.Chance(0.3) && len(tiles) > 0 {
				t := tiles[r.Intn(len(tiles))]
				b, e = t.b, t.e
				if r.Chance(0.4) {
					e += r.Range(-1, 2)
				}
				if r.Chance(0.4) {
					b += r.Range(-1, 2)
				}
			}
			return fmt.Sprintf("exists %d %d", b, e)
		}
		for _, t := range tiles {
			if r.Chance(0.15) {
				continue // leave a gap
			}
			ops = append(ops, fmt.Sprintf("add %d %d", t.b, t.e))
			if style == 2 && r.Chance(0.3) {
				ops = append(ops, fmt.Sprintf("add %d %d", t.b, t.e))
			}
			if style >= 3 && r.Chance(0.4) {
				b := r.Range(0, size)
				e := b + r.Range(1, max(1, size/2))
				if style == 4 && r.Chance(0.3) {
					e = b - r.Range(0, 2)
				}
				ops = append(ops, fmt.Sprintf("add %d %d", b, e))
			}
			if r.Chance(0.4) {
				ops = append(ops, query())
			}
			if r.Chance(0.3) {
				ops = append(ops, fmt.Sprintf("complete %d", size))
			}
		}
		for k := r.Range(1, 4); k > 0; k-- {
			ops = append(ops, query())
		}
		ops = append(ops, fmt.Sprintf("complete %d", size))
		if r.Chance(0.2) {
			ops = append(ops, fmt.Sprintf("complete %d", size+r.Range(-1, 1)))
		}
		cases = append(cases, ops)
	}
	return cases
}

type rangesExec struct {
	cmp      *sts.Partial
	fails    []string
	adds     int
	sawTrue  bool
	sawFalse bool
	sawRepl  bool
	key      strings.Builder
}

func (rangesComp) NewExec() Exec { return &rangesExec{cmp: &sts.Partial{}} }

func fmtParts(ps []*sts.ByteRange) string {
	if len(ps) == 0 {
		return "-"
	}
	var s []string
	for _, p := range ps {
		s = append(s, fmt.Sprintf("%d:%d", p.Beg, p.End))
	}
	return strings.Join(s, " ")
}

func coveredBy(ps []*sts.ByteRange, x int64) bool {
	for _, p := range ps {
		if p.Beg <= x && x < p.End {
			return true
		}
	}
	return false
}

func (e *rangesExec) Do(op []string) string {
	e.key.WriteString(strings.Join(op, " "))
	e.key.WriteByte(';')
	atoi := func(s string) (int64, bool) {
		v, err := strconv.ParseInt(s, 10, 64)
		return v, err == nil
	}
	switch {
	case len(op) == 1 && op[0] == "reset":
		e.cmp = &sts.Partial{}
		return "ok"
	case len(op) == 3 && op[0] == "add":
		b, ok1 := atoi(op[1])
		en, ok2 := atoi(op[2])
		if !ok1 || !ok2 {
			return "bad-op"
		}
		old := append([]*sts.ByteRange(nil), e.cmp.Parts...)
		repl := stage.VerifAddCompanionPart(e.cmp, b, en)
		e.adds++
		// oracle (Props/C09 addPart_mem, addPart_new_mem, addPart_drops_only_replaced,
		// addPart_replaced_overlaps)
		dropped := 0
		for _, o := range old {
			found := false
			for _, p := range e.cmp.Parts {
				if p == o {
					found = true
				}
			}
			if !found {
				dropped++
				if repl != o {
					e.fails = append(e.fails, fmt.Sprintf("add %d %d dropped %d:%d without reporting it", b, en, o.Beg, o.End))
				} else if !(b < o.End && o.Beg < en) {
					e.fails = append(e.fails, fmt.Sprintf("add %d %d replaced non-conflicting %d:%d", b, en, o.Beg, o.End))
				}
			}
		}
		if dropped > 1 {
			e.fails = append(e.fails, fmt.Sprintf("add %d %d dropped %d ranges", b, en, dropped))
		}
		newFound := false
		for _, p := range e.cmp.Parts {
			if p.Beg == b && p.End == en {
				newFound = true
				continue
			}
			inOld := false
			for _, o := range old {
				if o == p {
					inOld = true
				}
			}
			if !inOld {
				e.fails = append(e.fails, fmt.Sprintf("add %d %d invented range %d:%d", b, en, p.Beg, p.End))
			}
		}
		if !newFound {
			e.fails = append(e.fails, fmt.Sprintf("add %d %d: new range not on record", b, en))
		}
		rs := "-"
		if repl != nil {
			rs = fmt.Sprintf("%d:%d", repl.Beg, repl.End)
			e.sawRepl = true
		}
		return fmtParts(e.cmp.Parts) + " | " + rs
	case len(op) == 3 && op[0] == "exists":
		b, ok1 := atoi(op[1])
		en, ok2 := atoi(op[2])
		if !ok1 || !ok2 {
			return "bad-op"
		}
		r := stage.VerifCompanionPartExists(e.cmp, b, en)
		if r {
			e.sawTrue = true
			// oracle: Props/C09 partExists_sound
			for x := b; x < en && x < b+100000; x++ {
				if !coveredBy(e.cmp.Parts, x) {
					e.fails = append(e.fails, fmt.Sprintf("exists %d %d answered true but byte %d is not on record (%s)", b, en, x, fmtParts(e.cmp.Parts)))
					break
				}
			}
		} else {
			e.sawFalse = true
		}
		return strconv.FormatBool(r)
	case len(op) == 2 && op[0] == "complete":
		sz, ok := atoi(op[1])
		if !ok {
			return "bad-op"
		}
		e.cmp.Size = sz
		r := stage.VerifIsCompanionComplete(e.cmp)
		if r {
			e.sawTrue = true
			// oracle: Props/C09 isComplete_sound
			for x := int64(0); x < sz && x < 100000; x++ {
				if !coveredBy(e.cmp.Parts, x) {
					e.fails = append(e.fails, fmt.Sprintf("complete %d answered true but byte %d is not on record (%s)", sz, x, fmtParts(e.cmp.Parts)))
					break
				}
			}
		} else {
			e.sawFalse = true
		}
		return strconv.FormatBool(r)
	}
	return "bad-op"
}

func (e *rangesExec) Oracle() []string { f := e.fails; e.fails = nil; return f }
func (e *rangesExec) Signature() (bool, string) {
	return e.adds >= 2 && ((e.sawTrue && e.sawFalse) || e.sawRepl), e.key.String()
}
func (e *rangesExec) Close() {}

func (rangesComp) AnswerClass(op []string, ans string) string {
	switch op[0] {
	case "add":
		if strings.HasSuffix(ans, "| -") {
			return "add:inserted"
		}
		return "add:replaced"
	default:
		return op[0] + ":" + ans
	}
}
