package main

import (
	"bytes"
	"encoding/json"
	"fmt"
	"os"
	"path/filepath"
	"strconv"
	"strings"
	"sync"
	"sync/atomic"
	"time"

	"github.com/arm-doe/sts"
	"github.com/arm-doe/sts/marshal"
	"github.com/arm-doe/sts/stage"
)

// receiver side of component "send": the REAL stage.Stage Prepare/Receive build companion
// records, the REAL Stage.Received counts the leading parts on record.
//
//	rrecv <name> <hash> <beg> <end>          Prepare + Receive of one part (file size 1 MiB: never complete)
//	rcount <name:hash:beg:len>...            Received(parts)
//
// One Stage instance serves the whole process (its worker goroutines never end); every case
// works under its own directory prefix.

const recvFileSize = int64(1 << 20)

var (
	recvOnce  sync.Once
	recvStage *stage.Stage
	recvRoot  string
	recvErr   error
	recvSeq   atomic.Int64
)

type nullRecvLogger struct{}

func (nullRecvLogger) Parse(func(name, renamed, hash string, size int64, t time.Time) bool, time.Time, time.Time) bool {
	return false
}
func (nullRecvLogger) Received(sts.Received)                                 {}
func (nullRecvLogger) WasReceived(string, string, time.Time, time.Time) bool { return false }

func recvInit() error {
	recvOnce.Do(func() {
		tmp := os.Getenv("VERIF_TMP")
		if tmp == "" {
			tmp = os.TempDir()
		}
		os.MkdirAll(tmp, 0o755)
		recvRoot, recvErr = os.MkdirTemp(tmp, "send-recv-")
		if recvErr != nil {
			return
		}
		os.MkdirAll(filepath.Join(recvRoot, "stage"), 0o755)
		os.MkdirAll(filepath.Join(recvRoot, "final"), 0o755)
		recvStage = stage.New("verif-send", filepath.Join(recvRoot, "stage"), filepath.Join(recvRoot, "final"), nullRecvLogger{}, nil, nil)
		recvStage.VerifStopTimers()
	})
	return recvErr
}

type recvPart struct {
	name, hash string
	beg, end   int64
}

func (p *recvPart) GetName() string          { return p.name }
func (p *recvPart) GetRenamed() string       { return "" }
func (p *recvPart) GetPrev() string          { return "" }
func (p *recvPart) GetFileTime() time.Time   { return time.Now().Add(-time.Minute) }
func (p *recvPart) GetFileHash() string      { return p.hash }
func (p *recvPart) GetFileSize() int64       { return recvFileSize }
func (p *recvPart) GetSendSize() int64       { return recvFileSize }
func (p *recvPart) GetSlice() (int64, int64) { return p.beg, p.end } // payload.fileMeta: (Beg, End)

func (e *sendExec) recvName(name string) string {
	if e.recvDir == "" {
		e.recvDir = fmt.Sprintf("c%d", recvSeq.Add(1))
	}
	return filepath.Join(e.recvDir, fmt.Sprintf("n%x", name))
}

// the companion record the receiver holds for `name` (nil when there is none)
func (e *sendExec) recvCompanion(name string) *sts.Partial {
	b, err := os.ReadFile(filepath.Join(recvRoot, "stage", e.recvName(name)+".cmp"))
	if err != nil {
		return nil
	}
	cmp := &sts.Partial{}
	if json.Unmarshal(b, cmp) != nil {
		return nil
	}
	return cmp
}

func (e *sendExec) doRRecv(name, hash string, beg, end int64) string {
	if err := recvInit(); err != nil {
		return "harness-error"
	}
	e.sawRecv = true
	p := &recvPart{name: e.recvName(name), hash: hash, beg: beg, end: end}
	recvStage.Prepare([]sts.Binned{p})
	err := recvStage.Receive(&sts.Partial{
		Name: p.name, Hash: hash, Size: recvFileSize, Time: marshal.NanoTime{Time: p.GetFileTime()},
		Parts: []*sts.ByteRange{{Beg: beg, End: end}},
	}, bytes.NewReader(make([]byte, end-beg)))
	if err != nil {
		return "err " + esc(err.Error())
	}
	cmp := e.recvCompanion(name)
	if cmp == nil || len(cmp.Parts) == 0 {
		return "rec -"
	}
	var s []string
	for _, r := range cmp.Parts {
		s = append(s, fmt.Sprintf("%d:%d", r.Beg, r.End))
	}
	return "rec " + strings.Join(s, " ")
}

func (e *sendExec) doRCount(toks []string) string {
	type q struct {
		name, hash string
		beg, ln    int64
	}
	var qs []q
	for _, t := range toks {
		f := strings.Split(t, ":")
		if len(f) != 4 {
			return "bad-op"
		}
		b, err1 := strconv.ParseInt(f[2], 10, 64)
		l, err2 := strconv.ParseInt(f[3], 10, 64)
		if err1 != nil || err2 != nil {
			return "bad-op"
		}
		qs = append(qs, q{unesc(f[0]), unesc(f[1]), b, l})
	}
	if err := recvInit(); err != nil {
		return "harness-error"
	}
	e.sawRecv = true
	var parts []sts.Binned
	for _, x := range qs {
		parts = append(parts, &recvPart{name: e.recvName(x.name), hash: x.hash, beg: x.beg, end: x.beg + x.ln})
	}
	n := recvStage.Received(parts)
	// oracle (Props/C08 received_counts_leading, received_leading_recorded): the count is the
	// length of the longest prefix of parts every byte of which is on the record the receiver holds
	onRecord := func(x q) bool {
		cmp := e.recvCompanion(x.name)
		if cmp == nil || cmp.Hash != x.hash || x.ln < 0 {
			return false
		}
		for b := x.beg; b < x.beg+x.ln; b++ {
			in := false
			for _, r := range cmp.Parts {
				if r.Beg <= b && b < r.End {
					in = true
					break
				}
			}
			if !in {
				return false
			}
		}
		return true
	}
	if n < 0 || n > len(qs) {
		e.failf("received-count-out-of-range: Received answered %d for %d parts", n, len(qs))
		return strconv.Itoa(n)
	}
	for i := 0; i < n; i++ {
		if !onRecord(qs[i]) {
			e.failf("received-count-not-recorded: Received answered %d but part %d (%s %d+%d) is not on the receiver's record", n, i, esc(qs[i].name), qs[i].beg, qs[i].ln)
		}
	}
	if n < len(qs) && onRecord(qs[n]) && qs[n].ln > 0 {
		e.failf("received-count-not-leading: Received answered %d but part %d is on record as well", n, n)
	}
	return strconv.Itoa(n)
}

func (e *sendExec) closeRecv() {
	// cases run one after the other: nothing else is using the shared root; Prepare re-creates
	// the directories it needs (MkdirAll)
	if e.recvDir != "" && recvRoot != "" {
		os.RemoveAll(recvRoot)
	}
}
