package main

import (
	"fmt"
	"os"
	"path/filepath"
	"sort"
	"strconv"
	"strings"
	"sync"
	"time"

	stslog "github.com/arm-doe/sts/log"
	"github.com/arm-doe/sts/stage"
)

// component "prune": stage/local.go Prune / pruneTree on a real directory tree (property C20,
// "removes only directories that are empty and old enough").
//
// One real stage.Stage (real log.FileIO) lives for the whole process; its root directory is
// <sandbox>/stage and its target directory <sandbox>/final.  Every case rebuilds the contents of the
// sandbox from its ops:
//
//	mkdir <path> <age>   create a directory (parent must be an existing directory, path must be new)
//	file  <path> <age>   create a file
//	chtime <path> <age>  change the recorded age of an existing entry
//	advance <secs>       let the model clock run
//	prune <minAgeSecs>   set EVERY mtime explicitly (creating an entry touches its parent), take `now`,
//	                     call the real Stage.Prune(minAge), answer the removed directories in the
//	                     order of the code's own "Prune: removed empty directory:" log lines
//	ls                   list what is on disk now (walk order) with kinds and recorded ages
//
// Paths are relative to the sandbox (`.` is the sandbox itself), ages are seconds before the model
// clock.  Time: the executor keeps a model clock `now` (seconds) and the model mtime of every entry;
// just before Prune it sets mtime(real) = T - (now - mtime(model)) for T = the wall clock truncated
// to the second.  The code then compares time.Since(mtime) = (now - mtime) + eps with minAge, where
// eps >= 0 is the run time of the call (well below a minute).  The generator never uses an age in the
// open interval (minAge - 55 s, minAge) (every minAge and every `advance` is a multiple of 60 s, every
// age is 0 or 5 modulo 60 s), and a call that takes more than 30 s is reported as a harness failure, so
// eps cannot flip a comparison; an age of exactly minAge is "old" for the code whatever eps is.  After the call every surviving entry's mtime is read back: it
// is either the value set (unchanged) or the wall clock of a removal below it (the model writes `now`).
type pruneComp struct{}

func init() { register(pruneComp{}) }

func (pruneComp) Name() string { return "prune" }
func (pruneComp) Rule() string {
	return "case = build a directory tree under the stage root and the target root (mkdir/file/chtime), then " +
		"prune/ls ops; non-trivial = at least one Prune call on a tree with >= 3 entries that removed at least one " +
		"directory and kept at least one directory below a root; distinct = by the full op sequence"
}

const pruneMargin = 60 // seconds: upper bound accepted for the run time of one Prune call (half of it is reported)

type pruneLogger struct {
	mu      sync.Mutex
	removed []string
	errors  []string
}

func (l *pruneLogger) Debug(...interface{}) {}
func (l *pruneLogger) Info(params ...interface{}) {
	// stage.logInfo: ["(name)", "Prune: removed empty directory:", dir]
	if len(params) == 3 {
		if s, ok := params[1].(string); ok && s == "Prune: removed empty directory:" {
			if d, ok := params[2].(string); ok {
				l.mu.Lock()
				l.removed = append(l.removed, d)
				l.mu.Unlock()
			}
		}
	}
}
func (l *pruneLogger) Error(params ...interface{}) {
	l.mu.Lock()
	l.errors = append(l.errors, fmt.Sprint(params...))
	l.mu.Unlock()
}
func (l *pruneLogger) Recent(int) []string { return nil }
func (l *pruneLogger) take() (rem, errs []string) {
	l.mu.Lock()
	defer l.mu.Unlock()
	rem, errs = l.removed, l.errors
	l.removed, l.errors = nil, nil
	return
}

var (
	pruneOnce    sync.Once
	pruneSandbox string // <tmp>/prune-XXXX/sb : holds only the tree of the current case
	pruneHome    string // <tmp>/prune-XXXX
	pruneStage   *stage.Stage
	pruneLog     = &pruneLogger{}
	pruneErr     error
	pruneCov     = map[string]int{}
)

func pruneInit() {
	pruneOnce.Do(func() {
		tmp := os.Getenv("VERIF_TMP")
		if tmp == "" {
			tmp = os.TempDir()
		}
		os.MkdirAll(tmp, 0o755)
		pruneHome, pruneErr = os.MkdirTemp(tmp, "prune-")
		if pruneErr != nil {
			return
		}
		pruneSandbox = filepath.Join(pruneHome, "sb")
		logdir := filepath.Join(pruneHome, "log")
		os.MkdirAll(logdir, 0o755)
		stslog.InitExternal(pruneLog)
		pruneStage = stage.New("verif-prune", filepath.Join(pruneSandbox, "stage"), filepath.Join(pruneSandbox, "final"),
			stslog.NewFileIO(logdir, nil, nil, true), nil, nil)
		// the periodic cleaner (cleanStrays/cleanWaiting every 30 minutes) must not touch the tree
		pruneStage.VerifStopTimers()
	})
}

type pruneEntry struct {
	isDir bool
	mtime int64 // model time (seconds)
}

type pruneExec struct {
	now     int64
	ents    map[string]*pruneEntry // key: path relative to the sandbox, "" = the sandbox itself
	fails   []string
	key     strings.Builder
	nontriv bool
}

func (pruneComp) NewExec() Exec {
	pruneInit()
	e := &pruneExec{ents: map[string]*pruneEntry{}}
	if pruneErr == nil {
		os.RemoveAll(pruneSandbox)
		if err := os.Mkdir(pruneSandbox, 0o755); err != nil {
			e.fails = append(e.fails, "harness: cannot create sandbox: "+err.Error())
		}
		e.ents[""] = &pruneEntry{isDir: true, mtime: 0}
	} else {
		e.fails = append(e.fails, "harness: "+pruneErr.Error())
	}
	pruneLog.take()
	return e
}

// pruneParsePath mirrors Sts.Drv.prParsePath?.
func pruneParsePath(tok string) (string, bool) {
	s := unesc(tok)
	if s == "." {
		return "", true
	}
	for _, seg := range strings.Split(s, "/") {
		if seg == "" || seg == "." || seg == ".." {
			return "", false
		}
	}
	return s, true
}

func pruneShowPath(p string) string {
	if p == "" {
		return "."
	}
	return esc(p)
}

func pruneParent(p string) string {
	i := strings.LastIndexByte(p, '/')
	if i < 0 {
		return ""
	}
	return p[:i]
}

// pruneSegLess is the order of filepath.Walk on relative paths: lexicographic on the segment lists.
func pruneSegLess(a, b string) bool {
	as, bs := strings.Split(a, "/"), strings.Split(b, "/")
	if a == "" {
		as = nil
	}
	if b == "" {
		bs = nil
	}
	for i := 0; i < len(as) && i < len(bs); i++ {
		if as[i] != bs[i] {
			return as[i] < bs[i]
		}
	}
	return len(as) < len(bs)
}

func pruneUnder(d, p string) bool { // p is d or below d
	return d == "" || p == d || strings.HasPrefix(p, d+"/")
}

// pruneDisk lists what exists below (and including) the sandbox, independent of filepath.Walk.
func pruneDisk() (map[string]os.FileInfo, error) {
	out := map[string]os.FileInfo{}
	var rec func(rel string) error
	rec = func(rel string) error {
		abs := filepath.Join(pruneSandbox, filepath.FromSlash(rel))
		fi, err := os.Lstat(abs)
		if err != nil {
			return err
		}
		out[rel] = fi
		if !fi.IsDir() {
			return nil
		}
		des, err := os.ReadDir(abs)
		if err != nil {
			return err
		}
		for _, de := range des {
			c := de.Name()
			if rel != "" {
				c = rel + "/" + c
			}
			if err := rec(c); err != nil {
				return err
			}
		}
		return nil
	}
	if err := rec(""); err != nil {
		return nil, err
	}
	return out, nil
}

func (e *pruneExec) Do(op []string) string {
	e.key.WriteString(strings.Join(op, " "))
	e.key.WriteByte(';')
	if pruneErr != nil {
		return "harness-error"
	}
	switch {
	case len(op) == 3 && (op[0] == "mkdir" || op[0] == "file" || op[0] == "chtime"):
		p, ok := pruneParsePath(op[1])
		age, err := strconv.ParseInt(op[2], 10, 64)
		if !ok || err != nil {
			return "bad-op"
		}
		if op[0] == "chtime" {
			en := e.ents[p]
			if en == nil {
				return "err"
			}
			en.mtime = e.now - age
			return "ok"
		}
		par := e.ents[pruneParent(p)]
		if p == "" || par == nil || !par.isDir || e.ents[p] != nil {
			return "err"
		}
		abs := filepath.Join(pruneSandbox, filepath.FromSlash(p))
		if op[0] == "mkdir" {
			if err := os.Mkdir(abs, 0o755); err != nil {
				return "harness-error " + esc(err.Error())
			}
		} else {
			if err := os.WriteFile(abs, []byte("x"), 0o644); err != nil {
				return "harness-error " + esc(err.Error())
			}
		}
		e.ents[p] = &pruneEntry{isDir: op[0] == "mkdir", mtime: e.now - age}
		return "ok"
	case len(op) == 2 && op[0] == "advance":
		n, err := strconv.ParseUint(op[1], 10, 62)
		if err != nil {
			return "bad-op"
		}
		e.now += int64(n)
		return "ok"
	case len(op) == 2 && op[0] == "prune":
		minAge, err := strconv.ParseInt(op[1], 10, 64)
		if err != nil {
			return "bad-op"
		}
		return e.doPrune(minAge)
	case len(op) == 1 && op[0] == "ls":
		disk, err := pruneDisk()
		if err != nil {
			return "harness-error " + esc(err.Error())
		}
		var ps []string
		for p := range disk {
			ps = append(ps, p)
		}
		sort.Slice(ps, func(i, j int) bool { return pruneSegLess(ps[i], ps[j]) })
		var out []string
		for _, p := range ps {
			k := "f"
			if disk[p].IsDir() {
				k = "d"
			}
			age := "?"
			if en := e.ents[p]; en != nil {
				age = strconv.FormatInt(e.now-en.mtime, 10)
			}
			out = append(out, pruneShowPath(p)+":"+k+":"+age)
		}
		return "ls " + strings.Join(out, " ")
	}
	return "bad-op"
}

func (e *pruneExec) doPrune(minAge int64) string {
	// 1. set every mtime explicitly, children first (order is irrelevant for utimes, which does not
	//    touch the parent; deepest first is just tidy)
	var ps []string
	for p := range e.ents {
		ps = append(ps, p)
	}
	sort.Slice(ps, func(i, j int) bool { return pruneSegLess(ps[j], ps[i]) })
	T := time.Now().Truncate(time.Second)
	set := map[string]time.Time{}
	for _, p := range ps {
		mt := T.Add(-time.Duration(e.now-e.ents[p].mtime) * time.Second)
		abs := filepath.Join(pruneSandbox, filepath.FromSlash(p))
		if err := os.Chtimes(abs, mt, mt); err != nil {
			return "harness-error " + esc(err.Error())
		}
		set[p] = mt
	}
	before := map[string]pruneEntry{}
	for p, en := range e.ents {
		before[p] = *en
	}
	pruneLog.take()
	// 2. the real call
	for p, en := range e.ents {
		if a := e.now - en.mtime; a > minAge-55 && a < minAge {
			e.fails = append(e.fails, fmt.Sprintf("harness: age %d s of %s is within 55 s below minAge %d s: the wall clock could flip the comparison", a, pruneShowPath(p), minAge))
		}
	}
	pruneStage.Prune(time.Duration(minAge) * time.Second)
	took := time.Since(T)
	logged, errs := pruneLog.take()
	if took > time.Duration(pruneMargin/2)*time.Second {
		e.fails = append(e.fails, fmt.Sprintf("harness: Prune took %v, more than half the age margin", took))
	}
	// 3. what is left
	disk, err := pruneDisk()
	if err != nil {
		return "harness-error " + esc(err.Error())
	}
	var removed []string
	for p := range before {
		if _, ok := disk[p]; !ok {
			removed = append(removed, p)
		}
	}
	sort.Slice(removed, func(i, j int) bool { return pruneSegLess(removed[i], removed[j]) })
	isRemoved := map[string]bool{}
	for _, p := range removed {
		isRemoved[p] = true
	}
	young := func(en pruneEntry) bool { return e.now-en.mtime < minAge }
	// ---- property oracle on the implementation's answers (Props/C20Prune.lean)
	for _, p := range removed {
		en := before[p]
		sp := pruneShowPath(p)
		if !pruneUnder("stage", p) && !pruneUnder("final", p) {
			e.fails = append(e.fails, fmt.Sprintf("prune-removed-outside: %s lies under neither root (prune %d)", sp, minAge))
		}
		if !en.isDir {
			// prune_never_removes_file
			e.fails = append(e.fails, fmt.Sprintf("prune-removed-file: %s was a file (prune %d)", sp, minAge))
			continue
		}
		if young(en) {
			// prune_never_removes_young
			e.fails = append(e.fails, fmt.Sprintf("prune-removed-young: directory %s was %d s old, younger than minAge %d s", sp, e.now-en.mtime, minAge))
		}
		for q, qe := range before {
			if q != p && pruneUnder(p, q) && p != "" {
				// prune_never_removes_dir_holding: a removed directory held only old directories
				if !qe.isDir {
					e.fails = append(e.fails, fmt.Sprintf("prune-removed-nonempty: directory %s held the file %s (prune %d)", sp, pruneShowPath(q), minAge))
				} else if young(qe) {
					e.fails = append(e.fails, fmt.Sprintf("prune-removed-nonempty: directory %s held the directory %s, %d s old, younger than minAge %d s", sp, pruneShowPath(q), e.now-qe.mtime, minAge))
				}
			}
		}
	}
	// prune_rest_unchanged: what is left keeps its kind; its mtime changes only if an entry directly below it went
	for p, fi := range disk {
		en, ok := before[p]
		if !ok {
			e.fails = append(e.fails, fmt.Sprintf("prune-changed-kept: %s appeared during prune %d", pruneShowPath(p), minAge))
			continue
		}
		if fi.IsDir() != en.isDir {
			e.fails = append(e.fails, fmt.Sprintf("prune-changed-kept: %s changed its kind during prune %d", pruneShowPath(p), minAge))
		}
		if !fi.ModTime().Equal(set[p]) {
			lost := false
			for _, r := range removed {
				if pruneParent(r) == p && r != "" {
					lost = true
				}
			}
			d := fi.ModTime().Sub(T)
			if !lost {
				e.fails = append(e.fails, fmt.Sprintf("prune-changed-kept: mtime of %s changed during prune %d although nothing directly below it was removed", pruneShowPath(p), minAge))
			} else if d < -2*time.Second || d > time.Duration(pruneMargin)*time.Second {
				// (the kernel stamps mtimes with its coarse clock, which may lag a few ms behind time.Now)
				e.fails = append(e.fails, fmt.Sprintf("harness: mtime of %s after a removal below it is %v away from the wall clock", pruneShowPath(p), d))
			}
			e.ents[p].mtime = e.now // the model writes `now`
		}
	}
	for _, p := range removed {
		delete(e.ents, p)
	}
	// ---- answer: the code's own log of removals, in its order
	var rel []string
	for _, d := range logged {
		r, err := filepath.Rel(pruneSandbox, d)
		if err != nil || strings.HasPrefix(r, "..") {
			rel = append(rel, "OUTSIDE:"+esc(d))
			e.fails = append(e.fails, "prune-removed-outside: the code logs the removal of "+esc(d))
			continue
		}
		rel = append(rel, pruneShowPath(filepath.ToSlash(r)))
	}
	ans := "removed " + strings.Join(rel, " ")
	if len(rel) == 0 {
		ans = "removed -"
	}
	// the log must tell the truth: same set as the difference of the two listings
	ls := append([]string(nil), rel...)
	sort.Strings(ls)
	var ds []string
	for _, p := range removed {
		ds = append(ds, pruneShowPath(p))
	}
	sort.Strings(ds)
	if strings.Join(ls, " ") != strings.Join(ds, " ") {
		ans += " !disk " + strings.Join(ds, " ")
	}
	if len(errs) > 0 {
		ans += fmt.Sprintf(" !errors %d", len(errs))
	}
	// ---- coverage bookkeeping
	e.coverage(before, isRemoved, minAge)
	return ans
}

func (e *pruneExec) coverage(before map[string]pruneEntry, removed map[string]bool, minAge int64) {
	young := func(en pruneEntry) bool { return e.now-en.mtime < minAge }
	nDirsBelow, kept, rem := 0, 0, 0
	if minAge == 0 {
		pruneCov["calls_minage_0"]++
	} else if minAge < 0 {
		pruneCov["calls_minage_negative"]++
	} else {
		pruneCov["calls_minage_positive"]++
	}
	for p, en := range before {
		if p == "" || !(pruneUnder("stage", p) || pruneUnder("final", p)) {
			continue
		}
		hasChild, allChildrenRemoved := false, true
		holdsFile, holdsYoung := false, false
		for q, qe := range before {
			if q != p && pruneUnder(p, q) {
				if pruneParent(q) == p {
					hasChild = true
					if !removed[q] {
						allChildrenRemoved = false
					}
				}
				if !qe.isDir {
					holdsFile = true
				} else if young(qe) {
					holdsYoung = true
				}
			}
		}
		if !en.isDir {
			if !young(en) {
				pruneCov["kept_old_file"]++
			}
			continue
		}
		nDirsBelow++
		if removed[p] {
			rem++
			if e.now-en.mtime == minAge {
				pruneCov["removed_exactly_minage"]++
			}
			if hasChild {
				pruneCov["removed_after_its_children"]++
			}
			if p == "stage" || p == "final" {
				pruneCov["removed_root"]++
			}
			continue
		}
		kept++
		switch {
		case young(en) && !hasChild:
			pruneCov["kept_young_empty"]++
		case young(en) && hasChild && allChildrenRemoved:
			pruneCov["kept_young_parent_emptied"]++ // the scenario of the upward-removal change
		case young(en):
			pruneCov["kept_young_nonempty"]++
		case holdsFile && holdsYoung:
			pruneCov["kept_old_holding_file_and_young"]++
		case holdsFile:
			pruneCov["kept_old_holding_file"]++
		case holdsYoung:
			pruneCov["kept_old_holding_young_dir"]++
		default:
			pruneCov["kept_old_other"]++ // must not happen on the unchanged code (the model agrees)
		}
		if e.now-en.mtime < 0 {
			pruneCov["kept_future_mtime"]++
		}
	}
	if len(before) >= 3 && rem > 0 && kept > 0 {
		e.nontriv = true
	}
}

func (e *pruneExec) Oracle() []string              { f := e.fails; e.fails = nil; return f }
func (e *pruneExec) Signature() (bool, string)     { return e.nontriv, e.key.String() }
func (e *pruneExec) Close()                        {}
func (pruneComp) ExtraStats() map[string]any {
	m := map[string]any{}
	for k, v := range pruneCov {
		m[k] = v
	}
	if pruneHome != "" {
		os.RemoveAll(pruneHome)
	}
	return m
}

func (pruneComp) AnswerClass(op []string, ans string) string {
	switch {
	case ans == "bad-op" || ans == "err" || ans == "ok":
		return op[0] + ":" + ans
	case strings.HasPrefix(ans, "removed"):
		f := strings.Fields(ans)
		n := len(f) - 1
		if ans == "removed -" {
			n = 0
		}
		if strings.Contains(ans, "!") {
			return "prune:log-disagrees-or-errors"
		}
		switch {
		case n == 0:
			return "prune:removed-0"
		case n == 1:
			return "prune:removed-1"
		case n <= 4:
			return "prune:removed-2..4"
		}
		return "prune:removed-5+"
	case strings.HasPrefix(ans, "ls"):
		return "ls"
	}
	return op[0] + ":other"
}

// ---------------------------------------------------------------- corpus and generator

func (pruneComp) Corpus() [][]string {
	day := 86400
	return [][]string{
		// the witness of Props/C20Prune.lean pruneTreeUp_removes_young_parent: a 5-second-old parent of a
		// 26-hour-old empty directory stays
		{"mkdir stage 0", "mkdir stage/src 5", "mkdir stage/src/old 93600", "mkdir final 0", "ls", "prune 86400", "ls"},
		// chains: old chain goes completely (root included), old chain under a young parent stops there
		{"mkdir stage 200000", "mkdir stage/a 200000", "mkdir stage/a/b 200000", "mkdir stage/a/b/c 200000",
			"mkdir final 100", "mkdir final/y 100", "mkdir final/y/a 200000", "mkdir final/y/a/b 200000", "ls", "prune 86400", "ls", "prune 86400", "ls"},
		// a young leaf or a file of any age protects every directory above it; siblings go
		{"mkdir stage 200000", "mkdir stage/a 200000", "mkdir stage/a/keep 60", "mkdir stage/a/go 200000", "mkdir stage/b 200000",
			"file stage/b/f 999999", "mkdir stage/b/go 200000", "mkdir stage/c 200000", "file stage/c/young 0", "ls", "prune 86400", "ls"},
		// exactly minAge is old; minAge - 60 is young
		{"mkdir stage 0", "mkdir stage/eq 3600", "mkdir stage/lt 3540", "mkdir stage/gt 3660", "mkdir final 3600", "ls", "prune 3600", "ls"},
		// minAge 0 (the default of the /prune route): every empty directory goes, except one dated in the future
		{"mkdir stage 0", "mkdir stage/a 0", "mkdir stage/a/b 0", "mkdir stage/f -3600", "mkdir stage/f/x 10", "file stage/g 0",
			"mkdir final 0", "ls", "prune 0", "ls", "prune 0", "ls"},
		// walk order is by segments, not by joined strings ('-' < '/'); the log shows the order
		{"mkdir stage 0", "mkdir stage/a 9000", "mkdir stage/a/c 9000", "mkdir stage/a-b 9000", "mkdir stage/a.b 9000", "mkdir stage/A 9000",
			"mkdir final 0", "mkdir final/z 9000", "mkdir final/%c3%a9 9000", "prune 3600", "ls"},
		// a parent touched by a removal is young for the next call; after a day it goes, too
		{"mkdir stage 0", "mkdir stage/p 200000", "mkdir stage/p/keep 10", "mkdir stage/p/go 200000", "mkdir final 0",
			"prune 86400", "ls", "advance 86400", "prune 86400", "ls", "advance 86400", "prune 86400", "ls"},
		// roots missing, a root that is a file, entries outside the roots
		{"mkdir other 200000", "mkdir other/x 200000", "file final 200000", "prune 0", "ls"},
		{"prune 0", "ls", "prune 86400"},
		// malformed
		{"mkdir stage", "mkdir stage//a 0", "mkdir ../x 0", "mkdir stage x", "prune", "prune x", "frob", "mkdir nope/a 0", "mkdir stage 0", "mkdir stage 0",
			"file stage/f 0", "mkdir stage/f/x 0", "chtime nope 0", "chtime stage/f 100", "advance -1", "advance 10", "ls", fmt.Sprintf("prune %d", day)},
	}
}

var pruneNames = []string{"a", "b", "c", "a-b", "a.b", "A", "aa", "0", "src", "x y", "é", "z"}

func (pruneComp) Generate(r *Rand, tier string, n int) [][]string {
	var cases [][]string
	for i := 0; i < n; i++ {
		cases = append(cases, pruneGenCase(r))
	}
	return cases
}

// pruneAge picks an age relative to minAge m, never inside (m-60, m).
func pruneAge(r *Rand, m int64, wantOld int) int64 {
	oldAges := []int64{m, m, m + 60, m + 3600, 2*m + 7200, m + 93600, 10 * 86400}
	youngAges := []int64{m - 60, m - 3600, m / 2, 5, 0, -3600, m - 86400}
	old := wantOld == 1 || (wantOld < 0 && r.Chance(0.6))
	for tries := 0; tries < 20; tries++ {
		var a int64
		if old {
			a = oldAges[r.Intn(len(oldAges))]
			if a >= m {
				return a
			}
		} else {
			a = youngAges[r.Intn(len(youngAges))]
			if a <= m-pruneMargin {
				return a
			}
		}
	}
	if old {
		return m
	}
	return m - 3600
}

func pruneGenCase(r *Rand) []string {
	minAges := []int64{0, 0, 60, 3600, 86400, 86400, 7 * 86400}
	m := minAges[r.Intn(len(minAges))]
	var ops []string
	if r.Chance(0.04) {
		// malformed stream mixed with valid ops
		bad := []string{"mkdir", "mkdir stage", "mkdir stage//a 0", "mkdir ./stage 0", "mkdir stage/../x 0", "file stage/a x",
			"prune", "prune 1.5", "advance x", "ls now", "rmdir stage", "chtime stage", "mkdir stage 0 0", "mkdir /stage 0", "mkdir stage/ 0"}
		ops = append(ops, "mkdir stage 0")
		for k := r.Range(2, 8); k > 0; k-- {
			if r.Chance(0.6) {
				ops = append(ops, bad[r.Intn(len(bad))])
			} else {
				ops = append(ops, fmt.Sprintf("mkdir stage/%s %d", esc(pruneNames[r.Intn(len(pruneNames))]), pruneAge(r, m, -1)))
			}
		}
		ops = append(ops, "ls", fmt.Sprintf("prune %d", m), "ls")
		return ops
	}
	made := map[string]bool{}
	mk := func(kind, p string, age int64) {
		if made[p] {
			return
		}
		made[p] = true
		ops = append(ops, fmt.Sprintf("%s %s %d", kind, esc(p), age))
	}
	var dirs []string // directories created so far (to hang things below)
	build := func(root string) {
		style := r.Intn(8)
		// the root: usually young (a live staging area), sometimes old, rarely missing or a file
		switch {
		case r.Chance(0.03):
			return // missing root
		case r.Chance(0.02):
			mk("file", root, pruneAge(r, m, -1))
			return
		}
		rootOld := -1
		if style == 3 {
			rootOld = 1
		}
		mk("mkdir", root, pruneAge(r, m, rootOld))
		dirs = append(dirs, root)
		if r.Chance(0.08) {
			return // depth 0: the root alone
		}
		name := func() string { return pruneNames[r.Intn(len(pruneNames))] }
		chain := func(from string, depth int, old int) string {
			p := from
			for d := 0; d < depth; d++ {
				p = p + "/" + name()
				mk("mkdir", p, pruneAge(r, m, old))
				dirs = append(dirs, p)
			}
			return p
		}
		switch style {
		case 0: // old empty chain under a young parent
			par := chain(root, r.Range(0, 2), -1)
			y := par + "/" + name()
			mk("mkdir", y, pruneAge(r, m, 0))
			dirs = append(dirs, y)
			for k := r.Range(1, 3); k > 0; k-- {
				chain(y, r.Range(1, 3), 1)
			}
		case 1: // young leaf (or file) under old parents
			p := chain(root, r.Range(1, 3), 1)
			if r.Chance(0.5) {
				mk("mkdir", p+"/"+name(), pruneAge(r, m, 0))
			} else {
				mk("file", p+"/"+name(), pruneAge(r, m, -1))
			}
			chain(root, r.Range(1, 3), 1)
		case 2, 3: // everything old: whole chains go (style 3: the root as well)
			for k := r.Range(1, 3); k > 0; k-- {
				chain(dirs[r.Intn(len(dirs))], r.Range(1, 3), 1)
			}
		}
		// random growth, depth limited to 4 below the root
		for k := r.Range(0, 7); k > 0; k-- {
			par := dirs[r.Intn(len(dirs))]
			if !strings.HasPrefix(par, root) || strings.Count(par, "/") >= 4 {
				continue
			}
			p := par + "/" + name()
			if r.Chance(0.25) {
				mk("file", p, pruneAge(r, m, -1))
			} else {
				mk("mkdir", p, pruneAge(r, m, -1))
				dirs = append(dirs, p)
			}
		}
	}
	if r.Chance(0.5) {
		build("stage")
		build("final")
	} else {
		build("final")
		build("stage")
	}
	if r.Chance(0.1) {
		mk("mkdir", "other", pruneAge(r, m, 1))
		mk("mkdir", "other/old", pruneAge(r, m, 1))
	}
	for k := r.Range(0, 2); k > 0 && len(dirs) > 0; k-- {
		ops = append(ops, fmt.Sprintf("chtime %s %d", esc(dirs[r.Intn(len(dirs))]), pruneAge(r, m, -1)))
	}
	if r.Chance(0.5) {
		ops = append(ops, "ls")
	}
	ops = append(ops, fmt.Sprintf("prune %d", m), "ls")
	// follow-ups: the same call again, a later call, another threshold, new entries in between
	for k := r.Range(0, 3); k > 0; k-- {
		switch r.Intn(5) {
		case 0:
			ops = append(ops, fmt.Sprintf("prune %d", m), "ls")
		case 1:
			adv := []int64{60, 3600, m, m + 60, 86400}[r.Intn(5)]
			if adv > 0 && adv < pruneMargin {
				adv = pruneMargin
			}
			// advancing by a makes every age a larger; keep ages out of (m-60, m): only whole multiples of 60 are used
			ops = append(ops, fmt.Sprintf("advance %d", adv), fmt.Sprintf("prune %d", m), "ls")
		case 2:
			m2 := minAges[r.Intn(len(minAges))]
			ops = append(ops, fmt.Sprintf("prune %d", m2), "ls")
		case 3:
			if len(dirs) > 0 {
				par := dirs[r.Intn(len(dirs))]
				ops = append(ops, fmt.Sprintf("mkdir %s %d", esc(par+"/"+pruneNames[r.Intn(len(pruneNames))]), pruneAge(r, m, -1)))
			}
			ops = append(ops, fmt.Sprintf("prune %d", m), "ls")
		case 4:
			ops = append(ops, "prune 0", "ls")
		}
	}
	return ops
}
