package main

import (
	"flag"
	"fmt"
	"os"
	"sort"
)

var components = map[string]Component{}

func register(c Component) { components[c.Name()] = c }

func usage() {
	names := []string{}
	for n := range components {
		names = append(names, n)
	}
	sort.Strings(names)
	fmt.Fprintln(os.Stderr, "usage: harness run  <component> -seed S -n N -tier quick|thorough -out DIR")
	fmt.Fprintln(os.Stderr, "       harness exec <component> -in ops.txt -out DIR")
	fmt.Fprintln(os.Stderr, "components:", names)
	os.Exit(2)
}

func main() {
	if len(os.Args) < 3 {
		usage()
	}
	mode, name := os.Args[1], os.Args[2]
	c, ok := components[name]
	if !ok {
		usage()
	}
	fs := flag.NewFlagSet(mode, flag.ExitOnError)
	seed := fs.Uint64("seed", 1, "PRNG seed")
	n := fs.Int("n", 100, "number of generated cases")
	tier := fs.String("tier", "quick", "quick|thorough")
	out := fs.String("out", "", "output directory")
	in := fs.String("in", "", "ops file (exec mode)")
	fs.Parse(os.Args[3:])
	if *out == "" {
		usage()
	}
	var cases [][]string
	switch mode {
	case "run":
		cases = append(cases, c.Corpus()...)
		cases = append(cases, c.Generate(NewRand(*seed), *tier, *n)...)
	case "exec":
		var err error
		if cases, err = readCases(*in); err != nil {
			fmt.Fprintln(os.Stderr, err)
			os.Exit(2)
		}
	default:
		usage()
	}
	if err := runCases(c, cases, *seed, *tier, *out); err != nil {
		fmt.Fprintln(os.Stderr, err)
		os.Exit(2)
	}
}
