package main

import (
	"errors"
	"fmt"
	"reflect"
	"runtime"
	"sort"
	"strconv"
	"strings"
	"sync"
	"time"

	"github.com/arm-doe/sts"
	"github.com/arm-doe/sts/client"
	stslog "github.com/arm-doe/sts/log"
	"github.com/arm-doe/sts/payload"
)

// component "send": the REAL client.Broker startSend / handleSendError / startTrack (through
// client/verif_export_send.go) over the REAL payload.Bin, with a scripted Transmitter and
// TxRecoverer, a stub Cache/Store answering the "file left the cache or changed" test, and a
// recording Logger.  Property: C08.
//
// ops (one case = one sender history):
//
//	payload <capacity> <name:hash:filesize:sendsize:beg:len>...   build a Bin (NewBin + Add)
//	tx  ok|fail:<n> ...        Transmitter script of the last payload (then `ok` for ever)
//	rc  ok:<n>|err ...         TxRecoverer script of the last payload (then `ok:0` for ever)
//	gone <name>:<round>:<cache|changed|syncerr> ...   file is gone from failure round on
//	send <threads>             run startSend goroutines over the declared payloads
//	track                      feed the forwarded payloads (canonical order) to startTrack
//	rrecv / rcount             receiver side, see send_recv.go
type sendComp struct{}

func init() { register(sendComp{}) }

func (sendComp) Name() string { return "send" }
func (sendComp) Rule() string {
	return "case = payloads with Transmitter/TxRecoverer scripts and gone files, run through startSend and startTrack; " +
		"non-trivial = at least one failed transmission, at least one payload forwarded and the tracker run (or, for the receiver-side cases, at least one rrecv/rcount executed); " +
		"distinct = by the full op sequence"
}

var sendLogOnce sync.Once

// ---------------------------------------------------------------- executor

type sendPartSpec struct {
	id       int
	name     string
	hash     string
	fileSize int64
	sendSize int64
	beg      int64
	ln       int64 // as binned
}

type goneSpec struct {
	round int
	kind  string
}

type txAns struct {
	ok bool
	n  int
}
type rcAns struct {
	err bool
	n   int
}

type sendAttempt struct {
	ids   []int
	ans   txAns
	rcIds [][]int
	rc    []rcAns
}

type sendFwd struct {
	ids  []int
	size int64
	ptr  sts.Payload
}

type sendPay struct {
	idx   int
	bin   sts.Payload
	parts map[int]*sendPartSpec // by id, as binned
	order []int                 // ids in bin order
	tx    []txAns
	rc    []rcAns
	gone  map[string]goneSpec

	txPos, rcPos int
	nFail        int
	attempts     []*sendAttempt
	fwds         []*sendFwd
}

type sentRec struct {
	name, hash string
	size, sent int64
}

type sendExec struct {
	mu      sync.Mutex
	cond    *sync.Cond
	pays    []*sendPay // declared, not yet sent
	all     []*sendPay
	next    int
	fwdQ    []*sendFwd // forwarded, not yet tracked
	fwdPay  map[*sendFwd]*sendPay
	byPtr   map[sts.Payload]*sendPay
	byGo    map[uint64]*sendPay
	fails   []string
	key     strings.Builder
	sawFail bool
	sawFwd  bool
	sawTrk  bool
	sawRecv bool
	recvDir string

	// tracker
	trk       *client.VerifSendRig
	trkDone   chan struct{}
	nTrk      int
	curPart   *sendPartSpec            // part the tracker is at (OnPrev)
	fedParts  []*sendPartSpec          // parts reached by the tracker so far, in order
	sentLog   []sentRec                // since last reset by track step
	live      map[any]bool             // entries logged as Sent and not handed off yet
	everSent  map[any]bool             // entries ever logged
	handed    []string                 // name:hash handed to the validator in this step
	handedPtr map[any]int              // how often an entry pointer was handed over
	sentinels map[string]bool          // sentinel names seen by Logger.Sent
	trkParts  map[string]*sendPartSpec // tracker part id -> spec
}

func (sendComp) NewExec() Exec {
	sendLogOnce.Do(func() {
		if stslog.Get() == nil {
			stslog.InitExternal(quietLogger{})
		}
	})
	e := &sendExec{
		fwdPay: map[*sendFwd]*sendPay{}, byPtr: map[sts.Payload]*sendPay{}, byGo: map[uint64]*sendPay{},
		live: map[any]bool{}, everSent: map[any]bool{}, handedPtr: map[any]int{},
		sentinels: map[string]bool{}, trkParts: map[string]*sendPartSpec{},
	}
	e.cond = sync.NewCond(&e.mu)
	return e
}

func goid() uint64 {
	var buf [64]byte
	n := runtime.Stack(buf[:], false)
	f := strings.Fields(string(buf[:n]))
	if len(f) < 2 {
		return 0
	}
	id, _ := strconv.ParseUint(f[1], 10, 64)
	return id
}

func (e *sendExec) failf(format string, a ...any) {
	e.fails = append(e.fails, fmt.Sprintf(format, a...))
}

// part id as carried by Binned.GetRenamed: "<payload>.<index>"
func parsePartID(s string) (int, int, bool) {
	a, b, ok := strings.Cut(s, ".")
	if !ok {
		return 0, 0, false
	}
	x, err1 := strconv.Atoi(a)
	y, err2 := strconv.Atoi(b)
	return x, y, err1 == nil && err2 == nil
}

func idsOf(p sts.Payload) (pay int, ids []int) {
	pay = -1
	defer func() {
		if r := recover(); r != nil {
			ids = append(ids, -2) // a corrupt payload (nil part): reported by the oracles as unknown part
		}
	}()
	for _, b := range p.GetParts() {
		if b == nil || reflect.ValueOf(b).IsNil() {
			ids = append(ids, -2)
			continue
		}
		k, i, ok := parsePartID(b.GetRenamed())
		if !ok {
			ids = append(ids, -1)
			continue
		}
		pay = k
		ids = append(ids, i)
	}
	return
}

func fmtIDs(ids []int) string {
	if len(ids) == 0 {
		return "-"
	}
	s := make([]string, len(ids))
	for i, v := range ids {
		s[i] = strconv.Itoa(v)
	}
	return strings.Join(s, ",")
}

func (e *sendExec) payOf(p sts.Payload) *sendPay {
	if sp, ok := e.byPtr[p]; ok {
		return sp
	}
	k, _ := idsOf(p)
	if k >= 0 && k < len(e.all) {
		return e.all[k]
	}
	return nil
}

// --- the stubs handed to client.Conf

func (e *sendExec) transmit(p sts.Payload) (int, error) {
	e.mu.Lock()
	defer e.mu.Unlock()
	sp := e.payOf(p)
	if sp == nil {
		e.failf("harness: transmission of an unknown payload")
		return 0, nil
	}
	e.byGo[goid()] = sp
	_, ids := idsOf(p)
	ans := txAns{ok: true}
	if sp.txPos < len(sp.tx) {
		ans = sp.tx[sp.txPos]
		sp.txPos++
	}
	sp.attempts = append(sp.attempts, &sendAttempt{ids: ids, ans: ans})
	if ans.ok {
		return len(ids), nil
	}
	sp.nFail++
	e.sawFail = true
	return ans.n, errors.New("scripted transmission failure")
}

func (e *sendExec) recoverTx(p sts.Payload) (int, error) {
	e.mu.Lock()
	defer e.mu.Unlock()
	sp := e.payOf(p)
	if sp == nil || len(sp.attempts) == 0 {
		e.failf("harness: recovery request for an unknown payload")
		return 0, nil
	}
	_, ids := idsOf(p)
	ans := rcAns{n: 0}
	if sp.rcPos < len(sp.rc) {
		ans = sp.rc[sp.rcPos]
		sp.rcPos++
	}
	a := sp.attempts[len(sp.attempts)-1]
	a.rc = append(a.rc, ans)
	a.rcIds = append(a.rcIds, ids)
	if ans.err {
		return 0, errors.New("scripted recovery failure")
	}
	return ans.n, nil
}

type sendCached struct {
	name string
}

func (f *sendCached) GetPath() string    { return f.name }
func (f *sendCached) GetName() string    { return f.name }
func (f *sendCached) GetSize() int64     { return 0 }
func (f *sendCached) GetTime() time.Time { return time.Unix(1700000000, 0) }
func (f *sendCached) GetMeta() []byte    { return nil }
func (f *sendCached) GetHash() string    { return "" }
func (f *sendCached) IsDone() bool       { return false }

// goneNow: is `name` gone at the failure round the calling goroutine's payload is in
func (e *sendExec) goneNow(name string) (bool, string) {
	e.mu.Lock()
	defer e.mu.Unlock()
	sp := e.byGo[goid()]
	if sp == nil {
		return false, ""
	}
	g, ok := sp.gone[name]
	if ok && g.round <= sp.nFail-1 {
		return true, g.kind
	}
	return false, ""
}

type sendCache struct{ e *sendExec }

func (c sendCache) Iterate(func(sts.Cached) bool) {}
func (c sendCache) Get(name string) sts.Cached {
	if g, kind := c.e.goneNow(name); g && kind == "cache" {
		return nil
	}
	return &sendCached{name: name}
}
func (c sendCache) Add(sts.Hashed)                {}
func (c sendCache) Done(string, func(sts.Cached)) {}
func (c sendCache) Reset(string)                  {}
func (c sendCache) Remove(string)                 {}
func (c sendCache) Persist() error                { return nil }

type sendStore struct{ e *sendExec }

func (s sendStore) Scan(func(sts.File) bool) ([]sts.File, time.Time, error) {
	return nil, time.Time{}, nil
}
func (s sendStore) GetOpener() sts.Open   { return nil }
func (s sendStore) Remove(sts.File) error { return nil }
func (s sendStore) Sync(f sts.File) (sts.File, error) {
	g, kind := s.e.goneNow(f.GetName())
	if g && kind == "changed" {
		return f, nil
	}
	if g && kind == "syncerr" {
		return nil, errors.New("scripted sync failure")
	}
	return nil, nil
}
func (s sendStore) IsNotExist(error) bool      { return false }
func (s sendStore) ShouldIgnore(sts.File) bool { return false }

type sendLogger struct{ e *sendExec }

const sentinelPrefix = "\x00sentinel-"

func (l sendLogger) Sent(s sts.Sent) {
	e := l.e
	name, hash, sent, size, ok := client.VerifProgress(s)
	e.mu.Lock()
	defer e.mu.Unlock()
	if !ok {
		e.failf("harness: Logger.Sent got %T", s)
		return
	}
	if strings.HasPrefix(name, sentinelPrefix) {
		e.sentinels[name] = true
		e.live[any(s)] = true
		e.cond.Broadcast()
		return
	}
	e.sentLog = append(e.sentLog, sentRec{name, hash, size, sent})
	e.live[any(s)] = true
	e.everSent[any(s)] = true
	// oracle (Props/C08 logged_only_when_counted_reaches_size / sent_only_when_all_bytes)
	e.oracleSent(name, hash, size)
}
func (l sendLogger) WasSent(string, string, time.Time, time.Time) bool { return false }

func (e *sendExec) conf(threads int) *client.Conf {
	return &client.Conf{
		Name:        "verif",
		Store:       sendStore{e},
		Cache:       sendCache{e},
		Transmitter: e.transmit,
		TxRecoverer: e.recoverTx,
		Logger:      sendLogger{e},
		Threads:     threads,
		// ErrorBackoff 0: applyErrorBackoff returns at once
	}
}

// ---------------------------------------------------------------- ops

func parseSendPart(i int, tok string) (*sendPartSpec, bool) {
	f := strings.Split(tok, ":")
	if len(f) != 6 {
		return nil, false
	}
	var v [4]int64
	for k := 0; k < 4; k++ {
		x, err := strconv.ParseInt(f[2+k], 10, 64)
		if err != nil {
			return nil, false
		}
		v[k] = x
	}
	return &sendPartSpec{id: i, name: unesc(f[0]), hash: unesc(f[1]), fileSize: v[0], sendSize: v[1], beg: v[2], ln: v[3]}, true
}

func (e *sendExec) last() *sendPay {
	if len(e.pays) == 0 {
		return nil
	}
	return e.pays[len(e.pays)-1]
}

func (e *sendExec) Do(op []string) string {
	e.key.WriteString(strings.Join(op, " "))
	e.key.WriteByte(';')
	switch {
	case len(op) >= 2 && op[0] == "payload":
		cap64, err := strconv.ParseInt(op[1], 10, 64)
		if err != nil {
			return "bad-op"
		}
		var specs []*sendPartSpec
		for i, t := range op[2:] {
			s, ok := parseSendPart(i, t)
			if !ok {
				return "bad-op"
			}
			specs = append(specs, s)
		}
		return e.doPayload(cap64, specs)
	case len(op) >= 1 && op[0] == "tx":
		var l []txAns
		for _, t := range op[1:] {
			switch {
			case t == "ok":
				l = append(l, txAns{ok: true})
			case strings.HasPrefix(t, "fail:"):
				n, err := strconv.Atoi(t[5:])
				if err != nil {
					return "bad-op"
				}
				l = append(l, txAns{n: n})
			default:
				return "bad-op"
			}
		}
		if e.last() == nil {
			return "bad-op"
		}
		e.last().tx = l
		return "ok"
	case len(op) >= 1 && op[0] == "rc":
		var l []rcAns
		for _, t := range op[1:] {
			switch {
			case t == "err":
				l = append(l, rcAns{err: true})
			case strings.HasPrefix(t, "ok:"):
				n, err := strconv.Atoi(t[3:])
				if err != nil {
					return "bad-op"
				}
				l = append(l, rcAns{n: n})
			default:
				return "bad-op"
			}
		}
		if e.last() == nil {
			return "bad-op"
		}
		e.last().rc = l
		return "ok"
	case len(op) >= 1 && op[0] == "gone":
		// the model keeps a list and asks "any entry (name, k) with k ≤ round"; so does this map
		// with the smallest round per name; the kind of the smallest round decides the stub used
		g := map[string]goneSpec{}
		for _, t := range op[1:] {
			f := strings.Split(t, ":")
			if len(f) != 3 || (f[2] != "cache" && f[2] != "changed" && f[2] != "syncerr") {
				return "bad-op"
			}
			k, err := strconv.ParseUint(f[1], 10, 31)
			if err != nil {
				return "bad-op"
			}
			name := unesc(f[0])
			if old, ok := g[name]; !ok || int(k) < old.round {
				g[name] = goneSpec{round: int(k), kind: f[2]}
			}
		}
		if e.last() == nil {
			return "bad-op"
		}
		e.last().gone = g
		return "ok"
	case len(op) == 2 && op[0] == "send":
		n, err := strconv.ParseUint(op[1], 10, 31)
		if err != nil || n < 1 || n > 8 {
			return "bad-op"
		}
		return e.doSend(int(n))
	case len(op) == 1 && op[0] == "track":
		return e.doTrack()
	case len(op) == 5 && op[0] == "rrecv":
		b, err1 := strconv.ParseInt(op[3], 10, 64)
		en, err2 := strconv.ParseInt(op[4], 10, 64)
		if err1 != nil || err2 != nil || b < 0 || en < b || en > 1000 {
			return "bad-op"
		}
		return e.doRRecv(unesc(op[1]), unesc(op[2]), b, en)
	case len(op) >= 1 && op[0] == "rcount":
		return e.doRCount(op[1:])
	}
	return "bad-op"
}

func (e *sendExec) doPayload(capacity int64, specs []*sendPartSpec) string {
	k := e.next
	e.next++
	bin := payload.NewBin(capacity, nil, func(f sts.File) string { return client.VerifSendID(f) })
	sp := &sendPay{idx: k, bin: bin, parts: map[int]*sendPartSpec{}, gone: map[string]goneSpec{}}
	for _, s := range specs {
		id := fmt.Sprintf("%d.%d", k, s.id)
		bin.Add(client.VerifSendBinnable(client.VerifSendPart{
			ID: id, Name: s.name, Hash: s.hash, FileSize: s.fileSize, SendSize: s.sendSize, Beg: s.beg, Len: s.ln,
			OnPrev: e.onPrev,
		}))
	}
	// what the real Bin holds now
	var items []string
	for _, b := range bin.GetParts() {
		_, i, ok := parsePartID(b.GetRenamed())
		if !ok || i >= len(specs) {
			return "harness-error"
		}
		beg, ln := b.GetSlice()
		s := *specs[i]
		s.beg, s.ln = beg, ln
		if b.GetName() != s.name || b.GetFileHash() != s.hash || b.GetFileSize() != s.fileSize || b.GetSendSize() != s.sendSize {
			return "harness-error"
		}
		sp.parts[i] = &s
		sp.order = append(sp.order, i)
		e.trkParts[fmt.Sprintf("%d.%d", k, i)] = &s
		items = append(items, fmt.Sprintf("%d:%s:%d:%d", i, esc(s.name), beg, ln))
	}
	e.pays = append(e.pays, sp)
	e.all = append(e.all, sp)
	e.byPtr[bin] = sp
	parts := "-"
	if len(items) > 0 {
		parts = strings.Join(items, " ")
	}
	return fmt.Sprintf("P%d %d %s", k, bin.GetSize(), parts)
}

func (e *sendExec) doSend(threads int) string {
	if len(e.pays) == 0 {
		return "-"
	}
	rig := client.VerifNewSendRig(e.conf(threads))
	var wg sync.WaitGroup
	var statPtrs []sts.Payload
	wg.Add(2)
	go func() {
		defer wg.Done()
		for p := range rig.Transmitted() {
			if p == nil || reflect.ValueOf(p).IsNil() {
				e.mu.Lock()
				e.failf("forwarded-nil: a nil payload was put on the channel to the tracker")
				e.mu.Unlock()
				continue
			}
			// snapshot: the bin is not touched by the sender after it was forwarded
			_, ids := idsOf(p)
			e.mu.Lock()
			sp := e.payOf(p)
			f := &sendFwd{ids: ids, size: p.GetSize(), ptr: p}
			if sp == nil {
				e.failf("harness: forwarded payload of unknown origin")
			} else {
				sp.fwds = append(sp.fwds, f)
				e.fwdPay[f] = sp
			}
			e.mu.Unlock()
		}
	}()
	go func() {
		defer wg.Done()
		for p := range rig.Stats() {
			statPtrs = append(statPtrs, p)
		}
	}()
	rig.StartSend(threads)
	batch := e.pays
	e.pays = nil
	for _, sp := range batch {
		rig.Transmit(sp.bin)
	}
	rig.CloseTransmit()
	rig.WaitSend()
	rig.CloseTransmitted()
	rig.CloseStats()
	wg.Wait()
	if ps := rig.Panics(); len(ps) > 0 {
		e.mu.Lock()
		e.failf("sender-panic: a startSend goroutine panicked (%s); its payload is abandoned", ps[0])
		e.mu.Unlock()
		return "panic " + esc(ps[0])
	}

	e.mu.Lock()
	defer e.mu.Unlock()
	var lines []string
	nf := 0
	for _, sp := range batch {
		e.oracleSend(sp)
		lines = append(lines, e.fmtSend(sp))
		for _, f := range sp.fwds {
			e.fwdQ = append(e.fwdQ, f)
			nf++
			e.sawFwd = true
		}
	}
	// every forwarded payload went through stat() exactly once
	if len(statPtrs) != nf {
		e.failf("stat-mismatch: %d payloads forwarded, %d reported to the statistics channel", nf, len(statPtrs))
	}
	return strings.Join(lines, " ; ")
}

func (e *sendExec) fmtSend(sp *sendPay) string {
	var atts []string
	for _, a := range sp.attempts {
		s := fmtIDs(a.ids) + ">"
		if a.ans.ok {
			s += "ok"
		} else {
			s += "fail:" + strconv.Itoa(a.ans.n)
		}
		if len(a.rc) > 0 {
			var r []string
			for _, x := range a.rc {
				if x.err {
					r = append(r, "err")
				} else {
					r = append(r, "ok:"+strconv.Itoa(x.n))
				}
			}
			s += ">" + strings.Join(r, ",")
		}
		atts = append(atts, s)
	}
	var fw []string
	forwarded := map[int]bool{}
	for _, f := range sp.fwds {
		fw = append(fw, fmt.Sprintf("%s:%d", fmtIDs(f.ids), f.size))
		for _, i := range f.ids {
			forwarded[i] = true
		}
	}
	// dropped = binned and never forwarded (the loop has ended, nothing is pending)
	var drop []int
	for _, i := range sp.order {
		if !forwarded[i] {
			drop = append(drop, i)
		}
	}
	sort.Ints(drop)
	j := func(x []string) string {
		if len(x) == 0 {
			return "-"
		}
		return strings.Join(x, "|")
	}
	return fmt.Sprintf("P%d tx=%s fwd=%s drop=%s", sp.idx, j(atts), j(fw), fmtIDs(drop))
}

func sameIDs(a, b []int) bool {
	if len(a) != len(b) {
		return false
	}
	for i := range a {
		if a[i] != b[i] {
			return false
		}
	}
	return true
}

func sameMultiset(a, b []int) bool {
	if len(a) != len(b) {
		return false
	}
	x := append([]int(nil), a...)
	y := append([]int(nil), b...)
	sort.Ints(x)
	sort.Ints(y)
	return sameIDs(x, y)
}

// reported count of a failed attempt: from the answer, else from the recovery request
func (a *sendAttempt) reported() (int, bool) {
	if a.ans.n != 0 {
		return a.ans.n, true
	}
	if len(a.rc) == 0 || a.rc[len(a.rc)-1].err {
		return 0, false
	}
	return a.rc[len(a.rc)-1].n, true
}

// oracleSend restates Props/C08 on what the implementation did with one payload:
// forwarded_only_acknowledged, remainder_and_only_remainder, no_part_abandoned,
// recovery_asked_iff_no_count.
func (e *sendExec) oracleSend(sp *sendPay) {
	P := fmt.Sprintf("payload %d", sp.idx)
	if len(sp.attempts) == 0 {
		e.failf("not-transmitted: %s was never handed to the Transmitter", P)
		return
	}
	if !sameIDs(sp.attempts[0].ids, sp.order) {
		e.failf("first-transmission: %s holds parts %s but %s were transmitted", P, fmtIDs(sp.order), fmtIDs(sp.attempts[0].ids))
	}
	goneAt := func(id, round int) bool {
		s := sp.parts[id]
		if s == nil {
			return false
		}
		g, ok := sp.gone[s.name]
		return ok && g.round <= round
	}
	for i, a := range sp.attempts {
		lastOne := i == len(sp.attempts)-1
		if a.ans.ok {
			if len(a.rc) > 0 {
				e.failf("recovery-after-ok: %s transmission %d was answered ok and a recovery request followed", P, i)
			}
			if !lastOne {
				e.failf("resent-after-ok: %s transmission %d (%s) was answered ok and %s was transmitted afterwards", P, i, fmtIDs(a.ids), fmtIDs(sp.attempts[i+1].ids))
			}
			continue
		}
		for _, r := range a.rcIds {
			if !sameIDs(r, a.ids) {
				e.failf("recovery-about-other-parts: %s recovery request named %s after the failed transmission of %s", P, fmtIDs(r), fmtIDs(a.ids))
			}
		}
		if a.ans.n != 0 && len(a.rc) > 0 {
			e.failf("recovery-despite-count: %s the answer reported %d parts and the recovery request was made all the same", P, a.ans.n)
		}
		k, ok := a.reported()
		if !ok {
			e.failf("recovery-unanswered: %s failed transmission %d went on without an answered recovery request", P, i)
			continue
		}
		for j, x := range a.rc {
			if !x.err && j != len(a.rc)-1 {
				e.failf("recovery-repeated: %s a recovery request was made after one had been answered", P)
			}
		}
		var rem []int
		switch {
		case k <= 0:
			rem = append(rem, a.ids...)
		case k < len(a.ids):
			rem = append(rem, a.ids[k:]...)
		}
		var exp []int
		for _, id := range rem {
			if !goneAt(id, i) {
				exp = append(exp, id)
			}
		}
		if lastOne {
			if len(exp) > 0 {
				e.failf("abandoned: %s after the failure of %s with reported count %d the parts %s were not transmitted again", P, fmtIDs(a.ids), k, fmtIDs(exp))
			}
			continue
		}
		nx := sp.attempts[i+1].ids
		if !sameMultiset(nx, exp) {
			e.failf("retransmitted-not-remainder: %s after the failure of %s with reported count %d the next transmission is %s, the unacknowledged remainder is %s", P, fmtIDs(a.ids), k, fmtIDs(nx), fmtIDs(exp))
		}
	}
	// forwarded ⊆ acknowledged, each acknowledgement used once
	used := map[int]bool{}
	seen := map[int]bool{}
	for _, f := range sp.fwds {
		just := false
		for i, a := range sp.attempts {
			if used[i] {
				continue
			}
			if a.ans.ok {
				if sameIDs(f.ids, a.ids) {
					used[i], just = true, true
					break
				}
				continue
			}
			k, ok := a.reported()
			if !ok || k <= 0 {
				continue
			}
			head := a.ids
			if k < len(a.ids) {
				head = a.ids[:k]
			}
			if sameIDs(f.ids, head) {
				used[i], just = true, true
				break
			}
		}
		if !just {
			e.failf("forwarded-unacknowledged: %s parts %s were forwarded to the tracker but no transmission acknowledged exactly them (transmissions: %s)", P, fmtIDs(f.ids), e.attemptsStr(sp))
		}
		var sz int64
		for _, id := range f.ids {
			if seen[id] {
				e.failf("forwarded-twice: %s part %d reached the tracker twice", P, id)
			}
			seen[id] = true
			if s := sp.parts[id]; s != nil {
				sz += s.ln
			}
		}
		if sz != f.size {
			e.failf("split-bytes: %s forwarded parts %s hold %d bytes but the payload says %d", P, fmtIDs(f.ids), sz, f.size)
		}
	}
	// every acknowledgement led to a forward
	for i, a := range sp.attempts {
		if used[i] {
			continue
		}
		if k, ok := a.reported(); a.ans.ok || (ok && k > 0) {
			e.failf("acknowledged-not-forwarded: %s transmission %d (%s) was acknowledged (count %d) but nothing was forwarded for it", P, i, fmtIDs(a.ids), k)
		}
	}
	// nothing skipped or abandoned
	lastRound := sp.nFail - 1
	for _, id := range sp.order {
		if seen[id] {
			continue
		}
		if !goneAt(id, lastRound) {
			e.failf("abandoned: %s part %d was neither forwarded nor belongs to a file that is gone", P, id)
		}
	}
}

func (e *sendExec) attemptsStr(sp *sendPay) string {
	var s []string
	for _, a := range sp.attempts {
		if a.ans.ok {
			s = append(s, fmtIDs(a.ids)+">ok")
		} else {
			k, _ := a.reported()
			s = append(s, fmt.Sprintf("%s>fail(count %d)", fmtIDs(a.ids), k))
		}
	}
	return strings.Join(s, " | ")
}

// ---------------------------------------------------------------- tracker

func (e *sendExec) onPrev(id string) {
	e.mu.Lock()
	defer e.mu.Unlock()
	if s, ok := e.trkParts[id]; ok {
		e.curPart = s
		e.fedParts = append(e.fedParts, s)
	}
}

// oracleSent (called with e.mu held, from Logger.Sent): the parts of this name and hash that
// reached the tracker so far must add up to the logged size, which must be their send size; and
// when they are pairwise disjoint pieces of a whole-file send, every byte must be among them.
func (e *sendExec) oracleSent(name, hash string, size int64) {
	var ps []*sendPartSpec
	var sum int64
	for _, p := range e.fedParts {
		if p.name == name && p.hash == hash {
			ps = append(ps, p)
			sum += p.ln
		}
	}
	if len(ps) == 0 {
		e.failf("sent-without-parts: %s (%s) was logged as sent and no part of it reached the tracker", esc(name), esc(hash))
		return
	}
	cur := e.curPart
	if cur == nil || cur.name != name || cur.hash != hash {
		e.failf("sent-at-foreign-part: %s (%s) was logged as sent while the tracker was at a part of another file version", esc(name), esc(hash))
	}
	ssz := ps[0].sendSize
	for _, p := range ps {
		if p.sendSize != ssz {
			return // inconsistent input (generator's malformed stream): no claim
		}
	}
	if size != ssz {
		e.failf("sent-wrong-size: %s (%s) logged with size %d, its send size is %d", esc(name), esc(hash), size, ssz)
	}
	if sum < ssz {
		e.failf("sent-before-all-bytes: %s (%s) was logged as sent after %d of %d bytes were acknowledged", esc(name), esc(hash), sum, ssz)
		return
	}
	// byte coverage under the hypothesis of sent_only_when_all_bytes
	fsz := ps[0].fileSize
	if ssz != fsz {
		return
	}
	srt := append([]*sendPartSpec(nil), ps...)
	sort.Slice(srt, func(i, j int) bool { return srt[i].beg < srt[j].beg })
	disjoint := true
	for i, p := range srt {
		if p.fileSize != fsz || p.ln <= 0 || p.beg < 0 || p.beg+p.ln > fsz {
			return // not pieces of one whole-file send: no claim
		}
		if i > 0 && srt[i-1].beg+srt[i-1].ln > p.beg {
			disjoint = false // the same bytes reached the tracker twice (QueuedOnce violated)
		}
	}
	pos := int64(0) // first byte of [0, fsz) in none of the parts
	for _, p := range srt {
		if p.beg > pos {
			break
		}
		if p.beg+p.ln > pos {
			pos = p.beg + p.ln
		}
	}
	if pos >= fsz {
		return
	}
	if disjoint {
		e.failf("sent-before-all-bytes: %s (%s) was logged as sent but byte %d was never acknowledged", esc(name), esc(hash), pos)
	} else {
		// outside the hypothesis of sent_only_when_all_bytes: known finding (known-findings.json),
		// Lean witness sent_without_all_bytes_when_queued_twice
		e.failf("sent-early-requeued: %s (%s) was logged as sent although byte %d was never acknowledged: parts of this version reached the tracker twice and were counted twice", esc(name), esc(hash), pos)
	}
}

func (e *sendExec) startTracker() {
	e.trk = client.VerifNewSendRig(e.conf(4))
	e.trk.StartTrack()
	e.trkDone = make(chan struct{})
	go func() {
		defer close(e.trkDone)
		for p := range e.trk.Validate() {
			name, hash, _, _, _ := client.VerifProgress(p)
			e.mu.Lock()
			key := any(p)
			e.handedPtr[key]++
			if !strings.HasPrefix(name, sentinelPrefix) {
				if !e.everSent[key] {
					e.failf("handoff-without-sent: %s (%s) was handed to the validator without a Sent record", esc(name), esc(hash))
				}
				if e.handedPtr[key] > 1 {
					e.failf("handoff-twice: %s (%s) was handed to the validator twice for one completion", esc(name), esc(hash))
				}
				e.handed = append(e.handed, esc(name)+":"+esc(hash))
			}
			delete(e.live, key)
			e.cond.Broadcast()
			e.mu.Unlock()
		}
	}()
}

// waitFor waits (e.mu held) until pred holds, the tracker goroutine panicked, or the time is up.
func (e *sendExec) waitFor(pred func() bool, d time.Duration) bool {
	deadline := time.Now().Add(d)
	stop := make(chan struct{})
	defer close(stop)
	go func() {
		t := time.NewTicker(25 * time.Millisecond)
		defer t.Stop()
		for {
			select {
			case <-stop:
				return
			case <-t.C:
				e.mu.Lock()
				e.cond.Broadcast()
				e.mu.Unlock()
			}
		}
	}()
	for !pred() {
		if time.Now().After(deadline) || len(e.trk.Panics()) > 0 {
			return false
		}
		e.cond.Wait()
	}
	return true
}

func (e *sendExec) doTrack() string {
	if len(e.fwdQ) == 0 {
		return "-"
	}
	if e.trk == nil {
		e.startTracker()
	}
	e.sawTrk = true
	// canonical order: by payload, then in the order the payload's sender forwarded them
	q := e.fwdQ
	e.fwdQ = nil
	sort.SliceStable(q, func(i, j int) bool { return e.fwdPay[q[i]].idx < e.fwdPay[q[j]].idx })
	var lines []string
	for _, f := range q {
		j := e.nTrk
		e.nTrk++
		sname := fmt.Sprintf("%s%d", sentinelPrefix, j)
		sbin := payload.NewBin(1, nil, nil)
		sbin.Add(client.VerifSendBinnable(client.VerifSendPart{ID: "s", Name: sname, Hash: "s", FileSize: 1, SendSize: 1, Beg: 0, Len: 1}))
		e.mu.Lock()
		e.sentLog = nil
		e.handed = nil
		e.mu.Unlock()
		e.trk.FeedTransmitted(f.ptr)
		e.trk.FeedTransmitted(sbin)
		e.mu.Lock()
		ok := e.waitFor(func() bool { return e.sentinels[sname] }, 20*time.Second)
		if ok {
			// every entry that is complete now will be handed over before the next payload is taken
			ok = e.waitFor(func() bool {
				for k := range e.live {
					_, _, sent, size, _ := client.VerifProgress(k)
					if sent >= size {
						return false
					}
				}
				return true
			}, 20*time.Second)
		}
		var recs []string
		for _, r := range e.sentLog {
			recs = append(recs, fmt.Sprintf("%s:%s:%d:%d", esc(r.name), esc(r.hash), r.size, r.sent))
		}
		h := append([]string(nil), e.handed...)
		e.mu.Unlock()
		if ps := e.trk.Panics(); len(ps) > 0 {
			e.mu.Lock()
			e.failf("tracker-panic: the startTrack goroutine panicked (%s)", ps[0])
			e.mu.Unlock()
			return "panic " + esc(ps[0])
		}
		if !ok {
			lines = append(lines, fmt.Sprintf("T%d timeout", j))
			continue
		}
		sort.Strings(h)
		js := func(x []string) string {
			if len(x) == 0 {
				return "-"
			}
			return strings.Join(x, ",")
		}
		lines = append(lines, fmt.Sprintf("T%d sent=%s valid=%s", j, js(recs), js(h)))
	}
	return strings.Join(lines, " ; ")
}

func (e *sendExec) Oracle() []string {
	e.mu.Lock()
	defer e.mu.Unlock()
	f := e.fails
	e.fails = nil
	return f
}

func (e *sendExec) Signature() (bool, string) {
	return (e.sawFail && e.sawFwd && e.sawTrk) || e.sawRecv, e.key.String()
}

func (e *sendExec) Close() {
	e.closeRecv()
	if e.trk != nil {
		e.trk.StopNow()
		e.trk.CloseTransmitted()
		if e.trk.WaitTrack(5 * time.Second) {
			e.trk.CloseValidate()
			<-e.trkDone
		}
		e.trk = nil
	}
}

func (sendComp) AnswerClass(op []string, ans string) string {
	switch op[0] {
	case "send":
		if ans == "bad-op" || ans == "-" {
			return "send:" + ans
		}
		hasCount := strings.Contains(ans, ">fail:-")
		for d := '1'; d <= '9'; d++ {
			if strings.Contains(ans, ">fail:"+string(d)) {
				hasCount = true
			}
		}
		noCount := strings.Contains(ans, ">fail:0")
		cl := "send:all-ok"
		switch {
		case hasCount && noCount:
			cl = "send:count+recovery"
		case hasCount:
			cl = "send:count"
		case noCount:
			cl = "send:recovery"
		}
		if strings.Contains(ans, "err") {
			cl += "+rcerr"
		}
		if strings.Contains(ans, "drop=") && strings.Count(ans, "drop=") != strings.Count(ans, "drop=-") {
			cl += "+drop"
		}
		return cl
	case "track":
		if ans == "bad-op" || ans == "-" {
			return "track:" + ans
		}
		switch {
		case strings.Contains(ans, "timeout"):
			return "track:timeout"
		case strings.Contains(ans, "valid=") && !allValidEmpty(ans):
			return "track:completed"
		default:
			return "track:incomplete"
		}
	case "payload":
		if ans == "bad-op" {
			return "payload:bad-op"
		}
		return "payload:built"
	case "rrecv":
		if strings.HasPrefix(ans, "rec ") {
			return "rrecv:recorded"
		}
		return "rrecv:" + strings.Fields(ans)[0]
	case "rcount":
		n, err := strconv.Atoi(ans)
		switch {
		case err != nil:
			return "rcount:" + ans
		case n == 0 && len(op) > 1:
			return "rcount:none"
		case n == len(op)-1:
			return "rcount:all"
		default:
			return "rcount:leading-some"
		}
	default:
		return op[0] + ":" + ans
	}
}

func allValidEmpty(ans string) bool {
	for _, l := range strings.Split(ans, " ; ") {
		if !strings.HasSuffix(l, "valid=-") {
			return false
		}
	}
	return true
}
