package main

import (
	"bytes"
	"errors"
	"fmt"
	"os"
	"path/filepath"
	"strconv"
	"strings"
	"sync"
	"syscall"
	"time"

	"github.com/arm-doe/sts/fileutil"
	"github.com/arm-doe/sts/verifhook"
)

// component "fmove": fileutil/fileutil.go Move and Copy on real files (properties C01 and C06, the last
// step of a delivery: stage.putFileAway moves the validated .wait file into the final directory).
//
// A case works on three names: src (in a directory of the sandbox, the "stage area"), dst (in the "final
// directory") and dst+".lck".  The final directory exists twice: next to the stage area (same file system:
// os.Rename(src, dst) works, the rename path of Move) and on ANOTHER file system (a directory under /dev/shm,
// or $VERIF_OTHER_FS; os.Rename fails with EXDEV and Move takes its copy fallback).  At start-up the
// component checks that the two really are different devices and that a rename across them really fails; if
// not, every op that needs the second file system is answered "skip" (./check ignores such lines) and so is
// the rest of that case; the fact is reported in stats.json "extra" (VERIF_NO_OTHER_FS=1 forces this by hand).
//
//	src LEN SEED | src -      write / remove the source (content = fmoveGen(LEN, SEED), mirrored by Drv/Move.lean)
//	dst LEN SEED | dst -      write / remove the destination (a previous delivery of that name)
//	lck LEN SEED | lck -      write / remove dst+".lck" (left behind by a Move that died, or by a failed copy)
//	lck dir                   make dst+".lck" a DIRECTORY: Copy's os.Create fails (the one Copy error that is exercised)
//	move CROSS                fileutil.Move(src, dst) with the final directory on the same (0) / the other (1)
//	                          file system; answer: ok|noent|isdir|err-other + listing of the three names
//	cutmove CROSS POINT ORDER the same call, but the process "dies" at the hook point POINT (created =
//	                          fileutil.copy.created, written = fileutil.copy.written, lck = fileutil.d.move.lck,
//	                          renamed = fileutil.d.move.renamed, done = fileutil.d.move.done): the hook panics out
//	                          of Move, the files stay as they are at that instant; answer: cut + listing, or
//	                          nohit + result + listing when the call never passes that point.  ORDER (rmfirst |
//	                          rnfirst) is filled in by the executor (Rewrite): the order of os.Remove(src) and
//	                          os.Rename(dst.lck, dst) in the code under test, observed at start-up (is src still
//	                          there at the hook point fileutil.d.move.lck?).  The model has both orders
//	                          (Model/Move.lean `Order`); which of them is acceptable is the business of the
//	                          oracle move-stranded, not of the comparison.
//	state                     listing
//
// listing: src=E dst=E lck=E with E = - (absent) or LEN:FNV1a32.
//
// Oracles (on the bytes really on disk before / after the call, never on the model):
//
//	final-mixed       dst after Move - or at a hook point - is neither what it was before nor exactly the source
//	move-lost         the source's bytes are complete neither under src, nor under dst, nor under dst.lck
//	lck-left          Move across file systems returned nil and dst.lck still exists
//	move-undelivered  Move returned nil but dst is not the source / src still exists; or nil for a missing source
//	move-stranded     (C06) at a hook point, or after the call, the source's bytes are complete neither under src
//	                  (still staged: recovery finalizes again) nor under dst (delivered): they sit under the lock
//	                  name only, which no code path of the receiver ever reads or renames
type fmoveComp struct{}

func init() { register(fmoveComp{}) }

func (fmoveComp) Name() string { return "fmove" }
func (fmoveComp) Rule() string {
	return "case = set up src / dst / dst.lck, then move / cutmove ops on the real fileutil.Move; non-trivial = at least " +
		"one move or cutmove of an existing source that was not skipped; distinct = by the full op sequence"
}

const (
	fmoveMaxLen  = 1000000
	fmoveMaxSeed = 999999999
)

var (
	fmoveOnce     sync.Once
	fmoveHome     string // <VERIF_TMP>/fmove-XXXX
	fmoveOther    string // /dev/shm/sts-verif-fmove-XXXX ("" = no second file system)
	fmoveOtherWhy string
	fmoveErr      error
	fmoveCaseNo   int
	fmoveHooks    = map[string]bool{} // hook points that exist in the code under test
	fmoveOrder    = "rmfirst"         // order of Remove(src) and Rename(lck, dst) in the code under test (observed)
	fmoveOrderObs = "not observed (no second file system)"
	fmoveProbeSrc string
	fmoveCov      = map[string]int{}

	fmoveMu    sync.Mutex
	fmoveArmed string // label to die at
	fmovePath  string // its first argument must be this path
)

type fmoveCrash struct{}

func fmoveHook(label string, kv ...any) {
	first := ""
	if len(kv) > 0 {
		first, _ = kv[0].(string)
	}
	fmoveMu.Lock()
	if fmoveArmed == "probe" {
		fmoveHooks[label] = true
		if label == "fileutil.d.move.lck" && fmoveProbeSrc != "" {
			if _, err := os.Stat(fmoveProbeSrc); err == nil {
				fmoveOrder, fmoveOrderObs = "rnfirst", "source still present at fileutil.d.move.lck: Rename(lck, dst) before Remove(src)"
			} else {
				fmoveOrder, fmoveOrderObs = "rmfirst", "source gone at fileutil.d.move.lck: Remove(src) before Rename(lck, dst)"
			}
		}
		fmoveMu.Unlock()
		return
	}
	hit := fmoveArmed != "" && fmoveArmed == label && first == fmovePath
	if hit {
		fmoveArmed = ""
	}
	fmoveMu.Unlock()
	if hit {
		panic(fmoveCrash{})
	}
}

func fmoveDev(path string) (uint64, error) {
	var st syscall.Stat_t
	if err := syscall.Stat(path, &st); err != nil {
		return 0, err
	}
	return uint64(st.Dev), nil
}

func fmoveInit() {
	fmoveOnce.Do(func() {
		tmp := os.Getenv("VERIF_TMP")
		if tmp == "" {
			tmp = os.TempDir()
		}
		os.MkdirAll(tmp, 0o755)
		fmoveHome, fmoveErr = os.MkdirTemp(tmp, "fmove-")
		if fmoveErr != nil {
			return
		}
		// a second file system
		for _, cand := range []string{os.Getenv("VERIF_OTHER_FS"), "/dev/shm"} {
			if cand == "" {
				continue
			}
			if os.Getenv("VERIF_NO_OTHER_FS") != "" {
				fmoveOtherWhy += "VERIF_NO_OTHER_FS is set; " // to try the skip path by hand
				break
			}
			if fi, err := os.Stat(cand); err != nil || !fi.IsDir() {
				fmoveOtherWhy += cand + ": not a directory; "
				continue
			}
			// leftovers of runs that died (older than two hours)
			if old, _ := filepath.Glob(filepath.Join(cand, "sts-verif-fmove-*")); len(old) > 0 {
				for _, o := range old {
					if fi, err := os.Stat(o); err == nil && time.Since(fi.ModTime()) > 2*time.Hour {
						os.RemoveAll(o)
					}
				}
			}
			dir, err := os.MkdirTemp(cand, "sts-verif-fmove-")
			if err != nil {
				fmoveOtherWhy += cand + ": " + err.Error() + "; "
				continue
			}
			d1, e1 := fmoveDev(dir)
			d2, e2 := fmoveDev(fmoveHome)
			if e1 != nil || e2 != nil || d1 == d2 {
				fmoveOtherWhy += cand + ": same device as the sandbox; "
				os.RemoveAll(dir)
				continue
			}
			p, q := filepath.Join(fmoveHome, "probe-x"), filepath.Join(dir, "probe-x")
			os.WriteFile(p, []byte("x"), 0o644)
			err = os.Rename(p, q)
			os.Remove(p)
			os.Remove(q)
			if err == nil {
				fmoveOtherWhy += cand + ": rename across the devices works; "
				os.RemoveAll(dir)
				continue
			}
			fmoveOther = dir
			break
		}
		verifhook.Set(fmoveHook)
		// which hook points does the code under test have?
		a, b := filepath.Join(fmoveHome, "probe-a"), filepath.Join(fmoveHome, "probe-b")
		fmoveMu.Lock()
		fmoveArmed = "probe"
		fmoveMu.Unlock()
		os.WriteFile(a, []byte("x"), 0o644)
		fileutil.Copy(a, b)
		fileutil.Move(a, b)
		os.Remove(a)
		os.Remove(b)
		if fmoveOther != "" {
			os.WriteFile(a, []byte("x"), 0o644)
			fmoveMu.Lock()
			fmoveProbeSrc = a
			fmoveMu.Unlock()
			fileutil.Move(a, filepath.Join(fmoveOther, "probe-b"))
			os.Remove(a)
			os.Remove(filepath.Join(fmoveOther, "probe-b"))
			os.Remove(filepath.Join(fmoveOther, "probe-b"+fileutil.LockExt))
		}
		fmoveMu.Lock()
		fmoveArmed = ""
		fmoveMu.Unlock()
	})
}

func fmoveCleanup() {
	if fmoveHome != "" {
		os.RemoveAll(fmoveHome)
	}
	if fmoveOther != "" {
		os.RemoveAll(fmoveOther)
	}
}

func (fmoveComp) ExtraStats() map[string]any {
	m := map[string]any{}
	for k, v := range fmoveCov {
		m[k] = v
	}
	m["second_file_system"] = fmoveOther != ""
	if fmoveOther == "" {
		m["second_file_system_missing_because"] = fmoveOtherWhy
		m["cross_ops"] = "SKIPPED: the copy fallback of Move was NOT exercised in this run"
	} else {
		m["second_file_system_dir"] = filepath.Dir(fmoveOther)
	}
	hooks := sortedKeys(fmoveHooks)
	m["hook_points_present"] = strings.Join(hooks, " ")
	m["order_of_code_under_test"] = fmoveOrder + ": " + fmoveOrderObs
	// the run is over: nothing of ours stays under /dev/shm or the sandbox
	fmoveCleanup()
	return m
}

// fmoveGen mirrors Sts.Drv.mvGen.
func fmoveGen(n, seed int) []byte {
	b := make([]byte, n)
	for i := range b {
		b[i] = byte((seed*131 + i*31 + i/256*7 + 17) % 256)
	}
	return b
}

func fmoveFnv(b []byte) uint32 {
	h := uint32(2166136261)
	for _, x := range b {
		h = (h ^ uint32(x)) * 16777619
	}
	return h
}

type fmoveFile struct {
	ok  bool
	dir bool // the name is a directory (only ever the lock name)
	b   []byte
}

func (f fmoveFile) String() string {
	if f.dir {
		return "dir"
	}
	if !f.ok {
		return "-"
	}
	return fmt.Sprintf("%d:%08x", len(f.b), fmoveFnv(f.b))
}
func (f fmoveFile) is(b []byte) bool { return f.ok && bytes.Equal(f.b, b) }
func (f fmoveFile) same(g fmoveFile) bool {
	return f.ok == g.ok && f.dir == g.dir && (!f.ok || bytes.Equal(f.b, g.b))
}

type fmoveImg struct{ src, dst, lck fmoveFile }

func (i fmoveImg) String() string {
	return "src=" + i.src.String() + " dst=" + i.dst.String() + " lck=" + i.lck.String()
}

type fmoveExec struct {
	dir, odir string // per-case directories (local; other file system)
	cross     bool   // where dst / dst.lck currently live
	skipped   bool
	fails     []string
	nontriv   bool
	key       strings.Builder
}

func (fmoveComp) NewExec() Exec {
	fmoveInit()
	e := &fmoveExec{}
	if fmoveErr != nil {
		e.fails = append(e.fails, "harness: cannot create sandbox: "+fmoveErr.Error())
		return e
	}
	fmoveCaseNo++
	e.dir = filepath.Join(fmoveHome, fmt.Sprintf("c%d", fmoveCaseNo))
	os.MkdirAll(filepath.Join(e.dir, "stage"), 0o755)
	os.MkdirAll(filepath.Join(e.dir, "final"), 0o755)
	if fmoveOther != "" {
		e.odir = filepath.Join(fmoveOther, fmt.Sprintf("c%d", fmoveCaseNo))
		os.MkdirAll(filepath.Join(e.odir, "final"), 0o755)
	}
	return e
}

func (e *fmoveExec) Close() {
	if e.dir != "" {
		os.RemoveAll(e.dir)
	}
	if e.odir != "" {
		os.RemoveAll(e.odir)
	}
}

func (e *fmoveExec) srcPath() string { return filepath.Join(e.dir, "stage", "x.wait") }
func (e *fmoveExec) dstPathAt(cross bool) string {
	if cross {
		return filepath.Join(e.odir, "final", "x")
	}
	return filepath.Join(e.dir, "final", "x")
}
func (e *fmoveExec) dstPath() string { return e.dstPathAt(e.cross) }

func fmoveRead(p string) fmoveFile {
	if fi, err := os.Lstat(p); err == nil && fi.IsDir() {
		return fmoveFile{dir: true}
	}
	b, err := os.ReadFile(p)
	if err != nil {
		return fmoveFile{}
	}
	return fmoveFile{ok: true, b: b}
}

func (e *fmoveExec) image() fmoveImg {
	return fmoveImg{fmoveRead(e.srcPath()), fmoveRead(e.dstPath()), fmoveRead(e.dstPath() + fileutil.LockExt)}
}

// setCross puts dst and dst.lck where the next call expects them (harness-side relocation, not code under test).
func (e *fmoveExec) setCross(cross bool) {
	if cross == e.cross {
		return
	}
	for _, ext := range []string{"", fileutil.LockExt} {
		from, to := e.dstPathAt(e.cross)+ext, e.dstPathAt(cross)+ext
		os.RemoveAll(to)
		if f := fmoveRead(from); f.ok {
			os.WriteFile(to, f.b, 0o644)
		} else if f.dir {
			os.Mkdir(to, 0o755)
		}
		os.RemoveAll(from)
	}
	e.cross = cross
}

func fmoveNat(s string, max int) (int, bool) {
	if s == "" || len(s) > 9 {
		return 0, false
	}
	for _, c := range []byte(s) {
		if c < '0' || c > '9' {
			return 0, false
		}
	}
	n, err := strconv.Atoi(s)
	if err != nil || n > max {
		return 0, false
	}
	return n, true
}

// content parses `LEN SEED` | `-`.
func fmoveContent(ws []string) (present bool, b []byte, ok bool) {
	if len(ws) == 1 && ws[0] == "-" {
		return false, nil, true
	}
	if len(ws) == 2 {
		n, ok1 := fmoveNat(ws[0], fmoveMaxLen)
		s, ok2 := fmoveNat(ws[1], fmoveMaxSeed)
		if ok1 && ok2 {
			return true, fmoveGen(n, s), true
		}
	}
	return false, nil, false
}

func fmoveCross(s string) (bool, bool) {
	switch s {
	case "0":
		return false, true
	case "1":
		return true, true
	}
	return false, false
}

var fmovePoints = map[string]string{
	"created": "fileutil.copy.created",
	"written": "fileutil.copy.written",
	"lck":     "fileutil.d.move.lck",
	"renamed": "fileutil.d.move.renamed",
	"done":    "fileutil.d.move.done",
}

// Rewrite fills in the order observed on the code under test (see the component comment).
func (e *fmoveExec) Rewrite(op []string) []string {
	if op[0] == "cutmove" && (len(op) == 3 || len(op) == 4 && (op[3] == "rmfirst" || op[3] == "rnfirst")) {
		return []string{op[0], op[1], op[2], fmoveOrder}
	}
	return op
}

func (e *fmoveExec) Do(op []string) string {
	e.key.WriteString(strings.Join(op, " "))
	e.key.WriteByte('\n')
	if e.dir == "" {
		return "skip"
	}
	switch op[0] {
	case "src", "dst", "lck":
		mkdir := op[0] == "lck" && len(op) == 2 && op[1] == "dir"
		present, b, ok := fmoveContent(op[1:])
		if !ok && !mkdir {
			return "bad-op"
		}
		if e.skipped {
			return "skip"
		}
		p := e.srcPath()
		if op[0] == "dst" {
			p = e.dstPath()
		} else if op[0] == "lck" {
			p = e.dstPath() + fileutil.LockExt
		}
		os.RemoveAll(p)
		if mkdir {
			if err := os.Mkdir(p, 0o755); err != nil {
				e.fails = append(e.fails, "harness: cannot make the lock name a directory: "+err.Error())
			}
		} else if present {
			if err := os.WriteFile(p, b, 0o644); err != nil {
				e.fails = append(e.fails, "harness: cannot write "+op[0]+": "+err.Error())
			}
		}
		return "ok"
	case "state":
		if len(op) != 1 {
			return "bad-op"
		}
		if e.skipped {
			return "skip"
		}
		return "state " + e.image().String()
	case "move", "cutmove":
		if (op[0] == "move" && len(op) != 2) || (op[0] == "cutmove" && len(op) != 4) {
			return "bad-op"
		}
		if op[0] == "cutmove" && op[3] != "rmfirst" && op[3] != "rnfirst" {
			return "bad-op"
		}
		cross, ok := fmoveCross(op[1])
		if !ok {
			return "bad-op"
		}
		label := ""
		if op[0] == "cutmove" {
			if label, ok = fmovePoints[op[2]]; !ok {
				return "bad-op"
			}
		}
		if e.skipped {
			return "skip"
		}
		if cross && e.odir == "" {
			fmoveCov["skipped:no-second-file-system"]++
			e.skipped = true
			return "skip"
		}
		if label != "" && !fmoveHooks[label] && (cross || op[2] == "done") {
			// the hook point does not exist in the code under test (hooks.patch not applied): no crash image
			fmoveCov["skipped:hook-point-missing:"+op[2]]++
			e.skipped = true
			return "skip"
		}
		e.setCross(cross)
		return e.call(cross, op[0] == "cutmove", label, op)
	}
	return "bad-op"
}

// call runs the real fileutil.Move, possibly dying at a hook point, and evaluates the oracles.
func (e *fmoveExec) call(cross, cutting bool, label string, op []string) string {
	pre := e.image()
	src, dst := e.srcPath(), e.dstPath()
	if cutting {
		fmoveMu.Lock()
		fmoveArmed = label
		fmovePath = dst
		if label == "fileutil.copy.created" || label == "fileutil.copy.written" {
			fmovePath = dst + fileutil.LockExt // Copy's own destination
		}
		fmoveMu.Unlock()
	}
	var err error
	died := false
	func() {
		defer func() {
			if r := recover(); r != nil {
				if _, ok := r.(fmoveCrash); ok {
					died = true
					return
				}
				panic(r)
			}
		}()
		err = fileutil.Move(src, dst)
	}()
	fmoveMu.Lock()
	fmoveArmed = ""
	fmoveMu.Unlock()
	post := e.image()
	what := strings.Join(op, " ")
	if pre.src.ok {
		e.nontriv = true
		b := pre.src.b
		rel := "absent"
		if pre.lck.dir {
			rel = "directory"
		} else if pre.lck.ok {
			switch {
			case len(pre.lck.b) > len(b):
				rel = "longer"
			case len(pre.lck.b) < len(b):
				rel = "shorter"
			default:
				rel = "equal"
			}
		}
		fmoveCov[fmt.Sprintf("%s cross=%v leftover=%s dst=%v", op[0], cross, rel, pre.dst.ok)]++
		if !post.dst.same(pre.dst) && !post.dst.is(b) {
			e.fails = append(e.fails, fmt.Sprintf("final-mixed: after `%s` the final name holds %s: neither what it held before (%s) nor the source (%s); died-at-hook=%v",
				what, post.dst, pre.dst, pre.src, died))
		}
		if !post.src.is(b) && !post.dst.is(b) && !post.lck.is(b) {
			e.fails = append(e.fails, fmt.Sprintf("move-lost: after `%s` the source's bytes (%s) are complete under no name: %s; died-at-hook=%v err=%v",
				what, pre.src, post, died, err))
		}
		if !post.src.is(b) && !post.dst.is(b) && post.lck.is(b) {
			e.fails = append(e.fails, fmt.Sprintf("move-stranded: after `%s` the source's bytes (%s) are complete only under the lock name: %s; died-at-hook=%v err=%v",
				what, pre.src, post, died, err))
		}
		if !died && err == nil {
			if cross && post.lck.ok {
				e.fails = append(e.fails, fmt.Sprintf("lck-left: `%s` returned nil and the lock name still exists: %s", what, post))
			}
			if !post.dst.is(b) || post.src.ok {
				e.fails = append(e.fails, fmt.Sprintf("move-undelivered: `%s` returned nil but the disk is %s (source was %s)", what, post, pre.src))
			}
		}
	} else {
		if !post.dst.same(pre.dst) {
			e.fails = append(e.fails, fmt.Sprintf("final-mixed: `%s` without a source changed the final name from %s to %s", what, pre.dst, post.dst))
		}
		if !died && err == nil {
			e.fails = append(e.fails, fmt.Sprintf("move-undelivered: `%s` of a missing source returned nil", what))
		}
	}
	if died {
		return "cut " + post.String()
	}
	res := "ok"
	switch {
	case err == nil:
	case os.IsNotExist(err):
		res = "noent"
	case errors.Is(err, syscall.EISDIR):
		res = "isdir"
	default:
		res = "err-other"
		if os.Getenv("VERIF_FMOVE_LOG") != "" {
			fmt.Fprintln(os.Stderr, "fmove:", what, "->", err)
		}
	}
	if cutting {
		return "nohit " + res + " " + post.String()
	}
	return res + " " + post.String()
}

func (e *fmoveExec) Oracle() []string { f := e.fails; e.fails = nil; return f }
func (e *fmoveExec) Signature() (bool, string) {
	return e.nontriv && !e.skipped, e.key.String()
}

func (fmoveComp) AnswerClass(op []string, ans string) string {
	f := strings.Fields(ans)
	if len(f) == 0 {
		return op[0] + ":empty"
	}
	switch op[0] {
	case "move":
		if len(op) == 2 && (f[0] == "ok" || f[0] == "noent" || f[0] == "isdir" || f[0] == "err-other") {
			return "move:" + f[0] + ":cross=" + op[1]
		}
	case "cutmove":
		if len(op) == 4 && (f[0] == "cut" || f[0] == "nohit") {
			c := "cutmove:" + f[0] + ":cross=" + op[1] + ":" + op[2]
			if f[0] == "nohit" && len(f) > 1 {
				c += ":" + f[1]
			}
			return c
		}
	}
	return op[0] + ":" + f[0]
}

// ---------------------------------------------------------------- corpus and generator

func (fmoveComp) Corpus() [][]string {
	return [][]string{
		// the seeded change C01e (Copy without O_TRUNC), shrunk by ./check: a longer leftover lock file
		{"lck 1 0", "src 0 0", "move 1"},
		{"lck 4 9", "src 2 1", "move 1", "state"},
		// the history that produces such a leftover: v1 dies in Move after Remove(src), a shorter v2 follows
		{"src 3000 1", "cutmove 1 lck", "state", "src 1000 2", "move 1", "state"},
		// a failed / interrupted copy leaves a partial lock file; the next Move starts over
		{"src 70000 3", "dst 5 4", "cutmove 1 created", "cutmove 1 written", "cutmove 1 lck", "cutmove 1 renamed", "cutmove 1 done", "move 1"},
		// finding S9x (C06): the crash before the second rename, and what the next start finds
		{"src 2 1", "cutmove 1 lck", "state"},
		{"src 2 1", "dst 3 2", "cutmove 1 renamed", "state", "move 1"},
		// same file system: one rename, a leftover lock file stays untouched
		{"src 3 1", "dst 9 2", "lck 5 3", "move 0", "state", "move 0"},
		{"src 3 1", "lck 5 3", "cutmove 0 lck", "src 3 1", "cutmove 0 done", "cutmove 0 done"},
		// missing source: error, nothing changes
		{"dst 4 1", "lck 2 2", "move 1", "move 0", "cutmove 1 lck", "state"},
		// a directory under the lock name: Copy fails at os.Create, Move returns the error, the file stays staged
		{"src 5 1", "dst 2 2", "lck dir", "move 1", "state", "cutmove 1 created", "move 0", "state", "lck 3 3", "src 4 4", "move 1"},
		// empty files
		{"src 0 0", "dst 0 0", "lck 0 0", "move 1", "src 0 1", "move 0"},
		// malformed
		{"move", "move 2", "move 1 1", "cutmove 1", "cutmove 1 nowhere", "cutmove x lck", "cutmove 1 lck first", "cutmove 1 lck rmfirst x", "src", "src 1", "src -1 1", "src 1 -", "src 1000001 1",
			"src 1 1000000000", "src +1 1", "src 1_0 1", "dst - -", "lck 1 2 3", "state x", "frob", "src 0x10 1"},
	}
}

var fmoveLens = []int{0, 1, 2, 3, 5, 8, 13, 64, 255, 256, 257, 1000, 3000}
var fmoveBigLens = []int{4095, 4096, 4097, 8191, 8192, 8193, 32767, 32768, 32769, 65536, 65537, 98304, 98305, 100001}

func fmoveLen(r *Rand, tier string) int {
	switch {
	case r.Chance(0.04):
		return fmoveBigLens[r.Intn(len(fmoveBigLens))]
	case r.Chance(0.5):
		return fmoveLens[r.Intn(len(fmoveLens))]
	case r.Chance(0.5):
		return r.Intn(12)
	default:
		return r.Intn(600)
	}
}

// a length in a chosen relation to n
func fmoveRel(r *Rand, n int, rel int) int {
	switch rel {
	case 0: // shorter
		if n == 0 {
			return 0
		}
		return r.Intn(n)
	case 1: // equal
		return n
	default: // longer
		if r.Chance(0.5) {
			return n + 1 + r.Intn(4)
		}
		return n + 1 + r.Intn(2*n+50)
	}
}

func (fmoveComp) Generate(r *Rand, tier string, n int) [][]string {
	var cases [][]string
	points := []string{"created", "written", "lck", "renamed", "done"}
	bad := []string{"move", "move 2", "move -1", "move 01", "move 1 0", "cutmove", "cutmove 1", "cutmove 1 Lck", "cutmove 2 lck", "cutmove 1 lck x", "cutmove 1 lck rmfirst 1",
		"src", "src 5", "src 5 5 5", "src -5 1", "src 5 -1", "src 1000001 0", "src 1 1000000000", "src 1234567890 1", "src +3 1", "src 3 +1",
		"src 1_0 1", "src 1e3 1", "src 0x3 1", "src - 1", "dst", "dst 1", "lck 1", "lck - -", "lck dir 1", "lck Dir", "dst dir", "src dir", "state 1", "reset", "copy 1 1", "Move 1", "%2d"}
	for len(cases) < n {
		var ops []string
		seed := 0
		next := func() int { seed++; return seed + r.Intn(50)*10 }
		rounds := 1 + r.Intn(3)
		if r.Chance(0.05) {
			// malformed stream mixed with valid ops
			for k := 0; k < 4+r.Intn(8); k++ {
				if r.Chance(0.6) {
					ops = append(ops, r.Pick(bad))
				} else {
					ops = append(ops, fmt.Sprintf("src %d %d", r.Intn(20), next()), fmt.Sprintf("move %d", r.Intn(2)))
				}
			}
			ops = append(ops, "state")
			cases = append(cases, ops)
			continue
		}
		cross := r.Intn(2)
		for round := 0; round < rounds; round++ {
			if r.Chance(0.15) {
				cross = 1 - cross
			}
			sl := fmoveLen(r, tier)
			var setup []string
			if !r.Chance(0.07) || round > 0 && r.Chance(0.5) {
				setup = append(setup, fmt.Sprintf("src %d %d", sl, next()))
			} else if r.Chance(0.5) {
				setup = append(setup, "src -")
			}
			// destination: keep what the previous round left, or set / remove it
			switch r.Intn(4) {
			case 0:
				setup = append(setup, "dst -")
			case 1:
				setup = append(setup, fmt.Sprintf("dst %d %d", fmoveRel(r, sl, r.Intn(3)), next()))
			}
			// leftover lock file: absent / shorter / equal / longer than the source; or what the previous round left
			switch r.Intn(6) {
			case 0:
				if r.Chance(0.25) {
					setup = append(setup, "lck dir")
				} else {
					setup = append(setup, "lck -")
				}
			case 1:
				setup = append(setup, fmt.Sprintf("lck %d %d", fmoveRel(r, sl, 0), next()))
			case 2:
				setup = append(setup, fmt.Sprintf("lck %d %d", fmoveRel(r, sl, 1), next()))
			case 3, 4:
				setup = append(setup, fmt.Sprintf("lck %d %d", fmoveRel(r, sl, 2), next()))
			}
			r.Shuffle(len(setup), func(i, j int) { setup[i], setup[j] = setup[j], setup[i] })
			ops = append(ops, setup...)
			if r.Chance(0.2) {
				ops = append(ops, "state")
			}
			switch {
			case r.Chance(0.45):
				ops = append(ops, fmt.Sprintf("move %d", cross))
			case r.Chance(0.5):
				// die inside Move, then the next attempt (what a restarted receiver would do with the file if it
				// still had it) or a newer version of the name
				pt := r.Pick(points)
				if cross == 0 && r.Chance(0.6) {
					pt = "done"
				}
				ops = append(ops, fmt.Sprintf("cutmove %d %s", cross, pt))
				if r.Chance(0.5) {
					ops = append(ops, "state")
				}
				switch r.Intn(3) {
				case 0:
					ops = append(ops, fmt.Sprintf("move %d", cross))
				case 1:
					ops = append(ops, fmt.Sprintf("src %d %d", fmoveRel(r, sl, r.Intn(3)), next()), fmt.Sprintf("move %d", cross))
				}
			default:
				// every hook point in order: each call starts from what the previous crash left
				for _, p := range points {
					if cross == 1 && (p == "renamed" || p == "done") {
						// with Remove before Rename the source is gone after the cut at `lck`: a new one
						ops = append(ops, fmt.Sprintf("src %d %d", fmoveRel(r, sl, r.Intn(3)), next()))
					}
					ops = append(ops, fmt.Sprintf("cutmove %d %s", cross, p))
					if cross == 0 && p != "done" {
						// the rename path passes none of the copy's points and completes: a new source for the next call
						ops = append(ops, fmt.Sprintf("src %d %d", fmoveRel(r, sl, r.Intn(3)), next()))
					}
				}
			}
			if r.Chance(0.3) {
				ops = append(ops, "state")
			}
			if r.Chance(0.1) {
				ops = append(ops, fmt.Sprintf("move %d", r.Intn(2))) // the source is gone now: error path
			}
			if r.Chance(0.03) {
				ops = append(ops, r.Pick(bad))
			}
		}
		cases = append(cases, ops)
	}
	return cases
}
