package main

import (
	"bytes"
	"fmt"
	"os"
	"path/filepath"
	"regexp"
	"strconv"
	"strings"
	"sync"
	"time"

	stslog "github.com/arm-doe/sts/log"
)

// component "logfmt": log/local.go FileIO (Sent, Received, WasSent, WasReceived, Parse) with
// rollingFile (getPath, each, eachLine, log, rotate) on real directories. Property C18.
//
// Records are written by the REAL Received/Sent into a writer directory (they land in the
// file of the real "today"); the executor checks the produced line (shape, time stamp within
// the clock readings around the call), replaces the time stamp by the virtual time named on
// the op line and appends the line to the day file YYYYMM/DD of the virtual day named on the
// op line inside the reader directory, on which the REAL look-ups and Parse then run.
// Virtual days are real days (frame "abs", default) or, after `frame <today>`, shifted by a
// whole number of days so that virtual day <today> is the real today (needed for windows with
// a zero time, which the code replaces by time.Now()).
type logfmtComp struct{}

func init() { register(logfmtComp{}) }

func (logfmtComp) Name() string { return "logfmt" }
func (logfmtComp) Rule() string {
	return "case = fresh send and receive log directories + writes (recv/sent/raw/concurrent) on named days + look-ups / replays with explicit windows; " +
		"non-trivial = at least 2 records written and at least one look-up answered true and one answered false; distinct = by the full op sequence"
}

// ---------------------------------------------------------------- real loggers (process-wide)

type lfFile struct {
	name, renamed, hash string
	size, ms            int64
}

func (f *lfFile) GetName() string    { return f.name }
func (f *lfFile) GetRenamed() string { return f.renamed }
func (f *lfFile) GetHash() string    { return f.hash }
func (f *lfFile) GetSize() int64     { return f.size }
func (f *lfFile) TimeMs() int64      { return f.ms }

var (
	lfOnce sync.Once
	lfRoot string
	lfW    map[string]*stslog.FileIO // writers (files of the real today)
	lfR    map[string]*stslog.FileIO // readers (day files placed by the executor)
	lfL    map[string]*stslog.FileIO // write-then-look-up instances
)

// The FileIO instances live as long as the process (FileIO has no Close); the directories
// are removed after every case. rollingFile.rotate reopens a file that has disappeared.
func lfInit() {
	lfOnce.Do(func() {
		base := os.Getenv("VERIF_TMP")
		if base != "" {
			_ = os.MkdirAll(base, 0o755)
		}
		d, err := os.MkdirTemp(base, "logfmt-")
		if err != nil {
			panic(err)
		}
		lfRoot = d
		lfW, lfR, lfL = map[string]*stslog.FileIO{}, map[string]*stslog.FileIO{}, map[string]*stslog.FileIO{}
		for _, k := range []string{"recv", "sent"} {
			lfW[k] = stslog.NewFileIO(filepath.Join(lfRoot, "w-"+k), nil, nil, false)
			lfR[k] = stslog.NewFileIO(filepath.Join(lfRoot, "r-"+k), nil, nil, false)
			lfL[k] = stslog.NewFileIO(filepath.Join(lfRoot, "l-"+k), nil, nil, false)
		}
	})
	_ = os.MkdirAll(lfRoot, 0o755)
}

// ---------------------------------------------------------------- executor

type lfRec struct {
	name, renamed, hash string
	size, time          int64
	day                 int64
}

type lfExec struct {
	fails    []string
	shift    int64 // real day = virtual day + shift
	framed   bool
	today    int64 // virtual today (framed only)
	recs     map[string][]lfRec
	days     map[string][]int64 // day of every append, per kind
	dirty    map[string]bool    // raw lines or newlines inside fields present: oracle off
	colon    map[string]bool    // records with ':' inside a field present: failures are finding F2b
	writes   int
	sawTrue  bool
	sawFalse bool
	key      strings.Builder
}

func (logfmtComp) NewExec() Exec {
	lfInit()
	return &lfExec{recs: map[string][]lfRec{}, days: map[string][]int64{}, dirty: map[string]bool{}, colon: map[string]bool{}}
}

func (e *lfExec) Close() { _ = os.RemoveAll(lfRoot) }

func (e *lfExec) Oracle() []string { f := e.fails; e.fails = nil; return f }
func (e *lfExec) Signature() (bool, string) {
	return e.writes >= 2 && e.sawTrue && e.sawFalse, e.key.String()
}

func (e *lfExec) fail(format string, a ...any) {
	if len(e.fails) < 20 {
		e.fails = append(e.fails, fmt.Sprintf(format, a...))
	}
}

// failL reports a failure of the exactness oracle. Where a ':' inside a name, rename or hash
// is involved the theorems do not apply (hypothesis Rec.Clean); the failure is then the known
// limitation of the record format (finding F2b) and is labelled as such.
func (e *lfExec) failL(limited bool, format string, a ...any) {
	if limited {
		format = "format-limitation (':' inside a name, rename or hash): " + format
	}
	e.fail(format, a...)
}

func floorDiv(a, b int64) int64 {
	q := a / b
	if (a%b != 0) && ((a < 0) != (b < 0)) {
		q--
	}
	return q
}

// path of the day file of a virtual day, computed independently of rollingFile.getPath
func (e *lfExec) dayPath(kind string, day int64) string {
	t := time.Unix((day+e.shift)*86400, 0).UTC()
	return filepath.Join(lfRoot, "r-"+kind, fmt.Sprintf("%04d%02d", t.Year(), int(t.Month())), fmt.Sprintf("%02d", t.Day()))
}

func (e *lfExec) appendDay(kind string, day int64, data []byte) {
	p := e.dayPath(kind, day)
	_ = os.MkdirAll(filepath.Dir(p), 0o755)
	f, err := os.OpenFile(p, os.O_WRONLY|os.O_APPEND|os.O_CREATE, 0o644)
	if err != nil {
		panic(err)
	}
	defer f.Close()
	if _, err = f.Write(data); err != nil {
		panic(err)
	}
	e.days[kind] = append(e.days[kind], day)
}

// takeWritten returns what the real writer produced since the last call and removes it.
// It also checks that exactly one file exists and that it is the file of the real today.
func (e *lfExec) takeWritten(dir string, t0, t1 time.Time) []byte {
	root := filepath.Join(lfRoot, dir)
	var files []string
	_ = filepath.Walk(root, func(p string, info os.FileInfo, err error) error {
		if err == nil && !info.IsDir() {
			files = append(files, p)
		}
		return nil
	})
	var data []byte
	for _, p := range files {
		b, _ := os.ReadFile(p)
		data = append(data, b...)
	}
	if len(files) != 1 {
		e.fail("writer-path: one write produced %d files under %s", len(files), dir)
	} else {
		rel, _ := filepath.Rel(root, files[0])
		ok := false
		for _, t := range []time.Time{t0.UTC(), t1.UTC()} {
			if rel == filepath.Join(fmt.Sprintf("%04d%02d", t.Year(), int(t.Month())), fmt.Sprintf("%02d", t.Day())) {
				ok = true
			}
		}
		if !ok {
			e.fail("writer-path: record of %s written to %s", t0.UTC().Format("2006-01-02"), rel)
		}
	}
	_ = os.RemoveAll(root)
	return data
}

var lfDigits = regexp.MustCompile(`^[0-9]+$`)

// restamp checks that `line` (without newline) is prefix + <unix time within [t0,t1]> + suffix and
// returns the line with the virtual time instead.
func (e *lfExec) restamp(line, prefix, suffix string, t0, t1 time.Time, vtime int64) (string, bool) {
	if !strings.HasPrefix(line, prefix) || !strings.HasSuffix(line, suffix) || len(line) < len(prefix)+len(suffix) {
		return line, false
	}
	mid := line[len(prefix) : len(line)-len(suffix)]
	if !lfDigits.MatchString(mid) {
		return line, false
	}
	ts, err := strconv.ParseInt(mid, 10, 64)
	if err != nil {
		return line, false
	}
	if ts < t0.Unix() || ts > t1.Unix() {
		e.fail("record-time: record stamped %d, clock read %d..%d", ts, t0.Unix(), t1.Unix())
	}
	return prefix + strconv.FormatInt(vtime, 10) + suffix, true
}

func lfClean(ss ...string) bool {
	for _, s := range ss {
		if strings.ContainsAny(s, ":\n") {
			return false
		}
	}
	return true
}

func (e *lfExec) doWrite(kind string, f *lfFile, day, vtime int64) string {
	t0 := time.Now()
	var prefix, suffix string
	if kind == "recv" {
		lfW[kind].Received(f)
		prefix = fmt.Sprintf("%s:%s:%s:%d:", f.name, f.renamed, f.hash, f.size)
		suffix = ":"
	} else {
		lfW[kind].Sent(f)
		prefix = fmt.Sprintf("%s:%s:%d:", f.name, f.hash, f.size)
		suffix = fmt.Sprintf(": %d ms", f.ms)
	}
	t1 := time.Now()
	data := e.takeWritten("w-"+kind, t0, t1)
	out := data
	if len(data) == 0 || data[len(data)-1] != '\n' {
		e.fail("record-format: %s record %q is not a terminated line: %q", kind, prefix, data)
	} else if line, ok := e.restamp(string(data[:len(data)-1]), prefix, suffix, t0, t1, vtime); ok {
		out = []byte(line + "\n")
	} else {
		e.fail("record-format: %s record is %q, want %q<unix time>%q", kind, data, prefix, suffix)
	}
	e.appendDay(kind, day, out)
	e.writes++
	switch {
	case strings.ContainsAny(f.name+f.renamed+f.hash, "\n"):
		e.dirty[kind] = true
	default:
		if !lfClean(f.name, f.renamed, f.hash) {
			e.colon[kind] = true
		}
		e.recs[kind] = append(e.recs[kind], lfRec{f.name, f.renamed, f.hash, f.size, vtime, day})
	}
	return "ok"
}

// vTime: "z" is the zero time
func (e *lfExec) parseTime(s string) (t time.Time, v int64, zero, ok bool) {
	if s == "z" {
		return time.Time{}, 0, true, true
	}
	v, err := strconv.ParseInt(s, 10, 64)
	if err != nil {
		return t, 0, false, false
	}
	return time.Unix(v+e.shift*86400, 0), v, false, true
}

// protocol rule shared with the model driver (Drv/LogFmt.lean `ambiguous`)
func (e *lfExec) ambiguous(kind string, az, bz bool, av, bv int64) bool {
	if az == bz {
		return false
	}
	t := av
	if az {
		t = bv
	}
	d := floorDiv(t, 86400)
	for _, x := range e.days[kind] {
		if x == e.today-1 || x == e.today+1 || x == d-1 || x == d+1 {
			return true
		}
	}
	return false
}

// window of virtual days the look-up has to cover (touched) given the resolved ends
func lfTouched(a, b int64) (lo, hi int64) {
	lo, hi = floorDiv(a, 86400), floorDiv(b, 86400)
	if lo > hi {
		lo, hi = hi, lo
	}
	return
}

func (e *lfExec) virtualNow() int64 { return time.Now().Unix() - e.shift*86400 }

func (e *lfExec) doLookup(kind, name, hash, as, bs string) string {
	at, av, az, ok1 := e.parseTime(as)
	bt, bv, bz, ok2 := e.parseTime(bs)
	if !ok1 || !ok2 || ((az || bz) && !e.framed) {
		return "bad-op"
	}
	if e.ambiguous(kind, az, bz, av, bv) {
		return "ambiguous"
	}
	if az {
		av = e.virtualNow()
	}
	var ans bool
	if kind == "recv" {
		ans = lfR[kind].WasReceived(name, hash, at, bt)
	} else {
		ans = lfR[kind].WasSent(name, hash, at, bt)
	}
	if bz {
		bv = e.virtualNow()
		if az && bv == av {
			bv++ // two clock readings are never equal
		}
	}
	if ans {
		e.sawTrue = true
	} else {
		e.sawFalse = true
	}
	// property oracle (Props/C18 C18_lookup_exact_received / _sent, lookup_complete_*):
	// the theorems' hypothesis is: no ':' in the looked-up name or in a field of a written record
	if lim := e.colon[kind] || strings.Contains(name, ":"); !e.dirty[kind] && !strings.Contains(name, "\n") {
		lo, hi := lfTouched(av, bv)
		inTouched, inLoose := false, false
		for _, r := range e.recs[kind] {
			if r.name == name && (hash == "" || r.hash == hash) {
				if lo <= r.day && r.day <= hi {
					inTouched = true
				}
				if lo-1 <= r.day && r.day <= hi+1 {
					inLoose = true
				}
			}
		}
		if ans && !inLoose {
			e.failL(lim, "lookup-unsound: %s look-up of name %q hash %q over days %d..%d answered yes, no such record was written there", kind, name, hash, lo, hi)
		}
		if !ans && inTouched && av != bv {
			e.failL(lim, "lookup-incomplete: %s look-up of name %q hash %q over days %d..%d answered no, such a record was written there", kind, name, hash, lo, hi)
		}
	}
	return strconv.FormatBool(ans)
}

func (e *lfExec) doParse(kind, as, bs, ls string) string {
	at, av, az, ok1 := e.parseTime(as)
	bt, bv, bz, ok2 := e.parseTime(bs)
	limit, err := strconv.ParseUint(ls, 10, 32)
	if !ok1 || !ok2 || err != nil || ((az || bz) && !e.framed) {
		return "bad-op"
	}
	if e.ambiguous(kind, az, bz, av, bv) {
		return "ambiguous"
	}
	if az {
		av = e.virtualNow()
	}
	var got []lfRec
	var out []string
	lfR[kind].Parse(func(name, renamed, hash string, size int64, t time.Time) bool {
		vt := t.Unix() // the lines carry virtual times
		got = append(got, lfRec{name: name, renamed: renamed, hash: hash, size: size, time: vt})
		out = append(out, fmt.Sprintf("%s,%s,%s,%d,%d", esc(name), esc(renamed), esc(hash), size, vt))
		return limit != 0 && uint64(len(got)) >= limit
	}, at, bt)
	if bz {
		bv = e.virtualNow()
		if az && bv == av {
			bv++
		}
	}
	// property oracle (Props/C18 parse_replays_history): every record written on a touched day is
	// replayed with the same five fields; nothing else is
	if kind == "recv" && !e.dirty[kind] && limit == 0 && av != bv {
		lim := e.colon[kind]
		lo, hi := lfTouched(av, bv)
		cnt := map[lfRec]int{}
		for _, g := range got {
			cnt[g]++
		}
		for _, r := range e.recs[kind] {
			k := lfRec{name: r.name, renamed: r.renamed, hash: r.hash, size: r.size, time: r.time}
			if lo <= r.day && r.day <= hi {
				if cnt[k] == 0 {
					e.failL(lim, "replay-missing: record %q/%q/%q/%d/%d of day %d not replayed over days %d..%d", r.name, r.renamed, r.hash, r.size, r.time, r.day, lo, hi)
				} else {
					cnt[k]--
				}
			}
		}
		for _, g := range got {
			found := false
			for _, r := range e.recs[kind] {
				if r.name == g.name && r.renamed == g.renamed && r.hash == g.hash && r.size == g.size && r.time == g.time &&
					lo-1 <= r.day && r.day <= hi+1 {
					found = true
					break
				}
			}
			if !found {
				e.failL(lim, "replay-invented: replay over days %d..%d yields %q/%q/%q/%d/%d, never written there", lo, hi, g.name, g.renamed, g.hash, g.size, g.time)
			}
		}
	}
	return strings.Join(append([]string{strconv.Itoa(len(got))}, out...), " ")
}

// records of `concurrent` (same in Drv/LogFmt.lean concRecv / concSent)
func lfConc(g, i int) *lfFile {
	f := &lfFile{
		name: fmt.Sprintf("cw/g%d-f%d.dat", g, i),
		hash: fmt.Sprintf("h%dx%d", g, i),
		size: int64(g*1000 + i),
		ms:   int64(i),
	}
	if i%2 == 1 {
		f.renamed = fmt.Sprintf("ren-%d", i)
	}
	return f
}

func (e *lfExec) doConcurrent(kind string, k, m int, day int64) string {
	t0 := time.Now()
	var wg sync.WaitGroup
	wg.Add(k)
	for g := 0; g < k; g++ {
		go func(g int) {
			defer wg.Done()
			for i := 0; i < m; i++ {
				if kind == "recv" {
					lfW[kind].Received(lfConc(g, i))
				} else {
					lfW[kind].Sent(lfConc(g, i))
				}
			}
		}(g)
	}
	wg.Wait()
	t1 := time.Now()
	data := e.takeWritten("w-"+kind, t0, t1)
	// property oracle (writer_serialises, tested not proved): the file holds exactly the k*m
	// records, each as one whole line, in any order
	lines := strings.Split(string(data), "\n")
	good := len(lines) == k*m+1 && lines[len(lines)-1] == ""
	have := map[string]int{}
	if good {
		for _, l := range lines[:k*m] {
			have[l]++
		}
	}
	var out bytes.Buffer
	for g := 0; g < k && good; g++ {
		for i := 0; i < m && good; i++ {
			f := lfConc(g, i)
			vt := day*86400 + int64(g*m+i)
			var prefix, suffix string
			if kind == "recv" {
				prefix, suffix = fmt.Sprintf("%s:%s:%s:%d:", f.name, f.renamed, f.hash, f.size), ":"
			} else {
				prefix, suffix = fmt.Sprintf("%s:%s:%d:", f.name, f.hash, f.size), fmt.Sprintf(": %d ms", f.ms)
			}
			n := 0
			for l, c := range have {
				if strings.HasPrefix(l, prefix) && strings.HasSuffix(l, suffix) {
					if nl, ok := e.restamp(l, prefix, suffix, t0, t1, vt); ok {
						n += c
						if c == 1 {
							out.WriteString(nl + "\n")
						}
					}
				}
			}
			if n != 1 {
				good = false
				e.fail("writer-serialises: record %q of %d concurrent writers found %d times as a whole line", prefix, k, n)
			}
			e.recs[kind] = append(e.recs[kind], lfRec{f.name, f.renamed, f.hash, f.size, vt, day})
		}
	}
	if !good {
		if len(e.fails) == 0 {
			e.fail("writer-serialises: %d concurrent writers x %d records left %d lines", k, m, len(lines)-1)
		}
		e.dirty[kind] = true
		e.appendDay(kind, day, data)
		return "torn"
	}
	e.appendDay(kind, day, out.Bytes())
	e.writes += k * m
	return fmt.Sprintf("ok %d", k*m)
}

func (e *lfExec) doLive(kind, name, hash string) string {
	now := time.Now()
	var ans bool
	if kind == "recv" {
		lfL[kind].Received(&lfFile{name: name, hash: hash, size: 1})
		ans = lfL[kind].WasReceived(name, hash, now.Add(-time.Hour), now.Add(time.Hour))
	} else {
		lfL[kind].Sent(&lfFile{name: name, hash: hash, size: 1, ms: 1})
		ans = lfL[kind].WasSent(name, hash, now.Add(-time.Hour), now.Add(time.Hour))
	}
	_ = os.RemoveAll(filepath.Join(lfRoot, "l-"+kind))
	if !ans && lfClean(name, hash) {
		e.fail("lookup-incomplete: %s record %q/%q written now is not found in the window now-1h..now+1h", kind, name, hash)
	}
	return strconv.FormatBool(ans)
}

// doRestart: a record is written, the process restarts (a new logger on the same directory, as main creates at
// start-up), a second record is written the same day: both must be found, the day file holds two whole lines.
func (e *lfExec) doRestart(kind, n1, h1, n2, h2 string) string {
	dir := filepath.Join(lfRoot, "x-"+kind)
	_ = os.RemoveAll(dir)
	defer os.RemoveAll(dir)
	now := time.Now()
	a := stslog.NewFileIO(dir, nil, nil, false)
	write := func(l *stslog.FileIO, n, h string) {
		if kind == "recv" {
			l.Received(&lfFile{name: n, hash: h, size: 1})
		} else {
			l.Sent(&lfFile{name: n, hash: h, size: 1, ms: 1})
		}
	}
	find := func(l *stslog.FileIO, n, h string) bool {
		if kind == "recv" {
			return l.WasReceived(n, h, now.Add(-time.Hour), now.Add(time.Hour))
		}
		return l.WasSent(n, h, now.Add(-time.Hour), now.Add(time.Hour))
	}
	write(a, n1, h1)
	b := stslog.NewFileIO(dir, nil, nil, false)
	write(b, n2, h2)
	f1, f2 := find(b, n1, h1), find(b, n2, h2)
	lines := 0
	filepath.Walk(dir, func(p string, info os.FileInfo, err error) error {
		if err == nil && !info.IsDir() {
			if d, err := os.ReadFile(p); err == nil {
				lines += strings.Count(string(d), "\n")
			}
		}
		return nil
	})
	if lfClean(n1, h1, n2, h2) {
		if !f1 {
			e.fail("lookup-incomplete: %s record %q/%q written before a restart of the logger is not found after the next record was written", kind, n1, h1)
		}
		if !f2 {
			e.fail("lookup-incomplete: %s record %q/%q written after a restart of the logger is not found", kind, n2, h2)
		}
		if lines != 2 {
			e.fail("lookup-incomplete: two %s records written around a restart of the logger left %d lines in the day file", kind, lines)
		}
	}
	return fmt.Sprintf("%v %v %d", f1, f2, lines)
}

func (e *lfExec) Do(op []string) string {
	e.key.WriteString(strings.Join(op, " "))
	e.key.WriteByte(';')
	atoi := func(s string) (int64, bool) {
		v, err := strconv.ParseInt(s, 10, 64)
		return v, err == nil
	}
	kindOK := func(k string) bool { return k == "recv" || k == "sent" }
	switch {
	case len(op) == 2 && op[0] == "frame":
		d, ok := atoi(op[1])
		if !ok {
			return "bad-op"
		}
		// keep clear of the real midnight: the whole case must see one real today
		for {
			now := time.Now().Unix()
			if 86400-(now%86400) > 5 {
				break
			}
			time.Sleep(time.Second)
		}
		e.framed, e.today = true, d
		e.shift = floorDiv(time.Now().Unix(), 86400) - d
		return "ok"
	case len(op) == 7 && op[0] == "recv":
		size, ok1 := atoi(op[4])
		day, ok2 := atoi(op[5])
		vt, ok3 := atoi(op[6])
		if !ok1 || !ok2 || !ok3 {
			return "bad-op"
		}
		return e.doWrite("recv", &lfFile{name: unesc(op[1]), renamed: unesc(op[2]), hash: unesc(op[3]), size: size}, day, vt)
	case len(op) == 7 && op[0] == "sent":
		size, ok1 := atoi(op[3])
		ms, ok2 := atoi(op[4])
		day, ok3 := atoi(op[5])
		vt, ok4 := atoi(op[6])
		if !ok1 || !ok2 || !ok3 || !ok4 {
			return "bad-op"
		}
		return e.doWrite("sent", &lfFile{name: unesc(op[1]), hash: unesc(op[2]), size: size, ms: ms}, day, vt)
	case len(op) == 4 && op[0] == "raw":
		day, ok := atoi(op[2])
		if !kindOK(op[1]) || !ok {
			return "bad-op"
		}
		e.dirty[op[1]] = true
		e.appendDay(op[1], day, []byte(unesc(op[3])))
		return "ok"
	case len(op) == 5 && op[0] == "wasrecv":
		return e.doLookup("recv", unesc(op[1]), unesc(op[2]), op[3], op[4])
	case len(op) == 5 && op[0] == "wassent":
		return e.doLookup("sent", unesc(op[1]), unesc(op[2]), op[3], op[4])
	case len(op) == 5 && op[0] == "parse":
		if !kindOK(op[1]) {
			return "bad-op"
		}
		return e.doParse(op[1], op[2], op[3], op[4])
	case len(op) == 5 && op[0] == "concurrent":
		k, ok1 := atoi(op[2])
		m, ok2 := atoi(op[3])
		day, ok3 := atoi(op[4])
		if !kindOK(op[1]) || !ok1 || !ok2 || !ok3 || k <= 0 || m <= 0 || k > 16 || m > 64 {
			return "bad-op"
		}
		return e.doConcurrent(op[1], int(k), int(m), day)
	case len(op) == 6 && op[0] == "restart":
		if !kindOK(op[1]) {
			return "bad-op"
		}
		return e.doRestart(op[1], unesc(op[2]), unesc(op[3]), unesc(op[4]), unesc(op[5]))
	case len(op) == 4 && op[0] == "live":
		if !kindOK(op[1]) {
			return "bad-op"
		}
		return e.doLive(op[1], unesc(op[2]), unesc(op[3]))
	}
	return "bad-op"
}

func (logfmtComp) AnswerClass(op []string, ans string) string {
	switch op[0] {
	case "wasrecv", "wassent":
		if len(op) != 5 {
			return op[0] + ":" + ans
		}
		shape := "fwd"
		a, e1 := strconv.ParseInt(op[3], 10, 64)
		b, e2 := strconv.ParseInt(op[4], 10, 64)
		switch {
		case e1 != nil || e2 != nil:
			shape = "zero"
		case a == b:
			shape = "empty"
		case a > b:
			shape = "rev"
		}
		if e1 == nil && e2 == nil && a != b {
			lo, hi := lfTouched(a, b)
			switch {
			case hi == lo:
				shape += "-1day"
			case hi-lo <= 2:
				shape += "-midnight"
			case hi-lo >= 28:
				shape += "-months"
			default:
				shape += "-days"
			}
		}
		h := "nohash"
		if op[2] != "-" {
			h = "hash"
		}
		return op[0] + ":" + h + ":" + shape + ":" + ans
	case "parse":
		n := strings.SplitN(ans, " ", 2)[0]
		if n != "0" && n != "1" && n != "bad-op" && n != "ambiguous" {
			n = "many"
		}
		lim := "nolimit"
		if len(op) == 5 && op[4] != "0" {
			lim = "limit"
		}
		return "parse:" + op[1] + ":" + lim + ":" + n
	case "concurrent":
		return "concurrent:" + strings.SplitN(ans, " ", 2)[0]
	default:
		return op[0] + ":" + ans
	}
}

// ---------------------------------------------------------------- corpus

func (logfmtComp) Corpus() [][]string {
	const d = 20000 // 2024-10-04
	const t = d * 86400
	w := fmt.Sprintf("%d %d", t, t+500)
	long1 := strings.Repeat("abcdefghij/", 190) + "f.nc"    // 2094 bytes: a legal deep path
	long2 := strings.Repeat("renamed789/", 190) + "f.20240101" // its rename target, as long: the record passes 4096 bytes
	return [][]string{
		// a record longer than 4096 bytes (deep name delivered under a deep rename target) and the records after it on
		// the same day: found by look-ups with and without hash, replayed by Parse (seed C18f: a 4096-byte line limit
		// of the scanner ended the scan of that day at the long record)
		{fmt.Sprintf("recv first - h0 1 %d %d", d, t+50), fmt.Sprintf("recv %s %s h1 5 %d %d", long1, long2, d, t+100), fmt.Sprintf("recv site/last.nc - h2 6 %d %d", d, t+200),
			"wasrecv " + long1 + " - " + w, "wasrecv " + long1 + " h1 " + w, "wasrecv site/last.nc - " + w, "wasrecv site/last.nc h2 " + w, "wasrecv first - " + w,
			fmt.Sprintf("parse recv %d %d 0", t, t+500)},
		// F2 (substring): d/f1 must not be found through the record of d/f10.nc, nor a hash as a name
		{fmt.Sprintf("recv d/f10.nc - aa11 5 %d %d", d, t+100), "wasrecv d/f1 - " + w, "wasrecv aa11 - " + w, "wasrecv f10 - " + w,
			"wasrecv d/f10.nc - " + w, "wasrecv d/f10.nc aa11 " + w, "wasrecv d/f10.nc a1 " + w},
		// F2 (first line only): second record of a name with another hash must be found
		{fmt.Sprintf("recv d/f1 - aa11 5 %d %d", d, t+100), fmt.Sprintf("recv d/f1 - bb22 6 %d %d", d, t+200),
			"wasrecv d/f1 bb22 " + w, "wasrecv d/f1 aa11 " + w, "wasrecv d/f1 cc33 " + w},
		// F2 (hash anywhere in the line): the rename field or the size field is not the hash
		{fmt.Sprintf("recv a bb22 aa11 77 %d %d", d, t+100), "wasrecv a bb22 " + w, "wasrecv a 77 " + w, "wasrecv a aa11 " + w},
		// the same for the send log
		{fmt.Sprintf("sent d/f10.nc aa11 5 12 %d %d", d, t+100), fmt.Sprintf("sent d/f1.nc bb22 5 12 %d %d", d, t+150),
			fmt.Sprintf("sent d/f1.nc cc33 5 12 %d %d", d, t+160),
			"wassent d/f1 - " + w, "wassent d/f1.nc cc33 " + w, "wassent d/f1.nc 5 " + w, "wassent d/f10.nc aa11 " + w, "wassent aa11 - " + w},
		// F2b (known limitation of the format): names containing ':' (compared with the model only)
		{fmt.Sprintf("recv we%%3aird - h1 3 %d %d", d, t+100), fmt.Sprintf("parse recv %d %d 0", t, t+500), "wasrecv we - " + w,
			"wasrecv we%3aird h1 " + w, "wasrecv we%3aird - " + w},
		// windows: the further day, reversed, empty, 24 h steps, month and year boundaries
		{fmt.Sprintf("recv n - h 1 %d %d", d+1, t+86400+10), fmt.Sprintf("recv m - h 1 %d %d", d-1, t-10),
			fmt.Sprintf("wasrecv n - %d %d", t, t+10), fmt.Sprintf("wasrecv n - %d %d", t+86399, t+86401),
			fmt.Sprintf("wasrecv n - %d %d", t+86400+5, t+86400+5), fmt.Sprintf("wasrecv n - %d %d", t+86400+50, t+86400+5),
			fmt.Sprintf("wasrecv m - %d %d", t+10, t), fmt.Sprintf("wasrecv m - %d %d", t+10, t+20),
			fmt.Sprintf("wasrecv n - %d %d", t-86400*40, t+86400*2), fmt.Sprintf("wasrecv m - %d %d", t+86400*45, t-86400*3),
			fmt.Sprintf("wasrecv n - %d %d", t-86400, t-1), fmt.Sprintf("wasrecv n - %d %d", t-86400, t-86400+1)},
		{fmt.Sprintf("recv y - h 1 %d %d", 19722, int64(19722)*86400+86399), fmt.Sprintf("recv y - g 1 %d %d", 19723, int64(19723)*86400),
			fmt.Sprintf("recv l - g 1 %d %d", 19782, int64(19782)*86400+5),
			fmt.Sprintf("wasrecv y g %d %d", int64(19722)*86400+86399, int64(19723)*86400), fmt.Sprintf("wasrecv y h %d %d", int64(19723)*86400+5, int64(19723)*86400),
			fmt.Sprintf("wasrecv l - %d %d", int64(19781)*86400+5, int64(19782)*86400+1), fmt.Sprintf("parse recv %d %d 0", int64(19700)*86400, int64(19800)*86400),
			fmt.Sprintf("parse recv %d %d 2", int64(19800)*86400, int64(19700)*86400)},
		// zero times
		{"frame 20000", fmt.Sprintf("recv z1 - h 1 %d %d", d, t+7), fmt.Sprintf("recv z2 - h 1 %d %d", d-3, t-3*86400+7),
			"wasrecv z1 - z z", "wasrecv z2 - z z", fmt.Sprintf("wasrecv z2 - z %d", t-3*86400+100), fmt.Sprintf("wasrecv z2 - %d z", t-3*86400+100),
			fmt.Sprintf("wasrecv z1 - %d z", t+6*86400), "parse recv z z 0", fmt.Sprintf("wasrecv z1 - z %d", t-86400)},
		// old four-field lines, short lines, CRLF, no final newline
		{fmt.Sprintf("raw recv %d a%%3ab%%3a12%%3a34%%0d%%0ashort%%3aline%%0a%%0ax%%3a%%3a%%3a%%3a%%0an%%3ar%%3ah%%3a-5%%3a%%2b7%%3a", d),
			fmt.Sprintf("parse recv %d %d 0", t, t+5), "wasrecv a b " + w, "wasrecv a 12 " + w, "wasrecv n h " + w, "wasrecv x - " + w},
		// concurrent writers
		{fmt.Sprintf("concurrent recv 8 6 %d", d), fmt.Sprintf("concurrent sent 4 3 %d", d), "wasrecv cw/g3-f2.dat h3x2 " + w, "wasrecv cw/g3-f2.dat h3x1 " + w,
			"wassent cw/g3-f2.dat h3x2 " + w, "wasrecv cw/g3-f2 - " + w, fmt.Sprintf("parse recv %d %d 0", t, t+5), "live recv a/b h", "live sent a/b h",
			"restart recv d/f1 aa11 d/f2 bb22", "restart sent d/f1 aa11 d/f1 bb22"},
	}
}

// ---------------------------------------------------------------- generator

func lfMonthStart(r *Rand) int64 {
	y := r.Range(1999, 2036)
	m := r.Range(1, 12)
	return time.Date(y, time.Month(m), 1, 0, 0, 0, 0, time.UTC).Unix() / 86400
}

func (logfmtComp) Generate(r *Rand, tier string, n int) [][]string {
	var cases [][]string
	stems := []string{"d/f1", "a/b/file", "x", "data.0001", "name-1", "sgp/met.b1.20240101", "f"}
	hashesAll := []string{"aa11", "aa11bb", "1aa11", "bb22", "cc33", "d41d8cd98f00b204e9800998ecf8427e", "9e107d9d372bb6826bd81d3542a419d6", "0"}
	badNames := []string{"we:ird", ":", "a:", ":a", "n\nl", "c\rr", "sp ace", "", "\xff\xfe", "a::b", "x:aa11", "tab\t", "%41"}
	rawLines := []string{"a:b:12:34\n", "short:line\n", "\n", "x::::\n", "n:r:h:-5:+7:\n", "crlf:r:h:1:2:\r\n", "nonum:r:h:1x:2 :\n",
		"unterminated:r:h:1:2:", "a:b:c\n", "d/f1:bb22:9:9\n", "only\n", "\r\n"}
	for ci := 0; ci < n; ci++ {
		var ops []string
		malformed := r.Chance(0.15)
		framed := r.Chance(0.25)
		// centre day: around a month boundary most of the time
		center := lfMonthStart(r) + int64(r.Range(-2, 1))
		switch {
		case r.Chance(0.1):
			center = int64(r.Range(10000, 30000))
		case r.Chance(0.04):
			center = int64(r.Range(-1, 1)) // around the epoch
		}
		if framed {
			ops = append(ops, fmt.Sprintf("frame %d", center))
		}
		// names related as prefix / suffix / substring
		stem := r.Pick(stems)
		if r.Chance(0.3) {
			b := make([]byte, r.Range(1, 6))
			for i := range b {
				b[i] = "abf01/._-"[r.Intn(9)]
			}
			stem = string(b)
		}
		hs := []string{r.Pick(hashesAll), r.Pick(hashesAll), r.Pick(hashesAll)}
		names := []string{stem, stem + "0", stem + "0.nc", stem + ".nc", "x" + stem, stem + "/" + stem, hs[0]}
		if len(stem) > 1 {
			names = append(names, stem[1:], stem[:len(stem)-1])
		}
		if malformed {
			names = append(names, r.Pick(badNames), stem+":"+hs[0], r.Pick(badNames))
			hs = append(hs, "h:x", "")
		}
		renames := []string{"", "", "", stem + ".renamed", hs[1], names[r.Intn(len(names))]}
		offs := []int64{-40, -31, -30, -3, -2, -1, 0, 0, 0, 0, 1, 2, 3, 29, 31, 40}
		if framed {
			offs = []int64{-39, -30, -6, -3, 0, 0, 0, 3, 6, 30} // multiples of 3: see `ambiguous`
		}
		var days []int64
		written := [][3]string{} // kind, name, hash
		write := func() {
			kind := "recv"
			if r.Chance(0.35) {
				kind = "sent"
			}
			nm := names[r.Intn(len(names))]
			if len(written) > 0 && r.Chance(0.3) {
				nm = written[r.Intn(len(written))][1] // same name again, mostly with another hash
			}
			h := hs[r.Intn(len(hs))]
			day := center + offs[r.Intn(len(offs))]
			days = append(days, day)
			vt := day*86400 + int64(r.Intn(86400))
			if r.Chance(0.05) {
				vt = int64(r.Range(-5, 5))
			}
			size := []int64{0, 1, 1024, 1 << 40, int64(r.Intn(1000000))}[r.Intn(5)]
			if malformed && r.Chance(0.1) {
				size = -int64(r.Intn(100))
			}
			if kind == "recv" {
				ops = append(ops, fmt.Sprintf("recv %s %s %s %d %d %d", esc(nm), esc(renames[r.Intn(len(renames))]), esc(h), size, day, vt))
			} else {
				ops = append(ops, fmt.Sprintf("sent %s %s %d %d %d %d", esc(nm), esc(h), size, r.Intn(5000), day, vt))
			}
			written = append(written, [3]string{kind, nm, h})
			if malformed && r.Chance(0.25) {
				ops = append(ops, fmt.Sprintf("raw %s %d %s", kind, day, esc(r.Pick(rawLines))))
			}
		}
		window := func() (string, string) {
			day := center
			if len(days) > 0 && r.Chance(0.8) {
				day = days[r.Intn(len(days))]
			}
			t := day * 86400
			var a, b int64
			switch r.Intn(10) {
			case 0: // same day
				a = t + int64(r.Intn(43200))
				b = a + 1 + int64(r.Intn(43199))
			case 1: // across midnight
				a = t - 1 - int64(r.Intn(3600))
				b = t + int64(r.Intn(3600))
			case 2: // across months
				a = t - int64(r.Range(28, 45))*86400 + int64(r.Intn(86400))
				b = t + int64(r.Range(0, 3))*86400 + int64(r.Intn(86400))
			case 3: // just before / after the day, 24 h step boundaries
				k := int64(r.Range(1, 3))
				a = t - k*86400 + int64(r.Intn(86400))
				b = a + (k-1)*86400 + int64(r.Range(-1, 1)) + int64(r.Intn(2))*int64(r.Intn(86400))
			case 4: // day boundaries to the second
				a = t + int64(r.Range(-1, 1))
				b = t + 86400 + int64(r.Range(-1, 1))
			case 5: // empty
				a = t + int64(r.Intn(86400))
				b = a
			case 6: // a few days
				a = t - int64(r.Range(0, 4))*86400 + int64(r.Intn(86400))
				b = t + int64(r.Range(0, 4))*86400 + int64(r.Intn(86400))
			case 7: // the day after (the further day of `each`)
				a = t - 86400 + int64(r.Intn(86400))
				b = a + int64(r.Intn(86400))
			case 8: // whole multiples of 24 h
				a = t + int64(r.Intn(86400))
				b = a + int64(r.Range(1, 3))*86400
			default:
				a = t + int64(r.Range(-3, 3))*86400 + int64(r.Intn(86400))
				b = t + int64(r.Range(-3, 3))*86400 + int64(r.Intn(86400))
			}
			if r.Chance(0.3) {
				a, b = b, a
			}
			as, bs := strconv.FormatInt(a, 10), strconv.FormatInt(b, 10)
			if framed && r.Chance(0.35) {
				// zero times; explicit ends on days that are multiples of 3 away from today
				x := (center+int64(r.Range(-3, 3))*3)*86400 + int64(r.Intn(86400))
				switch r.Intn(3) {
				case 0:
					as, bs = "z", "z"
				case 1:
					as, bs = "z", strconv.FormatInt(x, 10)
				default:
					as, bs = strconv.FormatInt(x, 10), "z"
				}
			}
			return as, bs
		}
		lookup := func() {
			kind, nm, h := "recv", names[r.Intn(len(names))], ""
			if len(written) > 0 && r.Chance(0.6) {
				w := written[r.Intn(len(written))]
				kind, nm, h = w[0], w[1], w[2]
				switch r.Intn(6) {
				case 0:
					h = hs[r.Intn(len(hs))] // maybe another hash
				case 1:
					h = ""
				case 2:
					if len(nm) > 1 { // a proper part of the name
						if r.Chance(0.5) {
							nm = nm[:len(nm)-1]
						} else {
							nm = nm[1:]
						}
					}
				case 3:
					if len(h) > 1 {
						h = h[:len(h)-1]
					}
				}
			} else {
				if r.Chance(0.4) {
					kind = "sent"
				}
				if r.Chance(0.5) {
					h = hs[r.Intn(len(hs))]
				}
			}
			a, b := window()
			op := "wasrecv"
			if kind == "sent" {
				op = "wassent"
			}
			ops = append(ops, fmt.Sprintf("%s %s %s %s %s", op, esc(nm), esc(h), a, b))
		}
		parse := func() {
			a, b := window()
			kind := "recv"
			if r.Chance(0.1) {
				kind = "sent"
			}
			lim := 0
			if r.Chance(0.25) {
				lim = r.Range(1, 3)
			}
			ops = append(ops, fmt.Sprintf("parse %s %s %s %d", kind, a, b, lim))
		}
		for k := r.Range(2, 8); k > 0; k-- {
			write()
		}
		if r.Chance(0.08) {
			day := center + offs[r.Intn(len(offs))]
			kind := "recv"
			if r.Chance(0.3) {
				kind = "sent"
			}
			k, m := r.Range(2, 8), r.Range(1, 6)
			ops = append(ops, fmt.Sprintf("concurrent %s %d %d %d", kind, k, m, day))
			days = append(days, day)
			g, i := r.Intn(k), r.Intn(m)
			written = append(written, [3]string{kind, fmt.Sprintf("cw/g%d-f%d.dat", g, i), fmt.Sprintf("h%dx%d", g, i)})
		}
		for k := r.Range(3, 9); k > 0; k-- {
			lookup()
		}
		if r.Chance(0.7) {
			parse()
		}
		for k := r.Range(0, 4); k > 0; k-- {
			write()
		}
		for k := r.Range(2, 8); k > 0; k-- {
			lookup()
		}
		if r.Chance(0.5) {
			parse()
		}
		if r.Chance(0.1) {
			w := [3]string{"recv", names[r.Intn(len(names))], hs[r.Intn(len(hs))]}
			if r.Chance(0.4) {
				w[0] = "sent"
			}
			ops = append(ops, fmt.Sprintf("live %s %s %s", w[0], esc(w[1]), esc(w[2])))
		}
		if r.Chance(0.1) {
			k := "recv"
			if r.Chance(0.4) {
				k = "sent"
			}
			ops = append(ops, fmt.Sprintf("restart %s %s %s %s %s", k, esc(names[r.Intn(len(names))]), esc(hs[r.Intn(len(hs))]), esc(names[r.Intn(len(names))]), esc(hs[r.Intn(len(hs))])))
		}
		cases = append(cases, ops)
	}
	return cases
}
