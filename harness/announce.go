package main

import (
	"fmt"
	"io"
	"os"
	"path/filepath"
	"strconv"
	"strings"
	"time"

	"github.com/alecthomas/units"
	"github.com/arm-doe/sts"
	"github.com/arm-doe/sts/client"
	"github.com/arm-doe/sts/payload"
	"github.com/arm-doe/sts/store"
)

// component "announce": what the sender announces for a file that changes between the scan's
// stat and the hashing (real store.Local.Scan, real Broker.hash/hashFiles) and what the real
// payload encoder streams for it. Property C17, clause "never a mixture" (sender half).
type announceComp struct{}

func init() { register(announceComp{}) }

func (announceComp) Name() string { return "announce" }
func (announceComp) Rule() string {
	return "case = ops hashrace/stream/validates on one file whose content at scan, hash and send time is chosen independently; " +
		"non-trivial = a hashrace where the size at scan time differs from the length at hash time, or a stream op; distinct = by op sequence"
}
func (announceComp) Corpus() [][]string {
	return [][]string{
		// rewritten longer between stat and hashing: the announced hash must be of the WHOLE new content
		{"hashrace 2 7.8.9", "stream 2 7.8.9", "validates 2 7.8.9 7.8.9"},
		{"hashrace 3 1.2.3", "stream 3 1.2.3", "validates 3 1.2.3 1.2.3"},
		{"hashrace 4 5.6", "stream 4 5.6", "validates 4 5.6 5.6"},
		{"hashrace 1 -"},
	}
}
func (announceComp) Generate(r *Rand, tier string, n int) [][]string {
	var cases [][]string
	for i := 0; i < n; i++ {
		var ops []string
		for k := r.Range(1, 4); k > 0; k-- {
			c1 := genBody(r, r.Range(0, 9))
			c2 := c1
			switch r.Intn(5) {
			case 0: // unchanged
			case 1: // appended
				c2 = append(append([]byte{}, c1...), genBody(r, r.Range(1, 5))...)
			case 2: // rewritten, longer
				c2 = genBody(r, len(c1)+r.Range(1, 5))
			case 3: // rewritten, same length
				c2 = genBody(r, len(c1))
			case 4: // truncated
				if len(c1) > 0 {
					c2 = c1[:r.Intn(len(c1))]
				}
			}
			c3 := c2
			if r.Chance(0.3) {
				c3 = genBody(r, r.Range(0, 12))
			}
			ops = append(ops, fmt.Sprintf("hashrace %d %s", len(c1), tokOrDash(c2)))
			if r.Chance(0.6) {
				ops = append(ops, fmt.Sprintf("stream %d %s", len(c1), tokOrDash(c3)))
			}
			if r.Chance(0.6) {
				ops = append(ops, fmt.Sprintf("validates %d %s %s", len(c1), tokOrDash(c2), tokOrDash(c3)))
			}
		}
		cases = append(cases, ops)
	}
	return cases
}

type announceExec struct {
	dir     string
	fails   []string
	nontriv bool
	key     strings.Builder
}

func (announceComp) NewExec() Exec {
	tmp := os.Getenv("VERIF_TMP")
	if tmp == "" {
		tmp = os.TempDir()
	}
	os.MkdirAll(tmp, 0o755)
	d, _ := os.MkdirTemp(tmp, "announce-")
	installStageHook()
	return &announceExec{dir: d}
}

// announced runs the real scan-time stat and the real hashing with the file rewritten in between.
func (e *announceExec) announced(size int, atHash []byte) (int64, string, error) {
	root := filepath.Join(e.dir, "out")
	os.RemoveAll(root)
	os.MkdirAll(root, 0o755)
	p := filepath.Join(root, "f.dat")
	old := time.Now().Add(-time.Hour)
	if err := os.WriteFile(p, make([]byte, size), 0o644); err != nil {
		return 0, "", err
	}
	os.Chtimes(p, old, old)
	st := &store.Local{Root: root}
	st.AddStandardIgnore()
	files, _, err := st.Scan(func(f sts.File) bool { return true })
	if err != nil {
		return 0, "", err
	}
	if len(files) != 1 {
		return 0, "", fmt.Errorf("scan returned %d files", len(files))
	}
	// the producer rewrites the file after the scan's stat, before it is hashed
	if err := os.WriteFile(p, atHash, 0o644); err != nil {
		return 0, "", err
	}
	b := client.VerifNewBroker(&client.Conf{Name: "announce", Store: st, Threads: 1, PayloadSize: units.Base2Bytes(64)})
	hs := b.VerifHashFiles(files)
	return hs[0].GetSize(), hs[0].GetHash(), nil
}

type annBinnable struct {
	sts.File
	hash     string
	beg, len int64
	alloc    int64
}

func (a *annBinnable) GetHash() string              { return a.hash }
func (a *annBinnable) GetPrev() string              { return "" }
func (a *annBinnable) GetSlice() (int64, int64)     { return a.beg, a.len }
func (a *annBinnable) GetSendSize() int64           { return a.len }
func (a *annBinnable) GetNextAlloc() (int64, int64) { return a.beg + a.alloc, a.beg + a.len }
func (a *annBinnable) AddAlloc(n int64)             { a.alloc += n }
func (a *annBinnable) IsAllocated() bool            { return a.alloc == a.len }

func (e *announceExec) Do(op []string) string {
	e.key.WriteString(strings.Join(op, " "))
	e.key.WriteByte(';')
	switch {
	case len(op) == 3 && op[0] == "hashrace":
		size, err := strconv.Atoi(op[1])
		c, ok := parseBodyTok(op[2])
		if err != nil || !ok || size < 0 {
			return "bad-op"
		}
		if size != len(c) {
			e.nontriv = true
		}
		sz, h, err := e.announced(size, c)
		if err != nil {
			return "err " + esc(err.Error())
		}
		tok := "md5:" + h
		if h == md5hex(c) {
			tok = modelHashOfBody(c)
		} else {
			// the property's oracle: the announced hash is the hash of a complete version
			e.fails = append(e.fails, fmt.Sprintf("hash-not-of-complete-version: file stat'ed with %d bytes, content %s when hashed; the announced hash is not the MD5 of that content", size, bodyOrDash(c)))
			if size <= len(c) && h == md5hex(c[:size]) {
				tok = modelHashOfBody(c[:size]) + "(prefix)"
			}
		}
		return fmt.Sprintf("%d %s", sz, tok)
	case len(op) == 3 && op[0] == "stream":
		size, err := strconv.Atoi(op[1])
		c, ok := parseBodyTok(op[2])
		if err != nil || !ok || size < 0 {
			return "bad-op"
		}
		e.nontriv = true
		if size == 0 {
			return "-"
		}
		root := filepath.Join(e.dir, "s")
		os.MkdirAll(root, 0o755)
		p := filepath.Join(root, "f.dat")
		os.WriteFile(p, c, 0o644)
		st := &store.Local{Root: root}
		files, _, err := st.Scan(func(f sts.File) bool { return true })
		if err != nil || len(files) != 1 {
			return "err-scan"
		}
		bin := payload.NewBin(int64(size)+10, st.GetOpener(), nil)
		if !bin.Add(&annBinnable{File: files[0], hash: "h", beg: 0, len: int64(size)}) {
			return "err-add"
		}
		enc := bin.GetEncoder()
		got, _ := io.ReadAll(enc)
		enc.Close()
		if len(got) > len(c) {
			got = got[:len(c)] // a short file: the encoder pads its accounting, no real bytes beyond the file
		}
		return bodyOrDash(got)
	case len(op) == 4 && op[0] == "validates":
		size, err := strconv.Atoi(op[1])
		ch, ok1 := parseBodyTok(op[2])
		cs, ok2 := parseBodyTok(op[3])
		if err != nil || !ok1 || !ok2 {
			return "bad-op"
		}
		_, h, err := e.announced(size, ch)
		if err != nil {
			return "err " + esc(err.Error())
		}
		sent := cs
		if len(sent) > size {
			sent = sent[:size]
		}
		v := len(sent) == size && md5hex(sent) == h
		if v && string(sent) != string(ch) {
			e.fails = append(e.fails, fmt.Sprintf("mixture-validated: %s would be validated by the receiver although the complete version hashed was %s", bodyOrDash(sent), bodyOrDash(ch)))
		}
		return strconv.FormatBool(v)
	}
	return "bad-op"
}
func (e *announceExec) Oracle() []string          { f := e.fails; e.fails = nil; return f }
func (e *announceExec) Signature() (bool, string) { return e.nontriv, e.key.String() }
func (e *announceExec) Close()                    { os.RemoveAll(e.dir) }
