package main

import (
	"bufio"
	"bytes"
	"crypto/md5"
	"encoding/hex"
	"encoding/json"
	"fmt"
	"io"
	"os"
	"path/filepath"
	"sort"
	"strconv"
	"strings"
	"sync"
	"sync/atomic"
	"time"

	"github.com/arm-doe/sts"
	stslog "github.com/arm-doe/sts/log"
	"github.com/arm-doe/sts/marshal"
	"github.com/arm-doe/sts/stage"
	"github.com/arm-doe/sts/verifhook"
)

// ---------------------------------------------------------------------------------------
// stageRig: a real stage.Stage on a sandbox directory, driven one operation at a time.
// All goroutines of the Stage pass through verifhook points; the rig uses them to
//   * gate the validators and the finalize handler (the harness decides when each runs),
//   * serialise queue hand-offs in spawn order (so the channel order is deterministic),
//   * count outstanding asynchronous work (quiescence = nothing spawned and not done),
//   * count durable steps and copy the directory tree at the k-th one (crash image).
// ---------------------------------------------------------------------------------------

type gateWaiter struct {
	kind string // "process" | "finh"
	name string
	key  string // name|hash for validators
	ch   chan struct{}
}

type ticket struct {
	kind string // "validate" | "finalize"
	name string
	done bool
	took bool
}

type stageRig struct {
	sandbox string
	gen     int
	root    string // current stage root
	final   string
	logdir  string
	st      *stage.Stage
	logger  *stslog.FileIO

	mu       sync.Mutex
	cond     *sync.Cond
	auto     bool // gates open
	waiters  []*gateWaiter
	tickets  []*ticket
	pending  int
	pendV    map[string]int // queued for validation, by name
	pendF    int            // queued for finalization
	vOrder   []string       // names queued for validation, in spawn order
	doneEvts []string       // "validate:name" / "finalize:name" in order
	opened   map[string]chan struct{}

	// crash image
	cutK     int
	durCount int
	snapDir  string

	base int64 // time base of the case

	pause *pausePoint // one-shot pause point armed by a race operation

	// the finalize handler held between isFileReady and finalize (`finhold` ... `finrelease`): it is parked at
	// the hook point "stage.finh.ready" until `finrelease` closes held.resume (or for good, when the instance
	// is abandoned by a crash: a dead process does nothing any more)
	held     *pausePoint
	heldName string
}

type pausePoint struct {
	label  string
	key    string // first hook argument must equal this ("" = any)
	root   string // last hook argument (the stage root of the instance) must equal this ("" = any)
	hit    chan struct{}
	resume chan struct{}
}

var activeRig *stageRig
var hookOnce sync.Once

// extraStageHook, when set (at init time, by another component), sees every hook point too.
var extraStageHook func(label string, kv ...any)

func installStageHook() {
	hookOnce.Do(func() {
		stslog.InitExternal(quietLogger{})
		verifhook.Set(func(label string, kv ...any) {
			if h := extraStageHook; h != nil {
				h(label, kv...)
			}
			r := activeRig
			if r != nil {
				r.onHook(label, kv...)
			}
		})
	})
}

// safeLogOpen keeps log.rollingFile from calling log.Fatal (which would kill the harness)
// when a logger of an abandoned instance writes after its sandbox was removed.
func safeLogOpen(path string, flag int, perm os.FileMode) (*os.File, error) {
	f, err := os.OpenFile(path, flag, perm)
	if err == nil {
		return f, nil
	}
	os.MkdirAll(filepath.Dir(path), 0o755)
	if f, err = os.OpenFile(path, flag, perm); err == nil {
		return f, nil
	}
	return os.OpenFile(os.DevNull, os.O_WRONLY, 0)
}

type quietLogger struct{}

// hammerGate lines up the concurrent Receive calls of the `hammer` op just before they ask for the file lock
// (the "Receiving part:" debug line is the last thing Receive does before getPathLock).
var hammerGate atomic.Pointer[hammerBarrier]

type hammerBarrier struct {
	need    int32
	arrived atomic.Int32
}

func (quietLogger) Debug(a ...interface{}) {
	if hb := hammerGate.Load(); hb != nil && len(a) > 1 {
		if s, ok := a[1].(string); ok && s == "Receiving part:" {
			hb.arrived.Add(1)
			for t0 := time.Now(); hb.arrived.Load() < hb.need && time.Since(t0) < 5*time.Millisecond; {
			}
		}
	}
	if os.Getenv("VERIF_STAGE_LOG") == "2" {
		fmt.Fprintln(os.Stderr, append([]interface{}{"D"}, a...)...)
	}
}
func (quietLogger) Info(a ...interface{}) {
	if os.Getenv("VERIF_STAGE_LOG") != "" {
		fmt.Fprintln(os.Stderr, append([]interface{}{"I"}, a...)...)
	}
}
func (quietLogger) Error(a ...interface{}) {
	if os.Getenv("VERIF_STAGE_LOG") != "" {
		fmt.Fprintln(os.Stderr, append([]interface{}{"E"}, a...)...)
	}
}
func (quietLogger) Recent(int) []string  { return nil }

func newStageRig() (*stageRig, error) {
	installStageHook()
	tmp := os.Getenv("VERIF_TMP")
	if tmp == "" {
		tmp = os.TempDir()
	}
	os.MkdirAll(tmp, 0o755)
	sb, err := os.MkdirTemp(tmp, "stage-")
	if err != nil {
		return nil, err
	}
	r := &stageRig{sandbox: sb, opened: map[string]chan struct{}{}, base: time.Now().Unix()}
	r.cond = sync.NewCond(&r.mu)
	r.newInstance(filepath.Join(sb, "g0"))
	return r, nil
}

func (r *stageRig) newInstance(dir string) {
	r.mu.Lock()
	// goroutines of the old instance that wait at a gate stay parked for good (a dead
	// process does nothing any more)
	r.waiters = nil
	r.tickets = nil
	r.pending = 0
	r.pendV = map[string]int{}
	r.pendF = 0
	r.vOrder = nil
	r.doneEvts = nil
	r.auto = false
	r.held, r.heldName = nil, ""
	r.root = filepath.Join(dir, "stage")
	r.final = filepath.Join(dir, "final")
	r.logdir = filepath.Join(dir, "log")
	r.mu.Unlock()
	r.cond.Broadcast()
	os.MkdirAll(r.root, 0o755)
	os.MkdirAll(r.final, 0o755)
	os.MkdirAll(r.logdir, 0o755)
	r.logger = stslog.NewFileIO(r.logdir, nil, safeLogOpen, true)
	activeRig = r
	r.st = stage.New("verif", r.root, r.final, r.logger, nil, nil)
}

func (r *stageRig) abandon() {
	if r.st != nil {
		r.st.VerifStopTimers()
		r.st.Stop(true)
	}
}

func (r *stageRig) close() {
	r.abandon()
	r.mu.Lock()
	r.root = "\x00none"
	r.waiters = nil
	r.mu.Unlock()
	r.cond.Broadcast()
	activeRig = nil
	os.RemoveAll(r.sandbox)
}

func lastString(kv []any) string {
	if len(kv) == 0 {
		return ""
	}
	s, _ := kv[len(kv)-1].(string)
	return s
}

func (r *stageRig) onHook(label string, kv ...any) {
	first := ""
	if len(kv) > 0 {
		first, _ = kv[0].(string)
	}
	r.mu.Lock()
	if p := r.pause; p != nil && p.label == label && (p.key == "" || p.key == first) && (p.root == "" || p.root == lastString(kv)) {
		r.pause = nil
		r.mu.Unlock()
		close(p.hit)
		<-p.resume
	} else {
		r.mu.Unlock()
	}
	if label == "stage.recv.opened" {
		r.signalOpened(first)
		return
	}
	if label == "stage.recv.locked" {
		return
	}
	if strings.Contains(label, ".d.") {
		// durable step: first arg is a path under the stage or final root
		r.mu.Lock()
		mine := strings.HasPrefix(first, r.root+string(os.PathSeparator)) || strings.HasPrefix(first, r.final+string(os.PathSeparator))
		if mine && r.cutK > 0 {
			r.durCount++
			if r.durCount == r.cutK && r.snapDir == "" {
				dst := filepath.Join(r.sandbox, fmt.Sprintf("g%d", r.gen+1))
				src := filepath.Dir(r.root)
				r.mu.Unlock()
				copyTree(src, dst)
				r.mu.Lock()
				r.snapDir = dst
			}
		} else if mine {
			r.durCount++
		}
		r.mu.Unlock()
		return
	}
	root := lastString(kv)
	vkey := first
	if len(kv) >= 3 {
		if h, ok := kv[1].(string); ok {
			vkey = first + "|" + h
		}
	}
	r.mu.Lock()
	if root != r.root {
		r.mu.Unlock()
		// an abandoned instance (or a Stage of another rig, e.g. the end-to-end rig):
		// a dead process must not act any more, so its workers park at the next gate
		if strings.HasPrefix(root, r.sandbox) && strings.HasSuffix(label, ".begin") {
			select {}
		}
		return
	}
	switch label {
	case "stage.spawn.validate":
		r.pending++
		r.pendV[first]++
		r.vOrder = append(r.vOrder, vkey)
		r.tickets = append(r.tickets, &ticket{kind: "validate", name: first})
	case "stage.spawn.finalize":
		r.pending++
		r.pendF++
		r.tickets = append(r.tickets, &ticket{kind: "finalize", name: first})
	case "stage.enq.validate.begin", "stage.enq.finalize.begin":
		kind := "validate"
		if strings.Contains(label, "finalize") {
			kind = "finalize"
		}
		// wait for our turn: the first unclaimed ticket of this kind+name, and every earlier ticket done
		var mineT *ticket
		for {
			if r.root != root {
				r.mu.Unlock()
				select {}
			}
			if mineT == nil {
				for _, t := range r.tickets {
					if !t.took && t.kind == kind && t.name == first {
						t.took = true
						mineT = t
						break
					}
				}
				if mineT == nil {
					// a hand-off without a spawn event (direct call): let it pass
					r.mu.Unlock()
					return
				}
			}
			ok := true
			for _, t := range r.tickets {
				if t == mineT {
					break
				}
				if !t.done {
					ok = false
					break
				}
			}
			if ok {
				break
			}
			r.cond.Wait()
		}
	case "stage.enq.validate.end", "stage.enq.finalize.end":
		kind := "validate"
		if strings.Contains(label, "finalize") {
			kind = "finalize"
		}
		for _, t := range r.tickets {
			if t.took && !t.done && t.kind == kind && t.name == first {
				t.done = true
				break
			}
		}
		// drop the finished prefix
		for len(r.tickets) > 0 && r.tickets[0].done {
			r.tickets = r.tickets[1:]
		}
		r.cond.Broadcast()
	case "stage.done.validate":
		r.pending--
		r.pendV[first]--
		for i, n := range r.vOrder {
			if n == vkey {
				r.vOrder = append(r.vOrder[:i], r.vOrder[i+1:]...)
				break
			}
		}
		r.doneEvts = append(r.doneEvts, "validate:"+first)
		r.doneEvts = append(r.doneEvts, "validatek:"+vkey)
		r.cond.Broadcast()
	case "stage.process.end", "stage.recover.dup.end":
		// (the duplicate branch of Recover's validate loop stands in for process(): same gate, same done event)
		r.doneEvts = append(r.doneEvts, "process:"+first)
		r.doneEvts = append(r.doneEvts, "processk:"+vkey)
		r.cond.Broadcast()
	case "stage.done.finalize":
		r.pending--
		r.pendF--
		r.doneEvts = append(r.doneEvts, "finalize:"+first)
		r.cond.Broadcast()
	case "stage.process.begin", "stage.finh.begin", "stage.recover.dup.begin":
		if r.auto {
			break
		}
		kind := "process"
		if label == "stage.finh.begin" {
			kind = "finh"
		}
		w := &gateWaiter{kind: kind, name: first, key: vkey, ch: make(chan struct{})}
		r.waiters = append(r.waiters, w)
		r.cond.Broadcast()
		r.mu.Unlock()
		<-w.ch
		return
	}
	r.mu.Unlock()
}

func (r *stageRig) isHeld() bool {
	r.mu.Lock()
	defer r.mu.Unlock()
	return r.held != nil
}

// onOpened is called through the path-carrying hook "stage.recv.opened".
func (r *stageRig) signalOpened(path string) {
	r.mu.Lock()
	ch := r.opened[path]
	delete(r.opened, path)
	r.mu.Unlock()
	if ch != nil {
		close(ch)
	}
}

func copyTree(src, dst string) {
	filepath.Walk(src, func(p string, info os.FileInfo, err error) error {
		if err != nil {
			return nil
		}
		rel, _ := filepath.Rel(src, p)
		t := filepath.Join(dst, rel)
		if info.IsDir() {
			os.MkdirAll(t, 0o755)
			return nil
		}
		b, err := os.ReadFile(p)
		if err != nil {
			return nil
		}
		os.WriteFile(t, b, 0o644)
		os.Chtimes(t, info.ModTime(), info.ModTime())
		return nil
	})
}

// wait until cond() holds (checked under the lock) or the timeout expires
func (r *stageRig) waitFor(d time.Duration, cond func() bool) bool {
	deadline := time.Now().Add(d)
	stop := make(chan struct{})
	go func() {
		t := time.NewTicker(5 * time.Millisecond)
		defer t.Stop()
		for {
			select {
			case <-stop:
				return
			case <-t.C:
				r.cond.Broadcast()
			}
		}
	}()
	defer close(stop)
	r.mu.Lock()
	defer r.mu.Unlock()
	for !cond() {
		if time.Now().After(deadline) {
			return false
		}
		r.cond.Wait()
	}
	return true
}

func (r *stageRig) releaseGate(kind, name string) (string, bool) {
	n, _, ok := r.releaseGateUntil(kind, name, nil)
	return n, ok
}

// releaseGateUntil opens the gate for one worker and waits until that worker is done or, when pp is given, until
// it is parked at the pause point pp (then `paused` is true and the worker stays there until pp.resume is closed).
func (r *stageRig) releaseGateUntil(kind, name string, pp *pausePoint) (wname string, paused bool, ok bool) {
	var w *gateWaiter
	ok = r.waitFor(10*time.Second, func() bool {
		want := ""
		if kind == "process" {
			// the oldest queued validation of that name (the validators take the
			// channel in order but reach the gate in any order)
			for _, k := range r.vOrder {
				if name == "" || strings.HasPrefix(k, name+"|") || k == name {
					want = k
					break
				}
			}
			if want == "" {
				return false
			}
		}
		for i, x := range r.waiters {
			if x.kind != kind {
				continue
			}
			if kind == "process" && x.key != want {
				continue
			}
			if kind == "finh" && name != "" && x.name != name {
				continue
			}
			w = x
			r.waiters = append(r.waiters[:i], r.waiters[i+1:]...)
			return true
		}
		return false
	})
	if !ok {
		return "", false, false
	}
	key := "validatek:" + w.key
	if kind == "finh" {
		key = "finalize:" + w.name
	}
	r.mu.Lock()
	n0 := 0
	for _, e := range r.doneEvts {
		if e == key {
			n0++
		}
	}
	r.mu.Unlock()
	if pp != nil {
		r.mu.Lock()
		r.pause = pp
		r.mu.Unlock()
	}
	close(w.ch)
	ok = r.waitFor(20*time.Second, func() bool {
		if pp != nil {
			select {
			case <-pp.hit:
				paused = true
				return true
			default:
			}
		}
		n := 0
		for _, e := range r.doneEvts {
			if e == key {
				n++
			}
		}
		return n > n0
	})
	if pp != nil {
		r.mu.Lock()
		if r.pause == pp {
			r.pause = nil
		}
		r.mu.Unlock()
	}
	return w.name, paused, ok
}

// countDone: how often the done event `key` was seen (call with r.mu held or from waitFor's condition)
func (r *stageRig) countDone(key string) int {
	n := 0
	for _, e := range r.doneEvts {
		if e == key {
			n++
		}
	}
	return n
}

// settle runs the pipeline to quiescence one action at a time, in the model's canonical
// order: queued validations first (spawn order), then the head of the finalize queue.
func (r *stageRig) settle() bool {
	for step := 0; step < 10000; step++ {
		r.mu.Lock()
		pending := r.pending
		var next string
		if len(r.vOrder) > 0 {
			next = r.vOrder[0]
		}
		pf := r.pendF
		held := r.held != nil
		r.mu.Unlock()
		if pending == 0 {
			return true
		}
		if next != "" {
			if i := strings.Index(next, "|"); i >= 0 {
				next = next[:i]
			}
			if _, ok := r.releaseGate("process", next); !ok {
				return false
			}
			continue
		}
		if held {
			// the finalize handler (one goroutine) is parked in the middle of an item: nothing leaves the
			// finalize queue; everything that is still outstanding is queued behind it
			return true
		}
		if pf > 0 {
			if _, ok := r.releaseGate("finh", ""); !ok {
				return false
			}
			continue
		}
		// something is spawned but not yet queued anywhere we track: wait for it
		if !r.waitFor(10*time.Second, func() bool { return r.pending == 0 || len(r.vOrder) > 0 || r.pendF > 0 }) {
			return false
		}
	}
	return false
}

// ---------------------------------------------------------------------------------------

type binnedPart struct {
	name, renamed, prev, hash string
	ftime                     time.Time
	size, beg, end            int64
}

func (b *binnedPart) GetName() string          { return b.name }
func (b *binnedPart) GetRenamed() string       { return b.renamed }
func (b *binnedPart) GetPrev() string          { return b.prev }
func (b *binnedPart) GetFileTime() time.Time   { return b.ftime }
func (b *binnedPart) GetFileHash() string      { return b.hash }
func (b *binnedPart) GetFileSize() int64       { return b.size }
func (b *binnedPart) GetSendSize() int64       { return b.size }
func (b *binnedPart) GetSlice() (int64, int64) { return b.beg, b.end }

type blockingReader struct {
	data chan []byte
	buf  []byte
	eof  bool
}

func (b *blockingReader) Read(p []byte) (int, error) {
	if len(b.buf) == 0 {
		if b.eof {
			return 0, io.EOF
		}
		d, ok := <-b.data
		if !ok {
			return 0, io.EOF
		}
		b.buf = d
		b.eof = true
		if len(d) == 0 {
			return 0, io.EOF
		}
	}
	n := copy(p, b.buf)
	b.buf = b.buf[n:]
	return n, nil
}

type pendingRecv struct {
	rd   *blockingReader
	done chan error
	name string // what the reception announced: name, hash token, first byte
	tok  string
	beg  int64
}

type stageExec struct {
	emu       sync.Mutex
	rig       *stageRig
	err       error
	md5Of     map[string]string // model hash token -> md5 hex
	tokOf     map[string]string // md5 hex -> model hash token
	names     map[string]bool
	targets   map[string]bool
	handles   map[string]*pendingRecv
	fails     []string
	key       strings.Builder
	nOps      int
	kinds     map[string]bool
	delivered map[string][]byte          // target -> body seen in final dir (oracle)
	versions  map[string]map[string]bool // name -> set of model hash tokens announced for it
	corrupted map[string]bool
	acked     map[string][][2]int64 // name|md5 -> acknowledged ranges
	oldLogged map[string]int64      // name|md5|renamed -> time of a record written by `oldlog`
	prevOf    map[string]string     // name|hashtoken -> predecessor announced last for that version
	renamedOf map[string]map[string]bool // name|hashtoken -> the rename targets ("" = none) announced for that version
	arrivals  map[string][]arrival // name -> versions whose parts arrived, with the number of log records of the name then
	written   map[string][][2]int64 // name -> ranges fed into the current partial since it was created
	exempt    map[string]bool       // names to which a natural PrepareOk failure happened
	misfed    map[string]bool // names for which some reception fed bytes other than the announced version's
	failedAt  map[string]int // name -> op number of a `status` answer "failed" with only queries since
	failedAcross map[string]int // the same, with only queries, crashes, recoveries and settles since
	lastReq      map[string]int // name -> number of the last prepare / recv / ropen op that names it
	lastProc     map[string]int // name -> number of the last `process NAME` op
	servedUnrecovered bool // a request was served between a crash and the next recover
	lastCrash, lastRecover, lastSettle int // op numbers of the last cut/crash, recover, settle
	lastTouch map[string]int // token -> number of the last non-query op that mentions it (over-approximates "named in a request")
	gaveUp    bool                  // cleanwaiting ran: the order may have been given up for cycles
	crashes   int                   // crash / cut operations in this case
	confirmed map[string]bool       // names ever answered passed / waiting
	consumed  map[string]bool       // targets the harness consumed from the final directory
	// crash images in which a version was logged but not yet moved (`<name>.wait` with the MD5 of a receive-log
	// record of that name): name|md5 -> how often. Only such a crash may repeat a record (oracleOnce).
	tolerated map[string]int
	maxSpan   int64                   // largest |time offset| used by an op of this case (cache ageing needs > 20 h)
	taken     map[string]*takenFile   // target -> what the consumer took last (oracle delivered-twice)
}

// takenFile: a delivered file the consumer took from the final directory, and how many parts of each name had
// arrived by then.
type takenFile struct {
	md5  string
	narr map[string]int
}

func newStageExec() *stageExec {
	rig, err := newStageRig()
	return &stageExec{rig: rig, err: err, md5Of: map[string]string{}, tokOf: map[string]string{},
		names: map[string]bool{}, targets: map[string]bool{}, handles: map[string]*pendingRecv{},
		kinds: map[string]bool{}, delivered: map[string][]byte{}, versions: map[string]map[string]bool{}, corrupted: map[string]bool{},
		acked: map[string][][2]int64{}, oldLogged: map[string]int64{}, written: map[string][][2]int64{}, exempt: map[string]bool{}, misfed: map[string]bool{}, arrivals: map[string][]arrival{}, failedAt: map[string]int{}, prevOf: map[string]string{}, renamedOf: map[string]map[string]bool{}, confirmed: map[string]bool{}, consumed: map[string]bool{},
		tolerated: map[string]int{}, taken: map[string]*takenFile{}}
}

func parseBodyTok(s string) ([]byte, bool) {
	if s == "-" {
		return nil, true
	}
	var out []byte
	for _, f := range strings.Split(s, ".") {
		v, err := strconv.Atoi(f)
		if err != nil || v < 0 || v > 255 {
			return nil, false
		}
		out = append(out, byte(v))
	}
	return out, true
}

func bodyTok(b []byte) string {
	if len(b) == 0 {
		return ""
	}
	s := make([]string, len(b))
	for i, x := range b {
		s[i] = strconv.Itoa(int(x))
	}
	return strings.Join(s, ".")
}

func modelHashOfBody(b []byte) string { return "b" + bodyTok(b) }

func md5hex(b []byte) string { return fmt.Sprintf("%x", md5.Sum(b)) }

// realHash maps a model hash token to the MD5 the implementation sees.
func (e *stageExec) realHash(tok string) string {
	e.emu.Lock()
	defer e.emu.Unlock()
	if h, ok := e.md5Of[tok]; ok {
		return h
	}
	var h string
	if strings.HasPrefix(tok, "b") {
		if body, ok := parseBodyTok(strings.TrimPrefix(tok, "b")); ok || tok == "b" {
			h = md5hex(body)
		}
	}
	if h == "" {
		h = md5hex([]byte("bogus:" + tok))
	}
	if prev, ok := e.tokOf[h]; ok && prev != tok {
		e.fails = append(e.fails, "harness: MD5 collision between "+prev+" and "+tok)
	}
	e.md5Of[tok] = h
	e.tokOf[h] = tok
	return h
}

func (e *stageExec) tokOfHash(h string) string {
	if t, ok := e.tokOf[h]; ok {
		return t
	}
	return "md5:" + h
}

func (e *stageExec) tm(off string) (time.Time, bool) {
	v, err := strconv.ParseInt(off, 10, 64)
	if err != nil {
		return time.Time{}, false
	}
	if v > e.maxSpan {
		e.maxSpan = v
	} else if -v > e.maxSpan {
		e.maxSpan = -v
	}
	return time.Unix(e.rig.base+v, 0), true
}

func (e *stageExec) Rewrite(op []string) []string {
	if len(op) == 2 && op[0] == "base" {
		return []string{"base", strconv.FormatInt(e.rig.base, 10)}
	}
	i := 0
	if len(op) >= 3 && op[0] == "cut" {
		i = 2
	}
	if len(op) >= i+2 && (op[i] == "recover" || op[i] == "cleanstrays") {
		ext := ".cmp"
		if op[i] == "cleanstrays" {
			ext = ".part"
		}
		out := append([]string{}, op[:i+2]...)
		filepath.Walk(e.rig.root, func(p string, info os.FileInfo, err error) error {
			if err == nil && !info.IsDir() && filepath.Ext(p) == ext {
				rel, _ := filepath.Rel(e.rig.root, p)
				out = append(out, esc(strings.TrimSuffix(rel, ext)))
			}
			return nil
		})
		return out
	}
	return op
}

// oracleHeldTimer (C04, release half): a file parked behind a predecessor the receiver knows nothing about (no
// staged file of it, not named in any request since this Stage object was created, so no cache entry and no path
// lock) is released only by the search of the receive log, which goes one window further back each time the retry
// timer fires. With the receiver quiescent such a file must have a retry timer pending; otherwise nothing will ever
// look for the predecessor's record again and the file stays held for ever (the sender was told "waiting" and has
// marked it done).
func (e *stageExec) oracleHeldTimer(name string) {
	r := e.rig
	if e.lastSettle != e.nOps-1 || e.lastCrash > e.lastRecover || r.st == nil {
		return
	}
	base := filepath.Join(r.root, name)
	if _, err := os.Stat(base + ".wait"); err != nil {
		return
	}
	var c sts.Partial
	b, err := os.ReadFile(base + ".cmp")
	if err != nil || json.Unmarshal(b, &c) != nil || c.Prev == "" || c.Prev == name {
		return
	}
	if wb, err := os.ReadFile(base + ".wait"); err != nil || md5hex(wb) != c.Hash {
		// the held copy is not the version the companion describes (a newer version of the name is being received):
		// a restart does not park it again (named finding superseded_wait_ignored_by_recover, C06)
		return
	}
	if t, ok := e.lastTouch[c.Prev]; ok && t > e.lastCrash {
		return
	}
	for _, ext := range []string{".part", ".full", ".wait", ".cmp"} {
		if _, err := os.Stat(filepath.Join(r.root, c.Prev) + ext); err == nil {
			return
		}
	}
	if r.st.VerifState(c.Prev) != -1 { // stateUnknown
		return
	}
	e.fails = append(e.fails, fmt.Sprintf("held-without-timer: %s is held behind %s, which the receiver knows nothing about, and no retry timer is pending: the log search for the predecessor never continues", esc(name), esc(c.Prev)))
}

// latestVersionGood: the version of `name` announced last is logged, or held as `.wait` with its bytes (a failure
// reported for the name was then that of a stale queue item judging a newer version's bytes by an older hash; the
// restarted receiver validates what is staged by its own companion).
func (e *stageExec) latestVersionGood(name string) bool {
	arr := e.arrivals[name]
	if len(arr) == 0 {
		return true
	}
	h := e.realHash(arr[len(arr)-1].tok)
	for _, l := range e.readLog() {
		if l.name == name && l.hash == h {
			return true
		}
	}
	if b, err := os.ReadFile(filepath.Join(e.rig.root, name) + ".wait"); err == nil && md5hex(b) == h {
		return true
	}
	return false
}

func (e *stageExec) partial(n, renamed, prev, size, hash, beg, end string) (*sts.Partial, bool) {
	sz, err1 := strconv.ParseInt(size, 10, 64)
	b, err2 := strconv.ParseInt(beg, 10, 64)
	en, err3 := strconv.ParseInt(end, 10, 64)
	if err1 != nil || err2 != nil || err3 != nil {
		return nil, false
	}
	name := unesc(n)
	t := unesc(renamed)
	if t == "" {
		t = name
	}
	tok := unesc(hash)
	e.emu.Lock()
	e.names[name] = true
	e.targets[t] = true
	if e.versions[name] == nil {
		e.versions[name] = map[string]bool{}
	}
	e.versions[name][tok] = true
	e.prevOf[name+"|"+tok] = unesc(prev)
	if e.renamedOf[name+"|"+tok] == nil {
		e.renamedOf[name+"|"+tok] = map[string]bool{}
	}
	e.renamedOf[name+"|"+tok][unesc(renamed)] = true
	// when a part of a version arrives, remember how many receive-log records of the name exist (oracleOnce)
	nrec := 0
	for _, l := range e.readLog() {
		if l.name == name {
			nrec++
		}
	}
	e.arrivals[name] = append(e.arrivals[name], arrival{tok, nrec})
	e.emu.Unlock()
	return &sts.Partial{Name: name, Renamed: unesc(renamed), Prev: unesc(prev), Size: sz,
		Hash: e.realHash(tok), Source: "verif", Time: marshal.NanoTime{Time: time.Unix(e.rig.base, 0)},
		Parts: []*sts.ByteRange{{Beg: b, End: en}}}, true
}

func (e *stageExec) Do(op []string) string {
	if e.err != nil {
		return "harness-error " + esc(e.err.Error())
	}
	e.nOps++
	e.kinds[op[0]] = true
	switch op[0] {
	case "status", "received", "receivedn", "scan", "observe", "mem":
	default:
		e.failedAt = map[string]int{} // anything but a query may legitimately change what the receiver holds
	}
	switch op[0] {
	case "status", "received", "receivedn", "scan", "observe", "mem", "crash", "recover", "settle":
	default:
		e.failedAcross = map[string]int{}
	}
	if e.lastReq == nil {
		e.lastReq, e.lastProc = map[string]int{}, map[string]int{}
	}
	switch op[0] {
	case "prepare", "recv", "racerecv":
		if len(op) > 1 {
			e.lastReq[unesc(op[1])] = e.nOps
		}
	case "ropen":
		if len(op) > 2 {
			e.lastReq[unesc(op[2])] = e.nOps
		}
	case "process":
		if len(op) > 1 {
			e.lastProc[unesc(op[1])] = e.nOps
		}
	}
	switch op[0] {
	case "status", "received", "receivedn", "scan", "observe", "mem", "firetimer", "settle", "oldlog":
	default:
		if e.lastTouch == nil {
			e.lastTouch = map[string]int{}
		}
		for _, t := range op[1:] {
			e.lastTouch[unesc(t)] = e.nOps
		}
	}
	switch op[0] {
	case "prepare", "recv", "ropen", "racerecv":
		if e.lastCrash > e.lastRecover {
			// a request served between a crash and the recovery: the real receiver refuses it (C15); what it does to
			// the staging area is outside the properties
			e.servedUnrecovered = true
		}
	}
	switch op[0] {
	case "cut", "crash":
		e.lastCrash = e.nOps
	case "recover":
		e.lastRecover = e.nOps
	case "settle":
		e.lastSettle = e.nOps
	}
	e.key.WriteString(strings.Join(op, " "))
	e.key.WriteByte(';')
	r := e.rig
	if len(op) >= 3 && op[0] == "cut" {
		k, err := strconv.Atoi(op[1])
		if err != nil {
			return "bad-op"
		}
		e.crashes++
		r.mu.Lock()
		r.cutK, r.durCount, r.snapDir = k, 0, ""
		if k == 0 {
			// image before the operation starts
			r.mu.Unlock()
			dst := filepath.Join(r.sandbox, fmt.Sprintf("g%d", r.gen+1))
			copyTree(filepath.Dir(r.root), dst)
			r.mu.Lock()
			r.snapDir = dst
		}
		r.mu.Unlock()
		ans := e.do1(op[2:])
		if ans == "bad-op" {
			return ans
		}
		r.mu.Lock()
		count, snap := r.durCount, r.snapDir
		r.cutK = 0
		r.mu.Unlock()
		// crash: abandon this instance, continue on the image (or on the same tree when the
		// operation had fewer durable steps than k)
		r.abandon()
		r.gen++
		if snap == "" {
			dst := filepath.Join(r.sandbox, fmt.Sprintf("g%d", r.gen))
			copyTree(filepath.Dir(r.root), dst)
			snap = dst
		}
		e.handles = map[string]*pendingRecv{}
		r.newInstance(snap)
		e.noteImage()
		kk := k
		if count < kk {
			kk = count
		}
		return fmt.Sprintf("%s cut=%d/%d", ans, kk, count)
	}
	return e.do1(op)
}

func (e *stageExec) do1(op []string) string {
	r := e.rig
	switch {
	case len(op) == 2 && op[0] == "base":
		return "ok"
	case len(op) == 4 && op[0] == "prepare":
		sz, err := strconv.ParseInt(op[2], 10, 64)
		if err != nil {
			return "bad-op"
		}
		name := unesc(op[1])
		e.names[name] = true
		before, _ := os.Stat(filepath.Join(r.root, name) + ".cmp")
		if before != nil {
			// hypothesis PrepareOk of record_sound (witness natural_fails_prepare): a partial (re)created under a
			// companion that survives - the companion of a version that is in the pipeline (neither unknown nor
			// failed) and not logged, with no partial of the announced size - loses what the companion lists;
			// names to which that happened are exempt from the listing oracle
			pi, perr := os.Stat(filepath.Join(r.root, name) + ".part")
			st := r.st.VerifState(name)
			if (perr != nil || pi.Size() != sz) && st != -1 && st != 2 {
				logged := false
				var c sts.Partial
				if b, err := os.ReadFile(filepath.Join(r.root, name) + ".cmp"); err == nil && json.Unmarshal(b, &c) == nil {
					for _, l := range e.readLog() {
						if l.name == name && l.hash == c.Hash {
							logged = true
						}
					}
				}
				if !logged {
					e.misfed[name] = true
					e.exempt[name] = true
				}
			}
		}
		partBefore, _ := os.Stat(filepath.Join(r.root, name) + ".part")
		r.st.Prepare([]sts.Binned{&binnedPart{name: name, size: sz}})
		if partAfter, _ := os.Stat(filepath.Join(r.root, name) + ".part"); partAfter != nil && (partBefore == nil || !os.SameFile(partBefore, partAfter)) {
			// a fresh, zero-filled partial: nothing has been written into it yet
			e.emu.Lock()
			e.written[name] = nil
			e.emu.Unlock()
		}
		if after, _ := os.Stat(filepath.Join(r.root, name) + ".cmp"); before != nil && after == nil {
			// a stale companion was discarded together with the (re)created partial
			e.emu.Lock()
			for kk := range e.acked {
				if strings.HasPrefix(kk, name+"|") {
					delete(e.acked, kk)
				}
			}
			e.emu.Unlock()
		}
		return "ok"
	case len(op) == 10 && op[0] == "recv":
		p, ok := e.partial(op[1], op[2], op[3], op[4], op[5], op[6], op[7])
		data, ok2 := parseBodyTok(op[8])
		if !ok || !ok2 {
			return "bad-op"
		}
		e.noteFed(p.Name, unesc(op[5]), p.Parts[0].Beg, data)
		err := r.st.Receive(p, strings.NewReader(string(data)))
		if err != nil {
			if strings.Contains(err.Error(), "failed to open file") {
				return "err-open"
			}
			if strings.Contains(err.Error(), "incomplete part") {
				return "err-short"
			}
			return "err " + esc(err.Error())
		}
		e.noteAck(p)
		return "ok"
	case len(op) >= 4 && (op[0] == "racerecv" || op[0] == "raceproc" || op[0] == "racefin"):
		return e.race(op)
	case len(op) == 9 && op[0] == "ropen":
		// start a Receive whose reader blocks; wait until it has opened the partial
		p, ok := e.partial(op[2], op[3], op[4], op[5], op[6], op[7], op[8])
		if !ok {
			return "bad-op"
		}
		path := filepath.Join(r.root, p.Name)
		if _, err := os.Stat(path + ".part"); err != nil {
			return "err-open"
		}
		pr := &pendingRecv{rd: &blockingReader{data: make(chan []byte, 1)}, done: make(chan error, 1), name: p.Name, tok: unesc(op[6]), beg: p.Parts[0].Beg}
		ch := make(chan struct{})
		r.mu.Lock()
		r.opened[path] = ch
		r.mu.Unlock()
		st := r.st
		go func() { pr.done <- st.Receive(p, pr.rd) }()
		select {
		case <-ch:
		case err := <-pr.done:
			return "err " + esc(fmt.Sprint(err))
		case <-time.After(10 * time.Second):
			return "harness-timeout"
		}
		e.handles[op[1]] = pr
		return "ok"
	case len(op) == 4 && op[0] == "rwrite":
		h := e.handles[op[1]]
		if h == nil {
			return "err-handle"
		}
		delete(e.handles, op[1])
		data, ok2 := parseBodyTok(op[2])
		if !ok2 {
			return "bad-op"
		}
		e.noteFed(h.name, h.tok, h.beg, data)
		h.rd.data <- data
		select {
		case err := <-h.done:
			if err != nil {
				if strings.Contains(err.Error(), "incomplete part") {
					return "err-short"
				}
				return "err " + esc(err.Error())
			}
		case <-time.After(20 * time.Second):
			return "harness-timeout"
		}
		return "ok"
	case len(op) == 3 && op[0] == "process":
		r.mu.Lock()
		q := r.pendV[unesc(op[1])]
		r.mu.Unlock()
		if q <= 0 {
			return "err-not-queued"
		}
		if _, ok := r.releaseGate("process", unesc(op[1])); !ok {
			return "harness-timeout"
		}
		return "ok"
	case len(op) == 3 && (op[0] == "finh" || op[0] == "finhold") && r.isHeld():
		return "err-busy"
	case len(op) == 3 && op[0] == "finhold":
		// the finalize handler runs its decision phase for the head of its channel (pre-check of the cached state
		// WITHOUT the file lock, isFileReady) and, if it decides to finalize, is parked right before finalize()
		// (hook point stage.finh.ready) while the operations that follow run; `finrelease` lets it go on
		r.mu.Lock()
		q := r.pendF
		r.mu.Unlock()
		if q <= 0 {
			return "err-not-queued"
		}
		var head string
		if !r.waitFor(10*time.Second, func() bool {
			for _, x := range r.waiters {
				if x.kind == "finh" {
					head = x.name
					return true
				}
			}
			return false
		}) {
			return "harness-timeout"
		}
		if head != unesc(op[1]) {
			return "err-not-head"
		}
		pp := &pausePoint{label: "stage.finh.ready", key: head, root: r.root, hit: make(chan struct{}), resume: make(chan struct{})}
		_, paused, ok := r.releaseGateUntil("finh", head, pp)
		if !ok {
			return "harness-timeout"
		}
		if paused {
			r.mu.Lock()
			r.held, r.heldName = pp, head
			r.mu.Unlock()
			return "held"
		}
		return "ok" // skipped (not validated any more) or parked on its predecessor
	case len(op) == 3 && op[0] == "finrelease":
		r.mu.Lock()
		pp, hn := r.held, r.heldName
		key := "finalize:" + hn
		n0 := r.countDone(key)
		if pp != nil && hn == unesc(op[1]) {
			r.held, r.heldName = nil, ""
		}
		r.mu.Unlock()
		if pp == nil || hn != unesc(op[1]) {
			return "err-not-held"
		}
		close(pp.resume)
		if !r.waitFor(20*time.Second, func() bool { return r.countDone(key) > n0 }) {
			return "harness-timeout"
		}
		return "ok"
	case len(op) == 3 && op[0] == "finh":
		r.mu.Lock()
		q := r.pendF
		r.mu.Unlock()
		if q <= 0 {
			return "err-not-queued"
		}
		// the handler holds the head of the channel; wait for it to reach the gate
		var head string
		if !r.waitFor(10*time.Second, func() bool {
			for _, x := range r.waiters {
				if x.kind == "finh" {
					head = x.name
					return true
				}
			}
			return false
		}) {
			return "harness-timeout"
		}
		if head != unesc(op[1]) {
			return "err-not-head"
		}
		if _, ok := r.releaseGate("finh", head); !ok {
			return "harness-timeout"
		}
		return "ok"
	case len(op) == 2 && op[0] == "settle":
		if !r.settle() {
			return "harness-timeout"
		}
		e.scanFinal()
		return "ok"
	case len(op) == 2 && op[0] == "firetimer":
		if r.st.VerifFireTimer(unesc(op[1])) {
			return "ok"
		}
		e.oracleHeldTimer(unesc(op[1]))
		return "err-no-timer"
	case len(op) == 2 && op[0] == "consume":
		t := unesc(op[1])
		e.scanFinal()
		e.consumed[t] = true
		if b, err := os.ReadFile(filepath.Join(r.final, t)); err == nil {
			tf := &takenFile{md5: md5hex(b), narr: map[string]int{}}
			for n, a := range e.arrivals {
				tf.narr[n] = len(a)
			}
			e.taken[t] = tf
		}
		os.Remove(filepath.Join(r.final, t))
		return "ok"
	case len(op) == 5 && op[0] == "corrupt":
		pos, err1 := strconv.Atoi(op[3])
		v, err2 := strconv.Atoi(op[4])
		if err1 != nil || err2 != nil {
			return "bad-op"
		}
		p := filepath.Join(r.root, unesc(op[1])) + "." + op[2]
		b, err := os.ReadFile(p)
		if err != nil {
			return "err-nofile"
		}
		e.corrupted[unesc(op[1])] = true
		info, _ := os.Stat(p)
		if pos < len(b) {
			b[pos] = byte(v)
			fh, err := os.OpenFile(p, os.O_WRONLY, 0)
			if err == nil {
				fh.WriteAt(b[pos:pos+1], int64(pos))
				fh.Close()
			}
			os.Chtimes(p, info.ModTime(), info.ModTime())
		}
		return "ok"
	case len(op) == 4 && op[0] == "chtime":
		t, ok := e.tm(op[3])
		if !ok {
			return "bad-op"
		}
		p := filepath.Join(r.root, unesc(op[1])) + "." + op[2]
		if _, err := os.Stat(p); err != nil {
			return "err-nofile"
		}
		os.Chtimes(p, t, t)
		return "ok"
	case len(op) >= 2 && op[0] == "recover":
		// Recover validates the complete files it finds with 24 concurrent workers; to keep
		// the hand-off order deterministic the rig lets them through one at a time, in walk
		// order (which is the order of the names on the op line).
		var expect []string
		for _, tok := range op[2:] {
			name := unesc(tok)
			base := filepath.Join(r.root, name)
			b, err := os.ReadFile(base + ".cmp")
			if err != nil {
				continue
			}
			var c sts.Partial
			if json.Unmarshal(b, &c) != nil {
				continue
			}
			if wb, err := os.ReadFile(base + ".wait"); err == nil && md5hex(wb) == c.Hash {
				continue // finalize list
			}
			if _, err := os.Stat(base + ".full"); err == nil {
				expect = append(expect, name)
			} else if _, err := os.Stat(base + ".part"); err == nil && stage.VerifIsCompanionComplete(&c) {
				expect = append(expect, name)
			}
		}
		done := make(chan struct{})
		st := r.st
		// C15: from the moment Recover returns the gatekeeper reports ready and requests are processed; every
		// complete file found on the stage must have been through its validation at that very moment
		early := ""
		go func() {
			st.Recover()
			for _, name := range expect {
				if _, err := os.Stat(filepath.Join(r.root, name) + ".full"); err == nil && st.VerifState(name) == 0 { // stateReceived
					early = fmt.Sprintf("ready-before-validated: Recover returned (the stage reports ready=%v) while %s, found complete on the stage, has not been validated yet", st.Ready(), esc(name))
					break
				}
			}
			close(done)
		}()
		defer func() {
			select {
			case <-done:
				if early != "" {
					e.fails = append(e.fails, early)
				}
			case <-time.After(2 * time.Second):
			}
		}()
		for _, name := range expect {
			key := "process:" + name
			r.mu.Lock()
			n0 := 0
			for _, ev := range r.doneEvts {
				if ev == key {
					n0++
				}
			}
			r.mu.Unlock()
			var w *gateWaiter
			if !r.waitFor(20*time.Second, func() bool {
				for i, x := range r.waiters {
					if x.kind == "process" && x.name == name {
						w = x
						r.waiters = append(r.waiters[:i], r.waiters[i+1:]...)
						return true
					}
				}
				return false
			}) {
				return "harness-timeout"
			}
			close(w.ch)
			if !r.waitFor(20*time.Second, func() bool {
				n := 0
				for _, ev := range r.doneEvts {
					if ev == key {
						n++
					}
				}
				return n > n0
			}) {
				return "harness-timeout"
			}
		}
		select {
		case <-done:
		case <-time.After(30 * time.Second):
			return "harness-timeout"
		}
		return "ok"
	case len(op) >= 2 && op[0] == "cleanstrays":
		before := listTree(filepath.Dir(r.root))
		// mtimes of the partials as the cleaner will see them (production threshold: 24 h)
		young := map[string]time.Duration{}
		filepath.Walk(r.root, func(p string, info os.FileInfo, err error) error {
			if err == nil && !info.IsDir() && strings.HasSuffix(p, ".part") {
				if age := time.Since(info.ModTime()); age < 24*time.Hour-time.Minute {
					rel, _ := filepath.Rel(r.root, p)
					young[rel] = age
				}
			}
			return nil
		})
		r.st.VerifCleanStrays()
		after := listTree(filepath.Dir(r.root))
		var youngNames []string
		for rel := range young {
			youngNames = append(youngNames, rel)
		}
		sort.Strings(youngNames)
		for _, rel := range youngNames {
			if _, ok := after["stage/"+rel]; !ok {
				if _, was := before["stage/"+rel]; was {
					// C20: a partial written to within the last 24 hours belongs to a transfer that may be running
					e.fails = append(e.fails, fmt.Sprintf("clean-removed-fresh: the cleaner removed %s, last written %s ago (threshold 24 h): data of a file that is still being received", esc(rel), young[rel].Round(time.Second)))
				}
			}
		}
		e.oracleClean(before, after)
		return "ok"
	case len(op) == 2 && op[0] == "cleancache":
		r.st.VerifCleanCache()
		return "ok"
	case len(op) == 6 && op[0] == "oldlog":
		sz, err := strconv.ParseInt(op[4], 10, 64)
		t, ok := e.tm(op[5])
		if err != nil || !ok {
			return "bad-op"
		}
		name := unesc(op[1])
		e.names[name] = true
		tok := unesc(op[3])
		e.versions[name] = map[string]bool{tok: true}
		tu := t.UTC()
		dir := filepath.Join(r.logdir, fmt.Sprintf("%04d%02d", tu.Year(), int(tu.Month())))
		os.MkdirAll(dir, 0o755)
		fh, err := os.OpenFile(filepath.Join(dir, fmt.Sprintf("%02d", tu.Day())), os.O_APPEND|os.O_CREATE|os.O_WRONLY, 0o644)
		if err != nil {
			return "harness-error " + esc(err.Error())
		}
		fmt.Fprintf(fh, "%s:%s:%s:%d:%d:\n", name, unesc(op[2]), e.realHash(tok), sz, t.Unix())
		fh.Close()
		e.oldLogged[name+"|"+e.realHash(tok)+"|"+unesc(op[2])] = t.Unix()
		return "ok"
	case len(op) == 3 && op[0] == "hammer":
		// C09 under real concurrency: K parts of a brand-new file arrive on K connections at the same instant
		// (lined up just before they take the file lock, right after a recovery question dropped the lock entry),
		// ROUNDS times on a stage of its own; every acknowledged part must be on record
		k, err1 := strconv.Atoi(op[1])
		rounds, err2 := strconv.Atoi(op[2])
		if err1 != nil || err2 != nil || k < 2 || k > 8 || rounds < 1 || rounds > 2000 {
			return "bad-op"
		}
		lost, herr := stageHammer(r.sandbox, k, rounds)
		if herr != nil {
			return "harness-error " + esc(herr.Error())
		}
		if lost != "" {
			e.fails = append(e.fails, "ack-lost: "+lost)
			return "lost"
		}
		return "ok"
	case len(op) == 1 && op[0] == "cleanwaiting":
		// the cleaner may give the order up only when predecessor references among the held files form a cycle
		if e.heldCycle() {
			e.gaveUp = true
		}
		r.st.VerifCleanWaiting()
		return "ok"
	case len(op) == 1 && op[0] == "crash":
		e.crashes++
		r.abandon()
		r.gen++
		dst := filepath.Join(r.sandbox, fmt.Sprintf("g%d", r.gen))
		copyTree(filepath.Dir(r.root), dst)
		e.handles = map[string]*pendingRecv{}
		r.newInstance(dst)
		e.noteImage()
		return "ok"
	case len(op) == 9 && op[0] == "received":
		ft, ok := e.tm(op[5])
		b, err1 := strconv.ParseInt(op[6], 10, 64)
		en, err2 := strconv.ParseInt(op[7], 10, 64)
		if !ok || err1 != nil || err2 != nil {
			return "bad-op"
		}
		name := unesc(op[1])
		e.names[name] = true
		n := r.st.Received([]sts.Binned{&binnedPart{name: name, renamed: unesc(op[2]), prev: unesc(op[3]),
			hash: e.realHash(unesc(op[4])), ftime: ft, beg: b, end: en}})
		ans := n == 1
		if ans {
			e.oracleReceived(name, unesc(op[4]), b, en)
		} else if lt, ok := e.oldLogged[name+"|"+e.realHash(unesc(op[4]))+"|"+unesc(op[2])]; ok && lt >= ft.Unix() && lt >= time.Now().Unix()-29*86400 && !e.otherVersionSeen(name, unesc(op[4])) {
			// C05: a delivery known from the log (not older than the announced file) must be remembered
			e.fails = append(e.fails, fmt.Sprintf("received-forgot-delivery: %s (%s) was delivered and logged by an earlier run, but the query answers 'not received'", name, unesc(op[4])))
		}
		return strconv.FormatBool(ans)
	case len(op) >= 9 && op[0] == "receivedn":
		// Stage.Received(parts): "how many of these parts did you receive" (the sender drops that many from
		// the front of the payload). receivedn <now> n renamed prev hash ftime beg fin [;; n renamed ...]
		var parts []sts.Binned
		type q struct {
			name, tok, renamed string
			ft                 time.Time
			b, en              int64
		}
		var qs []q
		rest := op[2:]
		for {
			if len(rest) < 7 {
				return "bad-op"
			}
			ft, ok := e.tm(rest[4])
			b, err1 := strconv.ParseInt(rest[5], 10, 64)
			en, err2 := strconv.ParseInt(rest[6], 10, 64)
			if !ok || err1 != nil || err2 != nil {
				return "bad-op"
			}
			name := unesc(rest[0])
			e.names[name] = true
			parts = append(parts, &binnedPart{name: name, renamed: unesc(rest[1]), prev: unesc(rest[2]),
				hash: e.realHash(unesc(rest[3])), ftime: ft, beg: b, end: en})
			qs = append(qs, q{name, unesc(rest[3]), unesc(rest[1]), ft, b, en})
			rest = rest[7:]
			if len(rest) == 0 {
				break
			}
			if rest[0] != ";;" {
				return "bad-op"
			}
			rest = rest[1:]
		}
		n := r.st.Received(parts)
		if n < 0 || n > len(qs) {
			e.fails = append(e.fails, fmt.Sprintf("received-count-out-of-range: %d for %d parts", n, len(qs)))
			return strconv.Itoa(n)
		}
		// C09: every part the count covers is claimed as received
		for _, x := range qs[:n] {
			e.oracleReceived(x.name, x.tok, x.b, x.en)
		}
		if n < len(qs) {
			x := qs[n]
			if lt, ok := e.oldLogged[x.name+"|"+e.realHash(x.tok)+"|"+x.renamed]; ok && lt >= x.ft.Unix() && lt >= time.Now().Unix()-29*86400 && !e.otherVersionSeen(x.name, x.tok) {
				e.fails = append(e.fails, fmt.Sprintf("received-forgot-delivery: %s (%s) was delivered and logged by an earlier run, but the query answers 'not received'", x.name, x.tok))
			}
		}
		return strconv.Itoa(n)
	case len(op) == 4 && op[0] == "status":
		sent, ok := e.tm(op[2])
		if !ok {
			return "bad-op"
		}
		name := unesc(op[1])
		e.names[name] = true
		code := r.st.GetFileStatus(name, sent)
		if code == sts.ConfirmPassed || code == sts.ConfirmWaiting {
			e.confirmed[name] = true
			// C02: "a failed answer never releases the file": a file reported as failed stays failed until it is
			// sent again; nothing but queries happened since that answer
			if at, ok := e.failedAcross[name]; ok && e.lastCrash > at && e.lastCrash < e.lastRecover && e.lastRecover < e.lastSettle && !e.latestVersionGood(name) {
				// C01 "content that does not match its announced hash ... is reported as failed so that the sender transmits
				// it again": the failed copy and its companion stay on the stage, a restarted receiver validates it again
				// and keeps saying failed (it must not fall back to an older log record of the name)
				e.fails = append(e.fails, fmt.Sprintf("failed-forgotten: %s was reported as failed (op %d); after a restart and recovery, with nothing sent in between, it is reported as %d", name, at, code))
			}
			if at, ok := e.failedAt[name]; ok {
				e.fails = append(e.fails, fmt.Sprintf("status-flip: %s was reported as failed (op %d) and is now reported as %d although only queries happened in between", name, at, code))
			}
		}
		if code == sts.ConfirmFailed {
			if _, ok := e.failedAt[name]; !ok {
				e.failedAt[name] = e.nOps
			}
			if e.failedAcross == nil {
				e.failedAcross = map[string]int{}
			}
			// the answer is about the transmission sent last only if its validation came after the last request that
			// names the file (a Prepare of a new transmission removes the failed copy's companion: nothing is left to
			// validate again after a restart, and the old answer stood for the previous transmission)
			if _, perr := os.Stat(filepath.Join(r.root, name) + ".part"); perr != nil {
				// (no partial of the name on the stage: no new transmission has begun since the failure)
				if q := e.lastReq[name]; e.lastSettle > q || e.lastProc[name] > q {
					e.failedAcross[name] = e.nOps
				}
			}
		} else {
			delete(e.failedAt, name)
			delete(e.failedAcross, name)
		}
		return strconv.Itoa(code)
	case len(op) == 1 && op[0] == "scan":
		b, err := r.st.Scan("1")
		if err != nil {
			return "err " + esc(err.Error())
		}
		var ps []*sts.Partial
		json.Unmarshal(b, &ps)
		sort.Slice(ps, func(i, j int) bool { return ps[i].Name < ps[j].Name })
		var items []string
		for _, p := range ps {
			items = append(items, esc(p.Name)+"="+e.fmtCmp(p))
			// C09: every range the listing claims (the sender will not send it again) is on disk byte for byte
			tok := e.tokOfHash(p.Hash)
			for _, rg := range p.Parts {
				if !e.misfed[p.Name] {
					e.oracleReceived(p.Name, tok, rg.Beg, rg.End)
				}
				if _, err := os.Stat(filepath.Join(r.root, p.Name) + ".part"); err == nil && !e.exempt[p.Name] && e.crashes == 0 {
					// ... and, whatever the bytes are, was written into the CURRENT partial (the model's ghost `written`)
					for x := rg.Beg; x < rg.End; x++ {
						covered := false
						for _, w := range e.written[p.Name] {
							if w[0] <= x && x < w[1] {
								covered = true
								break
							}
						}
						if !covered {
							e.fails = append(e.fails, fmt.Sprintf("received-unsound: listing claims %d:%d of %s (%s) but byte %d was never written into the current partial", rg.Beg, rg.End, p.Name, tok, x))
							break
						}
					}
				}
			}
		}
		return "partials{" + strings.Join(items, ";") + "}"
	case len(op) == 1 && op[0] == "observe":
		e.scanFinal()
		e.oracleAcks()
		e.oracleOrder()
		e.oracleOnce()
		e.oracleNotLost()
		return e.observe()
	case len(op) == 1 && op[0] == "mem":
		return "skip"
	}
	return "bad-op"
}

func (e *stageExec) fmtCmp(p *sts.Partial) string {
	var parts []string
	for _, x := range p.Parts {
		parts = append(parts, fmt.Sprintf("%d:%d", x.Beg, x.End))
	}
	ps := "-"
	if len(parts) > 0 {
		ps = strings.Join(parts, " ")
	}
	return fmt.Sprintf("%s,%s,%d,%s,%s", esc(p.Renamed), esc(p.Prev), p.Size, esc(e.tokOfHash(p.Hash)), ps)
}

func bodyOrDash(b []byte) string {
	if len(b) == 0 {
		return "-"
	}
	return bodyTok(b)
}

type arrival struct {
	tok  string
	nrec int
}

type logRec struct {
	name, renamed, hash string
	size                int64
}

func (e *stageExec) readLog() []logRec {
	var recs []logRec
	filepath.Walk(e.rig.logdir, func(p string, info os.FileInfo, err error) error {
		if err != nil || info.IsDir() {
			return nil
		}
		f, err := os.Open(p)
		if err != nil {
			return nil
		}
		defer f.Close()
		sc := bufio.NewScanner(f)
		for sc.Scan() {
			parts := strings.Split(sc.Text(), ":")
			if len(parts) < 5 {
				continue
			}
			sz, _ := strconv.ParseInt(parts[3], 10, 64)
			recs = append(recs, logRec{parts[0], parts[1], parts[2], sz})
		}
		return nil
	})
	return recs
}

func (e *stageExec) observe() string {
	r := e.rig
	sec := map[string][]string{}
	filepath.Walk(r.root, func(p string, info os.FileInfo, err error) error {
		if err != nil || info.IsDir() {
			return nil
		}
		rel, _ := filepath.Rel(r.root, p)
		switch {
		case strings.HasSuffix(rel, ".cmp.lck"):
			sec["cmplck"] = append(sec["cmplck"], esc(strings.TrimSuffix(rel, ".cmp.lck")))
		case strings.HasSuffix(rel, ".cmp"):
			b, _ := os.ReadFile(p)
			var c sts.Partial
			if json.Unmarshal(b, &c) == nil {
				n := strings.TrimSuffix(rel, ".cmp")
				sec["cmp"] = append(sec["cmp"], esc(n)+"="+e.fmtCmp(&c))
			}
		case strings.HasSuffix(rel, ".part"), strings.HasSuffix(rel, ".full"), strings.HasSuffix(rel, ".wait"):
			ext := filepath.Ext(rel)
			b, _ := os.ReadFile(p)
			sec[ext[1:]] = append(sec[ext[1:]], esc(strings.TrimSuffix(rel, ext))+"="+bodyOrDash(b))
		default:
			sec["other"] = append(sec["other"], esc(rel))
		}
		return nil
	})
	filepath.Walk(r.final, func(p string, info os.FileInfo, err error) error {
		if err != nil || info.IsDir() {
			return nil
		}
		rel, _ := filepath.Rel(r.final, p)
		b, _ := os.ReadFile(p)
		if strings.HasSuffix(rel, ".lck") {
			sec["finallck"] = append(sec["finallck"], esc(strings.TrimSuffix(rel, ".lck"))+"="+bodyOrDash(b))
		} else {
			sec["final"] = append(sec["final"], esc(rel)+"="+bodyOrDash(b))
		}
		return nil
	})
	for _, l := range e.readLog() {
		sec["log"] = append(sec["log"], fmt.Sprintf("%s,%s,%s,%d", esc(l.name), esc(l.renamed), esc(e.tokOfHash(l.hash)), l.size))
	}
	var out []string
	for _, k := range []string{"part", "full", "wait", "cmp", "cmplck", "final", "finallck", "log"} {
		items := sec[k]
		if k == "log" {
			sort.Strings(items)
		} else {
			// by name (the model's order), not by the text "name=…" ('.' sorts before '=')
			key := func(s string) string {
				if i := strings.IndexByte(s, '='); i >= 0 {
					return s[:i]
				}
				return s
			}
			sort.SliceStable(items, func(i, j int) bool {
				if a, b := key(items[i]), key(items[j]); a != b {
					return a < b
				}
				return items[i] < items[j]
			})
		}
		out = append(out, k+"{"+strings.Join(items, ";")+"}")
	}
	s := strings.Join(out, " ")
	if len(sec["other"]) > 0 {
		sort.Strings(sec["other"])
		s += " other{" + strings.Join(sec["other"], ";") + "}"
	}
	return s
}

// ---- property oracles on the implementation's observable behaviour ----------------------

// scanFinal: C01 — every file in the final directory must have the MD5 of a log record of
// its name/target, and be byte-identical to a version announced under that name.
func (e *stageExec) scanFinal() {
	r := e.rig
	recs := e.readLog()
	filepath.Walk(r.final, func(p string, info os.FileInfo, err error) error {
		if err != nil || info.IsDir() || strings.HasSuffix(p, ".lck") {
			return nil
		}
		rel, _ := filepath.Rel(r.final, p)
		b, _ := os.ReadFile(p)
		h := md5hex(b)
		ok := false
		for _, l := range recs {
			t := l.renamed
			if t == "" {
				t = l.name
			}
			if t == rel && l.hash == h {
				ok = true
				e.oracleTakenAgain(rel, h, l.name)
				// byte-identical to an announced version of that name
				tok := modelHashOfBody(b)
				if vs := e.versions[l.name]; vs != nil && !vs[tok] {
					e.fails = append(e.fails, fmt.Sprintf("final-not-a-version: %s delivered with body %s which was never announced for %s", rel, bodyOrDash(b), l.name))
				}
			}
		}
		if !ok {
			e.fails = append(e.fails, fmt.Sprintf("final-unlogged-or-mismatch: %s in the final directory (body %s) has no receive-log record with its MD5", rel, bodyOrDash(b)))
		}
		return nil
	})
}

// heldCycle: do the predecessor references of the files held in the staging area (validated, `.wait` on disk,
// predecessor read from the companion) form a cycle?
func (e *stageExec) heldCycle() bool {
	prev := map[string]string{}
	filepath.Walk(e.rig.root, func(p string, info os.FileInfo, err error) error {
		if err != nil || info.IsDir() || !strings.HasSuffix(p, ".wait") {
			return nil
		}
		base := strings.TrimSuffix(p, ".wait")
		rel, _ := filepath.Rel(e.rig.root, base)
		var c sts.Partial
		if b, err := os.ReadFile(base + ".cmp"); err == nil && json.Unmarshal(b, &c) == nil {
			prev[filepath.ToSlash(rel)] = filepath.ToSlash(c.Prev)
		}
		return nil
	})
	for start := range prev {
		seen := map[string]bool{}
		for n := start; ; {
			p, held := prev[n]
			if !held || p == "" {
				break
			}
			if seen[p] || p == start {
				return true
			}
			seen[p] = true
			n = p
		}
	}
	return false
}

// otherVersionSeen: a version of name other than tok arrived in this case. The receiver's cache is keyed by name:
// once a newer version is in the pipeline an older delivery of that name is no longer "the" file of that name,
// and a version that comes back after a different one counts as a new delivery (same rule as oracleOnce).
func (e *stageExec) otherVersionSeen(name, tok string) bool {
	for t := range e.versions[name] {
		if t != tok {
			return true
		}
	}
	return false
}

// oracleReceived: C09 — a part reported as received must be on disk byte for byte (checked
// against the bytes the harness fed for that version: hash token = body).
func (e *stageExec) oracleReceived(name, tok string, beg, end int64) {
	if !strings.HasPrefix(tok, "b") {
		return
	}
	body, ok := parseBodyTok(strings.TrimPrefix(tok, "b"))
	if !ok || int64(len(body)) < end {
		return
	}
	r := e.rig
	// delivered/logged with that hash: the answer is justified by the delivery
	for _, l := range e.readLog() {
		if l.name == name && l.hash == e.realHash(tok) {
			return
		}
	}
	if e.corrupted[name] {
		return // the environment overwrote staged bytes of this name; what was received is no longer on disk
	}
	base := filepath.Join(r.root, name)
	found := false
	for _, ext := range []string{".wait", ".full", ".part"} {
		if b, err := os.ReadFile(base + ext); err == nil {
			found = true
			if int64(len(b)) >= end && string(b[beg:end]) == string(body[beg:end]) {
				return
			}
		}
	}
	if found {
		e.fails = append(e.fails, fmt.Sprintf("received-unsound: part %d:%d of %s (%s) reported as received but no staged file holds these bytes", beg, end, name, tok))
		return
	}
	e.fails = append(e.fails, fmt.Sprintf("received-unsound: part %d:%d of %s (%s) reported as received but nothing is staged or logged", beg, end, name, tok))
}

// oracleOrder: C04 — a record whose version announced a real predecessor is preceded in the
// receive log by a record of that predecessor (unless the cleaner gave the order up).
func (e *stageExec) oracleOrder() {
	if e.gaveUp {
		return
	}
	seen := map[string]bool{}
	for _, l := range e.readLog() {
		tok := e.tokOfHash(l.hash)
		if p, ok := e.prevOf[l.name+"|"+tok]; ok && p != "" && p != l.name && !seen[p] {
			e.fails = append(e.fails, fmt.Sprintf("order-violated: %s (%s) was logged as received before its announced predecessor %s", l.name, tok, p))
		}
		seen[l.name] = true
	}
}

// oracleOnce: C05 — a version is logged once; only a crash between logging and moving may
// repeat the record.
func (e *stageExec) oracleOnce() {
	// per name, in log order: the same version logged again without another version of
	// that name in between (a version that came back after a different one is a new delivery)
	last := map[string]string{}
	rep := map[string]int{}
	repV := map[string]int{} // the same per version (name|md5)
	idx := map[string]int{}  // records of the name seen so far
	for _, l := range e.readLog() {
		if last[l.name] == l.hash {
			// ... and without a part of another version of that name having ARRIVED in between (it may have been
			// superseded or have failed validation and so never reached the log)
			other := false
			tok := e.tokOfHash(l.hash)
			for _, a := range e.arrivals[l.name] {
				if a.tok != tok && a.nrec == idx[l.name] {
					other = true
				}
			}
			if !other {
				rep[l.name]++
				repV[l.name+"|"+l.hash]++
			}
		}
		last[l.name] = l.hash
		idx[l.name]++
	}
	for name, c := range rep {
		if c > e.crashes {
			e.fails = append(e.fails, fmt.Sprintf("logged-twice: %d repeated receive-log record(s) for the same version of %s with %d crash(es) in the history", c, name, e.crashes))
		}
	}
	// Precisely: a record may repeat only for a crash BETWEEN the log record and the move, i.e. a crash image that
	// holds `<name>.wait` with the MD5 of a record of that name (noteImage). Any other repeat means the version was
	// validated, logged and delivered again. Judged only when the receiver cannot have forgotten the delivery by
	// design (cache ageing: cleancache, or times more than 20 h apart).
	if e.kinds["cleancache"] || e.kinds["oldlog"] || e.maxSpan > 20*3600 {
		return
	}
	for key, c := range repV {
		if c > e.tolerated[key] {
			i := strings.LastIndex(key, "|")
			e.fails = append(e.fails, fmt.Sprintf("logged-twice: %d repeated receive-log record(s) for version %s of %s, but only %d crash(es) fell between its log record and its move", c, e.tokOfHash(key[i+1:]), key[:i], e.tolerated[key]))
		}
	}
}

// noteImage is called on a fresh crash image: a `<name>.wait` whose MD5 is that of a receive-log record of the name
// is a version that was logged and not yet moved; finishing it after the restart repeats the record (tolerated).
func (e *stageExec) noteImage() {
	r := e.rig
	recs := e.readLog()
	filepath.Walk(r.root, func(p string, info os.FileInfo, err error) error {
		if err != nil || info.IsDir() || filepath.Ext(p) != ".wait" {
			return nil
		}
		rel, _ := filepath.Rel(r.root, p)
		name := strings.TrimSuffix(rel, ".wait")
		b, err := os.ReadFile(p)
		if err != nil {
			return nil
		}
		h := md5hex(b)
		for _, l := range recs {
			if l.name == name && l.hash == h {
				e.tolerated[name+"|"+h]++
				break
			}
		}
		return nil
	})
}

// oracleTakenAgain: C05/C06 — a delivered file that the consumer took is not delivered again: the same bytes do not
// reappear under the same target unless the sender sent another version of that name in between (then it is a new
// delivery) or the receiver may have forgotten the delivery by design (cache ageing).
func (e *stageExec) oracleTakenAgain(target, md5 string, name string) {
	tf := e.taken[target]
	if tf == nil || tf.md5 != md5 {
		return
	}
	delete(e.taken, target) // report once
	if e.kinds["cleancache"] || e.kinds["oldlog"] || e.maxSpan > 20*3600 || e.corrupted[name] {
		return
	}
	tok := e.tokOfHash(md5)
	arr := e.arrivals[name]
	for _, a := range arr[min(tf.narr[name], len(arr)):] {
		if a.tok != tok {
			return
		}
	}
	e.fails = append(e.fails, fmt.Sprintf("delivered-twice: %s (%s) was delivered, taken by the consumer, and is in the final directory again although no other version of %s arrived in between", target, tok, name))
}

// oracleNotLost: C06 — a file that was reported as passed / waiting is delivered (or was
// consumed from the final directory) or is still held validated in staging.
func (e *stageExec) oracleNotLost() {
	r := e.rig
	logged := map[string]bool{}
	for _, l := range e.readLog() {
		logged[l.name] = true
	}
	for name := range e.confirmed {
		if logged[name] {
			continue
		}
		if _, err := os.Stat(filepath.Join(r.root, name) + ".wait"); err == nil {
			// held: a restart finds a held file only through its companion
			if _, err := os.Stat(filepath.Join(r.root, name) + ".cmp"); err == nil {
				continue
			}
			if len(e.versions[name]) > 1 || e.servedUnrecovered {
				// a held version superseded by a newer one of the same name: the companion describes the newer
				// version or went with it (hypothesis of validated_survives_crash: companion_not_invariant,
				// witness superseded_wait_ignored_by_recover)
				continue
			}
			e.fails = append(e.fails, fmt.Sprintf("validated-lost: %s was reported as passed/waiting and is held as .wait, but its companion is gone: a restart will not find it", name))
			continue
		}
		e.fails = append(e.fails, fmt.Sprintf("validated-lost: %s was reported as passed/waiting but is neither logged nor held as .wait", name))
	}
	// A version is delivered under the name the sender asked for: the rename target of a record is one that was
	// announced for that version (the target travels with the companion across a restart).
	for _, l := range e.readLog() {
		if _, old := e.oldLogged[l.name+"|"+l.hash+"|"+l.renamed]; old {
			continue
		}
		tok := e.tokOfHash(l.hash)
		if set := e.renamedOf[l.name+"|"+tok]; set != nil && !set[l.renamed] {
			var want []string
			for t := range set {
				want = append(want, esc(t))
			}
			sort.Strings(want)
			e.fails = append(e.fails, fmt.Sprintf("final-wrong-target: %s (version %s) was announced with rename target %s but is recorded and delivered as %s",
				esc(l.name), tok, strings.Join(want, "|"), esc(l.renamed)))
			break
		}
	}
	// A logged version is delivered: the receive-log record is written BEFORE the move into the final directory, and
	// a restart must finish what the record promises (the sender is told "passed" from the record alone and never
	// sends the file again). Judged when the receiver is quiescent: no crash in the history, or recover + settle
	// after the last one. For each target the LAST record counts (later versions overwrite earlier ones).
	if e.lastCrash != 0 && !(e.lastCrash < e.lastRecover && e.lastRecover < e.lastSettle) {
		return
	}
	type lastRec struct{ name, hash string }
	lastOf := map[string]lastRec{}
	var order []string
	for _, l := range e.readLog() {
		t := l.renamed
		if t == "" {
			t = l.name
		}
		if _, ok := lastOf[t]; !ok {
			order = append(order, t)
		}
		lastOf[t] = lastRec{l.name, l.hash}
	}
	for _, t := range order {
		l := lastOf[t]
		tok := e.tokOfHash(l.hash)
		if _, old := e.oldLogged[l.name+"|"+l.hash+"|"+map[bool]string{true: "", false: t}[t == l.name]]; old {
			continue // a record of an earlier run (written by `oldlog`): its file was delivered then
		}
		if e.consumed[t] || e.corrupted[l.name] || e.otherVersionSeen(l.name, tok) {
			continue
		}
		if b, err := os.ReadFile(filepath.Join(r.final, t)); err == nil {
			if md5hex(b) == l.hash {
				continue
			}
			// the file IS there but its bytes are those of no logged version of this target (overwritten after the
			// delivery, e.g. through a stale handle: known finding S1): that is an integrity failure, reported by
			// scanFinal as final-unlogged-or-mismatch (C01), not a lost file
			known := false
			for _, x := range e.readLog() {
				xt := x.renamed
				if xt == "" {
					xt = x.name
				}
				if xt == t && x.hash == md5hex(b) {
					known = true
				}
			}
			if !known {
				continue
			}
		}
		if _, err := os.Stat(filepath.Join(r.final, t) + ".lck"); err == nil {
			continue
		}
		if _, err := os.Stat(filepath.Join(r.root, l.name) + ".wait"); err == nil {
			continue
		}
		e.fails = append(e.fails, fmt.Sprintf("validated-lost: %s (%s) has a receive-log record (the sender is told 'passed') but is neither in the final directory nor held in the staging area", l.name, tok))
	}

}

// oracleClean: C20 — cleaning removes only partials and companions, and a partial whose
// version (name, companion hash) is not in the receive log only when a complete copy of that
// very version passed validation and is held in the staging area (`<n>.wait` with the bytes of
// that hash: C20_only_delivered, clause (c)). A staged `.full` is no excuse: it awaits
// validation or FAILED it (the repaired defect: in cache state failed the cleaner removed the
// partial of the retransmission in progress).
func (e *stageExec) oracleClean(before, after map[string][]byte) {
	for _, p := range sortedNames(before) {
		if _, ok := after[p]; ok {
			continue
		}
		switch {
		case strings.HasPrefix(p, "stage/") && strings.HasSuffix(p, ".part"):
			name := strings.TrimSuffix(strings.TrimPrefix(p, "stage/"), ".part")
			hash := ""
			if cb, ok := before["stage/"+name+".cmp"]; ok {
				var c sts.Partial
				if json.Unmarshal(cb, &c) == nil {
					hash = c.Hash
				}
			}
			okLog := false
			for _, l := range e.readLog() {
				if l.name == name && (hash == "" || l.hash == hash) {
					okLog = true
				}
			}
			held := false
			if wb, ok := after["stage/"+name+".wait"]; ok {
				// without a companion nothing is on record about the partial: any held copy of the name counts;
				// after a `corrupt` of that name the held bytes cannot be compared with the hash
				held = hash == "" || md5hex(wb) == hash || e.corrupted[name]
			}
			if !okLog && !held {
				e.fails = append(e.fails, fmt.Sprintf("clean-removed-undelivered: partial of %s (companion hash %s) removed although that version is not logged and no validated copy of it is held", name, e.tokOfHash(hash)))
			}
		case strings.HasPrefix(p, "stage/") && strings.HasSuffix(p, ".cmp"):
			name := strings.TrimSuffix(strings.TrimPrefix(p, "stage/"), ".cmp")
			if _, ok := after["stage/"+name+".part"]; ok {
				e.fails = append(e.fails, fmt.Sprintf("clean-removed-live-companion: companion of %s removed while its partial stays", name))
			}
			// the companion is the only durable record (hash, predecessor) of a complete file
			// that still waits in staging for validation or for its predecessor
			hash := ""
			var c sts.Partial
			if json.Unmarshal(before[p], &c) == nil {
				hash = c.Hash
			}
			logged := false
			for _, l := range e.readLog() {
				if l.name == name && l.hash == hash {
					logged = true
				}
			}
			_, full := after["stage/"+name+".full"]
			_, wait := after["stage/"+name+".wait"]
			if !logged && (full || wait) {
				e.fails = append(e.fails, fmt.Sprintf("clean-removed-companion-of-staged: companion of %s (hash %s) removed while its complete copy is still staged and that version is not logged", name, e.tokOfHash(hash)))
			}
		default:
			e.fails = append(e.fails, "clean-removed-other: cleaning removed "+p)
		}
	}
	for _, p := range sortedNames(after) {
		if b, ok := before[p]; ok && string(b) != string(after[p]) {
			e.fails = append(e.fails, "clean-changed: cleaning changed "+p)
		}
	}
}

// noteAck remembers that the reception of a part was acknowledged (Receive returned nil).
// noteFed: the bytes a reception feeds differ from the announced version's bytes (corruption in transit, a wrong
// announced hash): what is on record for that name can then not be compared with the announced body.
func (e *stageExec) noteFed(name, tok string, beg int64, data []byte) {
	e.emu.Lock()
	e.written[name] = append(e.written[name], [2]int64{beg, beg + int64(len(data))})
	e.emu.Unlock()
	body, ok := parseBodyTok(strings.TrimPrefix(tok, "b"))
	if !strings.HasPrefix(tok, "b") || !ok || beg < 0 || int64(len(body)) < beg+int64(len(data)) || string(body[beg:beg+int64(len(data))]) != string(data) {
		e.emu.Lock()
		e.misfed[name] = true
		e.emu.Unlock()
	}
}

func (e *stageExec) noteAck(p *sts.Partial) {
	e.emu.Lock()
	defer e.emu.Unlock()
	k := p.Name + "|" + p.Hash
	if _, err := os.Stat(filepath.Join(e.rig.root, p.Name) + ".part"); err != nil {
		// this part completed the file (or was dropped as a duplicate of a known version):
		// the partial and the obligations about it are gone
		for kk := range e.acked {
			if strings.HasPrefix(kk, p.Name+"|") {
				delete(e.acked, kk)
			}
		}
		return
	}
	e.acked[k] = append(e.acked[k], [2]int64{p.Parts[0].Beg, p.Parts[0].End})
}

// oracleAcks: C09 — every acknowledged part stays on record until the file is complete or a
// different version replaces the companion.
func (e *stageExec) oracleAcks() {
	r := e.rig
	if e.crashes > 0 {
		return // a crash may lose the acknowledgement that was in flight; covered by the crash images
	}
	for k, ranges := range e.acked {
		i := strings.LastIndex(k, "|")
		name, hash := k[:i], k[i+1:]
		b, err := os.ReadFile(filepath.Join(r.root, name) + ".cmp")
		if err != nil {
			continue
		}
		var c sts.Partial
		if json.Unmarshal(b, &c) != nil || c.Hash != hash {
			continue
		}
		if _, err := os.Stat(filepath.Join(r.root, name) + ".part"); err != nil {
			continue // completed (or cleaned): no longer a partial
		}
		for _, rg := range ranges {
			for x := rg[0]; x < rg[1]; x++ {
				if !coveredBy(c.Parts, x) {
					e.fails = append(e.fails, fmt.Sprintf("ack-lost: part %d:%d of %s was acknowledged but byte %d is no longer on record (%s)", rg[0], rg[1], name, x, fmtParts(c.Parts)))
					break
				}
			}
		}
	}
}

// race: the first operation is held at a pause point inside its locked region while a second
// reception starts; then the first is released and both finish.
func (e *stageExec) race(op []string) string {
	r := e.rig
	sep := -1
	for i, t := range op {
		if t == ";;" {
			sep = i
		}
	}
	if sep < 0 || len(op)-sep-1 != 9 {
		return "bad-op"
	}
	second := append([]string{"recv"}, op[sep+1:]...)
	var first []string
	pp := &pausePoint{hit: make(chan struct{}), resume: make(chan struct{})}
	switch op[0] {
	case "racerecv":
		if sep != 10 {
			return "bad-op"
		}
		first = append([]string{"recv"}, op[1:sep]...)
		pp.label, pp.key = "stage.recv.locked", filepath.Join(r.root, unesc(op[1]))
	case "raceproc":
		if sep != 3 {
			return "bad-op"
		}
		first = []string{"process", op[1], op[2]}
		pp.label, pp.key = "stage.process.hashed", unesc(op[1])
	case "racefin":
		if sep != 3 {
			return "bad-op"
		}
		first = []string{"finh", op[1], op[2]}
		pp.label, pp.key = "stage.d.logged", filepath.Join(r.root, unesc(op[1]))
	}
	r.mu.Lock()
	r.pause = pp
	r.mu.Unlock()
	a1 := make(chan string, 1)
	go func() { a1 <- e.do1(first) }()
	var ans1 string
	held := false
	select {
	case <-pp.hit:
		held = true
	case ans1 = <-a1:
		// the first operation finished without reaching the pause point
	case <-time.After(15 * time.Second):
		return "harness-timeout"
	}
	r.mu.Lock()
	r.pause = nil
	r.mu.Unlock()
	a2 := make(chan string, 1)
	go func() { a2 <- e.do1(second) }()
	var ans2 string
	got2 := false
	select {
	case ans2 = <-a2:
		got2 = true
	case <-time.After(150 * time.Millisecond):
		// the second operation waits for the lock held by the first
	}
	if held {
		close(pp.resume)
		select {
		case ans1 = <-a1:
		case <-time.After(30 * time.Second):
			return "harness-timeout"
		}
	}
	if !got2 {
		select {
		case ans2 = <-a2:
		case <-time.After(30 * time.Second):
			return "harness-timeout"
		}
	}
	return ans1 + " ;; " + ans2
}

func (e *stageExec) Oracle() []string { f := e.fails; e.fails = nil; return f }
func (e *stageExec) Signature() (bool, string) {
	return e.nOps >= 4 && e.kinds["recv"] && (e.kinds["observe"] || e.kinds["status"] || e.kinds["received"] || e.kinds["receivedn"]), e.key.String()
}
func (e *stageExec) Close() {
	if e.rig != nil {
		e.rig.close()
	}
}


// stageHammer runs the hammer rounds on a fresh Stage under dir; returns a description of the first lost
// acknowledgement, or "".
func stageHammer(dir string, k, rounds int) (string, error) {
	base, err := os.MkdirTemp(dir, "hammer-")
	if err != nil {
		return "", err
	}
	defer os.RemoveAll(base)
	root, final, logdir := filepath.Join(base, "stage"), filepath.Join(base, "final"), filepath.Join(base, "log")
	for _, d := range []string{root, final, logdir} {
		os.MkdirAll(d, 0o755)
	}
	st := stage.New("hammer", root, final, stslog.NewFileIO(logdir, nil, safeLogOpen, false), nil, nil)
	defer st.Stop(true)
	st.Recover()
	const partLen = 8
	for round := 0; round < rounds; round++ {
		name := fmt.Sprintf("d%02d/f%05d.dat", round%7, round)
		size := int64((k + 1) * partLen) // one part is never sent: the file stays a partial
		body := make([]byte, size)
		for i := range body {
			body[i] = byte(round + i)
		}
		sum := md5.Sum(body)
		hash := hex.EncodeToString(sum[:])
		mk := func(i int) *sts.Partial {
			return &sts.Partial{Name: name, Size: size, Hash: hash, Source: "hammer", Time: marshal.NanoTime{Time: time.Unix(1700000000, 0)},
				Parts: []*sts.ByteRange{{Beg: int64(i * partLen), End: int64((i + 1) * partLen)}}}
		}
		st.Prepare([]sts.Binned{&binnedPart{name: name, size: size}})
		// the recovery question of a sender that lost an answer: nothing on record yet; drops the lock entry
		st.Received([]sts.Binned{&binnedPart{name: name, hash: hash, ftime: time.Unix(1700000000, 0), beg: 0, end: partLen}})
		hb := &hammerBarrier{need: int32(k)}
		hammerGate.Store(hb)
		errs := make([]error, k)
		var wg sync.WaitGroup
		for i := 0; i < k; i++ {
			wg.Add(1)
			go func(i int) {
				defer wg.Done()
				p := mk(i)
				errs[i] = st.Receive(p, bytes.NewReader(body[i*partLen:(i+1)*partLen]))
			}(i)
		}
		wg.Wait()
		hammerGate.Store(nil)
		for i := 0; i < k; i++ {
			if errs[i] != nil {
				continue
			}
			n := st.Received([]sts.Binned{&binnedPart{name: name, hash: hash, ftime: time.Unix(1700000000, 0), beg: int64(i * partLen), end: int64((i + 1) * partLen)}})
			if n != 1 {
				return fmt.Sprintf("round %d: part %d:%d of %s was acknowledged (Receive returned nil on one of %d concurrent connections) but is not on record any more", round, i*partLen, (i+1)*partLen, name, k), nil
			}
		}
	}
	return "", nil
}
