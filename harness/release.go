package main

import (
	"sync/atomic"
	"crypto/md5"
	"encoding/json"
	"errors"
	"fmt"
	"io"
	"os"
	"path/filepath"
	"regexp"
	"sort"
	"strconv"
	"strings"
	"syscall"
	"time"

	"github.com/arm-doe/sts"
	"github.com/arm-doe/sts/cache"
	"github.com/arm-doe/sts/client"
	stslog "github.com/arm-doe/sts/log"
	"github.com/arm-doe/sts/store"
)

// component "release": the sender's release decisions — client.Broker.recover / scan /
// startValidate / finish / startRetry / startTrack run on a real cache.JSON (temp file) and a real
// store.Local (temp dir) with scripted Recoverer / Validator / Logger (and scripted one-shot faults of
// the store's opener for the retry worker). Properties C02, C07.
type releaseComp struct{}

func init() { register(releaseComp{}) }

func (releaseComp) Name() string { return "release" }
func (releaseComp) Rule() string {
	return "case = declared cache / files / partials / poll script / tags followed by actions " +
		"(recover, scan, validate, finish, retry, restart, track) on one sender; non-trivial = at least one action " +
		"made a release decision (done-marking, deletion, retry, queue push, cache re-add, cache removal or hand-over); " +
		"distinct = by the full op sequence"
}

// ---------------------------------------------------------------------------- executor

type relVersion struct {
	size int64
	time int64 // ticks (100 ms) relative to base
	hash string
	ok   bool
}

type relExec struct {
	calls    atomic.Int64 // requests the scripted receiver has answered (progress signal for the hang guard)
	sandbox  string
	root     string
	cacheDir string
	base     time.Time

	tags     []*client.FileTag
	pollMax  int
	attempts int

	decl     []relDecl
	declSeen map[string]bool
	started  bool

	store *store.Local
	cache *cache.JSON

	partials []*sts.Partial
	answers  map[string][]string
	pollErrs int
	recErrs  int
	logged   map[string]bool

	// scripted faults of the store's opener, by name: "gone" (the file vanishes between Sync and open),
	// "openerr" (open fails with an error other than not-exist), "readerr" (reading the opened file
	// fails). One-shot: used by the first open of that name in the next `retry`, dropped when it ends.
	faults    map[string]string
	faultUsed map[string]string

	hashTok map[string]string // real md5 -> token

	// per action
	trace     []string
	inDone    string
	action    string
	positives map[string]bool
	sawRecover map[string]bool // cache entries a completed recover() has looked at since they were scripted
	polledVer map[string]relVersion
	wasSentNo map[string]bool
	logCount  map[string]int

	// ghost state of the oracle
	confirmed map[string]relVersion // the version of a name the receiver confirmed (or declared done)
	vanished  map[string]bool       // done-marked because the file was gone
	rcvHas    map[string]string     // what the receiver really holds under a name (hash token)

	fails   []string
	decided bool
	key     strings.Builder
}

type relDecl struct {
	name string
	size int64
	time int64
	hash string
	done bool
}

func (releaseComp) NewExec() Exec {
	stslog.InitExternal(quietLogger{})
	tmp := os.Getenv("VERIF_TMP")
	if tmp == "" {
		tmp = os.TempDir()
	}
	os.MkdirAll(tmp, 0o755)
	sb, err := os.MkdirTemp(tmp, "release-")
	if err != nil {
		panic(err)
	}
	e := &relExec{
		sandbox: sb, root: filepath.Join(sb, "out"), cacheDir: filepath.Join(sb, "cache"),
		base:    time.Now().Truncate(time.Second).Add(-relMaxTick * relTick), // see relTick
		pollMax: 2, attempts: 2,
		declSeen: map[string]bool{}, answers: map[string][]string{}, logged: map[string]bool{},
		hashTok: map[string]string{}, confirmed: map[string]relVersion{}, vanished: map[string]bool{},
		rcvHas: map[string]string{}, faults: map[string]string{}, faultUsed: map[string]string{},
	}
	os.MkdirAll(e.root, 0o755)
	os.MkdirAll(e.cacheDir, 0o755)
	return e
}

func (e *relExec) Close() { os.RemoveAll(e.sandbox) }

func (e *relExec) Oracle() []string { f := e.fails; e.fails = nil; return f }
func (e *relExec) Signature() (bool, string) {
	return e.decided, e.key.String()
}

func (e *relExec) failf(format string, a ...any) {
	e.fails = append(e.fails, fmt.Sprintf(format, a...))
}

var relNameRe = regexp.MustCompile(`^[A-Za-z0-9][A-Za-z0-9.]*$`)
var relHashTokRe = regexp.MustCompile(`^m-([A-Za-z0-9][A-Za-z0-9.]*)-([0-9]+)$`)

func relValidName(s string) bool { return relNameRe.MatchString(s) }

func relContent(c string, size int64) []byte {
	pat := []byte(c + "|")
	b := make([]byte, size)
	for i := range b {
		b[i] = pat[i%len(pat)]
	}
	return b
}

func relFileTok(content string, size int64) string {
	if size == 0 {
		return "m-0"
	}
	return fmt.Sprintf("m-%s-%d", content, size)
}

// hash token -> the string the real code sees
func (e *relExec) tokHash(tok string) string {
	tok = unesc(tok)
	if tok == "m-0" {
		h := fmt.Sprintf("%x", md5.Sum(nil))
		e.hashTok[h] = tok
		return h
	}
	if m := relHashTokRe.FindStringSubmatch(tok); m != nil {
		sz, err := strconv.ParseInt(m[2], 10, 64)
		if err == nil && sz > 0 && sz <= 1<<20 {
			h := fmt.Sprintf("%x", md5.Sum(relContent(m[1], sz)))
			e.hashTok[h] = tok
			return h
		}
	}
	return tok
}

func (e *relExec) hashOut(h string) string {
	if t, ok := e.hashTok[h]; ok {
		return esc(t)
	}
	return esc(h)
}

// Time in the op grammar of `release` / `recovery`. A time is written `T` (whole hours relative to the
// case's base instant) or `T+K` (K ticks of 100 ms later, 0 <= K < relMaxTick); the harness and the driver
// hold it as one integer in ticks (T*36000 + K) and print it as `T` when it is a whole hour, as `T+K`
// otherwise. Durations (`tag … DELAY`, `restart K`) are whole hours.
//
// The real clock: the base instant is 50 minutes before the start of the case (whole second), so the
// code under test runs strictly between base + relMaxTick ticks and base + 1 h as long as a case takes
// less than ten minutes. No written time lies in that window (K < relMaxTick), so every comparison
// of a file time with the current instant (time.Since(t) > delay, modified after the scan start) is
// decided by the written numbers alone: this is the model's `now` = 1 h = 36000 ticks.
const (
	relTick         = 100 * time.Millisecond
	relTicksPerHour = 36000
	relMaxTick      = 30000
)

func relFloorDiv(a, b int64) (q, r int64) {
	q, r = a/b, a%b
	if r < 0 {
		q, r = q-1, r+b
	}
	return
}

// relParseTime: `T` or `T+K` to ticks.
func relParseTime(s string) (int64, bool) {
	p := strings.Split(s, "+")
	if len(p) > 2 {
		return 0, false
	}
	h, err := strconv.ParseInt(p[0], 10, 64)
	if err != nil {
		return 0, false
	}
	if len(p) == 1 {
		return h * relTicksPerHour, true
	}
	if p[1] == "" || p[1][0] == '+' || p[1][0] == '-' {
		return 0, false
	}
	k, err := strconv.ParseInt(p[1], 10, 64)
	if err != nil || k >= relMaxTick {
		return 0, false
	}
	return h*relTicksPerHour + k, true
}

// relFmtTicks prints ticks the way the driver does.
func relFmtTicks(t int64) string {
	h, k := relFloorDiv(t, relTicksPerHour)
	if k == 0 {
		return strconv.FormatInt(h, 10)
	}
	return fmt.Sprintf("%d+%d", h, k)
}

// ticks: the instant in ticks relative to base (rounded down) and whether it is a whole tick.
func (e *relExec) ticks(t time.Time) (int64, bool) {
	q, r := relFloorDiv(int64(t.Sub(e.base)), int64(relTick))
	return q, r == 0
}

func (e *relExec) ticksInt(t time.Time) int64 { q, _ := e.ticks(t); return q }

// hours prints an instant as the grammar writes it; an instant that is not a whole tick (none of the
// harness' making) prints as `?nanoseconds`.
func (e *relExec) hours(t time.Time) string {
	q, exact := e.ticks(t)
	if !exact {
		return fmt.Sprintf("?%d", int64(t.Sub(e.base)))
	}
	return relFmtTicks(q)
}

func (e *relExec) at(ticks int64) time.Time { return e.base.Add(time.Duration(ticks) * relTick) }

func (e *relExec) cachePath() string {
	// cache.NewJSON names the file after the MD5 of the key (= root)
	return filepath.Join(e.cacheDir, fmt.Sprintf("%x.json", md5.Sum([]byte(e.root))))
}

type relJSONFile struct {
	Size  int64   `json:"size"`
	Time  string  `json:"mtime"`
	Meta  *string `json:"meta"`
	Hash  string  `json:"hash"`
	IsDon bool    `json:"done"`
}
type relJSON struct {
	Dir   string                  `json:"dir"`
	Files map[string]*relJSONFile `json:"files"`
}

func relNano(t time.Time) string { return fmt.Sprintf("%d+%d", t.Unix(), t.Nanosecond()) }
func relParseNano(s string) (time.Time, bool) {
	p := strings.Split(s, "+")
	if len(p) != 2 {
		return time.Time{}, false
	}
	a, e1 := strconv.ParseInt(p[0], 10, 64)
	b, e2 := strconv.ParseInt(p[1], 10, 64)
	if e1 != nil || e2 != nil {
		return time.Time{}, false
	}
	return time.Unix(a, b), true
}

func (e *relExec) readDisk() (*relJSON, error) {
	b, err := os.ReadFile(e.cachePath())
	if err != nil {
		if os.IsNotExist(err) {
			return &relJSON{Dir: e.root, Files: map[string]*relJSONFile{}}, nil
		}
		return nil, err
	}
	j := &relJSON{}
	if err := json.Unmarshal(b, j); err != nil {
		return nil, err
	}
	if j.Files == nil {
		j.Files = map[string]*relJSONFile{}
	}
	return j, nil
}

func (e *relExec) writeDisk(j *relJSON) {
	b, _ := json.Marshal(j)
	if err := os.WriteFile(e.cachePath(), b, 0o644); err != nil {
		panic(err)
	}
}

func (e *relExec) loadCache() {
	c, err := cache.NewJSON(e.cacheDir, e.root, "")
	if err != nil {
		panic(err)
	}
	e.cache = c
	e.store = &store.Local{Root: e.root, MinAge: 0, IncludeHidden: false,
		Ignore: []*regexp.Regexp{regexp.MustCompile(`^ign`)}}
}

// materialise writes the declared cache to the cache file and loads it (first action).
func (e *relExec) materialise() {
	if e.started {
		return
	}
	e.started = true
	if len(e.decl) > 0 {
		j := &relJSON{Dir: e.root, Files: map[string]*relJSONFile{}}
		for _, d := range e.decl {
			j.Files[d.name] = &relJSONFile{Size: d.size, Time: relNano(e.at(d.time)), Hash: d.hash, IsDon: d.done}
		}
		e.writeDisk(j)
	}
	e.loadCache()
}

// ---- recording wrappers around the real components

type relStore struct {
	*store.Local
	e *relExec
}

func (s *relStore) Scan(allow func(sts.File) bool) ([]sts.File, time.Time, error) {
	files, t, err := s.Local.Scan(allow)
	sort.Slice(files, func(i, j int) bool { return files[i].GetName() < files[j].GetName() })
	return files, t, err
}

// GetOpener: the real store.Local.Open, except that inside a `retry` action the first open of a name
// with a scripted fault meets that fault: the file is removed just before the (real) open, or the
// open fails with EMFILE, or the handle it returns fails every Read with EIO.
func (s *relStore) GetOpener() sts.Open {
	return func(f sts.File) (sts.Readable, error) {
		e := s.e
		if e.action == "retry" {
			if k, ok := e.faults[f.GetName()]; ok {
				delete(e.faults, f.GetName())
				e.faultUsed[f.GetName()] = k
				switch k {
				case "gone":
					os.Remove(f.GetPath())
				case "openerr":
					return nil, &os.PathError{Op: "open", Path: f.GetPath(), Err: syscall.EMFILE}
				case "readerr":
					fh, err := s.Local.Open(f)
					if err != nil {
						return fh, err
					}
					return &relBadReader{fh}, nil
				}
			}
		}
		return s.Local.Open(f)
	}
}

type relBadReader struct{ sts.Readable }

func (b *relBadReader) Read([]byte) (int, error) {
	return 0, &os.PathError{Op: "read", Path: "scripted", Err: syscall.EIO}
}

func (s *relStore) Remove(f sts.File) error {
	s.e.onRemove(f)
	return s.Local.Remove(f)
}

type relCache struct {
	*cache.JSON
	e *relExec
}

func (c *relCache) Iterate(f func(sts.Cached) bool) {
	var all []sts.Cached
	c.JSON.Iterate(func(x sts.Cached) bool { all = append(all, x); return false })
	sort.Slice(all, func(i, j int) bool { return all[i].GetName() < all[j].GetName() })
	for _, x := range all {
		if f(x) {
			break
		}
	}
}

func (c *relCache) Add(f sts.Hashed) {
	c.e.trace = append(c.e.trace, "cadd:"+esc(f.GetName()))
	c.JSON.Add(f)
}

func (c *relCache) Remove(n string) {
	c.e.onCacheRemove(n)
	c.JSON.Remove(n)
}

func (c *relCache) Done(n string, wl func(sts.Cached)) {
	c.e.onDone(n, wl != nil)
	if wl == nil {
		c.JSON.Done(n, nil)
		return
	}
	c.JSON.Done(n, func(x sts.Cached) {
		c.e.inDone = n
		defer func() { c.e.inDone = "" }()
		wl(x)
	})
}

func (c *relCache) Persist() error {
	c.e.trace = append(c.e.trace, "persist")
	return c.JSON.Persist()
}

type relLogger struct{ e *relExec }

func (l relLogger) Sent(f sts.Sent) {
	e := l.e
	k := f.GetName() + "|" + f.GetHash()
	e.trace = append(e.trace, "log:"+esc(f.GetName())+":"+e.hashOut(f.GetHash()))
	// oracle sent_logged_once: a record is written in recover only after WasSent said no
	if e.action == "recover" {
		if !e.wasSentNo[k] {
			e.failf("sent-log-twice: recover logged %s although WasSent was not asked or answered yes", f.GetName())
		}
		e.logCount[k]++
		if e.logCount[k] > 1 {
			e.failf("sent-log-twice: recover logged %s %d times", f.GetName(), e.logCount[k])
		}
	}
	e.logged[k] = true
}

func (l relLogger) WasSent(name, hash string, after, before time.Time) bool {
	e := l.e
	e.trace = append(e.trace, "wassent:"+esc(name))
	r := e.logged[name+"|"+hash]
	if !r {
		e.wasSentNo[name+"|"+hash] = true
	}
	return r
}

type relPolled struct {
	sts.Pollable
	code int
}

func (p *relPolled) NotFound() bool { return p.code == sts.ConfirmNone }
func (p *relPolled) Failed() bool   { return p.code == sts.ConfirmFailed }
func (p *relPolled) Received() bool { return p.code == sts.ConfirmPassed }
func (p *relPolled) Waiting() bool  { return p.code == sts.ConfirmWaiting }

func (e *relExec) recoverer() ([]*sts.Partial, error) {
	e.calls.Add(1)
	if e.recErrs > 0 {
		e.recErrs--
		e.trace = append(e.trace, "rerr")
		return nil, errors.New("scripted recovery failure")
	}
	return e.partials, nil
}

func (e *relExec) nextAnswer(n string) string {
	vs := e.answers[n]
	switch len(vs) {
	case 0:
		return "none"
	case 1:
		return vs[0]
	}
	e.answers[n] = vs[1:]
	return vs[0]
}

func (e *relExec) validator(sent []sts.Pollable) ([]sts.Polled, error) {
	var names []string
	for _, f := range sent {
		names = append(names, f.GetName())
	}
	tok := "-"
	if len(names) > 0 {
		var s []string
		for _, n := range names {
			s = append(s, esc(n))
		}
		tok = strings.Join(s, ",")
	}
	e.calls.Add(1)
	e.trace = append(e.trace, "poll:"+tok)
	if e.pollErrs > 0 {
		e.pollErrs--
		e.trace = append(e.trace, "perr")
		return nil, errors.New("scripted poll failure")
	}
	if e.pollMax > 0 && len(sent) > e.pollMax {
		e.failf("poll-batch-too-large: %d files in one poll, PollMaxCount %d", len(sent), e.pollMax)
	}
	var out []sts.Polled
	var answers []string
	for _, f := range sent {
		v := e.nextAnswer(f.GetName())
		code := 0
		switch v {
		case "omit":
			continue
		case "none":
			code = sts.ConfirmNone
		case "failed":
			code = sts.ConfirmFailed
		case "passed":
			code = sts.ConfirmPassed
		case "waiting":
			code = sts.ConfirmWaiting
		default:
			code = 9
		}
		if code == sts.ConfirmPassed || code == sts.ConfirmWaiting {
			e.positives[f.GetName()] = true
			if c := e.cache.Get(f.GetName()); c != nil {
				e.polledVer[f.GetName()] = relVersion{c.GetSize(), e.ticksInt(c.GetTime()), c.GetHash(), true}
			}
		}
		out = append(out, &relPolled{Pollable: f, code: code})
		answers = append(answers, "ans:"+esc(f.GetName())+":"+v)
	}
	e.trace = append(e.trace, answers...)
	return out, nil
}

// ---- oracle hooks (property oracles evaluated on what the real code does)

func (e *relExec) harnessCanDelete(name string, t time.Time) bool {
	any := false
	for _, g := range e.tags {
		any = any || g.Delete
	}
	if !any {
		return false
	}
	tn := relTagOf(name)
	var tag *client.FileTag
	for _, g := range e.tags {
		if g.Name == tn {
			tag = g
		}
	}
	if tag == nil || !tag.Delete {
		return false
	}
	if tag.DeleteDelay == 0 {
		return true
	}
	return time.Since(t) > tag.DeleteDelay
}

func relTagOf(name string) string {
	if i := strings.Index(name, "."); i >= 0 {
		return name[:i]
	}
	return name
}

func (e *relExec) onDone(n string, closure bool) {
	if closure {
		e.trace = append(e.trace, "cdone:"+esc(n)+":1")
	} else {
		e.trace = append(e.trace, "cdone:"+esc(n)+":0")
	}
	e.decided = true
	// oracle release_sites (done-marking): positive verdict for this name in this action,
	// or the store reports the file gone
	_, err := os.Lstat(filepath.Join(e.root, n))
	gone := os.IsNotExist(err)
	c := e.cache.Get(n)
	if e.positives[n] {
		if c != nil {
			if v, ok := e.polledVer[n]; ok {
				e.confirmed[n] = v
			} else {
				e.confirmed[n] = relVersion{c.GetSize(), e.ticksInt(c.GetTime()), c.GetHash(), true}
			}
			delete(e.vanished, n)
			// S2: the receiver's positive answer is about what it holds under that name
			if h, ok := e.rcvHas[n]; ok && h != c.GetHash() {
				e.failf("positive-for-other-version: %s marked done on a positive answer, but the receiver holds %s and the sender's version is %s",
					n, e.hashOut(h), e.hashOut(c.GetHash()))
			}
		}
		return
	}
	if gone {
		if c != nil && !c.IsDone() {
			e.vanished[n] = true
		}
		return
	}
	e.failf("done-unconfirmed: Cache.Done(%s) in %s without a positive poll answer for it and the file still exists", n, e.action)
}

func (e *relExec) onCacheRemove(n string) {
	e.trace = append(e.trace, "crm:"+esc(n))
	e.decided = true
}

func (e *relExec) onRemove(f sts.File) {
	n := f.GetName()
	e.decided = true
	info, err := os.Lstat(filepath.Join(e.root, n))
	exists := err == nil
	onDisk := "none"
	if exists {
		onDisk = fmt.Sprintf("%d/%s", info.Size(), e.hours(info.ModTime()))
	}
	e.trace = append(e.trace, fmt.Sprintf("del:%s:%d/%s:%s", esc(n), f.GetSize(), e.hours(f.GetTime()), onDisk))
	// oracle release_sites (deletion): inside finish for a positive verdict, or in the
	// scan clean-up for a done entry whose tag allows deletion now
	if e.inDone != "" {
		if e.inDone != n {
			e.failf("delete-wrong-file: Store.Remove(%s) inside Cache.Done(%s)", n, e.inDone)
		}
		if !e.positives[n] {
			e.failf("delete-unconfirmed: Store.Remove(%s) in finish without a positive poll answer", n)
		}
	} else {
		c := e.cache.Get(n)
		if e.action != "scan" {
			e.failf("delete-outside-sites: Store.Remove(%s) in %s outside finish and scan clean-up", n, e.action)
		}
		if c == nil || !c.IsDone() {
			e.failf("delete-unconfirmed: scan clean-up removed %s whose cache entry is not done", n)
		}
	}
	if !e.harnessCanDelete(n, f.GetTime()) {
		e.failf("delete-not-allowed: Store.Remove(%s) although its tag does not allow deletion now", n)
	}
	// oracle never_delete_unconfirmed: the file on disk at this instant is the confirmed version
	if !exists {
		return
	}
	v, ok := e.confirmed[n]
	if !ok {
		if e.vanished[n] {
			e.failf("delete-after-vanish: %s was marked done because it had vanished, came back and is deleted unsent", n)
		} else if e.positives[n] || e.inDone == "" {
			e.failf("delete-unconfirmed: %s deleted but no version of it was ever confirmed", n)
		}
		return
	}
	if tk, exact := e.ticks(info.ModTime()); info.Size() != v.size || tk != v.time || !exact {
		e.failf("delete-unconfirmed: %s deleted while the file on disk (size %d, time %s) is not the confirmed version (size %d, time %s)",
			n, info.Size(), e.hours(info.ModTime()), v.size, relFmtTicks(v.time))
	}
}

// ---- views

func (e *relExec) fmtEntry(name string, size int64, t time.Time, hash string, done bool) string {
	d := 0
	if done {
		d = 1
	}
	return fmt.Sprintf("%s/%d/%s/%s/%d", esc(name), size, e.hours(t), e.hashOut(hash), d)
}

func (e *relExec) memView() string {
	var out []string
	(&relCache{e.cache, e}).Iterate(func(c sts.Cached) bool {
		out = append(out, e.fmtEntry(c.GetName(), c.GetSize(), c.GetTime(), c.GetHash(), c.IsDone()))
		return false
	})
	if len(out) == 0 {
		return "-"
	}
	return strings.Join(out, ",")
}

func (e *relExec) diskView() string {
	j, err := e.readDisk()
	if err != nil {
		return "unreadable:" + esc(err.Error())
	}
	var out []string
	for _, n := range sortedKeys(j.Files) {
		f := j.Files[n]
		t, ok := relParseNano(f.Time)
		if !ok {
			out = append(out, esc(n)+"/badtime")
			continue
		}
		out = append(out, e.fmtEntry(n, f.Size, t, f.Hash, f.IsDon))
	}
	if len(out) == 0 {
		return "-"
	}
	return strings.Join(out, ",")
}

func (e *relExec) storeView() string {
	ents, _ := os.ReadDir(e.root)
	var out []string
	for _, d := range ents {
		info, err := d.Info()
		if err != nil || d.IsDir() {
			continue
		}
		fh, err := os.Open(filepath.Join(e.root, d.Name()))
		if err != nil {
			continue
		}
		h := md5.New()
		io.Copy(h, fh)
		fh.Close()
		out = append(out, fmt.Sprintf("%s/%d/%s/%s", esc(d.Name()), info.Size(), e.hours(info.ModTime()), e.hashOut(fmt.Sprintf("%x", h.Sum(nil)))))
	}
	if len(out) == 0 {
		return "-"
	}
	return strings.Join(out, ",")
}

func (e *relExec) stateView() string {
	return "mem=" + e.memView() + " | disk=" + e.diskView() + " | store=" + e.storeView()
}

func (e *relExec) traceView() string {
	if len(e.trace) == 0 {
		return "-"
	}
	return strings.Join(e.trace, " ")
}

func (e *relExec) newBroker(buf int) *client.Broker {
	conf := &client.Conf{
		Name:         "verif",
		Store:        &relStore{e.store, e},
		Cache:        &relCache{e.cache, e},
		Recoverer:    e.recoverer,
		Validator:    e.validator,
		Logger:       relLogger{e},
		Tagger:       relTagOf,
		CacheAge:     100000 * time.Hour,
		Threads:      2,
		PayloadSize:  1024,
		PollDelay:    0,
		PollInterval: 0,
		PollAttempts: e.attempts,
		PollMaxCount: e.pollMax,
		Tags:         e.tags,
		ErrorBackoff: 0,
	}
	return client.VerifReleaseNewBroker(conf, buf)
}

// watchdog: a loop of the code under test that does not come back within the limit is told
// to stop (immediate stop); the answer then carries `hang`.
var relHangSeen bool

func (e *relExec) guarded(b *client.Broker, limit time.Duration, f func()) (hung bool) {
	// A hang is judged by progress, not by the wall clock alone (a loaded machine made a plain 3 s limit fire
	// on healthy code): the loop is hung when the scripted receiver has not been asked anything for `idle`
	// (blocked), or was asked more often than any finite script can explain (spinning).
	idle := 10 * limit
	if relHangSeen {
		idle = limit / 3 // after the first hang do not wait long for the next ones
	}
	done := make(chan struct{})
	go func() {
		defer close(done)
		defer func() {
			if r := recover(); r != nil {
				e.trace = append(e.trace, "panic:"+esc(fmt.Sprint(r)))
			}
		}()
		f()
	}()
	start := e.calls.Load()
	last, lastChange := start, time.Now()
	tick := time.NewTicker(20 * time.Millisecond)
	defer tick.Stop()
	for {
		select {
		case <-done:
			return false
		case <-tick.C:
			n := e.calls.Load()
			if n != last {
				last, lastChange = n, time.Now()
			}
			if time.Since(lastChange) > idle || n-start > 20000 {
				relHangSeen = true
				b.VerifReleaseStopNow()
				<-done
				return true
			}
		}
	}
}

func (e *relExec) beginAction(name string) {
	e.materialise()
	e.action = name
	e.trace = nil
	e.inDone = ""
	e.positives = map[string]bool{}
	e.polledVer = map[string]relVersion{}
	e.wasSentNo = map[string]bool{}
	e.logCount = map[string]int{}
}

type relSnap struct {
	size int64
	time int64
	hash string
	done bool
}

func (e *relExec) snapCache() map[string]relSnap {
	m := map[string]relSnap{}
	e.cache.Iterate(func(c sts.Cached) bool {
		m[c.GetName()] = relSnap{c.GetSize(), e.ticksInt(c.GetTime()), c.GetHash(), c.IsDone()}
		return false
	})
	return m
}

type relDiskFile struct {
	size int64
	time int64 // ticks
	frac bool  // not a whole tick: no version the grammar can name
}

func (e *relExec) snapStore() map[string]relDiskFile {
	m := map[string]relDiskFile{}
	ents, _ := os.ReadDir(e.root)
	for _, d := range ents {
		if info, err := d.Info(); err == nil && !d.IsDir() {
			tk, exact := e.ticks(info.ModTime())
			m[d.Name()] = relDiskFile{info.Size(), tk, !exact}
		}
	}
	return m
}

func relCovered(parts []*sts.ByteRange, x int64) bool {
	for _, p := range parts {
		if p.Beg <= x && x < p.End {
			return true
		}
	}
	return false
}

// orderOK: every done-marking / deletion / retry of a poll batch is followed by a Persist
// before the next poll request or the end of the action.
func (e *relExec) checkPersistOrder() {
	pending := ""
	inBatch := e.action == "scan"
	for _, t := range e.trace {
		switch {
		case strings.HasPrefix(t, "poll:"):
			if pending != "" {
				e.failf("persist-order: %s of a processed poll batch is not followed by Cache.Persist before the next poll", pending)
			}
			pending = ""
			inBatch = true
		case t == "persist":
			pending = ""
		case strings.HasPrefix(t, "cdone:") || strings.HasPrefix(t, "del:") || strings.HasPrefix(t, "cadd:"):
			if inBatch {
				pending = t
			}
		}
	}
	if pending != "" {
		e.failf("persist-order: %s is not followed by Cache.Persist", pending)
	}
}

func (e *relExec) doRecover() string {
	e.beginAction("recover")
	before := e.snapCache()
	diskBefore := e.snapStore()
	lookup := map[string]*sts.Partial{}
	for _, p := range e.partials {
		lookup[p.Name] = p
	}
	b := e.newBroker(64)
	var send []sts.Hashed
	var err error
	if e.guarded(b, 3*time.Second, func() { send, err = b.VerifReleaseRecover() }) {
		e.failf("loop-hang: recover() did not return although the scripted request failures are finite")
		return "hang"
	}
	// pushes, in order
	pushed := map[string][]string{}
	var ptoks []string
	for _, h := range send {
		kind, prev, left, alloc := client.VerifReleaseDescribe(h)
		n := h.GetName()
		e.decided = true
		switch kind {
		case "placeholder":
			ptoks = append(ptoks, fmt.Sprintf("P:%s:%d:%s", esc(n), h.GetSize(), e.hashOut(h.GetHash())))
			if !alloc {
				e.failf("chain-broken: placeholder %s is not fully allocated", n)
			}
		case "allocated":
			ptoks = append(ptoks, "A:"+esc(n))
			if !alloc {
				e.failf("chain-broken: confirmed file %s is pushed but not fully allocated", n)
			}
			// a cache entry queued as "already delivered" (it only holds its place in the ordering chain and is never
			// sent, tracked or polled again) must have been confirmed by the receiver in this recovery
			if snap, ok := before[n]; !e.positives[n] && !(ok && snap.done) {
				e.failf("chain-unconfirmed: %s is queued as already delivered (fully allocated, never to be sent or polled) although it was not done before and the receiver gave no positive answer for it in this recovery", n)
			}
		case "resume":
			var ls []string
			for _, r := range left {
				ls = append(ls, fmt.Sprintf("%d:%d", r.Beg, r.End))
			}
			ptoks = append(ptoks, fmt.Sprintf("R:%s:%s:%s", esc(n), esc(prev), strings.Join(ls, ",")))
			// oracle resend_only_missing: the ranges to send are exactly the bytes of the
			// file the receiver did not list (for a failed verdict: the whole file)
			p := lookup[n]
			if p == nil {
				e.failf("resume-without-partial: %s resumed but the receiver listed no partial", n)
				break
			}
			if prev != p.Prev {
				e.failf("resume-prev: %s resumed with predecessor %q, the partial says %q", n, prev, p.Prev)
			}
			parts := p.Parts
			wellformed := true
			for _, q := range parts {
				if q.Beg < 0 || q.End > h.GetSize() || q.Beg > q.End {
					wellformed = false
				}
			}
			if e.answeredFailed(n) {
				parts = nil
			}
			if wellformed {
				last := int64(-1 << 62)
				for _, r := range left {
					if r.Beg >= r.End {
						e.failf("resume-ranges: %s gets the empty or negative range %d:%d (listed %s)", n, r.Beg, r.End, fmtParts(p.Parts))
					}
					if r.Beg < last {
						e.failf("resume-ranges: ranges of %s are not ascending and disjoint at %d:%d", n, r.Beg, r.End)
					}
					last = r.End
				}
				for x := int64(0); x < h.GetSize() && x < 4096; x++ {
					if relCovered(left, x) == relCovered(parts, x) {
						e.failf("resume-ranges: byte %d of %s is %s although the receiver %s it (listed %s, to send %s)", x, n,
							map[bool]string{true: "sent again", false: "not sent"}[relCovered(left, x)],
							map[bool]string{true: "listed", false: "did not list"}[relCovered(parts, x)], fmtParts(p.Parts), fmtParts(left))
						break
					}
				}
				for _, r := range left {
					if r.Beg < 0 || r.End > h.GetSize() {
						e.failf("resume-ranges: range %d:%d of %s lies outside the file (size %d)", r.Beg, r.End, n, h.GetSize())
					}
				}
			}
		default:
			ptoks = append(ptoks, "W:"+esc(n))
		}
		pushed[n] = append(pushed[n], kind)
	}
	// the harness reports pushes at the position recover() made them: the trace of the
	// wrappers has no push events, so interleave by reconstruction — pushes are compared as
	// their own list
	errTok := "0"
	if err != nil {
		errTok = "1"
		// oracle recover_loses_nothing (S19): the scripted poll failures are transient; giving up
		// makes Start() drop the list and the cached files are not queued again before a restart
		e.failf("recovery-abandoned: recover() returned an error (%v) after a transient poll failure; %d queued items are dropped and unchanged cache entries are never scanned again", err, len(send))
	}
	after := e.snapCache()
	if err == nil {
		// oracle chain_continues: receiver-only and done files are pushed as placeholders
		for _, p := range e.partials {
			s, cached := before[p.Name]
			if !cached || s.done {
				ok := false
				for _, k := range pushed[p.Name] {
					if k == "placeholder" || k == "allocated" {
						ok = true
					}
				}
				if !ok {
					e.failf("chain-broken: listed file %s (not cached or done) was not pushed as a placeholder", p.Name)
				}
			}
		}
		for n := range e.positives {
			ok := false
			for _, k := range pushed[n] {
				if k == "allocated" {
					ok = true
				}
			}
			if !ok {
				e.failf("chain-broken: %s was confirmed by the recovery poll but not pushed as a placeholder", n)
			}
			// a positive answer (passed or waiting) is the only confirmation this file will ever get: it is queued
			// as fully allocated, so it is never sent or polled again; the done mark must be set now
			marked := false
			for _, t := range e.trace {
				if strings.HasPrefix(t, "cdone:"+esc(n)+":") {
					marked = true
				}
			}
			if !marked {
				e.failf("confirmed-not-marked: %s was confirmed by the recovery poll but Cache.Done was not called (it is queued as delivered and will not be polled again)", n)
			}
		}
	}
	// oracle recover_loses_nothing: a cached file that is not done, not ignored, unchanged on
	// disk and hashed is queued (resume / whole / placeholder after a positive answer) unless
	// the receiver's answer did not mention it or carried an unknown code
	if err == nil {
		verdict := map[string]string{}
		for _, t := range e.trace {
			if strings.HasPrefix(t, "ans:") {
				f := strings.Split(t[4:], ":")
				if len(f) == 2 {
					verdict[unesc(f[0])] = f[1]
				}
			}
		}
		for n, s := range before {
			d, onDisk := diskBefore[n]
			if s.done || strings.HasPrefix(n, "ign") || !onDisk || d.frac || d.size != s.size || d.time != s.time || s.hash == "" {
				continue
			}
			// oracle resend_only_missing: a file whose listed partial leaves bytes uncovered is
			// resumed, not polled and sent again whole
			if p := lookup[n]; p != nil {
				wellformed := true
				for _, q := range p.Parts {
					if q.Beg < 0 || q.End > s.size || q.Beg > q.End {
						wellformed = false
					}
				}
				gap := false
				for x := int64(0); x < s.size && x < 4096; x++ {
					if !relCovered(p.Parts, x) {
						gap = true
					}
				}
				if wellformed && gap {
					resumed := false
					for _, k := range pushed[n] {
						if k == "resume" {
							resumed = true
						}
					}
					if !resumed || e.answeredFailed(n) {
						e.failf("resume-missed: %s has a listed partial with gaps (%s) but was not resumed (pushed %v, polled %v)", n, fmtParts(p.Parts), pushed[n], e.answeredFailed(n))
					}
				}
			}
			if len(pushed[n]) > 0 {
				continue
			}
			if v, asked := verdict[n]; !asked || v == "other" {
				continue
			}
			e.failf("recover-forgets: %s is cached, not done, unchanged and hashed, the receiver answered %s, but recover() queued nothing for it", n, verdict[n])
		}
	}
	// oracle ignored_dropped (C17): an entry that is not done and whose file the store ignores now leaves the cache,
	// whatever else is true of it (no hash, changed, listed as partial)
	if err == nil {
		if e.sawRecover == nil {
			e.sawRecover = map[string]bool{}
		}
		for n, s := range before {
			if !s.done { // recover() examines the entries that are not done
				e.sawRecover[n] = true
			}
		}
		for n, s := range before {
			if _, still := after[n]; still && !s.done && strings.HasPrefix(n, "ign") {
				e.failf("ignored-kept: recover kept the cache entry of %s (hash %q), which the store ignores now; the next scan hashes entries without a hash and queues them without asking the ignore rules", n, s.hash)
			}
		}
	}
	// oracle cache_never_forgets
	for n, s := range before {
		a, still := after[n]
		if !still {
			if !strings.HasPrefix(n, "ign") {
				e.failf("cache-forgets: recover dropped %s from the cache although it is not ignored", n)
			}
			continue
		}
		if a.size != s.size || a.time != s.time || a.hash != s.hash {
			e.failf("cache-forgets: recover altered the cache entry of %s", n)
		}
		if s.done && !a.done {
			e.failf("cache-forgets: recover cleared the done mark of %s", n)
		}
	}
	e.checkPersistOrder()
	pt := "-"
	if len(ptoks) > 0 {
		pt = strings.Join(ptoks, " ")
	}
	return e.traceView() + " | push=" + pt + " | err=" + errTok + " | " + e.stateView()
}

func (e *relExec) answeredFailed(n string) bool {
	// the failed verdict leads to a whole-file resume; recognised by the trace: the file was polled
	for _, t := range e.trace {
		if strings.HasPrefix(t, "poll:") {
			for _, x := range strings.Split(t[5:], ",") {
				if unesc(x) == n {
					return true
				}
			}
		}
	}
	return false
}

func (e *relExec) doScan() string {
	e.beginAction("scan")
	before := e.snapCache()
	disk := e.snapStore()
	b := e.newBroker(64)
	ready := b.VerifReleaseScan()
	var rt []string
	readyNames := map[string]bool{}
	for _, h := range ready {
		rt = append(rt, esc(h.GetName())+"/"+e.hashOut(h.GetHash()))
		readyNames[h.GetName()] = true
		e.decided = true
	}
	after := e.snapCache()
	deleted := map[string]bool{}
	for _, t := range e.trace {
		if strings.HasPrefix(t, "del:") {
			deleted[unesc(strings.Split(t[4:], ":")[0])] = true
		}
	}
	// oracle changed_file_requeued (S3/S18): a file that is not the cached version is queued
	// and its cache entry describes the new, unconfirmed version
	for n, f := range disk {
		if strings.HasPrefix(n, "ign") || f.size == 0 || f.time >= relTicksPerHour || f.frac {
			continue
		}
		c, cached := before[n]
		if cached && c.size == f.size && c.time == f.time {
			continue
		}
		if !readyNames[n] {
			e.failf("changed-file-lost: %s on disk (size %d, time %s) is not the cached version but the scan did not queue it", n, f.size, relFmtTicks(f.time))
			continue
		}
		a, ok := after[n]
		if !ok || a.size != f.size || a.time != f.time {
			e.failf("changed-file-lost: the cache does not describe the scanned version of %s", n)
		} else if a.done {
			e.failf("changed-file-still-done: %s was found changed and queued, but its cache entry still says done", n)
		}
	}
	// oracle ineligible_never_queued (C17): what the store ignores is never handed on for sending - not through the
	// straggler path either (a cache entry without a hash is hashed and queued by the next scan without a look at
	// the ignore rules: recover() must have dropped it)
	for n := range readyNames {
		// (a scripted cache entry that no recover() has seen is not a state of a running sender: every process starts
		// with recover() and the ignore rules do not change while it runs)
		if strings.HasPrefix(n, "ign") && e.sawRecover[n] {
			e.failf("ineligible-queued: scan handed on %s, which the store ignores", n)
		}
	}
	// oracle cache_never_forgets
	for n, s := range before {
		if _, still := after[n]; still {
			continue
		}
		_, onDisk := e.snapStore()[n]
		if !deleted[n] && onDisk {
			e.failf("cache-forgets: scan dropped %s from the cache although the file exists and was not cleaned up", n)
		}
		_ = s
	}
	e.checkPersistOrder()
	r := "-"
	if len(rt) > 0 {
		r = strings.Join(rt, ",")
	}
	return e.traceView() + " | ready=" + r + " | " + e.stateView()
}

func (e *relExec) doFinish(n, v string) string {
	e.beginAction("finish")
	code := map[string]int{"none": 0, "failed": 1, "passed": 2, "waiting": 3, "other": 9}[v]
	b := e.newBroker(64)
	if code == 2 || code == 3 {
		e.positives[n] = true
	}
	p := &relPolled{Pollable: relPollable{name: n}, code: code}
	b.VerifReleaseFinish(p)
	for _, r := range e.drainRetry(b) {
		e.trace = append(e.trace, "retry:"+esc(r))
		e.decided = true
		if code == 2 || code == 3 {
			e.failf("retry-confirmed: %s was confirmed but sent to the retry channel", r)
		}
	}
	return e.traceView() + " | " + e.stateView()
}

type relPollable struct {
	name string
	hash string
	size int64
	prev string
}

func (p relPollable) GetName() string       { return p.name }
func (p relPollable) GetSize() int64        { return p.size }
func (p relPollable) GetHash() string       { return p.hash }
func (p relPollable) TimeMs() int64         { return 0 }
func (p relPollable) GetPrev() string       { return p.prev }
func (p relPollable) GetStarted() time.Time { return time.Time{} }

func (e *relExec) drainRetry(b *client.Broker) []string {
	var out []string
	for _, p := range b.VerifReleaseDrainRetry() {
		out = append(out, p.GetName())
	}
	return out
}

func (e *relExec) doValidate(arg string) string {
	type pf struct {
		name   string
		polled int
	}
	var files []pf
	seen := map[string]bool{}
	for _, s := range strings.Split(arg, ",") {
		p := strings.Split(s, ":")
		if len(p) != 2 || !relValidName(p[0]) {
			return "bad-op"
		}
		k, err := strconv.Atoi(p[1])
		if err != nil || k < 0 || seen[p[0]] || k >= e.attempts {
			return "bad-op"
		}
		seen[p[0]] = true
		files = append(files, pf{p[0], k})
	}
	for _, f := range files {
		vs := e.answers[f.name]
		if len(vs) > 0 && (vs[len(vs)-1] == "other" || vs[len(vs)-1] == "omit") {
			return "bad-op"
		}
	}
	e.beginAction("validate")
	b := e.newBroker(len(files) + 8)
	var in []client.VerifPollFile
	for _, f := range files {
		h := ""
		var sz int64
		if c := e.cache.Get(f.name); c != nil {
			h, sz = c.GetHash(), c.GetSize()
		}
		in = append(in, client.VerifPollFile{Name: f.name, Size: sz, Hash: h, Polled: f.polled})
	}
	var retried []sts.Polled
	if e.guarded(b, 3*time.Second, func() { retried = b.VerifReleaseValidate(in) }) {
		e.failf("loop-hang: the validator loop did not come back although every polled file's answers end with a verdict that finishes it")
		return "hang"
	}
	polls := map[string]int{}
	perrs := 0
	for i, t := range e.trace {
		if strings.HasPrefix(t, "poll:") {
			if i+1 < len(e.trace) && e.trace[i+1] == "perr" {
				perrs++
				continue
			}
			for _, x := range strings.Split(t[5:], ",") {
				polls[unesc(x)]++
			}
		}
	}
	var names []string
	for _, f := range files {
		names = append(names, f.name)
	}
	sort.Strings(names)
	var pt []string
	for _, n := range names {
		pt = append(pt, fmt.Sprintf("%s:%d", esc(n), polls[n]))
	}
	collect := func(prefix string) string {
		var l []string
		for _, t := range e.trace {
			if strings.HasPrefix(t, prefix) {
				l = append(l, unesc(strings.Split(t[len(prefix):], ":")[0]))
			}
		}
		sort.Strings(l)
		if len(l) == 0 {
			return "-"
		}
		for i := range l {
			l[i] = esc(l[i])
		}
		return strings.Join(l, ",")
	}
	var rt []string
	for _, r := range retried {
		rt = append(rt, r.GetName())
		e.decided = true
		// oracle: only negative verdicts go to the retry channel
		if e.positives[r.GetName()] {
			e.failf("retry-confirmed: %s was confirmed but sent to the retry channel", r.GetName())
		}
	}
	// oracle: a file handed to the validator loop leaves it confirmed (done-marked) or retried,
	// never silently
	for _, f := range files {
		marked := false
		for _, t := range e.trace {
			if strings.HasPrefix(t, "cdone:"+esc(f.name)+":") {
				marked = true
			}
		}
		retriedToo := false
		for _, r := range rt {
			if r == f.name {
				retriedToo = true
			}
		}
		switch {
		case e.positives[f.name] && !marked:
			e.failf("confirmed-not-marked: %s was confirmed by the poll but Cache.Done was not called", f.name)
		case !e.positives[f.name] && !retriedToo:
			e.failf("validate-dropped: %s left the validator loop neither confirmed nor sent to the retry channel", f.name)
		}
	}
	sort.Strings(rt)
	for i := range rt {
		rt[i] = esc(rt[i])
	}
	rts := "-"
	if len(rt) > 0 {
		rts = strings.Join(rt, ",")
	}
	e.checkPersistOrder()
	return fmt.Sprintf("polls=%s perrs=%d done=%s del=%s retry=%s left=- | %s",
		strings.Join(pt, ","), perrs, collect("cdone:"), collect("del:"), rts, e.stateView())
}

// doRetry: the files (NAME:PREV, PREV `-` = none) are put on the retry channel as finish() does after a
// negative outcome of the poll, and the real startRetry loop runs until the channel is empty.
func (e *relExec) doRetry(arg string) string {
	type rf struct{ name, prev string }
	var files []rf
	for _, s := range strings.Split(arg, ",") {
		p := strings.Split(s, ":")
		if len(p) != 2 || !relValidName(p[0]) || (p[1] != "-" && !relValidName(p[1])) {
			return "bad-op"
		}
		files = append(files, rf{p[0], unesc(p[1])})
	}
	e.beginAction("retry")
	e.faultUsed = map[string]string{}
	before := e.snapCache()
	b := e.newBroker(len(files) + 8)
	var in []sts.Polled
	for _, f := range files {
		in = append(in, &relPolled{Pollable: relPollable{name: f.name, prev: f.prev}, code: sts.ConfirmFailed})
	}
	var out [][]sts.Hashed
	hung := e.guarded(b, 3*time.Second, func() { out = b.VerifReleaseRetry(in) })
	e.faults = map[string]string{}
	if hung {
		e.failf("loop-hang: the retry loop did not come back although its input channel was closed")
		return "hang"
	}
	after := e.snapCache()
	disk := e.snapStore()
	queued := map[string]bool{}
	var ptoks []string
	for _, l := range out {
		for _, h := range l {
			kind, prev, left, _ := client.VerifReleaseDescribe(h)
			n := h.GetName()
			e.decided = true
			queued[n] = true
			var ls []string
			for _, r := range left {
				ls = append(ls, fmt.Sprintf("%d:%d", r.Beg, r.End))
			}
			lt := "-"
			if len(ls) > 0 {
				lt = strings.Join(ls, ",")
			}
			switch kind {
			case "resume":
				ptoks = append(ptoks, fmt.Sprintf("R:%s:%s:%s", esc(n), esc(prev), lt))
			case "plain":
				ptoks = append(ptoks, "W:"+esc(n))
			default:
				ptoks = append(ptoks, fmt.Sprintf("%s:%s:%s:%s", kind, esc(n), esc(prev), lt))
			}
			// oracle: a file that failed at the receiver is sent again WHOLE, announcing the predecessor
			// it announced before
			whole := kind == "plain" || (kind == "resume" && len(left) == 1 && left[0].Beg == 0 && left[0].End == h.GetSize())
			if !whole {
				e.failf("retry-not-whole: %s is queued again after a negative outcome with the ranges %s, not the whole file (size %d)", n, lt, h.GetSize())
			}
			prevOK := false
			for _, f := range files {
				if f.name == n && (kind != "plain" && f.prev == prev || kind == "plain" && f.prev == "") {
					prevOK = true
				}
			}
			if !prevOK {
				e.failf("retry-prev-lost: %s is queued again with predecessor %q, which is not the one it was polled with", n, prev)
			}
			// oracle: the hash it is queued with is the hash of what the file holds now
			if d, ok := disk[n]; ok && e.faultUsed[n] == "" && !d.frac && d.size == h.GetSize() && d.time == e.ticksInt(h.GetTime()) {
				if fh, err := os.Open(filepath.Join(e.root, n)); err == nil {
					m := md5.New()
					io.Copy(m, fh)
					fh.Close()
					if now := fmt.Sprintf("%x", m.Sum(nil)); now != h.GetHash() {
						e.failf("retry-stale-hash: %s is queued again with hash %s, the file's content hashes to %s", n, e.hashOut(h.GetHash()), e.hashOut(now))
					}
				}
			}
		}
	}
	// oracle retry-dropped: a file taken off the retry channel whose cache entry was not done, that still
	// exists unchanged and was not marked done (done-unconfirmed judges that), is queued again or stays in the
	// cache, not done (recover() finds it after a restart)
	seen := map[string]bool{}
	for _, f := range files {
		n := f.name
		s, cached := before[n]
		if seen[n] || !cached || s.done {
			continue
		}
		seen[n] = true
		d, onDisk := disk[n]
		if !onDisk || d.frac || d.size != s.size || d.time != s.time {
			continue
		}
		marked := false
		for _, t := range e.trace {
			if strings.HasPrefix(t, "cdone:"+esc(n)+":") {
				marked = true
			}
		}
		if marked || queued[n] {
			continue
		}
		a, still := after[n]
		switch {
		case !still:
			e.failf("retry-dropped: %s (refused by the receiver, unchanged on disk) was neither queued again nor kept in the cache", n)
		case a.done:
			e.failf("retry-dropped: %s (refused by the receiver, unchanged on disk) was not queued again and its cache entry says done", n)
		case a.size != s.size || a.time != s.time:
			e.failf("retry-dropped: %s was not queued again and its cache entry no longer describes the file on disk", n)
		}
	}
	pt := "-"
	if len(ptoks) > 0 {
		pt = strings.Join(ptoks, " ")
	}
	return e.traceView() + " | push=" + pt + " | " + e.stateView()
}

// ---- tracker

type relBinned struct {
	name     string
	hash     string
	sendSize int64
	n        int64
}

func (b *relBinned) GetName() string          { return b.name }
func (b *relBinned) GetRenamed() string       { return "" }
func (b *relBinned) GetPrev() string          { return "" }
func (b *relBinned) GetFileTime() time.Time   { return time.Time{} }
func (b *relBinned) GetFileHash() string      { return b.hash }
func (b *relBinned) GetFileSize() int64       { return b.sendSize + 1000000 }
func (b *relBinned) GetSendSize() int64       { return b.sendSize }
func (b *relBinned) GetSlice() (int64, int64) { return 0, b.n }

type relPayload struct {
	parts []sts.Binned
	t     time.Time
}

func (p *relPayload) Add(sts.Binnable) bool         { return false }
func (p *relPayload) Remove(sts.Binned)             {}
func (p *relPayload) IsFull() bool                  { return true }
func (p *relPayload) Split(int) sts.Payload         { return nil }
func (p *relPayload) GetSize() int64                { return 1 }
func (p *relPayload) GetParts() []sts.Binned        { return p.parts }
func (p *relPayload) EncodeHeader() ([]byte, error) { return nil, nil }
func (p *relPayload) GetEncoder() io.ReadCloser     { return nil }
func (p *relPayload) GetStarted() time.Time         { return p.t }
func (p *relPayload) GetCompleted() time.Time       { return p.t }

func (e *relExec) doTrack(arg string) string {
	var payloads []sts.Payload
	sendSize := map[string]int64{}
	for _, ps := range strings.Split(arg, ";") {
		pl := &relPayload{t: e.base}
		for _, s := range strings.Split(ps, ",") {
			f := strings.Split(s, ":")
			if len(f) != 4 || !relValidName(f[0]) {
				return "bad-op"
			}
			sz, e1 := strconv.ParseInt(f[2], 10, 64)
			n, e2 := strconv.ParseInt(f[3], 10, 64)
			if e1 != nil || e2 != nil {
				return "bad-op"
			}
			pl.parts = append(pl.parts, &relBinned{name: f[0], hash: unesc(f[1]), sendSize: sz, n: n})
			sendSize[f[0]] = sz
		}
		payloads = append(payloads, pl)
	}
	e.beginAction("track")
	b := e.newBroker(len(payloads) + 64)
	// the waiting time is chosen by what the bookkeeping predicts; the answer is what happened
	var sim [][][4]string
	for _, ps := range strings.Split(arg, ";") {
		var pl [][4]string
		for _, s := range strings.Split(ps, ",") {
			f := strings.Split(s, ":")
			pl = append(pl, [4]string{f[0], unesc(f[1]), f[2], f[3]})
		}
		sim = append(sim, pl)
	}
	grace := 15 * time.Second
	if len(relTrackSim(sim)) > 0 {
		grace = 100 * time.Millisecond
	}
	handed, stuck := b.VerifReleaseTrack(payloads, grace)
	var ht []string
	for _, h := range handed {
		e.decided = true
		ht = append(ht, fmt.Sprintf("%s/%s/%d/%d", esc(h.GetName()), esc(h.GetHash()), h.GetSize(), client.VerifReleaseSent(h)))
		// oracle poll_only_after_all_bytes: handed to the validator only when the bytes
		// counted as sent reach the announced send size
		if client.VerifReleaseSent(h) < h.GetSize() {
			e.failf("poll-before-all-bytes: %s handed to the validator with %d of %d bytes sent", h.GetName(), client.VerifReleaseSent(h), h.GetSize())
		}
	}
	sort.Strings(ht)
	var lg []string
	for _, t := range e.trace {
		if strings.HasPrefix(t, "log:") {
			lg = append(lg, strings.Split(t[4:], ":")[0])
		}
	}
	st := "0"
	if stuck {
		st = "1"
	}
	j := func(l []string) string {
		if len(l) == 0 {
			return "-"
		}
		return strings.Join(l, ",")
	}
	return "handed=" + j(ht) + " logged=" + j(lg) + " stuck=" + st
}

func (e *relExec) Do(op []string) string {
	e.key.WriteString(strings.Join(op, " "))
	e.key.WriteByte(';')
	atoi := func(s string) (int64, bool) {
		v, err := strconv.ParseInt(s, 10, 64)
		return v, err == nil
	}
	natural := func(s string) (int64, bool) {
		if s == "" || s[0] == '+' || s[0] == '-' {
			return 0, false
		}
		return atoi(s)
	}
	bit := func(s string) (bool, bool) { return s == "1", s == "0" || s == "1" }
	switch {
	case len(op) == 4 && op[0] == "tag":
		del, ok1 := bit(op[2])
		delay, ok2 := atoi(op[3])
		if !ok1 || !ok2 {
			return "bad-op"
		}
		e.tags = append(e.tags, &client.FileTag{Name: unesc(op[1]), Delete: del, DeleteDelay: time.Duration(delay) * time.Hour})
		return "ok"
	case len(op) == 3 && op[0] == "conf" && (op[1] == "pollmax" || op[1] == "attempts"):
		k, ok := natural(op[2])
		if !ok || k == 0 {
			return "bad-op"
		}
		if op[1] == "pollmax" {
			e.pollMax = int(k)
		} else {
			e.attempts = int(k)
		}
		return "ok"
	case len(op) == 6 && op[0] == "cache":
		delete(e.sawRecover, unesc(op[1]))
		size, ok1 := atoi(op[2])
		t, ok2 := relParseTime(op[3])
		done, ok3 := bit(op[5])
		if !ok1 || !ok2 || !ok3 || e.started || !relValidName(op[1]) || e.declSeen[op[1]] {
			return "bad-op"
		}
		e.declSeen[op[1]] = true
		h := e.tokHash(op[4])
		e.decl = append(e.decl, relDecl{op[1], size, t, h, done})
		if done {
			// a done entry of the initial cache stands for a version confirmed earlier
			e.confirmed[op[1]] = relVersion{size, t, h, true}
		}
		return "ok"
	case len(op) == 5 && op[0] == "file":
		size, ok1 := natural(op[2])
		t, ok2 := relParseTime(op[3])
		if !ok1 || !ok2 || !relValidName(op[1]) || !relValidName(op[4]) || size > 1<<20 {
			return "bad-op"
		}
		e.tokHash(relFileTok(op[4], size))
		p := filepath.Join(e.root, op[1])
		os.Remove(p)
		if err := os.WriteFile(p, relContent(op[4], size), 0o644); err != nil {
			panic(err)
		}
		if err := os.Chtimes(p, e.at(t), e.at(t)); err != nil {
			panic(err)
		}
		// the scratch file system must keep the 100 ms part (tmpfs, ext4, xfs do; a 1 s or 2 s
		// file system would silently turn `T+K` into `T`)
		if fi, err := os.Lstat(p); err != nil || !fi.ModTime().Equal(e.at(t)) {
			panic(fmt.Sprintf("release harness: the file system under %s does not keep the modification time %s it was given", e.sandbox, relFmtTicks(t)))
		}
		return "ok"
	case len(op) == 2 && op[0] == "rmfile":
		if !relValidName(op[1]) {
			return "bad-op"
		}
		os.Remove(filepath.Join(e.root, op[1]))
		return "ok"
	case len(op) == 6 && op[0] == "partial":
		size, ok1 := atoi(op[2])
		if !ok1 || !relValidName(op[1]) {
			return "bad-op"
		}
		p := &sts.Partial{Name: op[1], Size: size, Hash: e.tokHash(op[3]), Prev: unesc(op[4])}
		if op[5] != "-" {
			for _, s := range strings.Split(op[5], ",") {
				be := strings.Split(s, ":")
				if len(be) != 2 {
					return "bad-op"
				}
				b, ok2 := atoi(be[0])
				en, ok3 := atoi(be[1])
				if !ok2 || !ok3 {
					return "bad-op"
				}
				p.Parts = append(p.Parts, &sts.ByteRange{Beg: b, End: en})
			}
		}
		e.partials = append(e.partials, p)
		return "ok"
	case len(op) == 3 && op[0] == "answer":
		if !relValidName(op[1]) {
			return "bad-op"
		}
		vs := strings.Split(op[2], ",")
		for _, v := range vs {
			switch v {
			case "none", "failed", "passed", "waiting", "other", "omit":
			default:
				return "bad-op"
			}
		}
		e.answers[op[1]] = vs
		return "ok"
	case len(op) == 2 && (op[0] == "pollerr" || op[0] == "recerr"):
		k, ok := natural(op[1])
		if !ok || k > 1000 {
			return "bad-op"
		}
		if op[0] == "pollerr" {
			e.pollErrs = int(k)
		} else {
			e.recErrs = int(k)
		}
		return "ok"
	case len(op) == 3 && op[0] == "logged":
		if !relValidName(op[1]) {
			return "bad-op"
		}
		e.logged[op[1]+"|"+e.tokHash(op[2])] = true
		return "ok"
	case len(op) == 3 && op[0] == "rcvhas":
		// ghost: what the receiver holds validated under that name (for the oracle only)
		if !relValidName(op[1]) {
			return "bad-op"
		}
		e.rcvHas[op[1]] = e.tokHash(op[2])
		return "ok"
	case len(op) == 2 && op[0] == "restart":
		k, ok := natural(op[1])
		if !ok || k > 100000 {
			return "bad-op"
		}
		e.materialise()
		e.doRestart(k)
		return "ok"
	case len(op) == 1 && op[0] == "recover":
		return e.doRecover()
	case len(op) == 1 && op[0] == "scan":
		return e.doScan()
	case len(op) == 3 && op[0] == "finish":
		switch op[2] {
		case "none", "failed", "passed", "waiting", "other":
		default:
			return "bad-op"
		}
		if !relValidName(op[1]) {
			return "bad-op"
		}
		return e.doFinish(op[1], op[2])
	case len(op) == 2 && op[0] == "validate":
		return e.doValidate(op[1])
	case len(op) == 4 && op[0] == "fault":
		kind := map[string]string{"open gone": "gone", "open eio": "openerr", "read eio": "readerr"}[op[1]+" "+op[3]]
		if kind == "" || !relValidName(op[2]) {
			return "bad-op"
		}
		e.faults[op[2]] = kind
		return "ok"
	case len(op) == 2 && op[0] == "retry":
		return e.doRetry(op[1])
	case len(op) == 2 && op[0] == "track":
		return e.doTrack(op[1])
	}
	return "bad-op"
}

// doRestart: the process is gone; k hours later a new one loads what Persist wrote last.
func (e *relExec) doRestart(k int64) {
	shift := time.Duration(k) * time.Hour
	j, err := e.readDisk()
	if err != nil {
		panic(err)
	}
	for _, f := range j.Files {
		if t, ok := relParseNano(f.Time); ok {
			f.Time = relNano(t.Add(-shift))
		}
	}
	if len(j.Files) > 0 || fileExists(e.cachePath()) {
		e.writeDisk(j)
	}
	ents, _ := os.ReadDir(e.root)
	for _, d := range ents {
		if info, err := d.Info(); err == nil && !d.IsDir() {
			t := info.ModTime().Add(-shift)
			os.Chtimes(filepath.Join(e.root, d.Name()), t, t)
		}
	}
	for n, v := range e.confirmed {
		v.time -= k * relTicksPerHour
		e.confirmed[n] = v
	}
	e.loadCache()
}

func fileExists(p string) bool { _, err := os.Stat(p); return err == nil }

func (releaseComp) AnswerClass(op []string, ans string) string {
	switch op[0] {
	case "fault":
		if ans == "ok" {
			return "fault:" + op[1] + "-" + op[3]
		}
		return "fault:" + ans
	case "recover", "scan", "finish", "validate", "track", "retry":
		if ans == "bad-op" {
			return op[0] + ":bad-op"
		}
		if op[0] == "retry" {
			kinds := map[string]bool{}
			parts := strings.Split(ans, " | ")
			for _, t := range strings.Fields(parts[0]) {
				if i := strings.Index(t, ":"); i > 0 {
					kinds[t[:i]] = true
				}
			}
			if len(parts) > 1 && parts[1] != "push=-" {
				kinds["push"] = true
			}
			if len(parts) > 2 && strings.Contains(parts[2], "/-/") {
				kinds["hashless"] = true
			}
			if len(kinds) == 0 {
				kinds["ignored"] = true
			}
			return "retry:" + strings.Join(sortedKeys(kinds), "+")
		}
		kinds := map[string]bool{}
		head := strings.SplitN(ans, " | mem=", 2)[0]
		for _, t := range strings.Fields(head) {
			if t == "|" {
				continue
			}
			k := t
			if i := strings.IndexAny(t, ":="); i >= 0 {
				k = t[:i]
				if strings.Contains(t, "=") && (strings.HasSuffix(t, "=-") || strings.HasSuffix(t, "=0")) {
					continue
				}
			}
			if k == "push" || k == "-" {
				continue
			}
			kinds[k] = true
		}
		return op[0] + ":" + strings.Join(sortedKeys(kinds), "+")
	default:
		return op[0] + ":" + ans
	}
}
