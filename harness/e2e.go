package main

// e2eRig: the real sender (client.Broker with real store.Local, cache.JSON, queue.Tagged,
// payload.Bin, log.FileIO) talking to a real receiver (stage.Stage with real log.FileIO)
// through an in-process "network" that mirrors http.Server.routeData / routeDataRecovery /
// routeValidate / routePartials and can inject faults. Every externally visible action of
// the sender is recorded. Used by the components that need whole-system runs (C03, C16, …).

import (
	"fmt"
	"io"
	"os"
	"path/filepath"
	"regexp"
	"sort"
	"strings"
	"sync"
	"time"

	"github.com/alecthomas/units"
	"github.com/arm-doe/sts"
	"github.com/arm-doe/sts/cache"
	"github.com/arm-doe/sts/client"
	stslog "github.com/arm-doe/sts/log"
	"github.com/arm-doe/sts/marshal"
	"github.com/arm-doe/sts/payload"
	"github.com/arm-doe/sts/queue"
	"github.com/arm-doe/sts/stage"
	"github.com/arm-doe/sts/store"
)

// fault kinds for the transport
type e2eFault struct {
	Kind string // tx: "err" (request refused before anything happened), "cut:k" (connection cut before part k is
	// processed, no answer), "lost" (everything processed, answer lost), "206:k" (receiver error on part k: answer 206 with count k)
	// rc/partials: "err"; poll: "err" (request fails), "failed" / "none" (the answer is overridden: every file of this
	// poll gets the verdict failed / not found although the receiver holds it)
}

type e2eConf struct {
	Threads      int
	PayloadSize  int64
	ChunkSize    int64
	ScanDelay    time.Duration
	PollDelay    time.Duration
	PollInterval time.Duration
	PollAttempts int
	PollMaxCount int
	MinAge       time.Duration
	Order        string // "fifo" | "lifo" | "alpha" | "" (none)
	Delete       bool
	DeleteDelay  time.Duration
	LastDelay    time.Duration
	GroupRe      string // grouping pattern (first submatch), default `^([^\.]*)`
	ErrorBackoff float64 // seconds a failed request waits before retry n (times n); 0 = none
}

func defaultE2EConf() e2eConf {
	return e2eConf{Threads: 2, PayloadSize: 64, ChunkSize: 0, ScanDelay: 30 * time.Millisecond,
		PollDelay: 5 * time.Millisecond, PollInterval: 5 * time.Millisecond, PollAttempts: 3, PollMaxCount: 10,
		Order: "fifo", GroupRe: `^([^\.]*)`}
}

type e2eRig struct {
	dir                                                       string
	outDir, cacheDir, sentLogDir, stageDir, finalDir, recvLog string
	conf                                                      e2eConf

	// gate: every request of the sender holds it shared for its whole duration; a restart of
	// the receiver takes it exclusively, so that the old instance dies between two requests
	// (an abandoned in-process instance would otherwise go on serving the request in flight
	// next to its successor, which a dead process cannot do). beforeRestart, when set, runs
	// under the exclusive gate before the old instance is abandoned (used to wait until its
	// background goroutines are idle).
	gate          sync.RWMutex
	beforeRestart func(old *stage.Stage)

	mu        sync.Mutex
	events    []string
	txFault   []e2eFault
	rcFault   []e2eFault
	pollFault []e2eFault
	partFault []e2eFault
	nTx       int
	// hook, when set, is called synchronously (outside the rig's lock) with every recorded event, in the
	// goroutine that caused it: lets a component deliver a stop request or change a file at an exact point.
	hook func(ev string)

	st       *stage.Stage
	stLogger *stslog.FileIO
	broker   *client.Broker
	stopCh   chan bool
	doneCh   chan bool
	jcache   *cache.JSON
}

func newE2ERig(conf e2eConf) (*e2eRig, error) {
	installStageHook() // quiet logging; the stage hook ignores instances it does not own
	tmp := os.Getenv("VERIF_TMP")
	if tmp == "" {
		tmp = os.TempDir()
	}
	os.MkdirAll(tmp, 0o755)
	d, err := os.MkdirTemp(tmp, "e2e-")
	if err != nil {
		return nil, err
	}
	r := &e2eRig{dir: d, conf: conf,
		outDir: filepath.Join(d, "out"), cacheDir: filepath.Join(d, "cache"), sentLogDir: filepath.Join(d, "sentlog"),
		stageDir: filepath.Join(d, "stage"), finalDir: filepath.Join(d, "final"), recvLog: filepath.Join(d, "recvlog")}
	for _, p := range []string{r.outDir, r.cacheDir, r.sentLogDir, r.stageDir, r.finalDir, r.recvLog} {
		os.MkdirAll(p, 0o755)
	}
	r.startReceiver()
	return r, nil
}

func (r *e2eRig) close() {
	r.stopSender(false, 5*time.Second)
	if r.st != nil {
		r.st.VerifStopTimers()
		r.st.Stop(true)
	}
	os.RemoveAll(r.dir)
}

func (r *e2eRig) event(format string, a ...any) {
	ev := fmt.Sprintf(format, a...)
	r.mu.Lock()
	r.events = append(r.events, ev)
	h := r.hook
	r.mu.Unlock()
	if h != nil {
		h(ev)
	}
}

func (r *e2eRig) takeEvents() []string {
	r.mu.Lock()
	defer r.mu.Unlock()
	e := r.events
	r.events = nil
	return e
}

func (r *e2eRig) nEvents() int {
	r.mu.Lock()
	defer r.mu.Unlock()
	return len(r.events)
}

// ---- receiver -------------------------------------------------------------------------

func (r *e2eRig) startReceiver() {
	r.stLogger = stslog.NewFileIO(r.recvLog, nil, safeLogOpen, true)
	st := stage.New("e2e", r.stageDir, r.finalDir, r.stLogger, nil, nil)
	st.Recover()
	r.mu.Lock()
	r.st = st
	r.mu.Unlock()
}

// restartReceiver abandons the running Stage (process death) and recovers a new one on the
// same directories.
func (r *e2eRig) restartReceiver() {
	r.gate.Lock()
	defer r.gate.Unlock()
	if r.beforeRestart != nil {
		r.beforeRestart(r.stageNow())
	}
	r.mu.Lock()
	old := r.st
	r.st = nil
	r.mu.Unlock()
	if old != nil {
		old.VerifStopTimers()
		old.Stop(true)
	}
	r.startReceiver()
	r.event("receiver-restart")
}

func (r *e2eRig) stageNow() *stage.Stage {
	r.mu.Lock()
	defer r.mu.Unlock()
	return r.st
}

// ---- transport (mirrors http/server.go route handlers) ---------------------------------

func (r *e2eRig) nextFault(q *[]e2eFault) *e2eFault {
	r.mu.Lock()
	defer r.mu.Unlock()
	if len(*q) == 0 {
		return nil
	}
	f := (*q)[0]
	*q = (*q)[1:]
	return &f
}

func partsDesc(ps []sts.Binned) string {
	var s []string
	for _, p := range ps {
		b, n := p.GetSlice()
		s = append(s, fmt.Sprintf("%s:%d:%d", esc(p.GetName()), b, b+n))
	}
	return strings.Join(s, ",")
}

func (r *e2eRig) transmit(pl sts.Payload) (int, error) {
	r.gate.RLock()
	defer r.gate.RUnlock()
	parts := pl.GetParts()
	desc := partsDesc(parts)
	f := r.nextFault(&r.txFault)
	st := r.stageNow()
	if st == nil || !st.Ready() {
		r.event("tx %s -> unavailable", desc)
		return 0, fmt.Errorf("bin failed with response code: 503")
	}
	if f != nil && f.Kind == "err" {
		r.event("tx %s -> err", desc)
		return 0, fmt.Errorf("bin failed with response code: 500")
	}
	cutAt, e206 := -1, -1
	lost := false
	if f != nil {
		switch {
		case strings.HasPrefix(f.Kind, "cut:"):
			fmt.Sscanf(f.Kind, "cut:%d", &cutAt)
		case strings.HasPrefix(f.Kind, "206:"):
			fmt.Sscanf(f.Kind, "206:%d", &e206)
		case f.Kind == "lost":
			lost = true
		}
	}
	enc := pl.GetEncoder()
	defer enc.Close()
	st.Prepare(parts)
	for i, p := range parts {
		if i == cutAt {
			r.event("tx %s -> cut@%d", desc, i)
			return 0, fmt.Errorf("connection cut")
		}
		beg, n := p.GetSlice()
		file := &sts.Partial{Name: p.GetName(), Renamed: p.GetRenamed(), Prev: p.GetPrev(), Size: p.GetFileSize(),
			Time: marshal.NanoTime{Time: p.GetFileTime()}, Hash: p.GetFileHash(), Source: "e2e",
			Parts: []*sts.ByteRange{{Beg: beg, End: beg + n}}}
		var rd io.Reader = io.LimitReader(enc, n)
		if i == e206 {
			rd = io.LimitReader(enc, 0) // the receiver sees a short part: Receive fails
			io.CopyN(io.Discard, enc, n)
		}
		if err := st.Receive(file, rd); err != nil {
			if os.Getenv("VERIF_E2E_DEBUG") != "" {
				fmt.Fprintf(os.Stderr, "e2e: Receive(%s %d:%d) failed: %v\n", p.GetName(), beg, beg+n, err)
			}
			r.event("tx %s -> 206@%d", desc, i)
			return i, fmt.Errorf("bin failed validation; successful part(s): %d", i)
		}
	}
	if lost {
		r.event("tx %s -> lost", desc)
		return 0, fmt.Errorf("answer lost")
	}
	r.event("tx %s -> ok", desc)
	return len(parts), nil
}

// metaPart converts a sender-side part into what the receiver decodes from the header
// (fileMeta.GetSlice is (Beg, End), part.GetSlice is (beg, len)).
type metaPart struct{ sts.Binned }

func (m metaPart) GetSlice() (int64, int64) { b, n := m.Binned.GetSlice(); return b, b + n }

func (r *e2eRig) recoverTx(pl sts.Payload) (int, error) {
	r.gate.RLock()
	defer r.gate.RUnlock()
	parts := pl.GetParts()
	if f := r.nextFault(&r.rcFault); f != nil {
		r.event("rc %s -> err", partsDesc(parts))
		return 0, fmt.Errorf("transmission recovery request failed with response code: 500")
	}
	st := r.stageNow()
	if st == nil || !st.Ready() {
		r.event("rc %s -> unavailable", partsDesc(parts))
		return 0, fmt.Errorf("transmission recovery request failed with response code: 503")
	}
	mp := make([]sts.Binned, len(parts))
	for i, p := range parts {
		mp[i] = metaPart{p}
	}
	n := st.Received(mp)
	r.event("rc %s -> %d", partsDesc(parts), n)
	return n, nil
}

type e2ePolled struct {
	sts.Pollable
	code int
}

func (c *e2ePolled) NotFound() bool { return c.code == sts.ConfirmNone }
func (c *e2ePolled) Waiting() bool  { return c.code == sts.ConfirmWaiting }
func (c *e2ePolled) Failed() bool   { return c.code == sts.ConfirmFailed }
func (c *e2ePolled) Received() bool { return c.code == sts.ConfirmPassed }

func (r *e2eRig) validate(sent []sts.Pollable) ([]sts.Polled, error) {
	r.gate.RLock()
	defer r.gate.RUnlock()
	var names []string
	for _, f := range sent {
		names = append(names, esc(f.GetName()))
	}
	override := -1
	if f := r.nextFault(&r.pollFault); f != nil {
		switch f.Kind {
		case "failed":
			override = sts.ConfirmFailed
		case "none":
			override = sts.ConfirmNone
		default:
			r.event("poll %s -> err", strings.Join(names, ","))
			return nil, fmt.Errorf("poll request failed: 500")
		}
	}
	st := r.stageNow()
	if st == nil || !st.Ready() {
		r.event("poll %s -> unavailable", strings.Join(names, ","))
		return nil, fmt.Errorf("poll request failed: 503")
	}
	var out []sts.Polled
	var verdicts []string
	for _, f := range sent {
		// the verdict is read and recorded ("pollv") under the event mutex: an observer that also
		// records the receiver's own steps (verifhook points) then sees them in an order that is
		// consistent with what this read saw
		r.mu.Lock()
		code := st.GetFileStatus(f.GetName(), time.Unix(f.GetStarted().Unix(), 0))
		if override >= 0 {
			code = override
		}
		r.events = append(r.events, fmt.Sprintf("pollv %s=%d", esc(f.GetName()), code))
		r.mu.Unlock()
		out = append(out, &e2ePolled{Pollable: f, code: code})
		verdicts = append(verdicts, fmt.Sprintf("%s=%d", esc(f.GetName()), code))
	}
	r.event("poll -> %s", strings.Join(verdicts, ","))
	return out, nil
}

func (r *e2eRig) partials() ([]*sts.Partial, error) {
	r.gate.RLock()
	defer r.gate.RUnlock()
	if f := r.nextFault(&r.partFault); f != nil {
		r.event("partials -> err")
		return nil, fmt.Errorf("partials request failed")
	}
	st := r.stageNow()
	if st == nil || !st.Ready() {
		r.event("partials -> unavailable")
		return nil, fmt.Errorf("partials request failed: 503")
	}
	b, err := st.Scan("1")
	if err != nil {
		return nil, err
	}
	ps, err := stage.ReadCompanions(strings.NewReader(string(b)))
	r.event("partials -> %d", len(ps))
	return ps, err
}

// ---- recording wrappers ------------------------------------------------------------------

type recStore struct {
	sts.FileSource
	r *e2eRig
}

// GetOpener reports every open of a source file as an "open" event (the scan's hashing phase and the
// payload readers): a stop can then be aimed at the middle of the hashing fan-out.
func (s recStore) GetOpener() sts.Open {
	inner := s.FileSource.GetOpener()
	return func(f sts.File) (sts.Readable, error) {
		s.r.event("open %s", esc(f.GetName()))
		return inner(f)
	}
}

func (s recStore) Remove(f sts.File) error {
	err := s.FileSource.Remove(f)
	s.r.event("remove %s", esc(f.GetName()))
	return err
}

type recCache struct {
	sts.FileCache
	r *e2eRig
}

func (c recCache) Done(name string, whileLocked func(sts.Cached)) {
	was := false
	if f := c.FileCache.Get(name); f != nil {
		was = f.IsDone()
	}
	c.FileCache.Done(name, whileLocked)
	if !was {
		c.r.event("done %s", esc(name))
	}
}
func (c recCache) Persist() error {
	err := c.FileCache.Persist()
	c.r.event("persist")
	return err
}
func (c recCache) Add(f sts.Hashed) {
	c.FileCache.Add(f)
	c.r.event("cache-add %s %s", esc(f.GetName()), f.GetHash())
}

type recLogger struct {
	sts.SendLogger
	r *e2eRig
}

func (l recLogger) Sent(f sts.Sent) {
	l.SendLogger.Sent(f)
	l.r.event("sent %s %s", esc(f.GetName()), f.GetHash())
}

// ---- sender ------------------------------------------------------------------------------

func (r *e2eRig) startSender() error {
	c := r.conf
	st := &store.Local{Root: r.outDir, MinAge: c.MinAge}
	st.AddStandardIgnore()
	jc, err := cache.NewJSON(r.cacheDir, r.outDir, "")
	if err != nil {
		return err
	}
	r.jcache = jc
	groupRe := regexp.MustCompile(c.GroupRe)
	order := map[string]string{"fifo": sts.OrderFIFO, "lifo": sts.OrderLIFO, "alpha": sts.OrderAlpha, "": sts.OrderNone}[c.Order]
	chunk := c.ChunkSize
	if chunk == 0 {
		chunk = c.PayloadSize
	}
	qtags := []*queue.Tag{{Name: "", Priority: 0, Order: order, ChunkSize: chunk, LastDelay: c.LastDelay}}
	tagger := func(group string) string { return "" }
	grouper := func(name string) string {
		m := groupRe.FindStringSubmatch(name)
		if len(m) > 1 && m[1] != "" && m[1] != name {
			return m[1]
		}
		return tagger(name)
	}
	nameToTag := func(name string) string { return tagger(grouper(name)) }
	r.broker = &client.Broker{Conf: &client.Conf{
		Name: "e2e", Store: recStore{st, r}, Cache: recCache{jc, r},
		Queue:        queue.NewTagged(qtags, tagger, grouper),
		Recoverer:    r.partials,
		BuildPayload: payload.NewBin,
		Transmitter:  r.transmit,
		TxRecoverer:  r.recoverTx,
		Validator:    r.validate,
		Logger:       recLogger{stslog.NewFileIO(r.sentLogDir, nil, safeLogOpen, false), r},
		Tagger:       nameToTag,
		CacheAge:     time.Hour, ScanDelay: c.ScanDelay, Threads: c.Threads, ErrorBackoff: c.ErrorBackoff,
		PayloadSize: units.Base2Bytes(c.PayloadSize), StatInterval: time.Hour,
		PollDelay: c.PollDelay, PollInterval: c.PollInterval, PollAttempts: c.PollAttempts, PollMaxCount: c.PollMaxCount,
		Tags: []*client.FileTag{{Name: "", InOrder: order != sts.OrderNone, Delete: c.Delete, DeleteDelay: c.DeleteDelay}},
	}}
	r.stopCh = make(chan bool, 1)
	r.doneCh = make(chan bool, 1)
	go r.broker.Start(r.stopCh, r.doneCh)
	r.event("sender-start")
	return nil
}

// stopSender asks the running sender to stop (graceful or immediately) and waits for Start
// to return; false = it did not return within the timeout.
func (r *e2eRig) stopSender(graceful bool, timeout time.Duration) bool {
	if r.broker == nil {
		return true
	}
	select {
	case r.stopCh <- graceful:
	default:
	}
	select {
	case <-r.doneCh:
		r.broker = nil
		r.event("sender-stopped graceful=%v", graceful)
		return true
	case <-time.After(timeout):
		return false
	}
}

// ---- helpers for oracles -----------------------------------------------------------------

func (r *e2eRig) writeSource(name string, body []byte, mtime time.Time) {
	p := filepath.Join(r.outDir, name)
	os.MkdirAll(filepath.Dir(p), 0o755)
	os.WriteFile(p, body, 0o644)
	os.Chtimes(p, mtime, mtime)
}

func listTree(root string) map[string][]byte {
	out := map[string][]byte{}
	filepath.Walk(root, func(p string, info os.FileInfo, err error) error {
		if err != nil || info.IsDir() {
			return nil
		}
		rel, _ := filepath.Rel(root, p)
		b, _ := os.ReadFile(p)
		out[rel] = b
		return nil
	})
	return out
}

func sortedNames(m map[string][]byte) []string {
	var s []string
	for k := range m {
		s = append(s, k)
	}
	sort.Strings(s)
	return s
}

// cacheState returns name -> done for the sender's queue cache (in memory).
func (r *e2eRig) cacheState() map[string]bool {
	out := map[string]bool{}
	if r.jcache != nil {
		r.jcache.Iterate(func(f sts.Cached) bool {
			out[f.GetName()] = f.IsDone()
			return false
		})
	}
	return out
}

// waitQuiet waits until cond() holds; false on timeout.
func waitUntil(timeout time.Duration, cond func() bool) bool {
	deadline := time.Now().Add(timeout)
	for time.Now().Before(deadline) {
		if cond() {
			return true
		}
		time.Sleep(5 * time.Millisecond)
	}
	return cond()
}
