/-
  The anchor of a group (the node whose name the next file announces as predecessor) across
  Push and Pop, and the history invariant behind C10 `prev_is_last_completed`.
-/
import StsModel.Lemmas.QueueHist

namespace Sts.Queue

def GroupSt.anchorName (g : GroupSt) : String :=
  match g.anchor with
  | some p => nodeName g.nodes p
  | none => ""

theorem GroupSt.WF.anchor_eq {g : GroupSt} (_h : g.WF) {pre : List Nat} (hrep : Rep g.nodes (pre ++ g.list))
    (hne : g.list ≠ []) : g.anchor = pre.getLast? := by
  unfold GroupSt.anchor
  cases hl : g.list with
  | nil => exact absurd hl hne
  | cons a t => exact (hl ▸ hrep).prev_head

/-- taking a listed file of the same name out again does not change the anchor -/
theorem dropFile_anchor {g : GroupSt} (h : g.WF) (name : String) : (g.dropFile name).anchor = g.anchor := by
  cases hf : ByFile.find g.byFile name with
  | none => rw [dropFile_none hf]
  | some o =>
    obtain ⟨hoL, hon⟩ := (h.byFile_iff name o).mp hf
    obtain ⟨L1, L2, hL⟩ := List.append_of_mem hoL
    obtain ⟨pre, hpl, hrep, hpa⟩ := h.chain
    have hanc := h.anchor_eq hrep (by rw [hL]; simp)
    have hnames := h.names
    rw [hL] at hnames hrep
    have hother : ∀ x ∈ L1 ++ L2, nodeName g.nodes x ≠ name := by
      intro x hx hxn
      simp only [List.map_append, List.map_cons] at hnames
      have := List.nodup_append.mp hnames
      simp at hx
      rcases hx with hx | hx
      · exact this.2.2 _ (List.mem_map_of_mem hx) name (by simp [hon]) hxn
      · have h2 := (List.nodup_cons.mp this.2.1).1
        exact h2 (by rw [hon, ← hxn]; exact List.mem_map_of_mem hx)
    have hsp := samePayload_unlink g.nodes o
    have hrep' : Rep (unlink g.nodes o) ((pre ++ L1) ++ L2) := by
      have : pre ++ (L1 ++ o :: L2) = (pre ++ L1) ++ o :: L2 := by simp
      rw [this] at hrep
      exact unlink_rep hrep
    have herase : eraseFirstName (unlink g.nodes o) g.list name = L1 ++ L2 := by
      rw [hL]
      apply eraseFirstName_split
      · intro x hx; rw [hsp.nodeName]; exact hother x (by simp [hx])
      · rw [hsp.nodeName]; exact hon
    have hnd := hrep.nodup
    have e3 : pre ++ (L1 ++ o :: L2) = (pre ++ L1) ++ o :: L2 := by simp
    have hprev : getPrev g.nodes o = (pre ++ L1).getLast? := by
      rw [hrep.prev, e3, predIn_append (e3 ▸ hnd)]; simp
    have hnext : getNext g.nodes o = L2.head? := by
      have hnd' := e3 ▸ hnd
      have hoA : o ∉ pre ++ L1 := (nodup_mid hnd').2.1
      rw [hrep.next, e3, succIn_append hnd']; simp [hoA, succIn]
    rw [dropFile_some hf, hanc]
    unfold GroupSt.anchor
    simp only [herase]
    cases hl' : L1 ++ L2 with
    | nil =>
      have hL1 : L1 = [] := by cases L1 <;> simp_all
      have hL2 : L2 = [] := by cases L2 <;> simp_all
      subst hL1; subst hL2
      have hhead := h.head_some (by rw [hL]; simp)
      rw [hL] at hhead
      simp at hhead
      simp only [hhead, beq_self_eq_true, if_true, hnext, hprev, List.head?_nil, Option.isNone_none, Bool.true_and,
        List.append_nil]
      cases pre.getLast? <;> rfl
    | cons a t =>
      simp only
      have : (pre ++ L1) ++ L2 = pre ++ a :: t := by rw [List.append_assoc, hl']
      rw [this] at hrep'
      exact hrep'.prev_head

theorem pushFile_anchor {g : GroupSt} (h : g.WF) (f : FileInfo) : (g.pushFile f).anchor = g.anchor := by
  have hd := dropFile_wf h f.name
  unfold GroupSt.pushFile
  rw [(addNew_wf_anchor hd.1 f hd.2.1).2, dropFile_anchor h]


theorem eraseFirstName_subset (ns : Nodes) (l : List Nat) (nm : String) : ∀ x ∈ eraseFirstName ns l nm, x ∈ l := by
  induction l with
  | nil => intro x hx; simp [eraseFirstName] at hx
  | cons a t ih =>
    intro x hx
    unfold eraseFirstName at hx
    split at hx
    · exact List.mem_cons_of_mem _ hx
    · simp at hx; rcases hx with hx | hx
      · simp [hx]
      · exact List.mem_cons_of_mem _ (ih x hx)

theorem dropFile_list_subset (g : GroupSt) (name : String) : ∀ x ∈ (g.dropFile name).list, x ∈ g.list := by
  cases hf : ByFile.find g.byFile name with
  | none => rw [dropFile_none hf]; exact fun x hx => hx
  | some o => rw [dropFile_some hf]; exact eraseFirstName_subset _ _ _

theorem addNew_list_mem (g : GroupSt) (f : FileInfo) : ∀ x ∈ (g.addNew f).list, x ∈ g.list ∨ x = g.nodes.length := by
  intro x hx
  unfold GroupSt.addNew GroupSt.addFile at hx
  dsimp only at hx
  split at hx
  · simp at hx; exact hx
  · split at hx
    · exact Or.inl hx
    · dsimp only at hx
      simp at hx
      rcases hx with hx | hx | hx
      · exact Or.inl (List.mem_of_mem_take hx)
      · exact Or.inr hx
      · exact Or.inl (List.mem_of_mem_drop hx)

theorem pushFile_list_mem (g : GroupSt) (f : FileInfo) :
    ∀ x ∈ (g.pushFile f).list, x ∈ g.list ∨ x = g.nodes.length := by
  intro x hx
  unfold GroupSt.pushFile at hx
  have hlen : (g.dropFile f.name).nodes.length = g.nodes.length := by
    cases hf : ByFile.find g.byFile f.name with
    | none => rw [dropFile_none hf]
    | some o => rw [dropFile_some hf]; simp
  rcases addNew_list_mem _ f x hx with h | h
  · exact Or.inl (dropFile_list_subset g f.name x h)
  · exact Or.inr (h.trans hlen)

/-- a scan leaves a group without fully allocated listed files untouched -/
theorem scanned_pure {g : GroupSt} (h : g.WF) (hp : ∀ x ∈ g.list, isAllocated g.nodes x = false) (now : Int) :
    g.scanned now = g := by
  have hskip : skipLoop (g.nodes.length + 1) g g.head 0 = (g, (skipLoop (g.nodes.length + 1) g g.head 0).2.1, 0) := by
    cases hl : g.list with
    | nil =>
      cases hh : g.head with
      | none => rfl
      | some hd =>
        have hhd := h.head_none hl hd hh
        have hnx : getNext g.nodes hd = none := by
          obtain ⟨pre, hpl, hrep, _⟩ := h.chain
          rw [hl] at hrep
          have := hrep.nil_of_short (by simpa using hpl)
          rw [this.next]; rfl
        rw [skipLoop_succ]
        simp [hhd.2, hnx]
    | cons a t =>
      have hhead : g.head = some a := by have := h.head_some (by simp [hl]); simpa [hl] using this
      have ha := hp a (by simp [hl])
      rw [hhead, skipLoop_succ]
      simp [ha]
  unfold GroupSt.scanned GroupSt.scan
  rw [hskip]
  dsimp only
  have : ({ g with list := if 0 > 0 then List.drop 0 g.list else g.list } : GroupSt) = g := by
    cases g; simp
  split <;> (try split) <;> simp


theorem complete_anchor {g : GroupSt} (h : g.WF) {c : Nat} {rest : List Nat} (hl : g.list = c :: rest)
    (ha : isAllocated g.nodes c = true) : (g.complete c).anchor = some c := by
  obtain ⟨_, c2, _, _, _, _, c7⟩ := complete_wf h hl ha
  unfold GroupSt.anchor
  rw [c2]
  cases hr : rest with
  | cons b t =>
    have := c7 (by rw [hr]; simp)
    rw [hr] at this; simpa using this
  | nil =>
    simp only
    obtain ⟨pre, hpl, hrep, hpa⟩ := h.chain
    rw [hl, hr] at hrep
    have hhead : g.head = some c := by have := h.head_some (by simp [hl]); simpa [hl] using this
    have hnext : getNext g.nodes c = none := by
      have hcA : c ∉ pre := (nodup_mid hrep.nodup).2.1
      rw [hrep.next, succIn_append hrep.nodup]; simp [hcA, succIn]
    unfold GroupSt.complete GroupSt.removeFile
    simp [hhead, hnext]

/-- the anchor after Pop's tail: the served file if it was completed, else unchanged -/
theorem emit_anchor {g : GroupSt} (h : g.WF) {c : Nat} {rest : List Nat} (hl : g.list = c :: rest) :
    (g.emit c).1.anchor = if (g.emit c).2.completed then some c else g.anchor := by
  have hcl : c < g.nodes.length := h.valid (by simp [hl])
  obtain ⟨nd, hnd⟩ : ∃ nd, g.nodes[c]? = some nd := ⟨g.nodes[c], List.getElem?_eq_getElem hcl⟩
  obtain ⟨f1, f2, f3, f4, f5, f6⟩ := nd.allocate_frame g.conf.chunk
  have hwf1 := setNode_wf h hl hnd f1 f2 f3 f4
  rw [emit_fst hnd, emit_snd hnd]
  dsimp only
  by_cases hdone : (nd.allocate g.conf.chunk).1.isAllocated = true
  · simp only [hdone, if_true]
    apply complete_anchor hwf1 hl
    rw [isAllocated_eq_payload, payload_set_eq _ _ _ hcl]; exact hdone
  · have hdone' : (nd.allocate g.conf.chunk).1.isAllocated = false := by simpa using hdone
    simp only [hdone', Bool.false_eq_true, if_false]
    unfold GroupSt.anchor
    simp only [hl]
    exact getPrev_set _ _ _ _ hnd f1 c


/-! ## groups without Recovered files and without files queued as already sent -/

/-- the name of the file of group `grp` that the answers `as` completed most recently ("" if none) -/
def lastCompleted (as : List (Option Chunk)) (grp : String) : String :=
  as.foldl (fun acc a => match a with
    | some ch => if ch.completed && ch.group == grp then ch.name else acc
    | none => acc) ""

theorem lastCompleted_snoc (as : List (Option Chunk)) (a : Option Chunk) (grp : String) :
    lastCompleted (as ++ [a]) grp = match a with
      | some ch => if ch.completed && ch.group == grp then ch.name else lastCompleted as grp
      | none => lastCompleted as grp := by
  unfold lastCompleted; rw [List.foldl_append]; rfl

/-- no file pushed into group `grp` is Recovered or fully allocated already -/
def PureGroup (c : Conf) (ops : List Op) (grp : String) : Prop :=
  ∀ f, Op.push f ∈ ops → c.grouper f.name = grp → f.rcv = none ∧ f.allocatedAtPush = false

structure Pure (c : Conf) (ops : List Op) (as : List (Option Chunk)) (s : State) (grp : String) : Prop where
  hist : Hist c ops as s
  pending : ∀ g ∈ s, g.name = grp → ∀ x ∈ g.list, isAllocated g.nodes x = false
  anchor : ∀ g ∈ s, g.name = grp → g.anchorName = lastCompleted as grp
  groups : ∀ ch, some ch ∈ as → ∃ g ∈ s, g.name = ch.group

theorem anchorName_congr {g g' : GroupSt} (ha : g'.anchor = g.anchor)
    (hn : ∀ p, g.anchor = some p → nodeName g'.nodes p = nodeName g.nodes p) : g'.anchorName = g.anchorName := by
  unfold GroupSt.anchorName
  rw [ha]
  cases hp : g.anchor with
  | none => rfl
  | some p => exact hn p hp

/-- the anchor of a well-formed group is a valid node -/
theorem GroupSt.WF.anchor_lt {g : GroupSt} (h : g.WF) {p : Nat} (hp : g.anchor = some p) : p < g.nodes.length := by
  unfold GroupSt.anchor at hp
  cases hl : g.list with
  | nil => rw [hl] at hp; simp only at hp; exact (h.head_none hl p hp).1
  | cons a t =>
    rw [hl] at hp
    obtain ⟨pre, _, hrep, _⟩ := h.chain
    rw [hl] at hrep
    simp only at hp
    rw [hrep.prev_head] at hp
    exact hrep.valid p (by simp [List.mem_of_getLast? hp])


theorem names_step_mem (c : Conf) {s : State} (h : State.WF s) (op : Op) :
    ∀ g ∈ s, ∃ g' ∈ (step c s op).1, g'.name = g.name := by
  intro g hg
  have hmem : g.name ∈ names s := List.mem_map_of_mem (f := fun (x : GroupSt) => x.name) hg
  suffices hs : g.name ∈ names (step c s op).1 by
    obtain ⟨g', hg', e⟩ := List.mem_map.mp hs
    exact ⟨g', hg', e⟩
  cases op with
  | push f => exact (names_push_sublist c h f).subset hmem
  | pop now =>
    show g.name ∈ names (pop s now).1
    cases hp : pop s now with
    | mk s' r =>
      cases r with
      | none =>
        have := (pop_none_spec h hp).1
        subst this
        have : names (s.map (fun g => g.scanned now)) = names s := by
          unfold names; simp only [List.map_map]
          exact List.map_congr_left (fun g hg => (scanned_spec (h.groups g hg) now).2.2.1)
        simp only [this]; exact hmem
      | some ch =>
        obtain ⟨pre, T, D, pre', g0, g0', e1, e2, e3, e4, e5, _⟩ := pop_groups h hp
        have hn' : names s' = names pre ++ names T ++ g0.name :: names D := by
          unfold names; rw [e2]; simp [e3, e5]
        have hn : names s = names pre ++ g0.name :: (names T ++ names D) := by
          unfold names; rw [e1]; simp
        simp only
        rw [hn] at hmem
        rw [hn']
        simp at hmem ⊢
        rcases hmem with h1 | h1 | h1 | h1
        · exact Or.inl h1
        · exact Or.inr (Or.inr (Or.inl h1))
        · exact Or.inr (Or.inl h1)
        · exact Or.inr (Or.inr (Or.inr h1))

theorem lastCompleted_none {as : List (Option Chunk)} {grp : String} (h : ∀ ch, some ch ∈ as → ch.group ≠ grp) :
    lastCompleted as grp = "" := by
  unfold lastCompleted
  generalize "" = acc
  induction as generalizing acc with
  | nil => rfl
  | cons a t ih =>
    simp only [List.foldl_cons]
    have ht := ih (fun ch hch => h ch (by simp [hch]))
    cases a with
    | none => exact ht acc
    | some ch =>
      have : (ch.group == grp) = false := by simpa using h ch (by simp)
      simp only [this, Bool.and_false, Bool.false_eq_true, if_false]
      exact ht acc


theorem Pure.next {c : Conf} {ops : List Op} {as : List (Option Chunk)} {s : State} {grp : String}
    (h : Pure c ops as s grp) (op : Op) (hpg : PureGroup c (ops ++ [op]) grp) :
    Pure c (ops ++ [op]) (as ++ [(step c s op).2]) (step c s op).1 grp := by
  have hh := h.hist
  refine ⟨hh.next op, fun g' hg' hgn x hx => ?_, fun g' hg' hgn => ?_, fun ch hch => ?_⟩
  · -- listed files are not fully allocated
    cases step_origin c hh.wf op g' hg' with
    | same hs _ => exact h.pending g' hs hgn x hx
    | pushed g f hop hgs hgname hgw he =>
      subst he
      have hpay := pushFile_payload g f
      have hname := (pushFile_conf g f hgw).2
      rw [hname] at hgn
      have hfp := hpg f (by simp [hop]) (hgname ▸ hgn)
      rcases pushFile_list_mem g f x hx with hx | hx
      · have hxl : x < g.nodes.length := hgw.valid hx
        rw [isAllocated_eq_payload, hpay.2.1 x hxl, ← isAllocated_eq_payload]
        rcases hgs with hgs | hgs
        · exact h.pending g hgs hgn x hx
        · rw [hgs.1] at hxl; simp at hxl
      · subst hx
        rw [isAllocated_eq_payload, hpay.2.2]; exact hfp.2
    | scanned g now hop hgs he _ =>
      subst he
      have hsc := scanned_spec (hh.wf.groups g hgs) now
      rw [hsc.2.2.1] at hgn
      rw [scanned_pure (hh.wf.groups g hgs) (h.pending g hgs hgn) now] at hx ⊢
      exact h.pending g hgs hgn x hx
    | served g now n rest hop hgs hnf hl he hch =>
      subst he
      have hgw := hh.wf.groups g hgs
      have hsc := scanned_spec hgw now
      have hem := emit_spec hsc.1 hl
      rw [hem.2.2.1, hsc.2.2.1] at hgn
      have hpure := scanned_pure hgw (h.pending g hgs hgn) now
      rw [hpure] at hl hem hx ⊢
      rw [hem.2.2.2.2.1] at hx
      by_cases hxn : x = n
      · subst hxn
        rw [hem.2.2.2.2.2.2.2.2.1]
        cases hcomp : (g.emit x).2.completed with
        | false => rfl
        | true =>
          rw [hcomp] at hx; simp only [if_true] at hx
          have hnd : g.list.Nodup := by
            obtain ⟨pre, _, hrep, _⟩ := hgw.chain
            exact (List.nodup_append.mp hrep.nodup).2.1
          rw [hl] at hnd
          exact absurd hx (List.nodup_cons.mp hnd).1
      · rw [isAllocated_eq_payload, hem.2.2.2.2.2.1 x hxn, ← isAllocated_eq_payload]
        apply h.pending g hgs hgn
        split at hx
        · rw [hl]; exact List.mem_cons_of_mem _ hx
        · exact hx
  · -- the anchor carries the name of the file completed last
    cases step_origin c hh.wf op g' hg' with
    | same hs hunc =>
      rw [lastCompleted_snoc, h.anchor g' hs hgn]
      cases ha : (step c s op).2 with
      | none => rfl
      | some ch =>
        have : (ch.group == grp) = false := by simpa using hgn ▸ hunc.2 ch ha
        simp [this]
    | pushed g f hop hgs hgname hgw he =>
      subst he
      have hpay := pushFile_payload g f
      have hname := (pushFile_conf g f hgw).2
      rw [hname] at hgn
      have hans : (step c s op).2 = none := by subst hop; rfl
      rw [lastCompleted_snoc, hans]
      have hcongr : (g.pushFile f).anchorName = g.anchorName :=
        anchorName_congr (pushFile_anchor hgw f) (fun p hp => by
          have hpl := hgw.anchor_lt hp
          rw [nodeName_eq_payload, hpay.2.1 p hpl, ← nodeName_eq_payload])
      rw [hcongr]
      rcases hgs with hgs | hgs
      · exact h.anchor g hgs hgn
      · -- a new group: nothing of it was ever completed
        have hl : g.list = [] := by
          cases hl : g.list with
          | nil => rfl
          | cons a t => have := hgw.valid (i := a) (by simp [hl]); rw [hgs.1] at this; simp at this
        have hhd : g.head = none := by
          cases hhd : g.head with
          | none => rfl
          | some hd => have := (hgw.head_none hl hd hhd).1; rw [hgs.1] at this; simp at this
        have : g.anchorName = "" := by
          unfold GroupSt.anchorName GroupSt.anchor; rw [hl, hhd]
        rw [this]
        exact (lastCompleted_none (fun ch hch e => by
          obtain ⟨g2, hg2, hg2n⟩ := h.groups ch hch
          exact hgs.2 g2 hg2 (hg2n.trans (e.trans hgn.symm)))).symm
    | scanned g now hop hgs he hunc =>
      subst he
      have hsc := scanned_spec (hh.wf.groups g hgs) now
      rw [hsc.2.2.1] at hgn
      rw [scanned_pure (hh.wf.groups g hgs) (h.pending g hgs hgn) now]
      rw [lastCompleted_snoc, h.anchor g hgs hgn]
      cases ha : (step c s op).2 with
      | none => rfl
      | some ch =>
        have : (ch.group == grp) = false := by simpa using hgn ▸ hunc.2 ch ha
        simp [this]
    | served g now n rest hop hgs hnf hl he hch =>
      subst he
      have hgw := hh.wf.groups g hgs
      have hsc := scanned_spec hgw now
      have hem := emit_spec hsc.1 hl
      rw [hem.2.2.1, hsc.2.2.1] at hgn
      have hpure := scanned_pure hgw (h.pending g hgs hgn) now
      rw [hpure] at hl hem hch ⊢
      have hanc := emit_anchor hgw hl
      have hgrp : (g.emit n).2.group = grp := by rw [hem.2.2.2.2.2.2.2.2.2.2.1]; exact hgn
      rw [lastCompleted_snoc, hch]
      simp only [hgrp, beq_self_eq_true, Bool.and_true]
      cases hcomp : (g.emit n).2.completed with
      | true =>
        rw [hcomp] at hanc
        simp only [if_true] at hanc ⊢
        unfold GroupSt.anchorName; rw [hanc]
        simp only
        rw [hem.2.2.2.2.2.2.1, hem.2.2.2.2.2.2.2.2.2.1]
      | false =>
        rw [hcomp] at hanc
        simp only [Bool.false_eq_true, if_false] at hanc ⊢
        rw [← h.anchor g hgs hgn]
        exact anchorName_congr hanc (fun p _ => hem.2.2.2.2.2.2.1 p)
  · -- every chunk's group exists
    simp at hch
    rcases hch with hch | hch
    · obtain ⟨g, hg, hgn⟩ := h.groups ch hch
      obtain ⟨g', hg', hgn'⟩ := names_step_mem c hh.wf op g hg
      exact ⟨g', hg', hgn'.trans hgn⟩
    · cases op with
      | push f => simp [step] at hch
      | pop now =>
        have hp : pop s now = ((pop s now).1, some ch) := by
          have : (pop s now).2 = some ch := hch.symm
          rw [← this]
        obtain ⟨pre, T, D, pre', g, g0', e1, _, _, _, _, _, e7, _⟩ := pop_groups hh.wf hp
        have hg : g ∈ s := by rw [e1]; simp
        have hgn : g.name = ch.group := e7.symm
        obtain ⟨g', hg', hgn'⟩ := names_step_mem c hh.wf (.pop now) g hg
        exact ⟨g', hg', hgn'.trans hgn⟩


theorem Pure.empty (c : Conf) (grp : String) : Pure c [] [] [] grp := ⟨Hist.empty c, by simp, by simp, by simp⟩

theorem Pure.runs {c : Conf} {grp : String} (ops2 : List Op) : ∀ {ops : List Op} {as : List (Option Chunk)} {s : State},
    Pure c ops as s grp → PureGroup c (ops ++ ops2) grp →
    Pure c (ops ++ ops2) (as ++ (run c s ops2).2) (run c s ops2).1 grp := by
  induction ops2 with
  | nil => intro ops as s h _; simpa [run] using h
  | cons op ops2 ih =>
    intro ops as s h hp
    have hp1 : PureGroup c (ops ++ [op]) grp := fun f hf => hp f (by
      simp at hf ⊢; rcases hf with hf | hf
      · exact Or.inl hf
      · exact Or.inr (Or.inl hf))
    have := ih (h.next op hp1) (by simpa using hp)
    rw [run_cons]
    simpa using this

theorem pure_reachable (c : Conf) (ops : List Op) (grp : String) (hp : PureGroup c ops grp) :
    Pure c ops (run c [] ops).2 (run c [] ops).1 grp := by
  have := Pure.runs ops (Pure.empty c grp) (by simpa using hp)
  simpa using this

end Sts.Queue
