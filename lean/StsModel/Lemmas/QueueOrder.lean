/-
  Helper lemmas for the queue model: Go's sort.Search, and the order relations of addFile.
-/
import StsModel.Model.Queue

namespace Sts.Queue

/-! ## sort.Search -/

/-- what binary search guarantees on a predicate that is monotone on `[i, j)` -/
theorem searchGo_spec (f : Nat → Bool) (fuel : Nat) : ∀ (i j : Nat), i ≤ j → j - i ≤ fuel →
    (∀ a b, i ≤ a → a ≤ b → b < j → f a = true → f b = true) →
    i ≤ searchGo f fuel i j ∧ searchGo f fuel i j ≤ j ∧
    (∀ a, i ≤ a → a < searchGo f fuel i j → f a = false) ∧
    (∀ a, searchGo f fuel i j ≤ a → a < j → f a = true) := by
  induction fuel with
  | zero =>
    intro i j hij hf _
    have : i = j := by omega
    subst this
    exact ⟨Nat.le_refl _, Nat.le_refl _, fun a h1 h2 => by simp [searchGo] at h2; omega, fun a h1 h2 => by simp [searchGo] at h1; omega⟩
  | succ fuel ih =>
    intro i j hij hfu hmono
    unfold searchGo
    by_cases hlt : i < j
    · simp only [hlt, if_true]
      by_cases hf : f ((i + j) / 2) = true
      · simp only [hf, Bool.not_true, Bool.false_eq_true, if_false]
        have := ih i ((i + j) / 2) (by omega) (by omega) (fun a b h1 h2 h3 => hmono a b h1 h2 (by omega))
        refine ⟨this.1, by omega, this.2.2.1, fun a h1 h2 => ?_⟩
        by_cases ha : a < (i + j) / 2
        · exact this.2.2.2 a h1 ha
        · exact hmono ((i + j) / 2) a (by omega) (by omega) h2 hf
      · have hf' : f ((i + j) / 2) = false := by simpa using hf
        simp only [hf', Bool.not_false, if_true]
        have := ih ((i + j) / 2 + 1) j (by omega) (by omega) (fun a b h1 h2 h3 => hmono a b (by omega) h2 h3)
        refine ⟨by omega, this.2.1, fun a h1 h2 => ?_, this.2.2.2⟩
        by_cases ha : a ≤ (i + j) / 2
        · cases hfa : f a with
          | false => rfl
          | true =>
            have := hmono a ((i + j) / 2) h1 ha (by omega) hfa
            rw [hf'] at this; cases this
        · exact this.2.2.1 a (by omega) h2
    · simp only [hlt, if_false]
      have : i = j := by omega
      subst this
      exact ⟨Nat.le_refl _, Nat.le_refl _, fun a h1 h2 => by omega, fun a h1 h2 => by omega⟩

theorem searchGo_le (f : Nat → Bool) (fuel : Nat) : ∀ (i j : Nat), i ≤ j → searchGo f fuel i j ≤ j := by
  induction fuel with
  | zero => intro i j h; simpa [searchGo] using h
  | succ fuel ih =>
    intro i j hij
    unfold searchGo
    by_cases hlt : i < j
    · simp only [hlt, if_true]
      split
      · exact ih _ _ (by omega)
      · have := ih i ((i + j) / 2) (by omega); omega
    · simp only [hlt, if_false]; exact hij

theorem search_le (n : Nat) (f : Nat → Bool) : search n f ≤ n := searchGo_le f n 0 n (Nat.zero_le _)

/-- the linear scan: first index below `n` at which `f` holds, `n` if there is none -/
def firstTrue (f : Nat → Bool) : Nat → Nat → Nat
  | i, 0 => i
  | i, k + 1 => if f i then i else firstTrue f (i + 1) k

theorem firstTrue_spec (f : Nat → Bool) (i k : Nat) :
    i ≤ firstTrue f i k ∧ firstTrue f i k ≤ i + k ∧
    (∀ a, i ≤ a → a < firstTrue f i k → f a = false) ∧
    (firstTrue f i k < i + k → f (firstTrue f i k) = true) := by
  induction k generalizing i with
  | zero => simp [firstTrue]; intro a h1 h2; omega
  | succ k ih =>
    unfold firstTrue
    split
    · rename_i h; exact ⟨Nat.le_refl _, by omega, fun a h1 h2 => by omega, fun _ => h⟩
    · rename_i h
      have := ih (i + 1)
      refine ⟨by omega, by omega, fun a h1 h2 => ?_, fun h3 => this.2.2.2 (by omega)⟩
      by_cases ha : a = i
      · subst ha; simpa using h
      · exact this.2.2.1 a (by omega) h2

/-- C10 `binsearch_eq_linear`: on a predicate that is monotone on `[0, n)` Go's sort.Search
    returns the index found by the linear scan (the first true index, `n` if none). -/
theorem binsearch_eq_linear (n : Nat) (f : Nat → Bool)
    (hmono : ∀ a b, a ≤ b → b < n → f a = true → f b = true) :
    search n f = firstTrue f 0 n := by
  have hs := searchGo_spec f n 0 n (Nat.zero_le _) (by omega) (fun a b _ h2 h3 h4 => hmono a b h2 h3 h4)
  have hl := firstTrue_spec f 0 n
  unfold search
  generalize searchGo f n 0 n = r at hs
  generalize firstTrue f 0 n = l at hl
  rcases Nat.lt_trichotomy r l with h | h | h
  · -- f r is false (linear) but true (binary)
    have h1 := hl.2.2.1 r (Nat.zero_le _) h
    have h2 := hs.2.2.2 r (Nat.le_refl _) (by omega)
    simp [h1] at h2
  · exact h
  · have h1 := hs.2.2.1 l (Nat.zero_le _) h
    have h2 := hl.2.2.2 (by omega)
    simp [h1] at h2

/-! ## the order relations -/

theorem sortsAfter_asymm (o : Order) (a b : FileInfo) (h : sortsAfter o a b = true) : sortsAfter o b a = false := by
  cases o <;> simp only [sortsAfter] at h ⊢
  · -- fifo
    split at h
    · rename_i ht
      have ht' : a.time = b.time := by simpa using ht
      simp at h
      simp [ht']
      exact String.not_lt.mp (String.lt_asymm h)
    · rename_i ht
      simp at h ht
      have : ¬ b.time = a.time := fun e => ht e.symm
      simp [this]; omega
  · split at h
    · rename_i ht
      have ht' : a.time = b.time := by simpa using ht
      simp at h
      simp [ht']
      exact String.not_lt.mp (String.lt_asymm h)
    · rename_i ht
      simp at h ht
      have : ¬ b.time = a.time := fun e => ht e.symm
      simp [this]; omega
  · simp at h ⊢; exact String.not_lt.mp (String.lt_asymm h)


/-- negative transitivity: if `a` sorts after `b` and `a` does not sort after `c`, then `c` sorts after `b` -/
theorem sortsAfter_negtrans (o : Order) (a b c : FileInfo) (h1 : sortsAfter o a b = true)
    (h2 : sortsAfter o a c = false) : sortsAfter o c b = true := by
  have slt : ∀ {x y z : String}, x < y → ¬ z < y → x < z := by
    intro x y z hxy hzy
    have hyz : y ≤ z := String.not_lt.mp hzy
    rcases String.le_total z x with h | h
    · exact absurd (String.le_trans hyz h) (String.not_le.mpr hxy)
    · exact String.not_le.mp (fun h' => by
        have := String.le_antisymm h h'
        subst this
        exact (String.not_le.mpr hxy) hyz)
  cases o <;> simp only [sortsAfter] at h1 h2 ⊢
  · -- fifo
    simp only [beq_iff_eq] at h1 h2 ⊢
    split at h1 <;> split at h2 <;> split <;>
      simp only [decide_eq_true_eq, decide_eq_false_iff_not] at h1 h2 ⊢ <;>
      first | omega | exact slt h1 h2
  · simp only [beq_iff_eq] at h1 h2 ⊢
    split at h1 <;> split at h2 <;> split <;>
      simp only [decide_eq_true_eq, decide_eq_false_iff_not] at h1 h2 ⊢ <;>
      first | omega | exact slt h1 h2
  · simp at h1 h2 ⊢; exact slt h1 (String.not_lt.mpr h2)
  · simp at h1
  · simp at h1

end Sts.Queue
