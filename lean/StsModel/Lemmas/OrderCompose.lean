/-
  Composition of the sender's predecessor chain with the receiver's "no record before its
  predecessor" guarantee, over plain data (lists of names); independent of Model/Queue.lean
  and of Model/Stage*.lean. Used by Props/C04Compose.lean.

  * `emitted`  : the files of one ordered group in the order the sender completed them
  * `prevOf`   : the predecessor announced with a file
  * `log`      : names in receive-log order (any names, also of other groups)
-/

namespace Sts.Compose

abbrev Name := String

/-- the sender's side: `prevOf` is the chain of `emitted`. -/
structure Chain (prevOf : Name → Name) (emitted : List Name) : Prop where
  /-- no file is completed twice -/
  nodup : emitted.Nodup
  /-- the empty name (which means "no predecessor" on the wire) is not a file -/
  named : "" ∉ emitted
  /-- the first file announces nothing -/
  first : ∀ a, emitted[0]? = some a → prevOf a = ""
  /-- every later file announces the file completed just before it -/
  next : ∀ i a b, emitted[i]? = some a → emitted[i + 1]? = some b → prevOf b = a

/-- the receiver's side: every occurrence in the log of a file of the group that announced a
    predecessor is preceded in the log by that predecessor. -/
def RespectsPrev (prevOf : Name → Name) (emitted : List Name) (log : List Name) : Prop :=
  ∀ pre x post, log = pre ++ x :: post → x ∈ emitted → prevOf x ≠ "" → prevOf x ∈ pre

theorem RespectsPrev.of_prefix {prevOf : Name → Name} {emitted l rest : List Name}
    (h : RespectsPrev prevOf emitted (l ++ rest)) : RespectsPrev prevOf emitted l := by
  intro pre x post hl hx hp
  exact h pre x (post ++ rest) (by rw [hl]; simp) hx hp

/-- a file of a chain never announces itself -/
theorem Chain.prev_ne_self {prevOf : Name → Name} {emitted : List Name} (hc : Chain prevOf emitted)
    {x : Name} (hx : x ∈ emitted) (hp : prevOf x ≠ "") : prevOf x ≠ x := by
  obtain ⟨j, hj⟩ := List.getElem?_of_mem hx
  cases j with
  | zero => exact absurd (hc.first x hj) hp
  | succ i =>
    have hil : i < emitted.length := by
      have := (List.getElem?_eq_some_iff.mp hj).1; omega
    have ha : emitted[i]? = some emitted[i] := List.getElem?_eq_getElem hil
    rw [hc.next i _ x ha hj]
    intro e
    have : emitted[i]? = emitted[i + 1]? := by rw [ha, hj, e]
    have := (List.getElem?_inj hil hc.nodup).mp this
    omega

/-- **composition, order form.** If every later file of `emitted` announces the one before it
    (`hnext`), no file has the empty name (`hnamed`) and the log respects the announcements
    (`hlog`), then the log restricted to `emitted` is closed downwards in emission order: for
    `i < j`, every occurrence of `emitted[j]` in the log is preceded by `emitted[i]`. -/
theorem emitted_before {prevOf : Name → Name} {emitted log : List Name}
    (hnamed : "" ∉ emitted)
    (hnext : ∀ i a b, emitted[i]? = some a → emitted[i + 1]? = some b → prevOf b = a)
    (hlog : RespectsPrev prevOf emitted log) :
    ∀ (j i : Nat) (a b : Name), i < j → emitted[i]? = some a → emitted[j]? = some b →
      ∀ pre post, log = pre ++ b :: post → a ∈ pre := by
  intro j
  induction j with
  | zero => intro i a b hij; omega
  | succ j ih =>
    intro i a b hij ha hb pre post hsplit
    have hjl : j < emitted.length := by
      have := (List.getElem?_eq_some_iff.mp hb).1; omega
    have hc : emitted[j]? = some emitted[j] := List.getElem?_eq_getElem hjl
    have hcm : emitted[j] ∈ emitted := List.getElem_mem hjl
    have hpb : prevOf b = emitted[j] := hnext j _ b hc hb
    have hne : prevOf b ≠ "" := by
      rw [hpb]; intro e; exact hnamed (e ▸ hcm)
    have hin : emitted[j] ∈ pre := by
      have := hlog pre b post hsplit (List.mem_of_getElem? hb) hne
      rwa [hpb] at this
    by_cases hi : i = j
    · subst hi
      rw [hc] at ha
      cases ha
      exact hin
    · obtain ⟨p1, p2, hp⟩ := List.append_of_mem hin
      have := ih i a emitted[j] (by omega) ha hc p1 (p2 ++ b :: post) (by rw [hsplit, hp]; simp)
      rw [hp]
      simp [this]

/-- the names of `emitted` in the order of their first occurrence in `log` -/
def firstSeen (emitted log : List Name) : List Name :=
  log.foldl (fun acc x => if x ∈ emitted ∧ x ∉ acc then acc ++ [x] else acc) []

@[simp]
theorem firstSeen_nil (emitted : List Name) : firstSeen emitted [] = [] := rfl

/-- the defining equation of `firstSeen`, one log entry at a time -/
theorem firstSeen_snoc (emitted l : List Name) (x : Name) :
    firstSeen emitted (l ++ [x]) =
      if x ∈ emitted ∧ x ∉ firstSeen emitted l then firstSeen emitted l ++ [x] else firstSeen emitted l := by
  unfold firstSeen
  rw [List.foldl_append]
  rfl

theorem mem_foldl_firstSeen (emitted : List Name) (y : Name) :
    ∀ (l acc : List Name),
      y ∈ l.foldl (fun acc x => if x ∈ emitted ∧ x ∉ acc then acc ++ [x] else acc) acc ↔
        y ∈ acc ∨ (y ∈ l ∧ y ∈ emitted) := by
  intro l
  induction l with
  | nil => intro acc; simp
  | cons x xs ih =>
    intro acc
    rw [List.foldl_cons, ih]
    by_cases hc : x ∈ emitted ∧ x ∉ acc
    · rw [if_pos hc]
      simp only [List.mem_append, List.mem_cons, List.not_mem_nil, or_false]
      constructor
      · rintro ((h | h) | h)
        · exact Or.inl h
        · exact Or.inr ⟨Or.inl h, h ▸ hc.1⟩
        · exact Or.inr ⟨Or.inr h.1, h.2⟩
      · rintro (h | ⟨h | h, he⟩)
        · exact Or.inl (Or.inl h)
        · exact Or.inl (Or.inr h)
        · exact Or.inr ⟨h, he⟩
    · rw [if_neg hc]
      simp only [List.mem_cons]
      constructor
      · rintro (h | h)
        · exact Or.inl h
        · exact Or.inr ⟨Or.inr h.1, h.2⟩
      · rintro (h | ⟨h | h, he⟩)
        · exact Or.inl h
        · subst h
          by_cases hy : y ∈ acc
          · exact Or.inl hy
          · exact absurd ⟨he, hy⟩ hc
        · exact Or.inr ⟨h, he⟩

/-- `firstSeen` holds exactly the logged names of the group -/
theorem mem_firstSeen {emitted log : List Name} {y : Name} :
    y ∈ firstSeen emitted log ↔ y ∈ log ∧ y ∈ emitted := by
  unfold firstSeen
  rw [mem_foldl_firstSeen]
  simp

theorem take_succ_of_getElem? {α : Type} {l : List α} {n : Nat} {x : α} (h : l[n]? = some x) :
    l.take (n + 1) = l.take n ++ [x] := by
  rw [List.take_add_one, h]; rfl

/-- **composition, prefix form.** With a duplicate-free `emitted`, the first occurrences in the
    log, restricted to the group, form an initial segment of `emitted`: at every moment the
    delivered files of the group are exactly the first `k` emitted ones, delivered in emission
    order. -/
theorem firstSeen_prefix {prevOf : Name → Name} {emitted log : List Name}
    (hnodup : emitted.Nodup) (hnamed : "" ∉ emitted)
    (hnext : ∀ i a b, emitted[i]? = some a → emitted[i + 1]? = some b → prevOf b = a)
    (hlog : RespectsPrev prevOf emitted log) :
    firstSeen emitted log = emitted.take (firstSeen emitted log).length := by
  suffices ∀ n, ∃ k, k ≤ emitted.length ∧ firstSeen emitted (log.take n) = emitted.take k by
    obtain ⟨k, hk, h⟩ := this log.length
    rw [List.take_length] at h
    rw [h, List.length_take, Nat.min_eq_left hk]
  intro n
  induction n with
  | zero => exact ⟨0, Nat.zero_le _, by simp⟩
  | succ n ih =>
    obtain ⟨k, hk, hF⟩ := ih
    cases hx : log[n]? with
    | none =>
      have : log.take (n + 1) = log.take n := by rw [List.take_add_one, hx]; simp
      exact ⟨k, hk, by rw [this, hF]⟩
    | some x =>
      rw [take_succ_of_getElem? hx, firstSeen_snoc]
      by_cases hc : x ∈ emitted ∧ x ∉ firstSeen emitted (log.take n)
      · rw [if_pos hc]
        obtain ⟨j, hj⟩ := List.getElem?_of_mem hc.1
        have hjl : j < emitted.length := (List.getElem?_eq_some_iff.mp hj).1
        have hsplit : log = log.take n ++ x :: log.drop (n + 1) := by
          have hnl : n < log.length := (List.getElem?_eq_some_iff.mp hx).1
          have hxe : log[n] = x := by
            have := List.getElem?_eq_getElem hnl; rw [hx] at this; exact (Option.some.inj this).symm
          rw [← hxe, List.getElem_cons_drop, List.take_append_drop]
        -- j is not below k: x is not among the first k
        have h1 : k ≤ j := by
          rcases Nat.lt_or_ge j k with h | h
          · exfalso
            apply hc.2
            rw [hF]
            exact List.mem_of_getElem? (by rw [List.getElem?_take, if_pos h]; exact hj)
          · exact h
        -- j is not above k: emitted[k] would have to be logged already
        have h2 : j ≤ k := by
          rcases Nat.lt_or_ge k j with h | h
          · exfalso
            have hkl : k < emitted.length := by omega
            have hak : emitted[k]? = some emitted[k] := List.getElem?_eq_getElem hkl
            have hin := emitted_before hnamed hnext hlog j k _ x h hak hj _ _ hsplit
            have : emitted[k] ∈ firstSeen emitted (log.take n) :=
              mem_firstSeen.mpr ⟨hin, List.getElem_mem hkl⟩
            rw [hF] at this
            obtain ⟨i, hi⟩ := List.getElem?_of_mem this
            rw [List.getElem?_take] at hi
            split at hi
            · rename_i hik
              have : emitted[i]? = emitted[k]? := by rw [hi, hak]
              have := (List.getElem?_inj (by omega) hnodup).mp this
              omega
            · cases hi
          · exact h
        have hjk : j = k := by omega
        subst hjk
        exact ⟨j + 1, hjl, by rw [hF, take_succ_of_getElem? hj]⟩
      · rw [if_neg hc]
        exact ⟨k, hk, hF⟩

theorem firstSeen_isPrefix {prevOf : Name → Name} {emitted log : List Name}
    (hnodup : emitted.Nodup) (hnamed : "" ∉ emitted)
    (hnext : ∀ i a b, emitted[i]? = some a → emitted[i + 1]? = some b → prevOf b = a)
    (hlog : RespectsPrev prevOf emitted log) :
    firstSeen emitted log <+: emitted := by
  rw [firstSeen_prefix hnodup hnamed hnext hlog]
  exact List.take_prefix _ _

end Sts.Compose
