/-
  The ranking function of the Pipeline model (property C16, `stop_terminates`): a
  lexicographic triple of naturals (fault budget, potential of the tokens, control rank)
  that strictly decreases with every action once a stop was requested.
-/
import StsModel.Lemmas.PipelineInvAll
namespace Sts.Pipeline

/-- Potential of the tokens: every position has a weight that is larger than the weight of
    every position a token can move to without a fault (the path of a file through the
    pipeline, and the path of a failed file back into `chScanned`). -/
def tokenPot (s : State) : Nat :=
  24 * s.env + 23 * s.scanBatch + 22 * s.vaHold + 21 * s.chRetry + 20 * s.rtHold + 19 * s.chScanned
  + 18 * s.queue + 17 * s.qHold + 16 * s.chQueued + 15 * s.binHold + 14 * s.parts + 13 * s.progReady
  + 12 * s.chValidate + 11 * s.poll + s.orphan

/-- Rank of `Start` itself: statements of `startSequence` still to execute (and `recover()`). -/
def startRank (s : State) : Nat := 17 * s.recovering.toNat + (16 - s.startPos)

/-- Control rank: positions of the payloads (which move without their files being counted
    again), program positions of the stages, goroutines alive, position of `Start`. -/
def ctl (s : State) : Nat :=
  startRank s + s.scanPc.code + s.rtRecv
  + (s.qPc.code + 2 * (!s.qInNil).toNat + (!s.qBlock).toNat)
  + s.binPc.code
  + (11 * s.chTransmit + 10 * s.sdXmit + 9 * s.sdStat + 7 * s.sdOut + 18 * s.sdHStat + 16 * s.sdHOut
      + 5 * s.chTransmitted + s.sdRecv)
  + s.chStats + (!s.stDone).toNat
  + (s.trPc.code + 4 * (!s.trInNil).toNat)
  + (s.vaPc.code + 2 * (!s.vaInNil).toNat)

/-- The measure of `stop_terminates`. -/
def measure (s : State) : Nat × Nat × Nat := (s.budget, tokenPot s, ctl s)

/-- lexicographic order on triples of naturals -/
def MLt : Nat × Nat × Nat → Nat × Nat × Nat → Prop :=
  Prod.Lex (· < ·) (Prod.Lex (· < ·) (· < ·))

theorem MLt_wf : WellFounded MLt :=
  (Prod.lex ⟨_, Nat.lt_wfRel.wf⟩ (Prod.lex ⟨_, Nat.lt_wfRel.wf⟩ ⟨_, Nat.lt_wfRel.wf⟩)).wf

theorem MLt_iff (a b c a' b' c' : Nat) :
    MLt (a, b, c) (a', b', c') ↔ a < a' ∨ (a = a' ∧ (b < b' ∨ (b = b' ∧ c < c'))) := by
  unfold MLt
  constructor
  · intro h
    cases h with
    | left _ _ h => exact Or.inl h
    | right _ h =>
      cases h with
      | left _ _ h => exact Or.inr ⟨rfl, Or.inl h⟩
      | right _ h => exact Or.inr ⟨rfl, Or.inr ⟨rfl, h⟩⟩
  · rintro (h | ⟨rfl, h | ⟨rfl, h⟩⟩)
    · exact Prod.Lex.left _ _ h
    · exact Prod.Lex.right _ (Prod.Lex.left _ _ h)
    · exact Prod.Lex.right _ (Prod.Lex.right _ h)

theorem Bool.eq_true_iff_toNat2 (b : Bool) : b = true ↔ (b.toNat = 1 ∧ (!b).toNat = 0) := by cases b <;> simp
theorem Bool.eq_false_iff_toNat2 (b : Bool) : b = false ↔ (b.toNat = 0 ∧ (!b).toNat = 1) := by cases b <;> simp

/-- `arith` that also states the value of the negated flag (the measure counts negated flags) -/
macro "arith2" : tactic =>
  `(tactic| simp only [Stop.eq_iff, ScanPc.eq_iff, QPc.eq_iff, BinPc.eq_iff, TrPc.eq_iff, VaPc.eq_iff,
      Stop.code_none, Stop.code_graceful, Stop.code_now, ScanPc.code_scanning, ScanPc.code_sendBatch,
      ScanPc.code_waitDelay, ScanPc.code_done, QPc.code_sel, QPc.code_send, QPc.code_done, BinPc.code_sel,
      BinPc.code_send, BinPc.code_finalSend, BinPc.code_done, TrPc.code_head, TrPc.code_fwd, TrPc.code_polling, TrPc.code_blocked, TrPc.code_unpack,
      TrPc.code_done, VaPc.code_head, VaPc.code_blocked, VaPc.code_batch, VaPc.code_hand, VaPc.code_done,
      QPc.tag_sel, QPc.tag_send, QPc.tag_done,
      Bool.eq_true_iff_toNat2, Bool.eq_false_iff_toNat2, Bool.toNat_true, Bool.toNat_false, Bool.not_true,
      Bool.not_false, ne_eq] at *)

/-- the same with `≤` in place of `=` (friendlier to `omega` after simplification) -/
theorem MLt_iff_le (a b c a' b' c' : Nat) :
    MLt (a, b, c) (a', b', c') ↔ a < a' ∨ (a ≤ a' ∧ (b < b' ∨ (b ≤ b' ∧ c < c'))) := by
  rw [MLt_iff]; omega

theorem QPc.code_of_tag_ne (a : QPc) : a.tag ≠ 2 → a.code = 4 := by cases a <;> simp [QPc.tag, QPc.code]
theorem QPc.code_of_tag_eq (a : QPc) : a.tag = 2 → a.code = 0 := by cases a <;> simp [QPc.tag, QPc.code]

set_option maxHeartbeats 8000000 in
/-- Every action taken after a stop request strictly decreases the measure. -/
theorem measure_decreases {s : State} {a : Action}
    (k3 : K3 s) (k4 : K4 s) (kq : KQ s) (kv : KV s)
    (hs : s.stop ≠ .none) (g : guard s a) : MLt (measure (apply s a)) (measure s) := by
  unfold measure
  rw [MLt_iff_le]
  have hq1 := QPc.code_of_tag_ne s.qPc
  have hq2 := QPc.code_of_tag_eq s.qPc
  unfold K3 K4 KQ KV at *
  unfold tokenPot ctl startRank
  cases a
  case startStep =>
    obtain ⟨hr, hc⟩ := startStep_cases s g
    rcases hc with ⟨hp, hg, he⟩|⟨hp, hg, he⟩|⟨hp, hg, he⟩|⟨hp, hg, he⟩|⟨hp, hg, he⟩|⟨hp, hg, he⟩|⟨hp, hg, he⟩|⟨hp, hg, he⟩|⟨hp, hg, he⟩|⟨hp, hg, he⟩|⟨hp, hg, he⟩|⟨hp, hg, he⟩|⟨hp, hg, he⟩|⟨hp, hg, he⟩|⟨hp, hg, he⟩|⟨hp, hg, he⟩ <;>
    rw [he] <;> clear he k3 k4 kq kv hq1 hq2 <;> dsimp only <;> omega
  all_goals (
    simp only [guard, running, trAtSelect, trDrops, vaAtSelect, vaCanJudge, cap, returned, others] at g
    simp only [apply, fault]
    repeat' split
    all_goals (
      try dsimp only
      first
        | (clear k3 k4 kq kv hq1 hq2; arith2; omega)
        | (arith2; omega)))

end Sts.Pipeline
