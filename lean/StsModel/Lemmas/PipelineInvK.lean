/-
  Invariants of the Pipeline model, part K: tokens (conservation, payload contents, capacities, holds), faults.
-/
import StsModel.Lemmas.PipelineInv
namespace Sts.Pipeline

/-- `startQueue` holds a chunk exactly while it is in `sendCh` -/
def KQ (s : State) : Prop :=
  (s.qPc = .send → s.qHold = 1) ∧ (s.qPc ≠ .send → s.qHold = 0)
/-- `finish` holds a file exactly while it is in `sendCh` -/
def KV (s : State) : Prop :=
  (s.vaPc = .hand → s.vaHold = 1) ∧ (s.vaPc ≠ .hand → s.vaHold = 0)
/-- `startTrack` uses the one-second timer only while `progress` is not empty -/
def KP (s : State) : Prop :=
  s.trPc = .polling → 0 < s.progReady + s.orphan
/-- the tracker owes a part only while unpacking -/
def KT (s : State) : Prop :=
  (s.trPc ≠ .unpack → s.trOwe = 0) ∧ s.trOwe ≤ 1
/-- every payload holds at least one part -/
def K1 (s : State) : Prop :=
  others s + s.trOwe ≤ s.parts
/-- no payload anywhere, no part anywhere -/
def K2 (s : State) : Prop :=
  others s = 0 ∧ s.trPc ≠ .unpack → s.parts = 0
/-- `startBin` only sends non-empty payloads -/
def K3 (s : State) : Prop :=
  (s.binPc = .send ∨ s.binPc = .finalSend) → 0 < s.binHold
/-- `startScan` only sends non-empty batches -/
def K4 (s : State) : Prop :=
  s.scanPc = .sendBatch → 0 < s.scanBatch
/-- conservation of files -/
def K5 (s : State) : Prop :=
  s.found = s.chScanned + s.queue + s.qHold + s.chQueued + s.binHold + s.parts + s.progReady + s.orphan + s.chValidate + s.poll + s.vaHold + s.chRetry + s.rtHold + s.done + s.neg + s.changed + s.lost + s.recLost
/-- the channels respect their capacities -/
def K7 (s : State) : Prop :=
  s.chQueued ≤ cap s ∧ s.chRetry ≤ cap s ∧ s.chTransmit ≤ cap s ∧ s.chTransmitted ≤ cap s ∧ s.chStats ≤ cap s ∧ s.chValidate ≤ cap s
/-- without fault events no file leaves the forward path -/
def F1 (s : State) : Prop :=
  s.faults = 0 → s.neg = 0 ∧ s.chRetry = 0 ∧ s.rtHold = 0 ∧ s.vaHold = 0 ∧ s.changed = 0 ∧ s.recLost = 0 ∧ s.orphan = 0

set_option maxHeartbeats 4000000 in
theorem KQ_step {s : State} {a : Action}  (h : KQ s) (g : guard s a) : KQ (apply s a) := by
  unfold KQ at *; inv_step s a g
set_option maxHeartbeats 4000000 in
theorem KV_step {s : State} {a : Action}  (h : KV s) (g : guard s a) : KV (apply s a) := by
  unfold KV at *; inv_step s a g
set_option maxHeartbeats 4000000 in
theorem KP_step {s : State} {a : Action}  (h : KP s) (g : guard s a) : KP (apply s a) := by
  unfold KP at *; inv_step s a g
set_option maxHeartbeats 4000000 in
theorem KT_step {s : State} {a : Action}  (h : KT s) (g : guard s a) : KT (apply s a) := by
  unfold KT at *; inv_step s a g
set_option maxHeartbeats 4000000 in
theorem K1_step {s : State} {a : Action} (d0 : KT s) (d1 : K3 s) (h : K1 s) (g : guard s a) : K1 (apply s a) := by
  unfold K1 KT K3 at *; inv_step s a g
set_option maxHeartbeats 4000000 in
theorem K2_step {s : State} {a : Action}  (h : K2 s) (g : guard s a) : K2 (apply s a) := by
  unfold K2 at *; inv_step s a g
set_option maxHeartbeats 4000000 in
theorem K3_step {s : State} {a : Action}  (h : K3 s) (g : guard s a) : K3 (apply s a) := by
  unfold K3 at *; inv_step s a g
set_option maxHeartbeats 4000000 in
theorem K4_step {s : State} {a : Action}  (h : K4 s) (g : guard s a) : K4 (apply s a) := by
  unfold K4 at *; inv_step s a g
set_option maxHeartbeats 4000000 in
theorem K5_step {s : State} {a : Action} (d0 : KQ s) (d1 : KV s) (h : K5 s) (g : guard s a) : K5 (apply s a) := by
  unfold K5 KQ KV at *; inv_step s a g
set_option maxHeartbeats 4000000 in
theorem K7_step {s : State} {a : Action}  (h : K7 s) (g : guard s a) : K7 (apply s a) := by
  unfold K7 at *; inv_step s a g
set_option maxHeartbeats 4000000 in
theorem F1_step {s : State} {a : Action} (d0 : KV s) (h : F1 s) (g : guard s a) : F1 (apply s a) := by
  unfold F1 KV at *; inv_step s a g

end Sts.Pipeline
