/-
  Invariants of the Pipeline model, part B: local flags of the stages and why a stage returned.
-/
import StsModel.Lemmas.PipelineInv
namespace Sts.Pipeline

/-- `startQueue` sets `in = nil` only after it saw its input closed -/
def B1 (s : State) : Prop :=
  s.qInNil = true → s.clScanned = true
/-- the same for `startTrack` -/
def B2 (s : State) : Prop :=
  s.trInNil = true → s.clTransmitted = true
/-- the same for `startValidate` -/
def B3 (s : State) : Prop :=
  s.vaInNil = true → s.clValidate = true
/-- `startStats` returns only when `chStats` is closed -/
def B4 (s : State) : Prop :=
  s.stDone = true → s.clStats = true
/-- `startQueue` never blocks on a nil input -/
def B5 (s : State) : Prop :=
  s.qBlock = true → s.qInNil = false
/-- the repaired `startTrack` blocks without timer only on a live input -/
def B6 (s : State) : Prop :=
  s.trPc = .blocked → s.cfg.trackRecheck = true → s.trInNil = false
/-- `startValidate` blocks without timer only on a live input -/
def B7 (s : State) : Prop :=
  s.vaPc = .blocked → s.vaInNil = false
/-- `startBin` flushes its last payload only after its input closed -/
def B8 (s : State) : Prop :=
  s.binPc = .finalSend → s.clQueued = true
/-- `startQueue` returns only on an immediate stop or after its input closed -/
def A1 (s : State) : Prop :=
  s.qPc = .done → s.stop = .now ∨ s.clScanned = true
/-- the same for `startBin` -/
def A2 (s : State) : Prop :=
  s.binPc = .done → s.stop = .now ∨ s.clQueued = true
/-- the same for the `startSend` goroutines -/
def A3 (s : State) : Prop :=
  0 < s.sdDone → s.stop = .now ∨ s.clTransmit = true
/-- the same for `startTrack` -/
def A4 (s : State) : Prop :=
  s.trPc = .done → s.stop = .now ∨ s.clTransmitted = true
/-- the same for `startValidate` -/
def A5 (s : State) : Prop :=
  s.vaPc = .done → s.stop = .now ∨ s.clValidate = true

set_option maxHeartbeats 4000000 in
theorem B1_step {s : State} {a : Action}  (h : B1 s) (g : guard s a) : B1 (apply s a) := by
  unfold B1 at *; inv_step s a g
set_option maxHeartbeats 4000000 in
theorem B2_step {s : State} {a : Action}  (h : B2 s) (g : guard s a) : B2 (apply s a) := by
  unfold B2 at *; inv_step s a g
set_option maxHeartbeats 4000000 in
theorem B3_step {s : State} {a : Action}  (h : B3 s) (g : guard s a) : B3 (apply s a) := by
  unfold B3 at *; inv_step s a g
set_option maxHeartbeats 4000000 in
theorem B4_step {s : State} {a : Action}  (h : B4 s) (g : guard s a) : B4 (apply s a) := by
  unfold B4 at *; inv_step s a g
set_option maxHeartbeats 4000000 in
theorem B5_step {s : State} {a : Action}  (h : B5 s) (g : guard s a) : B5 (apply s a) := by
  unfold B5 at *; inv_step s a g
set_option maxHeartbeats 4000000 in
theorem B6_step {s : State} {a : Action}  (h : B6 s) (g : guard s a) : B6 (apply s a) := by
  unfold B6 at *; inv_step s a g
set_option maxHeartbeats 4000000 in
theorem B7_step {s : State} {a : Action}  (h : B7 s) (g : guard s a) : B7 (apply s a) := by
  unfold B7 at *; inv_step s a g
set_option maxHeartbeats 4000000 in
theorem B8_step {s : State} {a : Action}  (h : B8 s) (g : guard s a) : B8 (apply s a) := by
  unfold B8 at *; inv_step s a g
set_option maxHeartbeats 4000000 in
theorem A1_step {s : State} {a : Action} (d0 : B1 s) (h : A1 s) (g : guard s a) : A1 (apply s a) := by
  unfold A1 B1 at *; inv_step s a g
set_option maxHeartbeats 4000000 in
theorem A2_step {s : State} {a : Action} (d0 : B8 s) (h : A2 s) (g : guard s a) : A2 (apply s a) := by
  unfold A2 B8 at *; inv_step s a g
set_option maxHeartbeats 4000000 in
theorem A3_step {s : State} {a : Action}  (h : A3 s) (g : guard s a) : A3 (apply s a) := by
  unfold A3 at *; inv_step s a g
set_option maxHeartbeats 4000000 in
theorem A4_step {s : State} {a : Action} (d0 : B2 s) (h : A4 s) (g : guard s a) : A4 (apply s a) := by
  unfold A4 B2 at *; inv_step s a g
set_option maxHeartbeats 4000000 in
theorem A5_step {s : State} {a : Action} (d0 : B3 s) (h : A5 s) (g : guard s a) : A5 (apply s a) := by
  unfold A5 B3 at *; inv_step s a g

end Sts.Pipeline
