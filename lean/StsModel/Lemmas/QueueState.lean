/-
  The queue as a whole: the priority-ordered list of groups, Push and Pop on it.
-/
import StsModel.Lemmas.QueueWF

namespace Sts.Queue

/-- C12: the group list is ordered by non-increasing priority -/
def GroupsSorted (s : State) : Prop := s.Pairwise (fun a b => a.conf.priority ≥ b.conf.priority)

/-- a group is ready iff Pop would serve a file from it -/
theorem ready_iff_nextFile (g : GroupSt) (now : Int) : g.ready now = true ↔ (g.nextFile now).isSome = true := by
  unfold GroupSt.nextFile
  by_cases h : g.ready now = true
  · simp only [h, if_true, true_iff]
    unfold GroupSt.ready at h
    split at h
    · cases h
    · rename_i c hc; simp [hc]
  · simp [h]

structure State.WF (s : State) : Prop where
  groups : ∀ g ∈ s, g.WF
  names : (s.map (·.name)).Nodup
  sorted : GroupsSorted s

/-! ## addGroup / modifyGroup / delayGroup -/

theorem addGroup_perm (g : GroupSt) (s : State) : ∃ A B, s = A ++ B ∧ addGroup g s = A ++ g :: B ∧
    (∀ x ∈ A, x.conf.priority ≥ g.conf.priority) ∧ (∀ b, B.head? = some b → g.conf.priority > b.conf.priority) := by
  induction s with
  | nil => exact ⟨[], [], rfl, rfl, by simp, by simp⟩
  | cons h t ih =>
    unfold addGroup
    split
    · rename_i hp
      exact ⟨[], h :: t, rfl, rfl, by simp, by simp; exact hp⟩
    · rename_i hp
      obtain ⟨A, B, e1, e2, e3, e4⟩ := ih
      refine ⟨h :: A, B, by simp [e1], by simp [e2], ?_, e4⟩
      intro x hx
      simp at hx
      rcases hx with hx | hx
      · subst hx; omega
      · exact e3 x hx

theorem addGroup_sorted (g : GroupSt) (s : State) (h : GroupsSorted s) : GroupsSorted (addGroup g s) := by
  obtain ⟨A, B, e1, e2, e3, e4⟩ := addGroup_perm g s
  rw [e2]
  unfold GroupsSorted at h ⊢
  rw [e1] at h
  rw [List.pairwise_append] at h ⊢
  refine ⟨h.1, ?_, ?_⟩
  · rw [List.pairwise_cons]
    refine ⟨fun y hy => ?_, h.2.1⟩
    cases B with
    | nil => cases hy
    | cons b t =>
      have hb := e4 b rfl
      simp at hy
      rcases hy with hy | hy
      · subst hy; omega
      · have := (List.pairwise_cons.mp h.2.1).1 y hy; omega
  · intro x hx y hy
    simp at hy
    rcases hy with hy | hy
    · subst hy; exact e3 x hx
    · exact h.2.2 x hx y hy

theorem modifyGroup_spec (s : State) (name : String) (f : GroupSt → GroupSt) (h : hasGroup s name = true) :
    ∃ A g B, s = A ++ g :: B ∧ g.name = name ∧ (∀ x ∈ A, x.name ≠ name) ∧ modifyGroup s name f = A ++ f g :: B := by
  induction s with
  | nil => simp [hasGroup] at h
  | cons a t ih =>
    unfold modifyGroup
    by_cases ha : a.name = name
    · simp only [ha, beq_self_eq_true, if_true]
      exact ⟨[], a, t, rfl, ha, by simp, rfl⟩
    · have hb : (a.name == name) = false := by simpa using ha
      simp only [hb, Bool.false_eq_true, if_false]
      have : hasGroup t name = true := by
        simp [hasGroup, hb] at h ⊢; exact h
      obtain ⟨A, g, B, e1, e2, e3, e4⟩ := ih this
      refine ⟨a :: A, g, B, by simp [e1], e2, ?_, by simp [e4]⟩
      intro x hx; simp at hx
      rcases hx with hx | hx
      · subst hx; exact ha
      · exact e3 x hx

/-- replacing one group by one with the same name and configuration keeps the state invariant -/
theorem State.WF.replace {A B : State} {g g' : GroupSt} (h : State.WF (A ++ g :: B)) (hg : g'.WF)
    (hn : g'.name = g.name) (hc : g'.conf = g.conf) : State.WF (A ++ g' :: B) := by
  refine ⟨fun x hx => ?_, ?_, ?_⟩
  · simp at hx
    rcases hx with hx | hx | hx
    · exact h.groups x (by simp [hx])
    · subst hx; exact hg
    · exact h.groups x (by simp [hx])
  · have := h.names; simp only [List.map_append, List.map_cons] at this ⊢; rw [hn]; exact this
  · have := h.sorted
    unfold GroupsSorted at this ⊢
    rw [List.pairwise_append, List.pairwise_cons] at this ⊢
    refine ⟨this.1, ⟨fun y hy => by rw [hc]; exact this.2.1.1 y hy, this.2.1.2⟩, fun x hx y hy => ?_⟩
    simp at hy
    rcases hy with hy | hy
    · subst hy; rw [hc]; exact this.2.2 x hx g (by simp)
    · exact this.2.2 x hx y (by simp [hy])

theorem emptyGroup_wf (name : String) (t : Tag) : ({ name := name, conf := t } : GroupSt).WF := by
  refine ⟨⟨[], by simp, ⟨by simp, by simp, fun i => ?_, fun i => ?_⟩, by simp⟩, by simp, ?_, ?_, by simp, by simp [Sorted]⟩
  · simp [getNext, succIn]
  · simp [getPrev, predIn]
  · intro _ h hh; cases hh
  · intro nm id; simp [ByFile.find]

theorem hasGroup_iff (s : State) (name : String) : hasGroup s name = true ↔ name ∈ s.map (·.name) := by
  simp [hasGroup]

/-- Push keeps the queue invariant. -/
theorem push_wf (c : Conf) {s : State} (h : State.WF s) (f : FileInfo) : State.WF (push c s f) := by
  unfold push
  dsimp only
  split
  · rename_i hg
    obtain ⟨A, g, B, e1, e2, e3, e4⟩ := modifyGroup_spec s (c.grouper f.name) (fun g => g.pushFile f) hg
    rw [e4]
    rw [e1] at h
    have hgw := h.groups g (by simp)
    have hc := pushFile_conf g f hgw
    exact h.replace (pushFile_wf hgw f) hc.2 hc.1
  · rename_i hg
    split
    · exact h
    · rename_i t ht
      have hnew : hasGroup (addGroup { name := c.grouper f.name, conf := t } s) (c.grouper f.name) = true := by
        obtain ⟨A, B, e1, e2, _, _⟩ := addGroup_perm { name := c.grouper f.name, conf := t } s
        rw [e2]; simp [hasGroup]
      obtain ⟨A, g, B, e1, e2, e3, e4⟩ := modifyGroup_spec _ (c.grouper f.name) (fun g => g.pushFile f) hnew
      rw [e4]
      have hwf2 : State.WF (addGroup { name := c.grouper f.name, conf := t } s) := by
        obtain ⟨A', B', e1', e2', _, _⟩ := addGroup_perm { name := c.grouper f.name, conf := t } s
        refine ⟨fun x hx => ?_, ?_, addGroup_sorted _ _ h.sorted⟩
        · rw [e2'] at hx; simp at hx
          rcases hx with hx | hx | hx
          · exact h.groups x (by rw [e1']; simp [hx])
          · subst hx; exact emptyGroup_wf _ _
          · exact h.groups x (by rw [e1']; simp [hx])
        · rw [e2']
          have hn := h.names
          rw [e1'] at hn
          simp only [List.map_append, List.map_cons] at hn ⊢
          rw [nodup_middle_iff]
          apply List.nodup_cons.mpr
          refine ⟨?_, hn⟩
          intro hm
          have : hasGroup s (c.grouper f.name) = true := by
            rw [hasGroup_iff, e1']; simpa using hm
          exact hg this
      rw [e1] at hwf2
      have hgw := hwf2.groups g (by simp)
      have hc := pushFile_conf g f hgw
      exact hwf2.replace (pushFile_wf hgw f) hc.2 hc.1

/-! ## Pop on the whole queue -/

/-- the group a scan leaves behind -/
def GroupSt.scanned (g : GroupSt) (now : Int) : GroupSt := (g.scan now).1

theorem scanGroups_none (now : Int) (s : State) (h : ∀ g ∈ s, g.WF) {pre' : State}
    (hs : scanGroups now s = (pre', none)) :
    pre' = s.map (fun g => g.scanned now) ∧ ∀ g ∈ s, g.nextFile now = none := by
  induction s generalizing pre' with
  | nil => simp [scanGroups] at hs; subst hs; simp
  | cons g t ih =>
    have hg := scan_spec (h g (by simp)) now
    unfold scanGroups at hs
    cases hsc : g.scan now with
    | mk g' r =>
      rw [hsc] at hs hg
      cases r with
      | some n => simp at hs
      | none =>
        simp only at hs
        cases hrest : scanGroups now t with
        | mk p r' =>
          rw [hrest] at hs
          simp only [Prod.mk.injEq] at hs
          obtain ⟨e1, e2⟩ := hs
          subst e2
          have := ih (fun x hx => h x (by simp [hx])) hrest
          refine ⟨?_, ?_⟩
          · rw [← e1, this.1]; simp [GroupSt.scanned, hsc]
          · intro x hx; simp at hx
            rcases hx with hx | hx
            · subst hx; exact hg.1.symm
            · exact this.2 x hx

theorem scanGroups_some (now : Int) (s : State) (h : ∀ g ∈ s, g.WF) {pre' : State} {g' : GroupSt} {n : Nat}
    {rest : State} (hs : scanGroups now s = (pre', some (g', n, rest))) :
    ∃ pre g, s = pre ++ g :: rest ∧ pre' = pre.map (fun x => x.scanned now) ∧
      (∀ x ∈ pre, x.nextFile now = none) ∧ g' = g.scanned now ∧ g.nextFile now = some n := by
  induction s generalizing pre' with
  | nil => simp [scanGroups] at hs
  | cons g t ih =>
    have hg := scan_spec (h g (by simp)) now
    unfold scanGroups at hs
    cases hsc : g.scan now with
    | mk g1 r =>
      rw [hsc] at hs hg
      cases r with
      | some m =>
        simp only [Prod.mk.injEq, Option.some.injEq] at hs
        obtain ⟨e1, e2, e3, e4⟩ := hs
        subst e1 e2 e3 e4
        exact ⟨[], g, rfl, rfl, by simp, by simp [GroupSt.scanned, hsc], hg.1.symm⟩
      | none =>
        simp only at hs
        cases hrest : scanGroups now t with
        | mk p r' =>
          rw [hrest] at hs
          simp only [Prod.mk.injEq] at hs
          obtain ⟨e1, e2⟩ := hs
          subst e2
          obtain ⟨pre, g0, a1, a2, a3, a4, a5⟩ := ih (fun x hx => h x (by simp [hx])) hrest
          refine ⟨g :: pre, g0, by simp [a1], ?_, ?_, a4, a5⟩
          · rw [← e1, a2]; simp [GroupSt.scanned, hsc]
          · intro x hx; simp at hx
            rcases hx with hx | hx
            · subst hx; exact hg.1.symm
            · exact a3 x hx


theorem takeWhile_all {α : Type} (p : α → Bool) (l : List α) : ∀ x ∈ l.takeWhile p, p x = true := by
  intro x hx
  induction l with
  | nil => simp at hx
  | cons a t ih =>
    simp only [List.takeWhile_cons] at hx
    split at hx
    · simp at hx; rcases hx with hx | hx
      · subst hx; assumption
      · exact ih hx
    · simp at hx

theorem delayGroup_sorted {pre rest : State} {g g' : GroupSt} (hc : g'.conf = g.conf)
    (h : GroupsSorted (pre ++ g :: rest)) : GroupsSorted (delayGroup pre g' rest) := by
  unfold delayGroup GroupsSorted at *
  rw [hc]
  generalize hT : rest.takeWhile (fun x => x.conf.priority == g.conf.priority) = T
  generalize hD : rest.dropWhile (fun x => x.conf.priority == g.conf.priority) = D
  have hrest : rest = T ++ D := by rw [← hT, ← hD, List.takeWhile_append_dropWhile]
  have hTp : ∀ x ∈ T, x.conf.priority = g.conf.priority := by
    intro x hx; rw [← hT] at hx
    have := takeWhile_all _ _ x hx; simpa using this
  rw [hrest] at h
  rw [List.pairwise_append, List.pairwise_cons, List.pairwise_append] at h
  obtain ⟨h1, ⟨h2, h3, h4, h5⟩, h6⟩ := h
  rw [List.append_assoc, List.pairwise_append, List.pairwise_append, List.pairwise_cons]
  refine ⟨h1, ⟨h3, ⟨fun y hy => ?_, h4⟩, fun x hx y hy => ?_⟩, fun x hx y hy => ?_⟩
  · rw [hc]; exact h2 y (by simp [hy])
  · simp at hy
    rcases hy with hy | hy
    · subst hy; rw [hc, hTp x hx]; exact Int.le_refl _
    · exact h5 x hx y hy
  · simp at hy
    rcases hy with hy | hy | hy
    · exact h6 x hx y (by simp [hy])
    · subst hy; rw [hc]; exact h6 x hx g (by simp)
    · exact h6 x hx y (by simp [hy])

theorem delayGroup_names (pre rest : State) (g : GroupSt) :
    (delayGroup pre g rest).map (·.name) =
      pre.map (·.name) ++ (rest.takeWhile (fun x => x.conf.priority == g.conf.priority)).map (·.name) ++
        g.name :: (rest.dropWhile (fun x => x.conf.priority == g.conf.priority)).map (·.name) := by
  unfold delayGroup; simp

theorem delayGroup_perm (pre rest : State) (g : GroupSt) : (delayGroup pre g rest).Perm (pre ++ g :: rest) := by
  unfold delayGroup
  have : rest = rest.takeWhile (fun x => x.conf.priority == g.conf.priority) ++
      rest.dropWhile (fun x => x.conf.priority == g.conf.priority) := (List.takeWhile_append_dropWhile).symm
  conv => rhs; rw [this]
  rw [List.append_assoc]
  apply List.Perm.append_left
  exact List.perm_middle


theorem scanned_spec {g : GroupSt} (h : g.WF) (now : Int) :
    (g.scanned now).WF ∧ (g.scanned now).conf = g.conf ∧ (g.scanned now).name = g.name ∧
    SamePayload g.nodes (g.scanned now).nodes ∧ (g.scanned now).nodes.length = g.nodes.length ∧
    (g.scanned now).list = g.list.drop (skipCount g.nodes g.list) := by
  have := scan_spec h now
  exact ⟨this.2.2.1, this.2.2.2.2.1, this.2.2.2.2.2.1, this.2.2.2.1, this.2.2.2.2.2.2, this.2.1⟩

/-- the file Pop serves is the first one left in the scanned group's list -/
theorem nextFile_head {g : GroupSt} (h : g.WF) {now : Int} {n : Nat} (hn : g.nextFile now = some n) :
    ∃ rest, (g.scanned now).list = n :: rest ∧ isAllocated g.nodes n = false ∧ g.ready now = true := by
  unfold GroupSt.nextFile at hn
  split at hn
  · rename_i hr
    rw [← candidate_eq_find] at hn
    obtain ⟨rest, h1, h2⟩ := candidate_head hn
    exact ⟨rest, by rw [(scanned_spec h now).2.2.2.2.2, h1], h2, hr⟩
  · cases hn

theorem pop_none_spec {s : State} (h : State.WF s) {now : Int} {s' : State} (hp : pop s now = (s', none)) :
    s' = s.map (fun g => g.scanned now) ∧ ∀ g ∈ s, g.nextFile now = none := by
  unfold pop at hp
  cases hs : scanGroups now s with
  | mk pre' r =>
    rw [hs] at hp
    cases r with
    | none =>
      simp only [Prod.mk.injEq, and_true] at hp
      subst hp
      exact scanGroups_none now s h.groups hs
    | some x =>
      obtain ⟨g', n, rest⟩ := x
      simp at hp

theorem pop_some_spec {s : State} (h : State.WF s) {now : Int} {s' : State} {ch : Chunk}
    (hp : pop s now = (s', some ch)) :
    ∃ pre g rest n, s = pre ++ g :: rest ∧ (∀ x ∈ pre, x.nextFile now = none) ∧ g.nextFile now = some n ∧
      ch = ((g.scanned now).emit n).2 ∧
      s' = delayGroup (pre.map (fun x => x.scanned now)) ((g.scanned now).emit n).1 rest := by
  unfold pop at hp
  cases hs : scanGroups now s with
  | mk pre' r =>
    rw [hs] at hp
    cases r with
    | none => simp at hp
    | some x =>
      obtain ⟨g', n, rest⟩ := x
      simp only [Prod.mk.injEq, Option.some.injEq] at hp
      obtain ⟨pre, g, a1, a2, a3, a4, a5⟩ := scanGroups_some now s h.groups hs
      subst a2 a4
      exact ⟨pre, g, rest, n, a1, a3, a5, hp.2.symm, hp.1.symm⟩

/-- a state whose groups carry the same names and configurations, each well-formed, is well-formed -/
theorem State.WF.of_similar {s s' : State} (h : State.WF s) (hg : ∀ g ∈ s', g.WF)
    (hn : s'.map (·.name) = s.map (·.name)) (hc : s'.map (·.conf.priority) = s.map (·.conf.priority)) :
    State.WF s' := by
  refine ⟨hg, hn ▸ h.names, ?_⟩
  have := h.sorted
  unfold GroupsSorted at this ⊢
  have e : ∀ t : State, t.Pairwise (fun a b => a.conf.priority ≥ b.conf.priority) ↔
      (t.map (·.conf.priority)).Pairwise (fun a b => a ≥ b) := fun t => by rw [List.pairwise_map]
  rw [e] at this ⊢; rw [hc]; exact this

/-- Pop keeps the queue invariant. -/
theorem pop_wf {s : State} (h : State.WF s) (now : Int) : State.WF (pop s now).1 := by
  cases hp : pop s now with
  | mk s' r =>
    cases r with
    | none =>
      obtain ⟨e, _⟩ := pop_none_spec h hp
      subst e
      apply h.of_similar
      · intro g hg; simp at hg
        obtain ⟨g0, hg0, rfl⟩ := hg
        exact (scanned_spec (h.groups g0 hg0) now).1
      · simp only [List.map_map]
        exact List.map_congr_left (fun g hg => (scanned_spec (h.groups g hg) now).2.2.1)
      · simp only [List.map_map]
        exact List.map_congr_left (fun g hg => by simp [(scanned_spec (h.groups g hg) now).2.1])
    | some ch =>
      obtain ⟨pre, g, rest, n, e1, e2, e3, e4, e5⟩ := pop_some_spec h hp
      subst e5
      have hgw := h.groups g (by rw [e1]; simp)
      obtain ⟨rest', hl, _, _⟩ := nextFile_head hgw e3
      have hsc := scanned_spec hgw now
      have hem := emit_spec hsc.1 hl
      -- first the state with the groups replaced in place
      have hmid : State.WF (pre.map (fun x => x.scanned now) ++ ((g.scanned now).emit n).1 :: rest) := by
        rw [e1] at h
        apply h.of_similar
        · intro x hx; simp at hx
          rcases hx with ⟨x0, hx0, rfl⟩ | rfl | hx
          · exact (scanned_spec (h.groups x0 (by simp [hx0])) now).1
          · exact hem.1
          · exact h.groups x (by simp [hx])
        · simp only [List.map_append, List.map_cons, List.map_map]
          congr 1
          · exact List.map_congr_left (fun x hx => (scanned_spec (h.groups x (by simp [hx])) now).2.2.1)
          · rw [hem.2.2.1, hsc.2.2.1]
        · simp only [List.map_append, List.map_cons, List.map_map]
          congr 1
          · exact List.map_congr_left (fun x hx => by simp [(scanned_spec (h.groups x (by simp [hx])) now).2.1])
          · rw [hem.2.1, hsc.2.1]
      refine ⟨fun x hx => ?_, ?_, delayGroup_sorted rfl hmid.sorted⟩
      · exact hmid.groups x ((delayGroup_perm _ _ _).mem_iff.mp hx)
      · exact ((delayGroup_perm _ _ _).map _).nodup_iff.mpr hmid.names


/-! ## order of two names in a list -/

theorem sublist_pair_mem_left {α : Type} [DecidableEq α] {y x : α} {P R : List α}
    (hn : (P ++ x :: R).Nodup) (hs : [y, x].Sublist (P ++ x :: R)) (hne : y ≠ x) : y ∈ P := by
  have hx : x ∉ P ∧ x ∉ R := by
    have := nodup_middle_iff.mp hn
    have := (List.nodup_cons.mp this).1
    simp at this; exact this
  obtain ⟨a, b, e, ha, hb⟩ := List.sublist_append_iff.mp hs
  match a, e with
  | [], e =>
    simp at e; subst e
    cases hb with
    | cons _ h => exact absurd (h.subset (by simp)) hx.2
    | cons_cons _ h => exact absurd rfl hne
  | [a1], e =>
    simp at e; obtain ⟨rfl, _⟩ := e
    exact ha.subset (by simp)
  | [a1, a2], e =>
    simp at e; obtain ⟨rfl, rfl, _⟩ := e
    exact absurd (ha.subset (by simp)) hx.1
  | a1 :: a2 :: a3 :: t, e => simp at e

/-- moving `x` to a later position keeps the relative order of any two other elements,
    and keeps every other element that stood before `x` before it -/
theorem sublist_pair_move {α : Type} [DecidableEq α] {y z x : α} {P T D : List α}
    (hn : (P ++ x :: (T ++ D)).Nodup) (hs : [y, z].Sublist (P ++ x :: (T ++ D))) (hy : y ≠ x) :
    [y, z].Sublist (P ++ T ++ x :: D) := by
  by_cases hz : z = x
  · subst hz
    have := sublist_pair_mem_left hn hs hy
    have h1 : [y].Sublist P := List.singleton_sublist.mpr this
    have h2 : [z].Sublist (T ++ z :: D) := List.singleton_sublist.mpr (by simp)
    have := h1.append h2
    simpa using this
  · have hx : x ∉ P := by
      have := nodup_middle_iff.mp hn
      have := (List.nodup_cons.mp this).1
      simp at this; exact this.1
    have h1 : ([y, z].erase x).Sublist ((P ++ x :: (T ++ D)).erase x) := hs.erase x
    have e1 : [y, z].erase x = [y, z] := by
      simp [hy, hz]
    have e2 : (P ++ x :: (T ++ D)).erase x = P ++ (T ++ D) := by
      rw [List.erase_append_right _ hx]; simp
    rw [e1, e2] at h1
    refine h1.trans ?_
    rw [List.append_assoc]
    exact (List.Sublist.refl P).append ((List.Sublist.refl T).append (List.sublist_cons_self x D))


/-! ## the group list across a Pop -/

theorem dropWhile_head_false {α : Type} (p : α → Bool) (l : List α) : ∀ d, (l.dropWhile p).head? = some d → p d = false := by
  intro d hd
  induction l with
  | nil => simp at hd
  | cons a t ih =>
    simp only [List.dropWhile_cons] at hd
    split at hd
    · exact ih hd
    · simp at hd; subst hd; rename_i h; simpa using h

/-- what Pop does to the list of groups when it serves a group: the decomposition behind `rotate` -/
theorem pop_groups {s : State} (h : State.WF s) {now : Int} {s' : State} {ch : Chunk}
    (hp : pop s now = (s', some ch)) :
    ∃ (pre T D pre' : State) (g g' : GroupSt),
      s = pre ++ g :: (T ++ D) ∧ s' = pre' ++ T ++ g' :: D ∧
      pre'.map (·.name) = pre.map (·.name) ∧ pre'.map (·.conf.priority) = pre.map (·.conf.priority) ∧
      g'.name = g.name ∧ g'.conf = g.conf ∧ ch.group = g.name ∧
      (∀ x ∈ T, x.conf.priority = g.conf.priority) ∧ (∀ x ∈ D, x.conf.priority < g.conf.priority) ∧
      (∀ x ∈ pre, x.nextFile now = none) ∧ g.ready now = true := by
  obtain ⟨pre, g, rest, n, e1, e2, e3, e4, e5⟩ := pop_some_spec h hp
  have hgw := h.groups g (by rw [e1]; simp)
  obtain ⟨rest', hl, _, hready⟩ := nextFile_head hgw e3
  have hsc := scanned_spec hgw now
  have hem := emit_spec hsc.1 hl
  have hc : ((g.scanned now).emit n).1.conf = g.conf := hem.2.1.trans hsc.2.1
  have hnm : ((g.scanned now).emit n).1.name = g.name := hem.2.2.1.trans hsc.2.2.1
  generalize hT : rest.takeWhile (fun x => x.conf.priority == g.conf.priority) = T
  generalize hD : rest.dropWhile (fun x => x.conf.priority == g.conf.priority) = D
  have hrest : rest = T ++ D := by rw [← hT, ← hD, List.takeWhile_append_dropWhile]
  have hsorted := h.sorted
  rw [e1, hrest] at hsorted
  unfold GroupsSorted at hsorted
  rw [List.pairwise_append, List.pairwise_cons, List.pairwise_append] at hsorted
  refine ⟨pre, T, D, pre.map (fun x => x.scanned now), g, ((g.scanned now).emit n).1, by rw [e1, hrest], ?_, ?_, ?_,
    hnm, hc, ?_, ?_, ?_, e2, hready⟩
  · rw [e5]; unfold delayGroup; rw [hc, hT, hD]
  · simp only [List.map_map]
    exact List.map_congr_left (fun x hx => (scanned_spec (h.groups x (by rw [e1]; simp [hx])) now).2.2.1)
  · simp only [List.map_map]
    exact List.map_congr_left (fun x hx => by simp [(scanned_spec (h.groups x (by rw [e1]; simp [hx])) now).2.1])
  · rw [e4, hem.2.2.2.2.2.2.2.2.2.2.1, hsc.2.2.1]
  · intro x hx; rw [← hT] at hx
    have := takeWhile_all _ _ x hx; simpa using this
  · intro x hx
    cases hD' : D with
    | nil => rw [hD'] at hx; cases hx
    | cons d0 D' =>
      have hd0 : (d0.conf.priority == g.conf.priority) = false := by
        apply dropWhile_head_false (fun x => x.conf.priority == g.conf.priority) rest
        rw [hD, hD']; rfl
      have hd0' : d0.conf.priority ≠ g.conf.priority := by simpa using hd0
      have h1 : g.conf.priority ≥ d0.conf.priority := hsorted.2.1.1 d0 (by rw [hD']; simp)
      rw [hD'] at hx
      simp at hx
      rcases hx with hx | hx
      · subst hx; omega
      · have hDs := hsorted.2.1.2.2.1
        rw [hD'] at hDs
        have := (List.pairwise_cons.mp hDs).1 x hx
        omega


/-! ## histories keep the invariant -/

theorem step_wf (c : Conf) {s : State} (h : State.WF s) (op : Op) : State.WF (step c s op).1 := by
  cases op with
  | push f => exact push_wf c h f
  | pop now => exact pop_wf h now

theorem run_cons (c : Conf) (s : State) (op : Op) (ops : List Op) :
    run c s (op :: ops) = ((run c (step c s op).1 ops).1, (step c s op).2 :: (run c (step c s op).1 ops).2) := by
  rw [run]

theorem run_wf (c : Conf) {s : State} (h : State.WF s) (ops : List Op) : State.WF (run c s ops).1 := by
  induction ops generalizing s with
  | nil => exact h
  | cons op ops ih => rw [run_cons]; exact ih (step_wf c h op)

theorem empty_wf : State.WF ([] : State) := ⟨by simp, by simp, by simp [GroupsSorted]⟩


/-! ## group names across Push -/

def names (s : State) : List String := s.map (·.name)

theorem names_push_sublist (c : Conf) {s : State} (h : State.WF s) (f : FileInfo) :
    (names s).Sublist (names (push c s f)) := by
  unfold push; dsimp only
  split
  · rename_i hg
    obtain ⟨A, g, B, e1, e2, e3, e4⟩ := modifyGroup_spec s (c.grouper f.name) (fun g => g.pushFile f) hg
    rw [e4]
    have hgw := h.groups g (by rw [e1]; simp)
    have := (pushFile_conf g f hgw).2
    unfold names; rw [e1]; simp [this]
  · split
    · exact List.Sublist.refl _
    · rename_i hg _ t ht
      have hnew : hasGroup (addGroup { name := c.grouper f.name, conf := t } s) (c.grouper f.name) = true := by
        obtain ⟨A, B, e1, e2, _, _⟩ := addGroup_perm { name := c.grouper f.name, conf := t } s
        rw [e2]; simp [hasGroup]
      obtain ⟨A, g, B, e1, e2, e3, e4⟩ := modifyGroup_spec _ (c.grouper f.name) (fun g => g.pushFile f) hnew
      rw [e4]
      obtain ⟨A', B', e1', e2', _, _⟩ := addGroup_perm { name := c.grouper f.name, conf := t } s
      have hwf2 : State.WF (addGroup { name := c.grouper f.name, conf := t } s) := by
        refine ⟨fun x hx => ?_, ?_, addGroup_sorted _ _ h.sorted⟩
        · rw [e2'] at hx; simp at hx
          rcases hx with hx | hx | hx
          · exact h.groups x (by rw [e1']; simp [hx])
          · subst hx; exact emptyGroup_wf _ _
          · exact h.groups x (by rw [e1']; simp [hx])
        · rw [e2']
          have hn := h.names
          rw [e1'] at hn
          simp only [List.map_append, List.map_cons] at hn ⊢
          rw [nodup_middle_iff]
          apply List.nodup_cons.mpr
          refine ⟨?_, hn⟩
          intro hm
          have : hasGroup s (c.grouper f.name) = true := by
            rw [hasGroup_iff, e1']; simpa using hm
          exact hg this
      have hgw := hwf2.groups g (by rw [e1]; simp)
      have hnm := (pushFile_conf g f hgw).2
      have : names (A ++ g.pushFile f :: B) = names (addGroup { name := c.grouper f.name, conf := t } s) := by
        unfold names; rw [e1]; simp [hnm]
      rw [this, e2']
      unfold names
      rw [e1']
      simp only [List.map_append, List.map_cons]
      exact (List.Sublist.refl _).append (List.sublist_cons_self _ _)


end Sts.Queue
