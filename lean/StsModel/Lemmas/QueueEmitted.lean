/-
  History-level form of C10 `prev_is_last_completed`: the files a group completed, in
  completion order, and the predecessors announced with their completing chunks form a chain
  (`Compose.Chain`). Helper file of Props/C04Compose.lean.
-/
import StsModel.Props.C10
import StsModel.Lemmas.OrderCompose

namespace Sts.Queue

/-! ## the tag of a group is the one the configuration looks up for its name -/

def TagInv (c : Conf) (s : State) : Prop :=
  ∀ g ∈ s, c.tags.find? (fun t => t.name == c.tagger g.name) = some g.conf

theorem tagInv_push {c : Conf} {s : State} (hw : State.WF s) (h : TagInv c s) (f : FileInfo) :
    TagInv c (push c s f) := by
  intro g' hg'
  unfold push at hg'
  dsimp only at hg'
  split at hg'
  · rename_i hg
    obtain ⟨A, g, B, e1, e2, e3, e4⟩ := modifyGroup_spec s (c.grouper f.name) (fun g => g.pushFile f) hg
    rw [e4] at hg'
    have hgs : g ∈ s := by rw [e1]; simp
    simp only [List.mem_append, List.mem_cons] at hg'
    rcases hg' with hg' | rfl | hg'
    · exact h g' (by rw [e1]; simp [hg'])
    · have := pushFile_conf g f (hw.groups g hgs)
      rw [this.1, this.2]; exact h g hgs
    · exact h g' (by rw [e1]; simp [hg'])
  · split at hg'
    · exact h g' hg'
    · rename_i hg t ht
      obtain ⟨A', B', e1', e2', _, _⟩ := addGroup_perm { name := c.grouper f.name, conf := t } s
      have hall : ∀ x ∈ addGroup { name := c.grouper f.name, conf := t } s,
          c.tags.find? (fun t => t.name == c.tagger x.name) = some x.conf ∧ x.WF := by
        intro x hx
        rw [e2'] at hx
        simp only [List.mem_append, List.mem_cons] at hx
        rcases hx with hx | rfl | hx
        · have hxs : x ∈ s := by rw [e1']; simp [hx]
          exact ⟨h x hxs, hw.groups x hxs⟩
        · exact ⟨ht, emptyGroup_wf _ _⟩
        · have hxs : x ∈ s := by rw [e1']; simp [hx]
          exact ⟨h x hxs, hw.groups x hxs⟩
      have hnew : hasGroup (addGroup { name := c.grouper f.name, conf := t } s) (c.grouper f.name) = true := by
        rw [e2']; simp [hasGroup]
      obtain ⟨A, g, B, e1, e2, e3, e4⟩ := modifyGroup_spec _ (c.grouper f.name) (fun g => g.pushFile f) hnew
      rw [e4] at hg'
      simp only [List.mem_append, List.mem_cons] at hg'
      rcases hg' with hg' | rfl | hg'
      · exact (hall g' (by rw [e1]; simp [hg'])).1
      · have hg1 := hall g (by rw [e1]; simp)
        have := pushFile_conf g f hg1.2
        rw [this.1, this.2]; exact hg1.1
      · exact (hall g' (by rw [e1]; simp [hg'])).1

theorem tagInv_step {c : Conf} {s : State} (hw : State.WF s) (h : TagInv c s) (op : Op) :
    TagInv c (step c s op).1 := by
  cases op with
  | push f => exact tagInv_push hw h f
  | pop now =>
    intro g' hg'
    rcases step_origin c hw (.pop now) g' hg' with ⟨hs, _⟩ | ⟨g, f, e, _⟩ | ⟨g, now', _, hgs, rfl, _⟩ |
        ⟨g, now', n, rest, _, hgs, _, hl, rfl, _⟩
    · exact h g' hs
    · cases e
    · have hsc := scanned_spec (hw.groups g hgs) now'
      rw [hsc.2.1, hsc.2.2.1]; exact h g hgs
    · have hsc := scanned_spec (hw.groups g hgs) now'
      have hem := emit_spec hsc.1 hl
      rw [hem.2.1, hem.2.2.1, hsc.2.1, hsc.2.2.1]; exact h g hgs

theorem tagInv_runs {c : Conf} (ops : List Op) : ∀ {s : State}, State.WF s → TagInv c s →
    TagInv c (run c s ops).1 := by
  induction ops with
  | nil => intro s _ h; simpa [run] using h
  | cons op ops ih =>
    intro s hw h
    rw [run_cons]
    have hw' : State.WF (step c s op).1 := by
      have := run_wf c hw [op]
      rw [run_cons] at this
      simpa [run] using this
    exact ih hw' (tagInv_step hw h op)

/-- after any history every group carries the tag `NewTagged`'s lookup finds for its name -/
theorem tag_reachable (c : Conf) (ops : List Op) : TagInv c (run c [] ops).1 :=
  tagInv_runs ops ⟨by simp, by simp, by simp [GroupsSorted]⟩ (by intro g hg; simp at hg)

/-! ## the answer at position k of a history -/

/-- the `k`-th answer of a history is the answer of a Pop on the state after the first `k`
    operations, and the answers before it are the answers of those operations -/
theorem answer_at (c : Conf) (ops : List Op) (k : Nat) (ch : Chunk)
    (hk : (run c [] ops).2[k]? = some (some ch)) :
    ∃ now, ops[k]? = some (.pop now) ∧ (run c [] ops).2.take k = (run c [] (ops.take k)).2 ∧
      pop (run c [] (ops.take k)).1 now = ((pop (run c [] (ops.take k)).1 now).1, some ch) := by
  have hlen := run_length c ops []
  have hkl : k < ops.length := by
    have := (List.getElem?_eq_some_iff.mp hk).1; omega
  have hsplit : ops = ops.take k ++ ops[k] :: ops.drop (k + 1) := by
    rw [List.getElem_cons_drop]; exact (List.take_append_drop k ops).symm
  have hopk : ops[k]? = some ops[k] := List.getElem?_eq_getElem hkl
  generalize hpre : ops.take k = pre at hsplit
  generalize hpost : ops.drop (k + 1) = post at hsplit
  generalize hop : ops[k] = op at hsplit hopk
  have hrun : run c [] ops = ((run c (run c [] pre).1 (op :: post)).1,
      (run c [] pre).2 ++ (run c (run c [] pre).1 (op :: post)).2) := by
    conv => lhs; rw [hsplit]
    exact run_append c pre (op :: post) []
  have hprelen : pre.length = k := by rw [← hpre]; simp; omega
  have htake : (run c [] ops).2.take k = (run c [] pre).2 := by
    rw [hrun]; simp only
    rw [List.take_left' (by rw [run_length]; exact hprelen)]
  have hans : (step c (run c [] pre).1 op).2 = some ch := by
    have : (run c [] ops).2[k]? = some (step c (run c [] pre).1 op).2 := by
      rw [hrun]; simp only
      rw [List.getElem?_append_right (by rw [run_length]; omega), run_length, hprelen, run_cons]; simp
    rw [hk] at this; simpa using this.symm
  cases op with
  | push f => simp [step] at hans
  | pop now =>
    refine ⟨now, hopk, htake, ?_⟩
    have : (pop (run c [] pre).1 now).2 = some ch := hans
    rw [← this]

/-! ## completed files of a group, in completion order -/

/-- the names of the files of group `grp` whose last chunk the answers `as` contain, in order -/
def completedNames (as : List (Option Chunk)) (grp : String) : List String :=
  as.filterMap (fun a => match a with
    | some ch => if ch.completed && ch.group == grp then some ch.name else none
    | none => none)

/-- the predecessor announced with the completing chunk of file `n` of group `grp` ("" if the
    answers do not complete `n`) -/
def completionPrev (as : List (Option Chunk)) (grp n : String) : String :=
  match as.find? (fun a => match a with
      | some ch => ch.completed && ch.group == grp && ch.name == n
      | none => false) with
  | some (some ch) => ch.prev
  | _ => ""

theorem completedNames_snoc (as : List (Option Chunk)) (a : Option Chunk) (grp : String) :
    completedNames (as ++ [a]) grp = match a with
      | some ch => if ch.completed && ch.group == grp then completedNames as grp ++ [ch.name]
                   else completedNames as grp
      | none => completedNames as grp := by
  unfold completedNames
  rw [List.filterMap_append]
  cases a with
  | none => simp
  | some ch => by_cases h : ch.completed = true ∧ ch.group = grp <;> simp [h]

theorem mem_completedNames {as : List (Option Chunk)} {grp n : String} :
    n ∈ completedNames as grp ↔ ∃ ch, some ch ∈ as ∧ ch.completed = true ∧ ch.group = grp ∧ ch.name = n := by
  unfold completedNames
  rw [List.mem_filterMap]
  constructor
  · rintro ⟨a, ha, h⟩
    cases a with
    | none => simp at h
    | some ch =>
      by_cases hc : (ch.completed && ch.group == grp) = true
      · simp only [hc, if_true, Option.some.injEq] at h
        simp only [Bool.and_eq_true, beq_iff_eq] at hc
        exact ⟨ch, ha, hc.1, hc.2, h⟩
      · simp [hc] at h
  · rintro ⟨ch, ha, h1, h2, h3⟩
    exact ⟨some ch, ha, by simp [h1, h2, h3]⟩

theorem lastCompleted_foldl (grp : String) (as : List (Option Chunk)) : ∀ init : String,
    as.foldl (fun acc a => match a with
      | some ch => if ch.completed && ch.group == grp then ch.name else acc
      | none => acc) init = ((completedNames as grp).getLast?).getD init := by
  induction as with
  | nil => intro init; simp [completedNames]
  | cons a as ih =>
    intro init
    rw [List.foldl_cons, ih]
    cases a with
    | none => simp [completedNames]
    | some ch =>
      by_cases hc : ch.completed = true ∧ ch.group = grp
      · have : completedNames (some ch :: as) grp = ch.name :: completedNames as grp := by
          simp [completedNames, hc]
        rw [this]
        have hb : (ch.completed && ch.group == grp) = true := by simp [hc]
        simp only [hb, if_true]
        cases hl : completedNames as grp with
        | nil => simp
        | cons x xs =>
          cases h : (x :: xs).getLast? with
          | none => simp [List.getLast?_eq_none_iff] at h
          | some v => simp [h]
      · have : completedNames (some ch :: as) grp = completedNames as grp := by
          simp [completedNames, hc]
        rw [this]
        have hb : (ch.completed && ch.group == grp) = false := by
          cases hx : (ch.completed && ch.group == grp) with
          | false => rfl
          | true => simp only [Bool.and_eq_true, beq_iff_eq] at hx; exact absurd hx hc
        simp [hb]

/-- `lastCompleted` is the last element of `completedNames` -/
theorem lastCompleted_eq (as : List (Option Chunk)) (grp : String) :
    lastCompleted as grp = ((completedNames as grp).getLast?).getD "" :=
  lastCompleted_foldl grp as ""

theorem completionPrev_snoc_old {as : List (Option Chunk)} {grp n : String} (a : Option Chunk)
    (h : n ∈ completedNames as grp) : completionPrev (as ++ [a]) grp n = completionPrev as grp n := by
  obtain ⟨ch, hm, h1, h2, h3⟩ := mem_completedNames.mp h
  unfold completionPrev
  rw [List.find?_append]
  have : (as.find? (fun a => match a with
      | some ch => ch.completed && ch.group == grp && ch.name == n
      | none => false)).isSome = true := by
    rw [List.find?_isSome]
    exact ⟨some ch, hm, by simp [h1, h2, h3]⟩
  obtain ⟨v, hv⟩ := Option.isSome_iff_exists.mp this
  rw [hv]; rfl

theorem completionPrev_append_new {as : List (Option Chunk)} {grp : String} (ch : Chunk)
    (rest : List (Option Chunk))
    (h : ch.name ∉ completedNames as grp) (h1 : ch.completed = true) (h2 : ch.group = grp) :
    completionPrev (as ++ some ch :: rest) grp ch.name = ch.prev := by
  unfold completionPrev
  rw [List.find?_append]
  have : as.find? (fun a => match a with
      | some c' => c'.completed && c'.group == grp && c'.name == ch.name
      | none => false) = none := by
    rw [List.find?_eq_none]
    intro a ha
    cases a with
    | none => simp
    | some c' =>
      intro hc
      simp only [Bool.and_eq_true, beq_iff_eq] at hc
      exact h (mem_completedNames.mpr ⟨c', ha, hc.1.1, hc.1.2, hc.2⟩)
  rw [this]
  simp [h1, h2]

theorem completionPrev_snoc_new {as : List (Option Chunk)} {grp : String} (ch : Chunk)
    (h : ch.name ∉ completedNames as grp) (h1 : ch.completed = true) (h2 : ch.group = grp) :
    completionPrev (as ++ [some ch]) grp ch.name = ch.prev :=
  completionPrev_append_new ch [] h h1 h2

/-- answers-level chain: if every completing chunk of the group carries a non-empty name that
    was not completed before and announces the file completed most recently, the completed
    files and the announcements of their completing chunks form a chain. -/
theorem chain_of_steps (as : List (Option Chunk)) (grp : String)
    (hstep : ∀ k ch, as[k]? = some (some ch) → ch.completed = true → ch.group = grp →
      ch.name ≠ "" ∧ ch.name ∉ completedNames (as.take k) grp ∧ ch.prev = lastCompleted (as.take k) grp) :
    Compose.Chain (completionPrev as grp) (completedNames as grp) := by
  suffices ∀ n, Compose.Chain (completionPrev (as.take n) grp) (completedNames (as.take n) grp) by
    have := this as.length
    rwa [List.take_length] at this
  intro n
  induction n with
  | zero => exact ⟨by simp [completedNames], by simp [completedNames], by simp [completedNames],
      by simp [completedNames]⟩
  | succ n ih =>
    cases hx : as[n]? with
    | none =>
      have : as.take (n + 1) = as.take n := by rw [List.take_add_one, hx]; simp
      rw [this]; exact ih
    | some a =>
      rw [Compose.take_succ_of_getElem? hx]
      -- the announcements of the files completed so far do not change
      have hold : ∀ x ∈ completedNames (as.take n) grp,
          completionPrev (as.take n ++ [a]) grp x = completionPrev (as.take n) grp x :=
        fun x hx => completionPrev_snoc_old a hx
      have keep : completedNames (as.take n ++ [a]) grp = completedNames (as.take n) grp →
          Compose.Chain (completionPrev (as.take n ++ [a]) grp) (completedNames (as.take n ++ [a]) grp) := by
        intro e
        rw [e]
        refine ⟨ih.nodup, ih.named, fun x h0 => ?_, fun i x y hx' hy => ?_⟩
        · rw [hold x (List.mem_of_getElem? h0)]; exact ih.first x h0
        · rw [hold y (List.mem_of_getElem? hy)]; exact ih.next i x y hx' hy
      cases a with
      | none => exact keep (by rw [completedNames_snoc])
      | some ch =>
        by_cases hc : (ch.completed && ch.group == grp) = true
        · have hcn : completedNames (as.take n ++ [some ch]) grp = completedNames (as.take n) grp ++ [ch.name] := by
            rw [completedNames_snoc]; simp [hc]
          simp only [Bool.and_eq_true, beq_iff_eq] at hc
          obtain ⟨hne, hnew, hprev⟩ := hstep n ch hx hc.1 hc.2
          have hpn : completionPrev (as.take n ++ [some ch]) grp ch.name = ch.prev :=
            completionPrev_snoc_new ch hnew hc.1 hc.2
          rw [lastCompleted_eq] at hprev
          rw [hcn]
          generalize hcn0 : completedNames (as.take n) grp = cn at *
          refine ⟨?_, ?_, fun x h0 => ?_, fun i x y hx' hy => ?_⟩
          · rw [List.nodup_append]
            exact ⟨ih.nodup, by simp, by intro u hu v hv; simp at hv; subst hv; intro e; exact hnew (e ▸ hu)⟩
          · intro hm
            rw [List.mem_append] at hm
            rcases hm with hm | hm
            · exact ih.named hm
            · simp at hm; exact hne hm
          · cases cn with
            | nil =>
              simp at h0; subst h0
              rw [hpn, hprev]; rfl
            | cons u us =>
              simp at h0; subst h0
              rw [hold u (by simp)]
              exact ih.first u (by simp)
          · by_cases hi : i + 1 < cn.length
            · rw [List.getElem?_append_left hi] at hy
              rw [List.getElem?_append_left (by omega)] at hx'
              rw [hold y (List.mem_of_getElem? hy)]
              exact ih.next i x y hx' hy
            · have hlen : i + 1 < (cn ++ [ch.name]).length := (List.getElem?_eq_some_iff.mp hy).1
              simp at hlen
              have hil : i + 1 = cn.length := by omega
              rw [List.getElem?_append_right (by omega)] at hy
              rw [List.getElem?_append_left (by omega)] at hx'
              have hy' : y = ch.name := by
                have : i + 1 - cn.length = 0 := by omega
                rw [this] at hy; simpa using hy.symm
              subst hy'
              rw [hpn, hprev]
              have : cn.getLast? = some x := by
                rw [List.getLast?_eq_getElem?]
                have : cn.length - 1 = i := by omega
                rw [this]; exact hx'
              rw [this]; rfl
        · exact keep (by rw [completedNames_snoc]; simp [hc])

end Sts.Queue
