/-
  Tilings of an integer interval by byte ranges, and point-cover counting. Used by
  Props/C11 (chunks and parts) and Props/C07Missing (the sender's gap computation).
-/
import StsModel.Model.Ranges

namespace Sts

/-! ## Tilings -/

/-- `Tiles a b l`: the ranges of `l`, in order, are non-empty, each starts where the one
    before it ended, the first starts at `a` and the last ends at `b` (`l = []` iff `a = b`). -/
def Tiles (a b : Int) : List Rng → Prop
  | [] => a = b
  | r :: rs => r.beg = a ∧ r.beg < r.fin ∧ Tiles r.fin b rs

instance Tiles.decidable : ∀ (a b : Int) (l : List Rng), Decidable (Tiles a b l)
  | a, b, [] => inferInstanceAs (Decidable (a = b))
  | a, b, r :: rs =>
    have := Tiles.decidable r.fin b rs
    inferInstanceAs (Decidable (r.beg = a ∧ r.beg < r.fin ∧ Tiles r.fin b rs))

theorem Tiles.le {a b : Int} {l : List Rng} (h : Tiles a b l) : a ≤ b := by
  induction l generalizing a with
  | nil => simp [Tiles] at h; omega
  | cons r rs ih =>
    obtain ⟨h1, h2, h3⟩ := h
    have := ih h3
    omega

theorem Tiles.append {a b c : Int} {l₁ l₂ : List Rng} (h₁ : Tiles a b l₁) (h₂ : Tiles b c l₂) :
    Tiles a c (l₁ ++ l₂) := by
  induction l₁ generalizing a with
  | nil => simp [Tiles] at h₁; subst h₁; simpa using h₂
  | cons r rs ih =>
    obtain ⟨h1, h2, h3⟩ := h₁
    exact ⟨h1, h2, ih h3⟩

/-- every range of a tiling is non-empty and lies inside [a, b) -/
theorem Tiles.mem {a b : Int} {l : List Rng} (h : Tiles a b l) :
    ∀ r ∈ l, a ≤ r.beg ∧ r.beg < r.fin ∧ r.fin ≤ b := by
  induction l generalizing a with
  | nil => intro r hr; cases hr
  | cons q qs ih =>
    obtain ⟨h1, h2, h3⟩ := h
    intro r hr
    rcases List.mem_cons.mp hr with rfl | hr
    · exact ⟨by omega, h2, h3.le⟩
    · have := ih h3 r hr
      omega

/-- ascending and disjoint: every range ends at or before the start of every later one -/
theorem Tiles.pairwise {a b : Int} {l : List Rng} (h : Tiles a b l) :
    l.Pairwise (fun r s => r.fin ≤ s.beg) := by
  induction l generalizing a with
  | nil => exact List.Pairwise.nil
  | cons q qs ih =>
    obtain ⟨h1, h2, h3⟩ := h
    refine List.Pairwise.cons ?_ (ih h3)
    intro s hs
    exact (h3.mem s hs).1

/-- number of ranges of `l` that contain the point `x` -/
def coverCount : List Rng → Int → Nat
  | [], _ => 0
  | r :: rs, x => (if r.beg ≤ x ∧ x < r.fin then 1 else 0) + coverCount rs x

theorem coverCount_append (l₁ l₂ : List Rng) (x : Int) :
    coverCount (l₁ ++ l₂) x = coverCount l₁ x + coverCount l₂ x := by
  induction l₁ with
  | nil => simp [coverCount]
  | cons r rs ih => simp only [List.cons_append, coverCount, ih]; omega

/-- exact cover: a point of [a, b) lies in exactly one range, any other point in none -/
theorem Tiles.coverCount {a b : Int} {l : List Rng} (h : Tiles a b l) (x : Int) :
    coverCount l x = if a ≤ x ∧ x < b then 1 else 0 := by
  induction l generalizing a with
  | nil => simp [Tiles] at h; subst h; simp only [Sts.coverCount]; split <;> omega
  | cons q qs ih =>
    obtain ⟨h1, h2, h3⟩ := h
    have hle := h3.le
    have := ih h3
    simp only [Sts.coverCount, this]
    split <;> split <;> split <;> omega

end Sts
