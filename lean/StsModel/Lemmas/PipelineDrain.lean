/-
  What the Pipeline model guarantees when `Start` has returned after a graceful stop
  (property C16, `graceful_drains`).
-/
import StsModel.Lemmas.PipelineInvAll
namespace Sts.Pipeline

/-- Nothing is left anywhere between the scanner and the validator. -/
structure PipelineEmpty (s : State) : Prop where
  scanBatch : s.scanBatch = 0
  chScanned : s.chScanned = 0
  qHold : s.qHold = 0
  chQueued : s.chQueued = 0
  binHold : s.binHold = 0
  chTransmit : s.chTransmit = 0
  senders : s.sdXmit = 0 ∧ s.sdStat = 0 ∧ s.sdOut = 0 ∧ s.sdHStat = 0 ∧ s.sdHOut = 0
  chTransmitted : s.chTransmitted = 0
  parts : s.parts = 0
  progress : s.progReady = 0 ∧ s.orphan = 0
  chValidate : s.chValidate = 0
  poll : s.poll = 0
  vaHold : s.vaHold = 0
  rtHold : s.rtHold = 0
  abandoned : s.lost = 0 ∧ s.deadPl = 0

variable {s : State}

/-- at a normal return every stage is done -/
theorem returned_graceful_pos (I : Inv s) (hg : s.stop = .graceful) (hr : returned s) :
    s.startPos = 16 := by
  rcases hr with h | ⟨_, h⟩
  · have := (I.e1 h).1; rw [hg] at this; cases this
  · simpa using h

theorem drains_of_inv (I : Inv s) (hg : s.stop = .graceful) (hr : returned s) :
    PipelineEmpty s ∧ s.queue ≤ s.cfg.hold ∧ s.dirty = false ∧
    s.found = s.done + s.queue + (s.neg + s.chRetry) + s.changed + s.recLost := by
  have hp := returned_graceful_pos I hg hr
  have hn : s.stop ≠ .now := by rw [hg]; intro h; cases h
  have hscan : s.scanPc = .done := I.p1 (by omega)
  have hrt : s.rtDone = s.cfg.threads := I.p2 (by omega)
  have hq : s.qPc = .done := I.p4 (by omega)
  have hbin : s.binPc = .done := I.p6 (by omega)
  have hsd : s.sdDone = s.cfg.threads := I.p8 (by omega)
  have htr : s.trPc = .done := I.p10 (by omega)
  have hva : s.vaPc = .done := I.p14 (by omega)
  have ht : 0 < s.cfg.threads := I.s0
  have s1 := I.s1; have s2 := I.s2
  unfold S1 at s1
  unfold S2 at s2
  have g1 := I.g1 hn
  have g2 := I.g2 hn (Or.inr hscan)
  have g3b := I.g3b hn hq
  have g3a := I.g3a hn g3b.1
  have g4b := I.g4b hn hbin
  have g5 := I.g5 hn (by omega)
  have g6b := I.g6b hn htr
  have g6a := I.g6a hn g6b.1
  have g7b := I.g7b hn hva
  have g7a := I.g7a hn g7b.1
  have d1 := I.d1 (Or.inr (Or.inr hva))
  have kq := (I.kQ).2 (by rw [hq]; intro h; cases h)
  have kv := (I.kV).2 (by rw [hva]; intro h; cases h)
  have hoth : others s = 0 := by unfold others; omega
  have k2 := I.k2 ⟨hoth, by rw [htr]; intro h; cases h⟩
  have k5 := I.k5
  unfold K5 at k5
  refine ⟨⟨g2, g3a, kq, g4b.1, g4b.2, g5, by omega, g6a, k2, ⟨g6b.2.1, g6b.2.2⟩, g7a, g7b.2, kv, by omega, g1⟩,
    g3b.2, d1, ?_⟩
  omega

end Sts.Pipeline
