/-
  Helper lemmas for the queue model: the node store (get/set of links) and the
  representation of a doubly linked chain by a duplicate-free list of node ids.
-/
import StsModel.Model.Queue

namespace Sts.Queue

/-! ## node store -/

@[simp] theorem length_setNext (ns : Nodes) (i : Nat) (v : Option Nat) : (setNext ns i v).length = ns.length := by
  simp [setNext]
@[simp] theorem length_setPrev (ns : Nodes) (i : Nat) (v : Option Nat) : (setPrev ns i v).length = ns.length := by
  simp [setPrev]

theorem getNext_setNext (ns : Nodes) (i j : Nat) (v : Option Nat) :
    getNext (setNext ns i v) j = if i = j ∧ j < ns.length then v else getNext ns j := by
  unfold getNext setNext
  rw [List.getElem?_modify]
  by_cases h : i = j
  · subst h
    by_cases hl : i < ns.length
    · simp [hl]
    · simp [hl]
  · simp [h]

theorem getPrev_setNext (ns : Nodes) (i j : Nat) (v : Option Nat) :
    getPrev (setNext ns i v) j = getPrev ns j := by
  unfold getPrev setNext
  rw [List.getElem?_modify]
  by_cases h : i = j
  · subst h
    cases hx : ns[i]? <;> simp
  · simp [h]

theorem getPrev_setPrev (ns : Nodes) (i j : Nat) (v : Option Nat) :
    getPrev (setPrev ns i v) j = if i = j ∧ j < ns.length then v else getPrev ns j := by
  unfold getPrev setPrev
  rw [List.getElem?_modify]
  by_cases h : i = j
  · subst h
    by_cases hl : i < ns.length
    · simp [hl]
    · simp [hl]
  · simp [h]

theorem getNext_setPrev (ns : Nodes) (i j : Nat) (v : Option Nat) :
    getNext (setPrev ns i v) j = getNext ns j := by
  unfold getNext setPrev
  rw [List.getElem?_modify]
  by_cases h : i = j
  · subst h
    cases hx : ns[i]? <;> simp
  · simp [h]

/-- the payload of a node (everything but the links) -/
def payload (ns : Nodes) (i : Nat) : Option (FileInfo × Int) := (ns[i]?).map (fun n => (n.file, n.allocated))

theorem payload_setNext (ns : Nodes) (i j : Nat) (v : Option Nat) : payload (setNext ns i v) j = payload ns j := by
  unfold payload setNext
  rw [List.getElem?_modify]
  by_cases h : i = j
  · subst h; cases hx : ns[i]? <;> simp
  · simp [h]

theorem payload_setPrev (ns : Nodes) (i j : Nat) (v : Option Nat) : payload (setPrev ns i v) j = payload ns j := by
  unfold payload setPrev
  rw [List.getElem?_modify]
  by_cases h : i = j
  · subst h; cases hx : ns[i]? <;> simp
  · simp [h]

theorem nodeName_eq_payload (ns : Nodes) (i : Nat) :
    nodeName ns i = match payload ns i with | some p => p.1.name | none => "" := by
  unfold nodeName payload; cases ns[i]? <;> simp

theorem isAllocated_eq_payload (ns : Nodes) (i : Nat) :
    isAllocated ns i = match payload ns i with
      | some p => (match p.1.rcv with | some r => r.isAllocated | none => p.2 == p.1.size)
      | none => false := by
  unfold isAllocated payload Node.isAllocated; cases ns[i]? <;> rfl

/-! ## chains -/

/-- successor of `i` in the chain `c` -/
def succIn : List Nat → Nat → Option Nat
  | [], _ => none
  | a :: t, i => if a = i then t.head? else succIn t i

/-- predecessor of `i` in the chain `c` -/
def predIn : List Nat → Nat → Option Nat
  | [], _ => none
  | a :: t, i => if t.head? = some i then some a else predIn t i

theorem succIn_not_mem {c : List Nat} {i : Nat} (h : i ∉ c) : succIn c i = none := by
  induction c with
  | nil => rfl
  | cons a t ih =>
    simp only [List.mem_cons, not_or] at h
    simp [succIn, Ne.symm h.1, ih h.2]

theorem predIn_not_mem {c : List Nat} {i : Nat} (h : i ∉ c) : predIn c i = none := by
  induction c with
  | nil => rfl
  | cons a t ih =>
    simp only [List.mem_cons, not_or] at h
    have : t.head? ≠ some i := by
      intro hh; cases t with
      | nil => simp at hh
      | cons b t' => simp at hh; exact h.2 (by simp [hh])
    simp [predIn, this, ih h.2]

theorem succIn_mem {c : List Nat} {i j : Nat} (h : succIn c i = some j) : i ∈ c ∧ j ∈ c := by
  induction c with
  | nil => simp [succIn] at h
  | cons a t ih =>
    simp only [succIn] at h
    split at h
    · subst_vars
      cases t with
      | nil => simp at h
      | cons b t' => simp at h; subst h; simp
    · have := ih h; exact ⟨by simp [this.1], by simp [this.2]⟩

theorem predIn_mem {c : List Nat} {i j : Nat} (h : predIn c i = some j) : i ∈ c ∧ j ∈ c := by
  induction c with
  | nil => simp [predIn] at h
  | cons a t ih =>
    simp only [predIn] at h
    split at h
    · rename_i hh
      cases t with
      | nil => simp at hh
      | cons b t' => simp at hh h; subst hh; subst h; simp
    · have := ih h; exact ⟨by simp [this.1], by simp [this.2]⟩

/-- adjacency is symmetric in a duplicate-free chain -/
theorem pred_iff_succ {c : List Nat} (hn : c.Nodup) (a b : Nat) :
    predIn c b = some a ↔ succIn c a = some b := by
  induction c with
  | nil => simp [predIn, succIn]
  | cons x t ih =>
    have hnt : t.Nodup := (List.nodup_cons.mp hn).2
    have hx : x ∉ t := (List.nodup_cons.mp hn).1
    simp only [predIn, succIn]
    by_cases h1 : t.head? = some b
    · simp only [h1, if_true]
      constructor
      · intro h; simp at h; subst h; simp
      · intro h
        by_cases hxa : x = a
        · simp [hxa]
        · simp only [hxa, if_false] at h
          -- a is in t and its successor is b = head of t: contradiction with nodup
          exfalso
          cases t with
          | nil => simp at h1
          | cons y t' =>
            simp at h1; subst h1
            have hm := succIn_mem h
            -- succ of a in (y :: t') is y, so y occurs after a: y ∈ t' or a = y impossible
            simp only [succIn] at h
            split at h
            · subst_vars
              cases t' with
              | nil => simp at h
              | cons z t'' =>
                simp at h; subst h
                simp at hnt
            · have := (succIn_mem h).2
              exact (List.nodup_cons.mp hnt).1 this
    · simp only [h1, if_false]
      by_cases hxa : x = a
      · subst hxa
        simp only [if_true]
        constructor
        · intro h; exact absurd (predIn_mem h).2 hx
        · intro h; exact absurd h h1
      · simp only [hxa, if_false]
        exact ih hnt

theorem succIn_ne_self {c : List Nat} (hn : c.Nodup) (i : Nat) : succIn c i ≠ some i := by
  induction c with
  | nil => simp [succIn]
  | cons x t ih =>
    have hnt : t.Nodup := (List.nodup_cons.mp hn).2
    have hx : x ∉ t := (List.nodup_cons.mp hn).1
    simp only [succIn]
    split
    · subst_vars
      intro h
      cases t with
      | nil => simp at h
      | cons y t' => simp at h; subst h; simp at hx
    · exact ih hnt

theorem predIn_ne_self {c : List Nat} (hn : c.Nodup) (i : Nat) : predIn c i ≠ some i := by
  intro h; exact succIn_ne_self hn i ((pred_iff_succ hn i i).mp h)

theorem succIn_append {A B : List Nat} (hn : (A ++ B).Nodup) (j : Nat) :
    succIn (A ++ B) j = if j ∈ A then (if A.getLast? = some j then B.head? else succIn A j) else succIn B j := by
  induction A with
  | nil => simp
  | cons a t ih =>
    have hn' : (t ++ B).Nodup := (List.nodup_cons.mp hn).2
    have ha : a ∉ t ++ B := (List.nodup_cons.mp hn).1
    have := ih hn'
    cases t with
    | nil => simp [succIn]; grind
    | cons b t' =>
      have hl : (b :: t').getLast? = some j → j ∈ b :: t' := List.mem_of_getLast?
      simp only [List.cons_append, succIn, List.getLast?_cons_cons] at *
      grind

theorem predIn_append {A B : List Nat} (hn : (A ++ B).Nodup) (j : Nat) :
    predIn (A ++ B) j = if j ∈ B then (if B.head? = some j then A.getLast? else predIn B j) else predIn A j := by
  induction A with
  | nil =>
    have := predIn_not_mem (c := B) (i := j)
    cases B with
    | nil => simp [predIn]
    | cons b t =>
      have h2 := predIn_ne_self hn b
      have h3 := predIn_not_mem (c := t) (i := b)
      simp at hn
      simp [predIn] at *
      grind
  | cons a t ih =>
    have hn' : (t ++ B).Nodup := (List.nodup_cons.mp hn).2
    have ha : a ∉ t ++ B := (List.nodup_cons.mp hn).1
    have := ih hn'
    have hB := predIn_not_mem (c := B) (i := j)
    cases t with
    | nil =>
      cases B with
      | nil => simp [predIn]
      | cons b B' => simp [predIn] at *; grind
    | cons b t' =>
      simp only [List.cons_append, predIn, List.getLast?_cons_cons, List.head?_cons] at *
      grind


structure Rep (ns : Nodes) (c : List Nat) : Prop where
  nodup : c.Nodup
  valid : ∀ i ∈ c, i < ns.length
  next : ∀ i, getNext ns i = succIn c i
  prev : ∀ i, getPrev ns i = predIn c i

theorem nodup_mid {A B : List Nat} {i : Nat} (h : (A ++ i :: B).Nodup) :
    (A ++ B).Nodup ∧ i ∉ A ∧ i ∉ B := by
  have := List.nodup_append.mp h
  simp at this
  refine ⟨?_, ?_, ?_⟩
  · apply List.nodup_append.mpr
    grind
  · grind
  · grind

@[simp] theorem length_unlink (ns : Nodes) (i : Nat) : (unlink ns i).length = ns.length := by
  unfold unlink; dsimp only; split <;> split <;> simp

theorem unlink_rep {ns : Nodes} {A B : List Nat} {i : Nat} (h : Rep ns (A ++ i :: B)) :
    Rep (unlink ns i) (A ++ B) := by
  obtain ⟨hn, hv, hnext, hprev⟩ := h
  obtain ⟨hn', hiA, hiB⟩ := nodup_mid hn
  have hp : getPrev ns i = A.getLast? := by
    rw [hprev, predIn_append hn]; simp
  have hx : getNext ns i = B.head? := by
    rw [hnext, succIn_append hn]; simp [hiA, succIn]
  have hil : i < ns.length := hv i (by simp)
  have hlast : ∀ x, A.getLast? = some x → x ∈ A := fun x h => List.mem_of_getLast? h
  have hhead : ∀ x, B.head? = some x → x ∈ B := fun x h => List.mem_of_head? h
  have hvA : ∀ x ∈ A, x < ns.length := fun x hx => hv x (by simp [hx])
  have hvB : ∀ x ∈ B, x < ns.length := fun x hx => hv x (by simp [hx])
  have hsA := succIn_not_mem hiA
  have hsB := succIn_not_mem hiB
  have hpA := predIn_not_mem hiA
  have hpB := predIn_not_mem hiB
  refine ⟨hn', fun j hj => ?_, fun j => ?_, fun j => ?_⟩
  · have : j < ns.length := hv j (by simp at hj ⊢; grind)
    simpa using this
  · have e1 := succIn_append hn j
    have e2 := succIn_append hn' j
    have e3 := hnext j
    unfold unlink
    rw [hp, hx]
    cases hA : A.getLast? <;> cases hB : B.head? <;>
      simp only [getNext_setNext, getNext_setPrev, length_setNext, length_setPrev] <;>
      simp only [succIn] at e1 <;> grind
  · have e1 := predIn_append hn j
    have e2 := predIn_append hn' j
    have e3 := hprev j
    unfold unlink
    rw [hp, hx]
    cases hA : A.getLast? <;> cases hB : B.head? <;>
      simp only [getPrev_setNext, getPrev_setPrev, length_setNext, length_setPrev] <;>
      simp only [predIn, List.mem_cons, List.head?_cons] at e1 <;> grind

@[simp] theorem length_addAfter (ns : Nodes) (i p : Nat) : (addAfter ns i p).length = ns.length := by
  unfold addAfter; dsimp only; split <;> simp
@[simp] theorem length_addBefore (ns : Nodes) (i n : Nat) : (addBefore ns i n).length = ns.length := by
  unfold addBefore; dsimp only; split <;> simp

theorem nodup_mid_insert {A B : List Nat} {i : Nat} (h : (A ++ B).Nodup) (hi : i ∉ A ++ B) :
    (A ++ i :: B).Nodup := by
  have := List.nodup_append.mp h
  apply List.nodup_append.mpr
  simp at hi ⊢
  grind

theorem addAfter_rep {ns : Nodes} {A B : List Nat} {i p : Nat} (h : Rep ns (A ++ B))
    (hp : A.getLast? = some p) (hi : i ∉ A ++ B) (hil : i < ns.length) :
    Rep (addAfter ns i p) (A ++ i :: B) := by
  obtain ⟨hn, hv, hnext, hprev⟩ := h
  have hn' := nodup_mid_insert hn hi
  have hiA : i ∉ A := by simp at hi; exact hi.1
  have hiB : i ∉ B := by simp at hi; exact hi.2
  have hpA : p ∈ A := List.mem_of_getLast? hp
  have hx : getNext ns p = B.head? := by
    rw [hnext, succIn_append hn]; simp [hpA, hp]
  have hhead : ∀ x, B.head? = some x → x ∈ B := fun x h => List.mem_of_head? h
  have hvA : ∀ x ∈ A, x < ns.length := fun x hx => hv x (by simp [hx])
  have hvB : ∀ x ∈ B, x < ns.length := fun x hx => hv x (by simp [hx])
  have hsA := succIn_not_mem hiA
  have hsB := succIn_not_mem hiB
  have hpA' := predIn_not_mem hiA
  have hpB := predIn_not_mem hiB
  refine ⟨hn', fun j hj => ?_, fun j => ?_, fun j => ?_⟩
  · simp at hj ⊢; grind
  · have e1 := succIn_append hn j
    have e2 := succIn_append hn' j
    have e3 := hnext j
    unfold addAfter
    rw [hx]
    cases hB : B.head? <;>
      simp only [getNext_setNext, getNext_setPrev, length_setNext, length_setPrev] <;>
      simp only [succIn] at e2 <;> grind
  · have e1 := predIn_append hn j
    have e2 := predIn_append hn' j
    have e3 := hprev j
    unfold addAfter
    rw [hx]
    cases hB : B.head? <;>
      simp only [getPrev_setNext, getPrev_setPrev, length_setNext, length_setPrev] <;>
      simp only [predIn, List.mem_cons, List.head?_cons] at e2 <;> grind

theorem addBefore_rep {ns : Nodes} {A B : List Nat} {i n : Nat} (h : Rep ns (A ++ B))
    (hb : B.head? = some n) (hi : i ∉ A ++ B) (hil : i < ns.length) :
    Rep (addBefore ns i n) (A ++ i :: B) := by
  obtain ⟨hn, hv, hnext, hprev⟩ := h
  have hn' := nodup_mid_insert hn hi
  have hiA : i ∉ A := by simp at hi; exact hi.1
  have hiB : i ∉ B := by simp at hi; exact hi.2
  have hnB : n ∈ B := List.mem_of_head? hb
  have hx : getPrev ns n = A.getLast? := by
    rw [hprev, predIn_append hn]; simp [hnB, hb]
  have hlast : ∀ x, A.getLast? = some x → x ∈ A := fun x h => List.mem_of_getLast? h
  have hvA : ∀ x ∈ A, x < ns.length := fun x hx => hv x (by simp [hx])
  have hvB : ∀ x ∈ B, x < ns.length := fun x hx => hv x (by simp [hx])
  have hsA := succIn_not_mem hiA
  have hsB := succIn_not_mem hiB
  have hpA' := predIn_not_mem hiA
  have hpB := predIn_not_mem hiB
  refine ⟨hn', fun j hj => ?_, fun j => ?_, fun j => ?_⟩
  · simp at hj ⊢; grind
  · have e1 := succIn_append hn j
    have e2 := succIn_append hn' j
    have e3 := hnext j
    unfold addBefore
    rw [hx]
    cases hA : A.getLast? <;>
      simp only [getNext_setNext, getNext_setPrev, length_setNext, length_setPrev] <;>
      simp only [succIn] at e2 <;> grind
  · have e1 := predIn_append hn j
    have e2 := predIn_append hn' j
    have e3 := hprev j
    unfold addBefore
    rw [hx]
    cases hA : A.getLast? <;>
      simp only [getPrev_setNext, getPrev_setPrev, length_setNext, length_setPrev] <;>
      simp only [predIn, List.mem_cons, List.head?_cons] at e2 <;> grind

/-! ### further facts about `Rep` -/

theorem Rep.unlinked {ns : Nodes} {c : List Nat} (h : Rep ns c) {i : Nat} (hi : i ∉ c) :
    getPrev ns i = none ∧ getNext ns i = none := by
  rw [h.prev, h.next, predIn_not_mem hi, succIn_not_mem hi]; exact ⟨rfl, rfl⟩

theorem unlink_unlinked {ns : Nodes} {i : Nat} (hp : getPrev ns i = none) (hx : getNext ns i = none) :
    unlink ns i = ns := by
  unfold unlink; rw [hp, hx]

/-- a one-element chain is the same as no chain at all -/
theorem Rep.of_singleton {ns : Nodes} {p : Nat} (h : Rep ns [p]) : Rep ns [] := by
  refine ⟨List.nodup_nil, by simp, fun i => ?_, fun i => ?_⟩
  · rw [h.next]; simp [succIn]
  · rw [h.prev]; simp [predIn]

theorem Rep.to_singleton {ns : Nodes} {p : Nat} (h : Rep ns []) (hp : p < ns.length) : Rep ns [p] := by
  refine ⟨by simp, by simpa using hp, fun i => ?_, fun i => ?_⟩
  · rw [h.next]; simp [succIn]
  · rw [h.prev]; simp [predIn]

theorem Rep.nil_of_short {ns : Nodes} {pre : List Nat} (h : Rep ns pre) (hl : pre.length ≤ 1) : Rep ns [] := by
  match pre, hl with
  | [], _ => exact h
  | [p], _ => exact h.of_singleton

/-- a node store with the same links and at least the same ids represents the same chain -/
theorem Rep.congr {ns ns' : Nodes} {c : List Nat} (h : Rep ns c) (hl : ns.length ≤ ns'.length)
    (hn : ∀ i, getNext ns' i = getNext ns i) (hp : ∀ i, getPrev ns' i = getPrev ns i) : Rep ns' c :=
  ⟨h.nodup, fun i hi => Nat.lt_of_lt_of_le (h.valid i hi) hl, fun i => by rw [hn, h.next], fun i => by rw [hp, h.prev]⟩

end Sts.Queue
