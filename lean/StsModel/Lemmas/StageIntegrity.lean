/-
  Integrity invariant of the receiver model (C01): every file in the final directory has a
  receive-log record for its target whose hash is the hash of its bytes. The invariant is
  preserved by every primitive under a guard (`IG`), holds after `crash`, and every operation
  of the model meets the guards provided `recvWrite` goes through a handle whose inode is
  still a `.part` (NoStaleWrite) and the environment corrupts only `.part` / `.full` files.
-/
import StsModel.Lemmas.StageBasic

namespace Sts.Stage

/-! ## links: the directory entries that point at data inodes -/

inductive Link
  | part (n : Name) | full (n : Name) | wait (n : Name) | final (t : String)
deriving DecidableEq, Repr

def lnk (d : Disk) : Link → Option Nat
  | .part n => d.part n
  | .full n => d.full n
  | .wait n => d.wait n
  | .final t => d.final t

/-- J0: link targets are allocated inodes and no inode has two links. -/
structure Links (f : Link → Option Nat) (k : Nat) : Prop where
  bound : ∀ l i, f l = some i → i < k
  inj : ∀ l1 l2 i, f l1 = some i → f l2 = some i → l1 = l2

/-- links only disappear -/
theorem Links.sub {f g : Link → Option Nat} {k k' : Nat} (h : Links f k)
    (hs : ∀ l i, g l = some i → f l = some i) (hk : k ≤ k') : Links g k' :=
  ⟨fun l i hl => Nat.lt_of_lt_of_le (h.bound l i (hs l i hl)) hk,
   fun l1 l2 i h1 h2 => h.inj l1 l2 i (hs l1 i h1) (hs l2 i h2)⟩

/-- rename `src` to `dst` (the old `dst` link is dropped) -/
theorem Links.move {f g : Link → Option Nat} {k : Nat} (h : Links f k) (src dst : Link)
    (hm : ∀ l j, g l = some j → (l = dst ∧ f src = some j) ∨ (l ≠ src ∧ f l = some j)) :
    Links g k := by
  refine ⟨?_, ?_⟩
  · intro l i hl
    rcases hm l i hl with ⟨_, h1⟩ | ⟨_, h1⟩
    · exact h.bound _ _ h1
    · exact h.bound _ _ h1
  · intro l1 l2 i h1 h2
    rcases hm l1 i h1 with ⟨e1, a1⟩ | ⟨n1, a1⟩ <;> rcases hm l2 i h2 with ⟨e2, a2⟩ | ⟨n2, a2⟩
    · rw [e1, e2]
    · exact absurd (h.inj _ _ _ a2 a1) n2
    · exact absurd (h.inj _ _ _ a1 a2) n1
    · exact h.inj _ _ _ a1 a2

/-- a new link to the fresh inode `k` -/
theorem Links.fresh {f g : Link → Option Nat} {k : Nat} (h : Links f k) (dst : Link)
    (hm : ∀ l j, g l = some j → (l = dst ∧ j = k) ∨ f l = some j) :
    Links g (k + 1) := by
  refine ⟨?_, ?_⟩
  · intro l i hl
    rcases hm l i hl with ⟨_, h1⟩ | h1
    · omega
    · exact Nat.lt_succ_of_lt (h.bound _ _ h1)
  · intro l1 l2 i h1 h2
    rcases hm l1 i h1 with ⟨e1, a1⟩ | a1 <;> rcases hm l2 i h2 with ⟨e2, a2⟩ | a2
    · rw [e1, e2]
    · have := h.bound _ _ a2; omega
    · have := h.bound _ _ a1; omega
    · exact h.inj _ _ _ a1 a2

/-! ## the invariant -/

/-- JW ∧ JF ∧ J0. `jw`: a `.wait` file whose cache entry says *validated* has the cached hash;
    `jf`: a final file has a log record of its target with the hash of its bytes. -/
structure Integ (H : Body → String) (s : State) : Prop where
  links : Links (lnk s.disk) s.disk.nextIno
  jw : ∀ n i e, s.disk.wait n = some i → s.mem.cache n = some e → e.state = .validated →
        H (s.disk.body i) = e.hash
  jf : ∀ t i, s.disk.final t = some i →
        ∃ r ∈ s.disk.log, targetOf r.name r.renamed = t ∧ H (s.disk.body i) = r.hash

/-- guard of a primitive: what must be true in the state it is executed in -/
def IG (H : Body → String) (s : State) : Prim → Prop
  | .writeIno i _ _ _ => ∃ n, s.disk.part n = some i
  | .corrupt i _ _ => ∃ n, s.disk.part n = some i ∨ s.disk.full n = some i
  | .renFullWait n => ∀ e, s.mem.cache n = some e → e.state ≠ .validated
  | .renWaitFinal n t => ∀ i, s.disk.wait n = some i →
      ∃ r ∈ s.disk.log, targetOf r.name r.renamed = t ∧ H (s.disk.body i) = r.hash
  | .cacheSet n e => e.state = .validated → ∀ i, s.disk.wait n = some i → H (s.disk.body i) = e.hash
  | _ => True

theorem Integ_init (H : Body → String) : Integ H init :=
  ⟨⟨fun l i h => by cases l <;> simp [lnk, init] at h,
    fun l1 l2 i h => by cases l1 <;> simp [lnk, init] at h⟩,
   fun n i e h => by simp [init] at h, fun t i h => by simp [init] at h⟩

theorem Integ_crash (H : Body → String) (s : State) (h : Integ H s) : Integ H (crash s) :=
  ⟨h.links, fun n i e _ hc => by simp [crash] at hc, h.jf⟩

/-- transfer: links only disappear, the log only grows, bodies of `.wait`/final inodes are
    kept, and every validated cache entry either was there (same hash) or is justified. -/
theorem Integ.transfer {H : Body → String} {s s' : State} (h : Integ H s)
    (hl : ∀ l i, lnk s'.disk l = some i → lnk s.disk l = some i)
    (hn : s.disk.nextIno ≤ s'.disk.nextIno)
    (hlog : ∀ r ∈ s.disk.log, r ∈ s'.disk.log)
    (hb : ∀ i, ((∃ n, s.disk.wait n = some i) ∨ (∃ t, s.disk.final t = some i)) →
      s'.disk.body i = s.disk.body i)
    (hc : ∀ n e, s'.mem.cache n = some e → e.state = .validated →
      (∃ e0, s.mem.cache n = some e0 ∧ e0.state = .validated ∧ e0.hash = e.hash) ∨
      (∀ i, s.disk.wait n = some i → H (s.disk.body i) = e.hash)) :
    Integ H s' := by
  refine ⟨h.links.sub hl hn, ?_, ?_⟩
  · intro n i e hw hce hst
    have hw0 : s.disk.wait n = some i := hl (.wait n) i hw
    rw [hb i (Or.inl ⟨n, hw0⟩)]
    rcases hc n e hce hst with ⟨e0, h0, hs0, hh0⟩ | hj
    · rw [← hh0]; exact h.jw n i e0 hw0 h0 hs0
    · exact hj i hw0
  · intro t i hf
    have hf0 : s.disk.final t = some i := hl (.final t) i hf
    obtain ⟨r, hr, ht, hh⟩ := h.jf t i hf0
    exact ⟨r, hlog r hr, ht, by rw [hb i (Or.inr ⟨t, hf0⟩)]; exact hh⟩

theorem applyDisk_mem (d : Disk) (p : Prim) (h : p.durable = false) : applyDisk d p = d := by
  cases p <;> simp [Prim.durable] at h <;> rfl

theorem applyMem_cache_durable (m : Mem) (p : Prim) (h : p.durable = true) :
    (applyMem m p).cache = m.cache := by
  cases p <;> simp [Prim.durable] at h <;> rfl

/-- a different inode: the body is kept by `upd` -/
theorem upd_body_ne {b : Nat → Body} {i j : Nat} {v : Body} (h : j ≠ i) : upd b i v j = b j :=
  upd_other b i j v h

theorem Integ.wait_ne_part {H : Body → String} {s : State} (h : Integ H s) {n m : Name} {i j : Nat}
    (hp : s.disk.part n = some i) (hw : s.disk.wait m = some j) : j ≠ i := by
  intro e; subst e
  have := h.links.inj (.part n) (.wait m) j hp hw
  cases this

theorem Integ.final_ne_part {H : Body → String} {s : State} (h : Integ H s) {n : Name} {t : String}
    {i j : Nat} (hp : s.disk.part n = some i) (hw : s.disk.final t = some j) : j ≠ i := by
  intro e; subst e
  have := h.links.inj (.part n) (.final t) j hp hw
  cases this

theorem Integ.wait_ne_full {H : Body → String} {s : State} (h : Integ H s) {n m : Name} {i j : Nat}
    (hp : s.disk.full n = some i) (hw : s.disk.wait m = some j) : j ≠ i := by
  intro e; subst e
  have := h.links.inj (.full n) (.wait m) j hp hw
  cases this

theorem Integ.final_ne_full {H : Body → String} {s : State} (h : Integ H s) {n : Name} {t : String}
    {i j : Nat} (hp : s.disk.full n = some i) (hw : s.disk.final t = some j) : j ≠ i := by
  intro e; subst e
  have := h.links.inj (.full n) (.final t) j hp hw
  cases this

/-- the body of inode `i` is rewritten, `i` being a `.part` or `.full` inode -/
theorem Integ.body_upd {H : Body → String} {s s' : State} (h : Integ H s) (i : Nat) (v : Body)
    (hi : ∃ n, s.disk.part n = some i ∨ s.disk.full n = some i)
    (hl : ∀ l, lnk s'.disk l = lnk s.disk l)
    (hn : s'.disk.nextIno = s.disk.nextIno) (hlog : s'.disk.log = s.disk.log)
    (hb : s'.disk.body = upd s.disk.body i v) (hc : s'.mem.cache = s.mem.cache) :
    Integ H s' := by
  apply h.transfer
  · intro l j hj; rw [← hl l]; exact hj
  · omega
  · intro r hr; rw [hlog]; exact hr
  · intro j hj
    rw [hb]
    apply upd_body_ne
    obtain ⟨n, hp | hp⟩ := hi
    · rcases hj with ⟨m, hw⟩ | ⟨t, hw⟩
      · exact h.wait_ne_part hp hw
      · exact h.final_ne_part hp hw
    · rcases hj with ⟨m, hw⟩ | ⟨t, hw⟩
      · exact h.wait_ne_full hp hw
      · exact h.final_ne_full hp hw
  · intro n e hce hst
    rw [hc] at hce
    exact Or.inl ⟨e, hce, hst, rfl⟩

/-- disk and cache unchanged as far as the invariant sees them -/
theorem Integ.same {H : Body → String} {s s' : State} (h : Integ H s)
    (hl : ∀ l, lnk s'.disk l = lnk s.disk l)
    (hn : s'.disk.nextIno = s.disk.nextIno) (hlog : s'.disk.log = s.disk.log)
    (hb : s'.disk.body = s.disk.body) (hc : s'.mem.cache = s.mem.cache) :
    Integ H s' := by
  apply h.transfer
  · intro l j hj; rw [← hl l]; exact hj
  · omega
  · intro r hr; rw [hlog]; exact hr
  · intro j _; rw [hb]
  · intro n e hce hst
    rw [hc] at hce
    exact Or.inl ⟨e, hce, hst, rfl⟩

set_option linter.unusedSimpArgs false in
theorem Integ_step (H : Body → String) (s : State) (p : Prim) (h : Integ H s) (g : IG H s p) :
    Integ H (applyPrim s p) := by
  cases p with
  | createPart n now =>
    cases hp : s.disk.part n with
    | some i =>
      refine h.body_upd i [] ⟨n, Or.inl hp⟩ ?_ ?_ ?_ ?_ ?_
      · intro l; cases l <;> simp [applyPrim, applyDisk, hp, lnk]
      · simp [applyPrim, applyDisk, hp]
      · simp [applyPrim, applyDisk, hp]
      · simp [applyPrim, applyDisk, hp]
      · simp [applyPrim, applyMem]
    | none =>
      have hd : (applyPrim s (.createPart n now)).disk =
          { s.disk with part := upd s.disk.part n (some s.disk.nextIno),
                        body := upd s.disk.body s.disk.nextIno [],
                        written := upd s.disk.written s.disk.nextIno [],
                        nextIno := s.disk.nextIno + 1,
                        mtime := upd s.disk.mtime s.disk.nextIno now } := by
        simp [applyPrim, applyDisk, hp]
      have hm : (applyPrim s (.createPart n now)).mem = s.mem := by simp [applyPrim, applyMem]
      refine ⟨?_, ?_, ?_⟩
      · rw [hd]
        refine h.links.fresh (.part n) ?_
        intro l j hj
        cases l with
        | part m =>
          by_cases hmn : m = n
          · subst hmn; left; simpa [lnk] using hj.symm
          · right; simpa [lnk, upd_other _ _ _ _ hmn] using hj
        | full m => right; simpa [lnk] using hj
        | wait m => right; simpa [lnk] using hj
        | final t => right; simpa [lnk] using hj
      · intro m i e hw hce hst
        rw [hd] at hw ⊢; rw [hm] at hce
        simp only at hw ⊢
        have hlt := h.links.bound (.wait m) i hw
        rw [upd_other _ _ _ _ (Nat.ne_of_lt hlt)]
        exact h.jw m i e hw hce hst
      · intro t i hf
        rw [hd] at hf ⊢
        simp only at hf ⊢
        have hlt := h.links.bound (.final t) i hf
        rw [upd_other _ _ _ _ (Nat.ne_of_lt hlt)]
        exact h.jf t i hf
  | truncPart n size =>
    cases hp : s.disk.part n with
    | some i =>
      refine h.body_upd i (zeros size) ⟨n, Or.inl hp⟩ ?_ ?_ ?_ ?_ ?_
      · intro l; cases l <;> simp [applyPrim, applyDisk, hp, lnk]
      · simp [applyPrim, applyDisk, hp]
      · simp [applyPrim, applyDisk, hp]
      · simp [applyPrim, applyDisk, hp]
      · simp [applyPrim, applyMem]
    | none =>
      refine h.same ?_ ?_ ?_ ?_ ?_ <;> simp [applyPrim, applyDisk, hp, applyMem]
  | writeIno i beg data now =>
    obtain ⟨n, hp⟩ := g
    refine h.body_upd i _ ⟨n, Or.inl hp⟩ ?_ ?_ ?_ rfl ?_
    · intro l; cases l <;> simp [applyPrim, applyDisk, lnk]
    · simp [applyPrim, applyDisk]
    · simp [applyPrim, applyDisk]
    · simp [applyPrim, applyMem]
  | corrupt i pos v =>
    refine h.body_upd i _ g ?_ ?_ ?_ rfl ?_
    · intro l; cases l <;> simp [applyPrim, applyDisk, lnk]
    · simp [applyPrim, applyDisk]
    · simp [applyPrim, applyDisk]
    · simp [applyPrim, applyMem]
  | rmPart n =>
    apply h.transfer
    · intro l i hl
      cases l with
      | part m =>
        by_cases hmn : m = n
        · subst hmn; simp [applyPrim, applyDisk, lnk] at hl
        · simpa [applyPrim, applyDisk, lnk, upd_other _ _ _ _ hmn] using hl
      | _ => simpa [applyPrim, applyDisk, lnk] using hl
    · simp [applyPrim, applyDisk]
    · intro r hr; simpa [applyPrim, applyDisk] using hr
    · intro i _; simp [applyPrim, applyDisk]
    · intro m e hce hst; exact Or.inl ⟨e, by simpa [applyPrim, applyMem] using hce, hst, rfl⟩
  | rmFull n =>
    apply h.transfer
    · intro l i hl
      cases l with
      | full m =>
        by_cases hmn : m = n
        · subst hmn; simp [applyPrim, applyDisk, lnk] at hl
        · simpa [applyPrim, applyDisk, lnk, upd_other _ _ _ _ hmn] using hl
      | _ => simpa [applyPrim, applyDisk, lnk] using hl
    · simp [applyPrim, applyDisk]
    · intro r hr; simpa [applyPrim, applyDisk] using hr
    · intro i _; simp [applyPrim, applyDisk]
    · intro m e hce hst; exact Or.inl ⟨e, by simpa [applyPrim, applyMem] using hce, hst, rfl⟩
  | rmFinal n =>
    apply h.transfer
    · intro l i hl
      cases l with
      | final m =>
        by_cases hmn : m = n
        · subst hmn; simp [applyPrim, applyDisk, lnk] at hl
        · simpa [applyPrim, applyDisk, lnk, upd_other _ _ _ _ hmn] using hl
      | _ => simpa [applyPrim, applyDisk, lnk] using hl
    · simp [applyPrim, applyDisk]
    · intro r hr; simpa [applyPrim, applyDisk] using hr
    · intro i _; simp [applyPrim, applyDisk]
    · intro m e hce hst; exact Or.inl ⟨e, by simpa [applyPrim, applyMem] using hce, hst, rfl⟩
  | logAppend r0 =>
    apply h.transfer
    · intro l i hl; cases l <;> simpa [applyPrim, applyDisk, lnk] using hl
    · simp [applyPrim, applyDisk]
    · intro r hr; simp [applyPrim, applyDisk, hr]
    · intro i _; simp [applyPrim, applyDisk]
    · intro m e hce hst; exact Or.inl ⟨e, by simpa [applyPrim, applyMem] using hce, hst, rfl⟩
  | cacheSet n e0 =>
    apply h.transfer
    · intro l i hl; cases l <;> simpa [applyPrim, applyDisk, lnk] using hl
    · simp [applyPrim, applyDisk]
    · intro r hr; simpa [applyPrim, applyDisk] using hr
    · intro i _; simp [applyPrim, applyDisk]
    · intro m e hce hst
      simp only [applyPrim, applyMem] at hce
      by_cases hmn : m = n
      · subst hmn
        simp only [upd_same, Option.some.injEq] at hce
        subst hce
        exact Or.inr (g (by simpa using hst))
      · rw [upd_other _ _ _ _ hmn] at hce
        exact Or.inl ⟨e, hce, hst, rfl⟩
  | cacheDel n =>
    apply h.transfer
    · intro l i hl; cases l <;> simpa [applyPrim, applyDisk, lnk] using hl
    · simp [applyPrim, applyDisk]
    · intro r hr; simpa [applyPrim, applyDisk] using hr
    · intro i _; simp [applyPrim, applyDisk]
    · intro m e hce hst
      simp only [applyPrim, applyMem] at hce
      by_cases hmn : m = n
      · subst hmn; simp at hce
      · rw [upd_other _ _ _ _ hmn] at hce
        exact Or.inl ⟨e, hce, hst, rfl⟩
  | nextFinalSet n =>
    apply h.transfer
    · intro l i hl; cases l <;> simpa [applyPrim, applyDisk, lnk] using hl
    · simp [applyPrim, applyDisk]
    · intro r hr; simpa [applyPrim, applyDisk] using hr
    · intro i _; simp [applyPrim, applyDisk]
    · intro m e hce hst
      simp only [applyPrim, applyMem] at hce
      split at hce
      · rename_i e1 he1
        by_cases hmn : m = n
        · subst hmn
          simp only [upd_same, Option.some.injEq] at hce
          subst hce
          exact Or.inl ⟨e1, he1, by simpa using hst, rfl⟩
        · simp only [upd_other _ _ _ _ hmn] at hce
          exact Or.inl ⟨e, hce, hst, rfl⟩
      · exact Or.inl ⟨e, hce, hst, rfl⟩
  | renPartFull n =>
    cases hp : s.disk.part n with
    | none => refine h.same ?_ ?_ ?_ ?_ ?_ <;> simp [applyPrim, applyDisk, hp, applyMem]
    | some i =>
      have hd : (applyPrim s (.renPartFull n)).disk =
          { s.disk with full := upd s.disk.full n (some i), part := upd s.disk.part n none } := by
        simp [applyPrim, applyDisk, hp]
      have hm : (applyPrim s (.renPartFull n)).mem = s.mem := by simp [applyPrim, applyMem]
      refine ⟨?_, ?_, ?_⟩
      · rw [hd]
        refine h.links.move (.part n) (.full n) ?_
        intro l j hj
        cases l with
        | part m =>
          by_cases hmn : m = n
          · subst hmn; simp [lnk] at hj
          · right; exact ⟨by simpa using hmn, by simpa [lnk, upd_other _ _ _ _ hmn] using hj⟩
        | full m =>
          by_cases hmn : m = n
          · subst hmn; left; exact ⟨rfl, by simpa [lnk, hp] using hj⟩
          · right; exact ⟨by simp, by simpa [lnk, upd_other _ _ _ _ hmn] using hj⟩
        | wait m => right; exact ⟨by simp, by simpa [lnk] using hj⟩
        | final t => right; exact ⟨by simp, by simpa [lnk] using hj⟩
      · intro m j e hw hce hst
        rw [hd] at hw ⊢; rw [hm] at hce
        exact h.jw m j e hw hce hst
      · intro t j hf
        rw [hd] at hf ⊢
        exact h.jf t j hf
  | renFullWait n =>
    cases hp : s.disk.full n with
    | none => refine h.same ?_ ?_ ?_ ?_ ?_ <;> simp [applyPrim, applyDisk, hp, applyMem]
    | some i =>
      have hd : (applyPrim s (.renFullWait n)).disk =
          { s.disk with wait := upd s.disk.wait n (some i), full := upd s.disk.full n none } := by
        simp [applyPrim, applyDisk, hp]
      have hm : (applyPrim s (.renFullWait n)).mem = s.mem := by simp [applyPrim, applyMem]
      refine ⟨?_, ?_, ?_⟩
      · rw [hd]
        refine h.links.move (.full n) (.wait n) ?_
        intro l j hj
        cases l with
        | full m =>
          by_cases hmn : m = n
          · subst hmn; simp [lnk] at hj
          · right; exact ⟨by simpa using hmn, by simpa [lnk, upd_other _ _ _ _ hmn] using hj⟩
        | wait m =>
          by_cases hmn : m = n
          · subst hmn; left; exact ⟨rfl, by simpa [lnk, hp] using hj⟩
          · right; exact ⟨by simp, by simpa [lnk, upd_other _ _ _ _ hmn] using hj⟩
        | part m => right; exact ⟨by simp, by simpa [lnk] using hj⟩
        | final t => right; exact ⟨by simp, by simpa [lnk] using hj⟩
      · intro m j e hw hce hst
        rw [hd] at hw ⊢; rw [hm] at hce
        by_cases hmn : m = n
        · subst hmn; exact absurd hst (g e hce)
        · simp only [upd_other _ _ _ _ hmn] at hw
          exact h.jw m j e hw hce hst
      · intro t j hf
        rw [hd] at hf ⊢
        exact h.jf t j hf
  | renWaitFinal n t =>
    cases hp : s.disk.wait n with
    | none => refine h.same ?_ ?_ ?_ ?_ ?_ <;> simp [applyPrim, applyDisk, hp, applyMem]
    | some i =>
      have hd : (applyPrim s (.renWaitFinal n t)).disk =
          { s.disk with final := upd s.disk.final t (some i), wait := upd s.disk.wait n none } := by
        simp [applyPrim, applyDisk, hp]
      have hm : (applyPrim s (.renWaitFinal n t)).mem = s.mem := by simp [applyPrim, applyMem]
      refine ⟨?_, ?_, ?_⟩
      · rw [hd]
        refine h.links.move (.wait n) (.final t) ?_
        intro l j hj
        cases l with
        | wait m =>
          by_cases hmn : m = n
          · subst hmn; simp [lnk] at hj
          · right; exact ⟨by simpa using hmn, by simpa [lnk, upd_other _ _ _ _ hmn] using hj⟩
        | final m =>
          by_cases hmn : m = t
          · subst hmn; left; exact ⟨rfl, by simpa [lnk, hp] using hj⟩
          · right; exact ⟨by simp, by simpa [lnk, upd_other _ _ _ _ hmn] using hj⟩
        | part m => right; exact ⟨by simp, by simpa [lnk] using hj⟩
        | full m => right; exact ⟨by simp, by simpa [lnk] using hj⟩
      · intro m j e hw hce hst
        rw [hd] at hw ⊢; rw [hm] at hce
        by_cases hmn : m = n
        · subst hmn; simp at hw
        · simp only [upd_other _ _ _ _ hmn] at hw
          exact h.jw m j e hw hce hst
      · intro t' j hf
        rw [hd] at hf ⊢
        by_cases htt : t' = t
        · subst htt
          simp only [upd_same, Option.some.injEq] at hf
          subst hf
          exact g _ hp
        · simp only [upd_other _ _ _ _ htt] at hf
          exact h.jf t' j hf
  | cmpCommit n now =>
    refine h.same ?_ ?_ ?_ ?_ ?_ <;> simp only [applyPrim, applyDisk, applyMem] <;>
      (try intro l) <;> split <;> (try cases l) <;> simp [lnk]
  | rmCmpIf n hh =>
    refine h.same ?_ ?_ ?_ ?_ ?_ <;> simp only [applyPrim, applyDisk, applyMem] <;>
      (try intro l) <;> (try split) <;> (try split) <;> (try cases l) <;> simp [lnk]
  | waitAdd a b c =>
    refine h.same ?_ ?_ ?_ ?_ ?_ <;> simp only [applyPrim, applyDisk, applyMem] <;>
      (try intro l) <;> (try split) <;> (try cases l) <;> simp [lnk]
  | _ =>
    refine h.same ?_ ?_ ?_ ?_ ?_ <;> simp only [applyPrim, applyDisk, applyMem] <;>
      (try intro l) <;> (try cases l) <;> simp [lnk]

/-! ## guards of the operations -/

/-- primitives whose guard is trivially true -/
def easy : Prim → Bool
  | .writeIno .. | .corrupt .. | .renFullWait .. | .renWaitFinal .. => false
  | .cacheSet _ e => e.state != .validated
  | _ => true

theorem easy_IG (H : Body → String) (s : State) (p : Prim) (h : easy p = true) : IG H s p := by
  cases p <;> simp only [IG, easy] at h ⊢ <;> (try trivial) <;> (try cases h)
  intro hst; simp [hst] at h

theorem Guards_of_all_easy (H : Body → String) (s : State) (ps : List Prim)
    (h : ps.all easy = true) : Guards (IG H) s ps := by
  induction ps generalizing s with
  | nil => trivial
  | cons p ps ih =>
    simp only [List.all_cons, Bool.and_eq_true] at h
    exact ⟨easy_IG H s p h.1, ih _ h.2⟩

theorem toCache_easy (m : Mem) (n : Name) (e : Entry) (st : FState) (now : Int)
    (h1 : st ≠ .validated) : (toCache m n e st now).all easy = true := by
  unfold toCache
  simp only [List.all_append, Bool.and_eq_true]
  refine ⟨⟨?_, ?_⟩, ?_⟩
  · split <;> simp [easy]
  · simp [easy, h1]
  · split <;> simp [easy]

theorem toCache_mem (m : Mem) (n : Name) (e : Entry) (st : FState) (now : Int) :
    (toCache m n e st now).all (fun p => !p.durable) = true := by
  unfold toCache
  simp only [List.all_append, Bool.and_eq_true]
  refine ⟨⟨?_, ?_⟩, ?_⟩
  · split <;> simp [Prim.durable]
  · simp [Prim.durable]
  · split <;> simp [Prim.durable]

theorem run_disk_of_mem (s : State) (ps : List Prim)
    (h : ps.all (fun p => !p.durable) = true) : (run s ps).disk = s.disk := by
  induction ps generalizing s with
  | nil => rfl
  | cons p ps ih =>
    simp only [List.all_cons, Bool.and_eq_true, Bool.not_eq_true'] at h
    rw [run_cons, ih _ (by simpa using h.2)]
    simp [applyPrim, applyDisk_mem _ _ h.1]

/-- the guards of memory-only primitives depend on the disk only -/
theorem IG_mem_disk (H : Body → String) (s s' : State) (p : Prim) (hp : p.durable = false)
    (hd : s'.disk = s.disk) (g : IG H s p) : IG H s' p := by
  cases p <;> simp [Prim.durable] at hp <;> simp only [IG] at g ⊢
  rw [hd]; exact g

theorem Guards_mem (H : Body → String) (s : State) (ps : List Prim)
    (hm : ps.all (fun p => !p.durable) = true) (hg : ∀ p ∈ ps, IG H s p) :
    Guards (IG H) s ps := by
  suffices ∀ s', s'.disk = s.disk → Guards (IG H) s' ps from this s rfl
  induction ps with
  | nil => intro _ _; trivial
  | cons p ps ih =>
    intro s' hd
    simp only [List.all_cons, Bool.and_eq_true, Bool.not_eq_true'] at hm
    refine ⟨IG_mem_disk H s s' p hm.1 hd (hg p (by simp)), ?_⟩
    apply ih (by simpa using hm.2) (fun q hq => hg q (by simp [hq]))
    simp [applyPrim, applyDisk_mem _ _ hm.1, hd]

theorem toCache_guards (H : Body → String) (s : State) (m : Mem) (n : Name) (e : Entry)
    (st : FState) (now : Int)
    (hv : st = .validated → ∀ i, s.disk.wait n = some i → H (s.disk.body i) = e.hash) :
    Guards (IG H) s (toCache m n e st now) := by
  apply Guards_mem H s _ (toCache_mem m n e st now)
  intro p hp
  unfold toCache at hp
  simp only [List.mem_append, List.mem_singleton] at hp
  rcases hp with (hp | hp) | hp
  · split at hp <;> simp at hp
    subst hp; trivial
  · subst hp
    simpa [IG] using hv
  · split at hp <;> simp at hp
    subst hp; trivial

theorem prepare_easy (s : State) (n : Name) (size now : Int) :
    (prepareEffects s n size now).all easy = true := by
  unfold prepareEffects
  split <;> (try split) <;> (try split) <;> simp [easy]

theorem record_easy (s : State) (n : Name) (m : Meta) (beg fin now : Int) :
    (recordEffects s n m beg fin now).all easy = true := by
  unfold recordEffects
  simp only [List.all_append, Bool.and_eq_true]
  refine ⟨by simp [easy], ?_⟩
  split
  · split
    · split
      · simp only [List.all_append, Bool.and_eq_true]; refine ⟨by simp [easy], ?_⟩
        split <;> simp [easy]
      · split
        · simp only [List.all_append, Bool.and_eq_true]
          exact ⟨⟨by simp [easy], toCache_easy _ _ _ _ _ (by decide)⟩, by simp [easy]⟩
        · exact toCache_easy _ _ _ _ _ (by decide)
    · split
      · simp only [List.all_append, Bool.and_eq_true]
        exact ⟨⟨by simp [easy], toCache_easy _ _ _ _ _ (by decide)⟩, by simp [easy]⟩
      · exact toCache_easy _ _ _ _ _ (by decide)
  · simp

theorem timer_easy (s : State) (n : Name) : (timerEffects s n).all easy = true := by
  unfold timerEffects
  split <;> (try split) <;> simp [easy]

theorem received_easy (s : State) (n : Name) (m : Meta) :
    (receivedEffects s n m).all easy = true := by
  unfold receivedEffects
  simp only [List.all_append, Bool.and_eq_true]
  refine ⟨by simp [easy], ?_⟩
  split <;> (try split) <;> simp [easy]

theorem cleanStrayOne_easy (s : State) (now : Int) (n : Name) :
    (cleanStrayOne s now n).all easy = true := by
  unfold cleanStrayOne
  simp only [List.all_append, Bool.and_eq_true]
  constructor <;> (split <;> simp [easy])

theorem cleanStrays_easy (s : State) (now : Int) (names : List Name) :
    (cleanStraysEffects s now names).all easy = true := by
  unfold cleanStraysEffects
  simp only [List.all_flatMap]
  simp [cleanStrayOne_easy]

theorem buildCacheLoad_easy (recs : List LogRec) (cached : Name → Bool) (now : Int) :
    (buildCacheLoad recs cached now).all easy = true := by
  induction recs generalizing cached with
  | nil => simp [buildCacheLoad]
  | cons r rs ih =>
    unfold buildCacheLoad
    split
    · exact ih _
    · simp only [List.all_cons, Bool.and_eq_true]
      exact ⟨by simp [easy], ih _⟩

theorem buildCache_easy (s : State) (frm now : Int) :
    (buildCacheEffects s frm now).all easy = true := by
  unfold buildCacheEffects
  split
  · split
    · simp
    · simp only [List.all_append, Bool.and_eq_true]
      refine ⟨⟨buildCacheLoad_easy _ _ _, ?_⟩, by simp [easy]⟩
      split <;> simp [easy]
  · simp only [List.all_append, Bool.and_eq_true]
    refine ⟨⟨buildCacheLoad_easy _ _ _, ?_⟩, by simp [easy]⟩
    split <;> simp [easy]

/-- `processCore` computed in `s`, executed in a state with the same disk and cache: the rename
    to `.wait` happens on a file in state received, and the entry cached as validated carries
    the hash that was just checked. No invariant is needed. -/
theorem processCore_guards (H : Body → String) (s s' : State) (n : Name) (e : Entry) (now : Int)
    (hd : s'.disk = s.disk) (hc : s'.mem.cache = s.mem.cache) :
    Guards (IG H) s' (processCore H s n e now) := by
  unfold processCore
  by_cases hst : stateOf s.mem n ≠ some .received
  · rw [if_pos hst]; exact Guards_of_all_easy H _ _ (by simp [easy])
  · rw [if_neg hst]
    have hst' : stateOf s.mem n = some .received := by simpa using hst
    cases hf : s.disk.full n with
    | none =>
      apply Guards_of_all_easy
      simp only [List.all_append, Bool.and_eq_true]
      exact ⟨by simp [easy], by simp [easy], toCache_easy _ _ _ _ _ (by decide)⟩
    | some i =>
      simp only
      by_cases hh : H (s.disk.body i) ≠ e.hash
      · rw [if_pos hh]
        apply Guards_of_all_easy
        simp only [List.all_append, Bool.and_eq_true]
        exact ⟨by simp [easy], toCache_easy _ _ _ _ _ (by decide)⟩
      · rw [if_neg hh]
        have hh' : H (s.disk.body i) = e.hash := by simpa using hh
        refine ⟨trivial, ?_, ?_⟩
        · -- renFullWait in a state whose cache entry is `received`
          intro e0 he0
          simp only [applyPrim, applyMem] at he0
          rw [hc] at he0
          simp only [stateOf, he0, Option.map_some, Option.some.injEq] at hst'
          rw [hst']; decide
        · apply Guards.append
          · apply toCache_guards
            intro _ j hj
            simp only [applyPrim, applyDisk, hd, hf, upd_same, Option.some.injEq] at hj ⊢
            subst hj
            exact hh'
          · exact Guards_of_all_easy H _ _ (by simp [easy])

theorem processEffects_guards (H : Body → String) (s : State) (n : Name) (now : Int) :
    Guards (IG H) s (processEffects H s n now) := by
  unfold processEffects
  split
  · trivial
  · exact ⟨trivial, processCore_guards H s _ n _ now rfl rfl⟩

/-- `finalize` computed in `s` (where the invariant holds), executed in a state with the same
    disk and cache -/
theorem integ_finalize_guards (H : Body → String) (s s' : State) (n : Name) (e : Entry) (now : Int)
    (hI : Integ H s) (hd : s'.disk = s.disk) :
    Guards (IG H) s' (finalizeEffects s n e now) := by
  unfold finalizeEffects
  by_cases hcond : stateOf s.mem n ≠ some .validated ∨ (s.mem.cache n).map (·.hash) ≠ some e.hash
  · rw [if_pos hcond]; exact Guards_of_all_easy H _ _ (by simp [easy])
  · rw [if_neg hcond]
    cases hw : s.disk.wait n with
    | none => exact Guards_of_all_easy H _ _ (by simp [easy])
    | some i =>
      simp only
      have hcond' : stateOf s.mem n = some .validated ∧ (s.mem.cache n).map (·.hash) = some e.hash := by
        constructor
        · apply Classical.byContradiction; intro h; exact hcond (Or.inl h)
        · apply Classical.byContradiction; intro h; exact hcond (Or.inr h)
      obtain ⟨hst, hhash⟩ := hcond'
      cases hce : s.mem.cache n with
      | none => simp [stateOf, hce] at hst
      | some ce =>
        simp only [stateOf, hce, Option.map_some, Option.some.injEq] at hst hhash
        have hbody : H (s.disk.body i) = e.hash := by rw [← hhash]; exact hI.jw n i ce hw hce hst
        refine ⟨trivial, trivial, trivial, ?_, ?_⟩
        · intro j hj
          simp only [applyPrim, applyDisk, hd] at hj ⊢
          rw [hw] at hj
          simp only [Option.some.injEq] at hj
          subst hj
          exact ⟨⟨n, e.renamed, e.hash, e.size, now, e.prev⟩, by simp, rfl, hbody⟩
        · apply Guards_of_all_easy
          simp only [List.append_eq, List.nil_append, List.append_assoc, List.all_append,
            Bool.and_eq_true]
          refine ⟨toCache_easy _ _ _ _ _ (by decide), by simp [easy], ?_, by simp [easy]⟩
          simp [List.all_eq_true, easy]

theorem integ_finh_guards (H : Body → String) (s : State) (n : Name) (now : Int) (hI : Integ H s) :
    Guards (IG H) s (finhEffects s n now) := by
  unfold finhEffects
  split
  · trivial
  · refine ⟨trivial, ?_⟩
    split
    · trivial
    · split
      · exact integ_finalize_guards H s _ n _ now hI rfl
      · apply Guards_of_all_easy
        simp only [List.append_eq, List.nil_append, List.all_append, Bool.and_eq_true]
        refine ⟨⟨by simp [easy], ?_⟩, by simp [easy]⟩
        split <;> simp [easy]

/-! ### operations that are folds over states -/

/-- a fold whose step runs a list of primitives from the accumulated state and appends it: if
    each step's list meets the guards (given a fold invariant `Q` of the state), so does the
    accumulated list. -/
theorem Guards_foldl {α : Type} {G : State → Prim → Prop} (Q : State → Prop)
    (step : State × List Prim → α → State × List Prim) (xs : List α)
    (hstep : ∀ acc x, x ∈ xs → Q acc.1 →
      ∃ ps, step acc x = (run acc.1 ps, acc.2 ++ ps) ∧ Guards G acc.1 ps ∧ Q (run acc.1 ps))
    (s0 : State) (acc : State × List Prim) (hq : Q acc.1) (he : acc.1 = run s0 acc.2)
    (hg : Guards G s0 acc.2) :
    Guards G s0 (xs.foldl step acc).2 ∧ (xs.foldl step acc).1 = run s0 (xs.foldl step acc).2 ∧
      Q (xs.foldl step acc).1 := by
  induction xs generalizing acc with
  | nil => exact ⟨hg, he, hq⟩
  | cons x xs ih =>
    simp only [List.foldl_cons]
    obtain ⟨ps, hs, hgs, hqs⟩ := hstep acc x (by simp) hq
    apply ih (fun acc y hy => hstep acc y (by simp [hy]))
    · rw [hs]; exact hqs
    · rw [hs]; simp only; rw [run_append, ← he]
    · rw [hs]; simp only; exact Guards.append hg (by rw [← he]; exact hgs)

theorem Integ_run (H : Body → String) (s : State) (ps : List Prim) (h : Integ H s)
    (g : Guards (IG H) s ps) : Integ H (run s ps) :=
  inv_run (Integ_step H) ps s h g

theorem step_pack {H : Body → String} {s : State} {l : List Prim} (hI : Integ H s) (ps : List Prim)
    (hg : Guards (IG H) s ps) :
    ∃ ps', (run s ps, l ++ ps) = (run s ps', l ++ ps') ∧ Guards (IG H) s ps' ∧
      Integ H (run s ps') :=
  ⟨ps, rfl, hg, Integ_run H s ps hI hg⟩

theorem cleanWaitingStep_guards (H : Body → String) (acc : State × List Prim) (c : Name × Entry)
    (hI : Integ H acc.1) :
    ∃ ps, cleanWaitingStep acc c = (run acc.1 ps, acc.2 ++ ps) ∧ Guards (IG H) acc.1 ps ∧
      Integ H (run acc.1 ps) := by
  unfold cleanWaitingStep
  simp only
  split
  · exact ⟨[], by simp, trivial, hI⟩
  · split
    · exact ⟨[], by simp, trivial, hI⟩
    · apply step_pack hI
      · apply Guards_mem
        · simp only [List.all_append, List.all_flatMap, Bool.and_eq_true]
          refine ⟨by simp [Prim.durable], ?_⟩
          simp only [List.all_eq_true]
          intro w _
          split
          · split <;> simp [Prim.durable]
          · simp
        · intro p hp
          simp only [List.mem_append, List.mem_singleton, List.mem_flatMap] at hp
          rcases hp with hp | ⟨w, _, hp⟩
          · subst hp; trivial
          · split at hp
            · rename_i f hf
              split at hp
              · rename_i hfv
                simp only [List.mem_cons, List.not_mem_nil, or_false] at hp
                rcases hp with hp | hp | hp
                · subst hp; trivial
                · subst hp
                  intro _ i hi
                  exact hI.jw _ i f hi hf hfv
                · subst hp; trivial
              · simp at hp
            · simp at hp

theorem cleanWaiting_guards (H : Body → String) (s : State) (names : List Name) (hI : Integ H s) :
    Guards (IG H) s (cleanWaitingEffects s names) := by
  unfold cleanWaitingEffects
  simp only
  exact (Guards_foldl (Integ H) cleanWaitingStep _
    (fun acc x _ hq => cleanWaitingStep_guards H acc x hq) s (s, []) hI rfl trivial).1

/-- primitives that are `easy` and leave `.wait` links and all bodies alone -/
def calm : Prim → Bool
  | .writeIno .. | .corrupt .. | .renFullWait .. | .renWaitFinal .. | .createPart ..
  | .truncPart .. => false
  | .cacheSet _ e => e.state != .validated
  | _ => true

theorem calm_easy (p : Prim) (h : calm p = true) : easy p = true := by
  cases p <;> simp_all [calm, easy]

theorem all_calm_easy (ps : List Prim) (h : ps.all calm = true) : ps.all easy = true := by
  simp only [List.all_eq_true] at h ⊢
  exact fun p hp => calm_easy p (h p hp)

theorem calm_wb (s : State) (p : Prim) (h : calm p = true) :
    (applyPrim s p).disk.wait = s.disk.wait ∧ (applyPrim s p).disk.body = s.disk.body := by
  cases p <;> simp [calm] at h <;> simp only [applyPrim, applyDisk] <;> (try split) <;>
    (try split) <;> simp

theorem run_calm_wb (s : State) (ps : List Prim) (h : ps.all calm = true) :
    (run s ps).disk.wait = s.disk.wait ∧ (run s ps).disk.body = s.disk.body := by
  induction ps generalizing s with
  | nil => exact ⟨rfl, rfl⟩
  | cons p ps ih =>
    simp only [List.all_cons, Bool.and_eq_true] at h
    rw [run_cons]
    obtain ⟨a, b⟩ := ih (applyPrim s p) h.2
    obtain ⟨c, d⟩ := calm_wb s p h.1
    exact ⟨a.trans c, b.trans d⟩

theorem mem_calm (p : Prim) (h : p.durable = false) (he : easy p = true) : calm p = true := by
  cases p <;> simp_all [calm, easy, Prim.durable]

theorem recoverWalk_calm (H : Body → String) (d : Disk) (n : Name) :
    (recoverWalk H d n).1.all calm = true := by
  unfold recoverWalk
  repeat' split
  all_goals simp [calm]

theorem recoverWalk_finalize (H : Body → String) (d : Disk) (n : Name) (c : Cmp)
    (h : (recoverWalk H d n).2 = .finalize c) :
    ∀ i, d.wait n = some i → H (d.body i) = c.hash := by
  intro i hi
  unfold recoverWalk at h
  cases hc : d.cmp n with
  | none => simp [hc] at h
  | some c0 =>
    simp only [hc, hi, beq_iff_eq] at h
    by_cases hh : H (d.body i) = c0.hash
    · simp only [hh, if_true, RecClass.finalize.injEq] at h
      rw [← h]; exact hh
    · simp only [hh, if_false] at h
      repeat' split at h
      all_goals simp at h

theorem buildCacheLoad_calm (recs : List LogRec) (cached : Name → Bool) (now : Int) :
    (buildCacheLoad recs cached now).all calm = true := by
  induction recs generalizing cached with
  | nil => simp [buildCacheLoad]
  | cons r rs ih =>
    unfold buildCacheLoad
    split
    · exact ih _
    · simp only [List.all_cons, Bool.and_eq_true]
      exact ⟨by simp [calm], ih _⟩

theorem buildCache_calm (s : State) (frm now : Int) :
    (buildCacheEffects s frm now).all calm = true := by
  unfold buildCacheEffects
  split
  · split
    · simp
    · simp only [List.all_append, Bool.and_eq_true]
      refine ⟨⟨buildCacheLoad_calm _ _ _, ?_⟩, by simp [calm]⟩
      split <;> simp [calm]
  · simp only [List.all_append, Bool.and_eq_true]
    refine ⟨⟨buildCacheLoad_calm _ _ _, ?_⟩, by simp [calm]⟩
    split <;> simp [calm]

theorem integ_recover_guards (H : Body → String) (s : State) (now : Int) (names : List Name) :
    Guards (IG H) s (recoverEffects H s now names) := by
  unfold recoverEffects
  extract_lets walk p1 s1 oldest p2 s2 fins vals stepF r3 stepV r4
  have hp1c : p1.all calm = true := by
    simp only [p1, List.all_append, List.all_flatMap, Bool.and_eq_true]
    refine ⟨by simp [calm], ?_⟩
    simp only [List.all_eq_true]
    intro x hx
    simp only [walk, List.mem_map] at hx
    obtain ⟨n, _, rfl⟩ := hx
    exact List.all_eq_true.mp (recoverWalk_calm H s.disk n)
  have hp2c : p2.all calm = true := buildCache_calm s1 _ now
  have hs2 : s2 = run s (p1 ++ p2) := by simp only [s2, s1, run_append]
  have hwb : s2.disk.wait = s.disk.wait ∧ s2.disk.body = s.disk.body := by
    rw [hs2]; exact run_calm_wb s _ (by simp [List.all_append, hp1c, hp2c])
  have h12 : Guards (IG H) s (p1 ++ p2) :=
    Guards_of_all_easy H s _ (all_calm_easy _ (by simp [List.all_append, hp1c, hp2c]))
  -- the finalize list
  have hfin : ∀ x ∈ fins, ∀ i, s.disk.wait x.1 = some i → H (s.disk.body i) = x.2.hash := by
    intro x hx
    simp only [fins, List.mem_filterMap] at hx
    obtain ⟨y, hy, hyx⟩ := hx
    simp only [walk, List.mem_map] at hy
    obtain ⟨n, _, rfl⟩ := hy
    simp only at hyx
    split at hyx
    · rename_i c hc
      simp only [Option.some.injEq] at hyx
      subst hyx
      exact recoverWalk_finalize H s.disk n c hc
    · simp at hyx
  have h3 := Guards_foldl (G := IG H)
    (fun t => t.disk.wait = s.disk.wait ∧ t.disk.body = s.disk.body) stepF fins
    (by
      intro acc x hx hq
      refine ⟨_, rfl, ?_, ?_⟩
      · apply Guards.append
        · apply toCache_guards
          intro _ i hi
          rw [hq.1] at hi; rw [hq.2]
          exact hfin x hx i hi
        · exact Guards_of_all_easy H _ _ (by simp [easy])
      · have hm : (run acc.1 (toCache acc.1.mem x.1 (Entry.ofCmp x.2 .validated) .validated now ++
            [Prim.fqPush x.1 { Entry.ofCmp x.2 .validated with time := now }])).disk = acc.1.disk :=
          run_disk_of_mem _ _ (by
            rw [List.all_append, toCache_mem]; simp [Prim.durable])
        rw [hm]; exact hq)
    s2 (s2, []) hwb rfl trivial
  have h4 := Guards_foldl (G := IG H) (fun _ => True) stepV vals
    (by
      intro acc x _ _
      refine ⟨recoverValOne H acc.1 now x, rfl, ?_, trivial⟩
      rcases recoverValOne_cases H acc.1 now x with ⟨_, h⟩ | ⟨_, h⟩ <;> rw [h]
      · exact Guards_of_all_easy H _ _ (by simp [easy])
      · apply Guards.append
        · exact Guards_of_all_easy H _ _ (toCache_easy _ _ _ _ _ (by decide))
        · exact processCore_guards H _ _ _ _ _ rfl rfl)
    s2 r3 trivial h3.2.1 h3.1
  have hall : Guards (IG H) s ((p1 ++ p2) ++ r4.2 ++ [Prim.setReady true]) := by
    apply Guards.append
    · apply Guards.append h12
      rw [← hs2]; exact h4.1
    · exact Guards_of_all_easy H _ _ (by simp [easy])
  simpa [List.append_assoc] using hall

end Sts.Stage
